package main

import (
	"encoding/hex"
	"fmt"
	"math/big"
	mrand "math/rand/v2"
	"strings"

	"github.com/bronlabs/bron-crypto/pkg/base/algebra"
)

// Rng is the single deterministic source of all generator choices (VERIF_SEED).
type Rng struct{ *mrand.Rand }

func NewRng(seed int64, stream uint64) *Rng {
	return &Rng{mrand.New(mrand.NewPCG(uint64(seed), stream))}
}

// Read makes Rng usable as the io.Reader handed to the library (deterministic "randomness").
func (r *Rng) Read(p []byte) (int, error) {
	for i := range p {
		p[i] = byte(r.Uint32())
	}
	return len(p), nil
}

func (r *Rng) BigBelow(n *big.Int) *big.Int {
	b := make([]byte, (n.BitLen()+7)/8+8)
	_, _ = r.Read(b)
	v := new(big.Int).SetBytes(b)
	return v.Mod(v, n)
}

func hexNat(v *big.Int) string { return v.Text(16) }

func hexBytes(b []byte) string {
	if len(b) == 0 {
		return "-"
	}
	return hex.EncodeToString(b)
}

func joinComma(xs []string) string {
	if len(xs) == 0 {
		return "-"
	}
	return strings.Join(xs, ",")
}

// scalarHex renders a prime-field element as lower-case hex of its canonical value.
func scalarHex[S algebra.PrimeFieldElement[S]](s S) string {
	return new(big.Int).SetBytes(s.BytesBE()).Text(16)
}

func scalarsHex[S algebra.PrimeFieldElement[S]](xs []S) string {
	out := make([]string, len(xs))
	for i, x := range xs {
		out[i] = scalarHex(x)
	}
	return joinComma(out)
}

func fieldOrder[S algebra.PrimeFieldElement[S]](f algebra.PrimeField[S]) *big.Int {
	return new(big.Int).SetBytes(f.Order().BytesBE())
}

// scalarFromBig maps an integer (any sign/size) to the field element of its residue.
func scalarFromBig[S algebra.PrimeFieldElement[S]](f algebra.PrimeField[S], v *big.Int) S {
	q := fieldOrder(f)
	r := new(big.Int).Mod(v, q)
	b := make([]byte, f.ElementSize())
	r.FillBytes(b)
	s, err := f.FromBytesBEReduce(b)
	if err != nil {
		panic(fmt.Sprintf("scalarFromBig: %v", err))
	}
	return s
}

// smallOrRandom draws field elements that make coincidences (rank deficiency,
// zero pivots, repeated values) frequent: mostly from {0,1,2,-1,3}, sometimes uniform.
func smallOrRandom[S algebra.PrimeFieldElement[S]](r *Rng, f algebra.PrimeField[S], pSmall int) S {
	if r.IntN(100) < pSmall {
		switch r.IntN(6) {
		case 0, 1:
			return f.Zero()
		case 2:
			return f.One()
		case 3:
			return f.FromUint64(2)
		case 4:
			return f.One().Neg()
		default:
			return f.FromUint64(3)
		}
	}
	return scalarFromBig(f, r.BigBelow(fieldOrder(f)))
}

// safely runs fn and converts a panic into a canonical result string.
func safely(fn func() string) (out string) {
	defer func() {
		if e := recover(); e != nil {
			out = fmt.Sprintf("panic:%v", e)
			out = strings.ReplaceAll(out, " ", "_")
			out = strings.ReplaceAll(out, "\n", "_")
		}
	}()
	return fn()
}
