package main

// C19, part 3: RFC 9380 expanders, hash-to-field and hash-to-curve.
//   xmd <hash> <dst> <len> <msg> => bytes | panic           (repo expander vs Lean expand_message_xmd; spec)
//   xof <shake> <k> <dst> <len> <msg> => bytes | panic
//   h2f <modulus> <hash> <L> <dst> <msg> => scalar          (ScalarField.Hash vs Lean hash_to_field; mirror)
//   h2fs <curve> <modulus> <msg> => scalar                  (ScalarField.Hash; suite string, L, expander regenerated from the source)
//   h2fb <curve> <msg> => element                           (BaseField.Hash, one element under the curve's default DST)
//   h2c <curve> <dst> <msg> => point                        (HashWithDst)
//   h2cdef <curve> <msg> => point                           (Hash; the default DST comes from the regenerated suite string)
//   h2cmap <curve> <u0> <u1> => point                       (Curve.Random with a scripted reader: chosen field elements, incl.
//                                                            u = 0, Z·u² = -1, isogeny-kernel preimages, sgn0 edge cases)
//   h2cvec <curve> <dst> <msg> <expected> => point          (published vectors)
// The driver decides every point line against the straight-line RFC 9380 specification (on curve, in the prime-order
// subgroup, equal to clear_cofactor(map(u0)+map(u1))) and ties the formulas regenerated from the Go source to it.
// Go-side oracles: determinism, Hash = HashWithDst(default DST), DST and message dependence.

import (
	"bytes"
	"crypto/sha256"
	"crypto/sha3"
	"crypto/sha512"
	"fmt"
	"hash"
	"io"
	"math/big"
	"strings"

	"golang.org/x/crypto/blake2b"

	"github.com/bronlabs/bron-crypto/pkg/base"
	"github.com/bronlabs/bron-crypto/pkg/base/algebra"
	"github.com/bronlabs/bron-crypto/pkg/base/curves/curve25519"
	"github.com/bronlabs/bron-crypto/pkg/base/curves/edwards25519"
	edwards25519Impl "github.com/bronlabs/bron-crypto/pkg/base/curves/edwards25519/impl"
	"github.com/bronlabs/bron-crypto/pkg/base/curves/impl/rfc9380"
	"github.com/bronlabs/bron-crypto/pkg/base/curves/k256"
	"github.com/bronlabs/bron-crypto/pkg/base/curves/p256"
	"github.com/bronlabs/bron-crypto/pkg/base/curves/pairable/bls12381"
	"github.com/bronlabs/bron-crypto/pkg/base/curves/pasta"
)

func c19Dst(r *Rng) []byte {
	switch r.IntN(8) {
	case 0:
		return c19RandBytes(r, 256+r.IntN(100)) // oversize DST path
	case 1:
		return c19RandBytes(r, []int{0, 1, 255, 256}[r.IntN(4)])
	case 2:
		return []byte("QUUX-V01-CS02-with-expander-SHA256-128")
	default:
		return c19RandBytes(r, 1+r.IntN(60))
	}
}

func c19DstLenClass(n int) string {
	switch {
	case n == 0:
		return "0"
	case n < 254:
		return "short"
	case n <= 256:
		return fmt.Sprint(n)
	}
	return "oversize"
}

func c19ExpLen(r *Rng, hashLen int) int {
	switch r.IntN(8) {
	case 0:
		return []int{0, 1, hashLen - 1, hashLen, hashLen + 1, 2 * hashLen, 255 * hashLen}[r.IntN(7)]
	case 1:
		return 255*hashLen + 1 + r.IntN(10) // abort path (ell > 255), unless > 65535 anyway
	case 2:
		return []int{65535, 65536}[r.IntN(2)]
	default:
		return 1 + r.IntN(300)
	}
}

func c19Expanders(c *Ctx) {
	r := NewRng(c.Seed, 1902)
	n := 150
	if c.Thorough() {
		n = 1500
	}
	xmds := []struct {
		name string
		e    rfc9380.MessageExpander
		size int
	}{
		{"sha256", rfc9380.NewXMDMessageExpander(sha256.New), 32},
		{"sha512", rfc9380.NewXMDMessageExpander(sha512.New), 64},
		{"sha3_256", rfc9380.NewXMDMessageExpander(sha3.New256), 32},
		{"blake2b512", rfc9380.NewXMDMessageExpander(func() hash.Hash { h, _ := blake2b.New512(nil); return h }), 64},
	}
	// deterministic boundary grid first: DST lengths around the 255-octet rule of RFC 9380 §5.3.3 × output lengths
	type expCase struct {
		dst, msg []byte
		l        int
	}
	grid := func(hashLen int) []expCase {
		var cs []expCase
		for _, dl := range []int{0, 1, 254, 255, 256, 257, 400} {
			for _, ol := range []int{1, hashLen, hashLen + 1, 3*hashLen - 1} {
				cs = append(cs, expCase{c19RandBytes2(r, dl), c19RandBytes(r, r.IntN(80)), ol})
			}
		}
		return cs
	}
	for _, x := range xmds {
		cases := grid(x.size)
		for i := 0; i < n; i++ {
			cases = append(cases, expCase{c19Dst(r), c19RandBytes(r, r.IntN(200)), c19ExpLen(r, x.size)})
		}
		for _, cs := range cases {
			dst, msg, l := cs.dst, cs.msg, cs.l
			c.Count(fmt.Sprintf("xmd.dstlen.%s", c19DstLenClass(len(dst))))
			res := safely(func() string { return hexBytes(x.e.ExpandMessage(dst, msg, uint(l))) })
			if strings.HasPrefix(res, "panic:") {
				res = "panic"
				c.Count("xmd.abort")
			}
			if l == 0 {
				c19Trivial(c)
			}
			c.Count("xmd." + x.name)
			c.Emit(fmt.Sprintf("xmd %s %s %d %s", x.name, hexBytes(dst), l, hexBytes(msg)), res)
		}
	}
	for _, x := range []struct {
		name string
		k    uint
	}{{"shake128", 128}, {"shake256", 256}} {
		cases := grid(32)
		for i := 0; i < n; i++ {
			cases = append(cases, expCase{c19Dst(r), c19RandBytes(r, r.IntN(200)), c19ExpLen(r, 32)})
		}
		for _, cs := range cases {
			var h hash.XOF
			if x.name == "shake128" {
				h = sha3.NewSHAKE128()
			} else {
				h = sha3.NewSHAKE256()
			}
			e := rfc9380.NewXOFMessageExpander(h, x.k)
			dst, msg, l := cs.dst, cs.msg, cs.l
			c.Count(fmt.Sprintf("xof.dstlen.%s", c19DstLenClass(len(dst))))
			res := safely(func() string { return hexBytes(e.ExpandMessage(dst, msg, uint(l))) })
			if strings.HasPrefix(res, "panic:") {
				res = "panic"
				c.Count("xof.abort")
			}
			if l == 0 {
				c19Trivial(c)
			}
			c.Count("xof." + x.name)
			c.Emit(fmt.Sprintf("xof %s %d %s %d %s", x.name, x.k, hexBytes(dst), l, hexBytes(msg)), res)
		}
	}
}

func c19ScalarHash[S algebra.PrimeFieldElement[S]](c *Ctx, r *Rng, f interface {
	algebra.PrimeField[S]
	Hash([]byte) (S, error)
}, hashName string, L int, dst string, n int) {
	p := hexNat(fieldOrder(f))
	for i := 0; i < n; i++ {
		msg := c19RandBytes(r, r.IntN(100))
		res := safely(func() string {
			s, err := f.Hash(msg)
			if err != nil {
				return "err"
			}
			s2, _ := f.Hash(msg)
			if !s.Equal(s2) {
				c.Violation("ScalarField.Hash is not deterministic")
			}
			return scalarHex(s)
		})
		c.Count("h2f." + hashName)
		c.Emit(fmt.Sprintf("h2f %s %s %d %s %s", p, hashName, L, hexBytes([]byte(dst)), hexBytes(msg)), res)
	}
}

type c19Curve[P any] interface {
	Hash([]byte) (P, error)
	HashWithDst(string, []byte) (P, error)
	Random(io.Reader) (P, error)
}

// c19Reader is the io.Reader handed to Curve.Random: SetRandom of a prime field reads one wide little-endian
// buffer per field element, so each Read call is answered with the little-endian bytes of the next chosen
// value (zero padded), which makes the sampled field element exactly that value.
type c19Reader struct {
	vals     []*big.Int
	n        int
	misfit   bool
	minChunk int
}

func (s *c19Reader) Read(p []byte) (int, error) {
	for i := range p {
		p[i] = 0
	}
	if s.minChunk == 0 || len(p) < s.minChunk {
		s.minChunk = len(p)
	}
	if s.n >= len(s.vals) {
		s.misfit = true
		s.n++
		return len(p), nil
	}
	b := s.vals[s.n].Bytes()
	if len(b) > len(p) {
		s.misfit = true
	}
	for i := 0; i < len(b) && i < len(p); i++ {
		p[i] = b[len(b)-1-i]
	}
	s.n++
	return len(p), nil
}

// what the stream needs of a point (edwards25519.Point is not a curves.Point: it has no designated generator)
type c19Pt[P any, F any] interface {
	Equal(P) bool
	IsOpIdentity() bool
	AffineX() (F, error)
	AffineY() (F, error)
}

func c19PointStr[P c19Pt[P, F], F algebra.FiniteFieldElement[F]](p P) string {
	if p.IsOpIdentity() {
		return "inf"
	}
	x, errX := p.AffineX()
	y, errY := p.AffineY()
	if errX != nil || errY != nil {
		return "inf"
	}
	return feHex(x) + ":" + feHex(y)
}

func c19ElemStr(u []*big.Int) string {
	out := make([]string, len(u))
	for i, c := range u {
		out[i] = c.Text(16)
	}
	return strings.Join(out, "/")
}

// description of one curve's suite for the generator
type c19Suite struct {
	name  string
	p     *big.Int
	m     int
	block int          // input block size of the expander's hash (message-length boundary cases)
	z     []*big.Int   // Z of the SSWU map (nil for Elligator 2)
	extra [][]*big.Int // further exceptional field elements (found offline)
}

func c19Hex(s string) *big.Int {
	v, ok := new(big.Int).SetString(s, 16)
	if !ok {
		panic("bad hex " + s)
	}
	return v
}

func c19Neg(p *big.Int, k int64) *big.Int { return new(big.Int).Sub(p, big.NewInt(k)) }

// square root in Fp2 = Fp[i]/(i²+1), p ≡ 3 (mod 4); nil if a is not a square
func c19Fp2Sqrt(p *big.Int, a []*big.Int) []*big.Int {
	mod := func(x *big.Int) *big.Int { return new(big.Int).Mod(x, p) }
	if a[1].Sign() == 0 {
		if r := new(big.Int).ModSqrt(a[0], p); r != nil {
			return []*big.Int{r, big.NewInt(0)}
		}
		if r := new(big.Int).ModSqrt(mod(new(big.Int).Neg(a[0])), p); r != nil {
			return []*big.Int{big.NewInt(0), r}
		}
		return nil
	}
	norm := mod(new(big.Int).Add(new(big.Int).Mul(a[0], a[0]), new(big.Int).Mul(a[1], a[1])))
	n := new(big.Int).ModSqrt(norm, p)
	if n == nil {
		return nil
	}
	half := new(big.Int).ModInverse(big.NewInt(2), p)
	for _, sgn := range []int64{1, -1} {
		d := mod(new(big.Int).Mul(new(big.Int).Add(a[0], new(big.Int).Mul(big.NewInt(sgn), n)), half))
		x0 := new(big.Int).ModSqrt(d, p)
		if x0 == nil || x0.Sign() == 0 {
			continue
		}
		x1 := mod(new(big.Int).Mul(a[1], new(big.Int).ModInverse(mod(new(big.Int).Add(x0, x0)), p)))
		return []*big.Int{x0, x1}
	}
	return nil
}

// the field elements on which the map takes its exceptional branches
func (s *c19Suite) exceptional() [][]*big.Int {
	zero, one := big.NewInt(0), big.NewInt(1)
	pm1 := c19Neg(s.p, 1)
	var us [][]*big.Int
	if s.m == 1 {
		us = [][]*big.Int{{zero}, {one}, {pm1}, {big.NewInt(2)}, {c19Neg(s.p, 2)}}
		if s.z != nil {
			// Z·u² = -1  (tv1 = -1: the denominator of x1 vanishes)
			zi := new(big.Int).ModInverse(s.z[0], s.p)
			t := new(big.Int).Mod(new(big.Int).Neg(zi), s.p)
			if r := new(big.Int).ModSqrt(t, s.p); r != nil {
				us = append(us, []*big.Int{r}, []*big.Int{new(big.Int).Sub(s.p, r)})
			}
		}
	} else {
		// sgn0 of Fp2 looks at c1 only when c0 = 0
		us = [][]*big.Int{{zero, zero}, {one, zero}, {zero, one}, {zero, big.NewInt(2)}, {zero, pm1}, {zero, c19Neg(s.p, 2)}, {pm1, zero}, {big.NewInt(2), one}, {one, pm1}}
		if s.z != nil {
			// u² = -1/Z
			z0, z1 := s.z[0], s.z[1]
			nrm := new(big.Int).Mod(new(big.Int).Add(new(big.Int).Mul(z0, z0), new(big.Int).Mul(z1, z1)), s.p)
			ni := new(big.Int).ModInverse(nrm, s.p)
			// 1/Z = (z0 - z1 i)/nrm ; -1/Z = (-z0 + z1 i)/nrm
			a0 := new(big.Int).Mod(new(big.Int).Mul(new(big.Int).Neg(z0), ni), s.p)
			a1 := new(big.Int).Mod(new(big.Int).Mul(z1, ni), s.p)
			if r := c19Fp2Sqrt(s.p, []*big.Int{a0, a1}); r != nil {
				us = append(us, r, []*big.Int{new(big.Int).Mod(new(big.Int).Neg(r[0]), s.p), new(big.Int).Mod(new(big.Int).Neg(r[1]), s.p)})
			}
		}
	}
	return append(us, s.extra...)
}

func (s *c19Suite) randElem(r *Rng) []*big.Int {
	u := make([]*big.Int, s.m)
	for i := range u {
		switch r.IntN(10) {
		case 0:
			u[i] = big.NewInt(int64(r.IntN(5)))
		case 1:
			u[i] = new(big.Int).Sub(s.p, big.NewInt(int64(1+r.IntN(4))))
		default:
			u[i] = r.BigBelow(s.p)
		}
	}
	return u
}

func c19MsgLen(r *Rng, block int) int {
	switch r.IntN(10) {
	case 0:
		return 0
	case 1:
		return 1
	case 2:
		return []int{block - 1, block, block + 1, 2 * block, 2*block - 17}[r.IntN(5)]
	case 3:
		return 1000 + r.IntN(4000)
	default:
		return r.IntN(120)
	}
}

func c19CurveDst(r *Rng, defaultDst string) string {
	switch r.IntN(10) {
	case 0:
		return defaultDst
	case 1:
		return ""
	case 2:
		return string(c19RandBytes2(r, 255))
	case 3:
		return string(c19RandBytes2(r, 256))
	case 4:
		return string(c19RandBytes2(r, 257+r.IntN(300)))
	case 5:
		return string(c19RandBytes2(r, 1))
	default:
		return string(c19RandBytes2(r, 1+r.IntN(60)))
	}
}

func c19DstClass(dst, defaultDst string) string {
	switch {
	case dst == defaultDst:
		return "default"
	case len(dst) == 0:
		return "empty"
	case len(dst) == 255:
		return "255"
	case len(dst) > 255:
		return "oversize"
	}
	return "short"
}

func c19LenClass(n, block int) string {
	switch {
	case n == 0:
		return "0"
	case n == 1:
		return "1"
	case n >= 1000:
		return "long"
	case n >= block-1 && n <= block+1 || n == 2*block:
		return "block-boundary"
	}
	return "other"
}

func c19CurveHash[P c19Pt[P, F], F algebra.FiniteFieldElement[F]](c *Ctx, r *Rng, s *c19Suite, cv c19Curve[P], defaultDst string, n, nmap int) {
	name := s.name
	hashOnce := func(dst string, msg []byte, viaDefault bool) string {
		return safely(func() string {
			p, err := cv.HashWithDst(dst, msg)
			if err != nil {
				return "err"
			}
			p2, err := cv.HashWithDst(dst, bytes.Clone(msg))
			if err != nil || !p.Equal(p2) {
				c.Violation(fmt.Sprintf("%s HashWithDst is not deterministic dst=%s msg=%s", name, hexBytes([]byte(dst)), hexBytes(msg)))
			}
			// DST dependence
			other := dst + "'"
			p3, err := cv.HashWithDst(other, msg)
			if err != nil || p.Equal(p3) {
				c.Violation(fmt.Sprintf("%s HashWithDst does not depend on the DST dst=%s msg=%s", name, hexBytes([]byte(dst)), hexBytes(msg)))
			}
			// message dependence
			p4, err := cv.HashWithDst(dst, append([]byte{1}, msg...))
			if err != nil || p.Equal(p4) {
				c.Violation(fmt.Sprintf("%s HashWithDst does not depend on the message dst=%s msg=%s", name, hexBytes([]byte(dst)), hexBytes(msg)))
			}
			if viaDefault {
				p5, err := cv.Hash(msg)
				if err != nil || !p.Equal(p5) {
					c.Violation(fmt.Sprintf("%s Hash != HashWithDst(default DST) msg=%s", name, hexBytes(msg)))
				}
			}
			return c19PointStr(p)
		})
	}
	// every DST class × every message-length class at least once, then random
	type job struct {
		dst string
		ml  int
	}
	var jobs []job
	dsts := []string{defaultDst, "", string(c19RandBytes2(r, 255)), string(c19RandBytes2(r, 256)), string(c19RandBytes2(r, 300+r.IntN(200))), string(c19RandBytes2(r, 1+r.IntN(40)))}
	lens := []int{0, 1, s.block - 1, s.block, s.block + 1, 1000 + r.IntN(3000)}
	for i := range dsts {
		jobs = append(jobs, job{dsts[i], lens[i%len(lens)]})
		jobs = append(jobs, job{dsts[i], lens[(i+3)%len(lens)]})
	}
	for len(jobs) < n {
		jobs = append(jobs, job{c19CurveDst(r, defaultDst), c19MsgLen(r, s.block)})
	}
	if !c.Thorough() && len(jobs) > n && n > 0 {
		jobs = jobs[:max(n, 12)]
	}
	for _, j := range jobs {
		msg := c19RandBytes(r, j.ml)
		res := hashOnce(j.dst, msg, j.dst == defaultDst)
		if res == "inf" {
			c19Trivial(c)
		}
		c.Count("h2c." + name)
		c.Count("h2c.dst." + c19DstClass(j.dst, defaultDst))
		c.Count("h2c.msglen." + c19LenClass(len(msg), s.block))
		c.Emit(fmt.Sprintf("h2c %s %s %s", name, hexBytes([]byte(j.dst)), hexBytes(msg)), res)
	}
	// Hash (default DST supplied by the model from the regenerated suite string)
	for i := 0; i < 3; i++ {
		msg := c19RandBytes(r, c19MsgLen(r, s.block))
		res := safely(func() string {
			p, err := cv.Hash(msg)
			if err != nil {
				return "err"
			}
			return c19PointStr(p)
		})
		c.Count("h2c.hash-default." + name)
		c.Emit(fmt.Sprintf("h2cdef %s %s", name, hexBytes(msg)), res)
	}
	// chosen field elements through Curve.Random
	exc := s.exceptional()
	var pairs [][2][]*big.Int
	for i, u := range exc {
		other := s.randElem(r)
		if i%2 == 0 {
			pairs = append(pairs, [2][]*big.Int{u, other})
		} else {
			pairs = append(pairs, [2][]*big.Int{other, u})
		}
	}
	if len(exc) >= 2 {
		pairs = append(pairs, [2][]*big.Int{exc[0], exc[0]}, [2][]*big.Int{exc[0], exc[1]}, [2][]*big.Int{exc[len(exc)-1], exc[len(exc)-1]})
	}
	for i := 0; i < nmap; i++ {
		pairs = append(pairs, [2][]*big.Int{s.randElem(r), s.randElem(r)})
	}
	for i, pr := range pairs {
		sc := &c19Reader{vals: append(append([]*big.Int{}, pr[0]...), pr[1]...)}
		res := safely(func() string {
			p, err := cv.Random(sc)
			if err != nil {
				return "err:random"
			}
			return c19PointStr(p)
		})
		if sc.misfit || sc.n != len(sc.vals) || sc.minChunk*8 < s.p.BitLen() {
			// the reader protocol of SetRandom changed: the line cannot be interpreted
			res = "err:script-misaligned"
		}
		if i < len(exc)+3 {
			c.Count("h2c.map.exceptional")
		} else {
			c.Count("h2c.map.random")
		}
		c.Count("h2cmap." + name)
		c.Emit(fmt.Sprintf("h2cmap %s %s %s", name, c19ElemStr(pr[0]), c19ElemStr(pr[1])), res)
	}
	// published vectors
	for _, v := range c19Vectors {
		if v.curve != name {
			continue
		}
		res := safely(func() string {
			p, err := cv.HashWithDst(v.dst, []byte(v.msg))
			if err != nil {
				return "err"
			}
			return c19PointStr(p)
		})
		c.Count("h2c.vector." + name)
		c.Emit(fmt.Sprintf("h2cvec %s %s %s %s", name, hexBytes([]byte(v.dst)), hexBytes([]byte(v.msg)), v.point), res)
	}
}

func c19FieldHash[E algebra.FiniteFieldElement[E]](c *Ctx, r *Rng, name string, block int, f interface{ Hash([]byte) (E, error) }, n int) {
	for i := 0; i < n; i++ {
		msg := c19RandBytes(r, c19MsgLen(r, block))
		res := safely(func() string {
			e, err := f.Hash(msg)
			if err != nil {
				return "err"
			}
			e2, _ := f.Hash(bytes.Clone(msg))
			if !e.Equal(e2) {
				c.Violation(name + " BaseField.Hash is not deterministic")
			}
			return feHex(e)
		})
		c.Count("h2fb." + name)
		c.Emit(fmt.Sprintf("h2fb %s %s", name, hexBytes(msg)), res)
	}
}

func c19ScalarHashDefault[S algebra.PrimeFieldElement[S]](c *Ctx, r *Rng, name string, block int, f interface {
	algebra.PrimeField[S]
	Hash([]byte) (S, error)
}, n int) {
	p := hexNat(fieldOrder(f))
	for i := 0; i < n; i++ {
		msg := c19RandBytes(r, c19MsgLen(r, block))
		res := safely(func() string {
			s, err := f.Hash(msg)
			if err != nil {
				return "err"
			}
			return scalarHex(s)
		})
		c.Count("h2fs." + name)
		c.Emit(fmt.Sprintf("h2fs %s %s %s", name, p, hexBytes(msg)), res)
	}
}

func c19H2C(c *Ctx) {
	c19Expanders(c)
	r := NewRng(c.Seed, 1903)
	n, nmap := 12, 4
	if c.Thorough() {
		n, nmap = 150, 60
	}
	tag := base.Hash2CurveAppTag
	c19ScalarHash(c, r, k256.NewScalarField(), "sha256", 48, tag+k256.Hash2CurveScalarSuite, 4*n)
	c19ScalarHash(c, r, p256.NewScalarField(), "sha256", 48, tag+p256.Hash2CurveScalarSuite, 4*n)
	c19ScalarHash(c, r, edwards25519.NewScalarField(), "sha512", 48, tag+edwards25519.Hash2CurveScalarSuite, 4*n)
	c19ScalarHash(c, r, bls12381.NewScalarField(), "sha256", 64, tag+bls12381.Hash2CurveScalarSuite, 4*n)
	c19ScalarHash(c, r, curve25519.NewScalarField(), "sha512", 48, tag+edwards25519.Hash2CurveScalarSuite, n)
	// the pasta "scalar" hashes are the base-field hashes of the sister curve (same suite and DST)
	c19ScalarHash(c, r, pasta.NewPallasScalarField(), "blake2b512", 64, tag+pasta.VestaHash2CurveSuite, 2*n)
	c19ScalarHash(c, r, pasta.NewVestaScalarField(), "blake2b512", 64, tag+pasta.PallasHash2CurveSuite, 2*n)

	c19ScalarHashDefault(c, r, "k256", 64, k256.NewScalarField(), n)
	c19ScalarHashDefault(c, r, "p256", 64, p256.NewScalarField(), n)
	c19ScalarHashDefault(c, r, "ed25519", 128, edwards25519.NewScalarField(), n)
	c19ScalarHashDefault(c, r, "bls12381", 64, bls12381.NewScalarField(), n)

	c19FieldHash(c, r, "k256", 64, k256.NewBaseField(), n)
	c19FieldHash(c, r, "p256", 64, p256.NewBaseField(), n)
	c19FieldHash(c, r, "pallas", 128, pasta.NewPallasBaseField(), n)
	c19FieldHash(c, r, "vesta", 128, pasta.NewVestaBaseField(), n)
	c19FieldHash(c, r, "bls12381g1", 64, bls12381.NewG1BaseField(), n)
	c19FieldHash(c, r, "bls12381g2", 64, bls12381.NewG2BaseField(), n)
	c19FieldHash(c, r, "ed25519", 128, edwards25519.NewBaseField(), n)

	pk := fieldOrder(k256.NewBaseField())
	pp := fieldOrder(p256.NewBaseField())
	ppal := fieldOrder(pasta.NewPallasBaseField())
	pves := fieldOrder(pasta.NewVestaBaseField())
	pbls := fieldOrder(bls12381.NewG1BaseField())
	ped := fieldOrder(edwards25519.NewBaseField())
	// BLS12-381 G1: field elements that the SSWU map sends onto the kernel of the 11-isogeny (x_den(x') = 0), found
	// offline by factoring x_den over Fp and solving x1(u) = root resp. x2(u) = root; RFC 9380 §6.6.3 maps them to
	// the identity
	g1Kernel := [][]*big.Int{
		{c19Hex("146850b3bdc2495ed73bb803dfaa951a88abff0acb5c7aeac52b48f3c808e87ce3885b98ce916e17caef21a6cbc6b598")},
		{c19Hex("ec1d2551f80abe70136a7f42e52133ebddf9b619a88147ae422a98e57581f2b0961dc019c74599f12a1b5513649a2e8")},
		{c19Hex("a92437e90bc473049ab549b4c4a145feb4fb5cd39f7ee85c11fa62a8f5317220b398be420ca5d8364d460f6ee1efd29")},
		{c19Hex("1377c0192d99508a317127abf17c64205c7aad448380027efb47ae73ea231dbd6ecd3f2841b63d309c35bb8fd13e48f0")},
		{c19Hex("854a3cb180882d5b1efc1c3cc5b3fb33b27cb739f1389986ca46e1c5cb5010d8a06fd781c63074868f316d95b8f8405")},
	}
	suites := map[string]*c19Suite{
		"k256":       {name: "k256", p: pk, m: 1, block: 64, z: []*big.Int{c19Neg(pk, 11)}},
		"p256":       {name: "p256", p: pp, m: 1, block: 64, z: []*big.Int{c19Neg(pp, 10)}},
		"pallas":     {name: "pallas", p: ppal, m: 1, block: 128, z: []*big.Int{c19Neg(ppal, 13)}},
		"vesta":      {name: "vesta", p: pves, m: 1, block: 128, z: []*big.Int{c19Neg(pves, 13)}},
		"bls12381g1": {name: "bls12381g1", p: pbls, m: 1, block: 64, z: []*big.Int{big.NewInt(11)}, extra: g1Kernel},
		"bls12381g2": {name: "bls12381g2", p: pbls, m: 2, block: 64, z: []*big.Int{c19Neg(pbls, 2), c19Neg(pbls, 1)}},
		"ed25519":    {name: "ed25519", p: ped, m: 1, block: 128},
	}
	c19CurveHash(c, r, suites["k256"], cK256, tag+k256.Hash2CurveSuite, n, nmap)
	c19CurveHash(c, r, suites["p256"], cP256, tag+p256.Hash2CurveSuite, n, nmap)
	c19CurveHash(c, r, suites["pallas"], cPallas, tag+pasta.PallasHash2CurveSuite, n, nmap)
	c19CurveHash(c, r, suites["vesta"], cVesta, tag+pasta.VestaHash2CurveSuite, n, nmap)
	c19CurveHash(c, r, suites["bls12381g1"], cBLSG1, tag+bls12381.Hash2CurveSuiteG1, n, nmap)
	c19CurveHash(c, r, suites["bls12381g2"], cBLSG2, tag+bls12381.Hash2CurveSuiteG2, n, nmap)
	c19CurveHash(c, r, suites["ed25519"], edwards25519.NewCurve(), tag+edwards25519.Hash2CurveSuite, n, nmap)
	c19PrimeSubgroupHash(c, r, n)
	// the hypotheses of the Lean map theorems (non-square Z, square g(B/(Z·A)), …) evaluated by the model for each suite
	for _, name := range []string{"k256", "p256", "pallas", "vesta", "bls12381g1", "bls12381g2", "ed25519"} {
		c.Count("h2c.theorem-hypotheses")
		c.Emit("h2chyp "+name, "ok")
	}
}

// the prime-order-subgroup wrappers of edwards25519 / curve25519 and curve25519 itself: the same map under the
// hood; HashWithDst must succeed (AsPrimeSubGroupPoint rejects a point with a torsion component) and agree
// with the full-curve hash
func c19PrimeSubgroupHash(c *Ctx, r *Rng, n int) {
	tag := base.Hash2CurveAppTag
	ed, edSub := edwards25519.NewCurve(), edwards25519.NewPrimeSubGroup()
	mont, montSub := curve25519.NewCurve(), curve25519.NewPrimeSubGroup()
	for i := 0; i < n; i++ {
		msg := c19RandBytes(r, c19MsgLen(r, 128))
		dst := c19CurveDst(r, tag+edwards25519.Hash2CurveSuite)
		res := safely(func() string {
			p, err := ed.HashWithDst(dst, msg)
			if err != nil {
				return "err"
			}
			q, err := edSub.HashWithDst(dst, msg)
			if err != nil {
				c.Violation(fmt.Sprintf("edwards25519 PrimeSubGroup.HashWithDst fails (output outside the prime-order subgroup) dst=%s msg=%s", hexBytes([]byte(dst)), hexBytes(msg)))
				return "err:subgroup"
			}
			if !q.AsPoint().Equal(p) {
				c.Violation(fmt.Sprintf("edwards25519 PrimeSubGroup.HashWithDst != Curve.HashWithDst dst=%s msg=%s", hexBytes([]byte(dst)), hexBytes(msg)))
			}
			if !p.IsTorsionFree() {
				c.Violation(fmt.Sprintf("edwards25519 HashWithDst output has a torsion component dst=%s msg=%s", hexBytes([]byte(dst)), hexBytes(msg)))
			}
			// curve25519 hashes with the same map: its point is the birational image of the Edwards point
			m, err := mont.HashWithDst(dst, msg)
			if err != nil {
				return "err"
			}
			ms, err := montSub.HashWithDst(dst, msg)
			if err != nil || !ms.AsPoint().Equal(m) {
				c.Violation(fmt.Sprintf("curve25519 PrimeSubGroup.HashWithDst fails or differs dst=%s msg=%s", hexBytes([]byte(dst)), hexBytes(msg)))
			}
			if !bytes.Equal(m.V.Bytes(), p.V.Bytes()) {
				var ex, ey, mx, my edwards25519Impl.Fp
				p.V.ToAffine(&ex, &ey)
				m.V.ToAffine(&mx, &my)
				if ex.Equal(&mx)&ey.Equal(&my) != 1 {
					c.Violation(fmt.Sprintf("curve25519 HashWithDst is not the edwards25519 map dst=%s msg=%s", hexBytes([]byte(dst)), hexBytes(msg)))
				}
			}
			return c19PointStr(p)
		})
		c.Count("h2c.ed25519-subgroup")
		c.Emit(fmt.Sprintf("h2c ed25519 %s %s", hexBytes([]byte(dst)), hexBytes(msg)), res)
	}
	// curve25519's default DST differs from edwards25519's: Hash(msg) of curve25519 = edwards map under that DST
	for i := 0; i < 3; i++ {
		msg := c19RandBytes(r, c19MsgLen(r, 128))
		res := safely(func() string {
			m, err := mont.Hash(msg)
			if err != nil {
				return "err"
			}
			p, err := ed.HashWithDst(tag+curve25519.Hash2CurveSuite, msg)
			if err != nil {
				return "err"
			}
			var ex, ey, mx, my edwards25519Impl.Fp
			p.V.ToAffine(&ex, &ey)
			m.V.ToAffine(&mx, &my)
			if ex.Equal(&mx)&ey.Equal(&my) != 1 {
				c.Violation(fmt.Sprintf("curve25519 Hash != edwards25519 map under the curve25519 default DST msg=%s", hexBytes(msg)))
			}
			return c19PointStr(p)
		})
		c.Count("h2c.curve25519-default")
		c.Emit(fmt.Sprintf("h2cdef curve25519 %s", hexBytes(msg)), res)
	}
}
