package main

// C19, part 3: RFC 9380 expanders, hash-to-field and hash-to-curve.
//   xmd <hash> <dst> <len> <msg> => bytes | panic           (repo expander vs Lean expand_message_xmd; spec)
//   xof <shake> <k> <dst> <len> <msg> => bytes | panic
//   h2f <modulus> <hash> <L> <dst> <msg> => scalar          (ScalarField.Hash vs Lean hash_to_field; mirror)
//   h2c <curve> <dst> <msg> => point                        (driver: on curve and in the prime-order subgroup)
// Go-side oracles: determinism, Hash = HashWithDst(default DST), DST dependence.

import (
	"crypto/sha256"
	"crypto/sha3"
	"crypto/sha512"
	"fmt"
	"hash"
	"strings"

	"golang.org/x/crypto/blake2b"

	"github.com/bronlabs/bron-crypto/pkg/base"
	"github.com/bronlabs/bron-crypto/pkg/base/algebra"
	"github.com/bronlabs/bron-crypto/pkg/base/curves"
	"github.com/bronlabs/bron-crypto/pkg/base/curves/edwards25519"
	"github.com/bronlabs/bron-crypto/pkg/base/curves/impl/rfc9380"
	"github.com/bronlabs/bron-crypto/pkg/base/curves/k256"
	"github.com/bronlabs/bron-crypto/pkg/base/curves/p256"
	"github.com/bronlabs/bron-crypto/pkg/base/curves/pairable/bls12381"
	"github.com/bronlabs/bron-crypto/pkg/base/curves/pasta"
)

func c19Dst(r *Rng) []byte {
	switch r.IntN(8) {
	case 0:
		return c19RandBytes(r, 256+r.IntN(100)) // oversize DST path
	case 1:
		return c19RandBytes(r, []int{0, 1, 255, 256}[r.IntN(4)])
	case 2:
		return []byte("QUUX-V01-CS02-with-expander-SHA256-128")
	default:
		return c19RandBytes(r, 1+r.IntN(60))
	}
}

func c19ExpLen(r *Rng, hashLen int) int {
	switch r.IntN(8) {
	case 0:
		return []int{0, 1, hashLen - 1, hashLen, hashLen + 1, 2 * hashLen, 255 * hashLen}[r.IntN(7)]
	case 1:
		return 255*hashLen + 1 + r.IntN(10) // abort path (ell > 255), unless > 65535 anyway
	case 2:
		return []int{65535, 65536}[r.IntN(2)]
	default:
		return 1 + r.IntN(300)
	}
}

func c19Expanders(c *Ctx) {
	r := NewRng(c.Seed, 1902)
	n := 150
	if c.Thorough() {
		n = 1500
	}
	xmds := []struct {
		name string
		e    rfc9380.MessageExpander
		size int
	}{
		{"sha256", rfc9380.NewXMDMessageExpander(sha256.New), 32},
		{"sha512", rfc9380.NewXMDMessageExpander(sha512.New), 64},
		{"sha3_256", rfc9380.NewXMDMessageExpander(sha3.New256), 32},
		{"blake2b512", rfc9380.NewXMDMessageExpander(func() hash.Hash { h, _ := blake2b.New512(nil); return h }), 64},
	}
	for _, x := range xmds {
		for i := 0; i < n; i++ {
			dst, msg, l := c19Dst(r), c19RandBytes(r, r.IntN(200)), c19ExpLen(r, x.size)
			res := safely(func() string { return hexBytes(x.e.ExpandMessage(dst, msg, uint(l))) })
			if strings.HasPrefix(res, "panic:") {
				res = "panic"
				c.Count("xmd.abort")
			}
			if l == 0 {
				c19Trivial(c)
			}
			c.Count("xmd." + x.name)
			c.Emit(fmt.Sprintf("xmd %s %s %d %s", x.name, hexBytes(dst), l, hexBytes(msg)), res)
		}
	}
	for _, x := range []struct {
		name string
		k    uint
	}{{"shake128", 128}, {"shake256", 256}} {
		for i := 0; i < n; i++ {
			var h hash.XOF
			if x.name == "shake128" {
				h = sha3.NewSHAKE128()
			} else {
				h = sha3.NewSHAKE256()
			}
			e := rfc9380.NewXOFMessageExpander(h, x.k)
			dst, msg, l := c19Dst(r), c19RandBytes(r, r.IntN(200)), c19ExpLen(r, 32)
			res := safely(func() string { return hexBytes(e.ExpandMessage(dst, msg, uint(l))) })
			if strings.HasPrefix(res, "panic:") {
				res = "panic"
				c.Count("xof.abort")
			}
			if l == 0 {
				c19Trivial(c)
			}
			c.Count("xof." + x.name)
			c.Emit(fmt.Sprintf("xof %s %d %s %d %s", x.name, x.k, hexBytes(dst), l, hexBytes(msg)), res)
		}
	}
}

func c19ScalarHash[S algebra.PrimeFieldElement[S]](c *Ctx, r *Rng, f interface {
	algebra.PrimeField[S]
	Hash([]byte) (S, error)
}, hashName string, L int, dst string, n int) {
	p := hexNat(fieldOrder(f))
	for i := 0; i < n; i++ {
		msg := c19RandBytes(r, r.IntN(100))
		res := safely(func() string {
			s, err := f.Hash(msg)
			if err != nil {
				return "err"
			}
			s2, _ := f.Hash(msg)
			if !s.Equal(s2) {
				c.Violation("ScalarField.Hash is not deterministic")
			}
			return scalarHex(s)
		})
		c.Count("h2f." + hashName)
		c.Emit(fmt.Sprintf("h2f %s %s %d %s %s", p, hashName, L, hexBytes([]byte(dst)), hexBytes(msg)), res)
	}
}

type c19Hasher[P any] interface {
	Hash([]byte) (P, error)
	HashWithDst(string, []byte) (P, error)
}

func c19CurveHash[P curves.Point[P, F, S], F algebra.FiniteFieldElement[F], S algebra.PrimeFieldElement[S]](c *Ctx, r *Rng, name string, cv c19Hasher[P], defaultDst string, n int) {
	for i := 0; i < n; i++ {
		msg := c19RandBytes(r, r.IntN(80))
		dst := string(c19RandBytes2(r, 1+r.IntN(40)))
		if r.IntN(4) == 0 {
			dst = defaultDst
		}
		res := safely(func() string {
			p, err := cv.HashWithDst(dst, msg)
			if err != nil {
				return "err"
			}
			p2, err := cv.HashWithDst(dst, msg)
			if err != nil || !p.Equal(p2) {
				c.Violation(fmt.Sprintf("%s HashWithDst is not deterministic dst=%s msg=%s", name, hexBytes([]byte(dst)), hexBytes(msg)))
			}
			// DST dependence
			other := dst + "'"
			p3, err := cv.HashWithDst(other, msg)
			if err != nil || p.Equal(p3) {
				c.Violation(fmt.Sprintf("%s HashWithDst does not depend on the DST dst=%s msg=%s", name, hexBytes([]byte(dst)), hexBytes(msg)))
			}
			// message dependence
			p4, err := cv.HashWithDst(dst, append([]byte{1}, msg...))
			if err != nil || p.Equal(p4) {
				c.Violation(fmt.Sprintf("%s HashWithDst does not depend on the message dst=%s msg=%s", name, hexBytes([]byte(dst)), hexBytes(msg)))
			}
			if dst == defaultDst {
				p5, err := cv.Hash(msg)
				if err != nil || !p.Equal(p5) {
					c.Violation(fmt.Sprintf("%s Hash != HashWithDst(default DST) msg=%s", name, hexBytes(msg)))
				}
				c.Count("h2c.default-dst")
			}
			return pointStr(p)
		})
		if res == "inf" {
			c19Trivial(c)
		}
		c.Count("h2c." + name)
		c.Emit(fmt.Sprintf("h2c %s %s %s", name, hexBytes([]byte(dst)), hexBytes(msg)), res)
	}
}

func c19H2C(c *Ctx) {
	c19Expanders(c)
	r := NewRng(c.Seed, 1903)
	n := 12
	if c.Thorough() {
		n = 150
	}
	tag := base.Hash2CurveAppTag
	c19ScalarHash(c, r, k256.NewScalarField(), "sha256", 48, tag+k256.Hash2CurveScalarSuite, 4*n)
	c19ScalarHash(c, r, p256.NewScalarField(), "sha256", 48, tag+p256.Hash2CurveScalarSuite, 4*n)
	c19ScalarHash(c, r, edwards25519.NewScalarField(), "sha512", 48, tag+edwards25519.Hash2CurveScalarSuite, 4*n)
	c19ScalarHash(c, r, bls12381.NewScalarField(), "sha256", 64, tag+bls12381.Hash2CurveScalarSuite, 4*n)

	c19CurveHash(c, r, "k256", cK256, tag+k256.Hash2CurveSuite, n)
	c19CurveHash(c, r, "p256", cP256, tag+p256.Hash2CurveSuite, n)
	c19CurveHash(c, r, "pallas", cPallas, tag+pasta.PallasHash2CurveSuite, n)
	c19CurveHash(c, r, "vesta", cVesta, tag+pasta.VestaHash2CurveSuite, n)
	c19CurveHash(c, r, "bls12381g1", cBLSG1, tag+bls12381.Hash2CurveSuiteG1, n)
	c19CurveHash(c, r, "bls12381g2", cBLSG2, tag+bls12381.Hash2CurveSuiteG2, n/2+1)
	c19CurveHash(c, r, "ed25519", cEd25519, tag+edwards25519.Hash2CurveSuite, n)
}
