package main

import (
	"context"
	"errors"
	"fmt"
	"os"
	"runtime"
	"sort"
	"strconv"
	"strings"
	"sync"
	"sync/atomic"
	"testing"
	"time"

	"github.com/bronlabs/bron-crypto/pkg/base"
	"github.com/bronlabs/bron-crypto/pkg/base/serde"
	"github.com/bronlabs/bron-crypto/pkg/mpc/sharing"
	"github.com/bronlabs/bron-crypto/pkg/network"
)

func init() { register("C11", runC11) }

// documented buffer bound of the router (maxReceiveBufferSize is unexported; the flood traces
// check that the implementation latches ErrReceiveBufferFull exactly at this bound)
const c11Bound = 10000

var c11Progress atomic.Int64 // unix nanos of the last finished case (watchdog)
var c11Current atomic.Value  // description of the case being run

func c11Tick(desc string) {
	c11Progress.Store(time.Now().UnixNano())
	c11Current.Store(desc)
}

func runC11(c *Ctx) {
	c11Tick("start")
	stop := make(chan struct{})
	go func() { // watchdog on the real clock: a hang while messages are deliverable is a violation
		for {
			select {
			case <-stop:
				return
			case <-time.After(2 * time.Second):
			}
			if time.Since(time.Unix(0, c11Progress.Load())) > 180*time.Second {
				cur, _ := c11Current.Load().(string)
				fmt.Fprintf(c.Out, "!VIOLATION C11 hang: no progress for 180s in case %s\n", cur)
				c.Out.Flush()
				os.Exit(3)
			}
		}
	}()
	rc := c11WithT(func(t *testing.T) {
		c11Send(c)
		c11Handcrafted(c, t)
		c11Exhaustive(c, t)
		c11Random(c, t)
		c11Flood(c, t)
		c11Lifetimes(c, t)
		c11Echo(c, t)
		c11Runner(c, t)
	})
	c11Stress(c)
	c11WakeRace(c)
	close(stop)
	if rc != 0 {
		c.Violation(fmt.Sprintf("bubble-runner exit code %d", rc))
	}
}

// ---------------------------------------------------------------------------------- delivery

type c11Wire struct {
	From          sharing.ID `cbor:"from"`
	CorrelationID string     `cbor:"correlationID"`
	Payload       []byte     `cbor:"payload"`
}

// c11EnvelopeFrom chooses the envelope's `from` field. It is sender-controlled metadata: the router must file
// a message under the sender the transport reports and ignore what the envelope claims, so frames carry
// every kind of claim (absent, small member-like ids incl. the true sender by chance, a non-member, a huge id).
func c11EnvelopeFrom(cid string, payload []byte) sharing.ID {
	h := uint32(2166136261)
	for _, b := range []byte(cid) {
		h = (h ^ uint32(b)) * 16777619
	}
	for _, b := range payload {
		h = (h ^ uint32(b)) * 16777619
	}
	return []sharing.ID{0, 0, 1, 2, 3, 4, 5, 9, 1 << 40}[h%9]
}

func c11Encode(cid string, payload []byte) []byte {
	raw, err := serde.MarshalCBOR(&c11Wire{From: c11EnvelopeFrom(cid, payload), CorrelationID: cid, Payload: payload})
	if err != nil {
		panic(err)
	}
	return raw
}

var errC11Transport = errors.New("c11 scripted transport failure")

type c11In struct {
	from sharing.ID
	msg  []byte
	err  error
}

type c11Packet struct {
	from, to sharing.ID
	msg      []byte
}

// c11Delivery is a network.Delivery whose arrivals are handed over one at a time by the checker.
type c11Delivery struct {
	self    sharing.ID
	quorum  []sharing.ID
	hand    chan c11In
	waiting atomic.Bool // the reader goroutine is blocked in Receive
	mu      sync.Mutex
	sent    []c11Packet
	onSend  func(c11Packet)
}

func newC11Delivery(self uint64, quorum []uint64, buffered int) *c11Delivery {
	q := make([]sharing.ID, len(quorum))
	for i, id := range quorum {
		q[i] = sharing.ID(id)
	}
	return &c11Delivery{self: sharing.ID(self), quorum: q, hand: make(chan c11In, buffered)}
}

func (d *c11Delivery) PartyID() sharing.ID  { return d.self }
func (d *c11Delivery) Quorum() []sharing.ID { return d.quorum }
func (d *c11Delivery) Send(_ context.Context, to sharing.ID, message []byte) error {
	p := c11Packet{from: d.self, to: to, msg: append([]byte(nil), message...)}
	d.mu.Lock()
	d.sent = append(d.sent, p)
	cb := d.onSend
	d.mu.Unlock()
	if cb != nil {
		cb(p)
	}
	return nil
}

func (d *c11Delivery) Receive(ctx context.Context) (sharing.ID, []byte, error) {
	d.waiting.Store(true)
	defer d.waiting.Store(false)
	select {
	case <-ctx.Done():
		return 0, nil, ctx.Err()
	case m := <-d.hand:
		return m.from, m.msg, m.err
	}
}

// ---------------------------------------------------------------------------------- events

type c11Event struct {
	kind    byte // d g e f r c x
	from    uint64
	cid     string   // full correlation ID on the wire (d, r)
	path    []string // r: namespaces of the view used for the call
	local   string   // r: correlation ID passed to the view
	payload []byte
	rid     int
	exp     []uint64
	pre     bool
	gate    bool // r: the call is held between its first unlocked scan and its select until a 'u' event
	n       int
	tag     string
}

func c11Join(path []string, local string) string {
	s := ""
	for _, p := range path {
		s += p + "/"
	}
	return s + local
}

func c11IDs(ids []uint64) string {
	out := make([]string, len(ids))
	for i, id := range ids {
		out[i] = strconv.FormatUint(id, 10)
	}
	return joinComma(out)
}

func (e c11Event) token() string {
	switch e.kind {
	case 'd':
		return fmt.Sprintf("d:%d:%s:%s", e.from, e.cid, hexBytes(e.payload))
	case 'g':
		return fmt.Sprintf("g:%d", e.from)
	case 'e':
		return "e"
	case 'f':
		return fmt.Sprintf("f:%d:%d:%s", e.from, e.n, e.tag)
	case 'r':
		s := fmt.Sprintf("r:%d:%s:%s", e.rid, e.cid, c11IDs(e.exp))
		if e.pre {
			s += ":p"
		}
		if e.gate {
			s += ":g"
		}
		return s
	case 'c':
		return fmt.Sprintf("c:%d", e.rid)
	case 'u':
		return fmt.Sprintf("u:%d", e.rid)
	default:
		return "x"
	}
}

func c11Deliver(from uint64, cid string, payload string) c11Event {
	return c11Event{kind: 'd', from: from, cid: cid, payload: []byte(payload)}
}

func c11Recv(rid int, path []string, local string, exp ...uint64) c11Event {
	return c11Event{kind: 'r', rid: rid, path: path, local: local, cid: c11Join(path, local), exp: exp}
}

func c11RecvHeld(rid int, path []string, local string, exp ...uint64) c11Event {
	e := c11Recv(rid, path, local, exp...)
	e.gate = true
	return e
}

func c11Tokens(evs []c11Event) string {
	toks := make([]string, len(evs))
	for i, e := range evs {
		toks[i] = e.token()
	}
	return strings.Join(toks, " ")
}

// c11Res maps the outcome of ReceiveFrom to the canonical result enum.
func c11Res(m map[sharing.ID][]byte, err error) string {
	if err == nil {
		ids := make([]uint64, 0, len(m))
		for id := range m {
			ids = append(ids, uint64(id))
		}
		sort.Slice(ids, func(i, j int) bool { return ids[i] < ids[j] })
		parts := make([]string, len(ids))
		for i, id := range ids {
			parts[i] = fmt.Sprintf("%d=%s", id, hexBytes(m[sharing.ID(id)]))
		}
		return "ok:" + joinComma(parts)
	}
	switch {
	case errors.Is(err, network.ErrDuplicateMessage):
		ids := base.GetMaliciousIdentities[sharing.ID](err)
		parts := make([]string, len(ids))
		for i, id := range ids {
			parts[i] = strconv.FormatUint(uint64(id), 10)
		}
		sort.Strings(parts)
		if len(parts) == 0 {
			return "poison:none"
		}
		return "poison:" + strings.Join(parts, "+")
	case errors.Is(err, network.ErrRouterClosed):
		return "fatal:closed"
	case errors.Is(err, network.ErrReceiveBufferFull):
		return "fatal:full"
	case errors.Is(err, errC11Transport):
		return "fatal:transport"
	case errors.Is(err, network.ErrInvalidArgument):
		return "concurrent"
	case errors.Is(err, context.Canceled):
		return "cancelled"
	case c11ChainHas(err, "failed to decode message"):
		return "fatal:decode"
	default:
		return "err:other"
	}
}

// errs-go prints only the outermost message and unwraps to a list; walk the tree.
func c11ChainHas(err error, substr string) bool {
	var walk func(e error, depth int) bool
	walk = func(e error, depth int) bool {
		if e == nil || depth > 32 {
			return false
		}
		if strings.Contains(e.Error(), substr) {
			return true
		}
		switch u := e.(type) {
		case interface{ Unwrap() []error }:
			for _, w := range u.Unwrap() {
				if walk(w, depth+1) {
					return true
				}
			}
		case interface{ Unwrap() error }:
			return walk(u.Unwrap(), depth+1)
		}
		return false
	}
	return walk(err, 0)
}

type c11Rec struct {
	rid    int
	done   chan string
	cancel context.CancelFunc
	ret    bool
	hold   *c11HoldCtx
}

// c11HoldCtx is the context handed to ReceiveFrom by a gated receive.  receiveFrom evaluates
// ctx.Done() when it enters its select, i.e. after the unlocked scan decided to wait and before the
// goroutine is parked: blocking there puts the call exactly into the window in which a deposit
// can only reach it through the buffered notify token.  The checker releases it with a 'u' event.
type c11HoldCtx struct {
	context.Context
	held atomic.Bool
	gate chan struct{}
}

func (h *c11HoldCtx) Done() <-chan struct{} {
	if h.held.Load() {
		<-h.gate
	}
	return h.Context.Done()
}

func (h *c11HoldCtx) release() {
	if h.held.CompareAndSwap(true, false) {
		close(h.gate)
	}
}

func c11View(root *network.Router, path []string) *network.Router {
	v := root
	for _, ns := range path {
		v = v.Namespaced(ns)
	}
	return v
}

func c11Items(e c11Event) []c11In {
	switch e.kind {
	case 'd':
		return []c11In{{from: sharing.ID(e.from), msg: c11Encode(e.cid, e.payload)}}
	case 'g':
		return []c11In{{from: sharing.ID(e.from), msg: []byte{0xff, 0x00}}}
	case 'e':
		return []c11In{{err: errC11Transport}}
	case 'f':
		out := make([]c11In, e.n)
		for i := range out {
			out[i] = c11In{from: sharing.ID(e.from), msg: c11Encode(e.tag+strconv.Itoa(i), []byte{0})}
		}
		return out
	}
	return nil
}

func c11RenderResults(results map[int]string) string {
	rids := make([]int, 0, len(results))
	for rid := range results {
		rids = append(rids, rid)
	}
	sort.Ints(rids)
	parts := make([]string, len(rids))
	for i, rid := range rids {
		parts[i] = results[rid]
	}
	if len(parts) == 0 {
		return "-"
	}
	return strings.Join(parts, ";")
}

// c11RunTrace drives the real Router through the events (see c11Drive in c11_life.go).
// Result: "<rid>@<event index>=<outcome>;…" followed, when the router's accounting state is
// observable, by "|b=<buffered after every event>|x=<number of mailbox objects after every event>".
func c11RunTrace(t *testing.T, members []uint64, evs []c11Event) (out string, o c11Outcome) {
	o = c11Drive(t, members, evs)
	if o.panicked != "" {
		return "panic:" + o.panicked, o
	}
	out = c11RenderResults(o.results)
	for _, rid := range o.leaked {
		out += ";leak:" + strconv.Itoa(rid) // a receive that survives cancel+Close
	}
	if o.observed {
		out += "|b=" + c11Ints(o.buf) + "|x=" + c11Ints(o.box)
	}
	return out, o
}

func c11Ints(xs []int) string {
	parts := make([]string, len(xs))
	for i, x := range xs {
		parts[i] = strconv.Itoa(x)
	}
	return joinComma(parts)
}

func c11EmitTrace(c *Ctx, t *testing.T, members []uint64, evs []c11Event) string {
	lhs := fmt.Sprintf("tr %s %d %s", c11IDs(members), c11Bound, c11Tokens(evs))
	c11Tick(lhs)
	res, o := c11RunTrace(t, members, evs)
	if strings.HasPrefix(res, "panic:") || strings.Contains(res, "leak:") {
		c.Violation("router trace " + lhs + " => " + res)
	}
	if o.accViol != "" {
		c.Violation("router accounting: " + o.accViol + " in trace " + lhs)
	}
	c.Emit(lhs, res)
	if i := strings.Index(res, "|"); i >= 0 {
		res = res[:i]
	}
	for _, part := range strings.Split(res, ";") {
		if i := strings.Index(part, "="); i >= 0 {
			kind := part[i+1:]
			if j := strings.Index(kind, ":"); j >= 0 && !strings.HasPrefix(kind, "fatal") {
				kind = kind[:j]
			}
			c.Count("recv." + kind)
		}
	}
	c.Count("traces")
	return res
}

// ---------------------------------------------------------------------------------- SendTo

// c11Send: Namespaced views put "<ns>/…/<cid>" on the wire.
func c11Send(c *Ctx) {
	r := NewRng(c.Seed, 1101)
	names := []string{"a", "ab", "b", "sign", "0"}
	cids := []string{"c", "bc", "x", "Round1", "b:c"}
	n := 40
	if c.Thorough() {
		n = 400
	}
	for it := 0; it < n; it++ {
		depth := r.IntN(4)
		path := make([]string, depth)
		for i := range path {
			path[i] = names[r.IntN(len(names))]
		}
		cid := cids[r.IntN(len(cids))]
		d := newC11Delivery(1, []uint64{1, 2, 3, 4}, 0)
		view := c11View(network.NewRouter(d), path)
		msgs := map[sharing.ID][]byte{}
		var want []string
		for _, to := range []uint64{2, 3, 4} {
			if r.IntN(3) > 0 {
				p := []byte{byte(r.IntN(256)), byte(to)}
				msgs[sharing.ID(to)] = p
				want = append(want, fmt.Sprintf("%d=%s", to, hexBytes(p)))
			}
		}
		res := safely(func() string {
			if err := view.SendTo(context.Background(), cid, msgs); err != nil {
				return "err"
			}
			sort.Slice(d.sent, func(i, j int) bool { return d.sent[i].to < d.sent[j].to })
			parts := make([]string, len(d.sent))
			for i, p := range d.sent {
				w, err := serde.UnmarshalCBOR[c11Wire](p.msg)
				if err != nil {
					return "err:decode"
				}
				parts[i] = fmt.Sprintf("%d:%s:%s", p.to, w.CorrelationID, hexBytes(w.Payload))
			}
			return joinComma(parts)
		})
		if len(want) == 0 {
			fmt.Fprintf(c.Out, "#TRIVIAL\n")
		}
		c.Count("send")
		c.Emit(fmt.Sprintf("send %s %s %s", joinComma(path), cid, joinComma(want)), res)
	}
}

// ---------------------------------------------------------------------------------- generators

var c11Members = []uint64{1, 2, 3, 4}

type c11Cid struct {
	path  []string
	local string
}

// correlation IDs chosen so that dropping or misplacing the separator makes them collide
var c11Cids = []c11Cid{
	{nil, "c"}, {nil, "x"}, {[]string{"a"}, "c"}, {[]string{"a"}, "bc"}, {[]string{"ab"}, "c"}, {[]string{"a", "b"}, "c"}, {nil, "abc"}, {[]string{"a"}, "x"},
}

func c11Handcrafted(c *Ctx, t *testing.T) {
	a := []string{"a"}
	traces := [][]c11Event{
		// duplicate absorbed, conflict poisons and blames, poison is latched
		{c11Deliver(2, "a/x", "aa"), c11Recv(0, a, "x", 2, 3), c11Deliver(3, "a/x", "bb"), c11Deliver(2, "a/x", "aa"), c11Deliver(2, "a/x", "cc"), c11Recv(1, a, "x", 2), {kind: 'c', rid: 0}, {kind: 'x'}},
		// cancelled receive loses nothing; Close fails later calls
		{c11Recv(0, nil, "c", 2, 3), c11Deliver(2, "c", "aa"), {kind: 'c', rid: 0}, c11Recv(1, nil, "c", 2, 3), c11Deliver(3, "c", "bb"), {kind: 'x'}, c11Recv(2, nil, "c", 2)},
		// non-member, other namespace, other cid never satisfy a receive
		{c11Recv(0, a, "c", 2), c11Deliver(9, "a/c", "aa"), c11Deliver(2, "c", "aa"), c11Deliver(2, "ac", "aa"), c11Deliver(2, "a/c/", "aa"), c11Deliver(2, "ab/c", "aa"), c11Deliver(2, "a/c", "bb")},
		// concurrent receive on one id; empty sender set; duplicate sender arguments
		{c11Recv(0, nil, "c", 2), c11Recv(1, nil, "c", 3), c11Recv(2, nil, "x"), c11Recv(3, nil, "abc", 2, 2, 3), c11Deliver(3, "abc", "aa"), c11Deliver(2, "abc", "-"), c11Deliver(2, "c", "aa")},
		// decode failure from a member is fatal, from a non-member ignored; complete set wins over fatal
		{c11Recv(0, nil, "c", 2), c11Recv(1, nil, "x", 3), {kind: 'g', from: 9}, c11Deliver(2, "c", "aa"), {kind: 'g', from: 3}, c11Deliver(3, "x", "bb")},
		// transport error
		{c11Deliver(2, "c", "aa"), c11Recv(0, nil, "c", 2, 3), {kind: 'e'}, c11Deliver(3, "c", "bb"), c11Recv(1, nil, "c", 2)},
		// messages queued before the first receive, pre-cancelled receive still collects a complete set
		{c11Deliver(2, "c", "aa"), c11Deliver(3, "c", "bb"), {kind: 'r', rid: 0, local: "c", cid: "c", exp: []uint64{2, 3}, pre: true}, {kind: 'r', rid: 1, local: "x", cid: "x", exp: []uint64{2}, pre: true}},
		// Close before the first receive
		{c11Deliver(2, "c", "aa"), {kind: 'x'}, c11Recv(0, nil, "c", 2)},
		// conflict from an unrequested sender poisons the box as well; second conflict re-tags
		{c11Recv(0, nil, "c", 2), c11Deliver(3, "c", "aa"), c11Deliver(3, "c", "bb"), c11Deliver(4, "c", "aa"), c11Deliver(4, "c", "bb"), c11Recv(1, nil, "c", 4)},
		// held between the unlocked scan and select (the window that only the buffered notify token covers):
		// deposits, a conflict, a cancellation, Close, a transport failure arrive in that window
		{c11RecvHeld(0, nil, "c", 2, 3), c11Deliver(2, "c", "aa"), c11Deliver(3, "c", "bb"), {kind: 'u', rid: 0}},
		{c11Deliver(2, "c", "aa"), c11RecvHeld(0, nil, "c", 2, 3), c11Deliver(3, "c", "bb"), {kind: 'u', rid: 0}, c11Deliver(3, "c", "bb")},
		{c11RecvHeld(0, a, "x", 2, 3), c11Deliver(2, "a/x", "aa"), c11Deliver(2, "a/x", "cc"), {kind: 'u', rid: 0}, c11Recv(1, a, "x", 2)},
		{c11RecvHeld(0, nil, "c", 2), {kind: 'c', rid: 0}, {kind: 'u', rid: 0}, c11Deliver(2, "c", "aa"), c11Recv(1, nil, "c", 2)},
		{c11RecvHeld(0, nil, "c", 2), {kind: 'c', rid: 0}, c11Deliver(2, "c", "aa"), {kind: 'u', rid: 0}},
		{c11RecvHeld(0, nil, "c", 2), {kind: 'x'}, c11Deliver(2, "c", "aa"), {kind: 'u', rid: 0}},
		{c11RecvHeld(0, nil, "c", 2), c11Deliver(2, "c", "aa"), {kind: 'x'}, {kind: 'u', rid: 0}},
		{c11RecvHeld(0, nil, "c", 2), {kind: 'e'}, {kind: 'u', rid: 0}, c11Recv(1, nil, "x", 2)},
		{c11RecvHeld(0, nil, "c", 2), c11RecvHeld(1, a, "c", 3), c11Deliver(3, "a/c", "bb"), c11Deliver(2, "c", "aa"), {kind: 'u', rid: 1}, {kind: 'u', rid: 0}},
		{c11RecvHeld(0, nil, "c", 2), c11Deliver(2, "c", "aa"), c11Recv(1, nil, "c", 2), c11Recv(2, nil, "x", 3), c11Deliver(3, "x", "bb")},
		{c11RecvHeld(0, nil, "c", 2, 3), {kind: 'u', rid: 0}, c11Deliver(2, "c", "aa"), c11Deliver(3, "c", "bb")},
		// re-use after a completed collection
		{c11Deliver(2, "c", "aa"), c11Recv(0, nil, "c", 2), c11Deliver(2, "c", "bb"), c11Recv(1, nil, "c", 2)},
	}
	for _, tr := range traces {
		c11EmitTrace(c, t, c11Members, tr)
	}
}

func c11Permute(n int, f func(perm []int)) {
	perm := make([]int, n)
	for i := range perm {
		perm[i] = i
	}
	var rec func(k int)
	rec = func(k int) {
		if k == n {
			f(perm)
			return
		}
		for i := k; i < n; i++ {
			perm[k], perm[i] = perm[i], perm[k]
			rec(k + 1)
			perm[k], perm[i] = perm[i], perm[k]
		}
	}
	rec(0)
}

// c11Exhaustive: every arrival order of a message set (with identical and conflicting
// retransmissions, foreign ids, non-members) × every placement of two receives (and of a
// cancellation + retry).
func c11Exhaustive(c *Ctx, t *testing.T) {
	a := []string{"a"}
	base4 := []c11Event{c11Deliver(2, "a/c", "aa"), c11Deliver(3, "a/c", "bb"), c11Deliver(2, "x", "cc"), c11Deliver(3, "x", "dd")}
	extras := [][]c11Event{
		{},
		{c11Deliver(2, "a/c", "aa")}, // identical retransmission
		{c11Deliver(2, "a/c", "ee")}, // conflicting retransmission
		{c11Deliver(9, "a/c", "ee")}, // non-member
		{c11Deliver(2, "ac", "ee")},  // other id (separator dropped)
		{c11Deliver(2, "a/c", "aa"), c11Deliver(3, "x", "dd")},   // two identical
		{c11Deliver(3, "x", "ee"), c11Deliver(2, "a/c", "aa")},   // one conflicting, one identical
		{c11Deliver(4, "a/c", "ee"), c11Deliver(4, "a/c", "ff")}, // unrequested sender equivocates
		{c11Deliver(2, "a/c", "ee"), c11Deliver(3, "a/c", "ff")}, // two senders equivocate: blame depends on order
		{c11Deliver(2, "a/c", "aa"), c11Deliver(2, "a/c", "ee"), c11Deliver(2, "x", "cc")},
	}
	maxN := 5
	if c.Thorough() {
		maxN = 7
	}
	for pi, extra := range extras {
		msgs := append(append([]c11Event{}, base4...), extra...)
		if len(msgs) > maxN {
			continue
		}
		if !c.Thorough() && pi > 3 && pi != 4 {
			continue
		}
		seen := map[string]bool{}
		c11Permute(len(msgs), func(perm []int) {
			ordered := make([]c11Event, len(msgs))
			for i, p := range perm {
				ordered[i] = msgs[p]
			}
			key := c11Tokens(ordered)
			if seen[key] {
				return
			}
			seen[key] = true
			n := len(ordered)
			for i := 0; i <= n; i++ {
				for j := i; j <= n; j++ {
					// family 1: two receives placed at i <= j
					tr := make([]c11Event, 0, n+3)
					for k := 0; k <= n; k++ {
						if k == i {
							tr = append(tr, c11Recv(0, a, "c", 2, 3))
						}
						if k == j {
							tr = append(tr, c11Recv(1, nil, "x", 2, 3))
						}
						if k < n {
							tr = append(tr, ordered[k])
						}
					}
					c11EmitTrace(c, t, c11Members, tr)
					c.Count("exhaustive.two-receives")
					// family 2: receive at i, cancelled at j, retried at the end
					if j > i && (c.Thorough() || (i+j)%2 == 0) {
						tr := make([]c11Event, 0, n+3)
						for k := 0; k <= n; k++ {
							if k == i {
								tr = append(tr, c11Recv(0, a, "c", 2, 3))
							}
							if k == j {
								tr = append(tr, c11Event{kind: 'c', rid: 0})
							}
							if k < n {
								tr = append(tr, ordered[k])
							}
						}
						tr = append(tr, c11Recv(1, a, "c", 2, 3))
						c11EmitTrace(c, t, c11Members, tr)
						c.Count("exhaustive.cancel-retry")
					}
					// family 3: receive at i held before its select, released at j
					if j > i && (c.Thorough() || (i+j)%2 == 1) {
						tr := make([]c11Event, 0, n+3)
						for k := 0; k <= n; k++ {
							if k == i {
								tr = append(tr, c11RecvHeld(0, a, "c", 2, 3))
							}
							if k == j {
								tr = append(tr, c11Event{kind: 'u', rid: 0})
							}
							if k < n {
								tr = append(tr, ordered[k])
							}
						}
						c11EmitTrace(c, t, c11Members, tr)
						c.Count("exhaustive.held-release")
					}
				}
			}
		})
	}
}

func c11RandomTrace(r *Rng) []c11Event {
	payloads := []string{"aa", "bb", "", "aa"}
	ncid := 1 + r.IntN(3)
	cids := make([]c11Cid, ncid)
	for i := range cids {
		cids[i] = c11Cids[r.IntN(len(c11Cids))]
	}
	full := make([]string, 0, len(c11Cids))
	for _, k := range c11Cids {
		full = append(full, c11Join(k.path, k.local))
	}
	n := 4 + r.IntN(10)
	var evs []c11Event
	rid := 0
	for len(evs) < n {
		x := r.IntN(100)
		switch {
		case x < 58:
			cid := c11Join(cids[r.IntN(ncid)].path, cids[r.IntN(ncid)].local)
			if r.IntN(6) == 0 {
				cid = full[r.IntN(len(full))]
			}
			from := []uint64{2, 3, 4, 2, 3, 9}[r.IntN(6)]
			evs = append(evs, c11Deliver(from, cid, payloads[r.IntN(len(payloads))]))
		case x < 82:
			k := cids[r.IntN(ncid)]
			exp := [][]uint64{{2}, {3}, {2, 3}, {2, 3}, {2, 3, 4}, {4}, {}, {2, 9}, {3, 3}}[r.IntN(9)]
			e := c11Recv(rid, k.path, k.local, exp...)
			e.pre = r.IntN(10) == 0
			e.gate = !e.pre && r.IntN(6) == 0
			rid++
			evs = append(evs, e)
		case x < 91:
			if rid > 0 {
				kind := byte('c')
				if r.IntN(3) == 0 {
					kind = 'u'
				}
				evs = append(evs, c11Event{kind: kind, rid: r.IntN(rid)})
			}
		case x < 94:
			evs = append(evs, c11Event{kind: 'x'})
		case x < 97:
			evs = append(evs, c11Event{kind: 'g', from: []uint64{2, 9}[r.IntN(2)]})
		default:
			evs = append(evs, c11Event{kind: 'e'})
		}
	}
	return evs
}

func c11Random(c *Ctx, t *testing.T) {
	r := NewRng(c.Seed, 1102)
	n := 6000
	if c.Thorough() {
		n = 150000
	}
	seen := map[string]bool{}
	for it := 0; it < n; it++ {
		tr := c11RandomTrace(r)
		key := c11Tokens(tr)
		if seen[key] {
			continue
		}
		seen[key] = true
		c11EmitTrace(c, t, c11Members, tr)
		c.Count("random")
	}
}

// c11Flood: buffer accounting.  Collected messages give their slots back; the reader latches
// ErrReceiveBufferFull exactly when a new message arrives while `bound` are outstanding.
func c11Flood(c *Ctx, t *testing.T) {
	r := NewRng(c.Seed, 1103)
	n := 3
	if c.Thorough() {
		n = 12
	}
	for it := 0; it < n; it++ {
		k := 1 + r.IntN(3) // collected before the flood
		var tr []c11Event
		tr = append(tr, c11Recv(0, nil, "w"))
		for i := 0; i < k; i++ {
			tr = append(tr, c11Deliver(uint64(2+i), "c", "aa"))
		}
		dup := r.IntN(2) == 0
		if dup {
			tr = append(tr, c11Deliver(2, "c", "aa")) // absorbed: must not count
		}
		exp := []uint64{2, 3, 4}[:k]
		collect := it%3 != 2
		if collect {
			tr = append(tr, c11Recv(1, nil, "c", exp...))
		}
		outstanding := 0
		if !collect {
			outstanding = k
		}
		slack := r.IntN(2) // 0: fill exactly to the bound, 1: leave one slot
		fill := c11Bound - outstanding - slack
		tr = append(tr, c11Event{kind: 'f', from: 3, n: fill, tag: "f"})
		tr = append(tr, c11Recv(2, nil, "f7", 3)) // frees one slot
		tr = append(tr, c11Deliver(4, "y", "aa"))
		tr = append(tr, c11Recv(3, nil, "y", 4)) // and gives it back
		tr = append(tr, c11Deliver(4, "z", "aa"))
		tr = append(tr, c11Deliver(4, "z2", "aa")) // slack 0: one too many; slack 1: exactly at the bound
		tr = append(tr, c11Recv(4, nil, "z2", 4))
		tr = append(tr, c11Deliver(4, "z3", "aa"))
		tr = append(tr, c11Recv(5, nil, "f8", 3))
		c11EmitTrace(c, t, c11Members, tr)
		c.Count("flood")
	}
}

// ---------------------------------------------------------------------------------- stress

// c11Stress runs traces on the real scheduler without any serialisation: receives are started
// from concurrent goroutines while a feeder delivers.  Only traces whose outcome does not depend
// on the schedule are generated (no conflicts, no Close, no cancellation): every receive must
// complete with exactly the first payload of every requested sender.
func c11Stress(c *Ctx) {
	r := NewRng(c.Seed, 1104)
	n := 150
	if c.Thorough() {
		n = 4000
	}
	hangs := 0
	for it := 0; it < n; it++ {
		if hangs >= 2 {
			// two receives already hung for a minute each (reported): more of them add nothing
			c.Note("stress: stopped after two hung traces")
			break
		}
		ncid := 1 + r.IntN(5)
		var msgs, recvs []c11Event
		for i := 0; i < ncid; i++ {
			k := c11Cids[(it+i)%len(c11Cids)]
			k.local += strconv.Itoa(i)
			exp := [][]uint64{{2}, {2, 3}, {2, 3, 4}}[r.IntN(3)]
			for _, from := range []uint64{2, 3, 4} {
				p := string([]byte{byte('a' + r.IntN(3)), byte(from)})
				msgs = append(msgs, c11Deliver(from, c11Join(k.path, k.local), p))
				for r.IntN(3) == 0 {
					msgs = append(msgs, c11Deliver(from, c11Join(k.path, k.local), p)) // identical retransmission
				}
			}
			if r.IntN(3) == 0 {
				msgs = append(msgs, c11Deliver(9, c11Join(k.path, k.local), "zz"))
			}
			recvs = append(recvs, c11Recv(i, k.path, k.local, exp...))
		}
		r.Shuffle(len(msgs), func(i, j int) { msgs[i], msgs[j] = msgs[j], msgs[i] })
		// the line lists the receives first, then the arrivals (any interleaving has the same outcome)
		evs := append(append([]c11Event{}, recvs...), msgs...)
		lhs := fmt.Sprintf("stress %s %d %s", c11IDs(c11Members), c11Bound, c11Tokens(evs))
		c11Tick(lhs)
		d := newC11Delivery(1, c11Members, len(msgs))
		root := network.NewRouter(d)
		results := make([]string, len(recvs))
		var wg sync.WaitGroup
		ctx, cancel := context.WithTimeout(context.Background(), 60*time.Second)
		for i, e := range recvs {
			wg.Add(1)
			go func() {
				defer wg.Done()
				if i%2 == 1 {
					time.Sleep(time.Duration(i*37%200) * time.Microsecond)
				}
				ids := make([]sharing.ID, len(e.exp))
				for j, id := range e.exp {
					ids[j] = sharing.ID(id)
				}
				res := safely(func() string { return c11Res(c11View(root, e.path).ReceiveFrom(ctx, e.local, ids...)) })
				results[i] = fmt.Sprintf("%d@0=%s", e.rid, res)
			}()
		}
		go func() {
			for _, m := range msgs {
				for _, in := range c11Items(m) {
					d.hand <- in
				}
			}
		}()
		wg.Wait()
		hung := ctx.Err() != nil
		cancel()
		// the accounting invariant holds whenever mu is free, under any schedule
		if pk := newC11Peek(root); pk.ok {
			if b, _, held := pk.read(true); b != held {
				c.Violation(fmt.Sprintf("router accounting: the counter says buffered=%d but the mailboxes hold %d undelivered messages after %s", b, held, lhs))
			}
		}
		root.Close()
		res := strings.Join(results, ";")
		if hung {
			hangs++
			c.Violation("receive did not return within 60s although all its messages were delivered: " + lhs + " => " + res)
		}
		c.Count("stress")
		c.Emit(lhs, res)
	}
}

// c11WakeRace hunts lost wake-ups on the real scheduler: on ONE router, round after round, a receive
// for two senders runs concurrently with the two deliveries, the second of which follows the first
// after a varying, very short delay — so that it is deposited while the receiver is somewhere
// between "woken by the first", "re-scanning under the lock" and "back in select".  Whatever the
// interleaving, both messages are deposited, so the receive must complete with exactly them
// (progress_complete); a receive that does not return within 20 s is a deadlock.
func c11WakeRace(c *Ctx) {
	r := NewRng(c.Seed, 1106)
	rounds := 30000
	if c.Thorough() {
		rounds = 400000
	}
	lhs := fmt.Sprintf("race %s %d %d", c11IDs(c11Members), c11Bound, rounds)
	c11Tick(lhs)
	d := newC11Delivery(1, c11Members, 8)
	root := network.NewRouter(d)
	ok, bad := 0, "-"
	for i := 0; i < rounds; i++ {
		cid := "w" + strconv.Itoa(i)
		view, local := root, cid
		if i%3 == 1 {
			view = root.Namespaced("n")
			cid = "n/" + cid
		}
		p2, p3 := []byte{2, byte(i), byte(i >> 8)}, []byte{3, byte(i), byte(i >> 8)}
		want := fmt.Sprintf("ok:2=%s,3=%s", hexBytes(p2), hexBytes(p3))
		done := make(chan string, 1)
		ctx, cancel := context.WithTimeout(context.Background(), 20*time.Second)
		go func() {
			done <- safely(func() string { return c11Res(view.ReceiveFrom(ctx, local, 2, 3)) })
		}()
		for j := r.IntN(4); j > 0; j-- {
			runtime.Gosched()
		}
		d.hand <- c11In{from: 2, msg: c11Encode(cid, p2)}
		if i%2 == 0 {
			d.hand <- c11In{from: 2, msg: c11Encode(cid, p2)} // identical retransmission: one more signal-free deposit
		}
		for j := r.IntN(6); j > 0; j-- {
			runtime.Gosched()
		}
		d.hand <- c11In{from: 3, msg: c11Encode(cid, p3)}
		res := <-done
		cancel()
		if res != want {
			bad = fmt.Sprintf("%d:%s", i, res)
			c.Violation(fmt.Sprintf("receive of round %d did not complete (%s) although both its messages were delivered and nothing else is outstanding: %s", i, res, lhs))
			break
		}
		ok++
		c11Tick(lhs)
	}
	if pk := newC11Peek(root); pk.ok && bad == "-" {
		if b, x, held := pk.read(true); b != held || b != 0 || x != 0 {
			c.Violation(fmt.Sprintf("router accounting after %s: buffered=%d, mailboxes hold %d messages, %d mailbox objects (all exchanges completed)", lhs, b, held, x))
		}
	}
	root.Close()
	c.Count("race")
	c.Stats["race.rounds"] += ok
	c.Emit(lhs, fmt.Sprintf("ok=%d;bad=%s", ok, bad))
}
