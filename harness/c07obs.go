// c07obs.go — observation layer of the C07 stream: a recording reader per party (size of every Read
// call, attributed to the executed step) and a generic CBOR leaf view of every routed message.

package main

import (
	"fmt"
	"io"
	"sort"
	"strings"
	"sync"

	"github.com/fxamacker/cbor/v2"
)

// c07Rec records the size of every Read call made on a party's stream.  It serialises concurrent
// readers (the library's AND-composition samples from one reader in several goroutines).
type c07Rec struct {
	mu    sync.Mutex
	r     io.Reader
	calls []int // bytes returned by each Read call, in order
	mark  int   // calls[:mark] belong to earlier runs on the same reader (sequences of sessions)
}

func (c *c07Rec) Read(p []byte) (int, error) {
	c.mu.Lock()
	defer c.mu.Unlock()
	n, err := c.r.Read(p)
	c.calls = append(c.calls, n)
	return n, err
}

// take returns the calls made since the previous take.
func (c *c07Rec) take() []int {
	c.mu.Lock()
	defer c.mu.Unlock()
	out := append([]int{}, c.calls[c.mark:]...)
	c.mark = len(c.calls)
	return out
}

// c07Draws: per party, per executed step (constructor first) the sizes of the Read calls.
type c07Draws map[ID][][]int

// c07DrawsOf splits each party's recorded calls by the per-step byte counts of the Net.
func c07DrawsOf(n *Net) (c07Draws, string) {
	out := c07Draws{}
	for _, id := range n.IDs {
		cr := n.Rng(id)
		if cr == nil {
			continue
		}
		rec, ok := cr.R.(*c07Rec)
		if !ok {
			continue
		}
		calls := rec.take()
		k := 0
		for _, rd := range n.Reads {
			want, has := rd[id]
			if !has {
				continue
			}
			var step []int
			var got int64
			for got < want && k < len(calls) {
				step = append(step, calls[k])
				got += int64(calls[k])
				k++
			}
			if got != want {
				return nil, fmt.Sprintf("recorder-out-of-step party=%d", id)
			}
			out[id] = append(out[id], step)
		}
		for ; k < len(calls); k++ {
			if calls[k] != 0 {
				return nil, fmt.Sprintf("recorder-trailing-calls party=%d", id)
			}
		}
	}
	return out, ""
}

// c07StepStr renders the calls of one step as a sorted multiset "32x4+48x2" ("0" = nothing drawn).
func c07StepStr(calls []int) string {
	cnt := map[int]int{}
	for _, c := range calls {
		if c > 0 {
			cnt[c]++
		}
	}
	if len(cnt) == 0 {
		return "0"
	}
	var sizes []int
	for s := range cnt {
		sizes = append(sizes, s)
	}
	sort.Ints(sizes)
	parts := make([]string, len(sizes))
	for i, s := range sizes {
		parts[i] = fmt.Sprintf("%dx%d", s, cnt[s])
	}
	return strings.Join(parts, "+")
}

// ---------------------------------------------------------------------------------------------
// CBOR leaves

// c07Leaf is one scalar leaf of a message: its path (map keys / array indices) and canonical bytes.
type c07Leaf struct {
	path string
	val  []byte
}

// c07Leaves flattens a CBOR item into its leaves.  Byte strings are kept as they are, everything else
// scalar is rendered as text; tags are transparent.
func c07Leaves(b []byte) ([]c07Leaf, error) {
	var v any
	if err := cbor.Unmarshal(b, &v); err != nil {
		return nil, err
	}
	var out []c07Leaf
	var walk func(path string, v any)
	walk = func(path string, v any) {
		switch x := v.(type) {
		case map[any]any:
			keys := make([]string, 0, len(x))
			byKey := map[string]any{}
			for k, vv := range x {
				ks := fmt.Sprint(k)
				keys = append(keys, ks)
				byKey[ks] = vv
			}
			sort.Strings(keys)
			for _, k := range keys {
				walk(path+"/"+k, byKey[k])
			}
		case []any:
			for i, vv := range x {
				walk(fmt.Sprintf("%s/%d", path, i), vv)
			}
		case cbor.Tag:
			walk(path, x.Content)
		case []byte:
			out = append(out, c07Leaf{path, x})
		default:
			out = append(out, c07Leaf{path, []byte(fmt.Sprint(x))})
		}
	}
	walk("", v)
	return out, nil
}

// ---------------------------------------------------------------------------------------------
// measured statistics that are sums (jobOut.Count only increments)

var (
	c07StatMu sync.Mutex
	c07Stats  = map[string]int{}
)

func c07AddStat(k string, n int) {
	c07StatMu.Lock()
	c07Stats[k] += n
	c07StatMu.Unlock()
}

// ---------------------------------------------------------------------------------------------
// leaf oracles

const c07LongLeaf = 16 // bytes: a collision of two independent values of this length is negligible

// c07Pattern collapses array indices of a leaf path to '#'.
func c07Pattern(path string) string {
	parts := strings.Split(path, "/")
	for i, p := range parts {
		if p == "" {
			continue
		}
		num := true
		for _, ch := range p {
			if ch < '0' || ch > '9' {
				num = false
				break
			}
		}
		if num {
			parts[i] = "#"
		}
	}
	return c07Sanitize(strings.Join(parts, "/"))
}

func c07Sanitize(s string) string {
	return strings.NewReplacer(" ", "_", ",", "_", "=", "_").Replace(s)
}

func c07SlotParts(slot string) (round int, from, to ID) {
	var f, t uint64
	base, _, _ := strings.Cut(slot, "#")
	fmt.Sscanf(base, "%d/%d/%d", &round, &f, &t)
	return round, ID(f), ID(t)
}

// longLeaves of one routed message (nil when it does not decode).
func (r *c07Run) longLeaves(slot string) []c07Leaf {
	ls, err := c07Leaves(r.msgs[slot])
	if err != nil {
		return nil
	}
	out := ls[:0]
	for _, l := range ls {
		if len(l.val) >= c07LongLeaf {
			out = append(out, l)
		}
	}
	return out
}

// perRecipient inspects, for every round and sender with unicasts to at least two recipients, the long
// leaves of those unicasts: a value that is sent to two different recipients, or occurs twice inside
// one message, is reported by the pattern of its path.
func (r *c07Run) perRecipient() (groups, leaves int, repeats []string) {
	type key struct {
		round int
		from  ID
	}
	by := map[key][]string{}
	var order []key
	for _, s := range r.slots {
		rd, from, to := c07SlotParts(s)
		if to == 0 {
			continue
		}
		k := key{rd, from}
		if _, ok := by[k]; !ok {
			order = append(order, k)
		}
		by[k] = append(by[k], s)
	}
	seenRep := map[string]bool{}
	for _, k := range order {
		slots := by[k]
		if len(slots) < 2 {
			continue
		}
		groups++
		type occ struct {
			to   ID
			path string
		}
		seen := map[string]occ{}
		for _, s := range slots {
			_, _, to := c07SlotParts(s)
			for _, l := range r.longLeaves(s) {
				leaves++
				v := string(l.val)
				if prev, ok := seen[v]; ok {
					tag := fmt.Sprintf("r%d.%d:%s", k.round, k.from, c07Pattern(l.path))
					if prev.to == to {
						tag = "dup:" + tag
					}
					if !seenRep[tag] {
						seenRep[tag] = true
						repeats = append(repeats, tag)
					}
					continue
				}
				seen[v] = occ{to, l.path}
			}
		}
	}
	sort.Strings(repeats)
	return groups, leaves, repeats
}

// c07SameLeaves compares the long leaves of the messages SENT BY `c` between run a and run b (where
// only c's stream differs): the paths ("r<round>.<b|u>:<path>", array indices kept) of the leaves
// whose value did not change; at most c07SameCap (256) are listed, the rest is counted ("more:<n>").
const c07SameCap = 256

func c07SameLeaves(a, b *c07Run, c ID) (compared int, same []string) {
	seen := map[string]bool{}
	for _, s := range a.slots {
		rd, from, to := c07SlotParts(s)
		if from != c {
			continue
		}
		if _, ok := b.msgs[s]; !ok {
			continue
		}
		bl := map[string][]byte{}
		for _, l := range b.longLeaves(s) {
			bl[l.path] = l.val
		}
		kind := "u"
		if to == 0 {
			kind = "b"
		}
		for _, l := range a.longLeaves(s) {
			bv, ok := bl[l.path]
			if !ok {
				continue
			}
			compared++
			if string(bv) == string(l.val) {
				tag := fmt.Sprintf("r%d.%s:%s", rd, kind, c07Sanitize(l.path))
				if !seen[tag] {
					seen[tag] = true
					same = append(same, tag)
				}
			}
		}
	}
	sort.Strings(same)
	if len(same) > c07SameCap {
		same = append(same[:c07SameCap:c07SameCap], fmt.Sprintf("more:%d", len(same)-c07SameCap))
	}
	return compared, same
}
