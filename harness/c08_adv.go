package main

// C08, adversarial-prover family.
//
// The streams of c08.go mutate *honest* proofs (bit flips, truncation, context changes).  A verifier
// that no longer insists on the prescribed number of components, or on the challenge being the
// transcript hash, stays silent under those mutations because every change of an honest proof also
// changes a hash input.  Here the prover itself is adversarial: it runs the public proving
// algorithm with other parameters (fewer / more repetitions, fewer / more branches), or without a
// witness (simulator + grinding), and re-hashes everything consistently so that only the property
// at stake is wrong.  The verdict is decided by the Lean model verifier with the *specified*
// parameters (which are part of every line); a Go-side oracle states the same expectation.
//
//   advSigma     statement substitution (one component), simulated transcript under another
//                challenge, transcripts of the protocol configured for another component count
//   advFS        simulated transcript whose challenge is not the hash; simulated commitment with the
//                right hash; honest commitment with a response for a neighbouring challenge;
//                statement substitution; component-count attacks; cross-protocol replay
//   advFischlin  own implementation of both Fischlin provers parameterised by (repetitions,
//                rho label, with/without witness)
//   advZK        challenge opened to another value; simulated prover; component-count attacks

import (
	"crypto/sha3"
	"encoding/binary"
	"encoding/hex"
	"fmt"
	"reflect"

	"github.com/bronlabs/bron-crypto/pkg/base/serde"
	"github.com/bronlabs/bron-crypto/pkg/commitments/hashcom"
	"github.com/bronlabs/bron-crypto/pkg/hashing"
	"github.com/bronlabs/bron-crypto/pkg/mpc/session"
	"github.com/bronlabs/bron-crypto/pkg/proofs/sigma"
	"github.com/bronlabs/bron-crypto/pkg/proofs/sigma/compiler"
	"github.com/bronlabs/bron-crypto/pkg/proofs/sigma/compiler/fiatshamir"
	"github.com/bronlabs/bron-crypto/pkg/proofs/sigma/compiler/fischlin"
	"github.com/bronlabs/bron-crypto/pkg/proofs/sigma/compiler/randfischlin"
	"github.com/bronlabs/bron-crypto/pkg/proofs/sigma/compiler/zk"
)

type namedX[X any] struct {
	kind string // "component" | "order"
	x    X
}

type resized[X sigma.Statement, W sigma.Witness, A sigma.Statement, S sigma.State, Z sigma.Response] struct {
	kind  string // "fewer" | "more"
	proto sigma.Protocol[X, W, A, S, Z]
	x     X
	w     W
}

// foreignVerifier presents proof bytes made for one protocol to the verifier of another one.
type foreignVerifier struct {
	kind   string
	verify func(c *Ctx, r *Rng, cname compiler.Name, spec ctxSpec, proof []byte) (out string, line string)
}

// fsForeign: the Fiat–Shamir (or Fischlin) verifier of `proto` for statement x.
func fsForeign[X sigma.Statement, W sigma.Witness, A sigma.Statement, S sigma.State, Z sigma.Response](
	kind string, proto sigma.Protocol[X, W, A, S, Z], x X, line func(op string, x X, a A, e []byte, z Z, extra string) string,
) foreignVerifier {
	return foreignVerifier{kind: kind, verify: func(c *Ctx, r *Rng, cname compiler.Name, spec ctxSpec, proof []byte) (string, string) {
		nip, err := compiler.Compile(cname, proto, r)
		if err != nil {
			return "err:compile", ""
		}
		ver, err := nip.NewVerifier(spec.build())
		if err != nil {
			return "err:newverifier", ""
		}
		out := safely(func() string { return res(ver.Verify(x, proof)) })
		ln := ""
		if cname == fiatshamir.Name && line != nil {
			if d := fsDecode[A, Z](proof); d != nil {
				eCtx := fsChallenge(spec.build(), proto.Name(), x.Bytes(), d.a.Bytes(), proto.GetChallengeBytesLength())
				ln = line("fs", x, d.a, d.e, d.z, hexBytes(eCtx))
			}
		}
		return out, ln
	}}
}

func advLevel[X sigma.Statement, W sigma.Witness, A sigma.Statement, S sigma.State, Z sigma.Response](c *Ctx, r *Rng, cs *sigCase[X, W, A, S, Z]) {
	advSigma(c, r, cs)
	advFS(c, r, cs)
	full := c.Thorough() || cs.fischlinQuick
	advFischlin(c, r, cs, false, full)
	advFischlin(c, r, cs, true, full)
	advZK(c, r, cs)
}

// variantsOf: the one-component statement substitutions to try (all in the thorough tier; one
// changed component at a random position and one reordering otherwise)
func variantsOf[X sigma.Statement, W sigma.Witness, A sigma.Statement, S sigma.State, Z sigma.Response](c *Ctx, r *Rng, cs *sigCase[X, W, A, S, Z]) []namedX[X] {
	if cs.xVariants == nil {
		return nil
	}
	all := cs.xVariants(cs.x)
	if c.Thorough() || len(all) <= 2 {
		return all
	}
	var comp, order []namedX[X]
	for _, v := range all {
		if v.kind == "order" {
			order = append(order, v)
		} else {
			comp = append(comp, v)
		}
	}
	var out []namedX[X]
	if len(comp) > 0 {
		out = append(out, comp[r.IntN(len(comp))])
	}
	if len(order) > 0 {
		out = append(out, order[r.IntN(len(order))])
	}
	return out
}

func c08FlipBit(r *Rng, b []byte) []byte {
	out := append([]byte{}, b...)
	out[r.IntN(len(out))] ^= 1 << r.IntN(8)
	return out
}

// ---------------------------------------------------------------------------------- sigma level

func advSigma[X sigma.Statement, W sigma.Witness, A sigma.Statement, S sigma.State, Z sigma.Response](c *Ctx, r *Rng, cs *sigCase[X, W, A, S, Z]) {
	tag := cs.tag + ".adv.sigma"
	p := cs.proto
	n := p.GetChallengeBytesLength()
	a, st, err := p.ComputeProverCommitment(cs.x, cs.w)
	if err != nil {
		c.Violation(tag + " commitment failed")
		return
	}
	e := randBytes(r, n)
	z, err := p.ComputeProverResponse(cs.x, cs.w, a, st, e)
	if err != nil {
		c.Violation(tag + " response failed")
		return
	}
	mustReject := func(kind string, x X, a A, e []byte, z Z) {
		out := safely(func() string { return res(p.Verify(x, a, e, z)) })
		if out != "reject" {
			c.Violation(fmt.Sprintf("%s %s: transcript not rejected (%s) e=%s", tag, kind, out, eHex(e)))
		}
		c.Count(tag + "." + kind)
		c.emitIf(cs.line("verify", x, a, e, z, ""), out)
	}
	// a valid transcript for x presented for a statement that differs in one component
	for _, v := range variantsOf(c, r, cs) {
		mustReject("statement-"+v.kind, v.x, a, e, z)
	}
	// a simulated transcript (no witness) is bound to the challenge it was simulated for
	e0 := randBytes(r, n)
	if aS, zS, err := p.RunSimulator(cs.x2, e0); err == nil {
		mustReject("sim-other-challenge", cs.x2, aS, c08FlipBit(r, e0), zS)
	} else {
		c.Violation(tag + " simulator failed")
	}
	// the same protocol configured for another number of components
	for _, rz := range cs.resized {
		aR, stR, err := rz.proto.ComputeProverCommitment(rz.x, rz.w)
		if err != nil {
			c.Violation(fmt.Sprintf("%s resized(%s) commitment failed", tag, rz.kind))
			continue
		}
		zR, err := rz.proto.ComputeProverResponse(rz.x, rz.w, aR, stR, e)
		if err != nil {
			c.Violation(fmt.Sprintf("%s resized(%s) response failed", tag, rz.kind))
			continue
		}
		if rz.proto.Verify(rz.x, aR, e, zR) != nil {
			c.Violation(fmt.Sprintf("%s resized(%s) honest transcript rejected by its own verifier", tag, rz.kind))
		}
		mustReject("count-"+rz.kind, rz.x, aR, e, zR)          // everything consistent, only the count differs
		mustReject("count-"+rz.kind+"-fullstatement", cs.x, aR, e, zR) // statement of the configured size
		mustReject("count-"+rz.kind+"-fullproof", rz.x, a, e, z)       // proof of the configured size
	}
}

// ---------------------------------------------------------------------------------- Fiat–Shamir

type fsDTO[A sigma.Statement, Z sigma.Response] struct {
	A A      `cbor:"A"`
	E []byte `cbor:"E"`
	Z Z      `cbor:"Z"`
}

// fsEncode builds the bytes of a Fiat–Shamir proof from arbitrary (a, e, z).
func fsEncode[A sigma.Statement, Z sigma.Response](a A, e []byte, z Z) (out []byte) {
	defer func() {
		if recover() != nil {
			out = nil
		}
	}()
	b, err := serde.MarshalCBOR(&fsDTO[A, Z]{A: a, E: e, Z: z})
	if err != nil {
		return nil
	}
	return b
}

func advFS[X sigma.Statement, W sigma.Witness, A sigma.Statement, S sigma.State, Z sigma.Response](c *Ctx, r *Rng, cs *sigCase[X, W, A, S, Z]) {
	tag := cs.tag + ".adv.fs"
	p := cs.proto
	n := p.GetChallengeBytesLength()
	spec := ctxSpec{seed: randBytes(r, 64), proverID: 1}
	verifyBytes := func(x X, pf []byte) string {
		nip, err := compiler.Compile(fiatshamir.Name, p, r)
		if err != nil {
			return "err:compile"
		}
		ver, err := nip.NewVerifier(spec.build())
		if err != nil {
			return "err:newverifier"
		}
		return safely(func() string { return res(ver.Verify(x, pf)) })
	}
	hashOf := func(x X, a A) []byte { return fsChallenge(spec.build(), p.Name(), x.Bytes(), a.Bytes(), n) }
	// present (a, e, z) as a proof for x to the verifier of the case
	present := func(kind string, x X, a A, e []byte, z Z, want string) {
		pf := fsEncode(a, e, z)
		if pf == nil || fsDecode[A, Z](pf) == nil {
			c.Violation(fmt.Sprintf("%s %s: the harness cannot encode this proof", tag, kind))
			return
		}
		out := verifyBytes(x, pf)
		if out != want {
			c.Violation(fmt.Sprintf("%s %s: %s (expected %s) proof=%s", tag, kind, out, want, hexBytes(pf)))
		}
		c.Count(tag + "." + kind)
		c.emitIf(cs.line("fs", x, a, e, z, hexBytes(hashOf(x, a))), out)
	}
	honest := func(proto sigma.Protocol[X, W, A, S, Z], x X, w W) ([]byte, *fsDecoded[A, Z]) {
		nip, err := compiler.Compile(fiatshamir.Name, proto, r)
		if err != nil {
			return nil, nil
		}
		prover, err := nip.NewProver(spec.build())
		if err != nil {
			return nil, nil
		}
		pf, err := prover.Prove(x, w)
		if err != nil {
			return nil, nil
		}
		return pf, fsDecode[A, Z](pf)
	}
	pf, d := honest(p, cs.x, cs.w)
	if d == nil {
		c.Violation(tag + " honest proof failed / does not decode")
		return
	}
	// the encoder is faithful: the re-encoded honest proof verifies
	present("reencoded-honest", cs.x, d.a, d.e, d.z, "accept")

	// witness-free forgeries for x2 (its witness is never used here)
	e0 := randBytes(r, n)
	aS, zS, err := p.RunSimulator(cs.x2, e0)
	if err != nil {
		c.Violation(tag + " simulator failed")
		return
	}
	present("sim-free-challenge", cs.x2, aS, e0, zS, "reject") // valid sigma transcript, e is not the hash
	if h := hashOf(cs.x2, aS); !c08BytesEq(h, e0) {
		present("sim-rehashed", cs.x2, aS, h, zS, "reject") // e is the hash, the transcript is not valid
	}
	// honest commitment, response to a neighbouring challenge
	if a, st, err := p.ComputeProverCommitment(cs.x, cs.w); err == nil {
		h := hashOf(cs.x, a)
		// a valid transcript whose challenge differs from the hash in one bit: of the first byte, of
		// the last byte, of a random byte
		for k, pos := range []int{0, n - 1, r.IntN(n)} {
			e1 := append([]byte{}, h...)
			e1[pos] ^= 1 << r.IntN(8)
			if z1, err := p.ComputeProverResponse(cs.x, cs.w, a, st, e1); err == nil {
				if k == 0 {
					present("response-for-neighbour", cs.x, a, h, z1, "reject")
				}
				present("neighbour-challenge", cs.x, a, e1, z1, "reject")
			}
		}
	}
	// statement substitution: the valid proof for x presented for x' (one component differs)
	for _, v := range variantsOf(c, r, cs) {
		present("statement-"+v.kind, v.x, d.a, d.e, d.z, "reject")
	}
	// component-count attacks: the honest prover of the same protocol configured for another count
	for _, rz := range cs.resized {
		_, dR := honest(rz.proto, rz.x, rz.w)
		if dR == nil {
			c.Violation(fmt.Sprintf("%s resized(%s) prover failed", tag, rz.kind))
			continue
		}
		present("count-"+rz.kind, rz.x, dR.a, dR.e, dR.z, "reject")
		present("count-"+rz.kind+"-fullstatement", cs.x, dR.a, dR.e, dR.z, "reject")
		present("count-"+rz.kind+"-fullproof", rz.x, d.a, d.e, d.z, "reject")
	}
	// cross-protocol replay of the honest proof bytes
	for _, f := range cs.foreign {
		out, ln := f.verify(c, r, fiatshamir.Name, spec, pf)
		if out != "reject" {
			c.Violation(fmt.Sprintf("%s proof accepted by the verifier of another protocol (%s): %s proof=%s", tag, f.kind, out, hexBytes(pf)))
		}
		c.Count(tag + ".foreign." + f.kind)
		c.emitIf(ln, out)
	}
}

func c08BytesEq(a, b []byte) bool { return string(a) == string(b) }

// ---------------------------------------------------------------------------------- Fischlin

// flCfg: how the adversarial Fischlin prover is configured.
type flCfg struct {
	k        int    // repetitions it produces
	rhoLabel uint64 // value it absorbs under rhoLabel (deterministic variant)
	sim      bool   // no witness: every repetition is a simulated transcript ground until it meets
	// the hash target of the proof consisting of that repetition alone (k = 1: a complete forgery)
}

// flEnv: the hashing environment of one (randomised) Fischlin proof — the transcript prefix the
// prover and the verifier absorb before the repetitions, recomputed through the real transcript.
type flEnv[X sigma.Statement, W sigma.Witness, A sigma.Statement, S sigma.State, Z sigma.Response] struct {
	r          *Rng
	proto      sigma.Protocol[X, W, A, S, Z]
	fp         fischlinParams
	randomised bool
	x          X
	xb         []byte
	sid        []byte
	key        []byte // commonH key (deterministic) / crs (randomised)
	n          int
	space      uint64
}

func newFlEnv[X sigma.Statement, W sigma.Witness, A sigma.Statement, S sigma.State, Z sigma.Response](
	r *Rng, ctx *session.Context, proto sigma.Protocol[X, W, A, S, Z], fp fischlinParams, randomised bool, x X, rhoLabel uint64,
) *flEnv[X, W, A, S, Z] {
	sid := ctx.SessionID()
	t := ctx.Transcript()
	env := &flEnv[X, W, A, S, Z]{r: r, proto: proto, fp: fp, randomised: randomised, x: x, xb: x.Bytes(), sid: sid[:], n: proto.GetChallengeBytesLength()}
	var err error
	if randomised {
		const label = "BRON_CRYPTO_NIZK_RANDOMISED_FISCHLIN-"
		t.AppendDomainSeparator(label + "-" + string(proto.Name()) + "-" + hex.EncodeToString(sid[:]))
		t.AppendDomainSeparator(label + "-" + hex.EncodeToString(sid[:]))
		env.key, err = t.ExtractBytes("crsLabel-", 32)
		env.space = uint64(1) << 14
	} else {
		t.AppendDomainSeparator("BRON_CRYPTO_NIZK_FISCHLIN-" + "-" + string(proto.Name()) + "-" + hex.EncodeToString(sid[:]))
		t.AppendBytes("rhoLabel-", binary.LittleEndian.AppendUint64(nil, rhoLabel))
		t.AppendBytes("statementLabel-", env.xb)
		env.key, err = t.ExtractBytes("commonHLabel-", 32)
		env.space = uint64(1) << fp.t
	}
	if err != nil {
		return nil
	}
	return env
}

// common value of a proof whose concatenated commitments are aCat (deterministic variant)
func (env *flEnv[X, W, A, S, Z]) commonOf(aCat []byte) []byte {
	if env.randomised {
		return nil
	}
	return sha3Concat(env.key, env.xb, aCat, env.sid)
}

// does repetition i with (e, z) meet the target when the commitments of the proof are aCat?
func (env *flEnv[X, W, A, S, Z]) meets(common, aCat []byte, i int, e, zb []byte) bool {
	if env.randomised {
		h, err := hashing.HashIndexLengthPrefixed(sha3.New256, env.key, aCat, binary.LittleEndian.AppendUint64(nil, uint64(i)), e, zb)
		return err == nil && h[0] == 0
	}
	h := sha3Concat(common, binary.LittleEndian.AppendUint64(make([]byte, 8), uint64(i)), e, zb)
	for bit := 0; bit < env.fp.b; bit++ {
		if h[bit/8]&(1<<(bit%8)) != 0 {
			return false
		}
	}
	return true
}

// the j-th candidate challenge: (bytes handed to the sigma protocol, bytes stored in the proof)
func (env *flEnv[X, W, A, S, Z]) challenge(j uint64) (full, stored []byte) {
	full = make([]byte, env.n)
	if env.randomised {
		_, _ = env.r.Read(full[:7]) // TBytes
		return full, full
	}
	var be [8]byte
	binary.BigEndian.PutUint64(be[:], j)
	copy(full[env.n-8:], be[:])
	return full, full[env.n-(env.fp.t+7)/8:]
}

// pad: the bytes of a stored challenge as the sigma protocol receives them
func (env *flEnv[X, W, A, S, Z]) pad(stored []byte) []byte {
	if env.randomised || len(stored) >= env.n {
		return stored
	}
	full := make([]byte, env.n)
	copy(full[env.n-len(stored):], stored)
	return full
}

func aCatOf[A sigma.Statement](as []A) []byte {
	var out []byte
	for _, a := range as {
		out = append(out, a.Bytes()...)
	}
	return out
}

// simulate: k simulated transcripts (no witness), each ground until it meets the hash target of the
// proof consisting of that repetition alone (k = 1: a complete forgery)
func (env *flEnv[X, W, A, S, Z]) simulate(k int) *flDecoded[A, Z] {
	d := &flDecoded[A, Z]{a: make([]A, k), e: make([][]byte, k), z: make([]Z, k)}
	for i := 0; i < k; i++ {
		found := false
		for try := uint64(0); try < env.space*4 && !found; try++ {
			full, stored := env.challenge(uint64(env.r.IntN(int(env.space))))
			a, z, err := env.proto.RunSimulator(env.x, full)
			if err != nil {
				return nil
			}
			ab := a.Bytes()
			if env.meets(env.commonOf(ab), ab, i, stored, z.Bytes()) {
				d.a[i], d.e[i], d.z[i] = a, append([]byte{}, stored...), z
				found = true
			}
		}
		if !found {
			return nil
		}
	}
	return d
}

// prove: the public proving algorithm with k repetitions; also returns the prover states
func (env *flEnv[X, W, A, S, Z]) prove(k int, w W) (*flDecoded[A, Z], []S) {
	d := &flDecoded[A, Z]{a: make([]A, k), e: make([][]byte, k), z: make([]Z, k)}
	var err error
redo:
	for attempt := 0; attempt < 4; attempt++ {
		st := make([]S, k)
		for i := 0; i < k; i++ {
			d.a[i], st[i], err = env.proto.ComputeProverCommitment(env.x, w)
			if err != nil {
				return nil, nil
			}
		}
		aCat := aCatOf(d.a)
		common := env.commonOf(aCat)
		for i := 0; i < k; i++ {
			found := false
			for j := uint64(0); j < env.space && !found; j++ {
				full, stored := env.challenge(j)
				z, err := env.proto.ComputeProverResponse(env.x, w, d.a[i], st[i], full)
				if err != nil {
					return nil, nil
				}
				if env.meets(common, aCat, i, stored, z.Bytes()) {
					d.e[i], d.z[i] = append([]byte{}, stored...), z
					found = true
				}
			}
			if !found {
				continue redo
			}
		}
		return d, st
	}
	return nil, nil
}

func (d *flDecoded[A, Z]) clone() *flDecoded[A, Z] {
	return &flDecoded[A, Z]{a: append([]A{}, d.a...), e: append([][]byte{}, d.e...), z: append([]Z{}, d.z...)}
}

// skipWork: repetition i of the valid proof d is replaced by another VALID sigma transcript on the
// same commitment that does not meet the hash target (a prover that skips the proof of work there)
func (env *flEnv[X, W, A, S, Z]) skipWork(d *flDecoded[A, Z], st []S, i int, w W) *flDecoded[A, Z] {
	aCat := aCatOf(d.a)
	common := env.commonOf(aCat)
	for j := uint64(0); j < 64; j++ {
		full, stored := env.challenge(j)
		z, err := env.proto.ComputeProverResponse(env.x, w, d.a[i], st[i], full)
		if err != nil {
			return nil
		}
		if !env.meets(common, aCat, i, stored, z.Bytes()) {
			out := d.clone()
			out.e[i], out.z[i] = append([]byte{}, stored...), z
			return out
		}
	}
	return nil
}

// wrongResponse: repetition i keeps its commitment and challenge but carries the response to ANOTHER
// challenge, searched until (e_i, z') meets the hash target: the hash check passes, the sigma
// verification of that repetition cannot
func (env *flEnv[X, W, A, S, Z]) wrongResponse(d *flDecoded[A, Z], st []S, i int, w W) *flDecoded[A, Z] {
	aCat := aCatOf(d.a)
	common := env.commonOf(aCat)
	for j := uint64(0); j < env.space; j++ {
		full, stored := env.challenge(j)
		if c08BytesEq(stored, d.e[i]) {
			continue
		}
		z, err := env.proto.ComputeProverResponse(env.x, w, d.a[i], st[i], full)
		if err != nil {
			return nil
		}
		if env.meets(common, aCat, i, d.e[i], z.Bytes()) {
			out := d.clone()
			out.z[i] = z
			return out
		}
	}
	return nil
}

// flForge runs the public proving algorithm of the (randomised) Fischlin compiler with the given
// configuration.  Returns nil when the search failed.
func flForge[X sigma.Statement, W sigma.Witness, A sigma.Statement, S sigma.State, Z sigma.Response](
	r *Rng, ctx *session.Context, proto sigma.Protocol[X, W, A, S, Z], fp fischlinParams, randomised bool, x X, w W, cfg flCfg,
) *flDecoded[A, Z] {
	env := newFlEnv(r, ctx, proto, fp, randomised, x, cfg.rhoLabel)
	if env == nil {
		return nil
	}
	if cfg.sim {
		return env.simulate(cfg.k)
	}
	d, _ := env.prove(cfg.k, w)
	return d
}

func flEncode[A sigma.Statement, Z sigma.Response](d *flDecoded[A, Z], randomised bool) (out []byte) {
	defer func() {
		if recover() != nil {
			out = nil
		}
	}()
	var err error
	if randomised {
		out, err = serde.MarshalCBOR(&randfischlin.Proof[A, Z]{A: d.a, E: d.e, Z: d.z})
	} else {
		out, err = serde.MarshalCBOR(&fischlin.Proof[A, Z]{A: d.a, E: d.e, Z: d.z})
	}
	if err != nil {
		return nil
	}
	return out
}

// c08ReflectUint reads an unexported unsigned field of the compiler object (nil if the layout changed:
// then the parameters line is simply not emitted).
func c08ReflectUint(v any, field string) (uint64, bool) {
	rv := reflect.ValueOf(v)
	for rv.Kind() == reflect.Pointer || rv.Kind() == reflect.Interface {
		if rv.IsNil() {
			return 0, false
		}
		rv = rv.Elem()
	}
	if rv.Kind() != reflect.Struct {
		return 0, false
	}
	f := rv.FieldByName(field)
	if !f.IsValid() || !f.CanUint() {
		return 0, false
	}
	return f.Uint(), true
}

func advFischlin[X sigma.Statement, W sigma.Witness, A sigma.Statement, S sigma.State, Z sigma.Response](c *Ctx, r *Rng, cs *sigCase[X, W, A, S, Z], randomised bool, full bool) {
	tag := cs.tag + ".adv.fischlin"
	cname := fischlin.Name
	if randomised {
		tag = cs.tag + ".adv.randfischlin"
		cname = randfischlin.Name
	}
	p := cs.proto
	n := p.GetChallengeBytesLength()
	ni, err := compiler.Compile(cname, p, r)
	if err != nil {
		c.Violation(fmt.Sprintf("%s compile failed", tag))
		return
	}
	fp := fischlinParamsOf(p.Name(), p.SpecialSoundness())
	if randomised {
		fp = fischlinParams{rho: 16}
		// the exported constants against the specification (lambda = 128 bits, l = 8 hash bits)
		c.Emit(fmt.Sprintf("params randfischlin %d %d %d %d", randfischlin.Lambda, randfischlin.L, randfischlin.R, randfischlin.T), "ok")
	} else {
		rho, ok1 := c08ReflectUint(ni, "rho")
		b, ok2 := c08ReflectUint(ni, "b")
		t, ok3 := c08ReflectUint(ni, "t")
		if ok1 && ok2 && ok3 {
			name := "other"
			if p.Name() == "PAILLIER_NTH_ROOTS" || p.Name() == "ZKPOK_PAILLIER_NTH_ROOTS" {
				name = "nthroot"
			}
			c.Emit(fmt.Sprintf("params fischlin %s %d %d %d %d", name, p.SpecialSoundness(), rho, b, t), "ok")
		} else {
			c.Count(tag + ".params-unreadable")
		}
	}
	spec := ctxSpec{seed: randBytes(r, 64), proverID: 1}
	targets := func(x X, d *flDecoded[A, Z]) []bool {
		if randomised {
			return randFischlinTargets(spec.build(), p.Name(), x.Bytes(), d)
		}
		return fischlinTargets(spec.build(), p.Name(), fp, x.Bytes(), d)
	}
	present := func(kind string, x X, d *flDecoded[A, Z], want string) {
		pf := flEncode(d, randomised)
		if pf == nil {
			c.Violation(fmt.Sprintf("%s %s: the harness cannot encode this proof", tag, kind))
			return
		}
		ver, err := ni.NewVerifier(spec.build())
		if err != nil {
			c.Violation(tag + " NewVerifier failed")
			return
		}
		out := safely(func() string { return res(ver.Verify(x, pf)) })
		if out != want {
			c.Violation(fmt.Sprintf("%s %s (%d repetitions, specified %d): %s (expected %s) proof=%s", tag, kind, len(d.a), fp.rho, out, want, hexBytes(pf)))
		}
		c.Count(tag + "." + kind)
		ts := targets(x, d)
		if cs.fischlinLine != nil {
			c.Emit(cs.fischlinLine(fp.rho, x, d.a, d.e, d.z, ts), out)
			return
		}
		// protocols without a model line of their own: the model decides from the per-repetition
		// target bits and sigma-verification bits
		vs := make([]bool, len(d.a))
		for i := range d.a {
			eFull := d.e[i]
			if !randomised && len(eFull) <= n {
				eFull = make([]byte, n)
				copy(eFull[n-len(d.e[i]):], d.e[i])
			}
			vs[i] = safely(func() string { return res(p.Verify(x, d.a[i], eFull, d.z[i])) }) == "accept"
		}
		c.Emit(fmt.Sprintf("fischlinbits %s %s %d %s %s", tag, kind, fp.rho, c08bits(ts), c08bits(vs)), out)
	}
	forge := func(x X, w W, cfg flCfg) *flDecoded[A, Z] {
		d := flForge(r, spec.build(), p, fp, randomised, x, w, cfg)
		if d == nil {
			c.Count(tag + ".search-failed")
		}
		return d
	}
	rho := uint64(fp.rho)
	var zeroW W
	// A proof with ONE repetition, hashed consistently (rho label of the verifier, its own single
	// commitment).  With the witness this costs 2^b responses; a prover without witness obtains the
	// very same kind of object from 2^b simulator runs (each costs group operations), so the
	// witness-free variant runs where a simulator call is cheap, and everywhere in the thorough tier.
	if d := forge(cs.x, cs.w, flCfg{k: 1, rhoLabel: rho}); d != nil {
		present("one-repetition-witness", cs.x, d, "reject")
	}
	if c.Thorough() || cs.advFull {
		if d := forge(cs.x2, zeroW, flCfg{k: 1, rhoLabel: rho, sim: true}); d != nil {
			present("one-repetition-simulated", cs.x2, d, "reject")
		}
	}
	if !(c.Thorough() || cs.advFull) {
		return
	}
	_ = full
	// the adversarial prover configured like the honest one is complete (so the attacks differ from
	// an acceptable proof in the component count only)
	if env := newFlEnv(r, spec.build(), p, fp, randomised, cs.x, rho); env != nil {
		if d, st := env.prove(fp.rho, cs.w); d != nil {
			present("own-prover-honest-configuration", cs.x, d, "accept")
			// each of the two per-repetition checks is necessary on its own
			for _, i := range []int{0, 1 + r.IntN(fp.rho-1)} {
				if d2 := env.skipWork(d, st, i, cs.w); d2 != nil {
					present("repetition-misses-target", cs.x, d2, "reject")
				}
				if d2 := env.wrongResponse(d, st, i, cs.w); d2 != nil {
					present("repetition-response-for-other-challenge", cs.x, d2, "reject")
				}
			}
		} else {
			c.Violation(tag + " own prover: search failed in the honest configuration")
		}
	}
	if d := forge(cs.x, cs.w, flCfg{k: fp.rho + 1, rhoLabel: rho}); d != nil {
		present("one-more-repetition", cs.x, d, "reject")
		// right count, but hashed together with one more commitment
		short := &flDecoded[A, Z]{a: d.a[:fp.rho], e: d.e[:fp.rho], z: d.z[:fp.rho]}
		present("last-repetition-dropped", cs.x, short, "reject")
	}
	if !c.Thorough() {
		return
	}
	// every further prover run costs as much as an honest proof: the cheap protocols get all of them
	if cs.advFull {
		if d := forge(cs.x, cs.w, flCfg{k: fp.rho - 1, rhoLabel: rho - 1}); d != nil {
			present("prover-configured-with-rho-minus-1", cs.x, d, "reject")
		}
		if d := forge(cs.x, cs.w, flCfg{k: fp.rho - 1, rhoLabel: rho}); d != nil {
			present("one-repetition-fewer", cs.x, d, "reject")
		}
		if d := forge(cs.x, cs.w, flCfg{k: 2, rhoLabel: rho}); d != nil {
			present("two-repetitions", cs.x, d, "reject")
		}
	}
	// the right number of simulated repetitions, each meeting the target on its own
	// (rho * 2^b simulator runs: protocols with special soundness 2, i.e. b = 128/rho)
	if cs.advFull || (!cs.heavy && p.SpecialSoundness() == 2) {
		if d := forge(cs.x2, zeroW, flCfg{k: fp.rho, rhoLabel: rho, sim: true}); d != nil {
			present("all-repetitions-simulated", cs.x2, d, "reject")
		}
	}
	// component-count attack on the sigma protocol underneath (one more honest prover run)
	if len(cs.resized) > 0 {
		rz := cs.resized[r.IntN(len(cs.resized))]
		if d := flForge(r, spec.build(), rz.proto, fischlinParamsOf(rz.proto.Name(), rz.proto.SpecialSoundness()), randomised, rz.x, rz.w, flCfg{k: fp.rho, rhoLabel: rho}); d != nil {
			present("count-"+rz.kind, rz.x, d, "reject")
		}
	}
}

// ---------------------------------------------------------------------------------- ZK compiler

func advZK[X sigma.Statement, W sigma.Witness, A sigma.Statement, S sigma.State, Z sigma.Response](c *Ctx, r *Rng, cs *sigCase[X, W, A, S, Z]) {
	tag := cs.tag + ".adv.zk"
	p := cs.proto
	n := p.GetChallengeBytesLength()
	spec := ctxSpec{seed: randBytes(r, 64), proverID: 1}
	// the commitment key both sides derive, recomputed independently through the transcript
	ckOf := func(x X) *hashcom.CommitmentKey {
		ctx := spec.build()
		sid := ctx.SessionID()
		t := ctx.Transcript()
		t.AppendDomainSeparator(fmt.Sprintf("%s-%s-%s", "zkCompiler", p.Name(), hex.EncodeToString(sid[:])))
		t.AppendBytes("zkCompilerStatement", x.Bytes())
		ck, err := hashcom.ExtractCommitmentKey(t, "zkCompilerCommitmentKey")
		if err != nil {
			return nil
		}
		return ck
	}
	// 1. a verifier that opens its challenge commitment to something else: the prover must refuse
	for _, kind := range []string{"honest-opening", "other-challenge", "other-opening-witness"} {
		out := safely(func() string {
			prover, err := zk.NewProver(spec.build(), p, cs.x, cs.w)
			if err != nil {
				return "err:newprover"
			}
			verifier, err := zk.NewVerifier(spec.build(), p, cs.x, r)
			if err != nil {
				return "err:newverifier"
			}
			cc, err := verifier.Round1()
			if err != nil {
				return "err:round1"
			}
			a, err := prover.Round2(cc)
			if err != nil {
				return "err:round2"
			}
			e, wit, err := verifier.Round3(a)
			if err != nil {
				return "err:round3"
			}
			e = append([]byte{}, e...)
			switch kind {
			case "other-challenge":
				e = c08FlipBit(r, e)
			case "other-opening-witness":
				wit[r.IntN(len(wit))] ^= 1 << r.IntN(8)
			}
			opens := "0"
			if ck := ckOf(cs.x); ck != nil {
				if com, err := ck.CommitWithWitness(e, wit); err == nil && com.Equal(cc) {
					opens = "1"
				}
			}
			_, err = prover.Round4(e, wit)
			ans := "answered"
			if err != nil {
				ans = "refused"
			}
			c.Emit(fmt.Sprintf("zkopen %s %s %s", tag, kind, opens), ans)
			return ans
		})
		want := "refused"
		if kind == "honest-opening" {
			want = "answered"
		}
		if out != want {
			c.Violation(fmt.Sprintf("%s %s: prover %s (expected %s)", tag, kind, out, want))
		}
		c.Count(tag + "." + kind)
	}
	// 2. a prover without witness: simulated for a guessed challenge, the verifier's challenge differs
	{
		out := safely(func() string {
			verifier, err := zk.NewVerifier(spec.build(), p, cs.x2, r)
			if err != nil {
				return "err:newverifier"
			}
			if _, err := verifier.Round1(); err != nil {
				return "err:round1"
			}
			aS, zS, err := p.RunSimulator(cs.x2, randBytes(r, n))
			if err != nil {
				return "err:simulator"
			}
			e, _, err := verifier.Round3(aS)
			if err != nil {
				return "err:round3"
			}
			v := res(verifier.Verify(zS))
			c.emitIf(cs.line("zk", cs.x2, aS, e, zS, "1"), v)
			return v
		})
		if out != "reject" {
			c.Violation(fmt.Sprintf("%s simulated prover: %s (expected reject)", tag, out))
		}
		c.Count(tag + ".simulated-prover")
	}
	// 3. the prover runs the protocol configured for another number of components
	for _, rz := range cs.resized {
		out := safely(func() string {
			prover, err := zk.NewProver(spec.build(), rz.proto, rz.x, rz.w)
			if err != nil {
				return "err:newprover"
			}
			verifier, err := zk.NewVerifier(spec.build(), p, rz.x, r)
			if err != nil {
				return "err:newverifier"
			}
			cc, err := verifier.Round1()
			if err != nil {
				return "err:round1"
			}
			a, err := prover.Round2(cc)
			if err != nil {
				return "err:round2"
			}
			e, wit, err := verifier.Round3(a)
			if err != nil {
				return "err:round3"
			}
			z, err := prover.Round4(e, wit)
			if err != nil {
				return "err:round4"
			}
			v := res(verifier.Verify(z))
			c.emitIf(cs.line("zk", rz.x, a, e, z, "1"), v)
			return v
		})
		if out != "reject" {
			c.Violation(fmt.Sprintf("%s count-%s: %s (expected reject)", tag, rz.kind, out))
		}
		c.Count(tag + ".count-" + rz.kind)
	}
}
