// c04_rel.go — C04: RELATIONAL mutation operators of the tamper matrix.
//
// The operators of c04_tree.go change ONE site. A verification that was weakened to an aggregate form
// (the sum of a sender's components against the sum of its keys, a product, a multiset) still rejects
// every one of them. The operators here change TWO sites of the same kind together so that such
// aggregates stay intact:
//
//   inside one message (path token `<pathA>~<pathB>`; pairs: two components of one vector — sites with
//   the same normalised path —, and two neighbouring fields of the same kind and length)
//     pshift   A := A + D, B := B − D      scalars: D a random non-zero scalar; points: D = d·G
//     pscale   A := k·A,   B := k⁻¹·B      k a random scalar ∉ {0, 1}
//     vswap    exchange A and B            any two leaves of the same CBOR shape and length
//     vcopy    B := A
//   between the unicasts of one sender to two recipients (rcpt token `<A>+<B>`, the same path in both)
//     ushift / uscale / uswap              as above, A in the message to the first recipient, B in the
//                                          message to the second; both messages are replaced
//
// A leaf is a scalar when its path ends in `fieldBytes` (32 bytes) and a point when it ends in
// `compressedBytes` (33: secp256k1, 48: BLS12-381 G1, 96: G2) — the library's CBOR field names of
// scalars and points; the scenario says which scalar field its 32-byte scalars live in.

package main

import (
	"bytes"
	"math/big"
	"strings"
)

type c04Sc[S any] interface {
	Add(S) S
	Sub(S) S
	Mul(S) S
	TryInv() (S, error)
	Bytes() []byte
	IsZero() bool
}

type c04Fd[S any] interface {
	FromBytes([]byte) (S, error)
}

type c04Pt[P any, S any] interface {
	Add(P) P
	Sub(P) P
	ScalarMul(S) P
	ToCompressed() []byte
	IsOpIdentity() bool
}

type c04Cv[P any, S any] interface {
	FromCompressed([]byte) (P, error)
	ScalarBaseMul(S) P
}

func c04ScalarPair[S c04Sc[S]](f c04Fd[S], mk func(*big.Int) S, op string, a, b []byte, k *big.Int) (na, nb []byte, ok bool) {
	x, err := f.FromBytes(a)
	if err != nil {
		return nil, nil, false
	}
	y, err := f.FromBytes(b)
	if err != nil {
		return nil, nil, false
	}
	ks := mk(k)
	switch op {
	case "shift":
		return x.Add(ks).Bytes(), y.Sub(ks).Bytes(), true
	case "scale":
		ki, err := ks.TryInv()
		if err != nil {
			return nil, nil, false
		}
		return x.Mul(ks).Bytes(), y.Mul(ki).Bytes(), true
	}
	return nil, nil, false
}

func c04PointPair[P c04Pt[P, S], S c04Sc[S]](c c04Cv[P, S], mk func(*big.Int) S, op string, a, b []byte, k *big.Int) (na, nb []byte, ok bool) {
	x, err := c.FromCompressed(a)
	if err != nil {
		return nil, nil, false
	}
	y, err := c.FromCompressed(b)
	if err != nil {
		return nil, nil, false
	}
	ks := mk(k)
	var nx, ny P
	switch op {
	case "shift":
		d := c.ScalarBaseMul(ks)
		nx, ny = x.Add(d), y.Sub(d)
	case "scale":
		ki, err := ks.TryInv()
		if err != nil {
			return nil, nil, false
		}
		nx, ny = x.ScalarMul(ks), y.ScalarMul(ki)
	default:
		return nil, nil, false
	}
	if nx.IsOpIdentity() || ny.IsOpIdentity() {
		return nil, nil, false
	}
	return nx.ToCompressed(), ny.ToCompressed(), true
}

// c04LeafKind: "s" scalar, "p33" / "p48" / "p96" point, "" anything else.
func c04LeafKind(s c04Site) string {
	n := s.node
	if n.major != 2 {
		return ""
	}
	switch {
	case strings.HasSuffix(s.path, "fieldBytes") && len(n.data) == 32:
		return "s"
	case strings.HasSuffix(s.path, "compressedBytes") && (len(n.data) == 33 || len(n.data) == 48 || len(n.data) == 96):
		return "p" + itoa(len(n.data))
	}
	return ""
}

func itoa(v int) string { return big.NewInt(int64(v)).String() }

// c04AlgPair applies `shift` / `scale` to two encodings of the same kind. curve: "k256" | "bls".
func c04AlgPair(curve, kind, op string, a, b []byte, k *big.Int) (na, nb []byte, ok bool) {
	defer func() {
		if e := recover(); e != nil {
			na, nb, ok = nil, nil, false
		}
	}()
	mkK := func(v *big.Int) *k256Scalar { return scalarFromBig(fK256, v) }
	mkB := func(v *big.Int) bsc { return scalarFromBig(fBLS, v) }
	switch kind {
	case "s":
		if curve == "bls" {
			return c04ScalarPair[bsc](fBLS, mkB, op, a, b, k)
		}
		return c04ScalarPair[*k256Scalar](fK256, mkK, op, a, b, k)
	case "p33":
		return c04PointPair[*k256Point, *k256Scalar](cK256, mkK, op, a, b, k)
	case "p48":
		return c04PointPair[g1, bsc](cBLSG1, mkB, op, a, b, k)
	case "p96":
		return c04PointPair[g2, bsc](cBLSG2, mkB, op, a, b, k)
	}
	return nil, nil, false
}

// c04RelK draws the shift / scale constant: 2 ≤ k < 2^120 (never 0, 1; far below every group order).
func c04RelK(r *Rng) *big.Int {
	k := r.BigBelow(new(big.Int).Lsh(big.NewInt(1), 120))
	return k.Add(k, big.NewInt(2))
}

type c04RelCase struct {
	path, op string // path = pathA~pathB
	mut      []byte
}

// c04SameShape: leaves of the same CBOR major type and payload length (ints: any two ints).
func c04SameShape(a, b *c12Node) bool {
	if !c04IsLeaf(a) || !c04IsLeaf(b) || a.major != b.major {
		return false
	}
	if a.major == 2 || a.major == 3 {
		return len(a.data) == len(b.data) && len(a.data) > 0
	}
	return a.major == 0 || a.major == 1
}

// c04RelPairsOf lists the pairs (indices into sites) the relational operators act on:
//   * components of one vector: sites with the same normalised path — (i, i+1) for neighbours and (first, last);
//   * neighbouring fields: the first site of each normalised path, paired with the first site of the next
//     normalised path of the same shape (document order).
func c04RelPairsOf(sites []c04Site) [][2]int {
	var out [][2]int
	seen := map[[2]int]bool{}
	add := func(i, j int) {
		if i == j || seen[[2]int{i, j}] || !c04SameShape(sites[i].node, sites[j].node) {
			return
		}
		seen[[2]int{i, j}] = true
		out = append(out, [2]int{i, j})
	}
	groups := map[string][]int{}
	var order []string
	for i, s := range sites {
		if !c04IsLeaf(s.node) {
			continue
		}
		np := c04NormPath(s.path)
		if _, ok := groups[np]; !ok {
			order = append(order, np)
		}
		groups[np] = append(groups[np], i)
	}
	for _, np := range order {
		g := groups[np]
		for k := 0; k+1 < len(g); k++ {
			add(g[k], g[k+1])
		}
		if len(g) > 2 {
			add(g[0], g[len(g)-1])
		}
	}
	for a := 0; a < len(order); a++ {
		i := groups[order[a]][0]
		for b := a + 1; b < len(order); b++ {
			j := groups[order[b]][0]
			if c04SameShape(sites[i].node, sites[j].node) {
				add(i, j)
				break
			}
		}
	}
	return out
}

// c04RelCases lists the relational tamperings inside one message.
func c04RelCases(orig []byte, curve string, r *Rng) []c04RelCase {
	root := c04Tree(orig)
	if root == nil {
		return nil
	}
	sites := c04Sites(root)
	var out []c04RelCase
	emit := func(path, op string) {
		mut := root.enc()
		if !bytes.Equal(mut, orig) {
			out = append(out, c04RelCase{path, op, mut})
		}
	}
	for _, pr := range c04RelPairsOf(sites) {
		a, b := sites[pr[0]], sites[pr[1]]
		path := a.path + "~" + b.path
		da, db := append([]byte{}, a.node.data...), append([]byte{}, b.node.data...)
		aa, ab := a.node.arg, b.node.arg
		restore := func() {
			a.node.data, b.node.data = da, db
			a.node.arg, b.node.arg = aa, ab
		}
		if kind := c04LeafKind(a); kind != "" && kind == c04LeafKind(b) {
			for _, op := range []string{"shift", "scale"} {
				if na, nb, ok := c04AlgPair(curve, kind, op, da, db, c04RelK(r)); ok {
					a.node.data, b.node.data = na, nb
					emit(path, "p"+op)
					restore()
				}
			}
		}
		a.node.data, b.node.data = db, da
		a.node.arg, b.node.arg = ab, aa
		emit(path, "vswap")
		restore()
		b.node.data = da
		b.node.arg = aa
		emit(path, "vcopy")
		restore()
	}
	return out
}

type c04RelPair struct {
	path, op   string
	mutA, mutB []byte
}

// c04RelPairCases lists the relational tamperings between the unicasts of one sender to two recipients.
func c04RelPairCases(origA, origB []byte, curve string, r *Rng) []c04RelPair {
	ra, rb := c04Tree(origA), c04Tree(origB)
	if ra == nil || rb == nil {
		return nil
	}
	var out []c04RelPair
	for _, a := range c04Sites(ra) {
		if !c04IsLeaf(a.node) {
			continue
		}
		b, ok := c04FindSite(rb, a.path)
		if !ok || !c04SameShape(a.node, b.node) {
			continue
		}
		da, db := append([]byte{}, a.node.data...), append([]byte{}, b.node.data...)
		aa, ab := a.node.arg, b.node.arg
		emit := func(op string) {
			ma, mb := ra.enc(), rb.enc()
			if !bytes.Equal(ma, origA) && !bytes.Equal(mb, origB) {
				out = append(out, c04RelPair{a.path, op, ma, mb})
			}
			a.node.data, b.node.data = da, db
			a.node.arg, b.node.arg = aa, ab
		}
		if kind := c04LeafKind(a); kind != "" && kind == c04LeafKind(b) {
			for _, op := range []string{"shift", "scale"} {
				if na, nb, ok := c04AlgPair(curve, kind, op, da, db, c04RelK(r)); ok {
					a.node.data, b.node.data = na, nb
					emit("u" + op)
				}
			}
		}
		a.node.data, b.node.data = db, da
		a.node.arg, b.node.arg = ab, aa
		emit("uswap")
	}
	return out
}

// c04IsRelOp: the operator changes two sites together.
func c04IsRelOp(op string) bool {
	switch op {
	case "pshift", "pscale", "vswap", "vcopy", "ushift", "uscale", "uswap":
		return true
	}
	return false
}
