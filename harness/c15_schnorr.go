package main

// C15 — Schnorr family: BIP-340, configurable ("vanilla") Schnorr on several curves, Mina.

import (
	"crypto/sha256"
	"crypto/sha3"
	"crypto/sha512"
	"fmt"
	"hash"
	"math/big"
	"slices"

	"github.com/bronlabs/bron-crypto/pkg/base/algebra"
	"github.com/bronlabs/bron-crypto/pkg/base/curves"
	"github.com/bronlabs/bron-crypto/pkg/base/curves/k256"
	"github.com/bronlabs/bron-crypto/pkg/base/curves/pasta"
	"github.com/bronlabs/bron-crypto/pkg/signatures"
	"github.com/bronlabs/bron-crypto/pkg/signatures/schnorrlike"
	"github.com/bronlabs/bron-crypto/pkg/signatures/schnorrlike/bip340"
	"github.com/bronlabs/bron-crypto/pkg/signatures/schnorrlike/mina"
	vanilla "github.com/bronlabs/bron-crypto/pkg/signatures/schnorrlike/schnorr"
)

func c15SchnorrAll(c *Ctx) {
	r := NewRng(c.Seed, 1501)
	c15Bip340(c, r)
	type hf struct {
		name string
		fn   func() hash.Hash
	}
	hs := []hf{{"sha256", sha256.New}, {"sha512", sha512.New}, {"sha3-256", func() hash.Hash { return sha3.New256() }}}
	rot := 0
	for _, neg := range []bool{false, true} {
		for _, le := range []bool{false, true} {
			for _, par := range []bool{false, true} {
				h := hs[rot%len(hs)]
				// quick: each (sign, endianness, parity) variant on one curve, rotating with the seed
				sel := (rot + int(c.Seed)) % 3
				if c.Thorough() || sel == 0 {
					c15Vanilla(c, r, "k256", cK256, fK256, h.name, h.fn, neg, le, par, rot)
				}
				if c.Thorough() || sel == 1 {
					c15Vanilla(c, r, "p256", cP256, fP256, h.name, h.fn, neg, le, par, rot+1)
				}
				if c.Thorough() || sel == 2 {
					c15Vanilla(c, r, "ed25519", cEd25519, fEd25519, h.name, h.fn, neg, le, par, rot+2)
				}
				if c.Thorough() {
					c15Vanilla(c, r, "pallas", cPallas, fPallas, h.name, h.fn, neg, le, par, rot+3)
					for _, h2 := range hs {
						if h2.name != h.name {
							c15Vanilla(c, r, "k256", cK256, fK256, h2.name, h2.fn, neg, le, par, rot+4)
						}
					}
				}
				rot++
			}
		}
	}
	c15Mina(c, r)
}

func c15SchnorrKeys[S algebra.PrimeFieldElement[S]](r *Rng, f algebra.PrimeField[S]) []S {
	n := fieldOrder(f)
	return []S{f.One(), f.One().Neg(), scalarFromBig(f, r.BigBelow(n)), scalarFromBig(f, r.BigBelow(n)), f.FromUint64(2)}
}

// ---------------------------------------------------------------- configurable Schnorr

func c15Vanilla[P curves.Point[P, F, S], F algebra.FiniteFieldElement[F], S algebra.PrimeFieldElement[S]](
	c *Ctx, r *Rng, cname string, group algebra.PrimeGroup[P, S], sf algebra.PrimeField[S],
	hname string, hfn func() hash.Hash, neg, le, parity bool, rot int,
) {
	var negNonce func(P) bool
	if parity {
		negNonce = func(R P) bool {
			// the coordinate whose sign negation flips: y on Weierstrass curves, x on Edwards curves
			var v F
			var err error
			if cname == "ed25519" {
				v, err = R.AffineX()
			} else {
				v, err = R.AffineY()
			}
			if err != nil {
				return false
			}
			b, ok := new(big.Int).SetString(feHex(v), 16)
			return ok && b.Bit(0) == 1
		}
	}
	scheme, err := vanilla.NewScheme(group, hfn, neg, le, negNonce, r)
	if err != nil {
		c.Violation(fmt.Sprintf("schnorr NewScheme %s: %v", cname, err))
		return
	}
	verifier, err := scheme.Verifier()
	if err != nil {
		c.Violation(fmt.Sprintf("schnorr Verifier %s: %v", cname, err))
		return
	}
	negs := "0"
	if neg {
		negs = "1"
	}
	if le {
		negs += ".1." + hname
	} else {
		negs += ".0." + hname
	}
	cfg := fmt.Sprintf("%s.%s.neg%v.le%v.par%v", cname, hname, neg, le, parity)
	n := fieldOrder(sf)
	keys := c15SchnorrKeys(r, sf)
	msgs := c15Messages(r, c.Thorough())
	type km struct{ k, m int }
	var cases []km
	if c.Thorough() {
		for k := range keys {
			for m := range msgs {
				cases = append(cases, km{k, m})
			}
		}
	} else {
		cases = []km{{rot % len(keys), rot % len(msgs)}}
	}
	G := group.Generator()
	for _, cs := range cases {
		skv, msg := keys[cs.k], msgs[cs.m]
		pkv := G.ScalarOp(skv)
		pk, err := vanilla.NewPublicKey(pkv)
		if err != nil {
			c.Violation(fmt.Sprintf("schnorr NewPublicKey %s: %v", cname, err))
			continue
		}
		sk, err := vanilla.NewPrivateKey(skv, pk)
		if err != nil {
			c.Violation(fmt.Sprintf("schnorr NewPrivateKey %s: %v", cname, err))
			continue
		}
		c.Count("schnorr." + cfg)
		// challenge: library value, cross-checked against an independent recomputation
		chal := func(R, Pk P, m []byte) (string, bool) {
			var ok bool
			out := safely(func() string {
				e, err := scheme.Variant().ComputeChallenge(R, Pk, m)
				if err != nil {
					return "err"
				}
				ok = true
				return scalarHex(e)
			})
			if !ok {
				return out, false
			}
			hh := hfn()
			hh.Write(R.Bytes())
			hh.Write(Pk.Bytes())
			hh.Write(m)
			d := hh.Sum(nil)
			if le {
				slices.Reverse(d)
			}
			ind := hexNat(new(big.Int).Mod(new(big.Int).SetBytes(d), n))
			if cname != "ed25519" && ind != out {
				c.Violation(fmt.Sprintf("schnorr %s: ComputeChallenge=%s, H(R||P||m) mod n=%s (R=%s P=%s m=%s)", cfg, out, ind, pointStr(R), pointStr(Pk), hexBytes(m)))
			}
			return out, true
		}
		var sig *vanilla.Signature[P, S]
		res := safely(func() string {
			signer, err := scheme.Signer(sk)
			if err != nil {
				return "err:signer"
			}
			sg, err := signer.Sign(msg)
			if err != nil {
				return "err:sign"
			}
			sig = sg
			return pointStr(sg.R) + "," + scalarHex(sg.S)
		})
		if sig == nil {
			c.Violation(fmt.Sprintf("schnorr Sign failed %s sk=%s: %s", cfg, scalarHex(skv), res))
			continue
		}
		e0, ok := chal(sig.R, pkv, msg)
		if !ok {
			c.Violation(fmt.Sprintf("schnorr ComputeChallenge failed %s", cfg))
			continue
		}
		c.Emit(fmt.Sprintf("schnorr.sign %s %s %s %s %s", cname, negs, scalarHex(skv), e0, hexBytes(msg)), res)
		if parity && negNonce(sig.R) {
			c.Violation(fmt.Sprintf("schnorr %s: nonce parity rule not honoured, R=%s", cfg, pointStr(sig.R)))
		}
		var sigE S // the challenge carried inside the signature structure (must not be trusted by Verify)
		sigE = sig.E
		try := func(tag string, Pk, R P, s S, m []byte, expect string) {
			e, ok := chal(R, Pk, m)
			if !ok {
				return
			}
			E := sigE
			out := safely(func() string {
				p := &schnorrlike.PublicKey[P, S]{PublicKeyTrait: signatures.PublicKeyTrait[P, S]{V: Pk}}
				return c15Verdict(verifier.Verify(&schnorrlike.Signature[P, S]{E: E, R: R, S: s}, p, m))
			})
			lhs := fmt.Sprintf("schnorr.verify %s %s %s %s %s %s %s %s", cname, negs, pointStr(Pk), pointStr(R), scalarHex(s), e, hexBytes(m), tag)
			c.Emit(lhs, out)
			c.Count("schnorr.verify." + tag + "." + out)
			if out != expect {
				c.Violation(fmt.Sprintf("schnorr %s %s: expected %s, library says %s: %s", cfg, tag, expect, out, lhs))
			}
		}
		one := sf.One()
		rnd := scalarFromBig(sf, r.BigBelow(n))
		try("honest", pkv, sig.R, sig.S, msg, "accept")
		for i, s2 := range []S{sig.S.Add(one), sig.S.Neg(), rnd, sf.Zero()} {
			if !s2.Equal(sig.S) {
				try(fmt.Sprintf("alt-s%d", i), pkv, sig.R, s2, msg, "reject")
			}
		}
		for i, R2 := range []P{sig.R.Op(G), sig.R.OpInv(), sig.R.Op(sig.R), G.ScalarOp(rnd), group.OpIdentity()} {
			if !R2.Equal(sig.R) {
				try(fmt.Sprintf("alt-R%d", i), pkv, R2, sig.S, msg, "reject")
			}
		}
		for i, m2 := range c15AlterMsg(r, msg) {
			try(fmt.Sprintf("alt-m%d", i), pkv, sig.R, sig.S, m2, "reject")
		}
		for i, p2 := range []P{pkv.Op(G), pkv.OpInv(), pkv.Op(pkv), G.ScalarOp(rnd), group.OpIdentity()} {
			if !p2.Equal(pkv) {
				try(fmt.Sprintf("alt-pk%d", i), p2, sig.R, sig.S, msg, "reject")
			}
		}

		// ---- adversarially constructed signatures (no call to Signer.Sign)
		toScalar := func(hexS string) (S, bool) {
			b, ok := new(big.Int).SetString(hexS, 16)
			if !ok {
				var z S
				return z, false
			}
			return scalarFromBig(sf, b), true
		}
		nonZero := func() S {
			return scalarFromBig(sf, new(big.Int).Add(r.BigBelow(new(big.Int).Sub(n, big.NewInt(1))), big.NewInt(1)))
		}
		// (a) the harness signs itself: R = k•G, e = H(R‖P‖m), s = k ± e·x; the other sign must be rejected
		k := nonZero()
		Rk := G.ScalarOp(k)
		if eS, ok := chal(Rk, pkv, msg); ok {
			if e, ok := toScalar(eS); ok {
				ex := e.Mul(skv)
				sPlus, sMinus := k.Add(ex), k.Sub(ex)
				good, bad := sPlus, sMinus
				if neg {
					good, bad = sMinus, sPlus
				}
				sigE = e
				if !good.IsZero() {
					try("own-sign", pkv, Rk, good, msg, "accept")
				}
				if !bad.Equal(good) && !bad.IsZero() {
					try("own-wrong-sign", pkv, Rk, bad, msg, "reject")
				}
				// the same signature under the negated key (= the other response sign for the key -P)
				if !bad.Equal(good) && !good.IsZero() {
					try("own-sign-negpk", pkv.OpInv(), Rk, good, msg, "reject")
				}
			}
		}
		// (b) forgery without the secret key: free s', e'; R = s'•G ∓ e'•P satisfies the equation for e',
		// and the signature structure carries E = e'.  The verifier must recompute e from (R, P, m).
		sF, eF := nonZero(), nonZero()
		eP := pkv.ScalarOp(eF)
		var Rf P
		if neg {
			Rf = G.ScalarOp(sF).Op(eP)
		} else {
			Rf = G.ScalarOp(sF).Op(eP.OpInv())
		}
		if !Rf.IsOpIdentity() {
			sigE = eF
			try("forged-E", pkv, Rf, sF, msg, "reject")
			sigE = sig.E
			try("forged-honestE", pkv, Rf, sF, msg, "reject")
		}
		sigE = sig.E
	}
}

// ---------------------------------------------------------------- BIP-340

func c15Bip340Challenge(R, P *k256.Point, m []byte) string {
	tag := sha256.Sum256([]byte("BIP0340/challenge"))
	h := sha256.New()
	h.Write(tag[:])
	h.Write(tag[:])
	rx, err1 := R.AffineX()
	px, err2 := P.AffineX()
	if err1 != nil || err2 != nil {
		return "0" // identity: no challenge exists; every verifier rejects before using it
	}
	h.Write(rx.Bytes())
	h.Write(px.Bytes())
	h.Write(m)
	return hexNat(new(big.Int).Mod(new(big.Int).SetBytes(h.Sum(nil)), fieldOrder(fK256)))
}

func bytes32(b byte) []byte {
	out := make([]byte, 32)
	for i := range out {
		out[i] = b
	}
	return out
}

func c15IsOddY(p *k256.Point) bool {
	y, err := p.AffineY()
	return err == nil && y.IsOdd()
}

func c15Bip340(c *Ctx, r *Rng) {
	sf := fK256
	n := fieldOrder(sf)
	G := cK256.Generator()
	nKeys := 4
	if c.Thorough() {
		nKeys = 40
	}
	type item struct {
		sig *bip340.Signature
		pk  *bip340.PublicKey
		msg []byte
	}
	var honest []item
	msgs := c15Messages(r, c.Thorough())
	for it := 0; it < nKeys; it++ {
		var skv *k256.Scalar
		switch it {
		case 0:
			skv = sf.One()
		case 1:
			skv = sf.One().Neg()
		default:
			skv = scalarFromBig(sf, r.BigBelow(n))
		}
		if skv.IsZero() {
			continue
		}
		msg := msgs[it%len(msgs)]
		var aux [32]byte
		if it%3 != 0 {
			_, _ = r.Read(aux[:])
		}
		scheme := bip340.NewSchemeWithAux(aux)
		sk, err := bip340.NewPrivateKey(skv)
		if err != nil {
			c.Violation(fmt.Sprintf("bip340 NewPrivateKey: %v", err))
			continue
		}
		pkv := sk.PublicKey().Value()
		if c15IsOddY(pkv) {
			c.Count("bip340.key.oddY")
		} else {
			c.Count("bip340.key.evenY")
		}
		verifier, err := scheme.Verifier()
		if err != nil {
			c.Violation(fmt.Sprintf("bip340 Verifier: %v", err))
			continue
		}
		var sig *bip340.Signature
		res := safely(func() string {
			signer, err := scheme.Signer(sk)
			if err != nil {
				return "err:signer"
			}
			sg, err := signer.Sign(msg)
			if err != nil {
				return "err:sign"
			}
			sig = sg
			return pointStr(sg.R) + "," + scalarHex(sg.S)
		})
		if sig == nil {
			c.Violation(fmt.Sprintf("bip340 Sign failed sk=%s msg=%s: %s", scalarHex(skv), hexBytes(msg), res))
			continue
		}
		c.Emit(fmt.Sprintf("bip340.sign %s %s %s", scalarHex(skv), c15Bip340Challenge(sig.R, pkv, msg), hexBytes(msg)), res)
		honest = append(honest, item{sig, sk.PublicKey(), msg})

		sigE := sig.E // the challenge carried inside the signature structure (must not be trusted)
		try := func(tag string, Pk, R *k256.Point, s *k256.Scalar, m []byte, expect string) {
			e := "0"
			if !R.IsZero() && !Pk.IsZero() {
				e = c15Bip340Challenge(R, Pk, m)
				lib := safely(func() string {
					x, err := scheme.Variant().ComputeChallenge(R, Pk, m)
					if err != nil {
						return "err"
					}
					return scalarHex(x)
				})
				if lib != e {
					c.Violation(fmt.Sprintf("bip340 ComputeChallenge=%s, tagged SHA-256 of (x(R)||x(P)||m) mod n=%s", lib, e))
				}
			}
			E := sigE
			out := safely(func() string {
				p := &bip340.PublicKey{PublicKeyTrait: signatures.PublicKeyTrait[*k256.Point, *k256.Scalar]{V: Pk}}
				return c15Verdict(verifier.Verify(&bip340.Signature{E: E, R: R, S: s}, p, m))
			})
			lhs := fmt.Sprintf("bip340.verify %s %s %s %s %s %s", pointStr(Pk), pointStr(R), scalarHex(s), e, hexBytes(m), tag)
			c.Emit(lhs, out)
			c.Count("bip340.verify." + tag + "." + out)
			if out != expect {
				c.Violation(fmt.Sprintf("bip340 %s: expected %s, library says %s: %s", tag, expect, out, lhs))
			}
		}
		one := sf.One()
		rnd := scalarFromBig(sf, r.BigBelow(n))
		try("honest", pkv, sig.R, sig.S, msg, "accept")
		// x-only semantics: -R and -P are the same 32-byte encodings
		try("same-negR", pkv, sig.R.Neg(), sig.S, msg, "accept")
		try("same-negpk", pkv.Neg(), sig.R, sig.S, msg, "accept")
		for i, s2 := range []*k256.Scalar{sig.S.Add(one), sig.S.Neg(), rnd, sf.Zero()} {
			if !s2.Equal(sig.S) {
				try(fmt.Sprintf("alt-s%d", i), pkv, sig.R, s2, msg, "reject")
			}
		}
		for i, R2 := range []*k256.Point{sig.R.Add(G), sig.R.Double(), G.ScalarMul(rnd), cK256.OpIdentity()} {
			try(fmt.Sprintf("alt-R%d", i), pkv, R2, sig.S, msg, "reject")
		}
		for i, m2 := range c15AlterMsg(r, msg) {
			try(fmt.Sprintf("alt-m%d", i), pkv, sig.R, sig.S, m2, "reject")
		}
		for i, p2 := range []*k256.Point{pkv.Add(G), pkv.Double(), G.ScalarMul(rnd), cK256.OpIdentity()} {
			try(fmt.Sprintf("alt-pk%d", i), p2, sig.R, sig.S, msg, "reject")
		}

		// ---- adversarially constructed signatures (no call to Signer.Sign); byte-level verification
		wire := func(tag string, pkB, sigB, m []byte, expect string) {
			out := safely(func() string {
				pk2, err := bip340.NewPublicKeyFromBytes(pkB)
				if err != nil {
					return "undecodable"
				}
				sg2, err := bip340.NewSignatureFromBytes(sigB)
				if err != nil {
					return "undecodable"
				}
				return c15Verdict(verifier.Verify(sg2, pk2, m))
			})
			lhs := fmt.Sprintf("bip340.wire %s %s %s %s", hexBytes(pkB), hexBytes(sigB), hexBytes(m), tag)
			c.Emit(lhs, out)
			c.Count("bip340.wire." + tag + "." + out)
			if (out == "accept") != (expect == "accept") {
				c.Violation(fmt.Sprintf("bip340 wire %s: expected %s, library says %s: %s", tag, expect, out, lhs))
			}
		}
		xOnly := func(p *k256.Point) []byte { return p.ToCompressed()[1:] }
		sigBytes := func(R *k256.Point, s *k256.Scalar) []byte { return slices.Concat(xOnly(R), s.Bytes()) }
		bigToScalar := func(hexS string) *k256.Scalar {
			b, _ := new(big.Int).SetString(hexS, 16)
			return scalarFromBig(sf, b)
		}
		nonZero := func() *k256.Scalar {
			return scalarFromBig(sf, new(big.Int).Add(r.BigBelow(new(big.Int).Sub(n, big.NewInt(1))), big.NewInt(1)))
		}
		pkB := xOnly(pkv)
		wire("honest", pkB, sigBytes(sig.R, sig.S), msg, "accept")
		// (a) the harness signs itself following BIP-340 "Default Signing" with its own nonce
		d := skv
		if c15IsOddY(pkv) {
			d = skv.Neg()
		}
		var kEven, kOdd *k256.Scalar // nonces whose points have even / odd y
		for kEven == nil || kOdd == nil {
			k := nonZero()
			if c15IsOddY(G.ScalarMul(k)) {
				kOdd = k
				if kEven == nil {
					kEven = k.Neg()
				}
			} else {
				kEven = k
				if kOdd == nil {
					kOdd = k.Neg()
				}
			}
		}
		Re, Ro := G.ScalarMul(kEven), G.ScalarMul(kOdd)
		eE := bigToScalar(c15Bip340Challenge(Re, pkv, msg))
		sOwn := kEven.Add(eE.Mul(d))
		if !sOwn.IsZero() {
			sigE = eE
			try("own-sign", pkv, Re, sOwn, msg, "accept")
			wire("own-sign", pkB, sigBytes(Re, sOwn), msg, "accept")
		}
		// (b) nonce parity rule not applied: s = k + e·d with k•G of odd y, so s•G − e•P = R has odd y.
		// Presented with the odd-y R, with −R (same x) and on the wire: all must be rejected.
		eO := bigToScalar(c15Bip340Challenge(Ro, pkv, msg))
		sOdd := kOdd.Add(eO.Mul(d))
		if !sOdd.IsZero() && !sOdd.Equal(kOdd.Neg().Add(eO.Mul(d))) {
			sigE = eO
			try("own-odd-R", pkv, Ro, sOdd, msg, "reject")
			try("own-odd-R-neg", pkv, Ro.Neg(), sOdd, msg, "reject")
			wire("own-odd-R", pkB, sigBytes(Ro, sOdd), msg, "reject")
		}
		// (c) key parity rule not applied: the secret of an odd-y key used un-negated
		if c15IsOddY(pkv) {
			sBadKey := kEven.Add(eE.Mul(skv))
			if !sBadKey.Equal(sOwn) && !sBadKey.IsZero() {
				sigE = eE
				try("own-odd-P", pkv, Re, sBadKey, msg, "reject")
			}
		}
		// (d) forgery without the secret key: free s', e'; R = s'•G − e'•lift_x(P); E = e' in the structure
		sF, eF := nonZero(), nonZero()
		Rf := G.ScalarMul(sF).Sub(bip340.LiftX(pkv).ScalarMul(eF))
		if !Rf.IsZero() {
			sigE = eF
			try("forged-E", pkv, Rf, sF, msg, "reject")
			try("forged-E-lifted", pkv, bip340.LiftX(Rf), sF, msg, "reject")
		}
		sigE = sig.E
		// (e) non-canonical / out-of-range encodings of an otherwise valid signature
		{
			nB := n.FillBytes(make([]byte, 32))
			pB := c15BigCurves["k256"].p.FillBytes(make([]byte, 32))
			ff := bytes32(0xff)
			wire("s-eq-n", pkB, slices.Concat(xOnly(sig.R), nB), msg, "reject")
			wire("s-max", pkB, slices.Concat(xOnly(sig.R), ff), msg, "reject")
			wire("r-eq-p", pkB, slices.Concat(pB, sig.S.Bytes()), msg, "reject")
			wire("r-max", pkB, slices.Concat(ff, sig.S.Bytes()), msg, "reject")
			wire("pk-eq-p", pB, sigBytes(sig.R, sig.S), msg, "reject")
			wire("r-zero", pkB, slices.Concat(make([]byte, 32), sig.S.Bytes()), msg, "reject")
			wire("short", pkB, sigBytes(sig.R, sig.S)[:63], msg, "reject")
			// s + n when it still fits 32 bytes (only for tiny s: practically never for honest signatures)
			if sn := new(big.Int).Add(new(big.Int).SetBytes(sig.S.Bytes()), n); sn.BitLen() <= 256 {
				wire("s-plus-n", pkB, slices.Concat(xOnly(sig.R), sn.FillBytes(make([]byte, 32))), msg, "reject")
			}
		}
		// serialisation round trip keeps validity (x-only R, even-y lift)
		rt := safely(func() string {
			b, err := bip340.SerializeSignature(sig)
			if err != nil {
				return "err:ser"
			}
			sg2, err := bip340.NewSignatureFromBytes(b)
			if err != nil {
				return "err:de"
			}
			pb, err := bip340.SerializePublicKey(sk.PublicKey())
			if err != nil {
				return "err:pkser"
			}
			pk2, err := bip340.NewPublicKeyFromBytes(pb)
			if err != nil {
				return "err:pkde"
			}
			return c15Verdict(verifier.Verify(sg2, pk2, msg))
		})
		if rt != "accept" {
			c.Violation(fmt.Sprintf("bip340 serialise/deserialise round trip: %s (sk=%s)", rt, scalarHex(skv)))
		}
	}
	// batch verification: accepts honest batches, rejects a batch with one altered member
	if len(honest) >= 2 {
		bv, err := bip340.NewSchemeWithAux([32]byte{}).Verifier(bip340.VerifyWithPRNG(r))
		if err != nil {
			c.Violation(fmt.Sprintf("bip340 batch verifier: %v", err))
			return
		}
		for size := 1; size <= len(honest) && size <= 5; size++ {
			var sigs []*bip340.Signature
			var pks []*bip340.PublicKey
			var ms [][]byte
			for _, h := range honest[:size] {
				sigs, pks, ms = append(sigs, h.sig), append(pks, h.pk), append(ms, h.msg)
			}
			out := safely(func() string { return c15Verdict(bv.BatchVerify(sigs, pks, ms)) })
			c.Count("bip340.batch.honest." + out)
			if out != "accept" {
				c.Violation(fmt.Sprintf("bip340 BatchVerify rejects an honest batch of %d", size))
			}
			j := r.IntN(size)
			bad := slices.Clone(sigs)
			bad[j] = &bip340.Signature{E: sigs[j].E, R: sigs[j].R, S: sigs[j].S.Add(sf.One())}
			out = safely(func() string { return c15Verdict(bv.BatchVerify(bad, pks, ms)) })
			c.Count("bip340.batch.alt-s." + out)
			if out != "reject" {
				c.Violation(fmt.Sprintf("bip340 BatchVerify accepts a batch of %d with s altered at %d", size, j))
			}
			badm := slices.Clone(ms)
			badm[j] = append(slices.Clone(ms[j]), 1)
			out = safely(func() string { return c15Verdict(bv.BatchVerify(sigs, pks, badm)) })
			c.Count("bip340.batch.alt-m." + out)
			if out != "reject" {
				c.Violation(fmt.Sprintf("bip340 BatchVerify accepts a batch of %d with message altered at %d", size, j))
			}
			if size >= 2 {
				swp := slices.Clone(pks)
				swp[0], swp[1] = swp[1], swp[0]
				out = safely(func() string { return c15Verdict(bv.BatchVerify(sigs, swp, ms)) })
				c.Count("bip340.batch.swap-pk." + out)
				x0, _ := pks[0].Value().AffineX()
				x1, _ := pks[1].Value().AffineX()
				if out != "reject" && !x0.Equal(x1) { // equal x = the same x-only key
					c.Violation(fmt.Sprintf("bip340 BatchVerify accepts a batch of %d with two keys swapped", size))
				}
			}
		}
	}
}

// ---------------------------------------------------------------- Mina

func c15Mina(c *Ctx, r *Rng) {
	sf := fPallas
	n := fieldOrder(sf)
	G := cPallas.Generator()
	nKeys := 2
	if c.Thorough() {
		nKeys = 30
	}
	for it := 0; it < nKeys; it++ {
		var skv *pasta.PallasScalar
		switch (it + int(c.Seed)) % 4 {
		case 0:
			skv = sf.One()
		case 1:
			skv = sf.One().Neg()
		default:
			skv = scalarFromBig(sf, r.BigBelow(n))
		}
		nid := []mina.NetworkID{mina.TestNet, mina.MainNet}[it%2]
		sk, err := mina.NewPrivateKey(skv)
		if err != nil {
			c.Violation(fmt.Sprintf("mina NewPrivateKey: %v", err))
			continue
		}
		pkv := sk.PublicKey().Value()
		var scheme *mina.Scheme
		if it%3 == 2 {
			scheme, err = mina.NewRandomisedScheme(nid, r)
		} else {
			scheme, err = mina.NewScheme(nid, sk)
		}
		if err != nil {
			c.Violation(fmt.Sprintf("mina NewScheme: %v", err))
			continue
		}
		text := []string{"", "a", "mina message for C15", string(make([]byte, 200))}[it%4]
		mkMsg := func(s string, extra bool) *mina.ROInput {
			m := new(mina.ROInput).Init()
			m.AddString(s)
			if extra {
				m.AddFields(pasta.NewPallasBaseField().One())
			}
			return m
		}
		msg := mkMsg(text, false)
		verifier, err := scheme.Verifier()
		if err != nil {
			c.Violation(fmt.Sprintf("mina Verifier: %v", err))
			continue
		}
		var sig *mina.Signature
		res := safely(func() string {
			signer, err := scheme.Signer(sk)
			if err != nil {
				return "err:signer"
			}
			sg, err := signer.Sign(msg)
			if err != nil {
				return "err:sign"
			}
			sig = sg
			return pointStr(sg.R) + "," + scalarHex(sg.S)
		})
		if sig == nil {
			c.Violation(fmt.Sprintf("mina Sign failed sk=%s: %s", scalarHex(skv), res))
			continue
		}
		c.Count("mina." + string(nid))
		chal := func(R, Pk *pasta.PallasPoint, m *mina.ROInput) (string, bool) {
			ok := false
			out := safely(func() string {
				e, err := scheme.Variant().ComputeChallenge(R, Pk, m)
				if err != nil {
					return "err"
				}
				ok = true
				return scalarHex(e)
			})
			return out, ok
		}
		e0, ok := chal(sig.R, pkv, msg)
		if !ok {
			c.Violation("mina ComputeChallenge failed on honest inputs")
			continue
		}
		mhex := hexBytes([]byte(text))
		c.Emit(fmt.Sprintf("schnorr.sign pallas 0.0.poseidon %s %s %s", scalarHex(skv), e0, mhex), res)
		if y, err := sig.R.AffineY(); err != nil || y.IsOdd() {
			c.Violation(fmt.Sprintf("mina: signer returned R with odd y: %s", pointStr(sig.R)))
		}
		try := func(tag string, Pk, R *pasta.PallasPoint, s *pasta.PallasScalar, m *mina.ROInput, mh string, expect string) {
			e, ok := chal(R, Pk, m)
			if !ok {
				return
			}
			out := safely(func() string {
				p := &mina.PublicKey{PublicKeyTrait: signatures.PublicKeyTrait[*pasta.PallasPoint, *pasta.PallasScalar]{V: Pk}}
				return c15Verdict(verifier.Verify(&mina.Signature{E: nil, R: R, S: s}, p, m))
			})
			lhs := fmt.Sprintf("schnorr.verify pallas 0.0.poseidon %s %s %s %s %s mina-%s", pointStr(Pk), pointStr(R), scalarHex(s), e, mh, tag)
			c.Emit(lhs, out)
			c.Count("mina.verify." + tag + "." + out)
			if expect != "" && out != expect {
				c.Violation(fmt.Sprintf("mina %s: expected %s, library says %s: %s", tag, expect, out, lhs))
			}
		}
		one := sf.One()
		rnd := scalarFromBig(sf, r.BigBelow(n))
		try("honest", pkv, sig.R, sig.S, msg, mhex, "accept")
		for i, s2 := range []*pasta.PallasScalar{sig.S.Add(one), sig.S.Neg(), rnd, sf.Zero()} {
			if !s2.Equal(sig.S) {
				try(fmt.Sprintf("alt-s%d", i), pkv, sig.R, s2, msg, mhex, "reject")
			}
		}
		for i, R2 := range []*pasta.PallasPoint{sig.R.Add(G), sig.R.Neg(), sig.R.Double(), G.ScalarMul(rnd), cPallas.OpIdentity()} {
			try(fmt.Sprintf("alt-R%d", i), pkv, R2, sig.S, msg, mhex, "reject")
		}
		try("alt-m0", pkv, sig.R, sig.S, mkMsg(text+"x", false), hexBytes([]byte(text+"x")), "reject")
		try("alt-m1", pkv, sig.R, sig.S, mkMsg(text, true), hexBytes(append([]byte(text), 1)), "reject")
		for i, p2 := range []*pasta.PallasPoint{pkv.Add(G), pkv.Neg(), pkv.Double(), G.ScalarMul(rnd), cPallas.OpIdentity()} {
			try(fmt.Sprintf("alt-pk%d", i), p2, sig.R, sig.S, msg, mhex, "reject")
		}

		// ---- adversarially constructed signatures (no call to Signer.Sign); byte-level verification
		le32 := func(v *big.Int) []byte {
			b := v.FillBytes(make([]byte, 32))
			slices.Reverse(b)
			return b
		}
		xBig := func(p *pasta.PallasPoint) *big.Int {
			x, _ := p.AffineX()
			return new(big.Int).SetBytes(x.Bytes())
		}
		sBig := func(s *pasta.PallasScalar) *big.Int { return new(big.Int).SetBytes(s.Bytes()) }
		wire := func(tag string, rx, sv *big.Int, expect string) {
			b := slices.Concat(le32(rx), le32(sv))
			e := "0"
			out := safely(func() string {
				sg2, err := mina.DeserializeSignature(b)
				if err != nil {
					return "undecodable"
				}
				if x, ok := chal(sg2.R, pkv, msg); ok {
					e = x
				}
				return c15Verdict(verifier.Verify(sg2, sk.PublicKey(), msg))
			})
			lhs := fmt.Sprintf("mina.wire %s %s %s %s", pointStr(pkv), hexBytes(b), e, tag)
			c.Emit(lhs, out)
			c.Count("mina.wire." + tag + "." + out)
			if (out == "accept") != (expect == "accept") {
				c.Violation(fmt.Sprintf("mina wire %s: expected %s, library says %s: %s", tag, expect, out, lhs))
			}
		}
		toScalar := func(hexS string) *pasta.PallasScalar {
			b, _ := new(big.Int).SetString(hexS, 16)
			return scalarFromBig(sf, b)
		}
		nonZero := func() *pasta.PallasScalar {
			return scalarFromBig(sf, new(big.Int).Add(r.BigBelow(new(big.Int).Sub(n, big.NewInt(1))), big.NewInt(1)))
		}
		isOdd := func(p *pasta.PallasPoint) bool {
			y, err := p.AffineY()
			return err == nil && y.IsOdd()
		}
		pBase := c15hexBig("40000000000000000000000000000000224698fc094cf91b992d30ed00000001")
		wire("honest", xBig(sig.R), sBig(sig.S), "accept")
		// non-canonical encodings of the valid signature: both fit 32 bytes on Pallas (p, n < 2^255)
		wire("s-plus-n", xBig(sig.R), new(big.Int).Add(sBig(sig.S), n), "reject")
		wire("rx-plus-p", new(big.Int).Add(xBig(sig.R), pBase), sBig(sig.S), "reject")
		wire("s-eq-n", xBig(sig.R), n, "reject")
		// (a) the harness signs itself: R = k•G with even y, s = k + e·x
		kEven := nonZero()
		if isOdd(G.ScalarMul(kEven)) {
			kEven = kEven.Neg()
		}
		kOdd := kEven.Neg()
		Re, Ro := G.ScalarMul(kEven), G.ScalarMul(kOdd)
		if eS, ok := chal(Re, pkv, msg); ok {
			e := toScalar(eS) // the challenge depends on x(R) only: the same for Re and Ro
			sOwn := kEven.Add(e.Mul(skv))
			if !sOwn.IsZero() {
				try("own-sign", pkv, Re, sOwn, msg, mhex, "accept")
				wire("own-sign", xBig(Re), sBig(sOwn), "accept")
				try("own-wrong-sign", pkv, Re, kEven.Sub(e.Mul(skv)), msg, mhex, "reject")
			}
			// (b) nonce parity rule not applied: s = k + e·x with k•G of odd y.  On the wire (x(R), s) decodes to
			// the even-y point and must be rejected, as every Mina verifier does.  In memory the library compares
			// the full point; the model mirrors that (no expectation here, see the report).
			sOdd := kOdd.Add(e.Mul(skv))
			if !sOdd.IsZero() && !sOdd.Equal(sOwn) {
				wire("own-odd-R", xBig(Ro), sBig(sOdd), "reject")
				try("own-odd-R", pkv, Ro, sOdd, msg, mhex, "")
				try("own-odd-R-neg", pkv, Re, sOdd, msg, mhex, "reject")
			}
		}
		// (c) forgery without the secret key: free s', e'; R = s'•G − e'•P; E = e' in the structure
		sF, eF := nonZero(), nonZero()
		Rf := G.ScalarMul(sF).Sub(pkv.ScalarMul(eF))
		if !Rf.IsZero() {
			out := safely(func() string {
				return c15Verdict(verifier.Verify(&mina.Signature{E: eF, R: Rf, S: sF}, sk.PublicKey(), msg))
			})
			if e, ok := chal(Rf, pkv, msg); ok {
				lhs := fmt.Sprintf("schnorr.verify pallas 0.0.poseidon %s %s %s %s %s mina-forged-E", pointStr(pkv), pointStr(Rf), scalarHex(sF), e, mhex)
				c.Emit(lhs, out)
				c.Count("mina.verify.forged-E." + out)
				if out != "reject" {
					c.Violation(fmt.Sprintf("mina forged-E: expected reject, library says %s: %s", out, lhs))
				}
			}
		}
		// serialisation round trip (x-only R, even-y reconstruction)
		rt := safely(func() string {
			b, err := mina.SerializeSignature(sig)
			if err != nil {
				return "err:ser"
			}
			sg2, err := mina.DeserializeSignature(b)
			if err != nil {
				return "err:de"
			}
			return c15Verdict(verifier.Verify(sg2, sk.PublicKey(), msg))
		})
		if rt != "accept" {
			c.Violation(fmt.Sprintf("mina serialise/deserialise round trip: %s (sk=%s)", rt, scalarHex(skv)))
		}
	}
}
