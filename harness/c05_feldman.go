package main

import (
	"fmt"
	"slices"
	"strings"

	"github.com/bronlabs/bron-crypto/pkg/base/algebra"
	"github.com/bronlabs/bron-crypto/pkg/base/curves"
	"github.com/bronlabs/bron-crypto/pkg/base/mat"
	"github.com/bronlabs/bron-crypto/pkg/mpc"
	"github.com/bronlabs/bron-crypto/pkg/mpc/sharing"
	"github.com/bronlabs/bron-crypto/pkg/mpc/sharing/scheme/kw"
	"github.com/bronlabs/bron-crypto/pkg/mpc/sharing/scheme/kw/msp"
	"github.com/bronlabs/bron-crypto/pkg/mpc/sharing/vss/feldman"
)

// c05VV is a verification vector as a list of points together with the discrete logs the
// harness knows for them (every tampering below is by points of known logarithm).
type c05VV[P any, S any] struct {
	pts []P
	dl  []S
}

func (v c05VV[P, S]) clone() c05VV[P, S] {
	return c05VV[P, S]{slices.Clone(v.pts), slices.Clone(v.dl)}
}

// c05Dealing is one Feldman dealing with the dealer's column revealed.
type c05Dealing[P any, S algebra.PrimeFieldElement[S]] struct {
	kind   string
	r      []S
	vv     c05VV[P, S]
	shares map[sharing.ID]*kw.Share[S]
}

type c05F[P curves.Point[P, F, S], F algebra.FiniteFieldElement[F], S algebra.PrimeFieldElement[S]] struct {
	c      *Ctx
	r      *Rng
	curve  string
	group  curves.Curve[P, F, S]
	field  algebra.PrimeField[S]
	family string
	scheme *feldman.Scheme[P, S]
	M      *c05Msp[S]
	// object-reuse mode (c05_reuse.go): when obj is set, every emitter below hands THIS already used
	// object to the library instead of building a fresh vector from the points of the line, and
	// tags the op with "@reuse"; the line still carries the object's current value.
	obj *feldman.VerificationVector[P, S]
	// shObj: likewise an already used share object handed to Verify instead of a fresh one
	shObj *kw.Share[S]
}

func (x *c05F[P, F, S]) pre(M *c05Msp[S]) string { return x.curve + " " + M.ctx() }

// tag is appended to the op name of lines produced on reused objects.
func (x *c05F[P, F, S]) tag() string {
	if x.obj != nil || x.shObj != nil {
		return "@reuse"
	}
	return ""
}

func (x *c05F[P, F, S]) mkShare(id sharing.ID, vals []S) (*kw.Share[S], error) {
	if x.shObj != nil {
		return x.shObj, nil
	}
	return kw.NewShare(id, vals...)
}

// buildVV wraps points into a VerificationVector without the MSP length check.
func (x *c05F[P, F, S]) buildVV(pts []P) (*feldman.VerificationVector[P, S], error) {
	if x.obj != nil {
		return x.obj, nil
	}
	mod, err := mat.NewModuleValuedColumnVectorModule(uint(len(pts)), algebra.FiniteModule[P, S](x.group))
	if err != nil {
		return nil, err
	}
	col, err := mod.NewRowMajor(pts...)
	if err != nil {
		return nil, err
	}
	return feldman.NewVerificationVector(col, nil)
}

// verify runs Scheme.Verify on (id, vals) against the points of vv and emits the line.
func (x *c05F[P, F, S]) verify(kind string, sch *feldman.Scheme[P, S], M *c05Msp[S], vv c05VV[P, S], id sharing.ID, vals []S) string {
	res := safely(func() string {
		ref, err := x.buildVV(vv.pts)
		if err != nil {
			return "reject"
		}
		sh, err := x.mkShare(id, vals)
		if err != nil {
			return "reject"
		}
		if err := sch.Verify(sh, ref); err != nil {
			return "reject"
		}
		return "accept"
	})
	x.c.Count("fverify" + x.tag() + "." + kind + "." + res)
	x.c.Emit(fmt.Sprintf("fverify%s %s %s %s %s %d %s", x.tag(), kind, x.pre(M), pointsStr(vv.pts), scalarsHex(vv.dl), id, scalarsHex(vals)), res)
	return res
}

func (x *c05F[P, F, S]) smallNonZero() S {
	for {
		s := smallScalar(x.r, x.field)
		if !s.IsZero() {
			return s
		}
	}
}

// point of known logarithm: small in cheap mode, uniformly random otherwise
func (x *c05F[P, F, S]) knownPoint(small bool) (P, S) {
	var d S
	if small {
		d = x.smallNonZero()
	} else {
		d = scalarFromBig(x.field, x.r.BigBelow(fieldOrder(x.field)))
	}
	return x.group.Generator().ScalarOp(d), d
}

// dealColumn deals through the trusted-dealer path from an explicit (small) column.
func (x *c05F[P, F, S]) dealColumn(M *c05Msp[S]) (*c05Dealing[P, S], bool) {
	col := make([]S, M.cols)
	for i := range col {
		col[i] = smallScalar(x.r, x.field)
	}
	return x.dealFromColumn(M, col)
}

func (x *c05F[P, F, S]) dealFromColumn(M *c05Msp[S], col []S) (*c05Dealing[P, S], bool) {
	mod, err := mat.NewColumnVectorModule(uint(len(col)), x.field)
	if err != nil {
		x.c.Violation("NewColumnVectorModule: " + errClass(err))
		return nil, false
	}
	cm, err := mod.NewRowMajor(col...)
	if err != nil {
		x.c.Violation("column NewRowMajor: " + errClass(err))
		return nil, false
	}
	d := &c05Dealing[P, S]{kind: "column", r: col, shares: map[sharing.ID]*kw.Share[S]{}}
	res := safely(func() string {
		df, err := kw.NewDealerFunc(cm, M.m)
		if err != nil {
			return "reject"
		}
		ldf, err := feldman.LiftDealerFunc(df, x.group.Generator())
		if err != nil {
			return "reject"
		}
		d.vv = c05VV[P, S]{c05Points(ldf.VerificationVector().Value()), slices.Clone(col)}
		for _, id := range M.ids {
			sh, err := df.ShareOf(id)
			if err != nil {
				return "reject"
			}
			d.shares[id] = sh
		}
		return pointsStr(d.vv.pts) + "|" + c05SharesStr(d.shares)
	})
	x.c.Emit(fmt.Sprintf("fdeal column %s %s", x.pre(M), scalarsHex(col)), res)
	return d, !strings.HasPrefix(res, "panic") && res != "reject"
}

// dealScheme deals through Scheme.DealAndRevealDealerFunc with library-sampled randomness.
func (x *c05F[P, F, S]) dealScheme() (*c05Dealing[P, S], bool) {
	d := &c05Dealing[P, S]{kind: "scheme", shares: map[sharing.ID]*kw.Share[S]{}}
	secret := kw.NewSecret(scalarFromBig(x.field, x.r.BigBelow(fieldOrder(x.field))))
	res := safely(func() string {
		out, df, err := x.scheme.DealAndRevealDealerFunc(secret, x.r)
		if err != nil {
			return "reject"
		}
		d.r = c05Column(df.RandomColumn())
		d.vv = c05VV[P, S]{c05Points(out.VerificationMaterial().Value()), slices.Clone(d.r)}
		for id, sh := range out.Shares().Iter() {
			d.shares[id] = sh
		}
		if !d.r[0].Equal(secret.Value()) {
			x.c.Violation("dealt column does not start with the secret")
		}
		return pointsStr(d.vv.pts) + "|" + c05SharesStr(d.shares)
	})
	x.c.Emit(fmt.Sprintf("fdeal scheme %s %s", x.pre(x.M), scalarsHex(d.r)), res)
	return d, !strings.HasPrefix(res, "panic") && res != "reject"
}

// qualified / unqualified holder sets according to the library's own MSP.
func (x *c05F[P, F, S]) sets() (qual, unqual [][]sharing.ID) {
	for _, s := range c05Subsets(x.M.ids) {
		if x.scheme.CanReconstruct(s...) {
			qual = append(qual, s)
		} else {
			unqual = append(unqual, s)
		}
	}
	return qual, unqual
}

// recExp: ReconstructInTheExponent from the public (lifted) shares derived from V.
func (x *c05F[P, F, S]) recExp(d *c05Dealing[P, S], ids []sharing.ID) {
	res := safely(func() string {
		ref, err := x.buildVV(d.vv.pts)
		if err != nil {
			return "reject"
		}
		ldf, err := feldman.NewLiftedDealerFunc(ref, x.M.m)
		if err != nil {
			return "reject"
		}
		var ls []*feldman.LiftedShare[P, S]
		for _, id := range ids {
			l, err := ldf.ShareOf(id)
			if err != nil {
				return "reject"
			}
			ls = append(ls, l)
		}
		sec, err := x.scheme.ReconstructInTheExponent(ls...)
		if err != nil {
			return "reject"
		}
		if !sec.Value().Equal(ldf.LiftedSecret().Value()) {
			x.c.Violation(fmt.Sprintf("ReconstructInTheExponent != LiftedSecret %s ids=%s", x.pre(x.M), c05idsStr(ids)))
		}
		return pointStr(sec.Value())
	})
	x.c.Count("frecexp" + x.tag() + "." + map[bool]string{true: "reject", false: "point"}[res == "reject"])
	x.c.Emit(fmt.Sprintf("frecexp%s %s %s %s", x.tag(), x.pre(x.M), pointsStr(d.vv.pts), c05idsStr(ids)), res)
}

// recVer: ReconstructAndVerify on the given (possibly tampered) shares.
func (x *c05F[P, F, S]) recVer(kind string, d *c05Dealing[P, S], shares map[sharing.ID][]S, order []sharing.ID) {
	parts := make([]string, len(order))
	for i, id := range order {
		parts[i] = fmt.Sprintf("%d:%s", id, scalarsHex(shares[id]))
	}
	res := safely(func() string {
		ref, err := x.buildVV(d.vv.pts)
		if err != nil {
			return "reject"
		}
		var ss []*kw.Share[S]
		for _, id := range order {
			sh, err := kw.NewShare(id, shares[id]...)
			if err != nil {
				return "reject"
			}
			ss = append(ss, sh)
		}
		sec, err := x.scheme.ReconstructAndVerify(ref, ss...)
		if err != nil {
			return "reject"
		}
		return "ok:" + scalarHex(sec.Value())
	})
	x.c.Count("frecver" + x.tag() + "." + kind + "." + strings.SplitN(res, ":", 2)[0])
	x.c.Emit(fmt.Sprintf("frecver%s %s %s %s %s", x.tag(), kind, x.pre(x.M), pointsStr(d.vv.pts), strings.Join(parts, ";")), res)
}

// shard: mpc.NewBaseShard(share, V, MSP) — share must be consistent with the public material.
func (x *c05F[P, F, S]) shard(kind string, vv c05VV[P, S], id sharing.ID, vals []S) {
	res := safely(func() string {
		ref, err := x.buildVV(vv.pts)
		if err != nil {
			return "reject"
		}
		sh, err := x.mkShare(id, vals)
		if err != nil {
			return "reject"
		}
		bs, err := mpc.NewBaseShard(sh, ref, x.M.m)
		if err != nil {
			return "reject"
		}
		pks := bs.PublicKeyShares()
		parts := make([]string, 0, len(x.M.ids))
		for _, h := range x.M.ids {
			l, ok := pks.Get(h)
			if !ok {
				return "err:missing-pkshare"
			}
			parts = append(parts, fmt.Sprintf("%d:%s", h, pointsStr(l.Value())))
		}
		return "ok:" + pointStr(bs.PublicKeyValue()) + "|" + strings.Join(parts, ";")
	})
	x.c.Count("fshard" + x.tag() + "." + kind + "." + strings.SplitN(res, ":", 2)[0])
	x.c.Emit(fmt.Sprintf("fshard%s %s %s %s %d %s", x.tag(), kind, x.pre(x.M), pointsStr(vv.pts), id, scalarsHex(vals)), res)
}

// newVV: the length check of NewVerificationVector against the MSP.
func (x *c05F[P, F, S]) newVV(pts []P) {
	res := safely(func() string {
		mod, err := mat.NewModuleValuedColumnVectorModule(uint(len(pts)), algebra.FiniteModule[P, S](x.group))
		if err != nil {
			return "reject"
		}
		col, err := mod.NewRowMajor(pts...)
		if err != nil {
			return "reject"
		}
		if _, err := feldman.NewVerificationVector(col, x.M.m); err != nil {
			return "reject"
		}
		if _, err := mpc.NewBasePublicMaterial(x.M.m, mustVV(feldman.NewVerificationVector(col, nil))); err != nil {
			return "ok-but-public-material-rejects"
		}
		return "ok"
	})
	x.c.Count("fnewvv." + res)
	x.c.Emit(fmt.Sprintf("fnewvv %s %s", x.pre(x.M), pointsStr(pts)), res)
}

func mustVV[T any](v T, err error) T {
	if err != nil {
		panic("NewVerificationVector(nil msp) failed")
	}
	return v
}

// sum: VerificationVector.Op over several dealings, Share.Add of one holder's shares, Verify.
func (x *c05F[P, F, S]) sum(ds []*c05Dealing[P, S], id sharing.ID) (c05VV[P, S], []S, bool) {
	vparts := make([]string, len(ds))
	sparts := make([]string, len(ds))
	for i, d := range ds {
		vparts[i] = pointsStr(d.vv.pts)
		sparts[i] = scalarsHex(d.shares[id].Value())
	}
	var outVV c05VV[P, S]
	var outS []S
	res := safely(func() string {
		acc, err := x.buildVV(ds[0].vv.pts)
		if err != nil {
			return "reject"
		}
		sh := ds[0].shares[id]
		for _, d := range ds[1:] {
			o, err := x.buildVV(d.vv.pts)
			if err != nil {
				return "reject"
			}
			acc, err = acc.Op(o)
			if err != nil {
				return "reject"
			}
			sh = sh.Add(d.shares[id])
		}
		outVV.pts = c05Points(acc.Value())
		outVV.dl = make([]S, len(outVV.pts))
		for k := range outVV.dl {
			outVV.dl[k] = x.field.Zero()
			for _, d := range ds {
				outVV.dl[k] = outVV.dl[k].Add(d.vv.dl[k])
			}
		}
		outS = sh.Value()
		v := "accept"
		if err := x.scheme.Verify(sh, acc); err != nil {
			v = "reject"
		}
		return pointsStr(outVV.pts) + "|" + scalarsHex(outS) + "|" + v
	})
	x.c.Count(fmt.Sprintf("fsum.%d", len(ds)))
	x.c.Emit(fmt.Sprintf("fsum %s %s %d %s", x.pre(x.M), strings.Join(vparts, ";"), id, strings.Join(sparts, ";")), res)
	return outVV, outS, outS != nil
}

// tamperVV returns V with entry k changed in the given way (dlogs tracked).
func (x *c05F[P, F, S]) tamperVV(vv c05VV[P, S], k int, how int, small bool) c05VV[P, S] {
	out := vv.clone()
	switch how {
	case 0: // add a non-zero multiple of G
		p, d := x.knownPoint(small)
		out.pts[k] = out.pts[k].Op(p)
		out.dl[k] = out.dl[k].Add(d)
	case 1: // replace by the identity
		out.pts[k] = x.group.OpIdentity()
		out.dl[k] = x.field.Zero()
	case 2: // replace by another entry of V (or G when there is none)
		j := (k + 1) % len(out.pts)
		if j == k {
			out.pts[k], out.dl[k] = x.group.Generator(), x.field.One()
		} else {
			out.pts[k], out.dl[k] = vv.pts[j], vv.dl[j]
		}
	default: // negate
		out.pts[k] = out.pts[k].OpInv()
		out.dl[k] = out.dl[k].Neg()
	}
	return out
}

func c05Feldman[P curves.Point[P, F, S], F algebra.FiniteFieldElement[F], S algebra.PrimeFieldElement[S]](
	c *Ctx, r *Rng, curve string, group curves.Curve[P, F, S], field algebra.PrimeField[S], as c05AS, full bool,
) {
	var scheme *feldman.Scheme[P, S]
	var err error
	if p := safely(func() string { scheme, err = feldman.NewScheme(algebra.PrimeGroup[P, S](group), as.ac); return "" }); p != "" {
		c.Violation("feldman.NewScheme panicked for " + as.family + ": " + p)
		return
	}
	if err != nil {
		c.Note("feldman.NewScheme rejected " + as.family)
		c.Count("feldman.scheme.rejected." + as.family)
		return
	}
	x := &c05F[P, F, S]{c: c, r: r, curve: curve, group: group, field: field, family: as.family, scheme: scheme}
	x.M = c05ReadMSP(scheme.MSP())
	M := x.M
	c.Count(fmt.Sprintf("msp.%s.rows%d.cols%d", as.family, M.rows, M.cols))
	if len(M.ids) < M.rows {
		c.Count("msp.nonideal")
	}
	qual, unqual := x.sets()

	// ---- full-size dealing through the scheme (expensive for the model: few operations)
	if full {
		if d, ok := x.dealScheme(); ok {
			for _, id := range M.ids {
				if x.verify("honest", scheme, M, d.vv, id, d.shares[id].Value()) != "accept" {
					c.Violation(fmt.Sprintf("honest Feldman share rejected %s id=%d", x.pre(M), id))
				}
			}
			id := M.ids[r.IntN(len(M.ids))]
			vals := slices.Clone(d.shares[id].Value())
			k := r.IntN(len(vals))
			vals[k] = vals[k].Add(field.One())
			x.verify("coord", scheme, M, d.vv, id, vals)
			x.recExp(d, qual[r.IntN(len(qual))])
			q := qual[r.IntN(len(qual))]
			hs := map[sharing.ID][]S{}
			for _, h := range q {
				hs[h] = d.shares[h].Value()
			}
			x.recVer("honest", d, hs, q)
			x.shard("honest", d.vv, id, d.shares[id].Value())
		}
	}

	// ---- small-column dealings: exhaustive tampering
	d, ok := x.dealColumn(M)
	if !ok {
		return
	}
	// 1. honest
	for _, id := range M.ids {
		if x.verify("honest", scheme, M, d.vv, id, d.shares[id].Value()) != "accept" {
			c.Violation(fmt.Sprintf("honest Feldman share rejected %s id=%d", x.pre(M), id))
		}
	}
	// 2. every single coordinate of every holder
	for _, id := range M.ids {
		hv := d.shares[id].Value()
		for k := range hv {
			vals := slices.Clone(hv)
			vals[k] = vals[k].Add(x.smallNonZero())
			x.verify("coord", scheme, M, d.vv, id, vals)
			if c.Thorough() {
				vals = slices.Clone(hv)
				vals[k] = vals[k].Neg()
				x.verify("coord-neg", scheme, M, d.vv, id, vals)
				vals = slices.Clone(hv)
				vals[k] = field.Zero()
				x.verify("coord-zero", scheme, M, d.vv, id, vals)
			}
		}
		if len(hv) >= 2 { // permutation of the coordinates of a multi-row holder
			vals := slices.Clone(hv)
			vals[0], vals[len(vals)-1] = vals[len(vals)-1], vals[0]
			x.verify("coord-swap", scheme, M, d.vv, id, vals)
		}
	}
	// 3. share length shorter / longer
	for _, id := range M.ids {
		hv := d.shares[id].Value()
		x.verify("len-short", scheme, M, d.vv, id, hv[:len(hv)-1])
		if len(hv) >= 2 {
			x.verify("len-short", scheme, M, d.vv, id, hv[1:])
		}
		x.verify("len-long", scheme, M, d.vv, id, append(slices.Clone(hv), field.Zero()))
		x.verify("len-long", scheme, M, d.vv, id, append(slices.Clone(hv), hv[len(hv)-1]))
		if !c.Thorough() && r.IntN(2) == 0 {
			break
		}
	}
	// 4. share presented under another holder's ID (the model decides: accepted iff values coincide)
	pairs := 0
	for _, i := range M.ids {
		for _, j := range M.ids {
			if i == j || (!c.Thorough() && pairs >= 10) {
				continue
			}
			pairs++
			x.verify("wrong-id", scheme, M, d.vv, i, d.shares[j].Value())
		}
	}
	x.verify("unknown-id", scheme, M, d.vv, sharing.ID(70000+r.IntN(1000)), d.shares[M.ids[0]].Value())
	x.verify("zero-id", scheme, M, d.vv, 0, d.shares[M.ids[0]].Value())
	// a dealing in which two holders get equal values under equal rows cannot be forced here;
	// coincidences are produced with a zero column instead: every share is zero, every ID accepts
	// any other holder's share of the same length.
	if zd, ok := x.dealFromColumn(M, make0(field, M.cols)); ok {
		for _, i := range M.ids {
			j := M.ids[r.IntN(len(M.ids))]
			x.verify("wrong-id-zero", scheme, M, zd.vv, i, zd.shares[j].Value())
			if !c.Thorough() && r.IntN(2) == 0 {
				break
			}
		}
	}
	// 5. every single entry of V, every holder: rejected exactly for the holders having a row with
	//    a non-zero coefficient in that column
	for k := range d.vv.pts {
		hows := []int{r.IntN(4)}
		if c.Thorough() {
			hows = []int{0, 1, 2, 3}
		}
		for _, how := range hows {
			tv := x.tamperVV(d.vv, k, how, true)
			for _, id := range M.ids {
				x.verify(fmt.Sprintf("vv-entry%d", how), scheme, M, tv, id, d.shares[id].Value())
			}
		}
	}
	{ // one tampering by a point of full-size logarithm
		k := r.IntN(len(d.vv.pts))
		tv := x.tamperVV(d.vv, k, 0, false)
		id := M.ids[r.IntN(len(M.ids))]
		x.verify("vv-entry-big", scheme, M, tv, id, d.shares[id].Value())
	}
	// 6. V shorter / longer than the MSP column count, including extension by identity points
	{
		id := M.ids[r.IntN(len(M.ids))]
		hv := d.shares[id].Value()
		variants := []c05VV[P, S]{}
		if len(d.vv.pts) >= 2 {
			variants = append(variants,
				c05VV[P, S]{d.vv.pts[:len(d.vv.pts)-1], d.vv.dl[:len(d.vv.dl)-1]},
				c05VV[P, S]{d.vv.pts[1:], d.vv.dl[1:]})
		}
		p, dl := x.knownPoint(true)
		variants = append(variants,
			c05VV[P, S]{append(slices.Clone(d.vv.pts), group.OpIdentity()), append(slices.Clone(d.vv.dl), field.Zero())},
			c05VV[P, S]{append(slices.Clone(d.vv.pts), group.OpIdentity(), group.OpIdentity()), append(slices.Clone(d.vv.dl), field.Zero(), field.Zero())},
			c05VV[P, S]{append(slices.Clone(d.vv.pts), p), append(slices.Clone(d.vv.dl), dl)},
			c05VV[P, S]{append([]P{group.OpIdentity()}, d.vv.pts...), append([]S{field.Zero()}, d.vv.dl...)})
		for _, v := range variants {
			x.verify("vv-len", scheme, M, v, id, hv)
			x.newVV(v.pts)
			x.shard("vv-len", v, id, hv)
		}
		x.newVV(d.vv.pts)
	}
	// 7. extension by identity against the correspondingly extended MSP: M' = [M | e], V' = V ++ [0]
	x.extended(d)
	// 8. sums of 2..5 dealings verify exactly the sum of the shares
	{
		ds := []*c05Dealing[P, S]{d}
		for n := 2; n <= 5; n++ {
			nd, ok := x.dealColumn(M)
			if !ok {
				break
			}
			ds = append(ds, nd)
			if !c.Thorough() && n != 2 && n != 2+int(uint64(c.Seed)%4) {
				continue
			}
			for _, id := range M.ids {
				sv, ss, ok := x.sum(ds, id)
				if !ok {
					continue
				}
				// only the sum verifies: a summand alone, and the sum changed in one coordinate, do not
				x.verify("sum-part", scheme, M, sv, id, ds[0].shares[id].Value())
				t := slices.Clone(ss)
				k := r.IntN(len(t))
				t[k] = t[k].Add(x.smallNonZero())
				x.verify("sum-coord", scheme, M, sv, id, t)
				if !c.Thorough() && r.IntN(2) == 0 {
					break
				}
			}
		}
	}
	// 9. reconstruction in the exponent from public shares
	{
		nq := 2
		if c.Thorough() {
			nq = 6
		}
		for i := 0; i < nq && i < len(qual); i++ {
			x.recExp(d, qual[(i*7)%len(qual)])
		}
		if len(unqual) > 0 {
			x.recExp(d, unqual[r.IntN(len(unqual))])
			x.recExp(d, unqual[len(unqual)-1])
		}
	}
	// 10. ReconstructAndVerify
	{
		q := qual[r.IntN(len(qual))]
		hs := map[sharing.ID][]S{}
		for _, h := range q {
			hs[h] = d.shares[h].Value()
		}
		x.recVer("honest", d, hs, q)
		rev := slices.Clone(q)
		slices.Reverse(rev)
		x.recVer("honest-rev", d, hs, rev)
		// one tampered coordinate of one share
		h := q[r.IntN(len(q))]
		t := slices.Clone(hs[h])
		k := r.IntN(len(t))
		t[k] = t[k].Add(x.smallNonZero())
		ths := map[sharing.ID][]S{}
		for id, v := range hs {
			ths[id] = v
		}
		ths[h] = t
		x.recVer("tampered", d, ths, q)
		if len(unqual) > 0 {
			u := unqual[r.IntN(len(unqual))]
			us := map[sharing.ID][]S{}
			for _, h := range u {
				us[h] = d.shares[h].Value()
			}
			x.recVer("unqualified", d, us, u)
		}
	}
	// 11. mpc.NewBaseShard: share against public material
	for _, id := range M.ids {
		hv := d.shares[id].Value()
		x.shard("honest", d.vv, id, hv)
		t := slices.Clone(hv)
		k := r.IntN(len(t))
		t[k] = t[k].Add(x.smallNonZero())
		x.shard("coord", d.vv, id, t)
		if !c.Thorough() && r.IntN(2) == 0 {
			break
		}
	}
	{
		i, j := M.ids[0], M.ids[len(M.ids)-1]
		x.shard("wrong-id", d.vv, i, d.shares[j].Value())
		k := r.IntN(len(d.vv.pts))
		tv := x.tamperVV(d.vv, k, 0, true)
		for _, id := range M.ids {
			x.shard("vv-entry", tv, id, d.shares[id].Value())
		}
	}
	// 12. the same with objects that are used, changed in place and used again (c05_reuse.go)
	x.reuse(d, qual)
}

func make0[S algebra.PrimeFieldElement[S]](f algebra.PrimeField[S], n int) []S {
	out := make([]S, n)
	for i := range out {
		out[i] = f.Zero()
	}
	return out
}

// extended checks the identity extension: M' = [M | extra column], V' = V ++ [identity] verifies
// exactly the shares of M; V' = V ++ [P], P != 0, is rejected exactly for holders with a non-zero
// entry in the extra column.
func (x *c05F[P, F, S]) extended(d *c05Dealing[P, S]) {
	M := x.M
	rows := make([][]S, M.rows)
	for i := range rows {
		var e S
		switch x.r.IntN(3) {
		case 0:
			e = x.field.Zero()
		default:
			e = smallScalar(x.r, x.field)
		}
		rows[i] = append(slices.Clone(M.data[i]), e)
	}
	res := safely(func() string {
		mod, err := mat.NewMatrixModule(uint(M.rows), uint(M.cols+1), x.field)
		if err != nil {
			return "reject"
		}
		mm, err := mod.New(rows)
		if err != nil {
			return "reject"
		}
		r2h := map[int]msp.ID{}
		for i, l := range M.labels {
			r2h[i] = l
		}
		m2, err := msp.NewMSP(mm, r2h)
		if err != nil {
			return "reject"
		}
		lsss, err := kw.NewInducedScheme(m2)
		if err != nil {
			return "reject"
		}
		sch2, err := feldman.NewSchemeFromKW(algebra.PrimeGroup[P, S](x.group), lsss)
		if err != nil {
			return "reject"
		}
		M2 := c05ReadMSP(sch2.MSP())
		ext0 := c05VV[P, S]{append(slices.Clone(d.vv.pts), x.group.OpIdentity()), append(slices.Clone(d.vv.dl), x.field.Zero())}
		p, dl := x.knownPoint(true)
		extP := c05VV[P, S]{append(slices.Clone(d.vv.pts), p), append(slices.Clone(d.vv.dl), dl)}
		for _, id := range M2.ids {
			if x.verify("ext-identity", sch2, M2, ext0, id, d.shares[id].Value()) != "accept" {
				x.c.Violation(fmt.Sprintf("identity extension rejected %s id=%d", x.pre(M2), id))
			}
			x.verify("ext-point", sch2, M2, extP, id, d.shares[id].Value())
		}
		// the unextended V is too short for M'
		x.verify("ext-short", sch2, M2, d.vv, M2.ids[0], d.shares[M2.ids[0]].Value())
		return "ok"
	})
	if res != "ok" {
		x.c.Note("extended MSP not built: " + res)
		x.c.Count("ext.notbuilt")
	}
}
