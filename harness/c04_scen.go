// c04_scen.go — C04: the scenarios of the tamper matrix (protocol × configuration) and the
// independent output verifiers. Everything runs over secp256k1 except Boldyreva (BLS12-381, short keys).
//
// Every scenario derives ALL its randomness from (seed, base): the trusted-dealer key (signing,
// redistribution), the dealer-made session contexts, and one reader per party; re-running it with the
// same (seed, base) and a Hook reproduces the honest run up to the tampered message.

package main

import (
	nativeEcdsa "crypto/ecdsa"
	"crypto/sha256"
	"fmt"
	"io"

	"github.com/bronlabs/bron-crypto/pkg/base/curves/k256"
	"github.com/bronlabs/bron-crypto/pkg/base/curves/pairable/bls12381"
	"github.com/bronlabs/bron-crypto/pkg/base/datastructures/hashmap"
	"github.com/bronlabs/bron-crypto/pkg/hashing"
	"github.com/bronlabs/bron-crypto/pkg/mpc"
	"github.com/bronlabs/bron-crypto/pkg/mpc/redistribute"
	"github.com/bronlabs/bron-crypto/pkg/mpc/session"
	"github.com/bronlabs/bron-crypto/pkg/mpc/sharing/accessstructures"
	"github.com/bronlabs/bron-crypto/pkg/mpc/sharing/accessstructures/unanimity"
	"github.com/bronlabs/bron-crypto/pkg/mpc/signatures/ecdsa/dkls23"
	"github.com/bronlabs/bron-crypto/pkg/mpc/signatures/schnorr/lindell22"
	l22signing "github.com/bronlabs/bron-crypto/pkg/mpc/signatures/schnorr/lindell22/signing"
	"github.com/bronlabs/bron-crypto/pkg/signatures/bls"
	"github.com/bronlabs/bron-crypto/pkg/signatures/ecdsa"
	vanilla "github.com/bronlabs/bron-crypto/pkg/signatures/schnorrlike/schnorr"
)

type c04Shard = mpc.BaseShard[*k256Point, *k256Scalar]

// c04ShardOK: every row of the holder satisfies lift(share) = (M·V)_row and pk = V[0].
func c04ShardOK(sh *c04Shard) string {
	return safely(func() string {
		v := shardView(sh)
		if len(v.V) == 0 || !v.V[0].Equal(v.PK) {
			return "pk-not-V0"
		}
		k := 0
		for i, row := range v.Rows {
			if v.Labels[i] != v.ShareID {
				continue
			}
			if k >= len(v.Share) {
				return "share-too-short"
			}
			acc := cK256.OpIdentity()
			for j, m := range row {
				acc = acc.Add(v.V[j].ScalarMul(m))
			}
			if !cK256.ScalarBaseMul(v.Share[k]).Equal(acc) {
				return fmt.Sprintf("lift-share-ne-MV-row%d", i)
			}
			k++
		}
		if k != len(v.Share) {
			return "share-too-long"
		}
		return "ok"
	})
}

// c04ShardsOut judges the shards released by the parties other than dev; wantPK (may be nil) is the
// public key the protocol must preserve.
func c04ShardsOut(n *Net, shards map[ID]*c04Shard, holders []ID, wantPK *k256Point) func(ID) string {
	return func(dev ID) string {
		var pk *k256Point
		seen := 0
		for _, id := range holders {
			sh := shards[id]
			if id == dev || sh == nil || n.Status[id] != "ok" {
				continue
			}
			seen++
			if r := c04ShardOK(sh); r != "ok" {
				return fmt.Sprintf("invalid:shard-%d-%s", id, r)
			}
			if sh.Share().ID() != id {
				return fmt.Sprintf("invalid:shard-%d-share-id", id)
			}
			if pk == nil {
				pk = sh.PublicKeyValue()
			} else if !pk.Equal(sh.PublicKeyValue()) {
				return "invalid:public-keys-differ"
			}
			if wantPK != nil && !wantPK.Equal(sh.PublicKeyValue()) {
				return "invalid:public-key-changed"
			}
		}
		if seen == 0 {
			return "none"
		}
		return "valid"
	}
}

func c04Dealer(spec string, seed int64, stream uint64) (accessstructures.Monotone, map[ID]*c04Shard) {
	ac := mustAccess(spec)
	res := runTrustedDealer(cK256, ac, NewRng(seed, stream))
	if res.Shards == nil {
		panic("c04: trusted dealer failed for " + spec)
	}
	return ac, res.Shards
}

func c04ScnSession(cfg string, ids []ID, quick int) c04Scn {
	return c04Scn{proto: "session", cfg: cfg, quick: quick, run: func(seed int64, base uint64, hook Hook) *c04Res {
		n, ctxs := runSession(ids, partyRngs(seed, base+10, ids), hook)
		return &c04Res{net: n, agg: "-", out: func(dev ID) string {
			var sid *[32]byte
			seen := 0
			for _, id := range ids {
				c := ctxs[id]
				if id == dev || c == nil || n.Status[id] != "ok" {
					continue
				}
				seen++
				s := [32]byte(c.SessionID())
				if sid == nil {
					sid = &s
				} else if *sid != s {
					return "invalid:session-ids-differ"
				}
			}
			if seen == 0 {
				return "none"
			}
			return "valid"
		}}
	}}
}

func c04ScnDKG(proto, cfg, spec string, quick int) c04Scn {
	return c04Scn{proto: proto, cfg: cfg, quick: quick, run: func(seed int64, base uint64, hook Hook) *c04Res {
		ac := mustAccess(spec)
		ids := accessIDs(ac)
		ctxs := dealerContexts(ids, NewRng(seed, base+1))
		rngs := partyRngs(seed, base+10, ids)
		var res *DKGResult[*k256Point, *k256Scalar]
		if proto == "gennaro" {
			res = runGennaro(cK256, ac, ctxs, rngs, hook, defaultCompiler)
		} else {
			res = runCanetti(cK256, ac, ctxs, rngs, hook)
		}
		return &c04Res{net: res.Net, agg: "-", out: c04ShardsOut(res.Net, res.Released, ids, nil)}
	}}
}

func c04ScnHJKY(cfg, spec string, quick int) c04Scn {
	scn := c04Scn{proto: "hjky", cfg: cfg, quick: quick, cohDevs: accessIDs(mustAccess(spec)), cohDevsAll: accessIDs(mustAccess(spec))}
	scn.run = func(seed int64, base uint64, hook Hook) *c04Res { return scn.runWith(seed, base, hook, nil) }
	scn.runCoh = func(seed int64, base uint64, coh *c04Coh) *c04Res { return scn.runWith(seed, base, nil, coh) }
	scn.runWith = func(seed int64, base uint64, hook Hook, coh *c04Coh) *c04Res {
		ac := mustAccess(spec)
		ids := accessIDs(ac)
		ctxs := dealerContexts(ids, NewRng(seed, base+1))
		if coh.is("nonzero") {
			hook = c04NonzeroHook(coh, ac, seed, base)
		}
		res := runHJKY(cK256, ac, ctxs, partyRngs(seed, base+10, ids), hook)
		n := res.Net
		return &c04Res{net: n, agg: "-", out: func(dev ID) string {
			return safely(func() string {
				m, err := accessstructures.InducedMSP(k256.NewScalarField(), ac)
				if err != nil {
					return "invalid:msp-" + classify(err)
				}
				mat := m.Matrix()
				rows, cols := mat.Dimensions()
				var ref []*k256Point
				seen := 0
				for _, id := range ids {
					sh, vv := res.Shares[id], res.VV[id]
					if id == dev || sh == nil || vv == nil || n.Status[id] != "ok" {
						continue
					}
					seen++
					if len(vv) != cols || !vv[0].IsOpIdentity() {
						return fmt.Sprintf("invalid:zero-vv-%d", id)
					}
					if ref == nil {
						ref = vv
					} else {
						for j := range vv {
							if !vv[j].Equal(ref[j]) {
								return "invalid:zero-vvs-differ"
							}
						}
					}
					k := 0
					for i := range rows {
						h, _ := m.RowsToHolders().Get(i)
						if h != id {
							continue
						}
						acc := cK256.OpIdentity()
						for j := range cols {
							e, _ := mat.Get(i, j)
							acc = acc.Add(vv[j].ScalarMul(e))
						}
						if k >= len(sh.Value()) || !cK256.ScalarBaseMul(sh.Value()[k]).Equal(acc) {
							return fmt.Sprintf("invalid:zero-share-%d-row%d", id, i)
						}
						k++
					}
				}
				if seen == 0 {
					return "none"
				}
				return "valid"
			})
		}}
	}
	return scn
}

// c04ScnRedistribute: prevSpec's key (trusted dealer) held by prevHolders is re-shared under nextSpec.
func c04ScnRedistribute(cfg, prevSpec string, prevHolders []ID, nextSpec string, anchor ID, quick int) c04Scn {
	label := func(sender ID) string {
		for _, id := range prevHolders {
			if id == sender {
				return "redistribute"
			}
		}
		return "redistribute-newcomer"
	}
	scn := c04Scn{proto: "redistribute", cfg: cfg, quick: quick, label: label, trusted: anchor}
	scn.run = func(seed int64, base uint64, hook Hook) *c04Res { return scn.runWith(seed, base, hook, nil) }
	scn.runCoh = func(seed int64, base uint64, coh *c04Coh) *c04Res { return scn.runWith(seed, base, nil, coh) }
	scn.runWith = func(seed int64, base uint64, hook Hook, coh *c04Coh) *c04Res {
		prevAC, prev := c04Dealer(prevSpec, seed, base+2)
		next := mustAccess(nextSpec)
		all := sortedIDs(idSet(append(append([]ID{}, prevHolders...), accessIDs(next)...)...).List())
		ctxs := dealerContexts(all, NewRng(seed, base+1))
		held := map[ID]*c04Shard{}
		for _, id := range prevHolders {
			held[id] = prev[id]
		}
		// coherent deviations: the deviator's shard, its zero sharing (among the previous holders) or its round 2
		held = c04SubstInput(cK256, fK256, prevAC, held, coh, seed, base)
		switch {
		case coh.is("nonzero"):
			zeroAC, err := unanimity.NewUnanimityAccessStructure(idSet(prevHolders...))
			if err != nil {
				panic(err)
			}
			hook = c04NonzeroHook(coh, zeroAC, seed, base)
		case coh.is("redeal", "claim", "redeal+claim"):
			hook = c04RedistributeHook(coh, prevAC, next, seed, base)
		}
		var opts []redistribute.Option
		if anchor != 0 {
			opts = append(opts, redistribute.WithTrustedAnchorID(anchor))
		}
		res := runRedistribute(prevHolders, held, next, ctxs, partyRngs(seed, base+10, all), hook, opts...)
		// the ORIGINAL public key (the dealer's), whatever the deviator's shard says
		return &c04Res{net: res.Net, agg: "-", out: c04ShardsOut(res.Net, res.Released, accessIDs(next), prev[prevHolders[0]].PublicKeyValue())}
	}
	// every previous holder but the trusted anchor may deviate
	for _, id := range sortedIDs(prevHolders) {
		if id != anchor {
			scn.cohDevs = append(scn.cohDevs, id)
		}
	}
	scn.cohDevsAll = sortedIDs(prevHolders)
	return scn
}

func c04ECDSAValid(suite *ecdsa.Suite[*k256Point, *k256Base, *k256Scalar], pkv *k256Point, sig *ecdsa.Signature[*k256Scalar], msg []byte) string {
	return safely(func() string {
		pk, err := ecdsa.NewPublicKey(pkv)
		if err != nil {
			return "invalid:pk"
		}
		vf, err := ecdsa.NewVerifier(suite)
		if err != nil {
			return "invalid:verifier"
		}
		if err := vf.Verify(sig, pk, msg); err != nil {
			return "invalid:library-verifier-rejects"
		}
		digest, err := hashing.Hash(suite.HashFunc(), msg)
		if err != nil {
			return "invalid:hash"
		}
		npk, err := pk.ToElliptic()
		if err == nil {
			nr, ns := sig.ToElliptic()
			if !nativeEcdsa.Verify(npk, digest, nr, ns) {
				return "invalid:crypto/ecdsa-rejects"
			}
		}
		return "valid"
	})
}

// c04ScnDKLs23: the partial signatures travel to the aggregator through the router as broadcasts of
// the round after the last cosigner round.
func c04ScnDKLs23(variant, cfg, spec string, quorum []ID, quick, cap int) c04Scn {
	aggRound := 5
	if variant == "bbot" {
		aggRound = 4
	}
	scn := c04Scn{proto: "dkls23-" + variant, cfg: cfg, quick: quick, cap: cap, cohDevs: sortedIDs(quorum), cohDevsAll: sortedIDs(quorum)}
	scn.run = func(seed int64, base uint64, hook Hook) *c04Res { return scn.runWith(seed, base, hook, nil) }
	scn.runCoh = func(seed int64, base uint64, coh *c04Coh) *c04Res { return scn.runWith(seed, base, nil, coh) }
	scn.runWith = func(seed int64, base uint64, hook Hook, coh *c04Coh) *c04Res {
		ac, orig := c04Dealer(spec, seed, base+2)
		origPK := orig[sortedIDs(quorum)[0]].PublicKeyValue()
		shards := c04SubstInput(cK256, fK256, ac, orig, coh, seed, base)
		suite, err := ecdsa.NewSuite(cK256, sha256.New)
		if err != nil {
			panic(err)
		}
		msg := []byte("C04 tamper matrix message")
		ctxs := dealerContexts(quorum, NewRng(seed, base+1))
		res := runDKLs23(variant, suite, shards, quorum, ctxs, msg, partyRngs(seed, base+10, quorum), hook)
		n := res.Net
		agg := "none"
		var sig *ecdsa.Signature[*k256Scalar]
		if res.Partials != nil && n.OK() {
			type PS = *dkls23.PartialSignature[*k256Point, *k256Base, *k256Scalar]
			var ps []PS
			for _, id := range sortedKeys(res.Partials) {
				v, drop := n.deliver(aggRound, id, 0, true, res.Partials[id])
				if drop {
					continue
				}
				m, ok := decodeAs[PS](v)
				if !ok {
					n.markUndecodable(aggRound, id, 0, true, 0)
					continue
				}
				ps = append(ps, m)
			}
			agg = safely(func() string {
				pk, err := ecdsa.NewPublicKey(origPK) // the ORIGINAL public key, not the one a cosigner's shard reports
				if err != nil {
					return classify(err)
				}
				s, err := dkls23.Aggregate(suite, pk, msg, ps...)
				if err != nil {
					return classify(err)
				}
				sig = s
				return "ok"
			})
			if len(agg) >= 5 && agg[:5] == "panic" {
				agg = "panic"
			}
		}
		return &c04Res{net: n, agg: agg, out: func(ID) string {
			if sig == nil {
				return "none"
			}
			return c04ECDSAValid(suite, origPK, sig, msg)
		}}
	}
	return scn
}

func c04ScnLindell22(cfg, spec string, quorum []ID, quick int) c04Scn {
	scn := c04Scn{proto: "lindell22", cfg: cfg, quick: quick, cohDevs: sortedIDs(quorum), cohDevsAll: sortedIDs(quorum)}
	scn.run = func(seed int64, base uint64, hook Hook) *c04Res { return scn.runWith(seed, base, hook, nil) }
	scn.runCoh = func(seed int64, base uint64, coh *c04Coh) *c04Res { return scn.runWith(seed, base, nil, coh) }
	scn.runWith = func(seed int64, base uint64, hook Hook, coh *c04Coh) *c04Res {
		ac, orig := c04Dealer(spec, seed, base+2)
		shards := c04SubstInput(cK256, fK256, ac, orig, coh, seed, base)
		if coh.is("nonzero") {
			zeroAC, err := unanimity.NewUnanimityAccessStructure(idSet(quorum...))
			if err != nil {
				panic(err)
			}
			hook = c04NonzeroHook(coh, zeroAC, seed, base)
		}
		msg := []byte("C04 tamper matrix message")
		ctxs := dealerContexts(quorum, NewRng(seed, base+1))
		mk := func(rng io.Reader) (*vanilla.Scheme[*k256Point, *k256Scalar], error) {
			return vanilla.NewScheme(cK256, sha256.New, false, false, nil, rng)
		}
		res := runLindell22(mk, shards, quorum, ctxs, msg, partyRngs(seed, base+10, quorum), NewRng(seed, base+3), hook, defaultCompiler)
		n := res.Net
		agg := "none"
		out := "none"
		if res.Partials != nil && n.OK() {
			type PS = *lindell22.PartialSignature[*k256Point, *k256Scalar]
			ps := map[ID]PS{}
			for _, id := range sortedKeys(res.Partials) {
				v, drop := n.deliver(3, id, 0, true, res.Partials[id])
				if drop {
					continue
				}
				m, ok := decodeAs[PS](v)
				if !ok {
					n.markUndecodable(3, id, 0, true, 0)
					continue
				}
				ps[id] = m
			}
			agg = safely(func() string {
				l22, err := l22Shards(orig, quorum) // the aggregator holds the ORIGINAL public material
				if err != nil {
					return classify(err)
				}
				scheme, err := mk(NewRng(seed, base+4))
				if err != nil {
					return classify(err)
				}
				a, err := l22signing.NewAggregator(l22[quorum[0]].PublicKeyMaterial(), scheme)
				if err != nil {
					return classify(err)
				}
				sig, err := a.Aggregate(hashmap.NewComparableFromNativeLike(ps).Freeze(), msg)
				if err != nil {
					return classify(err)
				}
				vf, err := scheme.Verifier()
				if err != nil {
					return classify(err)
				}
				if vf.Verify(sig, l22[quorum[0]].PublicKey(), msg) != nil {
					out = "invalid:library-verifier-rejects"
				} else {
					out = "valid"
				}
				return "ok"
			})
			if len(agg) >= 5 && agg[:5] == "panic" {
				agg = "panic"
			}
		}
		return &c04Res{net: n, agg: agg, out: func(ID) string { return out }}
	}
	return scn
}

func c04ScnBoldyreva(cfg, spec string, quorum []ID, quick int) c04Scn {
	scn := c04Scn{proto: "boldyreva", cfg: cfg, quick: quick, curve: "bls", cohDevs: sortedIDs(quorum), cohDevsAll: sortedIDs(quorum)}
	scn.run = func(seed int64, base uint64, hook Hook) *c04Res { return scn.runWith(seed, base, hook, nil) }
	scn.runCoh = func(seed int64, base uint64, coh *c04Coh) *c04Res { return scn.runWith(seed, base, nil, coh) }
	scn.runWith = func(seed int64, base uint64, hook Hook, coh *c04Coh) *c04Res {
		ac := mustAccess(spec)
		dealt := runTrustedDealer(cBLSG1, ac, NewRng(seed, base+2))
		if dealt.Shards == nil {
			panic("c04: BLS trusted dealer failed")
		}
		msg := []byte("C04 tamper matrix message")
		ctxs := dealerContexts(quorum, NewRng(seed, base+1))
		var res *BLSResult[g1, g1f, g2, g2f]
		if coh != nil {
			// the aggregator's public material comes from the dealer, not from a shard the deviator supplies
			res = c04RunBoldyreva(dealt.Shards, c04SubstInput(cBLSG1, fBLS, ac, dealt.Shards, coh, seed, base), quorum, ctxs, msg, bls.Basic, hook)
		} else {
			res = runBoldyrevaShort(dealt.Shards, quorum, ctxs, msg, bls.Basic, hook)
		}
		agg := res.AggStatus
		if agg == "" {
			agg = "none"
		}
		return &c04Res{net: res.Net, agg: agg, out: func(ID) string {
			if res.Sig == nil {
				return "none"
			}
			return safely(func() string {
				scheme, err := bls.NewShortKeyScheme(&bls12381.FamilyTrait{}, bls.Basic)
				if err != nil {
					return "invalid:scheme"
				}
				vf, err := scheme.Verifier()
				if err != nil {
					return "invalid:verifier"
				}
				pk, err := bls.NewPublicKey[g1, g1f, g2, g2f, gt, bsc](res.PK)
				if err != nil {
					return "invalid:pk"
				}
				if vf.Verify(res.Sig, pk, msg) != nil {
					return "invalid:library-verifier-rejects"
				}
				if res.SigAlt != nil && !res.Sig.Equal(res.SigAlt) {
					return "invalid:aggregators-disagree"
				}
				return "valid"
			})
		}}
	}
	return scn
}

var _ = session.NewContext

func (s c04Scn) rel(n int) c04Scn { s.quickRel = n; return s }

// coh switches the coherent deviations of a scenario on (all kinds × all deviators, both tiers).
func (s c04Scn) coh(kinds ...string) c04Scn { s.cohKinds = kinds; return s }

// c04Scenarios. Ideal structures (one MSP row per party): `a` = 2-of-3 over IDs 1,2,3, `b` = 3-of-3 over
// sparse IDs. NON-IDEAL structures (a party owns several MSP rows, so shares, partial signatures and
// sub-shares are vectors): `n` = CNF with maximal unqualified sets {1},{2},{3} (2-of-3, two rows per
// party), `ns` = the same over sparse IDs 2,5,9, `m` = CNF {1,2},{1,3},{4} over 4 parties (party 1 owns
// one row, the others two; no holder is in every maximal unqualified set), `e` = the threshold-gate
// tree or(and(1,2),and(2,3),and(1,3)). Quorums: minimal (`…2`) and non-minimal (`…3`). Redistribution:
// refresh (same holders), grow (newcomer 4 WITHOUT a trusted anchor), grow-anchored (newcomer 4 trusting
// previous holder 2), recover (holder 1 lost its share: previous holders 2,3, newcomer 1 without anchor).
// `.coh(…)`: the coherent deviations of c04_coh.go, every kind × every deviator.
func c04Scenarios(thorough bool) []c04Scn {
	a, b := "th:2:1,2,3", "th:3:2,5,9"
	ia, ib := []ID{1, 2, 3}, []ID{2, 5, 9}
	n, ns, m, e := "cnf:1|2|3", "cnf:2|5|9", "cnf:1,2|1,3|4", "bool:or(and(1,2),and(2,3),and(1,3))"
	// coherent deviations of a previous holder in redistribution (c04_coh.go)
	rk := []string{"input0", "input", "nonzero", "redeal", "claim", "redeal+claim"}
	s := []c04Scn{
		c04ScnSession("a", ia, 90),
		c04ScnSession("b", ib, 30),
		c04ScnDKG("gennaro", "a", a, 40).rel(6),
		c04ScnDKG("gennaro", "b", b, 15),
		c04ScnDKG("gennaro", "n", n, 40).rel(30),
		c04ScnDKG("gennaro", "m", m, 15).rel(10),
		c04ScnDKG("canetti", "a", a, 40).rel(6),
		c04ScnDKG("canetti", "b", b, 15),
		c04ScnDKG("canetti", "ns", ns, 40).rel(30),
		c04ScnHJKY("a", a, 25).rel(4).coh("nonzero"),
		c04ScnHJKY("b", b, 10),
		c04ScnHJKY("n", n, 25).rel(20).coh("nonzero"),
		c04ScnRedistribute("refresh", a, ia, a, 0, 40).rel(6),
		c04ScnRedistribute("grow", a, ia, "th:2:1,2,3,4", 0, 25).coh(rk...),
		c04ScnRedistribute("grow-anchored", a, ia, "th:2:1,2,3,4", 2, 10).coh(rk...),
		c04ScnRedistribute("recover", a, []ID{2, 3}, a, 0, 10).coh(rk...),
		c04ScnRedistribute("recover-b", b, ib, "th:3:2,5,9", 0, 15),
		c04ScnRedistribute("refresh-n", n, ia, n, 0, 35).rel(30).coh(rk...),
		c04ScnRedistribute("to-e", a, ia, e, 0, 15).rel(10),
		c04ScnLindell22("a2", a, []ID{1, 3}, 25).rel(4),
		c04ScnLindell22("a3", a, ia, 30).rel(4).coh("nonzero", "input0", "input"),
		c04ScnLindell22("b", b, ib, 15),
		c04ScnLindell22("n2", n, []ID{1, 2}, 15).rel(10).coh("nonzero", "input0", "input"),
		c04ScnLindell22("ns3", ns, ib, 25).rel(20),
		c04ScnDKLs23("softspoken", "a2", a, []ID{1, 3}, 40, 400).rel(8).coh("input0", "input"),
		c04ScnDKLs23("softspoken", "a3", a, ia, 10, 400),
		c04ScnDKLs23("softspoken", "n2", n, []ID{2, 3}, 12, 300).rel(4),
		c04ScnBoldyreva("a2", a, []ID{1, 2}, 6).coh("input0", "input"),
		c04ScnBoldyreva("a3", a, ia, 5),
		c04ScnBoldyreva("n2", n, []ID{1, 2}, 8).rel(6).coh("input0", "input"),
		c04ScnBoldyreva("ns3", ns, ib, 5).rel(9),
	}
	if thorough {
		s = append(s,
			c04ScnDKLs23("softspoken", "b", b, ib, 0, 300),
			c04ScnDKLs23("bbot", "a2", a, []ID{2, 3}, 0, 120),
			c04ScnDKG("canetti", "m", m, 0),
			c04ScnHJKY("m", m, 0),
			c04ScnLindell22("m", m, []ID{1, 2, 4}, 0),
			c04ScnBoldyreva("e2", e, []ID{2, 3}, 0),
			c04ScnBoldyreva("m", m, []ID{1, 2, 4}, 0),
		)
	}
	return s
}
