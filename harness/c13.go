package main

// Stream of property C13: element encodings are faithful; decoders admit only valid elements.
//
//	enc  <curve> <format> <P>          => <bytes>                 encoder output (model mirrors the format)
//	rt   <curve> <format> <P>          => ok:<P'> | reject | panic:…  decode(encode P)   (property: P' = P)
//	inj  <curve> <format> <P> <Q>      => <encP>,<encQ>           (property: P ≠ Q ⇒ encodings differ)
//	dec  <curve> <format> <bytes>      => ok:<P> | reject | panic:…  (accepted ⇒ valid element; model mirrors accept/reject)
//	aff  <curve> <x> <y>               => ok:<P> | reject         FromAffine
//	affx <curve> <x> <0|1>             => ok:<P> | reject         FromAffineX
//	gtdec <bytes> => ok:<12 comps> | reject ; gtrt <12 comps> => <12 comps>
//	sfb  <field> <order> <len> <bytes> => ok:<v> | reject         FromBytes   (value = bytes mod order, or reject per API)
//	sbytes <field> <order> <v>         => <bytes>                 Bytes()
//	swide <field> <order> <bytes>      => ok:<v> | reject         FromWideBytes
//	sred  <field> <order> <bytes>      => ok:<v> | reject         FromBytesBEReduce (any length; value = bytes mod order)
//
// Elements: identity, small multiples of the generator, a doubling walk, zero-coordinate and small-order
// points, and boundary-coordinate points (boundarySeeks: the curve points nearest to 0, p-1, 2^k and
// 2^k-1 for the top bit positions, the middle of [2^(bits-1), p) and the top-byte boundary, both signs).
// Byte strings additionally carry those boundary coordinates (on and off the curve) under every flag.
//
// Points are rendered "inf" / "<x>:<y>" (Fp2 "c0/c1"); curve25519 points are rendered in the Edwards
// coordinates of the underlying representation (the Montgomery map is part of the model).

import (
	"encoding/hex"
	"fmt"
	"math/big"
	"strings"

	"github.com/bronlabs/bron-crypto/pkg/base/curves/curve25519"
	"github.com/bronlabs/bron-crypto/pkg/base/curves/edwards25519"
	edImpl "github.com/bronlabs/bron-crypto/pkg/base/curves/edwards25519/impl"
	"github.com/bronlabs/bron-crypto/pkg/base/curves/k256"
	"github.com/bronlabs/bron-crypto/pkg/base/curves/p256"
	"github.com/bronlabs/bron-crypto/pkg/base/curves/pairable/bls12381"
	"github.com/bronlabs/bron-crypto/pkg/base/curves/pasta"
)

func init() { register("C13", runC13) }

// c13Codec is the type-erased view of one curve type used by the stream.
type c13Codec struct {
	name    string
	fam     string // sec1 | pasta | edwards | mont | bls1 | bls2
	p       *big.Int
	cb      int // bytes per base-field component
	comps   int
	formats []string
	id      func() any
	gen     func() any
	add     func(a, b any) any
	neg     func(a any) any
	str     func(a any) string
	enc     func(format string, a any) []byte
	dec     func(format string, b []byte) (any, error)
	aff     func(x, y []*big.Int) (any, error)
	affx    func(x []*big.Int, odd bool) (any, error) // nil if the curve has no FromAffineX
	full    *c13Codec                               // for subgroup types: the full-curve codec producing torsion points
}

type c13Point[P any, F any] interface {
	ToCompressed() []byte
	ToUncompressed() []byte
	Bytes() []byte
	MarshalCBOR() ([]byte, error)
	AffineX() (F, error)
	AffineY() (F, error)
	Add(P) P
	Neg() P
}

type c13Curve[P any, F any] interface {
	FromCompressed([]byte) (P, error)
	FromUncompressed([]byte) (P, error)
	FromBytes([]byte) (P, error)
	FromAffine(x, y F) (P, error)
	OpIdentity() P
}

func beFixed(v *big.Int, n int) []byte {
	b := make([]byte, n)
	new(big.Int).Mod(v, new(big.Int).Lsh(big.NewInt(1), uint(8*n))).FillBytes(b)
	return b
}

func leFixed(v *big.Int, n int) []byte {
	b := beFixed(v, n)
	for i, j := 0, len(b)-1; i < j; i, j = i+1, j-1 {
		b[i], b[j] = b[j], b[i]
	}
	return b
}

func mkCodec[P c13Point[P, F], F interface{ Bytes() []byte }](
	name, fam string, p *big.Int, cb, comps int,
	cv c13Curve[P, F], gen P, mkF func([]*big.Int) F, str func(P) string,
	unmarshalCBOR func([]byte) (P, error),
	affx func(x F, odd bool) (P, error),
) *c13Codec {
	c := &c13Codec{name: name, fam: fam, p: p, cb: cb, comps: comps,
		formats: []string{"compressed", "uncompressed", "bytes", "cbor"}}
	c.id = func() any { return cv.OpIdentity() }
	c.gen = func() any { return gen }
	c.add = func(a, b any) any { return a.(P).Add(b.(P)) }
	c.neg = func(a any) any { return a.(P).Neg() }
	c.str = func(a any) string { return str(a.(P)) }
	c.enc = func(format string, a any) []byte {
		q := a.(P)
		switch format {
		case "compressed":
			return q.ToCompressed()
		case "uncompressed":
			return q.ToUncompressed()
		case "bytes":
			return q.Bytes()
		default:
			b, err := q.MarshalCBOR()
			if err != nil {
				panic("MarshalCBOR_error")
			}
			return b
		}
	}
	c.dec = func(format string, b []byte) (any, error) {
		var q P
		var err error
		switch format {
		case "compressed":
			q, err = cv.FromCompressed(b)
		case "uncompressed":
			q, err = cv.FromUncompressed(b)
		case "bytes":
			q, err = cv.FromBytes(b)
		default:
			q, err = unmarshalCBOR(b)
		}
		if err != nil {
			return nil, err
		}
		return q, nil
	}
	c.aff = func(x, y []*big.Int) (any, error) {
		q, err := cv.FromAffine(mkF(x), mkF(y))
		if err != nil {
			return nil, err
		}
		return q, nil
	}
	if affx != nil {
		c.affx = func(x []*big.Int, odd bool) (any, error) {
			q, err := affx(mkF(x), odd)
			if err != nil {
				return nil, err
			}
			return q, nil
		}
	}
	return c
}

func wStr[P interface {
	AffineX() (F, error)
	AffineY() (F, error)
}, F interface{ Bytes() []byte }](comps int) func(P) string {
	return func(p P) string {
		x, ex := p.AffineX()
		y, ey := p.AffineY()
		if ex != nil || ey != nil {
			return "inf"
		}
		return compsHex(x.Bytes(), comps) + ":" + compsHex(y.Bytes(), comps)
	}
}

func compsHex(b []byte, comps int) string {
	n := len(b) / comps
	out := make([]string, comps)
	for i := range comps {
		out[i] = new(big.Int).SetBytes(b[i*n : (i+1)*n]).Text(16)
	}
	return strings.Join(out, "/")
}

// edStr renders an Edwards-represented point by its affine Edwards coordinates.
func edStr(v *edImpl.Point) string {
	if v.IsZero() == 1 {
		return "inf"
	}
	var x, y edImpl.Fp
	if v.ToAffine(&x, &y) != 1 {
		return "badz"
	}
	xb, yb := x.Bytes(), y.Bytes()
	return new(big.Int).SetBytes(leRev(xb)).Text(16) + ":" + new(big.Int).SetBytes(leRev(yb)).Text(16)
}

func leRev(b []byte) []byte {
	o := make([]byte, len(b))
	for i := range b {
		o[len(b)-1-i] = b[i]
	}
	return o
}

func fieldMk[F any](cb int, from func([]byte) (F, error)) func([]*big.Int) F {
	return func(v []*big.Int) F {
		f, err := from(beFixed(v[0], cb))
		if err != nil {
			panic("field_from_bytes:" + err.Error())
		}
		return f
	}
}

func hexBig(s string) *big.Int {
	v, ok := new(big.Int).SetString(s, 16)
	if !ok {
		panic("bad hex")
	}
	return v
}

var (
	c13pK256   = hexBig("fffffffffffffffffffffffffffffffffffffffffffffffffffffffefffffc2f")
	c13pP256   = hexBig("ffffffff00000001000000000000000000000000ffffffffffffffffffffffff")
	c13pPallas = hexBig("40000000000000000000000000000000224698fc094cf91b992d30ed00000001")
	c13pVesta  = hexBig("40000000000000000000000000000000224698fc0994a8dd8c46eb2100000001")
	c13p25519  = new(big.Int).Sub(new(big.Int).Lsh(big.NewInt(1), 255), big.NewInt(19))
	c13pBLS    = hexBig("1a0111ea397fe69a4b1ba7b6434bacd764774b84f38512bf6730d2a0f6b0f6241eabfffeb153ffffb9feffffffffaaab")
)

func c13Codecs() []*c13Codec {
	var out []*c13Codec
	{
		cv, bf := k256.NewCurve(), k256.NewBaseField()
		out = append(out, mkCodec("k256", "sec1", c13pK256, 32, 1, cv, cv.Generator(),
			fieldMk(32, bf.FromBytes), wStr[*k256.Point, *k256.BaseFieldElement](1),
			func(b []byte) (*k256.Point, error) { var q k256.Point; err := q.UnmarshalCBOR(b); return &q, err },
			cv.FromAffineX))
	}
	{
		cv, bf := p256.NewCurve(), p256.NewBaseField()
		out = append(out, mkCodec("p256", "sec1", c13pP256, 32, 1, cv, cv.Generator(),
			fieldMk(32, bf.FromBytes), wStr[*p256.Point, *p256.BaseFieldElement](1),
			func(b []byte) (*p256.Point, error) { var q p256.Point; err := q.UnmarshalCBOR(b); return &q, err },
			cv.FromAffineX))
	}
	{
		cv, bf := pasta.NewPallasCurve(), pasta.NewPallasBaseField()
		out = append(out, mkCodec("pallas", "pasta", c13pPallas, 32, 1, cv, cv.Generator(),
			fieldMk(32, bf.FromBytes), wStr[*pasta.PallasPoint, *pasta.PallasBaseFieldElement](1),
			func(b []byte) (*pasta.PallasPoint, error) {
				var q pasta.PallasPoint
				err := q.UnmarshalCBOR(b)
				return &q, err
			}, cv.FromAffineX))
	}
	{
		cv, bf := pasta.NewVestaCurve(), pasta.NewVestaBaseField()
		out = append(out, mkCodec("vesta", "pasta", c13pVesta, 32, 1, cv, cv.Generator(),
			fieldMk(32, bf.FromBytes), wStr[*pasta.VestaPoint, *pasta.VestaBaseFieldElement](1),
			func(b []byte) (*pasta.VestaPoint, error) {
				var q pasta.VestaPoint
				err := q.UnmarshalCBOR(b)
				return &q, err
			}, cv.FromAffineX))
	}
	var edFull, montFull *c13Codec
	{
		cv, bf := edwards25519.NewCurve(), edwards25519.NewBaseField()
		edFull = mkCodec("ed25519", "edwards", c13p25519, 32, 1, cv, cv.PrimeSubGroupGenerator(),
			fieldMk(32, bf.FromBytes), func(p *edwards25519.Point) string { return edStr(&p.V) },
			func(b []byte) (*edwards25519.Point, error) {
				var q edwards25519.Point
				err := q.UnmarshalCBOR(b)
				return &q, err
			}, nil)
		out = append(out, edFull)
	}
	{
		cv, bf := edwards25519.NewPrimeSubGroup(), edwards25519.NewBaseField()
		c := mkCodec("ed25519sub", "edwards", c13p25519, 32, 1, cv, cv.Generator(),
			fieldMk(32, bf.FromBytes), func(p *edwards25519.PrimeSubGroupPoint) string { return edStr(&p.V) },
			func(b []byte) (*edwards25519.PrimeSubGroupPoint, error) {
				var q edwards25519.PrimeSubGroupPoint
				err := q.UnmarshalCBOR(b)
				return &q, err
			}, nil)
		c.full = edFull
		out = append(out, c)
	}
	{
		cv, bf := curve25519.NewCurve(), curve25519.NewBaseField()
		montFull = mkCodec("curve25519", "mont", c13p25519, 32, 1, cv, cv.PrimeSubGroupGenerator(),
			fieldMk(32, bf.FromBytes), func(p *curve25519.Point) string { return edStr(&p.V) },
			func(b []byte) (*curve25519.Point, error) {
				var q curve25519.Point
				err := q.UnmarshalCBOR(b)
				return &q, err
			}, nil)
		out = append(out, montFull)
	}
	{
		cv, bf := curve25519.NewPrimeSubGroup(), curve25519.NewBaseField()
		c := mkCodec("curve25519sub", "mont", c13p25519, 32, 1, cv, cv.Generator(),
			fieldMk(32, bf.FromBytes), func(p *curve25519.PrimeSubGroupPoint) string { return edStr(&p.V) },
			func(b []byte) (*curve25519.PrimeSubGroupPoint, error) {
				var q curve25519.PrimeSubGroupPoint
				err := q.UnmarshalCBOR(b)
				return &q, err
			}, nil)
		c.full = montFull
		out = append(out, c)
	}
	{
		cv, bf := bls12381.NewG1(), bls12381.NewG1BaseField()
		out = append(out, mkCodec("bls12381g1", "bls1", c13pBLS, 48, 1, cv, cv.Generator(),
			fieldMk(48, bf.FromBytes), wStr[*bls12381.PointG1, *bls12381.BaseFieldElementG1](1),
			func(b []byte) (*bls12381.PointG1, error) {
				var q bls12381.PointG1
				err := q.UnmarshalCBOR(b)
				return &q, err
			}, cv.FromAffineX))
	}
	{
		cv, bf := bls12381.NewG2(), bls12381.NewG2BaseField()
		mk := func(v []*big.Int) *bls12381.BaseFieldElementG2 {
			f, err := bf.FromComponentsBytes([][]byte{beFixed(v[0], 48), beFixed(v[1], 48)})
			if err != nil {
				panic("fp2_from_components:" + err.Error())
			}
			return f
		}
		out = append(out, mkCodec("bls12381g2", "bls2", c13pBLS, 48, 2, cv, cv.Generator(),
			mk, wStr[*bls12381.PointG2, *bls12381.BaseFieldElementG2](2),
			func(b []byte) (*bls12381.PointG2, error) {
				var q bls12381.PointG2
				err := q.UnmarshalCBOR(b)
				return &q, err
			}, nil))
	}
	return out
}

func runC13(c *Ctx) {
	for i, cd := range c13Codecs() {
		r := NewRng(c.Seed, 1300+uint64(i))
		pts := c13Elements(c, cd, r)
		c13EncodeSide(c, cd, pts)
		c13DecodeSide(c, cd, r, pts)
		c13Affine(c, cd, r, pts)
	}
	c13GT(c)
	c13Scalars(c)
}

// ---------------------------------------------------------------------------------------------
// (a) elements

func (cd *c13Codec) mulSmall(p any, k int) any {
	acc := cd.id()
	for i := 0; i < k; i++ {
		acc = cd.add(acc, p)
	}
	return acc
}

// sqrtMod returns a square root of v mod the odd prime p, or nil.
func sqrtMod(v, p *big.Int) *big.Int {
	return new(big.Int).ModSqrt(new(big.Int).Mod(v, p), p)
}

// torsion returns the eight small-order points of edwards25519 as compressed encodings.
func ed25519TorsionEnc() [][]byte {
	hexes := []string{
		"0100000000000000000000000000000000000000000000000000000000000000",
		"ecffffffffffffffffffffffffffffffffffffffffffffffffffffffffffff7f",
		"0000000000000000000000000000000000000000000000000000000000000000",
		"0000000000000000000000000000000000000000000000000000000000000080",
		"26e8958fc2b227b045c3f489f2ef98f0d5dfac05d3c63339b13802886d53fc05",
		"26e8958fc2b227b045c3f489f2ef98f0d5dfac05d3c63339b13802886d53fc85",
		"c7176a703d4dd84fba3c0b760d10670f2a2053fa2c39ccc64ec7fd7792ac037a",
		"c7176a703d4dd84fba3c0b760d10670f2a2053fa2c39ccc64ec7fd7792ac03fa",
	}
	out := make([][]byte, len(hexes))
	for i, h := range hexes {
		out[i], _ = hex.DecodeString(h)
	}
	return out
}

func c13Elements(c *Ctx, cd *c13Codec, r *Rng) []any {
	var pts []any
	g := cd.gen()
	pts = append(pts, cd.id())
	acc := cd.id()
	nSmall := 6
	if c.Thorough() {
		nSmall = 40
	}
	for k := 1; k <= nSmall; k++ {
		acc = cd.add(acc, g)
		pts = append(pts, acc, cd.neg(acc))
	}
	nRand := 6
	if cd.fam == "bls1" || cd.fam == "bls2" {
		nRand = 3
	}
	if c.Thorough() {
		nRand *= 12
	}
	cur := g
	for i := 0; i < nRand; i++ {
		// pseudo-random walk: cur = 2*cur + (small)*g repeated a random number of times
		steps := 3 + r.IntN(20)
		for s := 0; s < steps; s++ {
			cur = cd.add(cur, cur)
			if r.IntN(2) == 1 {
				cur = cd.add(cur, g)
			}
		}
		pts = append(pts, cur)
		if r.IntN(2) == 0 {
			pts = append(pts, cd.neg(cur))
		}
	}
	// points with a zero coordinate
	if cd.affx != nil && cd.full == nil && cd.fam != "bls1" { // G1: (0,±2) is not in the subgroup; handled by affx lines
		for _, odd := range []bool{false, true} {
			if q, err := cd.affx([]*big.Int{big.NewInt(0)}, odd); err == nil {
				c.Count(cd.name + ".x0point")
				pts = append(pts, q)
				pts = append(pts, cd.add(q, g))
			}
		}
	}
	// boundary coordinates: points whose wire coordinate has its top bits set, lies next to p, next to a
	// power of two, or is the smallest one on the curve
	for _, bp := range cd.boundaryPoints(c) {
		pts = append(pts, bp)
	}
	if cd.fam == "edwards" || cd.fam == "mont" {
		if cd.full == nil { // full curve types: small-order points and mixed-order points
			for _, e := range ed25519TorsionEnc() {
				// the torsion points are constructed through the Edwards decoder of the same underlying group
				t, err := edwards25519.NewCurve().FromCompressed(e)
				if err != nil {
					c.Violation("edwards25519 rejects small-order encoding " + hex.EncodeToString(e))
					continue
				}
				var q any = t
				if cd.fam == "mont" {
					var m curve25519.Point
					m.V.Set(&t.V)
					q = &m
				}
				c.Count(cd.name + ".torsionpoint")
				pts = append(pts, q, cd.add(q, g), cd.add(q, cd.mulSmall(g, 3)))
			}
		}
	}
	return pts
}

// c13Seek is a start value for the wire coordinate of a format (x; Edwards: y; curve25519: u) and the
// direction in which the generator searches for the nearest value that belongs to a curve point.
type c13Seek struct {
	from *big.Int
	step int64
}

// boundarySeeks lists the boundary regions of the coordinate range [0, p): every single high bit
// (2^k for the top bit positions of the field and of the byte string), the middle of [2^(bits-1), p),
// the values next to p, next to the top byte boundary, and the smallest coordinates.
func (cd *c13Codec) boundarySeeks(thorough bool) []c13Seek {
	bits := cd.p.BitLen()
	one := big.NewInt(1)
	var out []c13Seek
	pm1 := new(big.Int).Sub(cd.p, one)
	out = append(out, c13Seek{big.NewInt(0), 1}, c13Seek{pm1, -1})
	nBits := 4
	if thorough {
		nBits = 16
	}
	for k := bits - 1; k > bits-1-nBits && k > 1; k-- {
		v := new(big.Int).Lsh(one, uint(k))
		if v.Cmp(cd.p) < 0 {
			out = append(out, c13Seek{v, 1})
		}
		out = append(out, c13Seek{new(big.Int).Sub(v, one), -1}) // all lower bits set
	}
	hi := new(big.Int).Lsh(one, uint(bits-1))
	mid := new(big.Int).Add(hi, cd.p)
	mid.Rsh(mid, 1)
	out = append(out, c13Seek{mid, 1})
	// top byte of the encoding = 01 / = 00 with the rest ff
	tb := new(big.Int).Lsh(one, uint(8*(cd.cb-1)))
	out = append(out, c13Seek{tb, 1}, c13Seek{new(big.Int).Sub(tb, one), -1})
	if thorough {
		for k := 8; k < bits-1; k += 8 { // every byte boundary
			v := new(big.Int).Lsh(one, uint(k))
			out = append(out, c13Seek{v, 1}, c13Seek{new(big.Int).Sub(v, one), -1})
		}
	}
	return out
}

// otherCoord returns, for a wire coordinate v, the second affine coordinate w of a curve point (as the
// arguments of FromAffine expect them), or nil when v is not the coordinate of a point.  Generator side only.
func (cd *c13Codec) otherCoord(v *big.Int) *big.Int {
	if cd.fam == "edwards" {
		// wire coordinate is y: -x² + y² = 1 + d x² y²  ⇒  x² = (y² - 1)/(d y² + 1)
		p := cd.p
		d := hexBig("52036cee2b6ffe738cc740797779e89800700a4d4141d8ab75eb4dca135978a3")
		yy := new(big.Int).Mul(v, v)
		num := new(big.Int).Sub(yy, big.NewInt(1))
		num.Mod(num, p)
		den := new(big.Int).Add(new(big.Int).Mul(d, yy), big.NewInt(1))
		den.Mod(den, p)
		inv := new(big.Int).ModInverse(den, p)
		if inv == nil {
			return nil
		}
		return sqrtMod(new(big.Int).Mul(num, inv), p)
	}
	return cd.someY(v)
}

// pointsAt builds the points (both signs) whose wire coordinate is v through the public constructors.
func (cd *c13Codec) pointsAt(v *big.Int) []any {
	var out []any
	switch cd.fam {
	case "sec1", "pasta":
		for _, odd := range []bool{false, true} {
			if q, err := cd.affx([]*big.Int{v}, odd); err == nil {
				out = append(out, q)
			}
		}
	case "edwards", "mont":
		w := cd.otherCoord(v)
		if w == nil {
			return nil
		}
		for _, ww := range []*big.Int{w, new(big.Int).Mod(new(big.Int).Neg(w), cd.p)} {
			x, y := v, ww // curve25519: FromAffine(u, v)
			if cd.fam == "edwards" {
				x, y = ww, v
			}
			if q, err := cd.aff([]*big.Int{x}, []*big.Int{y}); err == nil {
				out = append(out, q)
			}
			if w.Sign() == 0 {
				break
			}
		}
	}
	return out
}

// boundaryCoords searches from every seek for the nearest coordinate that belongs to a point of the
// curve type (full-curve types with a constructor from one coordinate only; for the subgroup types the
// coordinate alone does not determine membership).  Returns the coordinates found.
func (cd *c13Codec) boundaryCoords(c *Ctx) []*big.Int {
	if cd.full != nil || cd.comps != 1 || cd.fam == "bls1" {
		return nil
	}
	seen := map[string]bool{}
	var out []*big.Int
	for _, sk := range cd.boundarySeeks(c.Thorough()) {
		v := new(big.Int).Set(sk.from)
		for tries := 0; tries < 64; tries++ {
			if v.Sign() < 0 || v.Cmp(cd.p) >= 0 {
				break
			}
			ok := false
			safely(func() string { ok = len(cd.pointsAt(v)) > 0; return "" })
			if ok {
				if !seen[v.Text(16)] {
					seen[v.Text(16)] = true
					out = append(out, new(big.Int).Set(v))
				}
				break
			}
			v.Add(v, big.NewInt(sk.step))
		}
	}
	return out
}

func (cd *c13Codec) boundaryPoints(c *Ctx) []any {
	var pts []any
	for _, v := range cd.boundaryCoords(c) {
		for _, q := range cd.pointsAt(v) {
			pts = append(pts, q)
			c.Count(cd.name + ".boundarypoint")
			if v.BitLen() == cd.p.BitLen() {
				c.Count(cd.name + ".boundarypoint.topbit")
			}
		}
	}
	return pts
}

// boundaryStrings: coordinates for the byte-string side — the boundary coordinates found on the curve
// and the raw boundary values themselves (mostly off the curve; x+k·p is added by the caller).
func (cd *c13Codec) boundaryRaw(c *Ctx) []*big.Int {
	seen := map[string]bool{}
	var out []*big.Int
	add := func(v *big.Int) {
		if v.Sign() >= 0 && v.Cmp(cd.p) < 0 && !seen[v.Text(16)] {
			seen[v.Text(16)] = true
			out = append(out, v)
		}
	}
	for _, v := range cd.boundaryCoords(c) {
		add(v)
	}
	for i, sk := range cd.boundarySeeks(c.Thorough()) {
		if !c.Thorough() && i >= 10 {
			break
		}
		add(sk.from)
	}
	return out
}

func (cd *c13Codec) safeEnc(format string, p any) string {
	return safely(func() string { return hexBytes(cd.enc(format, p)) })
}

func (cd *c13Codec) safeDec(c *Ctx, format string, b []byte) string {
	res := safely(func() string {
		q, err := cd.dec(format, b)
		if err != nil {
			return "reject"
		}
		return "ok:" + cd.str(q)
	})
	if strings.HasPrefix(res, "panic:") {
		c.Violation(fmt.Sprintf("decoder-panic %s %s %s %s", cd.name, format, hexBytes(b), res))
	}
	return res
}

func c13EncodeSide(c *Ctx, cd *c13Codec, pts []any) {
	for _, f := range cd.formats {
		for i, p := range pts {
			ps := cd.str(p)
			if ps == "inf" {
				c.Note("TRIVIAL")
			}
			encS := cd.safeEnc(f, p)
			c.Emit(fmt.Sprintf("enc %s %s %s", cd.name, f, ps), encS)
			c.Count("enc." + cd.name)
			if strings.HasPrefix(encS, "panic:") {
				c.Emit(fmt.Sprintf("rt %s %s %s", cd.name, f, ps), encS)
				continue
			}
			b, _ := hex.DecodeString(strings.TrimPrefix(encS, "-"))
			c.Emit(fmt.Sprintf("rt %s %s %s", cd.name, f, ps), cd.safeDec(c, f, b))
			// distinctness: against the next element, the negation and the identity
			others := []any{pts[(i+1)%len(pts)], cd.neg(p), pts[0]}
			for _, q := range others {
				e2 := cd.safeEnc(f, q)
				if strings.HasPrefix(e2, "panic:") {
					continue
				}
				c.Emit(fmt.Sprintf("inj %s %s %s %s", cd.name, f, ps, cd.str(q)), encS+","+e2)
			}
		}
	}
}

// ---------------------------------------------------------------------------------------------
// (b) byte strings

func cborWrap(payload []byte) []byte {
	out := []byte{0xa1, 0x6f}
	out = append(out, []byte("compressedBytes")...)
	n := len(payload)
	switch {
	case n < 24:
		out = append(out, byte(0x40+n))
	case n < 256:
		out = append(out, 0x58, byte(n))
	default:
		out = append(out, 0x59, byte(n>>8), byte(n))
	}
	return append(out, payload...)
}

func (cd *c13Codec) randCoord(r *Rng) []*big.Int {
	v := make([]*big.Int, cd.comps)
	for i := range v {
		v[i] = r.BigBelow(cd.p)
	}
	return v
}

// rawEncodings builds byte strings directly from coordinates (the generator is not a model: the
// verdict for each string is computed by the Lean side).
func (cd *c13Codec) compressedOf(x []*big.Int, flag int) []byte {
	switch cd.fam {
	case "sec1":
		return append([]byte{byte(flag)}, beFixed(x[0], 32)...)
	case "pasta", "edwards":
		b := leFixed(x[0], 32)
		b[31] |= byte(flag&1) << 7
		return b
	case "mont":
		return leFixed(x[0], 32)
	case "bls1":
		b := beFixed(x[0], 48)
		b[0] = b[0]&0x1f | byte(flag&7)<<5
		return b
	default:
		b := append(beFixed(x[1], 48), beFixed(x[0], 48)...)
		b[0] = b[0]&0x1f | byte(flag&7)<<5
		return b
	}
}

func (cd *c13Codec) uncompressedOf(x, y []*big.Int, flag int) []byte {
	switch cd.fam {
	case "sec1":
		return append(append([]byte{byte(flag)}, beFixed(x[0], 32)...), beFixed(y[0], 32)...)
	case "pasta", "mont":
		return append(leFixed(x[0], 32), leFixed(y[0], 32)...)
	case "edwards":
		return append(leFixed(y[0], 32), leFixed(x[0], 32)...)
	case "bls1":
		b := append(beFixed(x[0], 48), beFixed(y[0], 48)...)
		b[0] = b[0]&0x1f | byte(flag&7)<<5
		return b
	default:
		b := append(append(append(beFixed(x[1], 48), beFixed(x[0], 48)...), beFixed(y[1], 48)...), beFixed(y[0], 48)...)
		b[0] = b[0]&0x1f | byte(flag&7)<<5
		return b
	}
}

func (cd *c13Codec) flagSpace(format string) []int {
	switch cd.fam {
	case "sec1":
		if format == "uncompressed" {
			return []int{4, 0, 2, 3, 5, 6, 7, 0x84, 0xff}
		}
		fl := make([]int, 256)
		for i := range fl {
			fl[i] = i
		}
		return fl
	case "bls1", "bls2":
		return []int{0, 1, 2, 3, 4, 5, 6, 7}
	case "mont":
		return []int{0}
	default:
		return []int{0, 1}
	}
}

func c13DecodeSide(c *Ctx, cd *c13Codec, r *Rng, pts []any) {
	emit := func(format string, b []byte) {
		c.Emit(fmt.Sprintf("dec %s %s %s", cd.name, format, hexBytes(b)), cd.safeDec(c, format, b))
		c.Count("dec." + cd.name + "." + format)
	}
	both := func(format string, b []byte) {
		emit(format, b)
		if format == "compressed" {
			emit("bytes", b)
		}
		cborOf := "compressed"
		if cd.fam == "mont" {
			cborOf = "uncompressed"
		}
		// the CBOR codec is a separate decoding path: types that promise subgroup membership get every
		// string through it as well, the others a third
		sub := cd.full != nil || cd.fam == "bls1" || cd.fam == "bls2"
		if format == cborOf && (r.IntN(3) == 0 || sub) {
			emit("cbor", cborWrap(b))
		}
	}
	srcPts := pts
	if cd.full != nil { // subgroup type: feed it the encodings of the full curve's torsion / mixed points too
		fr := NewRng(c.Seed, 1390)
		fullPts := c13Elements(&Ctx{Tier: c.Tier, Stats: map[string]int{}, Out: c.Out, Prop: c.Prop}, cd.full, fr)
		for _, q := range fullPts {
			for _, f := range []string{"compressed", "uncompressed"} {
				e := cd.full.safeEnc(f, q)
				if strings.HasPrefix(e, "panic:") {
					continue
				}
				b, _ := hex.DecodeString(strings.TrimPrefix(e, "-"))
				both(f, b)
			}
		}
	}
	size := map[string]int{}
	for _, f := range []string{"compressed", "uncompressed"} {
		size[f] = len(cd.enc(f, cd.gen()))
	}
	// 1. every flag / tag combination on valid encodings, the zero coordinate, and random coordinates
	nPts := 4
	if c.Thorough() {
		nPts = len(srcPts)
	}
	for _, f := range []string{"compressed", "uncompressed"} {
		flags := cd.flagSpace(f)
		for i := 0; i < nPts && i < len(srcPts); i++ {
			e := cd.safeEnc(f, srcPts[(i*5)%len(srcPts)])
			if strings.HasPrefix(e, "panic:") {
				continue
			}
			b0, _ := hex.DecodeString(e)
			for _, fl := range flags {
				b := append([]byte{}, b0...)
				switch cd.fam {
				case "sec1":
					b[0] = byte(fl)
				case "bls1", "bls2":
					b[0] = b[0]&0x1f | byte(fl)<<5
				case "mont":
				default:
					if f == "compressed" {
						b[len(b)-1] = b[len(b)-1]&0x7f | byte(fl)<<7
					} else {
						b[31] = b[31]&0x7f | byte(fl)<<7
						both(f, append([]byte{}, b...))
						b[31] &= 0x7f
						b[63] = b[63]&0x7f | byte(fl)<<7
					}
				}
				if cd.fam == "sec1" && f == "compressed" && i > 0 && fl > 8 && fl < 250 {
					continue // the full tag space is exercised on the first element only
				}
				both(f, b)
			}
		}
		// zero and all-ones strings under every flag
		for _, fl := range flags {
			z := make([]byte, size[f])
			switch cd.fam {
			case "sec1":
				z[0] = byte(fl)
			case "bls1", "bls2":
				z[0] = byte(fl) << 5
			case "mont":
			default:
				z[len(z)-1] = byte(fl) << 7
			}
			if cd.fam != "sec1" || fl < 8 {
				both(f, z)
				o := append([]byte{}, z...)
				for k := range o {
					o[k] |= 0xff >> 3
					if cd.fam == "sec1" && k == 0 {
						o[k] = z[k]
					}
				}
				both(f, o)
			}
		}
	}
	// 2. coordinates: random (about half off the curve), small, non-reduced (x, x+p, x+2p, …), boundary
	nRand := 24
	if cd.fam == "bls1" || cd.fam == "bls2" {
		nRand = 10
	}
	if c.Thorough() {
		nRand *= 20
	}
	width := new(big.Int).Lsh(big.NewInt(1), uint(8*cd.cb))
	var xs [][]*big.Int
	for i := 0; i < nRand; i++ {
		xs = append(xs, cd.randCoord(r))
	}
	for i := 0; i < 12; i++ { // small x: x + k·p fits the byte width on every curve
		v := make([]*big.Int, cd.comps)
		for j := range v {
			v[j] = big.NewInt(int64(i))
			if j > 0 {
				v[j] = big.NewInt(int64(r.IntN(3)))
			}
		}
		xs = append(xs, v)
	}
	for i := 0; i < 6; i++ { // just below p
		v := make([]*big.Int, cd.comps)
		for j := range v {
			v[j] = new(big.Int).Sub(cd.p, big.NewInt(int64(1+r.IntN(20))))
		}
		xs = append(xs, v)
	}
	firstBoundary := len(xs)
	for i, v := range cd.boundaryRaw(c) { // boundary coordinates (on and off the curve)
		c.Count("dec." + cd.name + ".boundarycoord")
		if cd.comps == 1 {
			xs = append(xs, []*big.Int{v})
		} else if i%2 == 0 {
			xs = append(xs, []*big.Int{v, big.NewInt(int64(r.IntN(3)))})
		} else {
			xs = append(xs, []*big.Int{big.NewInt(int64(r.IntN(3))), v})
		}
	}
	for xi, x := range xs {
		for k := 0; k < 5; k++ {
			xv := make([]*big.Int, cd.comps)
			fits := true
			for j := range xv {
				xv[j] = new(big.Int).Add(x[j], new(big.Int).Mul(big.NewInt(int64(k)), cd.p))
				if xv[j].Cmp(width) >= 0 {
					fits = false
				}
			}
			if !fits {
				break
			}
			if k > 0 {
				c.Count("dec." + cd.name + ".nonreduced")
			}
			flags := cd.flagSpace("compressed")
			if cd.fam == "sec1" {
				flags = []int{2, 3}
			} else if (cd.fam == "bls1" || cd.fam == "bls2") && (xi < firstBoundary || k > 0) {
				flags = []int{4, 5} // boundary coordinates are combined with every flag combination
			}
			for _, fl := range flags {
				both("compressed", cd.compressedOf(xv, fl))
			}
			// uncompressed: a y that is right (when it exists over Fp), wrong, or non-reduced
			if cd.comps == 1 {
				ys := []*big.Int{r.BigBelow(cd.p), big.NewInt(0)}
				if y := cd.someY(x[0]); y != nil {
					ys = append(ys, y, new(big.Int).Sub(cd.p, y), new(big.Int).Add(y, cd.p), new(big.Int).Add(y, big.NewInt(1)))
				}
				for _, y := range ys {
					if y.Cmp(width) >= 0 {
						continue
					}
					fl := 0
					if cd.fam == "sec1" {
						fl = 4
					}
					both("uncompressed", cd.uncompressedOf(xv, []*big.Int{y}, fl))
				}
			} else if k == 0 {
				both("uncompressed", cd.uncompressedOf(xv, cd.randCoord(r), 0))
				// a right y over Fp2 (on the curve, almost never in the subgroup) and its negative
				if y := fp2CurveY(x, cd.p); y != nil {
					c.Count("dec." + cd.name + ".oncurve-uncompressed")
					both("uncompressed", cd.uncompressedOf(xv, y, 0))
					ny := []*big.Int{new(big.Int).Mod(new(big.Int).Neg(y[0]), cd.p), new(big.Int).Mod(new(big.Int).Neg(y[1]), cd.p)}
					both("uncompressed", cd.uncompressedOf(xv, ny, 0))
				}
			}
		}
	}
	// 3. lengths
	lens := []int{0, 1, 2, 31, 32, 33, 34, 47, 48, 49, 63, 64, 65, 66, 95, 96, 97, 128, 191, 192, 193}
	for _, f := range []string{"compressed", "uncompressed"} {
		good := cd.enc(f, cd.gen())
		for _, n := range lens {
			b := make([]byte, n)
			copy(b, good)
			if n > len(good) {
				_, _ = r.Read(b[len(good):])
			}
			both(f, b)
			if n > 0 && r.IntN(2) == 0 {
				rb := make([]byte, n)
				_, _ = r.Read(rb)
				both(f, rb)
			}
		}
		// valid encoding with one trailing / one missing byte
		both(f, append(append([]byte{}, good...), 0))
		both(f, good[:len(good)-1])
	}
	// 4. malformed CBOR envelopes around a valid payload
	good := cd.enc("cbor", cd.gen())
	emit("cbor", good)
	emit("cbor", good[:len(good)-1])
	emit("cbor", append(append([]byte{}, good...), 0))
	bad := append([]byte{}, good...)
	bad[3] ^= 1 // key name
	emit("cbor", bad)
	emit("cbor", []byte{})
	emit("cbor", []byte{0xa0})
	emit("cbor", cborWrap(nil))
}

// fp2CurveY returns y = (y0, y1) over Fp2 = Fp[u]/(u²+1) with y² = x³ + 4(1+u) (the G2 curve), or nil.
// Generator side only (p ≡ 3 mod 4).
func fp2CurveY(x []*big.Int, p *big.Int) []*big.Int {
	mul := func(a, b []*big.Int) []*big.Int {
		r0 := new(big.Int).Sub(new(big.Int).Mul(a[0], b[0]), new(big.Int).Mul(a[1], b[1]))
		r1 := new(big.Int).Add(new(big.Int).Mul(a[0], b[1]), new(big.Int).Mul(a[1], b[0]))
		return []*big.Int{r0.Mod(r0, p), r1.Mod(r1, p)}
	}
	x3 := mul(mul(x, x), x)
	a0 := new(big.Int).Add(x3[0], big.NewInt(4))
	a0.Mod(a0, p)
	a1 := new(big.Int).Add(x3[1], big.NewInt(4))
	a1.Mod(a1, p)
	var y []*big.Int
	if a1.Sign() == 0 {
		if r := sqrtMod(a0, p); r != nil {
			y = []*big.Int{r, big.NewInt(0)}
		} else if r := sqrtMod(new(big.Int).Neg(a0), p); r != nil {
			y = []*big.Int{big.NewInt(0), r}
		}
	} else {
		n := new(big.Int).Add(new(big.Int).Mul(a0, a0), new(big.Int).Mul(a1, a1))
		sn := sqrtMod(n, p)
		if sn == nil {
			return nil
		}
		half := new(big.Int).ModInverse(big.NewInt(2), p)
		for _, sgn := range []int64{1, -1} {
			t := new(big.Int).Add(a0, new(big.Int).Mul(big.NewInt(sgn), sn))
			t.Mul(t, half)
			t.Mod(t, p)
			y0 := sqrtMod(t, p)
			if y0 == nil || y0.Sign() == 0 {
				continue
			}
			inv := new(big.Int).ModInverse(new(big.Int).Lsh(y0, 1), p)
			y1 := new(big.Int).Mul(a1, inv)
			y = []*big.Int{y0, y1.Mod(y1, p)}
			break
		}
	}
	if y == nil {
		return nil
	}
	if yy := mul(y, y); yy[0].Cmp(a0) != 0 || yy[1].Cmp(a1) != 0 {
		return nil
	}
	return y
}

// someY returns a y with (x,y) on the curve (generator side only), or nil.
func (cd *c13Codec) someY(x *big.Int) *big.Int {
	p := cd.p
	switch cd.fam {
	case "sec1", "pasta", "bls1":
		a, b := big.NewInt(0), big.NewInt(0)
		switch cd.name {
		case "k256":
			b = big.NewInt(7)
		case "p256":
			a = new(big.Int).Sub(p, big.NewInt(3))
			b = hexBig("5ac635d8aa3a93e7b3ebbd55769886bc651d06b0cc53b0f63bce3c3e27d2604b")
		case "pallas", "vesta":
			b = big.NewInt(5)
		default:
			b = big.NewInt(4)
		}
		rhs := new(big.Int).Exp(x, big.NewInt(3), p)
		rhs.Add(rhs, new(big.Int).Mul(a, x))
		rhs.Add(rhs, b)
		return sqrtMod(rhs, p)
	case "edwards":
		// here the first coordinate passed to uncompressedOf is x, so solve for y given x:
		// -x² + y² = 1 + d x² y²  ⇒  y² = (1 + x²)/(1 - d x²)
		d := hexBig("52036cee2b6ffe738cc740797779e89800700a4d4141d8ab75eb4dca135978a3")
		xx := new(big.Int).Mul(x, x)
		num := new(big.Int).Add(big.NewInt(1), xx)
		den := new(big.Int).Sub(big.NewInt(1), new(big.Int).Mul(d, xx))
		den.Mod(den, p)
		inv := new(big.Int).ModInverse(den, p)
		if inv == nil {
			return nil
		}
		return sqrtMod(new(big.Int).Mul(num, inv), p)
	default: // mont: v² = u³ + 486662 u² + u
		u := x
		rhs := new(big.Int).Exp(u, big.NewInt(3), p)
		rhs.Add(rhs, new(big.Int).Mul(big.NewInt(486662), new(big.Int).Mul(u, u)))
		rhs.Add(rhs, u)
		return sqrtMod(rhs, p)
	}
}

// ---------------------------------------------------------------------------------------------
// affine constructors

func coordHex(v []*big.Int) string {
	out := make([]string, len(v))
	for i, x := range v {
		out[i] = x.Text(16)
	}
	return strings.Join(out, "/")
}

func c13Affine(c *Ctx, cd *c13Codec, r *Rng, pts []any) {
	res := func(q any, err error) string {
		if err != nil {
			return "reject"
		}
		return "ok:" + cd.str(q)
	}
	n := 16
	if cd.fam == "bls1" || cd.fam == "bls2" {
		n = 6
	}
	if c.Thorough() {
		n *= 20
	}
	var xs [][]*big.Int
	for i := 0; i < n; i++ {
		xs = append(xs, cd.randCoord(r))
	}
	for i := 0; i < 8; i++ {
		v := make([]*big.Int, cd.comps)
		for j := range v {
			v[j] = big.NewInt(int64(i))
			if j > 0 {
				v[j] = big.NewInt(0)
			}
		}
		xs = append(xs, v)
	}
	for _, x := range xs {
		if cd.affx != nil {
			for _, odd := range []bool{false, true} {
				o := "0"
				if odd {
					o = "1"
				}
				out := safely(func() string { return res(cd.affx(x, odd)) })
				c.Emit(fmt.Sprintf("affx %s %s %s", cd.name, coordHex(x), o), out)
				c.Count("affx." + cd.name)
			}
		}
		ys := [][]*big.Int{cd.randCoord(r)}
		if cd.comps == 1 {
			if y := cd.someY(x[0]); y != nil {
				ys = append(ys, []*big.Int{y}, []*big.Int{new(big.Int).Sub(cd.p, y)})
			}
			ys = append(ys, []*big.Int{big.NewInt(0)})
		}
		for _, y := range ys {
			out := safely(func() string { return res(cd.aff(x, y)) })
			c.Emit(fmt.Sprintf("aff %s %s %s", cd.name, coordHex(x), coordHex(y)), out)
			c.Count("aff." + cd.name)
		}
	}
	// FromAffine on the coordinates of real elements (Weierstrass / Edwards coordinates as rendered)
	if cd.fam != "mont" {
		for i, p := range pts {
			if i > 12 && !c.Thorough() {
				break
			}
			s := cd.str(p)
			if s == "inf" {
				continue
			}
			xy := strings.Split(s, ":")
			parse := func(t string) []*big.Int {
				var v []*big.Int
				for _, h := range strings.Split(t, "/") {
					v = append(v, hexBig(h))
				}
				return v
			}
			x, y := parse(xy[0]), parse(xy[1])
			out := safely(func() string { return res(cd.aff(x, y)) })
			c.Emit(fmt.Sprintf("aff %s %s %s", cd.name, coordHex(x), coordHex(y)), out)
		}
	}
}

// ---------------------------------------------------------------------------------------------
// GT

func gtComps(e *bls12381.GtElement) string {
	v := &e.V
	fps := []interface{ Bytes() []byte }{
		&v.U0.U0.U0, &v.U0.U0.U1, &v.U0.U1.U0, &v.U0.U1.U1, &v.U0.U2.U0, &v.U0.U2.U1,
		&v.U1.U0.U0, &v.U1.U0.U1, &v.U1.U1.U0, &v.U1.U1.U1, &v.U1.U2.U0, &v.U1.U2.U1,
	}
	out := make([]string, len(fps))
	for i, f := range fps {
		out[i] = new(big.Int).SetBytes(leRev(f.Bytes())).Text(16)
	}
	return strings.Join(out, ",")
}

func c13GT(c *Ctx) {
	r := NewRng(c.Seed, 1380)
	gt := bls12381.NewGt()
	dec := func(b []byte) string {
		res := safely(func() string {
			e, err := gt.FromBytes(b)
			if err != nil {
				return "reject"
			}
			return "ok:" + gtComps(e)
		})
		if strings.HasPrefix(res, "panic:") {
			c.Violation("decoder-panic gt " + hexBytes(b) + " " + res)
		}
		return res
	}
	// real elements: pairings of generator multiples
	g1, g2 := bls12381.NewG1().Generator(), bls12381.NewG2().Generator()
	n := 3
	if c.Thorough() {
		n = 12
	}
	elems := []*bls12381.GtElement{gt.One()}
	p1 := g1
	for i := 0; i < n; i++ {
		e, err := p1.Pair(g2)
		if err != nil {
			c.Violation("pairing failed")
			break
		}
		elems = append(elems, e, e.Inv())
		p1 = p1.Add(g1).Add(p1)
	}
	for _, e := range elems {
		b := e.Bytes()
		c.Emit("gtenc "+gtComps(e), hexBytes(b))
		c.Emit("gtrt "+gtComps(e), dec(b))
		c.Count("gt.elements")
	}
	for _, n := range []int{0, 1, 48, 575, 576, 577, 1152} {
		b := make([]byte, n)
		_, _ = r.Read(b)
		c.Emit("gtdec "+hexBytes(b), dec(b))
		for k := 0; k+48 <= len(b); k += 48 {
			b[k] &= 0x0f // make most components reduced; some remain ≥ p
		}
		c.Emit("gtdec "+hexBytes(b), dec(b))
		c.Count("gt.bytes")
	}
	c.Emit("gtdec "+hexBytes(make([]byte, 576)), dec(make([]byte, 576)))
}

// ---------------------------------------------------------------------------------------------
// (c) scalars and base-field elements

type c13Field struct {
	name  string
	order *big.Int
	size  int
	wide  int
	from  func([]byte) (string, error)
	wideF func([]byte) (string, error)
	redF  func([]byte) (string, error)
	bytes func(*big.Int) []byte
}

func mkField[S interface{ Bytes() []byte }](name string, order *big.Int, size, wide int,
	from func([]byte) (S, error), wideF func([]byte) (S, error), redF func([]byte) (S, error)) c13Field {
	val := func(s S, err error) (string, error) {
		if err != nil {
			return "", err
		}
		return new(big.Int).SetBytes(s.Bytes()).Text(16), nil
	}
	return c13Field{name: name, order: order, size: size, wide: wide,
		from:  func(b []byte) (string, error) { return val(from(b)) },
		wideF: func(b []byte) (string, error) { return val(wideF(b)) },
		redF:  func(b []byte) (string, error) { return val(redF(b)) },
		bytes: func(v *big.Int) []byte {
			s, err := from(beFixed(v, size))
			if err != nil {
				panic("field_from_bytes")
			}
			return s.Bytes()
		},
	}
}

func c13Scalars(c *Ctx) {
	r := NewRng(c.Seed, 1370)
	fields := []c13Field{
		mkField("k256.scalar", fieldOrder(fK256), 32, 64, fK256.FromBytes, fK256.FromWideBytes, fK256.FromBytesBEReduce),
		mkField("p256.scalar", fieldOrder(fP256), 32, 64, fP256.FromBytes, fP256.FromWideBytes, fP256.FromBytesBEReduce),
		mkField("ed25519.scalar", fieldOrder(fEd25519), 32, 64, fEd25519.FromBytes, fEd25519.FromWideBytes, fEd25519.FromBytesBEReduce),
		mkField("pallas.scalar", fieldOrder(fPallas), 32, 64, fPallas.FromBytes, fPallas.FromWideBytes, fPallas.FromBytesBEReduce),
		mkField("vesta.scalar", c13pPallas, 32, 64, pasta.NewVestaScalarField().FromBytes, pasta.NewVestaScalarField().FromWideBytes, pasta.NewVestaScalarField().FromBytesBEReduce),
		mkField("bls12381.scalar", fieldOrder(fBLS), 32, 64, fBLS.FromBytes, fBLS.FromWideBytes, fBLS.FromBytesBEReduce),
		mkField("k256.base", c13pK256, 32, 64, k256.NewBaseField().FromBytes, k256.NewBaseField().FromWideBytes, k256.NewBaseField().FromBytesBEReduce),
		mkField("p256.base", c13pP256, 32, 64, p256.NewBaseField().FromBytes, p256.NewBaseField().FromWideBytes, p256.NewBaseField().FromBytesBEReduce),
		mkField("ed25519.base", c13p25519, 32, 64, edwards25519.NewBaseField().FromBytes, edwards25519.NewBaseField().FromWideBytes, edwards25519.NewBaseField().FromBytesBEReduce),
		mkField("bls12381.base", c13pBLS, 48, 96, bls12381.NewG1BaseField().FromBytes, bls12381.NewG1BaseField().FromWideBytes, bls12381.NewG1BaseField().FromBytesBEReduce),
	}
	n := 20
	if c.Thorough() {
		n = 400
	}
	for _, f := range fields {
		q := hexNat(f.order)
		res := func(v string, err error) string {
			if err != nil {
				return "reject"
			}
			return "ok:" + v
		}
		width := new(big.Int).Lsh(big.NewInt(1), uint(8*f.size))
		var vals []*big.Int
		for i := 0; i < n; i++ {
			vals = append(vals, r.BigBelow(width)) // mostly unreduced for 255/254-bit orders
			vals = append(vals, r.BigBelow(f.order))
		}
		for i := int64(0); i < 4; i++ {
			vals = append(vals, big.NewInt(i), new(big.Int).Sub(f.order, big.NewInt(i)), new(big.Int).Add(f.order, big.NewInt(i)),
				new(big.Int).Sub(width, big.NewInt(1+i)), new(big.Int).Add(new(big.Int).Lsh(f.order, 1), big.NewInt(i)))
		}
		for _, v := range vals {
			if v.Sign() < 0 || v.Cmp(width) >= 0 {
				continue
			}
			b := beFixed(v, f.size)
			out := safely(func() string { return res(f.from(b)) })
			c.Emit(fmt.Sprintf("sfb %s %s %d %s", f.name, q, f.size, hexBytes(b)), out)
			c.Count("sfb." + f.name)
			if v.Cmp(f.order) < 0 {
				bs := safely(func() string { return hexBytes(f.bytes(v)) })
				c.Emit(fmt.Sprintf("sbytes %s %s %d %s", f.name, q, f.size, hexNat(v)), bs)
			}
		}
		for _, ln := range []int{0, 1, f.size - 1, f.size + 1, 2 * f.size} {
			b := make([]byte, ln)
			_, _ = r.Read(b)
			out := safely(func() string { return res(f.from(b)) })
			c.Emit(fmt.Sprintf("sfb %s %s %d %s", f.name, q, f.size, hexBytes(b)), out)
		}
		for i := 0; i < n; i++ {
			ln := f.wide
			switch r.IntN(6) {
			case 0:
				ln = r.IntN(f.wide + 1)
			case 1:
				ln = f.size
			case 2:
				ln = f.wide + 1 + r.IntN(3)
			}
			b := make([]byte, ln)
			_, _ = r.Read(b)
			if r.IntN(4) == 0 {
				for k := range b {
					b[k] = 0xff
				}
			}
			out := safely(func() string { return res(f.wideF(b)) })
			c.Emit(fmt.Sprintf("swide %s %s %d %s", f.name, q, f.wide, hexBytes(b)), out)
			c.Count("swide." + f.name)
		}
		// FromBytesBEReduce: any length, the value is the big-endian integer modulo the order
		var reds [][]byte
		for _, v := range vals {
			if v.Sign() >= 0 {
				reds = append(reds, v.Bytes(), beFixed(v, f.size))
			}
		}
		for i := 0; i < n; i++ {
			b := make([]byte, r.IntN(2*f.size+4))
			_, _ = r.Read(b)
			if r.IntN(4) == 0 {
				for k := range b {
					b[k] = 0xff
				}
			}
			reds = append(reds, b)
		}
		for k := 0; k < 4; k++ { // multiples of the order, wider than the field
			m := new(big.Int).Mul(f.order, new(big.Int).Lsh(big.NewInt(1), uint(8*f.size*k/2)))
			reds = append(reds, m.Bytes(), new(big.Int).Sub(m, big.NewInt(1)).Bytes(), new(big.Int).Add(m, big.NewInt(1)).Bytes())
		}
		for _, b := range reds {
			if len(b) == 0 {
				c.Note("TRIVIAL")
			}
			out := safely(func() string { return res(f.redF(b)) })
			c.Emit(fmt.Sprintf("sred %s %s %s", f.name, q, hexBytes(b)), out)
			c.Count("sred." + f.name)
		}
	}
}
