package main

import (
	"errors"
	"io"

	"github.com/bronlabs/bron-crypto/pkg/base/curves/curve25519"
	"github.com/bronlabs/bron-crypto/pkg/base/curves/edwards25519"
	"github.com/bronlabs/bron-crypto/pkg/base/curves/k256"
	"github.com/bronlabs/bron-crypto/pkg/base/curves/p256"
	"github.com/bronlabs/bron-crypto/pkg/base/curves/pairable/bls12381"
	"github.com/bronlabs/bron-crypto/pkg/base/curves/pasta"
)

// c12Elem is what field elements, scalars and points have in common for this stream.
type c12Elem[E any] interface {
	Bytes() []byte
	Equal(E) bool
}

type c12Structure[E any] interface {
	Random(io.Reader) (E, error)
	FromBytes([]byte) (E, error)
}

var errC12 = errors.New

// c12RegisterElem registers an element type of a finite structure: values are random or special
// (zero/one/generator-like), validity = the structure's own byte decoder accepts the element's
// bytes and returns an equal element (plus `extra`, e.g. prime-subgroup membership).
func c12RegisterElem[E c12Elem[E]](name string, st c12Structure[E], special []E, extra func(E) error) {
	c12Register(c12Case[E]{
		name: name,
		gen: func(r *Rng) (E, error) {
			if len(special) > 0 && r.IntN(3) == 0 {
				return special[r.IntN(len(special))], nil
			}
			return st.Random(r)
		},
		equal: func(a, b E) bool { return a.Equal(b) },
		valid: func(v E) error {
			w, err := st.FromBytes(v.Bytes())
			if err != nil {
				return err
			}
			if !w.Equal(v) {
				return errC12("FromBytes(Bytes(v)) != v")
			}
			if extra != nil {
				return extra(v)
			}
			return nil
		},
	})
}

type c12TorsionFree interface{ IsTorsionFree() bool }

func c12PrimeOrder[E c12TorsionFree](v E) error {
	if !v.IsTorsionFree() {
		return errC12("point outside the prime-order subgroup")
	}
	return nil
}

// adapters presenting curve25519's uncompressed encoding as Bytes/FromBytes
type c12X25519SubPoint struct{ *curve25519.PrimeSubGroupPoint }

func (p c12X25519SubPoint) c12Nil() bool                   { return p.PrimeSubGroupPoint == nil }
func (p c12X25519SubPoint) Bytes() []byte                  { return p.ToUncompressed() }
func (p c12X25519SubPoint) Equal(q c12X25519SubPoint) bool { return p.PrimeSubGroupPoint.Equal(q.PrimeSubGroupPoint) }
func (p c12X25519SubPoint) MarshalCBOR() ([]byte, error)   { return p.PrimeSubGroupPoint.MarshalCBOR() }
func (p *c12X25519SubPoint) UnmarshalCBOR(b []byte) error {
	p.PrimeSubGroupPoint = new(curve25519.PrimeSubGroupPoint)
	return p.PrimeSubGroupPoint.UnmarshalCBOR(b)
}

type c12X25519Sub struct{ g *curve25519.PrimeSubGroup }

func (s c12X25519Sub) Random(r io.Reader) (c12X25519SubPoint, error) {
	p, err := s.g.Random(r)
	return c12X25519SubPoint{p}, err
}
func (s c12X25519Sub) FromBytes(b []byte) (c12X25519SubPoint, error) {
	p, err := s.g.FromUncompressed(b)
	return c12X25519SubPoint{p}, err
}

func init() {
	// scalars
	c12RegisterElem("k256.Scalar", fK256, []*k256.Scalar{fK256.Zero(), fK256.One(), fK256.One().Neg()}, nil)
	c12RegisterElem("p256.Scalar", fP256, []*p256.Scalar{fP256.Zero(), fP256.One().Neg()}, nil)
	c12RegisterElem("edwards25519.Scalar", fEd25519, []*edwards25519.Scalar{fEd25519.Zero(), fEd25519.One().Neg()}, nil)
	c12RegisterElem("pasta.FqFieldElement", fPallas, []*pasta.FqFieldElement{fPallas.Zero(), fPallas.One().Neg()}, nil)
	c12RegisterElem("pasta.FpFieldElement", pasta.NewVestaScalarField(), []*pasta.FpFieldElement{pasta.NewVestaScalarField().Zero()}, nil)
	c12RegisterElem("bls12381.Scalar", fBLS, []*bls12381.Scalar{fBLS.Zero(), fBLS.One().Neg()}, nil)
	// base field elements
	c12RegisterElem("k256.BaseFieldElement", k256.NewBaseField(), []*k256.BaseFieldElement{k256.NewBaseField().Zero(), k256.NewBaseField().One().Neg()}, nil)
	c12RegisterElem("p256.BaseFieldElement", p256.NewBaseField(), []*p256.BaseFieldElement{p256.NewBaseField().Zero()}, nil)
	c12RegisterElem("edwards25519.BaseFieldElement", edwards25519.NewBaseField(), []*edwards25519.BaseFieldElement{edwards25519.NewBaseField().Zero(), edwards25519.NewBaseField().One().Neg()}, nil)
	c12RegisterElem("bls12381.BaseFieldElementG1", bls12381.NewG1BaseField(), nil, nil)
	c12RegisterElem("bls12381.BaseFieldElementG2", bls12381.NewG2BaseField(), nil, nil)
	// points
	c12RegisterElem("k256.Point", cK256, []*k256.Point{cK256.OpIdentity(), cK256.Generator()}, c12PrimeOrder[*k256.Point])
	c12RegisterElem("p256.Point", cP256, []*p256.Point{cP256.OpIdentity(), cP256.Generator()}, c12PrimeOrder[*p256.Point])
	c12RegisterElem("pasta.PallasPoint", cPallas, []*pasta.PallasPoint{cPallas.OpIdentity(), cPallas.Generator()}, c12PrimeOrder[*pasta.PallasPoint])
	c12RegisterElem("pasta.VestaPoint", cVesta, []*pasta.VestaPoint{cVesta.OpIdentity(), cVesta.Generator()}, c12PrimeOrder[*pasta.VestaPoint])
	c12RegisterElem("bls12381.PointG1", cBLSG1, []*bls12381.PointG1{cBLSG1.OpIdentity(), cBLSG1.Generator()}, c12PrimeOrder[*bls12381.PointG1])
	c12RegisterElem("bls12381.PointG2", cBLSG2, []*bls12381.PointG2{cBLSG2.OpIdentity(), cBLSG2.Generator()}, c12PrimeOrder[*bls12381.PointG2])
	c12RegisterElem("edwards25519.PrimeSubGroupPoint", cEd25519, []*edwards25519.PrimeSubGroupPoint{cEd25519.OpIdentity(), cEd25519.Generator()}, c12PrimeOrder[*edwards25519.PrimeSubGroupPoint])
	edFull := edwards25519.NewCurve()
	c12RegisterElem("edwards25519.Point", edFull, []*edwards25519.Point{edFull.OpIdentity(), edFull.PrimeSubGroupGenerator()}, nil)
	x25519 := curve25519.NewPrimeSubGroup()
	// curve25519 points travel in uncompressed form (Bytes() is the x-only Montgomery form)
	c12RegisterElem("curve25519.PrimeSubGroupPoint", c12X25519Sub{x25519}, []c12X25519SubPoint{{x25519.Generator()}}, func(p c12X25519SubPoint) error {
		return c12PrimeOrder(p.PrimeSubGroupPoint)
	})
}
