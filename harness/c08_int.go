package main

// integer-group instances of C08: the Paillier n-th-root proof (a Maurer instance over Z*_{N²}).
// Range-type proofs (Paillier range / LPDL / modulus, ring-Pedersen, CGGMP21) are not in this
// stream yet (key generation cost; no Maurer structure) — see checks/C08.json.

import (
	crand "crypto/rand"
	"fmt"
	"math/big"

	"github.com/bronlabs/bron-crypto/pkg/base/nt/modular"
	"github.com/bronlabs/bron-crypto/pkg/base/nt/num"
	"github.com/bronlabs/bron-crypto/pkg/base/nt/numct"
	"github.com/bronlabs/bron-crypto/pkg/base/nt/znstar"
	"github.com/bronlabs/bron-crypto/pkg/proofs/paillier/nthroot"
	"github.com/bronlabs/bron-crypto/pkg/proofs/sigma"
)

func c08Int(c *Ctx) {
	r := NewRng(c.Seed, 880)
	rounds := 1
	primeLen := 256
	if c.Thorough() {
		rounds = 1 // one round already takes ~15 min of harness time (Fischlin provers); wider mutation, all curves/compilers
		primeLen = 512
	}
	for i := 0; i < rounds; i++ {
		c08Nthroot(c, r, primeLen)
	}
}

func c08Nthroot(c *Ctx, r *Rng, primeLen int) {
	defer func() {
		if e := recover(); e != nil {
			c.Violation(fmt.Sprintf("nthroot panic: %v", e))
		}
	}()
	type Arith = *modular.OddPrimeSquareFactors
	pBig, err := crand.Prime(r, primeLen)
	if err != nil {
		panic(err)
	}
	qBig, err := crand.Prime(r, primeLen)
	if err != nil {
		panic(err)
	}
	p, err := num.NPlus().FromNatCT(numct.NewNatFromBig(pBig, primeLen))
	if err != nil {
		panic(err)
	}
	q, err := num.NPlus().FromNatCT(numct.NewNatFromBig(qBig, primeLen))
	if err != nil {
		panic(err)
	}
	g, err := znstar.NewPaillierGroup(p, q)
	if err != nil {
		panic(err)
	}
	proto, err := nthroot.NewProtocol(g, r)
	if err != nil {
		c.Violation("nthroot.NewProtocol failed")
		return
	}
	n := g.N().Big()
	type X = *nthroot.Statement[Arith]
	type A = *nthroot.Commitment[Arith]
	type Z = *nthroot.Response[Arith]
	mk := func() (X, *nthroot.Witness[Arith]) {
		y := r.BigBelow(n)
		if y.Sign() == 0 {
			y = big.NewInt(2)
		}
		yCt := numct.NewNatFromBig(y, primeLen*2)
		var xCt numct.Nat
		g.Arithmetic().ExpToN(&xCt, yCt)
		x, err := g.FromNatCT(&xCt)
		if err != nil {
			panic(err)
		}
		w, err := g.FromNatCT(yCt)
		if err != nil {
			panic(err)
		}
		st, err := nthroot.NewStatement(x)
		if err != nil {
			panic(err)
		}
		wit, err := nthroot.NewWitness(w)
		if err != nil {
			panic(err)
		}
		return st, wit
	}
	x, w := mk()
	x2, w2 := mk()
	el := func(e *znstar.PaillierGroupElement[Arith]) string { return hexNat(e.Value().Big()) }
	prefix := fmt.Sprintf("nthroot - %s", hexNat(n))
	line, fl, exl := maurerLines(prefix, func(x X) string { return el(x.X) }, func(a A) string { return el(a.A) }, func(z Z) string { return el(z.Z) })
	cs := &sigCase[X, *nthroot.Witness[Arith], A, *nthroot.State[Arith], Z]{
		tag: "nthroot", proto: proto, x: x, w: w, x2: x2, w2: w2, heavy: true, fischlinQuick: c.Seed%2 == 0,
		line: line, fischlinLine: fl, extractLine: exl,
		extract: func(x X, a A, es []sigma.ChallengeBytes, zs []Z) (string, bool, error) {
			wit, err := proto.Extract(x, a, es, zs)
			if err != nil {
				return "", false, err
			}
			return el(wit.W), proto.ValidateStatement(x, wit) == nil, nil
		},
	}
	runSigma(c, r, cs)
}
