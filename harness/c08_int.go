package main

// integer-group instances of C08 (Paillier n-th root, ...)
func c08Int(c *Ctx) {}
