package main

// C14 — windowed scalar multiplication and Pippenger multi-scalar multiplication at and around every
// threshold at which pkg/base/algebra/impl/mul.go (and its generic twin in
// pkg/base/utils/algebrautils) changes behaviour:
//
//   ScalarMulLowLevel        fixed 4-bit window, table of 16, two nibbles per byte, little-endian
//   MultiScalarMulLowLevel   n == 0 / n <= 7 naive / bucket method with w = clamp(bits.Len(n), 2, 16),
//                            numWindows = ceil(8*maxLen / w), getWindow over little-endian bytes
//
// so the window width changes at every n = 2^k (k = 3 … 15), saturates at n >= 2^15 and the clamp
// binds from n = 2^16 on; a window crosses one byte boundary for w <= 9 and up to two for w >= 10.
//
// To keep the model's cost independent of n the points are multiples of the generator,
// P_i = m_i·G, and the line carries the multipliers and the scalars as compact SPECS (expanded
// identically by Drive/C14.lean):
//
//   pspec   a:<a>:<b>                 m_i = (a·i + b) mod order           (P_0 = b·G, step a·G)
//           l:<m0>,<m1>,…             explicit multipliers
//   sspec   l<len>:<k0>,<k1>,…        naturals, each encoded in <len> little-endian bytes
//           s<len>:<d>:<i>=<k>,…      all equal <d> except the listed indices ('-' for none)
//           a<len>:<a>:<b>:<m>        k_i = (a·i + b) mod m
//           p<len>:<c>                k_i = 2^(i mod c)                     (single bits)
//           b:<bytes>,<bytes>,…       explicit little-endian byte strings ('_' = empty)
//
//   msmg  <curve> <pub|raw|au> <n> <pspec> <sspec> => point
//   smulg <curve> <pub|raw|base|au> <le-bytes> <m>  => point          (k·(m·G))
//   smulrawb <curve> <le-bytes> <point> => point                      (ScalarMulLowLevel, any point)
//   msmrawb  <curve> <bytes,bytes,…> <points> => point                (MultiScalarMulLowLevel, any points)
//
// The Lean driver checks the result against (Σ k_i·m_i mod order)·G and additionally executes the
// hand-written model of the two Go functions (Model/Window.lean) on the same bytes.

import (
	"bufio"
	"bytes"
	"fmt"
	"math/big"
	"math/bits"
	"strings"
	"sync"

	"github.com/bronlabs/bron-crypto/pkg/base/algebra"
	aimpl "github.com/bronlabs/bron-crypto/pkg/base/algebra/impl"
	"github.com/bronlabs/bron-crypto/pkg/base/utils/algebrautils"
)

// c14MsmRawOf builds the raw MultiScalarMulLowLevel entry of a public point type PT whose impl value is V.
func c14MsmRawOf[PT any, V any, PP aimpl.GroupElementPtrLowLevel[PP, V]](val func(PT) *V, wrap func(*V) PT) func([][]byte, []PT) PT {
	return func(bs [][]byte, ps []PT) PT {
		pts := make([]*V, len(ps))
		for i := range ps {
			pts[i] = val(ps[i])
		}
		var out V
		aimpl.MultiScalarMulLowLevel[PP](&out, pts, bs)
		return wrap(&out)
	}
}

func c14AuSmul[P algebra.MonoidElement[P]](p P, be []byte) P {
	return algebrautils.ScalarMul(p, beBytes(be))
}

func c14AuMsm[P algebra.MonoidElement[P]](be [][]byte, ps []P) P {
	scs := make([]beBytes, len(be))
	for i := range be {
		scs[i] = beBytes(be[i])
	}
	return algebrautils.MultiScalarMul(scs, ps)
}

// c14RunParallel runs independent sub-streams concurrently (at most par at a time), each into its
// own buffer, and writes the buffers in the given order: the output is deterministic.
func c14RunParallel(c *Ctx, par int, fs ...func(*Ctx)) {
	bufs := make([]bytes.Buffer, len(fs))
	subs := make([]*Ctx, len(fs))
	sem := make(chan struct{}, par)
	var wg sync.WaitGroup
	for i, f := range fs {
		subs[i] = &Ctx{Prop: c.Prop, Tier: c.Tier, Seed: c.Seed, Out: bufio.NewWriterSize(&bufs[i], 1<<16), Stats: map[string]int{}}
		wg.Add(1)
		go func() {
			defer wg.Done()
			sem <- struct{}{}
			defer func() { <-sem }()
			f(subs[i])
			subs[i].Out.Flush()
		}()
	}
	wg.Wait()
	for i := range fs {
		_, _ = c.Out.Write(bufs[i].Bytes())
		for k, v := range subs[i].Stats {
			c.Stats[k] += v
		}
	}
}

// beBytes hands a raw big-endian byte string to algebrautils as an UnsignedNumeric.
type beBytes []byte

func (b beBytes) BytesBE() []byte { return b }

func reverseBytes(b []byte) []byte {
	out := make([]byte, len(b))
	for i := range b {
		out[len(b)-1-i] = b[i]
	}
	return out
}

func leBytesHex(b []byte) string {
	if len(b) == 0 {
		return "-"
	}
	return fmt.Sprintf("%x", b)
}

func leToBig(b []byte) *big.Int { return new(big.Int).SetBytes(reverseBytes(b)) }

// ---- point specs

type c14PSpec struct {
	str string
	at  func(i int) *big.Int // multiplier of point i (already reduced)
}

func psAffine(a, b, order *big.Int) c14PSpec {
	a = new(big.Int).Mod(a, order)
	b = new(big.Int).Mod(b, order)
	return c14PSpec{
		str: "a:" + hexNat(a) + ":" + hexNat(b),
		at: func(i int) *big.Int {
			v := new(big.Int).Mul(a, big.NewInt(int64(i)))
			return v.Mod(v.Add(v, b), order)
		},
	}
}

// points of an affine spec are produced incrementally (one addition each), so their projective
// representatives are not normalised
func c14AffinePoints[P any](g *c14Group[P], a, b *big.Int, n int) []P {
	out := make([]P, n)
	if n == 0 {
		return out
	}
	step := g.smul(g.gen, new(big.Int).Mod(a, g.n))
	cur := g.smul(g.gen, new(big.Int).Mod(b, g.n))
	for i := 0; i < n; i++ {
		out[i] = cur
		cur = g.add(cur, step)
	}
	return out
}

// ---- scalar specs

type c14SSpec struct {
	str   string
	bytes [][]byte // little-endian
}

func natLE(v *big.Int, l int) []byte {
	be := v.Bytes()
	if len(be) > l {
		panic("natLE: value does not fit")
	}
	out := make([]byte, l)
	for i := range be {
		out[len(be)-1-i] = be[i]
	}
	return out
}

func ssAffine(l int, a, b, m *big.Int, n int) c14SSpec {
	out := make([][]byte, n)
	for i := range out {
		v := new(big.Int).Mul(a, big.NewInt(int64(i)))
		v.Mod(v.Add(v, b), m)
		out[i] = natLE(v, l)
	}
	return c14SSpec{fmt.Sprintf("a%d:%s:%s:%s", l, hexNat(a), hexNat(b), hexNat(m)), out}
}

func ssAll(l int, v *big.Int, n int) c14SSpec { return ssSparse(l, v, nil, nil, n) }

func ssSparse(l int, dflt *big.Int, idx []int, vals []*big.Int, n int) c14SSpec {
	out := make([][]byte, n)
	d := natLE(dflt, l)
	for i := range out {
		out[i] = d
	}
	parts := make([]string, len(idx))
	for j, i := range idx {
		out[i] = natLE(vals[j], l)
		parts[j] = fmt.Sprintf("%d=%s", i, hexNat(vals[j]))
	}
	return c14SSpec{fmt.Sprintf("s%d:%s:%s", l, hexNat(dflt), joinComma(parts)), out}
}

func ssBits(l int, cyc int, n int) c14SSpec {
	out := make([][]byte, n)
	for i := range out {
		out[i] = natLE(new(big.Int).Lsh(big.NewInt(1), uint(i%cyc)), l)
	}
	return c14SSpec{fmt.Sprintf("p%d:%d", l, cyc), out}
}

func ssList(l int, vals []*big.Int) c14SSpec {
	out := make([][]byte, len(vals))
	parts := make([]string, len(vals))
	for i, v := range vals {
		out[i] = natLE(v, l)
		parts[i] = hexNat(v)
	}
	return c14SSpec{fmt.Sprintf("l%d:%s", l, joinComma(parts)), out}
}

func ssBytes(bs [][]byte) c14SSpec {
	parts := make([]string, len(bs))
	for i, b := range bs {
		if len(b) == 0 {
			parts[i] = "_"
		} else {
			parts[i] = fmt.Sprintf("%x", b)
		}
	}
	return c14SSpec{"b:" + joinComma(parts), bs}
}

// ---- thresholds derived from mul.go

const (
	c14NaiveMax = 7  // if n <= 7
	c14ClampHi  = 16 // if w > 16 { w = 16 }
	c14Nibble   = 4  // window of ScalarMulLowLevel
)

func c14Width(n int) int {
	w := bits.Len(uint(n))
	if w < 2 {
		w = 2
	}
	if w > c14ClampHi {
		w = c14ClampHi
	}
	return w
}

// vector lengths at and around every change of behaviour, up to 2^maxK
func c14MsmLengths(maxK int) []int {
	out := []int{0, 1, 2, c14NaiveMax - 1, c14NaiveMax, c14NaiveMax + 1, c14NaiveMax + 2}
	for k := 4; k <= maxK; k++ {
		out = append(out, 1<<k-1, 1<<k)
		if k <= 6 {
			out = append(out, 1<<k+1)
		}
	}
	return out
}

func (g *c14Group[P]) runMsmg(c *Ctx, variant string, n int, ps c14PSpec, pts []P, ss c14SSpec) {
	cn := g.cn
	lhs := fmt.Sprintf("msmg %s %s %d %s %s", cn, variant, n, ps.str, ss.str)
	c.Count(fmt.Sprintf("%s.msmg.%s.w=%d", cn, variant, c14Width(n)))
	c.Emit(lhs, safely(func() string {
		switch variant {
		case "pub":
			ks := make([]*big.Int, n)
			for i := range ks {
				ks[i] = leToBig(ss.bytes[i])
			}
			res, err := g.msm(ks, pts)
			if err != nil {
				return "err:msm"
			}
			return g.str(res)
		case "raw":
			return g.str(g.msmRaw(ss.bytes, pts))
		case "au":
			be := make([][]byte, n)
			for i := range be {
				be[i] = reverseBytes(ss.bytes[i])
			}
			return g.str(g.auMsm(be, pts))
		}
		return "err:variant"
	}))
}

// c14WindowPlan says how densely one group is covered. The Go ladder and bucket method are generic
// code shared by all curves, so in the quick tier ONE curve gets every structured case and the
// others a seed-dependent sample (every case is reached over the seeds; thorough: dense everywhere).
type c14WindowPlan struct {
	maxK     int   // vector lengths up to 2^maxK
	longFrom int   // vectors of length >= longFrom get the reduced set of scalar structures
	fullAt   []int // (sparse plans) the only lengths that get the full set
	keep     int   // scalar-multiplication cases: keep one in `keep` (1 = all)
	hugeFrom int   // vectors of length >= hugeFrom (if > 0) get ONE of the reduced structures
}

func (p c14WindowPlan) full(n int) bool {
	if n >= p.longFrom {
		return false
	}
	if p.fullAt == nil {
		return true
	}
	for _, m := range p.fullAt {
		if m == n {
			return true
		}
	}
	return false
}

// runWindow emits the window-threshold cases of one group. Vectors that do not get the full set of
// scalar structures get the reduced one: full-size pseudo-random scalars, one bit per scalar over
// every bit position, raw scalars >= order with one more byte.
func runWindow[P any](c *Ctx, g *c14Group[P], stream uint64, plan c14WindowPlan) {
	maxK := plan.maxK
	r := NewRng(c.Seed, 14100+stream)
	rs := NewRng(c.Seed, 14200+stream) // sampling of the scalar-multiplication cases
	cn := g.cn
	one := big.NewInt(1)
	order := g.n
	nm1 := new(big.Int).Sub(order, one)
	sl := (order.BitLen() + 7) / 8 // byte length of a scalar-field element (what Scalar.V.Bytes() returns)
	two := func(e int) *big.Int { return new(big.Int).Lsh(one, uint(e)) }

	// ================= scalar multiplication
	smulg := func(variant string, le []byte, m *big.Int) {
		if plan.keep > 1 && rs.IntN(plan.keep) != 0 {
			return
		}
		lhs := fmt.Sprintf("smulg %s %s %s %s", cn, variant, leBytesHex(le), hexNat(m))
		c.Count(cn + ".smulg." + variant)
		c.Emit(lhs, safely(func() string {
			var p P
			if variant == "base" {
				return g.str(g.baseMul(leToBig(le)))
			}
			p = g.smul(g.gen, m)
			if m.Sign() != 0 && r.IntN(2) == 0 {
				// a different projective representative of the same point: (m-1)G + G
				p = g.add(g.smul(g.gen, new(big.Int).Sub(m, one)), g.gen)
			}
			switch variant {
			case "raw":
				return g.str(g.smulRaw(p, le))
			case "pub":
				return g.str(g.smul(p, leToBig(le)))
			case "au":
				return g.str(g.auSmul(p, reverseBytes(le)))
			}
			return "err:variant"
		}))
	}
	pickM := func() *big.Int {
		switch r.IntN(4) {
		case 0:
			return big.NewInt(1)
		case 1:
			return big.NewInt(int64(2 + r.IntN(1000)))
		default:
			return r.BigBelow(order)
		}
	}
	bitsTotal := 8 * sl
	// (a) one set bit at every window boundary of the 4-bit ladder, (b) neighbours of the boundary
	for j := 0; j*c14Nibble < bitsTotal; j++ {
		smulg("raw", natLE(two(j*c14Nibble), sl), pickM())
		var around []int
		if c.Thorough() {
			around = []int{j*c14Nibble + 1, j*c14Nibble + 2, j*c14Nibble + 3}
		} else if r.IntN(4) == 0 {
			around = []int{j*c14Nibble + 1 + r.IntN(3)}
		}
		for _, e := range around {
			smulg("raw", natLE(two(e), sl), pickM())
		}
		if k := two(j * c14Nibble); k.Cmp(order) < 0 && (c.Thorough() || j%4 == int(stream)%4) {
			smulg("pub", natLE(k, sl), pickM())
			if g.baseMul != nil {
				smulg("base", natLE(k, sl), one)
			}
			if g.auSmul != nil {
				smulg("au", natLE(k, sl), pickM())
			}
		}
	}
	// (c) every window holds the same digit d (d = 15: the maximal digit everywhere, a scalar >= order)
	for d := 1; d < 1<<c14Nibble; d++ {
		le := make([]byte, sl)
		for i := range le {
			le[i] = byte(d<<4 | d)
		}
		smulg("raw", le, pickM())
		red := new(big.Int).Mod(leToBig(le), order)
		if c.Thorough() || d%5 == int(stream)%5 {
			smulg("pub", natLE(red, sl), pickM())
			if g.auSmul != nil {
				smulg("au", le, pickM()) // unreduced: algebrautils takes any byte string
			}
		}
	}
	// (d) the maximal digit in exactly one window, both nibbles of a byte, alternating digits
	for i := 0; i < 6; i++ {
		j := r.IntN(2 * sl)
		smulg("raw", natLE(new(big.Int).Lsh(big.NewInt(15), uint(4*j)), sl), pickM())
	}
	for _, pat := range []byte{0xf0, 0x0f, 0x5a, 0xa5, 0x80, 0x01, 0x10, 0x08} {
		le := make([]byte, sl)
		for i := range le {
			le[i] = pat
		}
		smulg("raw", le, pickM())
	}
	// (e) scalars at and beyond the group order, byte strings of other lengths (empty, 1, sl±1, longer)
	ord2 := new(big.Int).Lsh(order, 1)
	for _, k := range []*big.Int{big.NewInt(0), one, nm1, order, new(big.Int).Add(order, one), new(big.Int).Sub(ord2, one), ord2,
		new(big.Int).Sub(two(8*sl), one)} {
		if k.BitLen() <= 8*sl {
			smulg("raw", natLE(k, sl), pickM())
		}
		smulg("raw", natLE(k, sl+1), pickM())
		if g.auSmul != nil {
			smulg("au", natLE(k, sl+1), pickM())
		}
	}
	for _, l := range []int{0, 1, 2, sl - 1, sl + 1, sl + 8} {
		le := make([]byte, l)
		_, _ = r.Read(le)
		smulg("raw", le, pickM())
		if l > 0 {
			ff := make([]byte, l)
			for i := range ff {
				ff[i] = 0xff
			}
			smulg("raw", ff, pickM())
		}
		if g.auSmul != nil {
			smulg("au", le, pickM())
		}
	}
	// (f) arbitrary points (identity, small order, outside the prime subgroup) through the raw ladder
	arb := []P{g.id, g.gen, g.neg(g.gen)}
	for _, t := range g.extra {
		arb = append(arb, t, g.add(g.gen, t))
	}
	for _, p := range arb {
		for _, le := range [][]byte{natLE(nm1, sl), natLE(order, sl), natLE(two(4*(1+r.IntN(2*sl-1))), sl), {0xff, 0xff}, {}} {
			c.Count(cn + ".smulrawb")
			c.Emit(fmt.Sprintf("smulrawb %s %s %s", cn, leBytesHex(le), g.str(p)), safely(func() string { return g.str(g.smulRaw(p, le)) }))
		}
	}

	// ================= multi-scalar multiplication
	if g.msm == nil {
		return
	}
	type cached struct {
		key string
		pts []P
	}
	var cache []cached
	points := func(a, b *big.Int, n int) (c14PSpec, []P) {
		ps := psAffine(a, b, order)
		key := fmt.Sprintf("%s/%d", ps.str, n)
		for _, e := range cache {
			if e.key == key {
				return ps, e.pts
			}
		}
		pts := c14AffinePoints(g, a, b, n)
		if len(cache) > 3 {
			cache = cache[1:]
		}
		cache = append(cache, cached{key, pts})
		return ps, pts
	}
	rawMod := two(8 * (sl + 1)) // raw scalars of sl+1 bytes: most are >= order

	for _, n := range c14MsmLengths(maxK) {
		// sparse plans: every length up to 16, the first length whose windows straddle three bytes
		// (w = 11), and a seed-dependent third of the others
		if plan.fullAt != nil && n > 16 && n != 1<<10 && rs.IntN(3) != 0 {
			continue
		}
		cache = nil
		w := c14Width(n)
		nw := (8*sl + w - 1) / w
		big1 := big.NewInt(1)
		long := !plan.full(n)
		if n == 0 {
			fmt.Fprintf(c.Out, "#TRIVIAL\n")
			ps, pts := points(big1, big1, 0)
			g.runMsmg(c, "pub", 0, ps, pts, ssList(sl, nil))
			fmt.Fprintf(c.Out, "#TRIVIAL\n")
			g.runMsmg(c, "raw", 0, ps, pts, ssBytes(nil))
			continue
		}
		// --- points (i+1)·G
		psLin, ptsLin := points(big1, big1, n)
		// 1. full-size pseudo-random scalars (every window of every scalar populated)
		// 2. one set bit per scalar, cycling through every bit position below the order's top bit
		// R. raw path with scalars >= order and one more byte (numWindows changes)
		a, b := r.BigBelow(order), r.BigBelow(order)
		only := -1
		if plan.hugeFrom > 0 && n >= plan.hugeFrom {
			only = r.IntN(3)
		}
		if only < 0 || only == 0 {
			g.runMsmg(c, "pub", n, psLin, ptsLin, ssAffine(sl, a, b, order, n))
		}
		if only < 0 || only == 1 {
			g.runMsmg(c, "pub", n, psLin, ptsLin, ssBits(sl, order.BitLen()-1, n))
		}
		if long {
			if only == 2 || (only < 0 && (plan.fullAt == nil || r.IntN(2) == 0)) {
				g.runMsmg(c, "raw", n, psLin, ptsLin, ssAffine(sl+1, r.BigBelow(rawMod), r.BigBelow(rawMod), rawMod, n))
			}
			continue
		}
		// --- points descending through the identity: m_i = n/2 - i (negatives, cancelling pairs)
		psDesc, ptsDesc := points(nm1, big.NewInt(int64(n/2)), n)
		// 3. a single non-zero scalar at the first / last index: the top bit of a random window, a
		//    window boundary, a byte boundary, a full-size scalar
		j := r.IntN(nw)
		topBit := j*w + w - 1
		if topBit >= order.BitLen()-1 {
			topBit = order.BitLen() - 2
		}
		g.runMsmg(c, "pub", n, psLin, ptsLin, ssSparse(sl, big.NewInt(0), []int{0}, []*big.Int{two(topBit)}, n))
		g.runMsmg(c, "pub", n, psDesc, ptsDesc, ssSparse(sl, big.NewInt(0), []int{n - 1}, []*big.Int{two(min((1+r.IntN(nw-1))*w, order.BitLen()-2))}, n))
		g.runMsmg(c, "pub", n, psLin, ptsLin, ssSparse(sl, big.NewInt(0), []int{0, n - 1}, []*big.Int{r.BigBelow(order), two(8 * (1 + r.IntN(sl-1)))}, n))
		// 4. all scalars equal: order-1 (all buckets of a window coincide), n-1, 1
		g.runMsmg(c, "pub", n, psDesc, ptsDesc, ssAll(sl, nm1, n))
		g.runMsmg(c, "pub", n, psLin, ptsLin, ssAll(sl, big.NewInt(int64(n-1)), n))
		// 5. all points equal (every bucket accumulates multiples of one point; doubling inside Add)
		psSame, ptsSame := points(big.NewInt(0), big.NewInt(int64(2+r.IntN(50))), n)
		g.runMsmg(c, "pub", n, psSame, ptsSame, ssAffine(sl, r.BigBelow(order), r.BigBelow(order), order, n))
		// 6. small scalars (< n): only the lowest window(s) populated
		g.runMsmg(c, "pub", n, psDesc, ptsDesc, ssAffine(sl, big1, big.NewInt(0), big.NewInt(int64(n)), n))
		if n <= 1<<10 {
			fmt.Fprintf(c.Out, "#TRIVIAL\n")
			g.runMsmg(c, "pub", n, psLin, ptsLin, ssAll(sl, big.NewInt(0), n))
		}
		// --- raw byte strings: scalars >= order, lengths 1, sl+1; all-ones; empty strings
		g.runMsmg(c, "raw", n, psLin, ptsLin, ssAffine(sl+1, r.BigBelow(rawMod), r.BigBelow(rawMod), rawMod, n))
		g.runMsmg(c, "raw", n, psDesc, ptsDesc, ssAll(sl+1, new(big.Int).Sub(rawMod, one), n))
		g.runMsmg(c, "raw", n, psLin, ptsLin, ssAffine(1, big.NewInt(int64(1+2*r.IntN(100))), big.NewInt(int64(r.IntN(256))), big.NewInt(256), n))
		g.runMsmg(c, "raw", n, psLin, ptsLin, ssAffine(3, r.BigBelow(two(24)), r.BigBelow(two(24)), two(24), n))
		if n <= 1<<10 {
			// heterogeneous lengths incl. empty strings (maxBits comes from the longest)
			bs := make([][]byte, n)
			for i := range bs {
				l := []int{0, 1, 2, 5, sl, sl + 1, sl + 3}[r.IntN(7)]
				if r.IntN(4) != 0 {
					l = r.IntN(4)
				}
				bs[i] = make([]byte, l)
				_, _ = r.Read(bs[i])
			}
			g.runMsmg(c, "raw", n, psDesc, ptsDesc, ssBytes(bs))
			fmt.Fprintf(c.Out, "#TRIVIAL\n")
			g.runMsmg(c, "raw", n, psLin, ptsLin, ssBytes(make([][]byte, n))) // all empty: maxBits == 0
		}
		// --- the generic twin in algebrautils (big-endian bytes, any monoid)
		if g.auMsm != nil {
			g.runMsmg(c, "au", n, psLin, ptsLin, ssAffine(sl, r.BigBelow(order), r.BigBelow(order), order, n))
			g.runMsmg(c, "au", n, psDesc, ptsDesc, ssBits(sl+1, 8*(sl+1), n))
			g.runMsmg(c, "au", n, psLin, ptsLin, ssSparse(sl, big.NewInt(0), []int{n - 1}, []*big.Int{two(topBit)}, n))
		}
	}

	// explicit points (identity, small order, repeated) through the raw low-level function
	rawLens := []int{1, 3, 7, 8, 9, 16}
	if c.Thorough() {
		rawLens = append(rawLens, 17, 33)
	}
	for _, n := range rawLens {
		pool := []P{g.id, g.gen, g.neg(g.gen), g.dbl(g.gen)}
		for _, t := range g.extra {
			pool = append(pool, t, g.add(g.gen, t))
		}
		pts := make([]P, n)
		bs := make([][]byte, n)
		strs := make([]string, n)
		for i := range pts {
			pts[i] = pool[r.IntN(len(pool))]
			if r.IntN(3) == 0 {
				pts[i] = g.smul(g.gen, r.BigBelow(order))
			}
			strs[i] = g.str(pts[i])
			bs[i] = make([]byte, []int{0, 1, 2, sl, sl + 1}[r.IntN(5)])
			_, _ = r.Read(bs[i])
		}
		ss := ssBytes(bs)
		c.Count(cn + ".msmrawb")
		c.Emit(fmt.Sprintf("msmrawb %s %s %s", cn, strings.TrimPrefix(ss.str, "b:"), joinComma(strs)),
			safely(func() string { return g.str(g.msmRaw(bs, pts)) }))
	}
}
