package main

import (
	"crypto/sha256"
	"crypto/sha512"
	"encoding/binary"
	"fmt"
	"hash"
	"io"
	"slices"

	"golang.org/x/crypto/blake2b"

	"github.com/bronlabs/bron-crypto/pkg/base/algebra"
	"github.com/bronlabs/bron-crypto/pkg/base/curves"
	"github.com/bronlabs/bron-crypto/pkg/mpc/session"
	"github.com/bronlabs/bron-crypto/pkg/network"
	"github.com/bronlabs/bron-crypto/pkg/ot"
	"github.com/bronlabs/bron-crypto/pkg/ot/base/ecbbot"
	"github.com/bronlabs/bron-crypto/pkg/ot/base/vsot"
	"github.com/bronlabs/bron-crypto/pkg/ot/extension/softspoken"
)

// otLine renders sender/receiver outputs: "ok:<send0>|<send1>|<recv>", each flattened over [i][l].
func otLineScalars[S algebra.PrimeFieldElement[S]](so [][2][]S, ro [][]S) string {
	var s0, s1, rv []string
	for i := range so {
		for l := range so[i][0] {
			s0 = append(s0, scalarHex(so[i][0][l]))
		}
		for l := range so[i][1] {
			s1 = append(s1, scalarHex(so[i][1][l]))
		}
	}
	for i := range ro {
		for l := range ro[i] {
			rv = append(rv, scalarHex(ro[i][l]))
		}
	}
	return "ok:" + joinComma(s0) + "|" + joinComma(s1) + "|" + joinComma(rv)
}

func otLineBytes(so [][2][][]byte, ro [][][]byte) string {
	var s0, s1, rv []string
	for i := range so {
		for l := range so[i][0] {
			s0 = append(s0, hexBytes(so[i][0][l]))
		}
		for l := range so[i][1] {
			s1 = append(s1, hexBytes(so[i][1][l]))
		}
	}
	for i := range ro {
		for l := range ro[i] {
			rv = append(rv, hexBytes(ro[i][l]))
		}
	}
	return "ok:" + joinComma(s0) + "|" + joinComma(s1) + "|" + joinComma(rv)
}

// ---------------------------------------------------------------------------------------------
// base OTs

func c09BaseOTs(c *Ctx) {
	jobs := []func(*Ctx){
		func(c *Ctx) { c09BaseOTsCurve(c, "k256", cK256, 1) },
		func(c *Ctx) { c09BaseOTsCurve(c, "p256", cP256, 2) },
		func(c *Ctx) { c09BaseOTsCurve(c, "ed25519", cEd25519, 3) },
	}
	if c.Thorough() {
		jobs = append(jobs,
			func(c *Ctx) { c09BaseOTsCurve(c, "pallas", cPallas, 4) },
			func(c *Ctx) { c09BaseOTsCurve(c, "bls12381g1", cBLSG1, 5) })
	}
	c09Parallel(c, jobs)
}

type c09Cfg struct{ xi, l int }

func c09BaseOTsCurve[P curves.Point[P, F, S], F algebra.FiniteFieldElement[F], S algebra.PrimeFieldElement[S]](c *Ctx, name string, curve curves.Curve[P, F, S], stream uint64) {
	r := NewRng(c.Seed, 9100+stream)
	cfgs := []c09Cfg{{8, 1}, {8, 2}, {16, 1}}
	if c.Thorough() {
		cfgs = []c09Cfg{{8, 1}, {8, 2}, {8, 3}, {16, 1}, {16, 2}, {24, 1}, {32, 1}, {64, 1}, {128, 1}}
	}
	for ci, cfg := range cfgs {
		for kind := 0; kind < 5; kind++ {
			if !c.Thorough() && ci > 0 && kind != 2 && kind != (ci%2) {
				continue
			}
			choices := c09Choices(r, kind, cfg.xi)
			c.Count("ecbbot." + c09ChoiceKind[kind])
			res := c09Guard(c, "ecbbot "+name, func() string {
				so, ro, st := c09RunEcbbot(curve, r, cfg, choices)
				if st != "ok" {
					return st
				}
				// the byte-string form handed to the extension must keep the correlation
				sb, err1 := so.ToBitsOutput(32, []byte("C09-ecbbot-bits-key"))
				rb, err2 := ro.ToBitsOutput(32, []byte("C09-ecbbot-bits-key"))
				if err1 != nil || err2 != nil {
					return "err:tobits"
				}
				c.Emit(fmt.Sprintf("ot ecbbot-bits %s %d %d %s", name, cfg.xi, cfg.l, bitsStr(rb.Choices, cfg.xi)), otLineBytes(sb.Messages, rb.Messages))
				return otLineScalars(so.Messages, ro.Messages)
			})
			c.Emit(fmt.Sprintf("ot ecbbot %s %d %d %s", name, cfg.xi, cfg.l, bitsStr(choices, cfg.xi)), res)

			c.Count("vsot." + c09ChoiceKind[kind])
			hf, hname := sha256.New, "sha256"
			if kind == 3 {
				hf, hname = sha512.New, "sha512"
			}
			sess := newC09Sess(r)
			seed := r.Uint64()
			res = c09Guard(c, "vsot "+name, func() string {
				so, ro, st := c09RunVsot(curve, hf, sess, seed, cfg, choices, nil)
				if st != "ok" {
					return st
				}
				return otLineBytes(so.Messages, ro.Messages)
			})
			c.Emit(fmt.Sprintf("ot vsot-%s %s %d %d %s", hname, name, cfg.xi, cfg.l, bitsStr(choices, cfg.xi)), res)

			// fault part: every message field that feeds a consistency check, one alteration per run
			if ci == 0 || (c.Thorough() && ci < 4) {
				n := cfg.xi * cfg.l
				var faults []vsotFault
				for _, f := range []string{"r1.BigB", "r1.Proof"} {
					faults = append(faults, vsotFault{f, 0, r.IntN(1 << 16)})
				}
				for _, f := range []string{"r2.BigA", "r3.Xi", "r4.RhoPrime", "r5.Rho0Digest", "r5.Rho1Digest"} {
					idxs := []int{0, n - 1, r.IntN(n)}
					if c.Thorough() {
						idxs = nil
						for i := 0; i < n; i++ {
							idxs = append(idxs, i)
						}
					}
					for _, idx := range idxs {
						faults = append(faults, vsotFault{f, idx, r.IntN(1 << 16)})
					}
				}
				for _, f := range faults {
					f := f
					c.Count("vsot.fault." + f.field)
					res := c09Guard(c, "vsot fault "+name, func() string {
						_, _, st := c09RunVsot(curve, hf, sess, seed, cfg, choices, &f)
						if st == "ok" {
							return "completed"
						}
						return st
					})
					if res == "completed" {
						c.Violation(fmt.Sprintf("vsot %s xi=%d l=%d choices=%s altered %s[%d] accepted", name, cfg.xi, cfg.l, bitsStr(choices, cfg.xi), f.field, f.idx))
					}
					c.Emit(fmt.Sprintf("fault vsot %s %d %d %s %s[%d]^%x", name, cfg.xi, cfg.l, bitsStr(choices, cfg.xi), f.field, f.idx, f.bit), res)
				}
			}
		}
	}
}

func c09RunEcbbot[P curves.Point[P, F, S], F algebra.FiniteFieldElement[F], S algebra.PrimeFieldElement[S]](curve curves.Curve[P, F, S], r *Rng, cfg c09Cfg, choices []byte) (*ecbbot.SenderOutput[S], *ecbbot.ReceiverOutput[S], string) {
	suite, err := ecbbot.NewSuite(cfg.xi, cfg.l, curve)
	if err != nil {
		return nil, nil, "err:suite"
	}
	c1, c2 := newC09Sess(r).ctxs()
	sender, err := ecbbot.NewSender(c1, suite, r)
	if err != nil {
		return nil, nil, "err:new"
	}
	receiver, err := ecbbot.NewReceiver(c2, suite, r)
	if err != nil {
		return nil, nil, "err:new"
	}
	r1, err := sender.Round1()
	if err != nil {
		return nil, nil, c09ErrClass(err) + "@1"
	}
	r2, ro, err := receiver.Round2(r1, slices.Clone(choices))
	if err != nil {
		return nil, nil, c09ErrClass(err) + "@2"
	}
	so, err := sender.Round3(r2)
	if err != nil {
		return nil, nil, c09ErrClass(err) + "@3"
	}
	return so, ro, "ok"
}

type vsotFault struct {
	field string
	idx   int
	bit   int
}

func flipBit(b []byte, k int) []byte {
	out := slices.Clone(b)
	k %= len(out) * 8
	out[k/8] ^= 1 << (k % 8)
	return out
}

func c09RunVsot[P curves.Point[P, F, S], F algebra.FiniteFieldElement[F], S algebra.PrimeFieldElement[S]](curve curves.Curve[P, F, S], hf func() hash.Hash, sess *c09Sess, seed uint64, cfg c09Cfg, choices []byte, f *vsotFault) (*vsot.SenderOutput, *vsot.ReceiverOutput, string) {
	suite, err := vsot.NewSuite(cfg.xi, cfg.l, curve, hf)
	if err != nil {
		return nil, nil, "err:suite"
	}
	c1, c2 := sess.ctxs()
	rs, rr := NewRng(int64(seed), 1), NewRng(int64(seed), 2)
	sender, err := vsot.NewSender(c1, suite, rs)
	if err != nil {
		return nil, nil, "err:new"
	}
	receiver, err := vsot.NewReceiver(c2, suite, rr)
	if err != nil {
		return nil, nil, "err:new"
	}
	is := func(name string) bool { return f != nil && f.field == name }
	r1, err := sender.Round1()
	if err != nil {
		return nil, nil, c09ErrClass(err) + "@1"
	}
	if is("r1.BigB") {
		r1.BigB = r1.BigB.Add(curve.Generator())
	}
	if is("r1.Proof") {
		r1.Proof = flipBit(r1.Proof, f.bit)
	}
	r2, ro, err := receiver.Round2(r1, slices.Clone(choices))
	if err != nil {
		return nil, nil, c09ErrClass(err) + "@2"
	}
	if is("r2.BigA") {
		r2.BigA = slices.Clone(r2.BigA)
		r2.BigA[f.idx] = r2.BigA[f.idx].Add(curve.Generator())
	}
	r3, so, err := sender.Round3(r2)
	if err != nil {
		return nil, nil, c09ErrClass(err) + "@3"
	}
	if is("r3.Xi") {
		r3.Xi[f.idx] = flipBit(r3.Xi[f.idx], f.bit)
	}
	r4, err := receiver.Round4(r3)
	if err != nil {
		return nil, nil, c09ErrClass(err) + "@4"
	}
	if is("r4.RhoPrime") {
		r4.RhoPrime[f.idx] = flipBit(r4.RhoPrime[f.idx], f.bit)
	}
	r5, err := sender.Round5(r4)
	if err != nil {
		return nil, nil, c09ErrClass(err) + "@5"
	}
	if is("r5.Rho0Digest") {
		r5.Rho0Digest = slices.Clone(r5.Rho0Digest)
		r5.Rho0Digest[f.idx] = flipBit(r5.Rho0Digest[f.idx], f.bit)
	}
	if is("r5.Rho1Digest") {
		r5.Rho1Digest = slices.Clone(r5.Rho1Digest)
		r5.Rho1Digest[f.idx] = flipBit(r5.Rho1Digest[f.idx], f.bit)
	}
	if err := receiver.Round6(r5); err != nil {
		return nil, nil, c09ErrClass(err) + "@6"
	}
	return so, ro, "ok"
}

// ---------------------------------------------------------------------------------------------
// SoftSpoken extension

// labels of pkg/ot/extension/softspoken (unexported there); a drift shows up as a model/impl DIFF
const (
	ssExpansionMaskLabel = "BRON_CRYPTO_SOFTSPOKEN_OT_EXPANSION_MASK-"
	ssChallengeLabel     = "OTe_challenge_Chi"
)

// c09Expand is the PRG of the extension (participant.expand), recomputed here so that the Lean
// model can be given the expanded rows t0, t1, tb as inputs.
func c09Expand(sid network.SID, outLen, idx int, message []byte, choice int) []byte {
	xof, err := blake2b.NewXOF(blake2b.OutputLengthUnknown, sid[:])
	if err != nil {
		panic(err)
	}
	_, _ = xof.Write(slices.Concat(binary.LittleEndian.AppendUint64(nil, uint64(idx)), binary.LittleEndian.AppendUint64(nil, uint64(choice)), message))
	out := make([]byte, outLen)
	if _, err := io.ReadFull(xof, out); err != nil {
		panic(err)
	}
	return out
}

// random consistent seed OTs (as the package's own tests build them)
func c09RandomSeeds(r *Rng, msgLen int) (*vsot.SenderOutput, *vsot.ReceiverOutput) {
	rs := &vsot.ReceiverOutput{ReceiverOutput: ot.ReceiverOutput[[]byte]{Choices: make([]byte, softspoken.Kappa/8), Messages: make([][][]byte, softspoken.Kappa)}}
	ss := &vsot.SenderOutput{SenderOutput: ot.SenderOutput[[]byte]{Messages: make([][2][][]byte, softspoken.Kappa)}}
	_, _ = r.Read(rs.Choices)
	for i := range softspoken.Kappa {
		m0, m1 := make([]byte, msgLen), make([]byte, msgLen)
		_, _ = r.Read(m0)
		_, _ = r.Read(m1)
		ss.Messages[i][0] = [][]byte{m0}
		ss.Messages[i][1] = [][]byte{m1}
		rs.Messages[i] = [][]byte{ss.Messages[i][(rs.Choices[i/8]>>(i%8))&1][0]}
	}
	return ss, rs
}

func c09Softspoken(c *Ctx) {
	r := NewRng(c.Seed, 9200)
	cfgs := []c09Cfg{{128, 1}, {64, 2}, {8, 16}, {256, 1}}
	if c.Thorough() {
		cfgs = []c09Cfg{{128, 1}, {64, 2}, {32, 4}, {16, 8}, {8, 16}, {256, 1}, {128, 2}, {128, 3}, {384, 1}, {512, 1}, {24, 16}, {1024, 1}}
	}
	for ci, cfg := range cfgs {
		for kind := 0; kind < 5; kind++ {
			if !c.Thorough() && ci > 0 && kind != 2 && kind != (ci%2) {
				continue
			}
			choices := c09Choices(r, kind, cfg.xi)
			hf, hname := sha256.New, "sha256"
			if kind == 3 {
				hf, hname = sha512.New, "sha512"
			}
			// seed OTs: random consistent seeds, a real vsot run, or a real ecbbot run hashed to bytes
			var ss *vsot.SenderOutput
			var rs *vsot.ReceiverOutput
			src := "random"
			switch (ci + kind) % 3 {
			case 1:
				src = "vsot"
				baseChoices := c09Choices(r, 2, softspoken.Kappa)
				c09Guard(c, "softspoken seeds(vsot)", func() string {
					so, ro, st := c09RunVsot(cK256, sha256.New, newC09Sess(r), r.Uint64(), c09Cfg{softspoken.Kappa, 1}, baseChoices, nil)
					if st == "ok" {
						ss, rs = so, ro
					}
					return st
				})
			case 2:
				src = "ecbbot"
				baseChoices := c09Choices(r, 2, softspoken.Kappa)
				c09Guard(c, "softspoken seeds(ecbbot)", func() string {
					so, ro, st := c09RunEcbbot(cK256, r, c09Cfg{softspoken.Kappa, 1}, baseChoices)
					if st == "ok" {
						sb, err1 := so.ToBitsOutput(32, []byte("C09-ecbbot-bits-key"))
						rb, err2 := ro.ToBitsOutput(32, []byte("C09-ecbbot-bits-key"))
						if err1 == nil && err2 == nil {
							ss, rs = sb, rb
						}
					}
					return st
				})
			}
			if ss == nil {
				if src != "random" {
					c.Violation("softspoken seed OT (" + src + ") did not complete")
					continue
				}
				ss, rs = c09RandomSeeds(r, 16+r.IntN(33))
			}
			c.Count("softspoken.seeds." + src)
			c.Count("softspoken." + c09ChoiceKind[kind])
			c09SoftspokenRun(c, r, cfg, hf, hname, ss, rs, choices, ci == 0 || c.Thorough())
		}
	}
}

type ssFault struct {
	field string // X | T | U
	idx   int
	bit   int
}

func c09SoftspokenRun(c *Ctx, r *Rng, cfg c09Cfg, hf func() hash.Hash, hname string, ss *vsot.SenderOutput, rs *vsot.ReceiverOutput, choices []byte, deep bool) {
	suite, err := softspoken.NewSuite(cfg.xi, cfg.l, hf)
	if err != nil {
		c.Violation(fmt.Sprintf("softspoken.NewSuite(%d,%d) rejected an allowed size", cfg.xi, cfg.l))
		return
	}
	sess := newC09Sess(r)
	cR, cS := sess.ctxs()
	sid := cR.SessionID()
	eta := cfg.xi * cfg.l
	etaPrimeBytes := eta/8 + softspoken.SigmaBytes
	m := eta / softspoken.Sigma
	delta := rs.Choices
	cfgStr := fmt.Sprintf("%d %d", cfg.xi, cfg.l)

	var r1 *softspoken.Round1P2P
	var ro *softspoken.ReceiverOutput
	st := c09Guard(c, "softspoken receiver", func() string {
		receiver, err := softspoken.NewReceiver(cR, ss, suite, r)
		if err != nil {
			return "err:new"
		}
		r1, ro, err = receiver.Round1(slices.Clone(choices))
		return c09ErrClass(err)
	})
	if st != "ok" {
		c.Emit(fmt.Sprintf("ot softspoken-%s - %s %s", hname, cfgStr, bitsStr(choices, cfg.xi)), st+"@1")
		return
	}

	// sender on the unaltered message
	runSender := func(msg *softspoken.Round1P2P) (*softspoken.SenderOutput, []string, string) {
		_, cS2 := sess.ctxs()
		var so *softspoken.SenderOutput
		var chi []string
		st := safely(func() string {
			sender, err := softspoken.NewSender(cS2, rs, suite, r)
			if err != nil {
				return "err:new"
			}
			// the Fiat–Shamir challenge the sender will derive (same transcript operations)
			tr := cS2.Transcript().Clone()
			for i := range softspoken.Kappa {
				tr.AppendBytes(ssExpansionMaskLabel, msg.U[i])
			}
			for range m {
				b, err := tr.ExtractBytes(ssChallengeLabel, softspoken.SigmaBytes)
				if err != nil {
					return "err:chi"
				}
				chi = append(chi, hexBytes(b))
			}
			so, err = sender.Round2(msg)
			return c09ErrClass(err)
		})
		return so, chi, st
	}
	_ = cS
	so, chi, st := runSender(r1)
	if st != "ok" {
		c.Emit(fmt.Sprintf("ot softspoken-%s - %s %s", hname, cfgStr, bitsStr(choices, cfg.xi)), st+"@2")
	} else {
		c.Emit(fmt.Sprintf("ot softspoken-%s - %s %s", hname, cfgStr, bitsStr(choices, cfg.xi)), otLineBytes(so.Messages, ro.Messages))
	}
	if !deep {
		return
	}

	// expanded rows
	t0, t1, tb := make([][]byte, softspoken.Kappa), make([][]byte, softspoken.Kappa), make([][]byte, softspoken.Kappa)
	for i := range softspoken.Kappa {
		t0[i] = c09Expand(sid, etaPrimeBytes, i, ss.Messages[i][0][0], 0)
		t1[i] = c09Expand(sid, etaPrimeBytes, i, ss.Messages[i][1][0], 1)
		tb[i] = c09Expand(sid, etaPrimeBytes, i, rs.Messages[i][0], int(delta[i/8]>>(i%8)&1))
	}
	// sigma bits = tail of x' = u_0 ^ t0_0 ^ t1_0
	sigmaBits := make([]byte, softspoken.SigmaBytes)
	for k := range sigmaBits {
		p := eta/8 + k
		sigmaBits[k] = r1.U[0][p] ^ t0[0][p] ^ t1[0][p]
	}
	respStr := func(msg *softspoken.Round1P2P) string {
		ts := make([][]byte, softspoken.Kappa)
		for i := range ts {
			ts[i] = msg.ChallengeResponse.T[i][:]
		}
		return hexBytes(msg.ChallengeResponse.X[:]) + " " + bytesListHex(ts)
	}
	tsHonest := make([][]byte, softspoken.Kappa)
	for i := range tsHonest {
		tsHonest[i] = r1.ChallengeResponse.T[i][:]
	}
	c.Count("softspoken.ssrecv")
	c.Emit(fmt.Sprintf("ssrecv %s %s %s %s %s %s", cfgStr, bitsStr(choices, cfg.xi), hexBytes(sigmaBits), joinComma(chi), bytesListHex(t0), bytesListHex(t1)),
		bytesListHex(r1.U[:])+";"+hexBytes(r1.ChallengeResponse.X[:])+";"+bytesListHex(tsHonest))
	c.Count("softspoken.sssend.honest")
	c.Emit(fmt.Sprintf("sssend %s %s %s %s %s %s", cfgStr, bitsStr(delta, softspoken.Kappa), bytesListHex(tb), joinComma(chi), bytesListHex(r1.U[:]), respStr(r1)), st)

	// fault part: every single field of the message (X, each T[i], each U[i]) altered in one bit
	var faults []ssFault
	faults = append(faults, ssFault{"X", 0, r.IntN(128)}, ssFault{"X", 0, r.IntN(128)})
	for i := range softspoken.Kappa {
		if c.Thorough() || i%16 == int(r.IntN(16)) || i == 0 || i == softspoken.Kappa-1 {
			faults = append(faults, ssFault{"T", i, r.IntN(128)})
			faults = append(faults, ssFault{"U", i, r.IntN(etaPrimeBytes * 8)})
		}
	}
	for _, f := range faults {
		msg := &softspoken.Round1P2P{ChallengeResponse: r1.ChallengeResponse}
		for i := range softspoken.Kappa {
			msg.U[i] = slices.Clone(r1.U[i])
		}
		switch f.field {
		case "X":
			msg.ChallengeResponse.X[f.bit/8] ^= 1 << (f.bit % 8)
		case "T":
			msg.ChallengeResponse.T[f.idx][f.bit/8] ^= 1 << (f.bit % 8)
		case "U":
			msg.U[f.idx][f.bit/8] ^= 1 << (f.bit % 8)
		}
		c.Count("softspoken.fault." + f.field)
		var chiF []string
		res := c09Guard(c, "softspoken fault", func() string {
			var st string
			_, chiF, st = runSender(msg)
			return st
		})
		if res == "ok" {
			c.Violation(fmt.Sprintf("softspoken xi=%d l=%d altered %s[%d] bit %d accepted", cfg.xi, cfg.l, f.field, f.idx, f.bit))
		}
		c.Emit(fmt.Sprintf("sssend %s %s %s %s %s %s", cfgStr, bitsStr(delta, softspoken.Kappa), bytesListHex(tb), joinComma(chiF), bytesListHex(msg.U[:]), respStr(msg)), res)
	}
}

var _ = session.NewContext
