package main

import (
	"fmt"
	"math/big"

	"github.com/bronlabs/bron-crypto/pkg/base/algebra"
	fieldsImpl "github.com/bronlabs/bron-crypto/pkg/base/algebra/impl/fields"
	edwards25519Impl "github.com/bronlabs/bron-crypto/pkg/base/curves/edwards25519/impl"
	k256Impl "github.com/bronlabs/bron-crypto/pkg/base/curves/k256/impl"
	p256Impl "github.com/bronlabs/bron-crypto/pkg/base/curves/p256/impl"
	bls12381Impl "github.com/bronlabs/bron-crypto/pkg/base/curves/pairable/bls12381/impl"
	pastaImpl "github.com/bronlabs/bron-crypto/pkg/base/curves/pasta/impl"
)

func c14Fields(c *Ctx, q int) {
	c14PrimeField[*k256Impl.Fp](c, "k256.Fp", 21, q)
	c14PrimeField[*k256Impl.Fq](c, "k256.Fq", 22, q)
	c14PrimeField[*p256Impl.Fp](c, "p256.Fp", 23, q)
	c14PrimeField[*p256Impl.Fq](c, "p256.Fq", 24, q)
	c14PrimeField[*edwards25519Impl.Fp](c, "ed25519.Fp", 25, q)
	c14PrimeField[*edwards25519Impl.Fq](c, "ed25519.Fq", 26, q)
	c14PrimeField[*pastaImpl.Fp](c, "pasta.Fp", 27, q)
	c14PrimeField[*pastaImpl.Fq](c, "pasta.Fq", 28, q)
	c14PrimeField[*bls12381Impl.Fp](c, "bls12381.Fp", 29, q)
	c14PrimeField[*bls12381Impl.Fq](c, "bls12381.Fq", 30, q)
	c14Fp2(c, 31, q)
	c14PubField(c, "pub.k256.Fq", fK256, 32, q)
	c14PubField(c, "pub.p256.Fq", fP256, 33, q)
	c14PubField(c, "pub.ed25519.Fq", fEd25519, 34, q)
	c14PubField(c, "pub.pallas.Fq", fPallas, 35, q)
	c14PubField(c, "pub.bls12381.Fq", fBLS, 36, q)
}

func feFromBig[FP fieldsImpl.PrimeFieldElementPtr[FP, F], F any](v *big.Int) *F {
	var x F
	size := len(FP(&x).Bytes())
	if ok := FP(&x).SetBytes(bigLE(v, size)[:size]); ok == 0 {
		panic("feFromBig: SetBytes rejected a canonical value")
	}
	return &x
}

func feBig[FP fieldsImpl.PrimeFieldElementPtr[FP, F], F any](x *F) *big.Int {
	v, _ := new(big.Int).SetString(leHex(FP(x).Bytes()), 16)
	return v
}

func c14FieldValue(r *Rng, p *big.Int) *big.Int {
	one := big.NewInt(1)
	switch r.IntN(14) {
	case 0:
		return big.NewInt(0)
	case 1:
		return big.NewInt(1)
	case 2:
		return new(big.Int).Sub(p, one)
	case 3:
		return big.NewInt(2)
	case 4:
		return new(big.Int).Rsh(p, 1)
	case 5:
		return new(big.Int).Add(new(big.Int).Rsh(p, 1), one)
	case 6:
		return big.NewInt(int64(r.IntN(1 << 20)))
	case 7:
		return new(big.Int).Sub(p, big.NewInt(int64(1+r.IntN(1<<20))))
	case 8: // 2^k and 2^k - 1: limb boundaries
		k := uint(r.IntN(p.BitLen()))
		v := new(big.Int).Lsh(one, k)
		if r.IntN(2) == 0 {
			v.Sub(v, one)
		}
		return v.Mod(v, p)
	default:
		return r.BigBelow(p)
	}
}

func c14PrimeField[FP fieldsImpl.PrimeFieldElementPtr[FP, F], F any](c *Ctx, tag string, stream uint64, q int) {
	r := NewRng(c.Seed, 1400+stream)
	var m1 F
	FP(&m1).SetOne()
	FP(&m1).Neg(&m1)
	p := new(big.Int).Add(feBig[FP](&m1), big.NewInt(1))
	ph := hexNat(p)
	size := len(FP(&m1).Bytes())
	for i := 0; i < 25*q; i++ {
		av, bv := c14FieldValue(r, p), c14FieldValue(r, p)
		a, b := feFromBig[FP, F](av), feFromBig[FP, F](bv)
		ah, bh := hexNat(av), hexNat(bv)
		h := func(x *F) string { return hexNat(feBig[FP](x)) }
		var o F
		c.Emit(fmt.Sprintf("fadd %s %s %s %s", tag, ph, ah, bh), safely(func() string { FP(&o).Add(a, b); return h(&o) }))
		c.Emit(fmt.Sprintf("fsub %s %s %s %s", tag, ph, ah, bh), safely(func() string { FP(&o).Sub(a, b); return h(&o) }))
		c.Emit(fmt.Sprintf("fmul %s %s %s %s", tag, ph, ah, bh), safely(func() string { FP(&o).Mul(a, b); return h(&o) }))
		c.Emit(fmt.Sprintf("fneg %s %s %s", tag, ph, ah), safely(func() string { FP(&o).Neg(a); return h(&o) }))
		c.Emit(fmt.Sprintf("fsq %s %s %s", tag, ph, ah), safely(func() string { FP(&o).Square(a); return h(&o) }))
		c.Emit(fmt.Sprintf("fdbl %s %s %s", tag, ph, ah), safely(func() string { FP(&o).Double(a); return h(&o) }))
		c.Emit(fmt.Sprintf("finv %s %s %s", tag, ph, ah), safely(func() string {
			var iv F
			if ok := FP(&iv).Inv(a); ok == 0 {
				return "none"
			}
			return h(&iv)
		}))
		c.Emit(fmt.Sprintf("fdiv %s %s %s %s", tag, ph, ah, bh), safely(func() string {
			var dv F
			if ok := FP(&dv).Div(a, b); ok == 0 {
				return "none"
			}
			return h(&dv)
		}))
		// square roots: of arbitrary values (half are non-residues) and of constructed squares
		sq := func(x *F, xh string) {
			c.Emit(fmt.Sprintf("fsqrt %s %s %s", tag, ph, xh), safely(func() string {
				var s F
				if ok := FP(&s).Sqrt(x); ok == 0 {
					c.Count(tag + ".sqrt.none")
					return "none"
				}
				c.Count(tag + ".sqrt.root")
				return h(&s)
			}))
		}
		sq(a, ah)
		var bb F
		FP(&bb).Square(b)
		sq(&bb, h(&bb))
		// wide reduction: little-endian byte strings of every length 0..2*size
		wl := r.IntN(2*size + 1)
		if i%5 == 0 {
			wl = 2 * size
		}
		wb := make([]byte, wl)
		_, _ = r.Read(wb)
		switch r.IntN(6) {
		case 0:
			for j := range wb {
				wb[j] = 0xff
			}
		case 1:
			for j := range wb {
				wb[j] = 0
			}
			if wl > 0 {
				wb[wl-1] = 0x80
			}
		}
		wv := new(big.Int)
		for j := wl - 1; j >= 0; j-- {
			wv.Lsh(wv, 8).Or(wv, big.NewInt(int64(wb[j])))
		}
		c.Emit(fmt.Sprintf("fwide %s %s %d %s", tag, ph, wl, hexNat(wv)), safely(func() string {
			var w F
			if ok := FP(&w).SetBytesWide(wb); ok == 0 {
				return "reject"
			}
			return h(&w)
		}))
	}
}

// c14PubField: the public prime-field wrappers (Scalar types) through the generic interface.
func c14PubField[S algebra.PrimeFieldElement[S]](c *Ctx, tag string, f algebra.PrimeField[S], stream uint64, q int) {
	r := NewRng(c.Seed, 1400+stream)
	p := fieldOrder(f)
	ph := hexNat(p)
	for i := 0; i < 10*q; i++ {
		av, bv := c14FieldValue(r, p), c14FieldValue(r, p)
		a, b := scalarFromBig(f, av), scalarFromBig(f, bv)
		ah, bh := hexNat(av), hexNat(bv)
		c.Emit(fmt.Sprintf("fadd %s %s %s %s", tag, ph, ah, bh), safely(func() string { return scalarHex(a.Add(b)) }))
		c.Emit(fmt.Sprintf("fsub %s %s %s %s", tag, ph, ah, bh), safely(func() string { return scalarHex(a.Sub(b)) }))
		c.Emit(fmt.Sprintf("fmul %s %s %s %s", tag, ph, ah, bh), safely(func() string { return scalarHex(a.Mul(b)) }))
		c.Emit(fmt.Sprintf("fneg %s %s %s", tag, ph, ah), safely(func() string { return scalarHex(a.Neg()) }))
		c.Emit(fmt.Sprintf("fsq %s %s %s", tag, ph, ah), safely(func() string { return scalarHex(a.Square()) }))
		c.Emit(fmt.Sprintf("finv %s %s %s", tag, ph, ah), safely(func() string {
			iv, err := a.TryInv()
			if err != nil {
				return "none"
			}
			return scalarHex(iv)
		}))
		wl := r.IntN(f.WideElementSize() + 1)
		if i%3 == 0 {
			wl = f.WideElementSize()
		}
		wb := make([]byte, wl)
		_, _ = r.Read(wb)
		if r.IntN(5) == 0 {
			for j := range wb {
				wb[j] = 0xff
			}
		}
		wv := new(big.Int).SetBytes(wb) // FromWideBytes is big-endian
		c.Emit(fmt.Sprintf("fwide %s %s %d %s", tag, ph, wl, hexNat(wv)), safely(func() string {
			w, err := f.FromWideBytes(wb)
			if err != nil {
				return "reject"
			}
			return scalarHex(w)
		}))
	}
}

func fp2Str(x *bls12381Impl.Fp2) string {
	return leHex(x.U0.Bytes()) + "/" + leHex(x.U1.Bytes())
}

// c14Fp2: the quadratic extension Fp2 = Fp[u]/(u²+1), base field of BLS12-381 G2.
func c14Fp2(c *Ctx, stream uint64, q int) {
	r := NewRng(c.Seed, 1400+stream)
	var m1 bls12381Impl.Fp
	m1.SetOne()
	m1.Neg(&m1)
	p := new(big.Int).Add(feBig[*bls12381Impl.Fp](&m1), big.NewInt(1))
	ph := hexNat(p)
	mk := func() *bls12381Impl.Fp2 {
		var x bls12381Impl.Fp2
		x.U0.Set(feFromBig[*bls12381Impl.Fp, bls12381Impl.Fp](c14FieldValue(r, p)))
		x.U1.Set(feFromBig[*bls12381Impl.Fp, bls12381Impl.Fp](c14FieldValue(r, p)))
		if r.IntN(6) == 0 {
			x.U1.SetZero() // element of the prime subfield
		}
		if r.IntN(12) == 0 {
			x.U0.SetZero()
		}
		return &x
	}
	for i := 0; i < 25*q; i++ {
		a, b := mk(), mk()
		ah, bh := fp2Str(a), fp2Str(b)
		var o bls12381Impl.Fp2
		c.Emit(fmt.Sprintf("f2add %s %s %s", ph, ah, bh), safely(func() string { o.Add(a, b); return fp2Str(&o) }))
		c.Emit(fmt.Sprintf("f2sub %s %s %s", ph, ah, bh), safely(func() string { o.Sub(a, b); return fp2Str(&o) }))
		c.Emit(fmt.Sprintf("f2mul %s %s %s", ph, ah, bh), safely(func() string { o.Mul(a, b); return fp2Str(&o) }))
		c.Emit(fmt.Sprintf("f2neg %s %s", ph, ah), safely(func() string { o.Neg(a); return fp2Str(&o) }))
		c.Emit(fmt.Sprintf("f2sq %s %s", ph, ah), safely(func() string { o.Square(a); return fp2Str(&o) }))
		c.Emit(fmt.Sprintf("f2inv %s %s", ph, ah), safely(func() string {
			var iv bls12381Impl.Fp2
			if ok := iv.Inv(a); ok == 0 {
				return "none"
			}
			return fp2Str(&iv)
		}))
		sq := func(x *bls12381Impl.Fp2, kind string) {
			c.Emit(fmt.Sprintf("f2sqrt %s %s", ph, fp2Str(x)), safely(func() string {
				var s bls12381Impl.Fp2
				if ok := s.Sqrt(x); ok == 0 {
					c.Count("bls12381.Fp2.sqrt." + kind + ".none")
					return "none"
				}
				c.Count("bls12381.Fp2.sqrt." + kind + ".root")
				return fp2Str(&s)
			}))
		}
		sq(a, "arbitrary")
		var bb bls12381Impl.Fp2
		bb.Square(b)
		sq(&bb, "constructed-square")
	}
}
