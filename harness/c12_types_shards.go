package main

import (
	"fmt"
	"math/big"

	"github.com/bronlabs/bron-crypto/pkg/base/algebra"
	"github.com/bronlabs/bron-crypto/pkg/base/curves/k256"
	"github.com/bronlabs/bron-crypto/pkg/base/curves/pairable/bls12381"
	"github.com/bronlabs/bron-crypto/pkg/base/nt/num"
	"github.com/bronlabs/bron-crypto/pkg/base/nt/znstar"
	"github.com/bronlabs/bron-crypto/pkg/encryption/paillier"
	"github.com/bronlabs/bron-crypto/pkg/mpc"
	mpcbls "github.com/bronlabs/bron-crypto/pkg/mpc/signatures/bls"
	"github.com/bronlabs/bron-crypto/pkg/mpc/signatures/ecdsa/lindell17"
	"github.com/bronlabs/bron-crypto/pkg/mpc/signatures/ecdsa/dkls23"
	mpcschnorr "github.com/bronlabs/bron-crypto/pkg/mpc/signatures/schnorr"
	"github.com/bronlabs/bron-crypto/pkg/signatures/ecdsa"
)

// Protocol shards that embed mpc.BaseShard, the ECDSA signature and the Paillier public key.
// Validity of a protocol shard = validity of the embedded base shard (independent predicate
// c12ValidShard) + what the protocol's own constructor adds.

type (
	c12DklsShard    = dkls23.Shard[*k256.Point, *k256.BaseFieldElement, *k256.Scalar]
	c12SchnorrShard = mpcschnorr.Shard[*k256.Point, *k256.Scalar]
	c12BlsShard     = mpcbls.Shard[g1, g1f, g2, g2f, gt, bsc]
	c12L17Shard     = lindell17.Shard[*k256.Point, *k256.BaseFieldElement, *k256.Scalar]
)

func c12BaseOf[E algebra.PrimeGroupElement[E, S], S algebra.PrimeFieldElement[S]](alt *c12Alt, r *Rng, g algebra.PrimeGroup[E, S]) (*mpc.BaseShard[E, S], error) {
	return c12PickShard(alt, r, g)
}

func init() {
	famK := c12NewFamily("k256", cK256, fK256)
	famB := c12NewFamily[*bls12381.PointG1, *bls12381.Scalar]("bls12381g1", cBLSG1, fBLS)

	altD := &c12Alt{}
	c12Register(c12Case[*c12DklsShard]{
		name:   "dkls23.Shard/k256",
		weight: 2,
		fam:    famK,
		gen: func(r *Rng) (*c12DklsShard, error) {
			b, err := c12BaseOf(altD, r, cK256)
			if err != nil {
				return nil, err
			}
			return dkls23.NewShard[*k256.Point, *k256.BaseFieldElement, *k256.Scalar](b)
		},
		equal: func(a, b *c12DklsShard) bool { return a.Equal(b) && a.Share().Equal(b.Share()) },
		valid: func(v *c12DklsShard) error {
			if err := c12ValidShard(cK256, &v.BaseShard); err != nil {
				return err
			}
			w, err := dkls23.NewShard[*k256.Point, *k256.BaseFieldElement, *k256.Scalar](&v.BaseShard)
			if err != nil {
				return err
			}
			if !w.Equal(v) || !w.PublicKeyValue().Equal(v.PublicKeyValue()) {
				return errC12("re-constructed shard differs")
			}
			return nil
		},
	})

	altS := &c12Alt{}
	c12Register(c12Case[*c12SchnorrShard]{
		name:   "schnorr.Shard/k256",
		weight: 2,
		fam:    famK,
		gen: func(r *Rng) (*c12SchnorrShard, error) {
			b, err := c12BaseOf(altS, r, cK256)
			if err != nil {
				return nil, err
			}
			return mpcschnorr.NewShard(b.Share(), b.VerificationVector(), b.MSP())
		},
		equal: func(a, b *c12SchnorrShard) bool { return a.Equal(b) && a.Share().Equal(b.Share()) },
		valid: func(v *c12SchnorrShard) error {
			if err := c12ValidShard(cK256, &v.BaseShard); err != nil {
				return err
			}
			w, err := mpcschnorr.NewShard(v.Share(), v.VerificationVector(), v.MSP())
			if err != nil {
				return err
			}
			if !w.Equal(v) {
				return errC12("re-constructed shard differs")
			}
			if pk := v.PublicKey(); pk == nil || !pk.Value().Equal(v.PublicKeyValue()) {
				return errC12("public key differs from the public material")
			}
			return nil
		},
	})

	altB := &c12Alt{}
	c12Register(c12Case[*c12BlsShard]{
		name:   "bls.Shard/bls12381g1",
		weight: 5,
		fam:    famB,
		gen: func(r *Rng) (*c12BlsShard, error) {
			b, err := c12BaseOf[g1, bsc](altB, r, cBLSG1)
			if err != nil {
				return nil, err
			}
			return mpcbls.NewShortKeyShard[g1, g1f, g2, g2f, gt, bsc](b.Share(), b.VerificationVector(), b.MSP())
		},
		equal: func(a, b *c12BlsShard) bool { return a.Equal(b) && a.Share().Equal(b.Share()) },
		valid: func(v *c12BlsShard) error {
			if err := c12ValidShard[g1, bsc](cBLSG1, &v.BaseShard); err != nil {
				return err
			}
			w, err := mpcbls.NewShortKeyShard[g1, g1f, g2, g2f, gt, bsc](v.Share(), v.VerificationVector(), v.MSP())
			if err != nil {
				return err
			}
			if !w.Equal(v) {
				return errC12("re-constructed shard differs")
			}
			// NewShortKeyShard admits an identity public key; PublicKey() is then nil for both
			pv, pw := v.PublicKey(), w.PublicKey()
			if (pv == nil) != (pw == nil) || (pv != nil && !pv.Value().Equal(v.PublicKeyValue())) {
				return errC12("public key differs from the public material")
			}
			return nil
		},
	})

	// Lindell17 shard (thorough tier only: a deal generates one 3072-bit Paillier key per party).
	// One deal per run; the values are the shards of the different holders.
	var l17 []*c12L17Shard
	c12Register(c12Case[*c12L17Shard]{
		name:         "lindell17.Shard/k256",
		weight:       12,
		fam:          famK,
		thoroughOnly: true,
		gen: func(r *Rng) (*c12L17Shard, error) {
			if l17 == nil {
				ac, err := c12GenThreshold(r)
				if err != nil {
					return nil, err
				}
				m, cls := runLindell17Deal(cK256, ac, 3072, r)
				if cls != "ok" {
					return nil, errC12("lindell17 deal: " + cls)
				}
				for _, id := range sortedIDs(c12MapKeys(m)) {
					l17 = append(l17, m[id])
				}
			}
			return l17[r.IntN(len(l17))], nil
		},
		equal: func(a, b *c12L17Shard) bool { return a.Equal(b) && a.Share().Equal(b.Share()) },
		valid: func(v *c12L17Shard) error {
			if err := c12ValidShard(cK256, &v.BaseShard); err != nil {
				return err
			}
			w, err := lindell17.NewShard(&v.BaseShard, &v.AuxiliaryInfo)
			if err != nil {
				return err
			}
			if !w.Equal(v) {
				return errC12("re-constructed shard differs")
			}
			for _, pk := range v.PaillierPublicKeys().Values() {
				if pk == nil || pk.Group() == nil || pk.Group().N().Big().BitLen() < 3072 {
					return errC12("peer Paillier key below the size floor")
				}
			}
			return nil
		},
	})

	// ECDSA signature: r, s non-zero scalars, recovery id absent or 0..3
	c12Register(c12Case[*ecdsa.Signature[*k256.Scalar]]{
		name: "ecdsa.Signature/k256",
		fam:  famK,
		gen: func(r *Rng) (*ecdsa.Signature[*k256.Scalar], error) {
			nz := func() *k256.Scalar {
				for {
					s := smallOrRandom(r, fK256, 30)
					if !s.IsZero() {
						return s
					}
				}
			}
			var v *int
			if k := r.IntN(5); k < 4 {
				v = &k
			}
			return ecdsa.NewSignature(nz(), nz(), v)
		},
		equal: func(a, b *ecdsa.Signature[*k256.Scalar]) bool { return a.Equal(b) },
		valid: func(v *ecdsa.Signature[*k256.Scalar]) error {
			if c12IsNil(any(v.R())) || c12IsNil(any(v.S())) || v.R().IsZero() || v.S().IsZero() {
				return errC12("r or s is zero / nil")
			}
			if v.V() != nil && (*v.V() < 0 || *v.V() > 3) {
				return fmt.Errorf("recovery id %d", *v.V())
			}
			w, err := ecdsa.NewSignature(v.R(), v.S(), v.V())
			if err != nil {
				return err
			}
			if !w.Equal(v) {
				return errC12("re-constructed signature differs")
			}
			return nil
		},
	})

	// Paillier public key: the modulus must have at least base.IFCKeyLength = 3072 bits.  The
	// constructor cannot (and does not) check that N is a product of two primes, so any odd N of
	// admissible size is a constructible value; sizes sit on the floor.
	c12Register(c12Case[*paillier.PublicKey]{
		name:   "paillier.PublicKey",
		weight: 2,
		gen: func(r *Rng) (*paillier.PublicKey, error) {
			bits := []int{3072, 3072, 3072, 3073, 3080, 4096}[r.IntN(6)]
			buf := make([]byte, (bits+7)/8)
			_, _ = r.Read(buf)
			n := new(big.Int).SetBytes(buf)
			n.SetBit(n, 0, 1)
			for i := n.BitLen() - 1; i >= bits; i-- {
				n.SetBit(n, i, 0)
			}
			n.SetBit(n, bits-1, 1)
			np, err := num.NPlus().FromBig(n)
			if err != nil {
				return nil, err
			}
			grp, err := znstar.NewPaillierGroupOfUnknownOrder(np.Mul(np), np)
			if err != nil {
				return nil, err
			}
			return paillier.NewPublicKey(grp)
		},
		equal: func(a, b *paillier.PublicKey) bool { return a.Equal(b) },
		valid: func(v *paillier.PublicKey) error {
			if v.Group() == nil || v.Group().N() == nil {
				return errC12("nil group / modulus")
			}
			n := v.Group().N().Big()
			if n.BitLen() < 3072 {
				return fmt.Errorf("Paillier modulus of %d bits (floor 3072)", n.BitLen())
			}
			n2 := v.Group().Modulus().Big()
			if n2.Cmp(new(big.Int).Mul(n, n)) != 0 {
				return errC12("ciphertext modulus is not N^2")
			}
			w, err := paillier.NewPublicKey(v.Group())
			if err != nil {
				return err
			}
			if !w.Equal(v) {
				return errC12("re-constructed key differs")
			}
			return nil
		},
	})
}

func c12MapKeys[K comparable, V any](m map[K]V) []K {
	out := make([]K, 0, len(m))
	for k := range m {
		out = append(out, k)
	}
	return out
}
