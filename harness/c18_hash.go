package main

import (
	"bytes"
	"fmt"

	"golang.org/x/crypto/blake2b"

	"github.com/bronlabs/bron-crypto/pkg/commitments"
	"github.com/bronlabs/bron-crypto/pkg/commitments/hashcom"
	"github.com/bronlabs/bron-crypto/pkg/transcripts"
	"github.com/bronlabs/bron-crypto/pkg/transcripts/hagrid"
)

func c18FlipBit(b []byte, i int) []byte {
	out := bytes.Clone(b)
	out[i/8] ^= 1 << (i % 8)
	return out
}

func c18Hash(c *Ctx) {
	r := NewRng(c.Seed, 1810)

	// --- keys: sampled, extracted from transcripts, all-zero, all-ones
	var keys []*hashcom.CommitmentKey
	if k, err := hashcom.SampleCommitmentKey(r); err == nil {
		keys = append(keys, k)
	} else {
		c.Violation("hashcom.SampleCommitmentKey failed")
	}
	keys = append(keys, &hashcom.CommitmentKey{})
	ff := &hashcom.CommitmentKey{}
	for i := range ff {
		ff[i] = 0xff
	}
	keys = append(keys, ff)

	seedTag := fmt.Sprintf("seed-%d-%d", c.Seed, r.IntN(1<<30))
	mk := func(nm string, msgs ...string) transcripts.Transcript {
		t := hagrid.NewTranscript(nm)
		for _, m := range msgs {
			t.AppendBytes("msg", []byte(m))
		}
		return t
	}
	type trDesc struct {
		id    string
		t     transcripts.Transcript
		label string
	}
	earlier := mk("c18", "alpha", seedTag)
	_, _ = earlier.ExtractBytes("earlier", 16)
	descs := []trDesc{
		{"A", mk("c18", "alpha", seedTag), "hashcom-key"},
		{"A", mk("c18", "alpha", seedTag), "hashcom-key"},
		{"B", mk("c18", "alpha", seedTag), "hashcom-kex"},
		{"C", mk("c18x", "alpha", seedTag), "hashcom-key"},
		{"D", mk("c18", "alphb", seedTag), "hashcom-key"},
		{"E", mk("c18", "alpha"+seedTag), "hashcom-key"},
		{"F", mk("c18", "alpha", seedTag, ""), "hashcom-key"},
		{"G", mk("c18", seedTag, "alpha"), "hashcom-key"},
		{"H", earlier, "hashcom-key"},
		{"A", mk("c18", "alpha", seedTag).Clone(), "hashcom-key"},
	}
	var xk []*hashcom.CommitmentKey
	for _, d := range descs {
		k, err := hashcom.ExtractCommitmentKey(d.t, d.label)
		if err != nil {
			c.Violation("hashcom.ExtractCommitmentKey failed for transcript " + d.id)
		}
		xk = append(xk, k)
	}
	for i := range descs {
		for j := i + 1; j < len(descs); j++ {
			if xk[i] == nil || xk[j] == nil {
				continue
			}
			same := xk[i].Equal(xk[j])
			if same != bytes.Equal(xk[i][:], xk[j][:]) {
				c.Violation("hashcom.CommitmentKey.Equal disagrees with byte equality")
			}
			c.Count(fmt.Sprintf("hash.xkey.same=%v", descs[i].id == descs[j].id))
			if same != (descs[i].id == descs[j].id) {
				c.Violation(fmt.Sprintf("hashcom.ExtractCommitmentKey: transcripts %s/%s (#%d,#%d) give equal keys: %v", descs[i].id, descs[j].id, i, j, same))
			}
		}
	}
	if xk[0] != nil {
		keys = append(keys, xk[0])
	}
	if _, err := hashcom.ExtractCommitmentKey(descs[0].t, ""); err == nil {
		c.Violation("hashcom.ExtractCommitmentKey accepted an empty label")
	}

	// --- messages: empty, around the witness size, around BLAKE2b block boundaries (128-byte
	// blocks of m‖w with |w| = 32), long
	lens := []int{0, 1, 2, 31, 32, 33, 64, 95, 96, 97, 127, 128, 129, 223, 224, 225, 256, 1000}
	if c.Thorough() {
		lens = append(lens, 3, 7, 8, 63, 65, 160, 255, 257, 4096, 20000)
	}
	for ki, k := range keys {
		for li, n := range lens {
			if !c.Thorough() && ki > 0 && li%3 != ki%3 {
				continue
			}
			if n > 10000 && ki > 0 {
				continue
			}
			m := make([]byte, n)
			_, _ = r.Read(m)
			if n > 0 && r.IntN(4) == 0 {
				for i := range m {
					m[i] = 0
				}
			}
			var w hashcom.Witness
			if r.IntN(5) > 0 {
				var err error
				w, err = k.SampleWitness(r)
				if err != nil {
					c.Violation("hashcom SampleWitness failed")
					continue
				}
			}
			c18HashCase(c, r, k, m, w, li < 9 || c.Thorough())
		}
	}

	// commitments.Commit samples the witness itself
	if len(keys) > 0 {
		m := []byte("fresh-witness")
		cm, w, err := commitments.Commit(keys[0], m, r)
		if err != nil {
			c.Violation("commitments.Commit failed for hashcom")
		} else {
			c18HashOpen(c, keys[0], m, w, cm, keys[0], cm, m, w, "fresh", true)
		}
	}
}

func c18HashOpen(c *Ctx, k0 *hashcom.CommitmentKey, m0 []byte, w0 hashcom.Witness, c0 hashcom.Commitment,
	k *hashcom.CommitmentKey, cm hashcom.Commitment, m []byte, w hashcom.Witness, what string, emit bool) string {
	res := safely(func() string { return c18Acc(k.Open(cm, m, w)) })
	if emit {
		c.Emit(fmt.Sprintf("hopen %s %s %s %s %s %s %s %s", hexBytes(k0[:]), hexBytes(m0), hexBytes(w0[:]), hexBytes(c0[:]),
			hexBytes(k[:]), hexBytes(cm[:]), hexBytes(m), hexBytes(w[:])), res)
	}
	c.Count("hash.open." + what + "." + res)
	return res
}

func c18HashCase(c *Ctx, r *Rng, k *hashcom.CommitmentKey, m []byte, w hashcom.Witness, allBits bool) {
	var cm hashcom.Commitment
	res := safely(func() string {
		var err error
		cm, err = k.CommitWithWitness(m, w)
		return c18Res(err, func() string { return hexBytes(cm[:]) })
	})
	if len(m) == 0 {
		c.Count("hash.msg.empty")
	}
	c.Emit(fmt.Sprintf("hcommit %s %s %s", hexBytes(k[:]), hexBytes(m), hexBytes(w[:])), res)
	if res == "err" || res[:2] == "pa" {
		c.Violation("hashcom CommitWithWitness failed: " + res)
		return
	}
	// independent recomputation: keyed BLAKE2b-256 over message ‖ witness
	h, err := blake2b.New256(k[:])
	if err != nil {
		c.Violation("blake2b.New256 refused the key")
		return
	}
	h.Write(append(bytes.Clone(m), w[:]...))
	if !bytes.Equal(h.Sum(nil), cm[:]) {
		c.Violation(fmt.Sprintf("hashcom commitment differs from BLAKE2b_key(m||w): key=%s m=%s w=%s c=%s", hexBytes(k[:]), hexBytes(m), hexBytes(w[:]), hexBytes(cm[:])))
	}
	if c18HashOpen(c, k, m, w, cm, k, cm, m, w, "honest", true) != "accept" {
		c.Violation(fmt.Sprintf("hashcom honest opening rejected: key=%s m=%s w=%s", hexBytes(k[:]), hexBytes(m), hexBytes(w[:])))
	}
	reject := func(k2 *hashcom.CommitmentKey, c2 hashcom.Commitment, m2 []byte, w2 hashcom.Witness, what string, emit bool) {
		if got := c18HashOpen(c, k, m, w, cm, k2, c2, m2, w2, what, emit); got != "reject" {
			c.Violation(fmt.Sprintf("hashcom opening with changed %s not rejected (%s): key=%s m=%s w=%s c=%s", what, got, hexBytes(k2[:]), hexBytes(m2), hexBytes(w2[:]), hexBytes(c2[:])))
		}
	}
	// every single-bit change of the message (all bits of short messages, else a sample and the ends)
	nb := len(m) * 8
	for i := 0; i < nb; i++ {
		emit := allBits && nb <= 1024 || i < 8 || i >= nb-8 || r.IntN(nb) < 64
		if nb > 4096 && !emit {
			continue
		}
		reject(k, cm, c18FlipBit(m, i), w, "message", emit)
	}
	// length changes: one byte less, one zero byte more, the empty message
	if len(m) > 0 {
		reject(k, cm, m[:len(m)-1], w, "message", true)
		reject(k, cm, m[1:], w, "message", true)
		reject(k, cm, nil, w, "message", true)
	}
	reject(k, cm, append(bytes.Clone(m), 0), w, "message", true)
	reject(k, cm, append([]byte{0}, m...), w, "message", true)
	for i := 0; i < 256; i++ {
		emit := allBits || i < 8 || i >= 248 || r.IntN(8) == 0
		var w2 hashcom.Witness
		copy(w2[:], c18FlipBit(w[:], i))
		reject(k, cm, m, w2, "witness", emit)
		var k2 hashcom.CommitmentKey
		copy(k2[:], c18FlipBit(k[:], i))
		reject(&k2, cm, m, w, "key", emit)
		var c2 hashcom.Commitment
		copy(c2[:], c18FlipBit(cm[:], i))
		reject(k, c2, m, w, "commitment", emit)
	}
}
