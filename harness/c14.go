package main

func init() { register("C14", runC14) }

func runC14(c *Ctx) {
	c.Emit("gen k256", pointStr(cK256.Generator()))
	c.Emit("gen p256", pointStr(cP256.Generator()))
	c.Emit("gen pallas", pointStr(cPallas.Generator()))
	c.Emit("gen vesta", pointStr(cVesta.Generator()))
	c.Emit("gen bls12381g1", pointStr(cBLSG1.Generator()))
	c.Emit("gen bls12381g2", pointStr(cBLSG2.Generator()))
	c.Emit("gen ed25519", pointStr(cEd25519.Generator()))
	c.Emit("zero k256", pointStr(cK256.OpIdentity()))
	c.Emit("zero ed25519", pointStr(cEd25519.OpIdentity()))
}
