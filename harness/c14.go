package main

// C14 — curve, field and pairing arithmetic equal the mathematical operations.
//
// Streams (each line is replayed on the Lean model by Drive/C14.lean):
//   group ops on the public point types          c14_group.go
//   raw projective/extended formulas (impl level) c14_proj.go   (also evaluated on the GENERATED formulas)
//   base/scalar field arithmetic                  c14_field.go
//   BLS12-381 pairing relations (Go-side only)    c14_pairing.go

import (
	"math/big"

	aimpl "github.com/bronlabs/bron-crypto/pkg/base/algebra/impl"
	"github.com/bronlabs/bron-crypto/pkg/base/curves/curve25519"
	"github.com/bronlabs/bron-crypto/pkg/base/curves/edwards25519"
	edwards25519Impl "github.com/bronlabs/bron-crypto/pkg/base/curves/edwards25519/impl"
	"github.com/bronlabs/bron-crypto/pkg/base/curves/k256"
	k256Impl "github.com/bronlabs/bron-crypto/pkg/base/curves/k256/impl"
	"github.com/bronlabs/bron-crypto/pkg/base/curves/p256"
	p256Impl "github.com/bronlabs/bron-crypto/pkg/base/curves/p256/impl"
	"github.com/bronlabs/bron-crypto/pkg/base/curves/pairable/bls12381"
	bls12381Impl "github.com/bronlabs/bron-crypto/pkg/base/curves/pairable/bls12381/impl"
	"github.com/bronlabs/bron-crypto/pkg/base/curves/pasta"
	pastaImpl "github.com/bronlabs/bron-crypto/pkg/base/curves/pasta/impl"
)

func init() { register("C14", runC14) }

func runC14(c *Ctx) {
	c.Emit("gen k256", pointStr(cK256.Generator()))
	c.Emit("gen p256", pointStr(cP256.Generator()))
	c.Emit("gen pallas", pointStr(cPallas.Generator()))
	c.Emit("gen vesta", pointStr(cVesta.Generator()))
	c.Emit("gen bls12381g1", pointStr(cBLSG1.Generator()))
	c.Emit("gen bls12381g2", pointStr(cBLSG2.Generator()))
	c.Emit("gen ed25519", pointStr(cEd25519.Generator()))
	c.Emit("zero k256", pointStr(cK256.OpIdentity()))
	c.Emit("zero ed25519", pointStr(cEd25519.OpIdentity()))

	// ---- group operations on the public types
	gK := mkGroup("k256", cK256, func(p *k256.Point) string { return pointStr(p) },
		func(p *k256.Point, s []byte) *k256.Point {
			var r k256.Point
			aimpl.ScalarMulLowLevel(&r.V, &p.V, s)
			return &r
		})
	gP := mkGroup("p256", cP256, func(p *p256.Point) string { return pointStr(p) },
		func(p *p256.Point, s []byte) *p256.Point {
			var r p256.Point
			aimpl.ScalarMulLowLevel(&r.V, &p.V, s)
			return &r
		})
	gPa := mkGroup("pallas", cPallas, func(p *pasta.PallasPoint) string { return pointStr(p) },
		func(p *pasta.PallasPoint, s []byte) *pasta.PallasPoint {
			var r pasta.PallasPoint
			aimpl.ScalarMulLowLevel(&r.V, &p.V, s)
			return &r
		})
	gVe := mkGroup("vesta", cVesta, func(p *pasta.VestaPoint) string { return pointStr(p) },
		func(p *pasta.VestaPoint, s []byte) *pasta.VestaPoint {
			var r pasta.VestaPoint
			aimpl.ScalarMulLowLevel(&r.V, &p.V, s)
			return &r
		})
	gG1 := mkGroup("bls12381g1", cBLSG1, func(p *bls12381.PointG1) string { return pointStr(p) },
		func(p *bls12381.PointG1, s []byte) *bls12381.PointG1 {
			var r bls12381.PointG1
			aimpl.ScalarMulLowLevel(&r.V, &p.V, s)
			return &r
		})
	gG2 := mkGroup("bls12381g2", cBLSG2, func(p *bls12381.PointG2) string { return pointStr(p) },
		func(p *bls12381.PointG2, s []byte) *bls12381.PointG2 {
			var r bls12381.PointG2
			aimpl.ScalarMulLowLevel(&r.V, &p.V, s)
			return &r
		})
	gEd := mkGroup("ed25519", cEd25519, func(p *edwards25519.PrimeSubGroupPoint) string { return pointStr(p) },
		func(p *edwards25519.PrimeSubGroupPoint, s []byte) *edwards25519.PrimeSubGroupPoint {
			var r edwards25519.PrimeSubGroupPoint
			aimpl.ScalarMulLowLevel(&r.V, &p.V, s)
			return &r
		})

	gK.msmRaw = c14MsmRawOf[*k256.Point, k256Impl.Point, *k256Impl.Point](func(p *k256.Point) *k256Impl.Point { return &p.V },
		func(v *k256Impl.Point) *k256.Point { var r k256.Point; r.V = *v; return &r })
	gP.msmRaw = c14MsmRawOf[*p256.Point, p256Impl.Point, *p256Impl.Point](func(p *p256.Point) *p256Impl.Point { return &p.V },
		func(v *p256Impl.Point) *p256.Point { var r p256.Point; r.V = *v; return &r })
	gPa.msmRaw = c14MsmRawOf[*pasta.PallasPoint, pastaImpl.PallasPoint, *pastaImpl.PallasPoint](func(p *pasta.PallasPoint) *pastaImpl.PallasPoint { return &p.V },
		func(v *pastaImpl.PallasPoint) *pasta.PallasPoint { var r pasta.PallasPoint; r.V = *v; return &r })
	gVe.msmRaw = c14MsmRawOf[*pasta.VestaPoint, pastaImpl.VestaPoint, *pastaImpl.VestaPoint](func(p *pasta.VestaPoint) *pastaImpl.VestaPoint { return &p.V },
		func(v *pastaImpl.VestaPoint) *pasta.VestaPoint { var r pasta.VestaPoint; r.V = *v; return &r })
	gG1.msmRaw = c14MsmRawOf[*bls12381.PointG1, bls12381Impl.G1Point, *bls12381Impl.G1Point](func(p *bls12381.PointG1) *bls12381Impl.G1Point { return &p.V },
		func(v *bls12381Impl.G1Point) *bls12381.PointG1 { var r bls12381.PointG1; r.V = *v; return &r })
	gG2.msmRaw = c14MsmRawOf[*bls12381.PointG2, bls12381Impl.G2Point, *bls12381Impl.G2Point](func(p *bls12381.PointG2) *bls12381Impl.G2Point { return &p.V },
		func(v *bls12381Impl.G2Point) *bls12381.PointG2 { var r bls12381.PointG2; r.V = *v; return &r })
	gEd.msmRaw = c14MsmRawOf[*edwards25519.PrimeSubGroupPoint, edwards25519Impl.Point, *edwards25519Impl.Point](func(p *edwards25519.PrimeSubGroupPoint) *edwards25519Impl.Point { return &p.V },
		func(v *edwards25519Impl.Point) *edwards25519.PrimeSubGroupPoint {
			var r edwards25519.PrimeSubGroupPoint
			r.V = *v
			return &r
		})

	q := 1
	if c.Thorough() {
		q = 8
	}
	runGroup(c, gK, 1, q)
	runGroup(c, gP, 2, q)
	runGroup(c, gPa, 3, q)
	runGroup(c, gVe, 4, q)
	runGroup(c, gG1, 5, q)
	runGroup(c, gG2, 6, q)
	runGroup(c, gEd, 7, q)
	runGroup(c, mkEdFull(c), 8, q)
	runGroup(c, mkCurve25519(c), 9, q)

	// ---- windowed ladder and bucket MSM at every threshold of mul.go (c14_window.go)
	gEdFull, gC25519 := mkEdFull(c), mkCurve25519(c)
	dense := func(maxK, longFrom int) c14WindowPlan { return c14WindowPlan{maxK: maxK, longFrom: longFrom, keep: 1} }
	sparse := func(maxK int) c14WindowPlan {
		return c14WindowPlan{maxK: maxK, longFrom: 32, fullAt: []int{8, 16}, keep: 4}
	}
	if c.Thorough() {
		c14RunParallel(c, 4,
			func(s *Ctx) { runWindow(s, gK, 1, dense(16, 1<<17)) },
			func(s *Ctx) { runWindow(s, gEd, 7, dense(16, 1<<13)) },
			func(s *Ctx) { runWindow(s, gP, 2, dense(16, 1<<12)) },
			func(s *Ctx) { runWindow(s, gPa, 3, dense(16, 1<<12)) },
			func(s *Ctx) { runWindow(s, gVe, 4, dense(16, 1<<12)) },
			func(s *Ctx) { runWindow(s, gG1, 5, dense(16, 1<<11)) },
			func(s *Ctx) { runWindow(s, gG2, 6, dense(16, 1<<10)) },
			func(s *Ctx) { runWindow(s, gEdFull, 8, dense(13, 1<<10)) },
			func(s *Ctx) { runWindow(s, gC25519, 9, dense(0, 0)) })
	} else {
		c14RunParallel(c, 4,
			func(s *Ctx) {
				runWindow(s, gK, 1, c14WindowPlan{maxK: 16, longFrom: 1 << 12, keep: 1, hugeFrom: 1<<14 - 1})
			},
			func(s *Ctx) { runWindow(s, gEd, 7, sparse(12)) },
			func(s *Ctx) { runWindow(s, gP, 2, sparse(11)) },
			func(s *Ctx) { runWindow(s, gPa, 3, sparse(11)) },
			func(s *Ctx) { runWindow(s, gVe, 4, sparse(11)) },
			func(s *Ctx) { runWindow(s, gG1, 5, sparse(11)) },
			func(s *Ctx) { runWindow(s, gG2, 6, sparse(11)) },
			func(s *Ctx) { runWindow(s, gEdFull, 8, sparse(11)) },
			func(s *Ctx) { runWindow(s, gC25519, 9, c14WindowPlan{keep: 4}) })
	}

	// ---- raw projective / extended formulas at the impl level

	c14WProj(c, "k256", 11, q, implSeeds(c.Seed, gK, func(p *k256.Point) *k256Impl.Point { return &p.V }))
	c14WProj(c, "p256", 12, q, implSeeds(c.Seed, gP, func(p *p256.Point) *p256Impl.Point { return &p.V }))
	c14WProj(c, "pallas", 13, q, implSeeds(c.Seed, gPa, func(p *pasta.PallasPoint) *pastaImpl.PallasPoint { return &p.V }))
	c14WProj(c, "vesta", 14, q, implSeeds(c.Seed, gVe, func(p *pasta.VestaPoint) *pastaImpl.VestaPoint { return &p.V }))
	c14WProj(c, "bls12381g1", 15, q, implSeeds(c.Seed, gG1, func(p *bls12381.PointG1) *bls12381Impl.G1Point { return &p.V }))
	c14WProj(c, "bls12381g2", 16, q, implSeeds(c.Seed, gG2, func(p *bls12381.PointG2) *bls12381Impl.G2Point { return &p.V }))
	edFull := mkEdFull(c)
	c14EProj(c, "ed25519", 17, q, implSeeds(c.Seed, edFull, func(p *edwards25519.Point) *edwards25519Impl.Point { return &p.V }))

	// ---- fields
	c14Fields(c, q)

	// ---- pairing (Go-side algebraic relations only; not modelled)
	c14Pairing(c, q)
}

// mkEdFull: the full edwards25519 curve type (cofactor 8), including small-order points.
func mkEdFull(c *Ctx) *c14Group[*edwards25519.Point] {
	cv := edwards25519.NewCurve()
	sf := edwards25519.NewScalarField()
	raw := func(p *edwards25519.Point, s []byte) *edwards25519.Point {
		var r edwards25519.Point
		aimpl.ScalarMulLowLevel(&r.V, &p.V, s)
		return &r
	}
	g := &c14Group[*edwards25519.Point]{
		cn: "ed25519full", n: fieldOrder(sf),
		id: cv.OpIdentity(), gen: cv.PrimeSubGroupGenerator(),
		str:     func(p *edwards25519.Point) string { return edImplStr(&p.V) },
		add:     func(a, b *edwards25519.Point) *edwards25519.Point { return a.Add(b) },
		sub:     func(a, b *edwards25519.Point) *edwards25519.Point { return a.Sub(b) },
		dbl:     func(a *edwards25519.Point) *edwards25519.Point { return a.Double() },
		neg:     func(a *edwards25519.Point) *edwards25519.Point { return a.Neg() },
		eq:      func(a, b *edwards25519.Point) bool { return a.Equal(b) },
		isid:    func(a *edwards25519.Point) bool { return a.IsOpIdentity() },
		smul:    func(a *edwards25519.Point, k *big.Int) *edwards25519.Point { return a.ScalarMul(scalarFromBig(sf, k)) },
		smulRaw: raw,
		msm: func(ks []*big.Int, ps []*edwards25519.Point) (*edwards25519.Point, error) {
			scs := make([]*edwards25519.Scalar, len(ks))
			for i, k := range ks {
				scs[i] = scalarFromBig(sf, k)
			}
			return cv.MultiScalarMul(scs, ps)
		},
		msmRaw: c14MsmRawOf[*edwards25519.Point, edwards25519Impl.Point, *edwards25519Impl.Point](func(p *edwards25519.Point) *edwards25519Impl.Point { return &p.V },
			func(v *edwards25519Impl.Point) *edwards25519.Point { var r edwards25519.Point; r.V = *v; return &r }),
		auSmul: c14AuSmul[*edwards25519.Point],
		auMsm:  c14AuMsm[*edwards25519.Point],
	}
	// small-order points: [n]·P for curve points P outside the prime subgroup
	g.extra = edTorsion(g, func(y uint64) *edwards25519.Point {
		var yb [32]byte
		yb[0] = byte(y)
		yb[1] = byte(y >> 8)
		p, err := cv.FromCompressed(yb[:])
		if err != nil {
			return nil
		}
		return p
	})
	return g
}

// mkCurve25519: curve25519's point type wraps the same Edwards impl point (Montgomery coordinates are
// only its external affine view); its group operations are checked against the Edwards model.
func mkCurve25519(c *Ctx) *c14Group[*curve25519.Point] {
	cv := curve25519.NewCurve()
	sf := curve25519.NewScalarField()
	raw := func(p *curve25519.Point, s []byte) *curve25519.Point {
		var r curve25519.Point
		aimpl.ScalarMulLowLevel(&r.V, &p.V, s)
		return &r
	}
	g := &c14Group[*curve25519.Point]{
		cn: "curve25519", n: fieldOrder(sf),
		id: cv.OpIdentity(), gen: cv.PrimeSubGroupGenerator(),
		str:     func(p *curve25519.Point) string { return edImplStr(&p.V) },
		add:     func(a, b *curve25519.Point) *curve25519.Point { return a.Add(b) },
		sub:     func(a, b *curve25519.Point) *curve25519.Point { return a.Sub(b) },
		dbl:     func(a *curve25519.Point) *curve25519.Point { return a.Double() },
		neg:     func(a *curve25519.Point) *curve25519.Point { return a.Neg() },
		eq:      func(a, b *curve25519.Point) bool { return a.Equal(b) },
		isid:    func(a *curve25519.Point) bool { return a.IsOpIdentity() },
		smul:    func(a *curve25519.Point, k *big.Int) *curve25519.Point { return a.ScalarMul(scalarFromBig(sf, k)) },
		smulRaw: raw,
	}
	// the 2-torsion point (0,-1): (n)·(G + T2) is not reachable without FromAffine in Edwards
	// coordinates; use [n]·P for P = hash outputs outside the subgroup when available.
	return g
}

func edImplStr(v *edwards25519Impl.Point) string {
	if v.IsZero() == 1 {
		return "inf"
	}
	var x, y edwards25519Impl.Fp
	if ok := v.ToAffine(&x, &y); ok == 0 {
		return "err:affine"
	}
	return leHex(x.Bytes()) + ":" + leHex(y.Bytes())
}

func leHex(b []byte) string {
	be := make([]byte, len(b))
	for i := range b {
		be[len(b)-1-i] = b[i]
	}
	return new(big.Int).SetBytes(be).Text(16)
}

// edTorsion returns points of order 2, 4 and 8 (as many as found) of the full Edwards curve.
func edTorsion[P any](g *c14Group[P], fromY func(uint64) P) []P {
	nLE := bigLE(g.n, 32)
	var out []P
	seen := map[string]bool{"inf": true}
	for y := uint64(2); y < 400 && len(out) < 6; y++ {
		p := fromY(y)
		if any(p) == nil || isNilPtr(p) {
			continue
		}
		t := g.smulRaw(p, nLE)
		// also multiples of t
		cur := t
		for i := 0; i < 8; i++ {
			s := g.str(cur)
			if !seen[s] {
				seen[s] = true
				out = append(out, cur)
			}
			cur = g.add(cur, t)
		}
	}
	return out
}

func bigLE(v *big.Int, minLen int) []byte {
	be := v.Bytes()
	n := len(be)
	if n < minLen {
		n = minLen
	}
	out := make([]byte, n)
	for i := range be {
		out[len(be)-1-i] = be[i]
	}
	return out
}
