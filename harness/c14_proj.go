package main

import (
	"fmt"
	"strings"

	fieldsImpl "github.com/bronlabs/bron-crypto/pkg/base/algebra/impl/fields"
	pointsImpl "github.com/bronlabs/bron-crypto/pkg/base/curves/impl/points"
	h2c "github.com/bronlabs/bron-crypto/pkg/base/curves/impl/rfc9380"
)

// implFeStr renders an impl-level field element: components (little-endian bytes each) as hex, '/'-joined.
func implFeStr[FP fieldsImpl.FiniteFieldElementPtr[FP, F], F any](x *F) string {
	comps := FP(x).ComponentsBytes()
	out := make([]string, len(comps))
	for i, cb := range comps {
		out[i] = leHex(cb)
	}
	return strings.Join(out, "/")
}

func implRandFe[FP fieldsImpl.FiniteFieldElementPtr[FP, F], F any](r *Rng, x *F) {
	switch r.IntN(10) {
	case 0:
		FP(x).SetZero()
	case 1:
		FP(x).SetOne()
	default:
		if ok := FP(x).SetRandom(r); ok == 0 {
			FP(x).SetOne()
		}
	}
}

type wPoint[FP fieldsImpl.FiniteFieldElementPtr[FP, F], C pointsImpl.ShortWeierstrassCurveParams[FP], H h2c.HasherParams, M h2c.PointMapper[FP], F any] = pointsImpl.ShortWeierstrassPointImpl[FP, C, H, M, F]

func c14wStr[FP fieldsImpl.FiniteFieldElementPtr[FP, F], C pointsImpl.ShortWeierstrassCurveParams[FP], H h2c.HasherParams, M h2c.PointMapper[FP], F any](p *pointsImpl.ShortWeierstrassPointImpl[FP, C, H, M, F]) string {
	return implFeStr[FP](&p.X) + "," + implFeStr[FP](&p.Y) + "," + implFeStr[FP](&p.Z)
}

// c14WProj exercises ShortWeierstrassPointImpl.{Add,Double,Neg,Equal,IsZero,SetAffine} on raw
// projective coordinates: rescaled representatives of curve points, the identity (0:λ:0), P/−P,
// and arbitrary (off-curve) triples — the formulas are polynomial, so the regenerated Lean
// formulas must agree on every input.
func c14WProj[FP fieldsImpl.FiniteFieldElementPtr[FP, F], C pointsImpl.ShortWeierstrassCurveParams[FP], H h2c.HasherParams, M h2c.PointMapper[FP], F any](
	c *Ctx, cn string, stream uint64, q int, seeds []*pointsImpl.ShortWeierstrassPointImpl[FP, C, H, M, F]) {
	type PT = pointsImpl.ShortWeierstrassPointImpl[FP, C, H, M, F]
	r := NewRng(c.Seed, 1400+stream)
	scale := func(p *PT) *PT {
		var l F
		var out PT
		for {
			implRandFe[FP](r, &l)
			if FP(&l).IsZero() == 0 {
				break
			}
		}
		FP(&out.X).Mul(&p.X, &l)
		FP(&out.Y).Mul(&p.Y, &l)
		FP(&out.Z).Mul(&p.Z, &l)
		return &out
	}
	gen := func() (*PT, string) {
		switch r.IntN(10) {
		case 0: // identity, arbitrary representative
			return scale(seeds[0]), "id"
		case 1: // arbitrary triple (almost surely off-curve)
			var out PT
			implRandFe[FP](r, &out.X)
			implRandFe[FP](r, &out.Y)
			implRandFe[FP](r, &out.Z)
			return &out, "arbitrary"
		case 2:
			return seeds[r.IntN(len(seeds))], "as-is"
		default:
			return scale(seeds[r.IntN(len(seeds))]), "scaled"
		}
	}
	for i := 0; i < 40*q; i++ {
		p1, k1 := gen()
		p2, k2 := gen()
		switch r.IntN(6) {
		case 0: // same point, different representative
			p2, k2 = scale(p1), "same"
		case 1: // opposite point
			var ng PT
			ng.Neg(p1)
			p2, k2 = scale(&ng), "opposite"
		}
		c.Count(cn + ".padd." + k1 + "/" + k2)
		var out PT
		c.Emit(fmt.Sprintf("padd %s %s %s", cn, c14wStr(p1), c14wStr(p2)), safely(func() string { out.Add(p1, p2); return c14wStr(&out) }))
		c.Emit(fmt.Sprintf("peq %s %s %s", cn, c14wStr(p1), c14wStr(p2)), safely(func() string { return boolStr(p1.Equal(p2) == 1) }))
		if i%2 == 0 {
			var d, n PT
			c.Emit(fmt.Sprintf("pdbl %s %s", cn, c14wStr(p1)), safely(func() string { d.Double(p1); return c14wStr(&d) }))
			c.Emit(fmt.Sprintf("pneg %s %s", cn, c14wStr(p1)), safely(func() string { n.Neg(p1); return c14wStr(&n) }))
			c.Emit(fmt.Sprintf("piszero %s %s", cn, c14wStr(p1)), safely(func() string { return boolStr(p1.IsZero() == 1) }))
		}
		if i%4 == 0 {
			// SetAffine: curve-equation check on (x, y): on-curve pairs from seeds and arbitrary pairs
			var x, y F
			var s PT
			if r.IntN(2) == 0 {
				sp := seeds[1+r.IntN(len(seeds)-1)]
				var xo, yo F
				if sp.ToAffine(&xo, &yo) == 1 {
					x, y = xo, yo
				}
			} else {
				implRandFe[FP](r, &x)
				implRandFe[FP](r, &y)
			}
			c.Emit(fmt.Sprintf("psetaffine %s %s %s", cn, implFeStr[FP](&x), implFeStr[FP](&y)), safely(func() string {
				s.SetZero()
				ok := s.SetAffine(&x, &y)
				return boolStr(ok == 1) + "," + c14wStr(&s)
			}))
		}
	}
}

func eStr[FP fieldsImpl.FiniteFieldElementPtr[FP, F], C pointsImpl.TwistedEdwardsCurveParams[FP], H h2c.HasherParams, M h2c.PointMapper[FP], F any](p *pointsImpl.TwistedEdwardsPointImpl[FP, C, H, M, F]) string {
	return implFeStr[FP](&p.X) + "," + implFeStr[FP](&p.Y) + "," + implFeStr[FP](&p.T) + "," + implFeStr[FP](&p.Z)
}

// c14EProj: the same for TwistedEdwardsPointImpl (extended coordinates X:Y:T:Z).
func c14EProj[FP fieldsImpl.FiniteFieldElementPtr[FP, F], C pointsImpl.TwistedEdwardsCurveParams[FP], H h2c.HasherParams, M h2c.PointMapper[FP], F any](
	c *Ctx, cn string, stream uint64, q int, seeds []*pointsImpl.TwistedEdwardsPointImpl[FP, C, H, M, F]) {
	type PT = pointsImpl.TwistedEdwardsPointImpl[FP, C, H, M, F]
	r := NewRng(c.Seed, 1400+stream)
	scale := func(p *PT) *PT {
		var l F
		var out PT
		for {
			implRandFe[FP](r, &l)
			if FP(&l).IsZero() == 0 {
				break
			}
		}
		FP(&out.X).Mul(&p.X, &l)
		FP(&out.Y).Mul(&p.Y, &l)
		FP(&out.T).Mul(&p.T, &l)
		FP(&out.Z).Mul(&p.Z, &l)
		return &out
	}
	gen := func() (*PT, string) {
		switch r.IntN(10) {
		case 0:
			return scale(seeds[0]), "id"
		case 1:
			var out PT
			implRandFe[FP](r, &out.X)
			implRandFe[FP](r, &out.Y)
			implRandFe[FP](r, &out.T)
			implRandFe[FP](r, &out.Z)
			return &out, "arbitrary"
		case 2:
			return seeds[r.IntN(len(seeds))], "as-is"
		default:
			return scale(seeds[r.IntN(len(seeds))]), "scaled"
		}
	}
	for i := 0; i < 60*q; i++ {
		p1, k1 := gen()
		p2, k2 := gen()
		switch r.IntN(6) {
		case 0:
			p2, k2 = scale(p1), "same"
		case 1:
			var ng PT
			ng.Neg(p1)
			p2, k2 = scale(&ng), "opposite"
		}
		c.Count(cn + ".eadd." + k1 + "/" + k2)
		var out PT
		c.Emit(fmt.Sprintf("eadd %s %s %s", cn, eStr(p1), eStr(p2)), safely(func() string { out.Add(p1, p2); return eStr(&out) }))
		c.Emit(fmt.Sprintf("eeq %s %s %s", cn, eStr(p1), eStr(p2)), safely(func() string { return boolStr(p1.Equal(p2) == 1) }))
		if i%2 == 0 {
			var d, n PT
			c.Emit(fmt.Sprintf("edbl %s %s", cn, eStr(p1)), safely(func() string { d.Double(p1); return eStr(&d) }))
			c.Emit(fmt.Sprintf("eneg %s %s", cn, eStr(p1)), safely(func() string { n.Neg(p1); return eStr(&n) }))
			c.Emit(fmt.Sprintf("eiszero %s %s", cn, eStr(p1)), safely(func() string { return boolStr(p1.IsZero() == 1) }))
		}
		if i%4 == 0 {
			var x, y F
			var s PT
			if r.IntN(2) == 0 {
				sp := seeds[r.IntN(len(seeds))]
				var xo, yo F
				if sp.ToAffine(&xo, &yo) == 1 {
					x, y = xo, yo
				}
			} else {
				implRandFe[FP](r, &x)
				implRandFe[FP](r, &y)
			}
			c.Emit(fmt.Sprintf("esetaffine %s %s %s", cn, implFeStr[FP](&x), implFeStr[FP](&y)), safely(func() string {
				s.SetZero()
				ok := s.SetAffine(&x, &y)
				return boolStr(ok == 1) + "," + eStr(&s)
			}))
		}
	}
}
