// proto_selftest.go — `harness PROTO` runs every protocol of the shared layer once and prints the
// wall time and final classes (not a property stream; used to measure and smoke-test the layer).

package main

import (
	"crypto/sha256"
	"fmt"
	"io"
	"time"

	"github.com/bronlabs/bron-crypto/pkg/mpc"
	"github.com/bronlabs/bron-crypto/pkg/signatures/bls"
	"github.com/bronlabs/bron-crypto/pkg/signatures/ecdsa"
	"github.com/bronlabs/bron-crypto/pkg/signatures/schnorrlike/bip340"
	vanilla "github.com/bronlabs/bron-crypto/pkg/signatures/schnorrlike/schnorr"
	"github.com/bronlabs/bron-crypto/pkg/proofs/sigma/compiler/fischlin"
)

type mpcBaseShardK256 = mpc.BaseShard[*k256Point, *k256Scalar]

func init() { register("PROTO", runProtoSelfTest) }

type protoSelfTest struct {
	name string
	run  func(c *Ctx) string
}

var protoSelfTests []protoSelfTest

func addProtoSelfTest(name string, run func(c *Ctx) string) {
	protoSelfTests = append(protoSelfTests, protoSelfTest{name, run})
}

func runProtoSelfTest(c *Ctx) {
	for _, t := range protoSelfTests {
		start := time.Now()
		res := safely(func() string { return t.run(c) })
		c.Note(fmt.Sprintf("PROTO %-28s %8.0f ms  %s", t.name, float64(time.Since(start).Microseconds())/1000, res))
	}
}

func init() {
	addProtoSelfTest("access-specs", func(c *Ctx) string {
		out := ""
		for _, s := range []string{"th:2:1,2,3", "un:7,9", "cnf:1,2|3,4|1,3", "hier:1:1,2|3:3,4,5", "bool:and(1,or(2,3),th2(4,5,6))"} {
			ac := mustAccess(s)
			q, u := qualifiedSets(ac)
			out += fmt.Sprintf("%s:q%d/u%d/min%d ", s, len(q), len(u), len(minimalQualifiedSets(ac)))
		}
		return out
	})
	addProtoSelfTest("session/3", func(c *Ctx) string {
		ids := []ID{5, 1, 1 << 40}
		n, ctxs := runSession(ids, partyRngs(c.Seed, 100, ids), nil)
		return fmt.Sprintf("%s ctxs=%d msgs=%d", n.StatusStr(), len(ctxs), len(n.Log))
	})
	addProtoSelfTest("trusteddealer/k256", func(c *Ctx) string {
		r := runTrustedDealer(cK256, mustAccess("th:2:1,2,3"), NewRng(c.Seed, 7))
		return fmt.Sprintf("%s shards=%d", r.Net.StatusStr(), len(r.Shards))
	})
	addProtoSelfTest("gennaro/k256 th2of3", func(c *Ctx) string {
		ac := mustAccess("th:2:1,2,3")
		ids := accessIDs(ac)
		r := runGennaro(cK256, ac, dealerContexts(ids, NewRng(c.Seed, 8)), partyRngs(c.Seed, 200, ids), nil, defaultCompiler)
		return fmt.Sprintf("%s shards=%d msgs=%d", r.Net.StatusStr(), len(r.Shards), len(r.Net.Log))
	})
	addProtoSelfTest("gennaro/blsg1 cnf", func(c *Ctx) string {
		ac := mustAccess("cnf:1,2|3,4|1,3")
		ids := accessIDs(ac)
		r := runGennaro(cBLSG1, ac, dealerContexts(ids, NewRng(c.Seed, 8)), partyRngs(c.Seed, 200, ids), nil, defaultCompiler)
		return fmt.Sprintf("%s shards=%d", r.Net.StatusStr(), len(r.Shards))
	})
	addProtoSelfTest("gennaro/blsg2 th2of3", func(c *Ctx) string {
		ac := mustAccess("th:2:1,2,3")
		ids := accessIDs(ac)
		r := runGennaro(cBLSG2, ac, dealerContexts(ids, NewRng(c.Seed, 8)), partyRngs(c.Seed, 200, ids), nil, defaultCompiler)
		return fmt.Sprintf("%s shards=%d", r.Net.StatusStr(), len(r.Shards))
	})
	addProtoSelfTest("canetti/k256 th2of3", func(c *Ctx) string {
		ac := mustAccess("th:2:1,2,3")
		ids := accessIDs(ac)
		r := runCanetti(cK256, ac, dealerContexts(ids, NewRng(c.Seed, 8)), partyRngs(c.Seed, 200, ids), nil)
		return fmt.Sprintf("%s shards=%d", r.Net.StatusStr(), len(r.Shards))
	})
	addProtoSelfTest("canetti/ed25519 hier", func(c *Ctx) string {
		ac := mustAccess("hier:1:1,2|3:3,4,5")
		ids := accessIDs(ac)
		r := runCanetti(cEd25519, ac, dealerContexts(ids, NewRng(c.Seed, 8)), partyRngs(c.Seed, 200, ids), nil)
		return fmt.Sprintf("%s shards=%d", r.Net.StatusStr(), len(r.Shards))
	})
	addProtoSelfTest("gennaro-runner/k256", func(c *Ctx) string {
		ac := mustAccess("th:2:1,2,3")
		ids := accessIDs(ac)
		r := runGennaroRunner(cK256, ac, dealerContexts(ids, NewRng(c.Seed, 8)), partyRngs(c.Seed, 200, ids), defaultCompiler)
		return fmt.Sprintf("%s shards=%d", r.Net.StatusStr(), len(r.Shards))
	})
	addProtoSelfTest("canetti-runner/k256", func(c *Ctx) string {
		ac := mustAccess("th:2:1,2,3")
		ids := accessIDs(ac)
		r := runCanettiRunner(cK256, ac, dealerContexts(ids, NewRng(c.Seed, 8)), partyRngs(c.Seed, 200, ids))
		return fmt.Sprintf("%s shards=%d", r.Net.StatusStr(), len(r.Shards))
	})
	addProtoSelfTest("gennaro/k256 tamper r2 bcast", func(c *Ctx) string {
		ac := mustAccess("th:2:1,2,3")
		ids := accessIDs(ac)
		h := &TamperHook{
			Match: func(_ string, round int, from, _ ID, b bool) bool { return round == 2 && from == 2 && b },
			Apply: func(b []byte) ([]byte, bool) { b[len(b)/2] ^= 1; return b, false },
		}
		r := runGennaro(cK256, ac, dealerContexts(ids, NewRng(c.Seed, 8)), partyRngs(c.Seed, 200, ids), h, defaultCompiler)
		return fmt.Sprintf("%s hits=%d %s", r.Net.StatusStr(), h.Hits, r.Net.statusSummary())
	})
}

func init() {
	k256Shards := func(c *Ctx, spec string) (map[ID]*mpcBaseShardK256, []ID) {
		r := runTrustedDealer(cK256, mustAccess(spec), NewRng(c.Seed, 7))
		return r.Shards, accessIDs(mustAccess(spec))
	}
	for _, variant := range []string{"bbot", "softspoken"} {
		addProtoSelfTest("dkls23-"+variant+"/k256 2of3", func(c *Ctx) string {
			shards, _ := k256Shards(c, "th:2:1,2,3")
			suite, _ := ecdsa.NewSuite(cK256, sha256.New)
			q := []ID{1, 3}
			r := runDKLs23(variant, suite, shards, q, dealerContexts(q, NewRng(c.Seed, 9)), []byte("hello"), partyRngs(c.Seed, 300, q), nil)
			return fmt.Sprintf("%s agg=%s sig=%v same=%v msgs=%d", r.Net.StatusStr(), r.AggStatus, r.Sig != nil, r.Sig != nil && r.Sig.Equal(r.SigAlt), len(r.Net.Log))
		})
	}
	addProtoSelfTest("dkls23-bbot/k256 3of3", func(c *Ctx) string {
		shards, _ := k256Shards(c, "th:2:1,2,3")
		suite, _ := ecdsa.NewSuite(cK256, sha256.New)
		q := []ID{1, 2, 3}
		r := runDKLs23("bbot", suite, shards, q, dealerContexts(q, NewRng(c.Seed, 9)), []byte("hello"), partyRngs(c.Seed, 300, q), nil)
		return fmt.Sprintf("%s agg=%s", r.Net.StatusStr(), r.AggStatus)
	})
	addProtoSelfTest("dkls23-softspoken-runner/k256", func(c *Ctx) string {
		shards, _ := k256Shards(c, "th:2:1,2,3")
		suite, _ := ecdsa.NewSuite(cK256, sha256.New)
		q := []ID{2, 3}
		r := runDKLs23Runner("softspoken", suite, shards, q, dealerContexts(q, NewRng(c.Seed, 9)), []byte("hello"), partyRngs(c.Seed, 300, q))
		return fmt.Sprintf("%s agg=%s", r.Net.StatusStr(), r.AggStatus)
	})
	addProtoSelfTest("lindell22-bip340/k256 2of3", func(c *Ctx) string {
		shards, _ := k256Shards(c, "th:2:1,2,3")
		q := []ID{1, 3}
		mk := func(rng io.Reader) (*bip340.Scheme, error) { return bip340.NewScheme(rng) }
		r := runLindell22(mk, shards, q, dealerContexts(q, NewRng(c.Seed, 9)), []byte("hello"), partyRngs(c.Seed, 300, q), NewRng(c.Seed, 10), nil, defaultCompiler)
		return fmt.Sprintf("%s agg=%s verify=%v same=%v", r.Net.StatusStr(), r.AggStatus, r.VerifyOK, r.Sig != nil && r.Sig.Equal(r.SigAlt))
	})
	addProtoSelfTest("lindell22-vanilla-runner/k256", func(c *Ctx) string {
		shards, _ := k256Shards(c, "cnf:1,2|3,4|1,3")
		q := []ID{1, 4}
		mk := func(rng io.Reader) (*vanilla.Scheme[*k256Point, *k256Scalar], error) {
			return vanilla.NewScheme(cK256, sha256.New, false, false, nil, rng)
		}
		r := runLindell22Runner(mk, shards, q, dealerContexts(q, NewRng(c.Seed, 9)), []byte("hello"), partyRngs(c.Seed, 300, q), NewRng(c.Seed, 10), defaultCompiler)
		return fmt.Sprintf("%s agg=%s verify=%v", r.Net.StatusStr(), r.AggStatus, r.VerifyOK)
	})
	addProtoSelfTest("boldyreva-short 2of3", func(c *Ctx) string {
		d := runTrustedDealer(cBLSG1, mustAccess("th:2:1,2,3"), NewRng(c.Seed, 7))
		q := []ID{1, 3}
		r := runBoldyrevaShort(d.Shards, q, dealerContexts(q, NewRng(c.Seed, 9)), []byte("hello"), bls.Basic, nil)
		return fmt.Sprintf("%s agg=%s sig=%v", r.Net.StatusStr(), r.AggStatus, r.Sig != nil)
	})
	addProtoSelfTest("boldyreva-long 2of3 POP", func(c *Ctx) string {
		d := runTrustedDealer(cBLSG2, mustAccess("th:2:1,2,3"), NewRng(c.Seed, 7))
		q := []ID{1, 3}
		r := runBoldyrevaLong(d.Shards, q, dealerContexts(q, NewRng(c.Seed, 9)), []byte("hello"), bls.POP, nil)
		return fmt.Sprintf("%s agg=%s sig=%v", r.Net.StatusStr(), r.AggStatus, r.Sig != nil)
	})
	addProtoSelfTest("cnf large ids (C02 candidate)", func(c *Ctx) string {
		ac := mustAccess("cnf:1,200|3,4000000000000|1,3")
		r := runTrustedDealer(cK256, ac, NewRng(c.Seed, 7))
		return r.Net.StatusStr()
	})
}

func init() {
	addProtoSelfTest("hjky/k256 th2of3", func(c *Ctx) string {
		ac := mustAccess("th:2:1,2,3")
		ids := accessIDs(ac)
		r := runHJKY(cK256, ac, dealerContexts(ids, NewRng(c.Seed, 8)), partyRngs(c.Seed, 200, ids), nil)
		z := ""
		for _, id := range ids {
			if v := r.VV[id]; len(v) > 0 {
				z += pointStr(v[0]) + " "
			}
		}
		return fmt.Sprintf("%s shares=%d V0=%s", r.Net.StatusStr(), len(r.Shares), z)
	})
	addProtoSelfTest("redistribute/k256 th2of3->th2of4", func(c *Ctx) string {
		d := runTrustedDealer(cK256, mustAccess("th:2:1,2,3"), NewRng(c.Seed, 7))
		next := mustAccess("th:2:2,3,4,9")
		all := []ID{1, 2, 3, 4, 9}
		r := runRedistribute([]ID{1, 2, 3}, d.Shards, next, dealerContexts(all, NewRng(c.Seed, 8)), partyRngs(c.Seed, 200, all), nil)
		same := len(r.Shards) > 0
		for _, sh := range r.Shards {
			same = same && sh.PublicKeyValue().Equal(d.Shards[1].PublicKeyValue())
		}
		return fmt.Sprintf("%s shards=%d samePK=%v", r.Net.StatusStr(), len(r.Shards), same)
	})
	addProtoSelfTest("redistribute-runner/k256 refresh", func(c *Ctx) string {
		d := runTrustedDealer(cK256, mustAccess("th:2:1,2,3"), NewRng(c.Seed, 7))
		all := []ID{1, 2, 3}
		r := runRedistributeRunner(all, d.Shards, mustAccess("th:2:1,2,3"), dealerContexts(all, NewRng(c.Seed, 8)), partyRngs(c.Seed, 200, all))
		return fmt.Sprintf("%s shards=%d", r.Net.StatusStr(), len(r.Shards))
	})
	addProtoSelfTest("lindell17 deal(3072)+sign/k256", func(c *Ctx) string {
		if !c.Thorough() {
			return "skipped in quick tier (3 Paillier keys of 3072 bits)"
		}
		t0 := time.Now()
		shards, cls := runLindell17Deal(cK256, mustAccess("th:2:1,2,3"), 3072, NewRng(c.Seed, 7))
		dealT := time.Since(t0)
		if cls != "ok" {
			return "deal " + cls
		}
		suite, _ := ecdsa.NewSuite(cK256, sha256.New)
		q := []ID{1, 3}
		r := runLindell17Sign(suite, shards, 1, 3, dealerContexts(q, NewRng(c.Seed, 9)), []byte("hello"), partyRngs(c.Seed, 300, q), nil, fischlin.Name)
		return fmt.Sprintf("deal=%v %s sig=%v %s", dealT.Round(time.Millisecond), r.Net.StatusStr(), r.Sig != nil, r.Net.statusSummary())
	})
}
