// proto_selftest.go — `harness PROTO` runs every protocol of the shared layer once and prints the
// wall time and final classes (not a property stream; used to measure and smoke-test the layer).

package main

import (
	"fmt"
	"time"
)

func init() { register("PROTO", runProtoSelfTest) }

type protoSelfTest struct {
	name string
	run  func(c *Ctx) string
}

var protoSelfTests []protoSelfTest

func addProtoSelfTest(name string, run func(c *Ctx) string) {
	protoSelfTests = append(protoSelfTests, protoSelfTest{name, run})
}

func runProtoSelfTest(c *Ctx) {
	for _, t := range protoSelfTests {
		start := time.Now()
		res := safely(func() string { return t.run(c) })
		c.Note(fmt.Sprintf("PROTO %-28s %8.0f ms  %s", t.name, float64(time.Since(start).Microseconds())/1000, res))
	}
}

func init() {
	addProtoSelfTest("access-specs", func(c *Ctx) string {
		out := ""
		for _, s := range []string{"th:2:1,2,3", "un:7,9", "cnf:1,2|3,4|1,3", "hier:1:1,2|3:3,4,5", "bool:and(1,or(2,3),th2(4,5,6))"} {
			ac := mustAccess(s)
			q, u := qualifiedSets(ac)
			out += fmt.Sprintf("%s:q%d/u%d/min%d ", s, len(q), len(u), len(minimalQualifiedSets(ac)))
		}
		return out
	})
	addProtoSelfTest("session/3", func(c *Ctx) string {
		ids := []ID{5, 1, 1 << 40}
		n, ctxs := runSession(ids, partyRngs(c.Seed, 100, ids), nil)
		return fmt.Sprintf("%s ctxs=%d msgs=%d", n.StatusStr(), len(ctxs), len(n.Log))
	})
	addProtoSelfTest("trusteddealer/k256", func(c *Ctx) string {
		r := runTrustedDealer(cK256, mustAccess("th:2:1,2,3"), NewRng(c.Seed, 7))
		return fmt.Sprintf("%s shards=%d", r.Net.StatusStr(), len(r.Shards))
	})
	addProtoSelfTest("gennaro/k256 th2of3", func(c *Ctx) string {
		ac := mustAccess("th:2:1,2,3")
		ids := accessIDs(ac)
		r := runGennaro(cK256, ac, dealerContexts(ids, NewRng(c.Seed, 8)), partyRngs(c.Seed, 200, ids), nil, defaultCompiler)
		return fmt.Sprintf("%s shards=%d msgs=%d", r.Net.StatusStr(), len(r.Shards), len(r.Net.Log))
	})
	addProtoSelfTest("gennaro/blsg1 cnf", func(c *Ctx) string {
		ac := mustAccess("cnf:1,2|3,4|1,3")
		ids := accessIDs(ac)
		r := runGennaro(cBLSG1, ac, dealerContexts(ids, NewRng(c.Seed, 8)), partyRngs(c.Seed, 200, ids), nil, defaultCompiler)
		return fmt.Sprintf("%s shards=%d", r.Net.StatusStr(), len(r.Shards))
	})
	addProtoSelfTest("gennaro/blsg2 th2of3", func(c *Ctx) string {
		ac := mustAccess("th:2:1,2,3")
		ids := accessIDs(ac)
		r := runGennaro(cBLSG2, ac, dealerContexts(ids, NewRng(c.Seed, 8)), partyRngs(c.Seed, 200, ids), nil, defaultCompiler)
		return fmt.Sprintf("%s shards=%d", r.Net.StatusStr(), len(r.Shards))
	})
	addProtoSelfTest("canetti/k256 th2of3", func(c *Ctx) string {
		ac := mustAccess("th:2:1,2,3")
		ids := accessIDs(ac)
		r := runCanetti(cK256, ac, dealerContexts(ids, NewRng(c.Seed, 8)), partyRngs(c.Seed, 200, ids), nil)
		return fmt.Sprintf("%s shards=%d", r.Net.StatusStr(), len(r.Shards))
	})
	addProtoSelfTest("canetti/ed25519 hier", func(c *Ctx) string {
		ac := mustAccess("hier:1:1,2|3:3,4,5")
		ids := accessIDs(ac)
		r := runCanetti(cEd25519, ac, dealerContexts(ids, NewRng(c.Seed, 8)), partyRngs(c.Seed, 200, ids), nil)
		return fmt.Sprintf("%s shards=%d", r.Net.StatusStr(), len(r.Shards))
	})
	addProtoSelfTest("gennaro-runner/k256", func(c *Ctx) string {
		ac := mustAccess("th:2:1,2,3")
		ids := accessIDs(ac)
		r := runGennaroRunner(cK256, ac, dealerContexts(ids, NewRng(c.Seed, 8)), partyRngs(c.Seed, 200, ids), defaultCompiler)
		return fmt.Sprintf("%s shards=%d", r.Net.StatusStr(), len(r.Shards))
	})
	addProtoSelfTest("canetti-runner/k256", func(c *Ctx) string {
		ac := mustAccess("th:2:1,2,3")
		ids := accessIDs(ac)
		r := runCanettiRunner(cK256, ac, dealerContexts(ids, NewRng(c.Seed, 8)), partyRngs(c.Seed, 200, ids))
		return fmt.Sprintf("%s shards=%d", r.Net.StatusStr(), len(r.Shards))
	})
	addProtoSelfTest("gennaro/k256 tamper r2 bcast", func(c *Ctx) string {
		ac := mustAccess("th:2:1,2,3")
		ids := accessIDs(ac)
		h := &TamperHook{
			Match: func(_ string, round int, from, _ ID, b bool) bool { return round == 2 && from == 2 && b },
			Apply: func(b []byte) ([]byte, bool) { b[len(b)/2] ^= 1; return b, false },
		}
		r := runGennaro(cK256, ac, dealerContexts(ids, NewRng(c.Seed, 8)), partyRngs(c.Seed, 200, ids), h, defaultCompiler)
		return fmt.Sprintf("%s hits=%d %s", r.Net.StatusStr(), h.Hits, r.Net.statusSummary())
	})
}
