package main

import (
	"fmt"
	"math"
	"math/big"
	"slices"
	"strings"

	"github.com/bronlabs/bron-crypto/pkg/base/algebra"
	"github.com/bronlabs/bron-crypto/pkg/mpc/sharing/accessstructures/hierarchical"
	"github.com/bronlabs/bron-crypto/pkg/mpc/sharing/accessstructures/threshold"
	"github.com/bronlabs/bron-crypto/pkg/mpc/sharing/scheme/isn"
	"github.com/bronlabs/bron-crypto/pkg/mpc/sharing/scheme/kw"
	"github.com/bronlabs/bron-crypto/pkg/mpc/sharing/scheme/shamir"
	"github.com/bronlabs/bron-crypto/pkg/mpc/sharing/scheme/tassa"
)

// ---------------------------------------------------------------- the property oracle
//
//	C02 oracle <q> <policy> <scheme> <secret> => <U>/<IsQualified bits>/<CanReconstruct bits>/<reconstruct>
//
// One line per (accepted policy, scheme): whatever policy object the constructors ACCEPTED (whether or
// not the model would have built it), every subset S of its shareholders U (bit i of the index =
// U[i]) is asked three questions of the library — IsQualified(S), scheme.CanReconstruct(S) (for KW
// this is MSP.Accepts) and "does Reconstruct from the dealt shares of S return the dealt secret"
// ('1' yes, '0' error, 'w' a different value).  The driver demands that all three equal the
// policy's meaning evaluated by the model; the first disagreeing subset is the failing input.
// Nothing is emitted when the library refuses the policy or the scheme (refusals are mirrored by
// the ops `new`, `msp`, `deal`, `tassa`, `isn`).

func c02OracleLine(c *Ctx, ps, tok, scheme, secretHex string, U []uint64, qualified func(m int) bool, can func(m int) bool, rec func(m int) (string, bool)) {
	n := len(U)
	res := safely(func() string {
		q := make([]bool, 1<<n)
		cr := make([]bool, 1<<n)
		var sb strings.Builder
		for m := range q {
			q[m] = qualified(m)
			cr[m] = can(m)
			v, ok := rec(m)
			switch {
			case !ok:
				sb.WriteByte('0')
			case v == secretHex:
				sb.WriteByte('1')
			default:
				sb.WriteByte('w')
			}
		}
		return idsHex(U) + "/" + c02bitsStr(q) + "/" + c02bitsStr(cr) + "/" + sb.String()
	})
	c.Count("oracle." + scheme)
	c.Emit(fmt.Sprintf("oracle %s %s %s %s", ps, tok, scheme, secretHex), res)
}

// c02Oracle runs the property oracle for every scheme that applies to the family of p.
func c02Oracle[S algebra.PrimeFieldElement[S]](c *Ctx, r *Rng, f algebra.PrimeField[S], p *c02Policy, secretIdx int) {
	ps := hexNat(fieldOrder(f))
	tok := p.token()
	var U []uint64
	built := safely(func() string {
		ac, err := p.build()
		if err != nil {
			return "refused"
		}
		U = sortedHolders(ac)
		return "ok"
	})
	if built != "ok" || len(U) > 7 || len(U) == 0 {
		return
	}
	ac, _ := p.build()
	n := len(U)
	secret := secretsFor(r, f, secretIdx)
	sh := scalarHex(secret)
	qualified := func(m int) bool { return ac.IsQualified(toIDs(subsetOf(U, m))...) }

	// KW over the induced span programme
	safely(func() string {
		sch, err := kw.NewScheme(f, ac)
		if err != nil {
			return ""
		}
		shares, _, err := kwDeal(sch, secret, r)
		if err != nil {
			return ""
		}
		c02OracleLine(c, ps, tok, "kw", sh, U, qualified,
			func(m int) bool { return sch.CanReconstruct(toIDs(subsetOf(U, m))...) },
			func(m int) (string, bool) {
				var sel []*kw.Share[S]
				for _, id := range subsetOf(U, m) {
					if shares[id] == nil {
						return "", false
					}
					sel = append(sel, shares[id])
				}
				s, err := sch.Reconstruct(sel...)
				if err != nil {
					return "", false
				}
				return scalarHex(s.Value()), true
			})
		return ""
	})

	// Shamir (threshold policies)
	if th, ok := ac.(*threshold.Threshold); ok {
		safely(func() string {
			sch, err := shamir.NewScheme(f, th)
			if err != nil {
				return ""
			}
			out, err := sch.Deal(shamir.NewSecret(secret), r)
			if err != nil {
				return ""
			}
			c02OracleLine(c, ps, tok, "shamir", sh, U, qualified,
				func(m int) bool { return sch.CanReconstruct(toIDs(subsetOf(U, m))...) },
				func(m int) (string, bool) {
					var sel []*shamir.Share[S]
					for _, id := range toIDs(subsetOf(U, m)) {
						s, ok := out.Shares().Get(id)
						if !ok {
							return "", false
						}
						sel = append(sel, s)
					}
					s, err := sch.Reconstruct(sel...)
					if err != nil {
						return "", false
					}
					return scalarHex(s.Value()), true
				})
			return ""
		})
	}

	// Tassa (hierarchical policies)
	if hi, ok := ac.(*hierarchical.HierarchicalConjunctiveThreshold); ok {
		safely(func() string {
			sch, err := tassa.NewScheme(hi, f)
			if err != nil {
				return ""
			}
			out, err := sch.Deal(tassa.NewSecret(secret), r)
			if err != nil {
				return ""
			}
			c02OracleLine(c, ps, tok, "tassa", sh, U, qualified,
				func(m int) bool { return sch.CanReconstruct(toIDs(subsetOf(U, m))...) },
				func(m int) (string, bool) {
					var sel []*tassa.Share[S]
					for _, id := range toIDs(subsetOf(U, m)) {
						s, ok := out.Shares().Get(id)
						if !ok {
							return "", false
						}
						sel = append(sel, s)
					}
					s, err := sch.Reconstruct(sel...)
					if err != nil {
						return "", false
					}
					return scalarHex(s.Value()), true
				})
			return ""
		})
	}

	// ISN (every family, via the maximal unqualified sets; ids ≤ 64 only, see op isnbig)
	if U[n-1] <= 64 && n <= 6 {
		safely(func() string {
			sch, err := isn.NewFiniteScheme(f, ac)
			if err != nil {
				return ""
			}
			out, err := sch.Deal(isn.NewSecret(secret), r)
			if err != nil {
				return ""
			}
			c02OracleLine(c, ps, tok, "isn", sh, U, qualified,
				func(m int) bool { return sch.CanReconstruct(toIDs(subsetOf(U, m))...) },
				func(m int) (string, bool) {
					var sel []*isn.Share[S]
					for _, id := range toIDs(subsetOf(U, m)) {
						s, ok := out.Shares().Get(id)
						if !ok {
							return "", false
						}
						sel = append(sel, s)
					}
					s, err := sch.Reconstruct(sel...)
					if err != nil {
						return "", false
					}
					return scalarHex(s.Value()), true
				})
			return ""
		})
	}
}

// c02KnownRowless: the holders of a CNF policy that lie in every maximal unqualified set (they own
// no row of cnf.InducedMSP — the recorded finding "holder-without-rows").  Computed from the policy
// description alone, so that a change that drops rows of any other holder is not filed under it.
func c02KnownRowless(p *c02Policy) map[uint64]bool {
	out := map[uint64]bool{}
	if p.kind != "cnf" || len(p.sets) == 0 {
		return out
	}
	var uniq [][]uint64
	for _, s := range p.sets {
		t := slices.Clone(s)
		slices.Sort(t)
		t = slices.Compact(t)
		if !slices.ContainsFunc(uniq, func(o []uint64) bool { return slices.Equal(o, t) }) {
			uniq = append(uniq, t)
		}
	}
	subset := func(a, b []uint64) bool {
		for _, x := range a {
			if !slices.Contains(b, x) {
				return false
			}
		}
		return true
	}
	var maximal [][]uint64
	for i, s := range uniq {
		ok := true
		for j, o := range uniq {
			if i != j && subset(s, o) {
				ok = false
				break
			}
		}
		if ok {
			maximal = append(maximal, s)
		}
	}
	if len(maximal) == 0 {
		return out
	}
	for _, id := range maximal[0] {
		all := true
		for _, s := range maximal[1:] {
			if !slices.Contains(s, id) {
				all = false
				break
			}
		}
		if all {
			out[id] = true
		}
	}
	return out
}

// ---------------------------------------------------------------- hierarchical level layouts

// c02thresholdVectors: every strictly increasing vector with t_i ≤ |level_0 ∪ … ∪ level_i|.
func c02thresholdVectors(sizes []int) [][]int {
	var out [][]int
	var rec func(i, prev, cum int, ts []int)
	rec = func(i, prev, cum int, ts []int) {
		if i == len(sizes) {
			out = append(out, slices.Clone(ts))
			return
		}
		cum += sizes[i]
		for t := prev + 1; t <= cum; t++ {
			rec(i+1, t, cum, append(ts, t))
		}
	}
	rec(0, 0, 0, nil)
	return out
}

func c02hierPolicy(levels [][]uint64, ts []int) *c02Policy {
	p := &c02Policy{kind: "hi"}
	for i, l := range levels {
		p.levels = append(p.levels, c02Level{t: ts[i], ids: l})
	}
	return p
}

// c02layoutPolicies: the layout with every admissible threshold vector (a sample of `limit` when there
// are more; the all-ones-gap vector (1,…) and the largest one are always kept).
func c02layoutPolicies(r *Rng, levels [][]uint64, limit int) []*c02Policy {
	sizes := make([]int, len(levels))
	for i, l := range levels {
		sizes[i] = len(l)
	}
	tv := c02thresholdVectors(sizes)
	if limit > 0 && len(tv) > limit {
		keep := [][]int{tv[0], tv[len(tv)-1]}
		// (1, top) with top = 3 when available: one holder of the first level suffices, derivative rows below
		for _, t := range tv {
			if t[0] == 1 && t[len(t)-1] == 3 && !slices.ContainsFunc(keep, func(o []int) bool { return slices.Equal(o, t) }) {
				keep = append(keep, t)
				break
			}
		}
		for len(keep) < limit {
			t := tv[r.IntN(len(tv))]
			if !slices.ContainsFunc(keep, func(o []int) bool { return slices.Equal(o, t) }) {
				keep = append(keep, t)
			}
		}
		tv = keep
	}
	out := make([]*c02Policy, len(tv))
	for i, t := range tv {
		out[i] = c02hierPolicy(levels, t)
	}
	return out
}

// surjections of ids onto nl levels (every assignment of holders to levels, not only the consecutive one)
func c02levelAssignments(ids []uint64, nl int) [][][]uint64 {
	var out [][][]uint64
	n := len(ids)
	total := 1
	for range n {
		total *= nl
	}
	for code := range total {
		levels := make([][]uint64, nl)
		x := code
		for i := range n {
			levels[x%nl] = append(levels[x%nl], ids[i])
			x /= nl
		}
		if slices.ContainsFunc(levels, func(l []uint64) bool { return len(l) == 0 }) {
			continue
		}
		out = append(out, levels)
	}
	return out
}

// c02tassaBoundary: the largest N with α(k)·N^((k−1)(k−2)/2) < q for k = top+1 (float, as CheckConstraints computes it)
func c02tassaBoundary(q *big.Int, top int) float64 {
	k := float64(top + 1)
	fact := 1.0
	for i := 2; i < top+1; i++ {
		fact *= float64(i)
	}
	alpha := math.Pow(2.0, 2.0-k) * math.Pow(k-1, (k-1)/2) * fact
	qf, _ := new(big.Float).SetInt(q).Float64()
	e := (k - 1) * (k - 2) / 2
	return math.Pow(qf/alpha, 1/e)
}

// c02HierLayouts: structured level layouts — interleaved, nested, reversed, sparse, boundary-adjacent,
// large identifiers, identifiers around Tassa's field-size bound — each with its admissible threshold
// vectors.  Whatever the library accepts goes through every clause (c02Family) and the oracle.
func c02HierLayouts[S algebra.PrimeFieldElement[S]](c *Ctx, f algebra.PrimeField[S], stream uint64) {
	r := NewRng(c.Seed, 400+stream)
	idx := 0
	run := func(p *c02Policy) {
		c.Count("layout.hi")
		c02Family(c, r, f, p, len(p.allIDs()) <= 5, idx)
		idx++
	}
	// (1) every assignment of 1..n to 2 (3) levels, every threshold vector
	n2, n3 := 5, 4
	if c.Thorough() {
		n2, n3 = 6, 5
	}
	for n := 2; n <= n2; n++ {
		for _, lv := range c02levelAssignments(c02idRange(1, n), 2) {
			for _, p := range c02layoutPolicies(r, lv, 0) {
				run(p)
			}
		}
	}
	for n := 3; n <= n3; n++ {
		for _, lv := range c02levelAssignments(c02idRange(1, n), 3) {
			for _, p := range c02layoutPolicies(r, lv, 0) {
				run(p)
			}
		}
	}
	// (2) named shapes over sparse / large identifiers
	big1 := uint64(1) << 63
	top := ^uint64(0)
	shapes := [][][]uint64{
		// interleaved (level minima still increase)
		{{1, 5}, {3, 7}}, {{2, 10}, {6, 14}}, {{1, 9}, {5, 6}}, {{3, 11}, {7, 20}}, {{1, 7}, {3, 5}}, {{1, 4, 9}, {7, 12}},
		{{10, 30}, {20, 40}}, {{1, 100}, {50, 51, 200}}, {{1, 5}, {3, 9}, {7, 11}}, {{1, 6}, {2, 8}, {4, 7}},
		// nested (one level inside the range of another)
		{{1, 8}, {2, 3}}, {{1, 9}, {4, 5, 6}}, {{2, 3}, {1, 8}},
		// reversed
		{{5, 6}, {1, 2}}, {{7, 8, 9}, {4, 5}, {1, 2}}, {{100, 200}, {10, 20}}, {{3}, {2}, {1}},
		// sparse, increasing
		{{1, 10}, {100, 1000}}, {{3, 17}, {64, 200}, {1000}}, {{5}, {50, 500}, {5000, 50000}}, {{7, 77}, {777, 7777, 77777}},
		// boundary-adjacent: max(level k) + 1 = min(level k+1) / overlap by exactly one position
		{{1, 2, 3}, {4, 5}}, {{1, 2, 4}, {3, 5}}, {{1, 2}, {3}, {4}}, {{1, 3}, {2}, {4}}, {{9, 10}, {11, 12}}, {{9, 11}, {10, 12}},
		// large identifiers (uint64 edge: N = max+1 wraps to 0 in the field-size test)
		{{big1, big1 + 1}, {top - 1, top}}, {{1, 2}, {top}}, {{top - 2, top}, {top - 1}}, {{1, big1}, {big1 + 2, top - 5}},
		{{1 << 32, 1<<32 + 1}, {1 << 33, 1<<33 + 2}}, {{1 << 20}, {1 << 21, 1 << 22}, {1 << 40}},
	}
	limit := 5
	if c.Thorough() {
		limit = 0
	}
	for _, lv := range shapes {
		for _, p := range c02layoutPolicies(r, lv, limit) {
			run(p)
		}
	}
	// (3) arithmetic-progression and random interleavings over small identifiers
	nrand := 30
	if c.Thorough() {
		nrand = 400
	}
	for range nrand {
		run(c02genHierAny(r))
	}
	// (4) identifiers around the field-size bound of Tassa's condition (top thresholds 4..6)
	q := fieldOrder(f)
	for topT := 4; topT <= 6; topT++ {
		b := c02tassaBoundary(q, topT)
		if b >= math.Pow(2, 63) {
			continue
		}
		for _, factor := range []float64{0.5, 1 - 1.0/256, 1 + 1.0/256, 2} {
			N := uint64(b * factor)
			if N < uint64(topT)+3 {
				continue
			}
			// first level 1..topT-2 (threshold topT-2 … ), last level {N-2, N-1}: prevMax = N-1
			first := c02idRange(1, topT-1)
			lv := [][]uint64{first, {N - 2, N - 1}}
			run(c02hierPolicy(lv, []int{1 + r.IntN(topT-1), topT}))
			c.Count("layout.hi.fieldbound")
		}
	}
}

func c02idRange(lo, n int) []uint64 {
	out := make([]uint64, n)
	for i := range out {
		out[i] = uint64(lo + i)
	}
	return out
}

func (p *c02Policy) allIDs() []uint64 {
	var out []uint64
	switch p.kind {
	case "th", "un":
		out = slices.Clone(p.ids)
	case "cnf":
		for _, s := range p.sets {
			out = append(out, s...)
		}
	case "hi":
		for _, l := range p.levels {
			out = append(out, l.ids...)
		}
	case "bx":
		var walk func(n *c02Node)
		walk = func(n *c02Node) {
			if n.leaf {
				out = append(out, n.id)
				return
			}
			for _, ch := range n.children {
				walk(ch)
			}
		}
		walk(p.root)
	}
	slices.Sort(out)
	return slices.Compact(out)
}

// c02genHierAny: 3..6 distinct identifiers from a small range (so that arithmetic coincidences between
// nodes are frequent), assigned to 2..3 levels at random (no ordering between the levels), with a
// random admissible threshold vector.
func c02genHierAny(r *Rng) *c02Policy {
	for {
		n := 3 + r.IntN(4)
		span := []int{7, 9, 12, 20}[r.IntN(4)]
		if span < n {
			span = n
		}
		perm := r.Perm(span)
		ids := make([]uint64, n)
		for i := range n {
			ids[i] = uint64(perm[i] + 1)
		}
		if r.IntN(4) == 0 {
			// arithmetic progression a, a+d, a+2d, …
			a, d := 1+r.IntN(4), 1+r.IntN(4)
			for i := range n {
				ids[i] = uint64(a + i*d)
			}
			r.Shuffle(n, func(i, j int) { ids[i], ids[j] = ids[j], ids[i] })
		}
		nl := 2 + r.IntN(2)
		levels := make([][]uint64, nl)
		for i, id := range ids {
			l := r.IntN(nl)
			if i < nl {
				l = i
			}
			levels[l] = append(levels[l], id)
		}
		sizes := make([]int, nl)
		for i, l := range levels {
			sizes[i] = len(l)
		}
		tv := c02thresholdVectors(sizes)
		if len(tv) == 0 {
			continue
		}
		return c02hierPolicy(levels, tv[r.IntN(len(tv))])
	}
}

// ---------------------------------------------------------------- gate-tree shapes

// c02TreeShapes: nested threshold gates (1 < t < n at several depths), repeated leaves across and
// along branches, AND/OR alternations, single-child gates; each over several identifier labellings.
func c02TreeShapes[S algebra.PrimeFieldElement[S]](c *Ctx, f algebra.PrimeField[S], stream uint64) {
	r := NewRng(c.Seed, 500+stream)
	L := func(i int) *c02Node { return &c02Node{leaf: true, id: uint64(i)} }
	G := func(t int, ch ...*c02Node) *c02Node { return &c02Node{t: t, children: ch} }
	shapes := []*c02Node{
		// nested thresholds
		G(2, G(2, L(1), L(2), L(3)), G(2, L(3), L(4), L(5)), G(1, L(1), L(5))),
		G(2, L(1), G(2, L(2), G(2, L(3), L(4), L(5)), L(1)), L(2)),
		G(2, G(2, L(1), L(2), L(3)), G(2, L(1), L(2), L(3)), G(2, L(1), L(2), L(3))),
		G(3, G(2, L(1), L(2), L(3)), G(2, L(2), L(3), L(4)), G(2, L(3), L(4), L(1)), G(2, L(4), L(1), L(2))),
		G(2, G(3, L(1), L(2), L(3), L(4)), G(2, L(4), L(5), L(1)), L(3)),
		G(2, G(2, G(2, L(1), L(2), L(3)), L(4), L(5)), G(2, L(1), L(4)), L(2)),
		G(3, L(1), L(2), G(2, L(3), L(4), L(1)), G(2, L(2), L(3), L(5))),
		G(2, G(2, L(1), L(2)), G(2, L(1), L(3)), G(2, L(2), L(3))),
		// AND / OR alternations with repeated leaves
		G(1, G(2, L(1), L(2)), G(2, L(2), L(3)), G(2, L(1), L(3))),
		G(3, G(1, L(1), L(2)), G(1, L(2), L(3)), G(1, L(1), L(3))),
		G(2, G(1, G(2, L(1), L(2)), L(3)), G(1, L(1), G(2, L(2), L(3)))),
		G(1, G(3, L(1), L(2), L(3)), G(2, L(4), G(1, L(1), L(2)))),
		G(2, L(1), G(1, L(1), L(2))),
		G(2, L(1), G(1, L(2), G(2, L(1), L(3)))),
		// single-child gates, chains
		G(2, G(1, L(1)), G(1, L(2)), G(1, L(3))),
		G(2, G(1, G(1, L(1))), L(2)),
		G(1, G(2, L(1), G(1, L(1))), L(2)),
		// wide gates
		G(3, L(1), L(2), L(3), L(4), L(5)),
		G(4, L(1), L(2), L(3), G(2, L(4), L(5), L(1)), G(1, L(2), L(3))),
		G(2, G(3, L(1), L(2), L(3), L(4), L(5)), G(3, L(5), L(4), L(3), L(2), L(1))),
	}
	labellings := [][]uint64{{0, 1, 2, 3, 4, 5}, {0, 9, 3, 64, 17, 40}}
	if c.Thorough() {
		labellings = append(labellings, []uint64{0, 1 << 40, 7, ^uint64(0), 1 << 63, 100})
	}
	idx := 0
	for _, lab := range labellings {
		for _, s := range shapes {
			p := &c02Policy{kind: "bx", root: c02relabel(s, lab)}
			c.Count("layout.bx")
			c02Family(c, r, f, p, len(p.allIDs()) <= 4, idx)
			idx++
		}
	}
	if !c.Thorough() {
		return
	}
	// thorough: every two-child root over children drawn from {leaf, 2- or 3-leaf gate} on ids 1..4
	var kids []*c02Node
	for i := 1; i <= 4; i++ {
		kids = append(kids, L(i))
	}
	for a := 1; a <= 4; a++ {
		for b := a + 1; b <= 4; b++ {
			for t := 1; t <= 2; t++ {
				kids = append(kids, G(t, L(a), L(b)))
			}
			for d := b + 1; d <= 4; d++ {
				for t := 1; t <= 3; t++ {
					kids = append(kids, G(t, L(a), L(b), L(d)))
				}
			}
		}
	}
	for _, a := range kids {
		for _, b := range kids {
			if a.leaf && b.leaf && a.id == b.id {
				continue
			}
			for t := 1; t <= 2; t++ {
				p := &c02Policy{kind: "bx", root: G(t, a, b)}
				c.Count("layout.bx.exh")
				c02Family(c, r, f, p, false, idx)
				idx++
			}
		}
	}
	for range 1500 {
		a, b, d := kids[r.IntN(len(kids))], kids[r.IntN(len(kids))], kids[r.IntN(len(kids))]
		p := &c02Policy{kind: "bx", root: G(1+r.IntN(3), a, b, d)}
		c.Count("layout.bx.exh")
		c02Family(c, r, f, p, false, idx)
		idx++
	}
}

func c02relabel(n *c02Node, lab []uint64) *c02Node {
	if n.leaf {
		return &c02Node{leaf: true, id: lab[n.id]}
	}
	out := &c02Node{t: n.t}
	for _, ch := range n.children {
		out.children = append(out.children, c02relabel(ch, lab))
	}
	return out
}

// ---------------------------------------------------------------- CNF antichains

// c02genAntichain: a random antichain of non-empty subsets of ids (up to the width of the middle
// layer), sometimes followed by a redundant subset / a duplicate so that normalisation matters.
func c02genAntichain(r *Rng, ids []uint64) *c02Policy {
	n := len(ids)
	want := 1 + r.IntN(10)
	var chosen []int
	for attempt := 0; attempt < 60 && len(chosen) < want; attempt++ {
		m := 1 + r.IntN(1<<n-1)
		ok := true
		for _, o := range chosen {
			if o&m == o || o&m == m {
				ok = false
				break
			}
		}
		if ok {
			chosen = append(chosen, m)
		}
	}
	var sets [][]uint64
	for _, m := range chosen {
		sets = append(sets, shuffled(r, subsetOf(ids, m)))
	}
	switch r.IntN(5) {
	case 0:
		sets = append(sets, slices.Clone(sets[r.IntN(len(sets))]))
	case 1:
		s := sets[r.IntN(len(sets))]
		if len(s) > 1 {
			sets = append(sets, slices.Clone(s[:len(s)-1]))
		}
	}
	return &c02Policy{kind: "cnf", sets: sets}
}

func c02Antichains[S algebra.PrimeFieldElement[S]](c *Ctx, f algebra.PrimeField[S], count int, stream uint64) {
	r := NewRng(c.Seed, 600+stream)
	for it := range count {
		n := 4 + r.IntN(2)
		ids := idLayout(r, n, r.IntN(2), 6)
		c.Count("layout.cnf")
		c02Family(c, r, f, c02genAntichain(r, ids), n <= 4, it)
	}
	// the layers: all k-subsets of n holders (the (k+1)-of-n threshold structure as a CNF)
	for n := 3; n <= 5; n++ {
		for k := 1; k < n; k++ {
			var sets [][]uint64
			for m := 1; m < 1<<n; m++ {
				if c02popcount(m) == k {
					sets = append(sets, subsetOf(c02idRange(1, n), m))
				}
			}
			c.Count("layout.cnf")
			c02Family(c, r, f, &c02Policy{kind: "cnf", sets: sets}, n <= 4, k)
		}
	}
}

func c02popcount(m int) int {
	k := 0
	for ; m > 0; m >>= 1 {
		k += m & 1
	}
	return k
}
