// c01_cover.go — covering arrays for the C01 configuration space.
//
// The property quantifies over a product of options (protocol variant × API × key generation × curve ×
// hash × … × access-structure family × quorum kind). The stream does not run the full product; it runs
// a *pairwise covering array*: a list of rows (one value per dimension) in which every pair of values
// of every two dimensions occurs together in at least one row. Rows are built greedily (AETG style)
// from the stream's Rng, so they differ with the seed but the coverage guarantee holds for every seed.
// Options that only exist for one variant (the vanilla Schnorr constructor arguments) get an array of
// their own, so that a pair is never "covered" by a row in which one of its values is ignored.

package main

import (
	"fmt"
	"sort"
	"strings"
)

type c01Dim struct {
	name string
	vals []string
}

type c01Pair struct{ i, vi, j, vj int }

// c01Cover returns rows of value indices covering every pair (i<j) of values of `dims`.
func c01Cover(r *Rng, dims []c01Dim) [][]int {
	unc := map[c01Pair]bool{}
	for i := range dims {
		for j := i + 1; j < len(dims); j++ {
			for vi := range dims[i].vals {
				for vj := range dims[j].vals {
					unc[c01Pair{i, vi, j, vj}] = true
				}
			}
		}
	}
	pairOf := func(a, va, b, vb int) c01Pair {
		if a < b {
			return c01Pair{a, va, b, vb}
		}
		return c01Pair{b, vb, a, va}
	}
	score := func(row []int) int {
		n := 0
		for i := range dims {
			for j := i + 1; j < len(dims); j++ {
				if row[i] >= 0 && row[j] >= 0 && unc[c01Pair{i, row[i], j, row[j]}] {
					n++
				}
			}
		}
		return n
	}
	var rows [][]int
	for len(unc) > 0 {
		// deterministic order of the uncovered pairs
		keys := make([]c01Pair, 0, len(unc))
		for k := range unc {
			keys = append(keys, k)
		}
		sort.Slice(keys, func(a, b int) bool {
			x, y := keys[a], keys[b]
			if x.i != y.i {
				return x.i < y.i
			}
			if x.j != y.j {
				return x.j < y.j
			}
			if x.vi != y.vi {
				return x.vi < y.vi
			}
			return x.vj < y.vj
		})
		var best []int
		bestScore := -1
		for range 24 {
			seedPair := keys[r.IntN(len(keys))]
			row := make([]int, len(dims))
			for d := range row {
				row[d] = -1
			}
			row[seedPair.i], row[seedPair.j] = seedPair.vi, seedPair.vj
			for _, d := range r.Perm(len(dims)) {
				if row[d] >= 0 {
					continue
				}
				bv, bs := 0, -1
				start := r.IntN(len(dims[d].vals))
				for k := range dims[d].vals {
					v := (start + k) % len(dims[d].vals)
					s := 0
					for d2 := range dims {
						if d2 != d && row[d2] >= 0 && unc[pairOf(d, v, d2, row[d2])] {
							s++
						}
					}
					if s > bs {
						bv, bs = v, s
					}
				}
				row[d] = bv
			}
			if s := score(row); s > bestScore {
				best, bestScore = row, s
			}
		}
		rows = append(rows, best)
		for i := range dims {
			for j := i + 1; j < len(dims); j++ {
				delete(unc, c01Pair{i, best[i], j, best[j]})
			}
		}
	}
	return rows
}

// c01PairsTotal is the number of value pairs a pairwise array over dims has to cover.
func c01PairsTotal(dims []c01Dim) int {
	n := 0
	for i := range dims {
		for j := i + 1; j < len(dims); j++ {
			n += len(dims[i].vals) * len(dims[j].vals)
		}
	}
	return n
}

// c01Row is one row of a covering array, addressed by dimension name.
type c01Row struct {
	array string
	dims  []c01Dim
	idx   []int
}

func (w c01Row) get(name string) string {
	for d, dim := range w.dims {
		if dim.name == name {
			return dim.vals[w.idx[d]]
		}
	}
	panic("c01Row: no dimension " + name)
}

func (w c01Row) String() string {
	parts := make([]string, len(w.dims))
	for d, dim := range w.dims {
		parts[d] = dim.name + "=" + dim.vals[w.idx[d]]
	}
	return strings.Join(parts, ",")
}

// countCovered records, for a run that completed, the option values and the value pairs it exercised.
// The pair keys are collapsed into `cover.<array>.pairs-covered` after all jobs have finished
// (c01CollapsePairs), so that the evidence carries measured coverage rather than planned coverage.
func (w c01Row) countCovered(o *jobOut) {
	for d, dim := range w.dims {
		o.Count(fmt.Sprintf("opt.%s.%s=%s", w.array, dim.name, dim.vals[w.idx[d]]))
		for e := d + 1; e < len(w.dims); e++ {
			o.Count(fmt.Sprintf("\x00pair.%s\x00%d=%d&%d=%d", w.array, d, w.idx[d], e, w.idx[e]))
		}
	}
}

// c01CollapsePairs replaces the per-pair statistics by one measured counter per array.
func c01CollapsePairs(c *Ctx, totals map[string]int) {
	covered := map[string]int{}
	for k := range c.Stats {
		if strings.HasPrefix(k, "\x00pair.") {
			parts := strings.SplitN(k[len("\x00pair."):], "\x00", 2)
			covered[parts[0]]++
			delete(c.Stats, k)
		}
	}
	for arr, tot := range totals {
		c.Stats["cover."+arr+".pairs-covered"] = covered[arr]
		c.Stats["cover."+arr+".pairs-total"] = tot
	}
}
