package main

import (
	"fmt"
	"math/big"
	"strconv"

	"github.com/bronlabs/bron-crypto/pkg/base/nt"
	"github.com/bronlabs/bron-crypto/pkg/base/nt/cardinal"
	"github.com/bronlabs/bron-crypto/pkg/base/nt/num"
	"github.com/bronlabs/bron-crypto/pkg/base/nt/znstar"
)

func mustN(v *big.Int) *num.Nat {
	x, err := num.N().FromBig(v)
	if err != nil {
		panic("N.FromBig " + v.Text(16))
	}
	return x
}
func mustZ(v *big.Int) *num.Int {
	x, err := num.Z().FromBig(v)
	if err != nil {
		panic("Z.FromBig " + v.Text(16))
	}
	return x
}
func mustNP(v *big.Int) *num.NatPlus {
	x, err := num.NPlus().FromBig(v)
	if err != nil {
		panic("NPlus.FromBig " + v.Text(16))
	}
	return x
}

type bigger interface{ Big() *big.Int }

func valOrErr[T bigger](v T, err error) string {
	if err != nil {
		return "none"
	}
	return "ok:" + v.Big().Text(16)
}
func ratS(r *num.Rat) string {
	return r.Numerator().Big().Text(16) + "|" + r.Denominator().Big().Text(16)
}

// c17Num: the algebraic wrappers num.N / NPlus / Z / Q / ZMod.
func c17Num(g *g17, count int) {
	h := func(v *big.Int) string { return v.Text(16) }
	for it := 0; it < count; it++ {
		switch op := g.r.IntN(30); op {
		case 0, 1, 2: // N: ring-like operations
			a, b := g.nat(), g.nat()
			if a.BitLen()+b.BitLen() > 4200 {
				b = g.smallNat()
			}
			if g.r.IntN(4) == 0 {
				b = new(big.Int).Set(a)
			}
			g.emit(fmt.Sprintf("N.arith %s %s", h(a), h(b)), func() string {
				x, y := mustN(a), mustN(b)
				g.xc("N.add", x.Add(y).Big(), new(big.Int).Add(a, b))
				g.xc("N.mul", x.Mul(y).Big(), new(big.Int).Mul(a, b))
				dec := "none"
				if d, err := x.Decrement(); err == nil {
					dec = "ok:" + h(d.Big())
				}
				return h(x.Add(y).Big()) + "," + h(x.Mul(y).Big()) + "," + valOrErr(x.TrySub(y)) + "," + h(x.Double().Big()) + "," + h(x.Square().Big()) +
					"," + h(x.Increment().Big()) + "," + dec + "," + strconv.Itoa(int(x.Compare(y))) + bb(x.IsLessThanOrEqual(y)) + bb(x.Equal(y))
			})
		case 3, 4, 5: // N: divisions
			a, b := g.smallNat(), g.smallNat()
			if g.r.IntN(3) == 0 && b.Sign() != 0 {
				a = new(big.Int).Mul(b, g.smallNat())
			}
			g.emit(fmt.Sprintf("N.div %s %s", h(a), h(b)), func() string {
				x, y := mustN(a), mustN(b)
				ed := "none"
				if q, r, err := x.EuclideanDiv(y); err == nil {
					ed = "ok:" + h(q.Big()) + ":" + h(r.Big())
				}
				return valOrErr(x.TryDiv(y)) + "," + valOrErr(x.TryDivVarTime(y)) + "," + valOrErr(x.DivRound(y)) + "," + valOrErr(x.DivRoundVarTime(y)) + "," + ed
			})
			// the variable-time Euclidean division is reported separately (its own root causes)
			g.emit(fmt.Sprintf("N.edivvt %s %s", h(a), h(b)), func() string {
				q, r, err := mustN(a).EuclideanDivVarTime(mustN(b))
				if err != nil {
					return "none"
				}
				return "ok:" + h(q.Big()) + ":" + h(r.Big())
			})
		case 6, 7: // N: gcd, coprime, sqrt, shifts, mod, unit, bytes
			a, b := g.smallNat(), g.smallNat()
			m := g.modulus()
			sh := g.r.IntN(130)
			g.emit(fmt.Sprintf("N.misc %s %s %s %d", h(a), h(b), h(m), sh), func() string {
				x, y, mm := mustN(a), mustN(b), mustNP(m)
				back, err := num.N().FromBytes(x.Bytes())
				if err != nil || !back.Equal(x) {
					g.c.Violation("N.FromBytes(Bytes) != n " + h(a))
				}
				return h(x.GCD(y).Big()) + "," + bb(x.Coprime(y)) + "," + valOrErr(x.Sqrt()) + "," + h(x.Lsh(uint(sh)).Big()) + "," + h(x.Rsh(uint(sh)).Big()) +
					"," + h(x.Mod(mm).Big()) + "," + bb(x.IsUnit(mm)) + "," + bb(x.IsZero()) + bb(x.IsOne()) + bb(x.IsEven()) + bb(x.IsOdd()) + bb(x.IsPositive()) +
					"," + strconv.Itoa(x.TrueLen()) + "," + strconv.Itoa(int(x.Bit(uint(sh)))) + "," + hexBytes(x.Bytes())
			})
		case 8, 9, 10: // Z: ring operations
			a, b := g.int(), g.int()
			if a.BitLen()+b.BitLen() > 4200 {
				b = g.smallInt()
			}
			switch g.r.IntN(6) {
			case 0:
				b = new(big.Int).Neg(a)
			case 1:
				b = new(big.Int).Set(a)
			}
			g.emit(fmt.Sprintf("Z.arith %s %s", h(a), h(b)), func() string {
				x, y := mustZ(a), mustZ(b)
				g.xc("Z.add", x.Add(y).Big(), new(big.Int).Add(a, b))
				g.xc("Z.sub", x.Sub(y).Big(), new(big.Int).Sub(a, b))
				g.xc("Z.mul", x.Mul(y).Big(), new(big.Int).Mul(a, b))
				return h(x.Add(y).Big()) + "," + h(x.Sub(y).Big()) + "," + h(x.Mul(y).Big()) + "," + h(x.Neg().Big()) + "," + h(x.Abs().Big()) + "," + h(x.Double().Big()) +
					"," + h(x.Square().Big()) + "," + h(x.Increment().Big()) + "," + h(x.Decrement().Big()) + "," + valOrErr(x.TryInv()) +
					"," + strconv.Itoa(int(x.Compare(y))) + bb(x.IsLessThanOrEqual(y)) + bb(x.Equal(y)) + bb(x.IsNegative()) + bb(x.IsPositive()) + bb(x.IsZero()) + bb(x.IsOne()) + bb(x.IsEven()) + bb(x.Coprime(y))
			})
		case 11, 12, 13: // Z: the division family with its documented conventions
			a, b := g.smallInt(), g.smallInt()
			if g.r.IntN(3) == 0 && b.Sign() != 0 {
				a = new(big.Int).Mul(b, g.smallInt())
			}
			g.emit(fmt.Sprintf("Z.div %s %s", h(a), h(b)), func() string {
				x, y := mustZ(a), mustZ(b)
				ed := "none"
				if q, r, err := x.EuclideanDiv(y); err == nil {
					ed = "ok:" + h(q.Big()) + ":" + h(r.Big())
				}
				return valOrErr(x.TryDiv(y)) + "," + valOrErr(x.DivRound(y)) + "," + ed
			})
			g.emit(fmt.Sprintf("Z.divvt %s %s", h(a), h(b)), func() string {
				x, y := mustZ(a), mustZ(b)
				ed := "none"
				if q, r, err := x.EuclideanDivVarTime(y); err == nil {
					ed = "ok:" + h(q.Big()) + ":" + h(r.Big())
				}
				return valOrErr(x.TryDivVarTime(y)) + "," + valOrErr(x.DivRoundVarTime(y)) + "," + ed
			})
		case 14, 15: // Z: mod, ranges, shifts, byte encodings
			a := g.int()
			m := g.modulus()
			if g.r.IntN(3) == 0 {
				a = g.residue(m)
				if g.r.IntN(2) == 0 {
					a.Neg(a)
				}
			}
			sh := g.r.IntN(130)
			g.emit(fmt.Sprintf("Z.misc %s %s %d", h(a), h(m), sh), func() string {
				x, mm := mustZ(a), mustNP(m)
				back, err := num.Z().FromBytes(x.Bytes())
				if err != nil || !back.Equal(x) {
					g.c.Violation("Z.FromBytes(Bytes) != z " + h(a))
				}
				back2, err := num.Z().FromTwosComplementBytesBE(x.TwosComplementBytesBE())
				if err != nil || !back2.Equal(x) {
					g.c.Violation("Z.FromTwosComplementBytesBE(TwosComplementBytesBE) != z " + h(a))
				}
				return h(x.Mod(mm).Big()) + "," + bb(x.IsInRange(mm)) + bb(x.IsInRangeSymmetric(mm)) + bb(x.IsUnit(mm)) + "," + h(x.Lsh(uint(sh)).Big()) + "," + h(x.Rsh(uint(sh)).Big()) +
					"," + hexBytes(x.Bytes()) + "," + hexBytes(x.AbsBytesBE()) + "," + hexBytes(x.TwosComplementBytesBE())
			})
		case 16, 17, 18, 19: // Q
			mk := func() (*big.Int, *big.Int) {
				n, d := g.intN(1+g.r.IntN(150)), g.natN(1+g.r.IntN(150))
				if d.Sign() == 0 {
					d = bi(1)
				}
				if g.r.IntN(4) == 0 { // not in lowest terms / integral
					f := bi(int64(1 + g.r.IntN(30)))
					n, d = new(big.Int).Mul(n, f), new(big.Int).Mul(d, f)
				}
				if g.r.IntN(8) == 0 {
					n = new(big.Int).Mul(d, bi(int64(g.r.IntN(7))-3))
				}
				return n, d
			}
			an, ad := mk()
			bn, bd := mk()
			if g.r.IntN(6) == 0 {
				bn, bd = new(big.Int).Mul(an, bi(3)), new(big.Int).Mul(ad, bi(3))
			}
			g.emit(fmt.Sprintf("Q.arith %s|%s %s|%s", h(an), h(ad), h(bn), h(bd)), func() string {
				x, _ := num.Q().New(mustZ(an), mustNP(ad))
				y, _ := num.Q().New(mustZ(bn), mustNP(bd))
				opt := func(r *num.Rat, err error) string {
					if err != nil {
						return "none"
					}
					return "ok:" + ratS(r)
				}
				oi := func(r *num.Int, err error) string {
					if err != nil {
						return "none"
					}
					return "ok:" + h(r.Big())
				}
				br := x.Big()
				g.xcs("Q.big", br.Num().Text(16)+"|"+br.Denom().Text(16), ratS(x.Canonical()))
				return ratS(x.Add(y)) + "," + ratS(x.Sub(y)) + "," + ratS(x.Mul(y)) + "," + opt(x.TryDiv(y)) + "," + opt(x.TryInv()) + "," + ratS(x.Neg()) + "," + ratS(x.Canonical()) +
					"," + oi(x.Ceil()) + "," + oi(x.Floor()) + "," + bb(x.IsLessThanOrEqual(y)) + bb(x.Equal(y)) + bb(x.IsInt()) + bb(x.IsZero()) + bb(x.IsOne()) + bb(x.IsNegative()) + bb(x.IsPositive())
			})
		default: // ZMod / Uint
			m := g.modulus()
			av, bv := g.residue(m), g.residue(m)
			e := g.intN(1 + g.r.IntN(200))
			if new(big.Int).GCD(nil, nil, new(big.Int).Mod(av, m), m).Cmp(bOne) != 0 {
				e.Abs(e)
			}
			sh := g.r.IntN(70)
			if m.BitLen() > 1100 {
				e = bi(int64(g.r.IntN(1000)))
			}
			bits := g.r.IntN(e.BitLen() + 3)
			g.emit(fmt.Sprintf("Zn.arith %s %s %s %s %d %d", h(m), h(av), h(bv), h(e), sh, bits), func() string {
				zn, err := num.NewZMod(mustNP(m))
				if err != nil {
					return "err"
				}
				x, err1 := zn.FromBig(av)
				y, err2 := zn.FromBig(bv)
				if err1 != nil || err2 != nil {
					return "err-frombig"
				}
				ez := mustZ(e)
				en := mustN(new(big.Int).Abs(e))
				return h(x.Big()) + "," + h(x.Add(y).Big()) + "," + h(x.Sub(y).Big()) + "," + h(x.Mul(y).Big()) + "," + h(x.Neg().Big()) + "," + h(x.Double().Big()) + "," + h(x.Square().Big()) +
					"," + h(x.Increment().Big()) + "," + h(x.Decrement().Big()) + "," + h(x.Exp(en).Big()) + "," + h(x.ExpI(ez).Big()) + "," + h(x.ExpBounded(en, uint(bits)).Big()) +
					"," + valOrErr(x.TryInv()) + "," + valOrErr(x.TryDiv(y)) + "," + bb(x.IsUnit()) + bb(x.IsZero()) + bb(x.IsOne()) + bb(x.Equal(y)) + bb(x.IsLessThanOrEqual(y)) +
					"," + h(x.Lsh(uint(sh)).Big()) + "," + h(x.Rsh(uint(sh)).Big()) + "," + h(x.Lift().Big())
			})
			if m.Cmp(bTwo) != 0 {
				g.emit(fmt.Sprintf("Zn.sqrt %s %s", h(m), h(av)), func() string {
					zn, _ := num.NewZMod(mustNP(m))
					x, _ := zn.FromBig(av)
					r, err := x.Sqrt()
					if (err == nil) != x.IsQuadraticResidue() {
						g.c.Violation("Zn.IsQuadraticResidue disagrees with Sqrt " + h(m) + " " + h(av))
					}
					return valOrErr(r, err)
				})
			}
		}
	}
}

// c17Jacobi: nt.Jacobi(x, y) for every integer x (negative included) and odd positive y.
func c17Jacobi(g *g17, count int) {
	for it := 0; it < count; it++ {
		var y *big.Int
		switch g.r.IntN(6) {
		case 0:
			y = g.prime()
		case 1:
			y = bi(int64(1 + 2*g.r.IntN(60)))
		case 2: // even: must be refused
			y = new(big.Int).Lsh(g.natN(64), 1)
			if y.Sign() == 0 {
				y = bi(2)
			}
		default:
			y = g.natN(g.bits())
			y.SetBit(y, 0, 1)
		}
		if y.BitLen() > 2300 {
			y = bi(int64(3 + 2*g.r.IntN(500)))
		}
		x := g.residue(y)
		switch g.r.IntN(6) {
		case 0:
			x = g.intN(y.BitLen() + 70)
		case 1:
			x = bi(int64(g.r.IntN(41)) - 20)
		case 2:
			x = new(big.Int).Lsh(x, uint(g.r.IntN(9)))
		}
		if g.r.IntN(5) < 2 {
			x = new(big.Int).Neg(x)
		}
		if x.Sign() < 0 {
			g.c.Count("jacobi.negative-numerator")
		}
		g.emit(fmt.Sprintf("jacobi %s %s", x.Text(16), y.Text(16)), func() string {
			j, err := nt.Jacobi(mustZ(x), mustNP(y))
			if err != nil {
				return "reject"
			}
			return strconv.Itoa(j)
		})
	}
}

// c17Cardinal: cardinal arithmetic (finite, infinite, unknown).
func c17Cardinal(g *g17, count int) {
	mk := func() (cardinal.Cardinal, string) {
		switch g.r.IntN(8) {
		case 0:
			return cardinal.Infinite(), "inf"
		case 1:
			return cardinal.Unknown(), "unk"
		default:
			v := g.natN(1 + g.r.IntN(300))
			return cardinal.NewFromBig(v), v.Text(16)
		}
	}
	cs := func(c cardinal.Cardinal) string {
		switch {
		case c.IsUnknown():
			return "unk"
		case !c.IsFinite():
			return "inf"
		}
		return c.Big().Text(16)
	}
	for it := 0; it < count; it++ {
		a, as := mk()
		b, bs := mk()
		g.emit(fmt.Sprintf("card %s %s", as, bs), func() string {
			sub, bl := "na", "na"
			if a.IsFinite() && !a.IsUnknown() {
				bl = strconv.Itoa(a.BitLen())
			}
			if ka, ok := a.(cardinal.Known); ok && b.IsFinite() && !b.IsUnknown() {
				sub = cs(ka.Sub(b))
			}
			return cs(a.Add(b)) + "," + cs(a.Mul(b)) + "," + sub + "," + bb(a.IsLessThanOrEqual(b)) + bb(a.Equal(b)) + bb(a.IsZero()) + "," + bl
		})
	}
}

// c17Znstar: unit groups (RSA group of known and unknown order): group law, inverse, exponentiation, membership.
func c17Znstar(g *g17, count int) {
	for it := 0; it < count; it++ {
		pb := 8 + g.r.IntN(60)
		p, q := g.oddPrimeBits(pb), g.oddPrimeBits(pb)
		if p.Cmp(q) == 0 {
			continue
		}
		n := new(big.Int).Mul(p, q)
		a, b := g.residue(n), g.residue(n)
		e := g.intN(1 + g.r.IntN(100))
		known := g.r.IntN(2) == 0
		head := fmt.Sprintf("%s %s %s", bb(known), p.Text(16), q.Text(16))
		line := fmt.Sprintf("zn.unit %s %s %s %s", head, a.Text(16), b.Text(16), e.Text(16))
		if known {
			grp, err := znstar.NewRSAGroup(mustNP(p), mustNP(q))
			if err != nil {
				g.c.Violation("NewRSAGroup rejected primes " + head)
				continue
			}
			g.emit(line, func() string {
				x, err1 := grp.FromNatCT(mustN(a).Value())
				y, err2 := grp.FromNatCT(mustN(b).Value())
				if err1 != nil || err2 != nil {
					return "notunit:" + bb(err1 != nil) + bb(err2 != nil)
				}
				j, _ := x.Jacobi()
				qr, _ := grp.IsQuadraticResidue(x)
				return x.Mul(y).Value().Big().Text(16) + "," + x.Inv().Value().Big().Text(16) + "," + x.Div(y).Value().Big().Text(16) + "," + x.Square().Value().Big().Text(16) +
					"," + x.ExpI(mustZ(e)).Value().Big().Text(16) + "," + x.Exp(mustN(new(big.Int).Abs(e))).Value().Big().Text(16) + "," + strconv.Itoa(j) + "," + bb(qr)
			})
		} else {
			grp, err := znstar.NewRSAGroupOfUnknownOrder(mustNP(n))
			if err != nil {
				g.c.Violation("NewRSAGroupOfUnknownOrder rejected " + n.Text(16))
				continue
			}
			g.emit(line, func() string {
				x, err1 := grp.FromNatCT(mustN(a).Value())
				y, err2 := grp.FromNatCT(mustN(b).Value())
				if err1 != nil || err2 != nil {
					return "notunit:" + bb(err1 != nil) + bb(err2 != nil)
				}
				j, _ := x.Jacobi()
				return x.Mul(y).Value().Big().Text(16) + "," + x.Inv().Value().Big().Text(16) + "," + x.Div(y).Value().Big().Text(16) + "," + x.Square().Value().Big().Text(16) +
					"," + x.ExpI(mustZ(e)).Value().Big().Text(16) + "," + x.Exp(mustN(new(big.Int).Abs(e))).Value().Big().Text(16) + "," + strconv.Itoa(j) + ",na"
			})
		}
	}
}

// c17Primes: generated primes are prime (Miller–Rabin in the model), of the requested bit length and form.
// crypto/rand.Prime is deliberately non-deterministic, so the generated values are part of the line.
func c17Primes(g *g17, scale int) {
	type pg struct {
		name string
		bits []uint
	}
	one := func(name string, bits uint, f func() (*num.NatPlus, error)) {
		g.emit(fmt.Sprintf("prime.%s %d", name, bits), func() string {
			p, err := f()
			if err != nil {
				return "err"
			}
			return p.Big().Text(16)
		})
	}
	pair := func(name string, bits uint, f func() (*num.NatPlus, *num.NatPlus, error)) {
		g.emit(fmt.Sprintf("primepair.%s %d", name, bits), func() string {
			p, q, err := f()
			if err != nil {
				return "err"
			}
			return p.Big().Text(16) + "," + q.Big().Text(16)
		})
	}
	for rep := 0; rep < 3*scale; rep++ {
		for _, b := range []uint{2, 3, 8, 16, 31, 64, 65, 128, 255, 256} {
			one("plain", b, func() (*num.NatPlus, error) { return nt.GeneratePrime(num.NPlus(), b, g.r) })
		}
		for _, b := range []uint{16, 24, 32, 64, 128, 256, 20, 33, 61} { // the last three: bits % 8 != 0
			one("blum", b, func() (*num.NatPlus, error) { return nt.GenerateBlumPrime(num.NPlus(), b, g.r) })
		}
		for _, b := range []uint{16, 24, 32, 40, 64} {
			one("safe", b, func() (*num.NatPlus, error) { return nt.GenerateSafePrime(num.NPlus(), b, g.r) })
		}
		for _, b := range []uint{32, 64, 128, 256} {
			pair("plain", b, func() (*num.NatPlus, *num.NatPlus, error) { return nt.GeneratePrimePair(num.NPlus(), b, g.r) })
			pair("blum", b, func() (*num.NatPlus, *num.NatPlus, error) { return nt.GenerateBlumPrimePair(num.NPlus(), b, g.r) })
		}
		pair("safe", 64, func() (*num.NatPlus, *num.NatPlus, error) { return nt.GenerateSafePrimePair(num.NPlus(), 64, g.r) })
	}
	one("plain", 512, func() (*num.NatPlus, error) { return nt.GeneratePrime(num.NPlus(), 512, g.r) })
	pair("plain", 1024, func() (*num.NatPlus, *num.NatPlus, error) { return nt.GeneratePrimePair(num.NPlus(), 1024, g.r) })
	pair("blum", 1024, func() (*num.NatPlus, *num.NatPlus, error) { return nt.GenerateBlumPrimePair(num.NPlus(), 1024, g.r) })
}

// c17Exhaustive: small exhaustive spaces (all Jacobi symbols for |x| <= 40, odd y <= 41; all inverses and roots modulo m <= 40).
func c17Exhaustive(g *g17) {
	maxY, maxX := int64(21), int64(24)
	if g.c.Thorough() {
		maxY, maxX = 61, 70
	}
	for y := int64(1); y <= maxY; y += 2 {
		for x := -maxX; x <= maxX; x++ {
			g.emit(fmt.Sprintf("jacobi %s %s", bi(x).Text(16), bi(y).Text(16)), func() string {
				j, err := nt.Jacobi(mustZ(bi(x)), mustNP(bi(y)))
				if err != nil {
					return "reject"
				}
				return strconv.Itoa(j)
			})
		}
	}
	maxM := int64(24)
	if g.c.Thorough() {
		maxM = 80
	}
	for m := int64(1); m <= maxM; m++ {
		for a := int64(0); a <= m+1; a++ {
			x := cnat{bi(a), 8}
			g.emit(fmt.Sprintf("m.modinv a0 %s %s", bi(m).Text(16), x), func() string {
				mod := mustModulus(bi(m))
				out := x.nat()
				unit := mod.IsUnit(x.nat())
				if mod.ModInv(out, x.nat()) != 1 {
					return "none," + b01(unit)
				}
				return "ok:" + out.Big().Text(16) + "," + b01(unit)
			})
			if m != 2 {
				g.emit(fmt.Sprintf("m.modsqrt %s %s", bi(m).Text(16), x), func() string {
					out := x.nat()
					if mustModulus(bi(m)).ModSqrt(out, x.nat()) != 1 {
						return "none"
					}
					return "ok:" + out.Big().Text(16)
				})
			}
		}
	}
}
