// c04_types.go — C04: the recipient's view of a (possibly mutated) encoding: decode it AS THE MESSAGE
// TYPE with the library's decoder and re-encode. The tamper matrix calls a mutation value-changing
// exactly when this canonical re-encoding differs from the sender's original encoding (fixed-size
// arrays silently drop excess bytes, unknown fields are rejected, …: only the typed decoder knows).

package main

import (
	"bytes"

	"github.com/bronlabs/bron-crypto/pkg/base/serde"
	"github.com/bronlabs/bron-crypto/pkg/mpc/dkg/canetti"
	"github.com/bronlabs/bron-crypto/pkg/mpc/dkg/gennaro"
	"github.com/bronlabs/bron-crypto/pkg/mpc/redistribute"
	"github.com/bronlabs/bron-crypto/pkg/mpc/session"
	"github.com/bronlabs/bron-crypto/pkg/mpc/signatures/bls/boldyreva02"
	"github.com/bronlabs/bron-crypto/pkg/mpc/signatures/ecdsa/dkls23"
	"github.com/bronlabs/bron-crypto/pkg/mpc/signatures/ecdsa/dkls23/signing_bbot"
	"github.com/bronlabs/bron-crypto/pkg/mpc/signatures/ecdsa/dkls23/signing_softspoken"
	"github.com/bronlabs/bron-crypto/pkg/mpc/signatures/schnorr/lindell22"
	l22signing "github.com/bronlabs/bron-crypto/pkg/mpc/signatures/schnorr/lindell22/signing"
	"github.com/bronlabs/bron-crypto/pkg/mpc/zero/hjky"
)

func c04CanonAs[M any](b []byte) (out []byte, ok bool) {
	defer func() {
		if e := recover(); e != nil {
			out, ok = nil, false
		}
	}()
	m, err := serde.UnmarshalCBOR[M](b)
	if err != nil {
		return nil, false
	}
	out, err = serde.MarshalCBOR(m)
	if err != nil {
		return nil, false
	}
	return out, true
}

// c04TypedCanon re-encodes b as the type of msg; known=false when the type is not listed.
func c04TypedCanon(msg any, b []byte) (out []byte, ok, known bool) {
	type (
		kp = *k256Point
		kb = *k256Base
		ks = *k256Scalar
	)
	known = true
	switch msg.(type) {
	case *session.Round1Broadcast:
		out, ok = c04CanonAs[*session.Round1Broadcast](b)
	case *session.Round2Broadcast:
		out, ok = c04CanonAs[*session.Round2Broadcast](b)
	case *session.Round2P2P:
		out, ok = c04CanonAs[*session.Round2P2P](b)
	case *session.Round3P2P:
		out, ok = c04CanonAs[*session.Round3P2P](b)
	case *gennaro.Round1Broadcast[kp, ks]:
		out, ok = c04CanonAs[*gennaro.Round1Broadcast[kp, ks]](b)
	case *gennaro.Round1Unicast[kp, ks]:
		out, ok = c04CanonAs[*gennaro.Round1Unicast[kp, ks]](b)
	case *gennaro.Round2Broadcast[kp, ks]:
		out, ok = c04CanonAs[*gennaro.Round2Broadcast[kp, ks]](b)
	case *canetti.Round1Broadcast[kp, ks]:
		out, ok = c04CanonAs[*canetti.Round1Broadcast[kp, ks]](b)
	case *canetti.Round2Broadcast[kp, ks]:
		out, ok = c04CanonAs[*canetti.Round2Broadcast[kp, ks]](b)
	case *canetti.Round2P2P[kp, ks]:
		out, ok = c04CanonAs[*canetti.Round2P2P[kp, ks]](b)
	case *canetti.Round3Broadcast[kp, ks]:
		out, ok = c04CanonAs[*canetti.Round3Broadcast[kp, ks]](b)
	case *hjky.Round1Broadcast[kp, ks]:
		out, ok = c04CanonAs[*hjky.Round1Broadcast[kp, ks]](b)
	case *hjky.Round1P2P[kp, ks]:
		out, ok = c04CanonAs[*hjky.Round1P2P[kp, ks]](b)
	case *redistribute.Round1Broadcast[kp, ks]:
		out, ok = c04CanonAs[*redistribute.Round1Broadcast[kp, ks]](b)
	case *redistribute.Round1P2P[kp, ks]:
		out, ok = c04CanonAs[*redistribute.Round1P2P[kp, ks]](b)
	case *redistribute.Round2Broadcast[kp, ks]:
		out, ok = c04CanonAs[*redistribute.Round2Broadcast[kp, ks]](b)
	case *redistribute.Round2P2P[kp, ks]:
		out, ok = c04CanonAs[*redistribute.Round2P2P[kp, ks]](b)
	case *signing_softspoken.Round1P2P[kp, kb, ks]:
		out, ok = c04CanonAs[*signing_softspoken.Round1P2P[kp, kb, ks]](b)
	case *signing_softspoken.Round2P2P[kp, kb, ks]:
		out, ok = c04CanonAs[*signing_softspoken.Round2P2P[kp, kb, ks]](b)
	case *signing_softspoken.Round3Broadcast[kp, kb, ks]:
		out, ok = c04CanonAs[*signing_softspoken.Round3Broadcast[kp, kb, ks]](b)
	case *signing_softspoken.Round3P2P[kp, kb, ks]:
		out, ok = c04CanonAs[*signing_softspoken.Round3P2P[kp, kb, ks]](b)
	case *signing_softspoken.Round4Broadcast[kp, kb, ks]:
		out, ok = c04CanonAs[*signing_softspoken.Round4Broadcast[kp, kb, ks]](b)
	case *signing_softspoken.Round4P2P[kp, kb, ks]:
		out, ok = c04CanonAs[*signing_softspoken.Round4P2P[kp, kb, ks]](b)
	case *signing_bbot.Round1Broadcast[kp, kb, ks]:
		out, ok = c04CanonAs[*signing_bbot.Round1Broadcast[kp, kb, ks]](b)
	case *signing_bbot.Round1P2P[kp, kb, ks]:
		out, ok = c04CanonAs[*signing_bbot.Round1P2P[kp, kb, ks]](b)
	case *signing_bbot.Round2Broadcast[kp, kb, ks]:
		out, ok = c04CanonAs[*signing_bbot.Round2Broadcast[kp, kb, ks]](b)
	case *signing_bbot.Round2P2P[kp, kb, ks]:
		out, ok = c04CanonAs[*signing_bbot.Round2P2P[kp, kb, ks]](b)
	case *signing_bbot.Round3Broadcast[kp, kb, ks]:
		out, ok = c04CanonAs[*signing_bbot.Round3Broadcast[kp, kb, ks]](b)
	case *signing_bbot.Round3P2P[kp, kb, ks]:
		out, ok = c04CanonAs[*signing_bbot.Round3P2P[kp, kb, ks]](b)
	case *dkls23.PartialSignature[kp, kb, ks]:
		out, ok = c04CanonAs[*dkls23.PartialSignature[kp, kb, ks]](b)
	case *l22signing.Round1Broadcast[kp, ks, []byte]:
		out, ok = c04CanonAs[*l22signing.Round1Broadcast[kp, ks, []byte]](b)
	case *l22signing.Round1P2P[kp, ks, []byte]:
		out, ok = c04CanonAs[*l22signing.Round1P2P[kp, ks, []byte]](b)
	case *l22signing.Round2Broadcast[kp, ks, []byte]:
		out, ok = c04CanonAs[*l22signing.Round2Broadcast[kp, ks, []byte]](b)
	case *lindell22.PartialSignature[kp, ks]:
		out, ok = c04CanonAs[*lindell22.PartialSignature[kp, ks]](b)
	case *boldyreva02.PartialSignature[g2, g2f, g1, g1f, gt, bsc]:
		out, ok = c04CanonAs[*boldyreva02.PartialSignature[g2, g2f, g1, g1f, gt, bsc]](b)
	default:
		known = false
	}
	return out, ok, known
}

// c04ChangedTyped: "u" undecodable as the message type, "0" same value, "1" another value.
func c04ChangedTyped(msg any, orig, mut []byte) string {
	cm, ok, known := c04TypedCanon(msg, mut)
	if !known {
		return c04Changed(orig, mut)
	}
	if !ok {
		return "u"
	}
	co, ok0, _ := c04TypedCanon(msg, orig)
	if !ok0 {
		co = orig
	}
	if bytes.Equal(co, cm) {
		return "0"
	}
	return "1"
}
