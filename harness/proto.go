// proto.go — shared in-process protocol layer of the harness.
//
// PURPOSE.  Run the library's multi-party protocols (pkg/mpc/**) inside the harness process,
// round by round, with every outgoing message passing ONE router (`(*Net).deliver`) and a
// consumer-supplied Hook, every party reading from its OWN io.Reader, errors mapped to canonical
// classes, panics recovered, and a watchdog.  C01/C03/C04/C06/C07/C10/C11 build on it.
//
// FILES.   proto.go          core: IDs, access-structure specs, Net/Hook/router, classification,
//                            session setup, runner variant, shard views
//          proto_dkg.go      runTrustedDealer, runGennaro, runCanetti (+ runner variants)
//          proto_sign.go     runDKLs23 (bbot|softspoken), runLindell22 (vanilla|bip340|mina),
//                            runBoldyreva, runLindell17DKG / runLindell17Deal / runLindell17Sign
//          proto_epoch.go    runHJKY (zero sharing), runRedistribute (refresh/recover/redistribute),
//                            runLindell17Deal / runLindell17Sign
//          proto_types.go    short names of the concrete point/field/scalar types per curve
//          proto_selftest.go `harness PROTO`: runs everything once, prints wall time and classes
//          c03.go            genIDs / genSpec (random access structures with arbitrary IDs), runJobs
//                            (parallel cases, deterministic emission order) — reusable by consumers
//
// API (all generic over the group/curve exactly where the library is):
//
//   type ID = sharing.ID
//   parseAccess(spec) (accessstructures.Monotone, error)        compact spec strings:
//        th:<t>:<id,id,…>            threshold t-of-n                e.g. th:2:1,2,3
//        un:<id,id,…>                unanimity                       e.g. un:7,9
//        cnf:<ids>|<ids>|…           CNF by maximal UNqualified sets e.g. cnf:1,2|3,4|1,3
//        hier:<t>:<ids>|<t>:<ids>|…  hierarchical conjunctive levels e.g. hier:1:1,2|3:3,4,5
//        bool:<expr>                 threshold-gate tree             e.g. bool:and(1,or(2,3),th2(4,5,6))
//      IDs are arbitrary non-zero uint64 in decimal.  `accessIDs(ac)` lists the holders sorted;
//      `mustAccess(spec)` panics on a bad spec.
//   qualifiedSets(ac) (qualified, unqualified [][]ID) / minimalQualifiedSets(ac)   over all ≤ 2^16 subsets
//   genIDs(rng, n, maxID) / genSpec(rng, family, n, capCNF)  (c03.go) random structures, arbitrary IDs
//
//   type Hook interface { OnMessage(protocol string, round int, from, to ID, broadcast bool,
//                                   msg any) (replacement any, drop bool) }
//        * called once per unicast (to = recipient) and ONCE per broadcast (to = 0): what the hook
//          returns for a broadcast is delivered identically to every recipient;
//        * `msg` is the typed round message (pointer to the library's struct); return it (or nil)
//          to pass it on, return another value of the same type to replace it, or return a
//          `[]byte` to have those bytes CBOR-decoded at the recipient as the message type
//          (undecodable bytes ⇒ the message is missing for that recipient; recorded in the log);
//        * `round` is the round whose OUTPUT the message is (1-based).
//      Ready-made hooks: nil (none; Net.Log records every message regardless), HookFunc, TamperHook{Match,Apply}.
//
//   newNet(protocol, ids, rngs map[ID]io.Reader, hook) *Net
//        Net.Log          []MsgRecord  every message: CBOR before/after the hook, dropped, undecodable
//        Net.RoundStatus  []map[ID]string   per executed round: class per party
//        Net.Status       map[ID]string     final class per party (first non-ok, else ok)
//        Net.Reads        []map[ID]int64    bytes each party drew from its reader in that round
//        Net.FailedRound  0 if every round of every party was ok; -1 if a constructor (or runner) failed
//        Net.Rng(id)      the party's counting reader (*CountingReader{N})
//      classes: ok | abort | abort-blame:<sorted,ids> | err:<root-sentinel> | panic | hang
//      After a round in which some party is not ok the run stops (later rounds are not executed).
//      Every run* function wraps its body in the watchdog (`Net.Timeout`, default 120 s): on
//      expiry every party without a status gets `hang` and the function returns.
//
//   runSession(ids, rngs, hook) (*Net, map[ID]*session.Context)        4 rounds
//   dealerContexts(ids, rng) map[ID]*session.Context                    trusted setup (no rounds; fast)
//   runTrustedDealer(group, ac, rng)                → *DKGResult
//   runGennaro(group, ac, ctxs, rngs, hook, nic)    → *DKGResult        3 rounds (nic: defaultCompiler)
//   runCanetti(group, ac, ctxs, rngs, hook)         → *DKGResult        4 rounds
//        DKGResult{Net, Shards map[ID]*mpc.BaseShard, DealerVV map[ID][]G (each dealer's broadcast
//        Feldman vector), PedersenVV (Gennaro r1)}
//   runGennaroRunner / runCanettiRunner (…)         → same, through network.Runner over routers
//   runRunners(net, runners map[ID]network.Runner[O]) map[ID]O         generic networked variant
//        (pkg/network routers over ntu.MockCoordinator; Net.DeliveryHook may tamper raw payloads)
//   shardView(shard) ShardView{Rows [][]S, Labels []ID, V []G, PK G, ShareID, Share []S}
//   runDKLs23(variant, suite, baseShards, quorum, ctxs, msg, rngs, hook) → *ECDSAResult{Net, PK, Partials,
//        NoncePoints map[ID]P (broadcast R_i), PkShares, Sig, SigAlt (second aggregation order), AggStatus}
//   runLindell22(variant, …) → *SchnorrResult ; runBoldyreva(…) ; runLindell17*(…) ; runHJKY ; runRedistribute
//   (see the headers of the other proto_*.go files)
//
// TIMES (this sandbox, purego, one run, unloaded machine; `harness PROTO [quick|thorough]` re-measures):
//   session 3 parties 2 ms | trusted dealer k256 40 ms | Gennaro k256 th2of3 120 ms, BLS G1 cnf/4 1.6 s,
//   BLS G2 th2of3 6 s | Canetti k256 50 ms, ed25519 hier/5 0.6 s | runners ≈ same
//   DKLs23 softspoken 2 parties 0.8 s; DKLs23 bbot 2 parties 9 s, 3 parties 23 s (!)
//   Lindell22 40–90 ms | Boldyreva short 0.5 s, long 1.3 s | HJKY / redistribute: see proto_epoch.go
//   Lindell17: the library insists on ≥ 3072-bit Paillier keys outside `go test` (tens of seconds per
//   key): only in `harness PROTO thorough`.  CGGMP21 is not wrapped (keygen ≈ 170 s in the repo's tests).
//
// KNOWN LIBRARY BEHAVIOUR met while building this layer (see c03.go): cnf.InducedMSP panics for holder
// IDs > 64; a CNF holder that is in every maximal unqualified set gets no MSP row (the trusted dealer
// returns no shard for it, honest Canetti aborts blaming an honest party); hierarchical structures
// need ascending IDs per level and a threshold ≥ 2.

package main

import (
	"context"
	"fmt"
	"io"
	"slices"
	"sort"
	"strconv"
	"strings"
	"sync"
	"time"

	"github.com/bronlabs/errs-go/errs"

	"github.com/bronlabs/bron-crypto/pkg/base"
	"github.com/bronlabs/bron-crypto/pkg/base/algebra"
	ds "github.com/bronlabs/bron-crypto/pkg/base/datastructures"
	"github.com/bronlabs/bron-crypto/pkg/base/datastructures/hashmap"
	"github.com/bronlabs/bron-crypto/pkg/base/datastructures/hashset"
	"github.com/bronlabs/bron-crypto/pkg/base/serde"
	"github.com/bronlabs/bron-crypto/pkg/base/utils"
	"github.com/bronlabs/bron-crypto/pkg/mpc"
	"github.com/bronlabs/bron-crypto/pkg/mpc/session"
	"github.com/bronlabs/bron-crypto/pkg/mpc/sharing"
	"github.com/bronlabs/bron-crypto/pkg/mpc/sharing/accessstructures"
	"github.com/bronlabs/bron-crypto/pkg/mpc/sharing/accessstructures/boolexpr"
	"github.com/bronlabs/bron-crypto/pkg/mpc/sharing/accessstructures/cnf"
	"github.com/bronlabs/bron-crypto/pkg/mpc/sharing/accessstructures/hierarchical"
	"github.com/bronlabs/bron-crypto/pkg/mpc/sharing/accessstructures/threshold"
	"github.com/bronlabs/bron-crypto/pkg/mpc/sharing/accessstructures/unanimity"
	"github.com/bronlabs/bron-crypto/pkg/network"
	ntu "github.com/bronlabs/bron-crypto/pkg/network/testutils"
)

// ID is the library's shareholder identifier (uint64).
type ID = sharing.ID

// ---------------------------------------------------------------------------------------------
// IDs and access structures

func idsStr(ids []ID) string {
	out := make([]string, len(ids))
	for i, id := range ids {
		out[i] = strconv.FormatUint(uint64(id), 10)
	}
	return joinComma(out)
}

func sortedIDs(ids []ID) []ID {
	out := slices.Clone(ids)
	slices.Sort(out)
	return out
}

func idSet(ids ...ID) ds.Set[ID] { return hashset.NewComparable(ids...).Freeze() }

func parseIDs(s string) ([]ID, error) {
	if s == "" || s == "-" {
		return nil, nil
	}
	var out []ID
	for _, t := range strings.Split(s, ",") {
		v, err := strconv.ParseUint(strings.TrimSpace(t), 10, 64)
		if err != nil {
			return nil, fmt.Errorf("bad id %q", t)
		}
		out = append(out, ID(v))
	}
	return out, nil
}

// parseAccess builds an access structure from the compact spec (see the header).
func parseAccess(spec string) (accessstructures.Monotone, error) {
	kind, rest, ok := strings.Cut(spec, ":")
	if !ok {
		return nil, fmt.Errorf("bad access spec %q", spec)
	}
	switch kind {
	case "th":
		ts, idsS, ok := strings.Cut(rest, ":")
		if !ok {
			return nil, fmt.Errorf("bad threshold spec %q", spec)
		}
		t, err := strconv.ParseUint(ts, 10, 32)
		if err != nil {
			return nil, err
		}
		ids, err := parseIDs(idsS)
		if err != nil {
			return nil, err
		}
		return threshold.NewThresholdAccessStructure(uint(t), idSet(ids...))
	case "un":
		ids, err := parseIDs(rest)
		if err != nil {
			return nil, err
		}
		return unanimity.NewUnanimityAccessStructure(idSet(ids...))
	case "cnf":
		var sets []ds.Set[ID]
		for _, part := range strings.Split(rest, "|") {
			ids, err := parseIDs(part)
			if err != nil {
				return nil, err
			}
			sets = append(sets, idSet(ids...))
		}
		return cnf.NewCNFAccessStructure(sets...)
	case "hier":
		var levels []*hierarchical.ThresholdLevel
		for _, part := range strings.Split(rest, "|") {
			ts, idsS, ok := strings.Cut(part, ":")
			if !ok {
				return nil, fmt.Errorf("bad level %q", part)
			}
			t, err := strconv.Atoi(ts)
			if err != nil {
				return nil, err
			}
			ids, err := parseIDs(idsS)
			if err != nil {
				return nil, err
			}
			levels = append(levels, hierarchical.WithLevel(t, ids...))
		}
		return hierarchical.NewHierarchicalConjunctiveThresholdAccessStructure(levels...)
	case "bool":
		p := &boolParser{s: rest}
		n, err := p.node()
		if err != nil {
			return nil, err
		}
		if p.i != len(p.s) {
			return nil, fmt.Errorf("trailing input in %q", spec)
		}
		return boolexpr.NewThresholdGateAccessStructure(n)
	}
	return nil, fmt.Errorf("unknown access family %q", kind)
}

func mustAccess(spec string) accessstructures.Monotone {
	ac, err := parseAccess(spec)
	if err != nil {
		panic(fmt.Sprintf("parseAccess(%s): %v", spec, err))
	}
	return ac
}

type boolParser struct {
	s string
	i int
}

// node := <id> | and(<node>,…) | or(<node>,…) | th<k>(<node>,…)
func (p *boolParser) node() (*boolexpr.Node, error) {
	start := p.i
	for p.i < len(p.s) && p.s[p.i] != '(' && p.s[p.i] != ',' && p.s[p.i] != ')' {
		p.i++
	}
	word := p.s[start:p.i]
	if p.i >= len(p.s) || p.s[p.i] != '(' {
		v, err := strconv.ParseUint(word, 10, 64)
		if err != nil {
			return nil, fmt.Errorf("bad leaf %q", word)
		}
		return boolexpr.ID(ID(v)), nil
	}
	p.i++ // (
	var kids []*boolexpr.Node
	for {
		k, err := p.node()
		if err != nil {
			return nil, err
		}
		kids = append(kids, k)
		if p.i >= len(p.s) {
			return nil, fmt.Errorf("unterminated gate")
		}
		if p.s[p.i] == ',' {
			p.i++
			continue
		}
		if p.s[p.i] == ')' {
			p.i++
			break
		}
		return nil, fmt.Errorf("unexpected %q", p.s[p.i])
	}
	switch {
	case word == "and":
		return boolexpr.And(kids...), nil
	case word == "or":
		return boolexpr.Or(kids...), nil
	case strings.HasPrefix(word, "th"):
		k, err := strconv.Atoi(word[2:])
		if err != nil {
			return nil, fmt.Errorf("bad gate %q", word)
		}
		return boolexpr.Threshold(k, kids...), nil
	}
	return nil, fmt.Errorf("unknown gate %q", word)
}

func accessIDs(ac accessstructures.Monotone) []ID { return sortedIDs(ac.Shareholders().List()) }

// subsetsOf enumerates all non-empty subsets of ids (sorted ids, by bitmask order). n ≤ 16.
func subsetsOf(ids []ID) [][]ID {
	ids = sortedIDs(ids)
	n := len(ids)
	if n > 16 {
		panic("subsetsOf: too many holders")
	}
	var out [][]ID
	for m := 1; m < 1<<n; m++ {
		var s []ID
		for i := range n {
			if m>>i&1 == 1 {
				s = append(s, ids[i])
			}
		}
		out = append(out, s)
	}
	return out
}

// qualifiedSets / unqualifiedSets by the access structure's own IsQualified.
func qualifiedSets(ac accessstructures.Monotone) (q, u [][]ID) {
	for _, s := range subsetsOf(accessIDs(ac)) {
		if ac.IsQualified(s...) {
			q = append(q, s)
		} else {
			u = append(u, s)
		}
	}
	return q, u
}

// minimalQualifiedSets: qualified sets none of whose proper subsets (one element removed) is qualified.
func minimalQualifiedSets(ac accessstructures.Monotone) [][]ID {
	q, _ := qualifiedSets(ac)
	var out [][]ID
	for _, s := range q {
		minimal := true
		for i := range s {
			t := append(slices.Clone(s[:i]), s[i+1:]...)
			if len(t) > 0 && ac.IsQualified(t...) {
				minimal = false
				break
			}
		}
		if minimal {
			out = append(out, s)
		}
	}
	return out
}

// ---------------------------------------------------------------------------------------------
// Randomness: one reader per party

// CountingReader counts the bytes drawn from R.
type CountingReader struct {
	R  io.Reader
	N  int64
	mu sync.Mutex
}

func (c *CountingReader) Read(p []byte) (int, error) {
	n, err := c.R.Read(p)
	c.mu.Lock()
	c.N += int64(n)
	c.mu.Unlock()
	return n, err
}

func (c *CountingReader) Count() int64 {
	c.mu.Lock()
	defer c.mu.Unlock()
	return c.N
}

// partyRngs derives one deterministic stream per party: NewRng(seed, base+index in sorted order).
func partyRngs(seed int64, streamBase uint64, ids []ID) map[ID]io.Reader {
	out := map[ID]io.Reader{}
	for i, id := range sortedIDs(ids) {
		out[id] = NewRng(seed, streamBase+uint64(i))
	}
	return out
}

// ---------------------------------------------------------------------------------------------
// Net: the router, the hook, status bookkeeping

// Hook sees (and may replace or drop) every message between parties. See the header.
type Hook interface {
	OnMessage(protocol string, round int, from, to ID, broadcast bool, msg any) (replacement any, drop bool)
}

// HookFunc adapts a function to Hook.
type HookFunc func(protocol string, round int, from, to ID, broadcast bool, msg any) (any, bool)

func (f HookFunc) OnMessage(protocol string, round int, from, to ID, broadcast bool, msg any) (any, bool) {
	return f(protocol, round, from, to, broadcast, msg)
}

// TamperHook applies Apply to the CBOR bytes of the messages selected by Match.
type TamperHook struct {
	Match func(protocol string, round int, from, to ID, broadcast bool) bool
	Apply func(cbor []byte) (out []byte, drop bool)
	Hits  int
}

func (t *TamperHook) OnMessage(protocol string, round int, from, to ID, broadcast bool, msg any) (any, bool) {
	if t.Match == nil || !t.Match(protocol, round, from, to, broadcast) {
		return msg, false
	}
	t.Hits++
	b, err := serde.MarshalCBOR(msg)
	if err != nil {
		return msg, false
	}
	out, drop := t.Apply(b)
	if drop {
		return nil, true
	}
	return out, false
}

// MsgRecord is one routed message.
type MsgRecord struct {
	Protocol    string
	Round       int
	From, To    ID // To == 0 for broadcasts
	Broadcast   bool
	Orig        []byte // CBOR of the message as produced by the sender
	Sent        []byte // CBOR after the hook (nil when dropped)
	Dropped     bool
	Replaced    bool
	Undecodable []ID // recipients for which Sent did not decode as the message type
}

// Net is one protocol execution.
type Net struct {
	Protocol    string
	IDs         []ID // sorted participants
	Hook        Hook
	Timeout     time.Duration
	Log         []MsgRecord
	RoundStatus []map[ID]string
	Reads       []map[ID]int64
	Status      map[ID]string
	FailedRound int
	Elapsed     time.Duration
	// DeliveryHook (runner variant only) sees raw router payloads.
	DeliveryHook func(from, to ID, payload []byte) (out []byte, drop bool)

	rngs map[ID]*CountingReader
	mu   sync.Mutex
}

// netTimeout is the default watchdog time of a Net; a stream that runs many protocol instances
// concurrently on a loaded machine may raise it (one process runs one stream).
var netTimeout = 120 * time.Second

func newNet(protocol string, ids []ID, rngs map[ID]io.Reader, hook Hook) *Net {
	n := &Net{Protocol: protocol, IDs: sortedIDs(ids), Hook: hook, Timeout: netTimeout,
		Status: map[ID]string{}, rngs: map[ID]*CountingReader{}}
	for _, id := range n.IDs {
		r, ok := rngs[id]
		if !ok || r == nil {
			panic(fmt.Sprintf("newNet(%s): no rng for party %d", protocol, id))
		}
		if cr, ok := r.(*CountingReader); ok {
			n.rngs[id] = cr
		} else {
			n.rngs[id] = &CountingReader{R: r}
		}
	}
	return n
}

// Rng returns the party's (counting) reader.
func (n *Net) Rng(id ID) *CountingReader { return n.rngs[id] }

// OK reports whether every party completed every round.
func (n *Net) OK() bool {
	if n.FailedRound != 0 {
		return false
	}
	for _, id := range n.IDs {
		if s, ok := n.Status[id]; ok && s != "ok" {
			return false
		}
	}
	return true
}

// StatusStr renders the final classes in ID order: "1=ok,2=abort-blame:3".
func (n *Net) StatusStr() string {
	out := make([]string, 0, len(n.IDs))
	for _, id := range n.IDs {
		s := n.Status[id]
		if s == "" {
			s = "none"
		}
		out = append(out, fmt.Sprintf("%d=%s", id, s))
	}
	return strings.Join(out, ";")
}

// deliver is THE router: every message of every round-by-round run passes here exactly once
// (once per unicast, once per broadcast). It calls the hook, logs, and returns what to hand to
// the recipient(s): a typed message, raw bytes, or nothing.
func (n *Net) deliver(round int, from, to ID, broadcast bool, msg any) (out any, drop bool) {
	rec := MsgRecord{Protocol: n.Protocol, Round: round, From: from, To: to, Broadcast: broadcast}
	if b, err := serde.MarshalCBOR(msg); err == nil {
		rec.Orig = b
	}
	out = msg
	if n.Hook != nil {
		r, d := n.Hook.OnMessage(n.Protocol, round, from, to, broadcast, msg)
		if d {
			rec.Dropped = true
			n.mu.Lock()
			n.Log = append(n.Log, rec)
			n.mu.Unlock()
			return nil, true
		}
		if r != nil {
			out = r
		}
	}
	switch v := out.(type) {
	case []byte:
		rec.Sent = v
	default:
		if b, err := serde.MarshalCBOR(out); err == nil {
			rec.Sent = b
		}
	}
	rec.Replaced = string(rec.Sent) != string(rec.Orig)
	n.mu.Lock()
	n.Log = append(n.Log, rec)
	n.mu.Unlock()
	return out, false
}

func (n *Net) markUndecodable(round int, from, to ID, broadcast bool, rcpt ID) {
	n.mu.Lock()
	defer n.mu.Unlock()
	for i := len(n.Log) - 1; i >= 0; i-- {
		r := &n.Log[i]
		if r.Round == round && r.From == from && r.Broadcast == broadcast && (broadcast || r.To == to) {
			r.Undecodable = append(r.Undecodable, rcpt)
			return
		}
	}
}

// decodeAs turns what deliver returned into the recipient's own copy of the message: always through
// a CBOR round-trip (as on a real wire), so recipients never share pointers with the sender.
func decodeAs[M any](v any) (M, bool) {
	var zero M
	var b []byte
	switch x := v.(type) {
	case []byte:
		b = x
	default:
		m, ok := v.(M)
		if !ok {
			return zero, false
		}
		var err error
		b, err = serde.MarshalCBOR(m)
		if err != nil {
			return zero, false
		}
	}
	var m M
	var err error
	func() {
		defer func() {
			if e := recover(); e != nil {
				err = fmt.Errorf("panic in decode: %v", e)
			}
		}()
		m, err = serde.UnmarshalCBOR[M](b)
	}()
	if err != nil {
		return zero, false
	}
	return m, true
}

// routeB delivers the broadcasts produced in `round` to every other participant of `rcpts`.
func routeB[M network.Message[P], P any](n *Net, round int, rcpts []ID, outs map[ID]M) map[ID]network.RoundMessages[M, P] {
	ins := map[ID]*hashmapBuilder[M]{}
	for _, r := range rcpts {
		ins[r] = newBuilder[M]()
	}
	for _, from := range sortedKeys(outs) {
		msg := outs[from]
		if utils.IsNil(msg) {
			continue
		}
		v, drop := n.deliver(round, from, 0, true, msg)
		if drop {
			continue
		}
		for _, to := range rcpts {
			if to == from {
				continue
			}
			m, ok := decodeAs[M](v)
			if !ok {
				n.markUndecodable(round, from, 0, true, to)
				continue
			}
			ins[to].put(from, m)
		}
	}
	res := map[ID]network.RoundMessages[M, P]{}
	for _, r := range rcpts {
		res[r] = ins[r].freeze()
	}
	return res
}

// routeU delivers the unicasts produced in `round`.
func routeU[M network.Message[P], P any](n *Net, round int, rcpts []ID, outs map[ID]network.OutgoingUnicasts[M, P]) map[ID]network.RoundMessages[M, P] {
	ins := map[ID]*hashmapBuilder[M]{}
	for _, r := range rcpts {
		ins[r] = newBuilder[M]()
	}
	for _, from := range sortedKeys(outs) {
		o := outs[from]
		if o == nil {
			continue
		}
		tos := sortedIDs(o.Keys())
		for _, to := range tos {
			msg, _ := o.Get(to)
			if utils.IsNil(msg) {
				continue
			}
			v, drop := n.deliver(round, from, to, false, msg)
			if drop {
				continue
			}
			b, ok := ins[to]
			if !ok {
				continue // addressed to a non-participant
			}
			m, ok := decodeAs[M](v)
			if !ok {
				n.markUndecodable(round, from, to, false, to)
				continue
			}
			b.put(from, m)
		}
	}
	res := map[ID]network.RoundMessages[M, P]{}
	for _, r := range rcpts {
		res[r] = ins[r].freeze()
	}
	return res
}

type hashmapBuilder[M any] struct {
	m ds.MutableMap[ID, M]
}

func newBuilder[M any]() *hashmapBuilder[M] {
	return &hashmapBuilder[M]{m: hashmap.NewComparable[ID, M]()}
}
func (b *hashmapBuilder[M]) put(id ID, m M)        { b.m.Put(id, m) }
func (b *hashmapBuilder[M]) freeze() ds.Map[ID, M] { return b.m.Freeze() }

func sortedKeys[V any](m map[ID]V) []ID {
	out := make([]ID, 0, len(m))
	for k := range m {
		out = append(out, k)
	}
	slices.Sort(out)
	return out
}

// classify maps a library error to its canonical class.
func classify(err error) string {
	if err == nil {
		return "ok"
	}
	blamed := base.GetMaliciousIdentities[ID](err)
	if len(blamed) > 0 {
		slices.Sort(blamed)
		blamed = slices.Compact(blamed)
		return "abort-blame:" + idsStr(blamed)
	}
	if errs.Is(err, base.ErrAbort) {
		return "abort"
	}
	return "err:" + rootClass(err)
}

// rootClass is the message of the deepest (sentinel) error of the first unwrap chain, sanitised.
func rootClass(err error) string {
	cur := err
	for range 64 {
		next := errs.Unwrap(cur)
		if len(next) == 0 || next[0] == nil {
			break
		}
		cur = next[0]
	}
	s := cur.Error()
	if i := strings.IndexAny(s, ":\n"); i >= 0 {
		s = s[:i]
	}
	s = strings.TrimSpace(strings.ToLower(s))
	var b strings.Builder
	for _, r := range s {
		switch {
		case r >= 'a' && r <= 'z', r >= '0' && r <= '9':
			b.WriteRune(r)
		default:
			b.WriteByte('_')
		}
	}
	out := b.String()
	if len(out) > 40 {
		out = out[:40]
	}
	if out == "" {
		out = "unknown"
	}
	return out
}

// stepAll executes one round function for every party (sequentially, in ID order — the library is
// not asked to be re-entrant across parties), recovers panics, records the class and the bytes
// drawn from the party's reader. It returns the outputs of the parties that were ok and whether
// all were.
func stepAll[P any, O any](n *Net, round int, parts map[ID]P, f func(id ID, p P) (O, error)) (map[ID]O, bool) {
	outs := map[ID]O{}
	st := map[ID]string{}
	rd := map[ID]int64{}
	all := true
	for _, id := range sortedKeys(parts) {
		before := int64(0)
		if r := n.rngs[id]; r != nil {
			before = r.Count()
		}
		var o O
		var err error
		cls := ""
		func() {
			defer func() {
				if e := recover(); e != nil {
					cls = "panic"
				}
			}()
			o, err = f(id, parts[id])
		}()
		if cls == "" {
			cls = classify(err)
		}
		if r := n.rngs[id]; r != nil {
			rd[id] = r.Count() - before
		}
		st[id] = cls
		if cls == "ok" {
			outs[id] = o
		} else {
			all = false
		}
	}
	n.mu.Lock()
	n.RoundStatus = append(n.RoundStatus, st)
	n.Reads = append(n.Reads, rd)
	for id, s := range st {
		if prev, ok := n.Status[id]; !ok || prev == "ok" {
			n.Status[id] = s
		}
	}
	if !all && n.FailedRound == 0 {
		n.FailedRound = round
		if round == 0 {
			n.FailedRound = -1 // a constructor failed
		}
	}
	n.mu.Unlock()
	return outs, all
}

// pair carries the (broadcast, unicast) outputs of a round function through stepAll.
type pair[B any, U any] struct {
	b B
	u U
}

func splitPairs[B any, U any](m map[ID]pair[B, U]) (map[ID]B, map[ID]U) {
	bs, us := map[ID]B{}, map[ID]U{}
	for id, p := range m {
		bs[id], us[id] = p.b, p.u
	}
	return bs, us
}

// watchdog runs body; when it does not return within n.Timeout every party without a final
// non-ok status is marked `hang` (the goroutine is abandoned).
func (n *Net) watchdog(body func()) {
	start := time.Now()
	done := make(chan struct{})
	go func() {
		defer close(done)
		defer func() {
			if e := recover(); e != nil {
				n.mu.Lock()
				for _, id := range n.IDs {
					if s, ok := n.Status[id]; !ok || s == "ok" {
						n.Status[id] = "panic"
					}
				}
				if n.FailedRound == 0 {
					n.FailedRound = len(n.RoundStatus) + 1
				}
				n.mu.Unlock()
			}
		}()
		body()
	}()
	select {
	case <-done:
	case <-time.After(n.Timeout):
		n.mu.Lock()
		for _, id := range n.IDs {
			if s, ok := n.Status[id]; !ok || s == "ok" {
				n.Status[id] = "hang"
			}
		}
		if n.FailedRound == 0 {
			n.FailedRound = len(n.RoundStatus) + 1
		}
		n.mu.Unlock()
	}
	n.Elapsed = time.Since(start)
}

// construct builds the participants; a constructor error is recorded as round 0.
func construct[P any](n *Net, ids []ID, mk func(id ID) (P, error)) (map[ID]P, bool) {
	parts := map[ID]struct{}{}
	for _, id := range ids {
		parts[id] = struct{}{}
	}
	return stepAll(n, 0, parts, func(id ID, _ struct{}) (P, error) { return mk(id) })
}

// ---------------------------------------------------------------------------------------------
// Session setup

// runSession runs the 4-round session protocol; every party ends with a *session.Context.
func runSession(ids []ID, rngs map[ID]io.Reader, hook Hook) (*Net, map[ID]*session.Context) {
	n := newNet("session", ids, rngs, hook)
	var ctxs map[ID]*session.Context
	n.watchdog(func() {
		quorum := idSet(n.IDs...)
		ps, ok := construct(n, n.IDs, func(id ID) (*session.Participant, error) {
			return session.NewParticipant(id, quorum, n.Rng(id))
		})
		if !ok {
			return
		}
		r1, ok := stepAll(n, 1, ps, func(_ ID, p *session.Participant) (*session.Round1Broadcast, error) { return p.Round1() })
		if !ok {
			return
		}
		r2bi := routeB[*session.Round1Broadcast, *session.Participant](n, 1, n.IDs, r1)
		r2, ok := stepAll(n, 2, ps, func(id ID, p *session.Participant) (pair[*session.Round2Broadcast, network.OutgoingUnicasts[*session.Round2P2P, *session.Participant]], error) {
			b, u, err := p.Round2(r2bi[id])
			return pair[*session.Round2Broadcast, network.OutgoingUnicasts[*session.Round2P2P, *session.Participant]]{b, u}, err
		})
		if !ok {
			return
		}
		r2b, r2u := splitPairs(r2)
		r3bi := routeB[*session.Round2Broadcast, *session.Participant](n, 2, n.IDs, r2b)
		r3ui := routeU[*session.Round2P2P, *session.Participant](n, 2, n.IDs, r2u)
		r3, ok := stepAll(n, 3, ps, func(id ID, p *session.Participant) (network.OutgoingUnicasts[*session.Round3P2P, *session.Participant], error) {
			return p.Round3(r3bi[id], r3ui[id])
		})
		if !ok {
			return
		}
		r4ui := routeU[*session.Round3P2P, *session.Participant](n, 3, n.IDs, r3)
		out, ok := stepAll(n, 4, ps, func(id ID, p *session.Participant) (*session.Context, error) { return p.Round4(r4ui[id]) })
		if !ok {
			return
		}
		ctxs = out
	})
	return n, ctxs
}

// dealerContexts builds consistent session contexts directly (no protocol run): common seed and
// symmetric pairwise seeds drawn from rng, as the library's own test utility does.
func dealerContexts(ids []ID, rng io.Reader) map[ID]*session.Context {
	ids = sortedIDs(ids)
	common := make([]byte, 64)
	_, _ = io.ReadFull(rng, common)
	pw := map[ID]map[ID][]byte{}
	for _, id := range ids {
		pw[id] = map[ID][]byte{}
	}
	for i := range ids {
		for j := i + 1; j < len(ids); j++ {
			seed := make([]byte, 64)
			_, _ = io.ReadFull(rng, seed)
			pw[ids[i]][ids[j]] = seed
			pw[ids[j]][ids[i]] = seed
		}
	}
	out := map[ID]*session.Context{}
	q := idSet(ids...)
	for _, id := range ids {
		c, err := session.NewContext(id, q, common, pw[id])
		if err != nil {
			panic(fmt.Sprintf("dealerContexts: %v", err))
		}
		out[id] = c
	}
	return out
}

// ---------------------------------------------------------------------------------------------
// Networked runner variant

type hookedDelivery struct {
	network.Delivery
	n *Net
}

func (d *hookedDelivery) Send(ctx context.Context, to ID, payload []byte) error {
	if d.n.DeliveryHook != nil {
		out, drop := d.n.DeliveryHook(d.PartyID(), to, payload)
		if drop {
			return nil
		}
		payload = out
	}
	return d.Delivery.Send(ctx, to, payload)
}

// runRunners executes one network.Runner per party concurrently over pkg/network routers connected
// by the in-memory coordinator of network/testutils. Per-party classes go to n.Status; a party whose
// runner does not return within n.Timeout is `hang` (its context is cancelled).
func runRunners[O any](n *Net, runners map[ID]network.Runner[O]) map[ID]O {
	start := time.Now()
	coord := ntu.NewMockCoordinator(n.IDs...)
	ctx, cancel := context.WithTimeout(context.Background(), n.Timeout)
	defer cancel()
	type res struct {
		id  ID
		out O
		cls string
	}
	ch := make(chan res, len(runners))
	for _, id := range sortedKeys(runners) {
		r := runners[id]
		go func() {
			var out O
			var err error
			cls := ""
			func() {
				defer func() {
					if e := recover(); e != nil {
						cls = "panic"
					}
				}()
				rt := network.NewRouter(&hookedDelivery{coord.DeliveryFor(id), n})
				defer rt.Close()
				out, err = r.Run(ctx, rt, func(network.Notification) {})
			}()
			if cls == "" {
				cls = classify(err)
			}
			ch <- res{id, out, cls}
		}()
	}
	outs := map[ID]O{}
	pending := len(runners)
	timeout := time.After(n.Timeout + 5*time.Second)
loop:
	for pending > 0 {
		select {
		case r := <-ch:
			pending--
			n.Status[r.id] = r.cls
			if r.cls == "ok" {
				outs[r.id] = r.out
			} else if n.FailedRound == 0 {
				n.FailedRound = -1
			}
		case <-timeout:
			break loop
		}
	}
	for id := range runners {
		if _, ok := n.Status[id]; !ok {
			n.Status[id] = "hang"
			if n.FailedRound == 0 {
				n.FailedRound = -1
			}
		} else if ctx.Err() != nil && n.Status[id] != "ok" && strings.HasPrefix(n.Status[id], "err:") {
			n.Status[id] = "hang"
		}
	}
	n.Elapsed = time.Since(start)
	return outs
}

// ---------------------------------------------------------------------------------------------
// Shard views (public values of a BaseShard, in canonical order)

// ShardView exposes what a BaseShard contains.
type ShardView[G algebra.PrimeGroupElement[G, S], S algebra.PrimeFieldElement[S]] struct {
	Rows    [][]S // MSP matrix, row-major
	Labels  []ID  // holder of each row
	V       []G   // verification vector
	PK      G
	ShareID ID
	Share   []S // one scalar per row the holder owns (in row order)
}

func shardView[G algebra.PrimeGroupElement[G, S], S algebra.PrimeFieldElement[S]](sh *mpc.BaseShard[G, S]) ShardView[G, S] {
	var v ShardView[G, S]
	m := sh.MSP()
	mat := m.Matrix()
	r, c := mat.Dimensions()
	v.Rows = make([][]S, r)
	v.Labels = make([]ID, r)
	for i := range r {
		v.Rows[i] = make([]S, c)
		for j := range c {
			v.Rows[i][j], _ = mat.Get(i, j)
		}
		v.Labels[i], _ = m.RowsToHolders().Get(i)
	}
	v.V = vvPoints(sh.VerificationVector().Value())
	v.PK = sh.PublicKeyValue()
	v.ShareID = sh.Share().ID()
	v.Share = slices.Clone(sh.Share().Value())
	return v
}

// vvPoints lists the entries of a column vector of group elements.
func vvPoints[G any](m interface {
	Dimensions() (int, int)
	Get(i, j int) (G, error)
}) []G {
	r, _ := m.Dimensions()
	out := make([]G, r)
	for i := range r {
		out[i], _ = m.Get(i, 0)
	}
	return out
}

// Refused reports that the library declined the configuration with an ordinary error before any
// message was received (constructor or round 1), as opposed to aborting, panicking or hanging.
func (n *Net) Refused() bool {
	if n.FailedRound != -1 && n.FailedRound != 1 {
		return false
	}
	bad := 0
	for _, s := range n.Status {
		if s == "ok" {
			continue
		}
		if !strings.HasPrefix(s, "err:") {
			return false
		}
		bad++
	}
	return bad > 0
}

// statusSummary renders the per-round classes, for notes: "r1:ok r2:2=abort-blame:1".
func (n *Net) statusSummary() string {
	var parts []string
	for i, st := range n.RoundStatus {
		bad := []string{}
		for _, id := range sortedKeys(st) {
			if st[id] != "ok" {
				bad = append(bad, fmt.Sprintf("%d=%s", id, st[id]))
			}
		}
		if len(bad) == 0 {
			parts = append(parts, fmt.Sprintf("r%d:ok", i))
		} else {
			sort.Strings(bad)
			parts = append(parts, fmt.Sprintf("r%d:%s", i, strings.Join(bad, ",")))
		}
	}
	return strings.Join(parts, "_")
}
