package main

import (
	"crypto/sha256"
	"fmt"
	"slices"

	"github.com/bronlabs/bron-crypto/pkg/base/algebra"
	"github.com/bronlabs/bron-crypto/pkg/base/curves"
	rvole_bbot "github.com/bronlabs/bron-crypto/pkg/mpc/rvole/bbot"
	rvole_softspoken "github.com/bronlabs/bron-crypto/pkg/mpc/rvole/softspoken"
	"github.com/bronlabs/bron-crypto/pkg/mpc/session"
	"github.com/bronlabs/bron-crypto/pkg/ot/base/ecbbot"
	"github.com/bronlabs/bron-crypto/pkg/ot/extension/softspoken"
	"github.com/bronlabs/bron-crypto/pkg/transcripts"
)

// transcript labels of the two multipliers (unexported there); a drift shows up as a model/impl DIFF
const (
	rvBbotPrefix = "BRON_CRYPTO_BBOT_MULTIPLY-"
	rvSsPrefix   = "BRON_CRYPTO_SOFTSPOKEN_OT_MULTIPLY-"
)

// rvRun is the state of one multiplication just before Bob processes Alice's check message.
type rvRun[S algebra.PrimeFieldElement[S]] struct {
	variant, curve string
	field          algebra.PrimeField[S]
	prefix         string
	xi, l, rho     int
	g              []S
	beta           []byte
	alpha          [][2][]S
	a, c           []S
	b              S
	aTilde         [][]S
	eta            []S
	mu             []byte
	thetaHonest    [][]S
	bobCtx         *session.Context
	bobSnap        transcripts.Transcript
	bobFinal       func(at [][]S, eta []S, mu []byte) ([]S, error)
	resetRound     func()
}

func rvTheta[S algebra.PrimeFieldElement[S]](tr transcripts.Transcript, prefix string, f algebra.PrimeField[S], aTilde [][]S, l, rho int) [][]S {
	for _, row := range aTilde {
		for _, x := range row {
			tr.AppendBytes(prefix+"A_TILDE-", x.Bytes())
		}
	}
	theta := make([][]S, l)
	for i := range theta {
		theta[i] = make([]S, rho)
		for k := range theta[i] {
			b, err := tr.ExtractBytes(prefix+"THETA-", uint(f.WideElementSize()))
			if err != nil {
				panic(err)
			}
			theta[i][k], err = f.FromWideBytes(b)
			if err != nil {
				panic(err)
			}
		}
	}
	return theta
}

func rvInputs[S algebra.PrimeFieldElement[S]](r *Rng, f algebra.PrimeField[S], l, kind int) []S {
	a := make([]S, l)
	for i := range a {
		switch kind % 4 {
		case 0:
			a[i] = scalarFromBig(f, r.BigBelow(fieldOrder(f)))
		case 1:
			a[i] = f.Zero()
		case 2:
			a[i] = f.One().Neg()
		default:
			a[i] = smallOrRandom(r, f, 60)
		}
	}
	return a
}

func matHexS[S algebra.PrimeFieldElement[S]](m [][]S) string {
	var flat []S
	for _, row := range m {
		flat = append(flat, row...)
	}
	return scalarsHex(flat)
}

func cloneMat[S any](m [][]S) [][]S {
	out := make([][]S, len(m))
	for i := range m {
		out[i] = slices.Clone(m[i])
	}
	return out
}

func c09Rvole(c *Ctx) {
	jobs := []func(*Ctx){
		func(c *Ctx) { c09RvoleCurve(c, "k256", cK256, 1) },
		func(c *Ctx) { c09RvoleCurve(c, "p256", cP256, 2) },
		func(c *Ctx) { c09RvoleCurve(c, "ed25519", cEd25519, 3) },
	}
	if c.Thorough() {
		jobs = append(jobs, func(c *Ctx) { c09RvoleCurve(c, "pallas", cPallas, 4) })
	}
	c09Parallel(c, jobs)
}

func c09RvoleCurve[P curves.Point[P, F, S], F algebra.FiniteFieldElement[F], S algebra.PrimeFieldElement[S]](c *Ctx, name string, curve curves.Curve[P, F, S], stream uint64) {
	r := NewRng(c.Seed, 9300+stream)
	ls := []int{1, 2}
	if c.Thorough() {
		ls = []int{1, 2, 3, 5, 8}
	}
	for li, l := range ls {
		kind := int(stream) + li
		// ---- bbot
		for _, up := range []string{"", "OtR1.Ms", "OtR2.Phi"} {
			if up != "" && li > 0 && !c.Thorough() {
				continue
			}
			up := up
			c09Guard(c, "rvole-bbot "+name, func() string {
				run, st := c09RvoleBbotSetup(curve, name, r, l, kind, up)
				if up != "" {
					// an altered base-OT message must surface as an abort at Bob's check (or earlier)
					c.Count("rvole.fault.upstream")
					res := st
					if run != nil {
						_, err := run.bobFinal(run.aTilde, run.eta, run.mu)
						res = c09ErrClass(err)
						if err == nil {
							res = "completed"
							c.Violation(fmt.Sprintf("rvole-bbot %s l=%d altered %s accepted", name, l, up))
						} else {
							res += "@4"
						}
					}
					c.Emit(fmt.Sprintf("fault rvole-bbot %s %d %s", name, l, up), res)
					return res
				}
				if run == nil {
					c.Emit(fmt.Sprintf("rvole bbot %s %s %d -", name, hexNat(fieldOrder(curve.ScalarField())), l), st)
					return st
				}
				c09RvoleFaults(c, r, run, li == 0 || c.Thorough())
				return "ok"
			})
		}
		// ---- softspoken
		for _, up := range []string{"", "OtR1.X", "OtR1.T", "OtR1.U"} {
			if up != "" && li > 0 && !c.Thorough() {
				continue
			}
			up := up
			c09Guard(c, "rvole-softspoken "+name, func() string {
				run, st := c09RvoleSsSetup(curve, name, r, l, kind, up)
				if up != "" {
					c.Count("rvole.fault.upstream")
					res := st
					if run != nil {
						res = "completed"
						c.Violation(fmt.Sprintf("rvole-softspoken %s l=%d altered %s accepted", name, l, up))
					}
					c.Emit(fmt.Sprintf("fault rvole-softspoken %s %d %s", name, l, up), res)
					return res
				}
				if run == nil {
					c.Emit(fmt.Sprintf("rvole softspoken %s %s %d -", name, hexNat(fieldOrder(curve.ScalarField())), l), st)
					return st
				}
				c09RvoleFaults(c, r, run, li == 0 || c.Thorough())
				return "ok"
			})
		}
	}
}

func c09RvoleBbotSetup[P curves.Point[P, F, S], F algebra.FiniteFieldElement[F], S algebra.PrimeFieldElement[S]](curve curves.Curve[P, F, S], name string, r *Rng, l, kind int, upstream string) (*rvRun[S], string) {
	suite, err := rvole_bbot.NewSuite(l, curve)
	if err != nil {
		return nil, "err:suite"
	}
	cA, cB := newC09Sess(r).ctxs()
	alice, err := rvole_bbot.NewAlice(cA, suite, r)
	if err != nil {
		return nil, "err:new"
	}
	bob, err := rvole_bbot.NewBob(cB, suite, r)
	if err != nil {
		return nil, "err:new"
	}
	r1, err := alice.Round1()
	if err != nil {
		return nil, c09ErrClass(err) + "@1"
	}
	if upstream == "OtR1.Ms" {
		r1.OtR1 = &ecbbot.Round1P2P[P, S]{Ms: r1.OtR1.Ms.Add(curve.Generator())}
	}
	r2, b, err := bob.Round2(r1)
	if err != nil {
		return nil, c09ErrClass(err) + "@2"
	}
	if upstream == "OtR2.Phi" {
		j, br, k := r.IntN(len(r2.OtR2.Phi)), r.IntN(2), r.IntN(len(r2.OtR2.Phi[0][0]))
		r2.OtR2.Phi[j][br][k] = r2.OtR2.Phi[j][br][k].Add(curve.Generator())
	}
	f := curve.ScalarField()
	a := rvInputs(r, f, l, kind)
	r3, cOut, err := alice.Round3(r2, a)
	if err != nil {
		return nil, c09ErrClass(err) + "@3"
	}
	run := &rvRun[S]{variant: "bbot", curve: name, field: f, prefix: rvBbotPrefix, l: l, a: a, b: b, c: cOut,
		aTilde: r3.ATilde, eta: r3.Eta, mu: r3.Mu, bobCtx: cB, bobSnap: cB.Transcript().Clone()}
	run.xi = int(privField(bob, "xi").Int())
	run.rho = int(privField(bob, "rho").Int())
	run.g = privField(bob, "g").Interface().([]S)
	run.beta = privField(bob, "beta").Interface().([]byte)
	run.alpha = privField(alice, "alpha").Interface().([][2][]S)
	// honest theta: Alice and Bob derive it from the same transcript state and the same aTilde
	run.thetaHonest = rvTheta(run.bobSnap.Clone(), run.prefix, f, r3.ATilde, l, run.rho)
	run.bobFinal = func(at [][]S, eta []S, mu []byte) ([]S, error) {
		return bob.Round4(&rvole_bbot.Round3P2P[P, S]{ATilde: at, Eta: eta, Mu: mu})
	}
	run.resetRound = func() { privField(bob, "round").SetInt(4) }
	return run, "ok"
}

func c09RvoleSsSetup[P curves.Point[P, F, S], F algebra.FiniteFieldElement[F], S algebra.PrimeFieldElement[S]](curve curves.Curve[P, F, S], name string, r *Rng, l, kind int, upstream string) (*rvRun[S], string) {
	suite, err := rvole_softspoken.NewSuite(l, curve, sha256.New)
	if err != nil {
		return nil, "err:suite"
	}
	ss, rs := c09RandomSeeds(r, 32)
	cA, cB := newC09Sess(r).ctxs()
	alice, err := rvole_softspoken.NewAlice(cA, suite, rs, r)
	if err != nil {
		return nil, "err:new"
	}
	bob, err := rvole_softspoken.NewBob(cB, suite, ss, r)
	if err != nil {
		return nil, "err:new"
	}
	r1, b, err := bob.Round1()
	if err != nil {
		return nil, c09ErrClass(err) + "@1"
	}
	switch upstream {
	case "OtR1.X":
		r1.OtR1.ChallengeResponse.X[r.IntN(16)] ^= 1 << r.IntN(8)
	case "OtR1.T":
		r1.OtR1.ChallengeResponse.T[r.IntN(softspoken.Kappa)][r.IntN(16)] ^= 1 << r.IntN(8)
	case "OtR1.U":
		row := r.IntN(softspoken.Kappa)
		r1.OtR1.U[row][r.IntN(len(r1.OtR1.U[row]))] ^= 1 << r.IntN(8)
	}
	f := curve.ScalarField()
	a := rvInputs(r, f, l, kind)
	// Alice's transcript state right before roTheta is only reachable inside Round2 (the OT sender
	// appends to it first), so the honest theta is taken from Bob's side: both derive it from the
	// same transcript state and the same aTilde in an honest run.
	r2, cOut, err := alice.Round2(r1, a)
	if err != nil {
		return nil, c09ErrClass(err) + "@2"
	}
	run := &rvRun[S]{variant: "softspoken", curve: name, field: f, prefix: rvSsPrefix, l: l, a: a, b: b, c: cOut,
		aTilde: r2.ATilde, eta: r2.Eta, mu: r2.Mu, bobCtx: cB, bobSnap: cB.Transcript().Clone()}
	run.xi = int(privField(bob, "xi").Int())
	run.rho = int(privField(bob, "rho").Int())
	run.g = privField(bob, "g").Interface().([]S)
	run.beta = privField(bob, "beta").Interface().([]byte)
	run.alpha = privField(alice, "alpha").Interface().([][2][]S)
	run.thetaHonest = rvTheta(run.bobSnap.Clone(), run.prefix, f, r2.ATilde, l, run.rho)
	run.bobFinal = func(at [][]S, eta []S, mu []byte) ([]S, error) {
		return bob.Round3(&rvole_softspoken.Round2P2P[P, F, S]{ATilde: at, Eta: eta, Mu: mu})
	}
	run.resetRound = func() { privField(bob, "round").SetInt(3) }
	return run, "ok"
}

type rvFault struct {
	field string // ATilde | Eta | Mu | none
	j, i  int
	how   int
}

func (f rvFault) String() string {
	return fmt.Sprintf("%s[%d][%d]#%d", f.field, f.j, f.i, f.how)
}

func rvAlter[S algebra.PrimeFieldElement[S]](r *Rng, f algebra.PrimeField[S], x S, how int) S {
	switch how % 4 {
	case 0:
		return x.Add(f.One())
	case 1:
		return x.Neg().Sub(f.One()) // never equal to x? -x-1 = x iff 2x = -1; excluded below
	case 2:
		return f.Zero()
	default:
		return scalarFromBig(f, r.BigBelow(fieldOrder(f)))
	}
}

// c09RvoleFaults tries single-field alterations of (aTilde, eta, mu) against the same Bob state,
// then the honest message; `deep` additionally emits rvchk lines decided by the Lean model.
func c09RvoleFaults[S algebra.PrimeFieldElement[S]](c *Ctx, r *Rng, run *rvRun[S], deep bool) {
	f := run.field
	p := hexNat(fieldOrder(f))
	L := run.l + run.rho
	var faults []rvFault
	nAT, nEta, nMu := 24, run.rho, 3
	if c.Thorough() {
		nAT = 300
		nMu = 8
	}
	for n := 0; n < nAT; n++ {
		j, i := r.IntN(run.xi), r.IntN(L)
		if n < L { // every column at least once, first and last row
			j, i = []int{0, run.xi - 1}[n%2], n
		}
		faults = append(faults, rvFault{"ATilde", j, i, r.IntN(4)})
	}
	for k := 0; k < nEta; k++ {
		faults = append(faults, rvFault{"Eta", 0, k, r.IntN(4)}, rvFault{"Eta", 0, k, r.IntN(4)})
	}
	for n := 0; n < nMu; n++ {
		faults = append(faults, rvFault{"Mu", 0, r.IntN(len(run.mu) * 8), 0})
	}
	faults = append(faults, rvFault{"none", 0, 0, 0}) // honest message last (it advances Bob's round)

	ahat := make([]S, run.rho)
	for k := range ahat {
		ahat[k] = run.aTilde[0][run.l+k].Sub(run.alpha[0][0][run.l+k]).Add(run.alpha[0][1][run.l+k])
	}
	alpha0, alpha1 := make([][]S, run.xi), make([][]S, run.xi)
	for j := range run.alpha {
		alpha0[j], alpha1[j] = run.alpha[j][0], run.alpha[j][1]
	}
	chkBudget := 6
	if c.Thorough() {
		chkBudget = 12
	}
	for fi, flt := range faults {
		at, eta, mu := cloneMat(run.aTilde), slices.Clone(run.eta), slices.Clone(run.mu)
		muFlag := 0
		switch flt.field {
		case "ATilde":
			y := rvAlter(r, f, at[flt.j][flt.i], flt.how)
			if y.Equal(at[flt.j][flt.i]) {
				y = y.Add(f.One())
			}
			at[flt.j][flt.i] = y
		case "Eta":
			y := rvAlter(r, f, eta[flt.i], flt.how)
			if y.Equal(eta[flt.i]) {
				y = y.Add(f.One())
			}
			eta[flt.i] = y
		case "Mu":
			mu[flt.i/8] ^= 1 << (flt.i % 8)
			muFlag = 1
		}
		setTranscript(run.bobCtx, run.bobSnap.Clone())
		var d []S
		res := safely(func() string {
			var err error
			d, err = run.bobFinal(at, eta, mu)
			return c09ErrClass(err)
		})
		if flt.field != "none" {
			c.Count("rvole.fault." + flt.field)
			if res == "ok" {
				c.Violation(fmt.Sprintf("rvole-%s %s l=%d altered %s accepted", run.variant, run.curve, run.l, flt))
				run.resetRound()
				c.Emit(fmt.Sprintf("fault rvole-%s %s %d %s", run.variant, run.curve, run.l, flt), "completed")
			} else {
				c.Emit(fmt.Sprintf("fault rvole-%s %s %d %s", run.variant, run.curve, run.l, flt), res+"@4")
			}
		} else {
			c.Count("rvole.honest." + run.variant)
			out := res
			if res == "ok" {
				out = "ok:" + scalarHex(run.b) + ";" + scalarsHex(run.c) + ";" + scalarsHex(d)
			}
			c.Emit(fmt.Sprintf("rvole %s %s %s %d %s", run.variant, run.curve, p, run.l, scalarsHex(run.a)), out)
		}
		// model-decided line for a sample of the alterations and for the honest message
		if deep && (flt.field == "none" || flt.field == "Eta" || flt.field == "Mu" && fi%2 == 0 || fi%4 == 0 && chkBudget > 0) {
			if flt.field == "ATilde" {
				chkBudget--
			}
			thetaP := rvTheta(run.bobSnap.Clone(), run.prefix, f, at, run.l, run.rho)
			out := scalarsHex(run.c) + ";" + res
			if res == "ok" {
				out = scalarsHex(run.c) + ";ok:" + scalarsHex(d)
			}
			c.Count("rvole.rvchk." + flt.field)
			c.Emit(fmt.Sprintf("rvchk %s %d %d %d %s %s %s %s %s %s %s %s %s %s %d", p, run.xi, run.l, run.rho,
				scalarsHex(run.g), bitsStr(run.beta, run.xi), matHexS(alpha0), matHexS(alpha1), scalarsHex(run.a), scalarsHex(ahat),
				matHexS(run.thetaHonest), matHexS(at), scalarsHex(eta), matHexS(thetaP), muFlag), out)
		}
	}
}
