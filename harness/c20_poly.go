package main

import (
	"errors"
	"fmt"
	"strconv"

	"github.com/bronlabs/bron-crypto/pkg/base/algebra"
	"github.com/bronlabs/bron-crypto/pkg/base/curves"
	"github.com/bronlabs/bron-crypto/pkg/base/mat"
	"github.com/bronlabs/bron-crypto/pkg/base/polynomials"
	"github.com/bronlabs/bron-crypto/pkg/base/polynomials/interpolation/birkhoff"
	"github.com/bronlabs/bron-crypto/pkg/base/polynomials/interpolation/lagrange"
	"github.com/bronlabs/bron-crypto/pkg/base/polynomials/interpolation/vandermonde"
)

// C20, polynomial half: Polynomial.Eval/Derivative, Lagrange / Vandermonde / Birkhoff
// interpolation (scalar and "in the exponent"), mat.Lift / LeftAction / RightAction,
// Transpose, DotProduct.  Models: lean/BronVerif/Model/Poly.lean, Model/LinAlg.lean.

func c20Poly(c *Ctx) {
	n := 26
	rounds := 6
	if c.Thorough() {
		n = 700
		rounds = 60
	}
	c20PolyField(c, fK256, n, 1)
	c20PolyField(c, fEd25519, n, 2)
	c20PolyField(c, fBLS, n, 3)
	if c.Thorough() {
		c20PolyField(c, fP256, n/2, 4)
		c20PolyField(c, fPallas, n/2, 5)
	}
	c20BirkhoffExhaustive(c, fK256, 21)
	c20BirkhoffExhaustive(c, fEd25519, 22)
	c20PolyCurve(c, "k256", cK256, rounds, 11)
	c20PolyCurve(c, "ed25519", cEd25519, rounds, 12)
	c20PolyCurve(c, "bls12381g1", cBLSG1, rounds, 13)
	// every curve group of the library (fewer rounds in the quick tier: the affine Lean curve model pays
	// per scalar bit, and G2 arithmetic is over Fp2)
	c20PolyCurve(c, "p256", cP256, rounds/3, 14)
	c20PolyCurve(c, "pallas", cPallas, rounds/3, 15)
	c20PolyCurve(c, "vesta", cVesta, rounds/3, 16)
	c20PolyCurve(c, "bls12381g2", cBLSG2, rounds/3, 17)
}

// c20ErrClass maps library errors to the small stable enum of the line protocol.
func c20ErrClass(err error) string {
	switch {
	case errors.Is(err, polynomials.ErrLengthMismatch):
		return "err:length"
	case errors.Is(err, polynomials.ErrValidation):
		return "err:invalid"
	case errors.Is(err, polynomials.ErrFailed):
		return "err:failed"
	case errors.Is(err, mat.ErrDimension):
		return "err:dim"
	case errors.Is(err, mat.ErrFailed):
		return "err:nosolution"
	case errors.Is(err, curves.ErrFailed):
		return "err:div0"
	default:
		return "err:other"
	}
}

// ptStr: canonical point rendering, "inf" for the neutral element of every curve (also Edwards).
func ptStr[P curves.Point[P, F, S], F algebra.FiniteFieldElement[F], S algebra.PrimeFieldElement[S]](p P) string {
	if p.IsOpIdentity() {
		return "inf"
	}
	return pointStr(p)
}

func ptsStr[P curves.Point[P, F, S], F algebra.FiniteFieldElement[F], S algebra.PrimeFieldElement[S]](ps []P) string {
	out := make([]string, len(ps))
	for i, p := range ps {
		out[i] = ptStr(p)
	}
	return joinComma(out)
}

func decList(js []uint64) string {
	out := make([]string, len(js))
	for i, j := range js {
		out[i] = strconv.FormatUint(j, 10)
	}
	return joinComma(out)
}

// c20Coeffs draws n coefficients; small values and (sometimes) trailing zeros are frequent.
func c20Coeffs[S algebra.PrimeFieldElement[S]](r *Rng, f algebra.PrimeField[S], n int) []S {
	pSmall := []int{95, 60, 20, 0}[r.IntN(4)]
	out := make([]S, n)
	for i := range out {
		out[i] = smallOrRandom(r, f, pSmall)
	}
	if n >= 2 && r.IntN(4) == 0 {
		for k := n - 1 - r.IntN(2); k < n; k++ {
			if k >= 1 {
				out[k] = f.Zero()
			}
		}
	}
	return out
}

// c20Nodes draws n interpolation nodes.  kinds: 1..n shuffled; small values including 0; large
// (near the modulus and uniform); mixed.  With dup=true one node is repeated (n >= 2).
func c20Nodes[S algebra.PrimeFieldElement[S]](r *Rng, f algebra.PrimeField[S], n int, dup bool) (nodes []S, distinct bool) {
	nodes = make([]S, 0, n)
	seen := map[string]bool{}
	kind := r.IntN(4)
	for len(nodes) < n {
		var x S
		switch kind {
		case 0: // 1..n, order shuffled below
			x = f.FromUint64(uint64(len(nodes) + 1))
		case 1: // small, 0 allowed
			x = f.FromUint64(uint64(r.IntN(2 * n)))
		case 2: // large
			if r.IntN(2) == 0 {
				x = f.FromUint64(uint64(1 + r.IntN(3*n))).Neg()
			} else {
				x = scalarFromBig(f, r.BigBelow(fieldOrder(f)))
			}
		default:
			x = smallOrRandom(r, f, 50)
		}
		k := scalarHex(x)
		if seen[k] {
			continue
		}
		seen[k] = true
		nodes = append(nodes, x)
	}
	r.Shuffle(len(nodes), func(i, j int) { nodes[i], nodes[j] = nodes[j], nodes[i] })
	distinct = true
	if dup && n >= 2 {
		i := r.IntN(n)
		j := (i + 1 + r.IntN(n-1)) % n
		nodes[i] = nodes[j]
		distinct = false
	}
	return nodes, distinct
}

func c20EvalAll[S algebra.PrimeFieldElement[S]](p *polynomials.Polynomial[S], xs []S) []S {
	out := make([]S, len(xs))
	for i, x := range xs {
		out[i] = p.Eval(x)
	}
	return out
}

func c20Pad[S algebra.PrimeFieldElement[S]](f algebra.PrimeField[S], cs []S, n int) []S {
	out := append([]S{}, cs...)
	for len(out) < n {
		out = append(out, f.Zero())
	}
	return out
}

func c20SameCoeffs[S algebra.PrimeFieldElement[S]](a, b []S) bool {
	if len(a) != len(b) {
		return false
	}
	for i := range a {
		if !a[i].Equal(b[i]) {
			return false
		}
	}
	return true
}

// c20BirkhoffNodes draws n Birkhoff nodes (x, j).  kinds: Tassa-style hierarchical pattern (distinct
// non-zero ids, derivative order = threshold of the previous level, so that Pólya's condition
// holds), Hermite-style (repeated x with consecutive orders), arbitrary orders (often singular).
func c20BirkhoffNodes[S algebra.PrimeFieldElement[S]](r *Rng, f algebra.PrimeField[S], n int) (xs []S, js []uint64, kind string) {
	xs = make([]S, n)
	js = make([]uint64, n)
	switch r.IntN(4) {
	case 0, 1:
		kind = "hier"
		ids, _ := c20Nodes(r, f, n, false)
		// levels: ranks are non-decreasing, the i-th node (0-based) has rank <= i
		rank := uint64(0)
		for i := range n {
			if i > 0 && r.IntN(3) == 0 {
				rank = uint64(i)
			}
			xs[i], js[i] = ids[i], rank
		}
		// the API sorts by x, so present them in random order
		r.Shuffle(n, func(a, b int) { xs[a], xs[b] = xs[b], xs[a]; js[a], js[b] = js[b], js[a] })
	case 2:
		kind = "hermite"
		i := 0
		for i < n {
			x := smallOrRandom(r, f, 50)
			run := 1 + r.IntN(3)
			for k := 0; k < run && i < n; k++ {
				xs[i], js[i] = x, uint64(k)
				i++
			}
		}
		r.Shuffle(n, func(a, b int) { xs[a], xs[b] = xs[b], xs[a]; js[a], js[b] = js[b], js[a] })
	default:
		kind = "any"
		for i := range n {
			xs[i] = smallOrRandom(r, f, 50)
			js[i] = uint64(r.IntN(n + 1))
		}
	}
	return xs, js, kind
}

func c20IterDeriv[S algebra.PrimeFieldElement[S]](p *polynomials.Polynomial[S], j uint64) *polynomials.Polynomial[S] {
	for range j {
		p = p.Derivative()
	}
	return p
}

func c20PolyField[S algebra.PrimeFieldElement[S]](c *Ctx, f algebra.PrimeField[S], count int, stream uint64) {
	r := NewRng(c.Seed, 2100+stream)
	p := hexNat(fieldOrder(f))
	ring, err := polynomials.NewPolynomialRing(f)
	if err != nil {
		c.Violation(fmt.Sprintf("NewPolynomialRing: %v", err))
		return
	}
	maxN := 6
	if c.Thorough() {
		maxN = 9
	}
	for it := 0; it < count; it++ {
		// ---- Eval / Derivative
		{
			n := r.IntN(9)
			cs := c20Coeffs(r, f, n)
			poly, err := ring.New(cs...)
			if err != nil {
				c.Violation(fmt.Sprintf("PolynomialRing.New: %v", err))
				continue
			}
			x := smallOrRandom(r, f, 40)
			if n == 0 {
				c.Note("TRIVIAL")
			}
			c.Count("poly.eval")
			c.Emit(fmt.Sprintf("polyEval %s %s %s", p, scalarsHex(poly.Coefficients()), scalarHex(x)),
				safely(func() string { return scalarHex(poly.Eval(x)) }))
			d := poly
			for k := 0; k < 1+r.IntN(3); k++ {
				in := d
				var out *polynomials.Polynomial[S]
				res := safely(func() string {
					out = in.Derivative()
					return scalarsHex(out.Coefficients())
				})
				c.Count("poly.deriv")
				c.Emit(fmt.Sprintf("polyDeriv %s %s", p, scalarsHex(in.Coefficients())), res)
				if out == nil {
					break
				}
				d = out
			}
		}
		// ---- Add / ScalarMul / Mul (evaluation is linear and multiplicative)
		{
			na, nb := 1+r.IntN(6), 1+r.IntN(6)
			if r.IntN(6) == 0 {
				na = 0 // PolynomialRing.New() of no coefficients is the zero polynomial [0]
			}
			pa, errA := ring.New(c20Coeffs(r, f, na)...)
			pb, errB := ring.New(c20Coeffs(r, f, nb)...)
			if errA != nil || errB != nil {
				c.Violation(fmt.Sprintf("PolynomialRing.New: %v %v", errA, errB))
				continue
			}
			sc := smallOrRandom(r, f, 40)
			x := smallOrRandom(r, f, 40)
			var sum, prod, scaled *polynomials.Polynomial[S]
			c.Count("poly.add")
			c.Emit(fmt.Sprintf("polyAdd %s %s %s", p, scalarsHex(pa.Coefficients()), scalarsHex(pb.Coefficients())),
				safely(func() string { sum = pa.Add(pb); return scalarsHex(sum.Coefficients()) }))
			c.Count("poly.scalarMul")
			c.Emit(fmt.Sprintf("polyScalarMul %s %s %s", p, scalarsHex(pa.Coefficients()), scalarHex(sc)),
				safely(func() string { scaled = pa.ScalarMul(sc); return scalarsHex(scaled.Coefficients()) }))
			c.Count("poly.mul")
			c.Emit(fmt.Sprintf("polyMul %s %s %s", p, scalarsHex(pa.Coefficients()), scalarsHex(pb.Coefficients())),
				safely(func() string { prod = pa.Mul(pb); return scalarsHex(prod.Coefficients()) }))
			// Go-side oracle (no model): evaluation is a ring homomorphism
			if sum != nil && !sum.Eval(x).Equal(pa.Eval(x).Add(pb.Eval(x))) {
				c.Violation(fmt.Sprintf("(a+b)(x) != a(x)+b(x): p=%s a=%s b=%s x=%s", p, scalarsHex(pa.Coefficients()), scalarsHex(pb.Coefficients()), scalarHex(x)))
			}
			if scaled != nil && !scaled.Eval(x).Equal(pa.Eval(x).Mul(sc)) {
				c.Violation(fmt.Sprintf("(s*a)(x) != s*a(x): p=%s a=%s s=%s x=%s", p, scalarsHex(pa.Coefficients()), scalarHex(sc), scalarHex(x)))
			}
			if prod != nil && !prod.Eval(x).Equal(pa.Eval(x).Mul(pb.Eval(x))) {
				c.Violation(fmt.Sprintf("(a*b)(x) != a(x)*b(x): p=%s a=%s b=%s x=%s", p, scalarsHex(pa.Coefficients()), scalarsHex(pb.Coefficients()), scalarHex(x)))
			}
			// the derivative obeys the product rule at x
			if prod != nil {
				lhs := prod.Derivative().Eval(x)
				rhs := pa.Derivative().Eval(x).Mul(pb.Eval(x)).Add(pa.Eval(x).Mul(pb.Derivative().Eval(x)))
				if !lhs.Equal(rhs) {
					c.Violation(fmt.Sprintf("(a*b)'(x) != a'(x)b(x)+a(x)b'(x): p=%s a=%s b=%s x=%s", p, scalarsHex(pa.Coefficients()), scalarsHex(pb.Coefficients()), scalarHex(x)))
				}
			}
		}
		// ---- Lagrange
		{
			n := 1 + r.IntN(maxN)
			if r.IntN(25) == 0 {
				n = 0
			}
			dup := r.IntN(8) == 0
			nodes, distinct := c20Nodes(r, f, n, dup)
			cs := c20Coeffs(r, f, n)
			fpoly, _ := ring.New(cs...)
			values := c20EvalAll(fpoly, nodes)
			fromPoly := true
			if r.IntN(5) == 0 {
				fromPoly = false
				for i := range values {
					values[i] = smallOrRandom(r, f, 50)
				}
			}
			var x S
			switch r.IntN(4) {
			case 0:
				x = f.Zero()
			case 1:
				if n > 0 {
					x = nodes[r.IntN(n)]
				} else {
					x = f.One()
				}
			default:
				x = smallOrRandom(r, f, 30)
			}
			if n == 0 {
				c.Note("TRIVIAL")
			}
			var basis []S
			res := safely(func() string {
				b, err := lagrange.BasisAt(nodes, x)
				if err != nil {
					return c20ErrClass(err)
				}
				basis = b.Coefficients()
				return scalarsHex(basis)
			})
			if distinct {
				c.Count("lagrange.basis.distinct")
			} else {
				c.Count("lagrange.basis.dup")
			}
			c.Emit(fmt.Sprintf("lagrangeBasisAt %s %s %s", p, scalarsHex(nodes), scalarHex(x)), res)
			if distinct && n > 0 {
				if basis == nil {
					c.Violation(fmt.Sprintf("lagrange.BasisAt failed on distinct nodes p=%s nodes=%s x=%s: %s", p, scalarsHex(nodes), scalarHex(x), res))
				} else {
					sum := f.Zero()
					for _, b := range basis {
						sum = sum.Add(b)
					}
					if !sum.IsOne() {
						c.Violation(fmt.Sprintf("lagrange basis does not sum to 1 p=%s nodes=%s x=%s", p, scalarsHex(nodes), scalarHex(x)))
					}
				}
			}
			vals := values
			if r.IntN(12) == 0 { // length mismatch
				vals = append(append([]S{}, values...), f.One())
			}
			if n == 0 && len(vals) == 0 {
				c.Note("TRIVIAL")
			}
			res = safely(func() string {
				y, err := lagrange.InterpolateAt(nodes, vals, x)
				if err != nil {
					return c20ErrClass(err)
				}
				return scalarHex(y)
			})
			c.Count("lagrange.at")
			c.Emit(fmt.Sprintf("lagrangeAt %s %s %s %s", p, scalarsHex(nodes), scalarsHex(vals), scalarHex(x)), res)
			if distinct && fromPoly && len(vals) == n && n > 0 && res != scalarHex(fpoly.Eval(x)) {
				c.Violation(fmt.Sprintf("lagrange.InterpolateAt(evaluate f) != f(x): p=%s nodes=%s f=%s x=%s got %s", p, scalarsHex(nodes), scalarsHex(cs), scalarHex(x), res))
			}
			// ---- Vandermonde on the same data
			cols := 1 + r.IntN(n+2)
			if r.IntN(15) == 0 {
				cols = 0
			}
			res = safely(func() string {
				m, err := vandermonde.BuildVandermondeMatrix(nodes, uint(cols))
				if err != nil {
					return c20ErrClass(err)
				}
				out := []S{}
				for e := range m.Iter() {
					out = append(out, e)
				}
				return scalarsHex(out)
			})
			c.Count("vandermonde.matrix")
			c.Emit(fmt.Sprintf("vanderMatrix %s %s %d", p, scalarsHex(nodes), cols), res)
			var vc []S
			res = safely(func() string {
				pl, err := vandermonde.Interpolate(nodes, vals, x)
				if err != nil {
					return c20ErrClass(err)
				}
				vc = pl.Coefficients()
				return scalarsHex(vc)
			})
			if distinct {
				c.Count("vandermonde.interp.distinct")
			} else {
				c.Count("vandermonde.interp.dup." + map[bool]string{true: "ok", false: "err"}[vc != nil])
			}
			c.Emit(fmt.Sprintf("vanderInterp %s %s %s", p, scalarsHex(nodes), scalarsHex(vals)), res)
			if distinct && fromPoly && len(vals) == n && n > 0 {
				if vc == nil || !c20SameCoeffs(vc, c20Pad(f, cs, n)) {
					c.Violation(fmt.Sprintf("vandermonde.Interpolate(evaluate f) != f: p=%s nodes=%s f=%s got %s", p, scalarsHex(nodes), scalarsHex(cs), res))
				}
			}
		}
		// ---- Birkhoff matrices of high degree: the entries t!/(t-j)!·x^(t-j) exceed every machine word
		// (degree and derivative order far beyond the small exhaustive range); matrix only, no Cramer.
		if it%6 == 0 {
			n := []int{20, 22, 24, 27, 31, 33, 40}[r.IntN(7)]
			xs := make([]S, n)
			js := make([]uint64, n)
			for i := range n {
				xs[i] = f.FromUint64(uint64(1 + r.IntN(2*n)))
				switch r.IntN(3) {
				case 0:
					js[i] = uint64(n - 1 - r.IntN(4))
				case 1:
					js[i] = uint64(r.IntN(n))
				default:
					js[i] = 0
				}
			}
			res := safely(func() string {
				m, err := birkhoff.BuildVandermondeMatrix(xs, js, n)
				if err != nil {
					return c20ErrClass(err)
				}
				out := []S{}
				for e := range m.Iter() {
					out = append(out, e)
				}
				return scalarsHex(out)
			})
			c.Count("birkhoff.matrix.deep")
			c.Emit(fmt.Sprintf("birkhoffMatrix %s %s %s %d", p, scalarsHex(xs), decList(js), n), res)
		}
		// ---- Birkhoff
		{
			n := 1 + r.IntN(maxN-1)
			xs, js, kind := c20BirkhoffNodes(r, f, n)
			cs := c20Coeffs(r, f, n)
			fpoly, _ := ring.New(cs...)
			ys := make([]S, n)
			for i := range ys {
				ys[i] = c20IterDeriv(fpoly, js[i]).Eval(xs[i])
			}
			fromPoly := true
			if r.IntN(6) == 0 {
				fromPoly = false
				for i := range ys {
					ys[i] = smallOrRandom(r, f, 50)
				}
			}
			cols := 1 + r.IntN(n+1)
			res := safely(func() string {
				m, err := birkhoff.BuildVandermondeMatrix(xs, js, cols)
				if err != nil {
					return c20ErrClass(err)
				}
				out := []S{}
				for e := range m.Iter() {
					out = append(out, e)
				}
				return scalarsHex(out)
			})
			c.Count("birkhoff.matrix")
			c.Emit(fmt.Sprintf("birkhoffMatrix %s %s %s %d", p, scalarsHex(xs), decList(js), cols), res)
			jsIn, ysIn := js, ys
			if r.IntN(15) == 0 {
				jsIn = js[:n-1]
			} else if r.IntN(15) == 0 {
				ysIn = append(append([]S{}, ys...), f.One())
			}
			var bc []S
			res = safely(func() string {
				pl, err := birkhoff.Interpolate(xs, jsIn, ysIn)
				if err != nil {
					return c20ErrClass(err)
				}
				bc = pl.Coefficients()
				return scalarsHex(bc)
			})
			c.Count("birkhoff.interp." + kind + "." + map[bool]string{true: "ok", false: "err"}[bc != nil])
			c.Emit(fmt.Sprintf("birkhoffInterp %s %s %s %s", p, scalarsHex(xs), decList(jsIn), scalarsHex(ysIn)), res)
			if bc != nil && fromPoly && !c20SameCoeffs(bc, c20Pad(f, cs, n)) {
				c.Violation(fmt.Sprintf("birkhoff.Interpolate(derivatives of f) != f: p=%s xs=%s js=%s f=%s got %s", p, scalarsHex(xs), decList(js), scalarsHex(cs), res))
			}
		}
		// ---- Transpose / DotProduct
		{
			m, n := 1+r.IntN(5), 1+r.IntN(5)
			rows := genRows(r, f, m, n)
			mod, _ := mat.NewMatrixModule(uint(m), uint(n), f)
			M, err := mod.New(rows)
			if err != nil {
				c.Violation(fmt.Sprintf("MatrixModule.New: %v", err))
				continue
			}
			res := safely(func() string {
				out := []S{}
				for e := range M.Transpose().Iter() {
					out = append(out, e)
				}
				return scalarsHex(out)
			})
			c.Count("transpose")
			c.Emit(fmt.Sprintf("transpose %s %d %d %s", p, m, n, matHex(rows)), res)

			shape := func(l int) (int, int) {
				if r.IntN(2) == 0 {
					return 1, l
				}
				return l, 1
			}
			la := 1 + r.IntN(6)
			lb := la
			if r.IntN(6) == 0 {
				lb = 1 + r.IntN(6)
			}
			ra, ca := shape(la)
			rb, cb := shape(lb)
			if r.IntN(10) == 0 {
				ra, ca = 2, 2
			}
			av := c20Coeffs(r, f, ra*ca)
			bv := c20Coeffs(r, f, rb*cb)
			ma, _ := mat.NewMatrixModule(uint(ra), uint(ca), f)
			mb, _ := mat.NewMatrixModule(uint(rb), uint(cb), f)
			A, errA := ma.NewRowMajor(av...)
			B, errB := mb.NewRowMajor(bv...)
			if errA != nil || errB != nil {
				c.Violation(fmt.Sprintf("NewRowMajor: %v %v", errA, errB))
				continue
			}
			res = safely(func() string {
				d, err := mat.DotProduct(A, B)
				if err != nil {
					return c20ErrClass(err)
				}
				return scalarHex(d)
			})
			c.Count("dot")
			c.Emit(fmt.Sprintf("dot %s %d %d %s %d %d %s", p, ra, ca, scalarsHex(av), rb, cb, scalarsHex(bv)), res)
		}
	}
}

// c20Scalar: scalars for the in-the-exponent cases; small ones are frequent because the
// (affine, Fermat-inversion) Lean curve model pays per scalar bit.
func c20Scalar[S algebra.PrimeFieldElement[S]](r *Rng, f algebra.PrimeField[S]) S {
	switch r.IntN(5) {
	case 0:
		return scalarFromBig(f, r.BigBelow(fieldOrder(f)))
	case 1:
		return f.FromUint64(r.Uint64())
	default:
		return smallOrRandom(r, f, 100)
	}
}

func c20ScalarRows[S algebra.PrimeFieldElement[S]](r *Rng, f algebra.PrimeField[S], m, n int) [][]S {
	rows := make([][]S, m)
	for i := range rows {
		rows[i] = make([]S, n)
		for j := range rows[i] {
			rows[i][j] = c20Scalar(r, f)
		}
	}
	return rows
}

func c20PolyCurve[P curves.Point[P, F, S], F algebra.FiniteFieldElement[F], S algebra.PrimeFieldElement[S]](
	c *Ctx, name string, curve curves.Curve[P, F, S], rounds int, stream uint64,
) {
	r := NewRng(c.Seed, 2200+stream)
	f := curve.ScalarField()
	ring, err := polynomials.NewPolynomialRing(f)
	if err != nil {
		c.Violation(fmt.Sprintf("NewPolynomialRing: %v", err))
		return
	}
	gen := curve.Generator()
	lift := func(xs []S, g P) []P {
		out := make([]P, len(xs))
		for i, x := range xs {
			out[i] = g.ScalarOp(x)
		}
		return out
	}
	for it := 0; it < rounds; it++ {
		g := gen
		switch r.IntN(4) {
		case 0:
			g = gen.ScalarOp(scalarFromBig(f, r.BigBelow(fieldOrder(f))))
		case 1:
			if r.IntN(4) == 0 {
				g = curve.OpIdentity()
			}
		}
		// ---- LiftPolynomial, ModuleValuedPolynomial.Eval / Derivative
		for k := 0; k < 2; k++ {
			n := 1 + r.IntN(4)
			cs := make([]S, n)
			for i := range cs {
				cs[i] = c20Scalar(r, f)
			}
			fpoly, _ := ring.New(cs...)
			var lp *polynomials.ModuleValuedPolynomial[P, S]
			res := safely(func() string {
				var err error
				lp, err = polynomials.LiftPolynomial(fpoly, g)
				if err != nil {
					return c20ErrClass(err)
				}
				return ptsStr(lp.Coefficients())
			})
			c.Count("exp.liftPoly")
			c.Emit(fmt.Sprintf("liftPoly %s %s %s", name, scalarsHex(cs), ptStr(g)), res)
			if lp == nil {
				continue
			}
			x := c20Scalar(r, f)
			res = safely(func() string { return ptStr(lp.Eval(x)) })
			c.Count("exp.polyEval")
			c.Emit(fmt.Sprintf("polyEvalExp %s %s %s", name, ptsStr(lp.Coefficients()), scalarHex(x)), res)
			if want := ptStr(g.ScalarOp(fpoly.Eval(x))); res != want {
				c.Violation(fmt.Sprintf("Eval(LiftPolynomial(f,g),x) != f(x)*g: curve=%s f=%s g=%s x=%s got %s want %s", name, scalarsHex(cs), ptStr(g), scalarHex(x), res, want))
			}
			res = safely(func() string { return ptsStr(lp.Derivative().Coefficients()) })
			c.Count("exp.polyDeriv")
			c.Emit(fmt.Sprintf("polyDerivExp %s %s", name, ptsStr(lp.Coefficients())), res)
		}
		// ---- Lagrange in the exponent
		for k := 0; k < 3; k++ {
			n := 1 + r.IntN(4)
			nodes, distinct := c20Nodes(r, f, n, k == 2 && r.IntN(2) == 0)
			cs := make([]S, n)
			for i := range cs {
				cs[i] = c20Scalar(r, f)
			}
			fpoly, _ := ring.New(cs...)
			vals := c20EvalAll(fpoly, nodes)
			pts := lift(vals, g)
			if k == 1 && r.IntN(4) == 0 {
				pts = append(pts, g)
			}
			x := f.Zero()
			if r.IntN(2) == 0 {
				x = c20Scalar(r, f)
			}
			res := safely(func() string {
				y, err := lagrange.InterpolateInExponentAt[P, S](curve, nodes, pts, x)
				if err != nil {
					return c20ErrClass(err)
				}
				return ptStr(y)
			})
			c.Count("exp.lagrange")
			c.Emit(fmt.Sprintf("lagrangeExpAt %s %s %s %s", name, scalarsHex(nodes), ptsStr(pts), scalarHex(x)), res)
			if distinct && len(pts) == n {
				if want := ptStr(g.ScalarOp(fpoly.Eval(x))); res != want {
					c.Violation(fmt.Sprintf("InterpolateInExponentAt(f(nodes)*g) != f(x)*g: curve=%s nodes=%s f=%s g=%s x=%s got %s want %s", name, scalarsHex(nodes), scalarsHex(cs), ptStr(g), scalarHex(x), res, want))
				}
			}
		}
		// ---- Birkhoff in the exponent
		for k := 0; k < 2; k++ {
			n := 2 + r.IntN(3)
			if r.IntN(8) == 0 {
				n = 1
			}
			xs, js, kind := c20BirkhoffNodes(r, f, n)
			cs := make([]S, n)
			for i := range cs {
				cs[i] = c20Scalar(r, f)
			}
			fpoly, _ := ring.New(cs...)
			ys := make([]S, n)
			for i := range ys {
				ys[i] = c20IterDeriv(fpoly, js[i]).Eval(xs[i])
			}
			pts := lift(ys, g)
			var ec []P
			res := safely(func() string {
				pl, err := birkhoff.InterpolateInExponent(xs, js, pts)
				if err != nil {
					return c20ErrClass(err)
				}
				ec = pl.Coefficients()
				return ptsStr(ec)
			})
			c.Count("exp.birkhoff." + kind + "." + map[bool]string{true: "ok", false: "err"}[ec != nil])
			c.Emit(fmt.Sprintf("birkhoffExp %s %s %s %s", name, scalarsHex(xs), decList(js), ptsStr(pts)), res)
			// commutes with lifting: the scalar interpolation, lifted, is the interpolation in the exponent
			want := safely(func() string {
				pl, err := birkhoff.Interpolate(xs, js, ys)
				if err != nil {
					return c20ErrClass(err)
				}
				return ptsStr(lift(pl.Coefficients(), g))
			})
			if res != want {
				c.Violation(fmt.Sprintf("birkhoff.InterpolateInExponent(lift ys) != lift(birkhoff.Interpolate(ys)): n=%d curve=%s xs=%s js=%s ys=%s g=%s got %s want %s", n, name, scalarsHex(xs), decList(js), scalarsHex(ys), ptStr(g), res, want))
			}
		}
		// ---- Lift / LeftAction / RightAction
		for k := 0; k < 3; k++ {
			// shapes up to 3×3 so that non-square actors with both dimensions >= 2 (where row-major and
			// column-major addressing differ) occur on both sides
			m, kk, n := 1+r.IntN(3), 1+r.IntN(3), 1+r.IntN(3)
			aRows := c20ScalarRows(r, f, m, kk)
			rRows := c20ScalarRows(r, f, kk, n)
			modA, _ := mat.NewMatrixModule(uint(m), uint(kk), f)
			modR, _ := mat.NewMatrixModule(uint(kk), uint(n), f)
			A, errA := modA.New(aRows)
			R, errR := modR.New(rRows)
			if errA != nil || errR != nil {
				c.Violation(fmt.Sprintf("MatrixModule.New: %v %v", errA, errR))
				continue
			}
			var X *mat.ModuleValuedMatrix[P, S]
			res := safely(func() string {
				var err error
				X, err = mat.Lift(R, g)
				if err != nil {
					return c20ErrClass(err)
				}
				return ptsStr(c20Collect(X))
			})
			c.Count("exp.lift")
			c.Emit(fmt.Sprintf("lift %s %d %d %s %s", name, kk, n, matHex(rRows), ptStr(g)), res)
			if X == nil {
				continue
			}
			xStr := res
			if k == 0 || k == 2 { // A · lift(R, g)
				res = safely(func() string {
					out, err := mat.LeftAction(A, X)
					if err != nil {
						return c20ErrClass(err)
					}
					return ptsStr(c20Collect(out))
				})
				c.Count("exp.leftAction")
				c.Emit(fmt.Sprintf("leftAction %s %d %d %s %d %d %s", name, m, kk, matHex(aRows), kk, n, xStr), res)
				want := safely(func() string {
					AR, err := A.TryMul(R)
					if err != nil {
						return c20ErrClass(err)
					}
					L, err := mat.Lift(AR, g)
					if err != nil {
						return c20ErrClass(err)
					}
					return ptsStr(c20Collect(L))
				})
				if res != want {
					c.Violation(fmt.Sprintf("LeftAction(A, Lift(R,g)) != Lift(A*R, g): curve=%s A=%dx%d:%s R=%dx%d:%s g=%s got %s want %s", name, m, kk, matHex(aRows), kk, n, matHex(rRows), ptStr(g), res, want))
				}
			}
			if k == 1 || k == 2 { // lift(R, g) · B
				q := 1 + r.IntN(3)
				bRows := c20ScalarRows(r, f, n, q)
				modB, _ := mat.NewMatrixModule(uint(n), uint(q), f)
				B, errB := modB.New(bRows)
				if errB != nil {
					c.Violation(fmt.Sprintf("MatrixModule.New: %v", errB))
					continue
				}
				res = safely(func() string {
					out, err := mat.RightAction(X, B)
					if err != nil {
						return c20ErrClass(err)
					}
					return ptsStr(c20Collect(out))
				})
				c.Count("exp.rightAction")
				c.Emit(fmt.Sprintf("rightAction %s %d %d %s %d %d %s", name, kk, n, xStr, n, q, matHex(bRows)), res)
				want := safely(func() string {
					RB, err := R.TryMul(B)
					if err != nil {
						return c20ErrClass(err)
					}
					L, err := mat.Lift(RB, g)
					if err != nil {
						return c20ErrClass(err)
					}
					return ptsStr(c20Collect(L))
				})
				if res != want {
					c.Violation(fmt.Sprintf("RightAction(Lift(R,g), B) != Lift(R*B, g): curve=%s R=%dx%d:%s B=%dx%d:%s g=%s got %s want %s", name, kk, n, matHex(rRows), n, q, matHex(bRows), ptStr(g), res, want))
				}
			}
			if k == 2 && r.IntN(2) == 0 { // dimension mismatch: actor columns != rows of x
				modC, _ := mat.NewMatrixModule(uint(m), uint(kk+1), f)
				cRows := c20ScalarRows(r, f, m, kk+1)
				C, errC := modC.New(cRows)
				if errC != nil {
					continue
				}
				res = safely(func() string {
					out, err := mat.LeftAction(C, X)
					if err != nil {
						return c20ErrClass(err)
					}
					return ptsStr(c20Collect(out))
				})
				c.Count("exp.leftAction.mismatch")
				c.Emit(fmt.Sprintf("leftAction %s %d %d %s %d %d %s", name, m, kk+1, matHex(cRows), kk, n, xStr), res)
				res = safely(func() string {
					out, err := mat.RightAction(X, C)
					if err != nil {
						return c20ErrClass(err)
					}
					return ptsStr(c20Collect(out))
				})
				if n != m {
					c.Count("exp.rightAction.mismatch")
					c.Emit(fmt.Sprintf("rightAction %s %d %d %s %d %d %s", name, kk, n, xStr, m, kk+1, matHex(cRows)), res)
				}
			}
		}
	}
}

func c20Collect[P curves.Point[P, F, S], F algebra.FiniteFieldElement[F], S algebra.PrimeFieldElement[S]](m *mat.ModuleValuedMatrix[P, S]) []P {
	out := []P{}
	for e := range m.Iter() {
		out = append(out, e)
	}
	return out
}

// c20BirkhoffExhaustive enumerates every derivative-order pattern js in {0..n-1}^n for n <= 3
// (quick) / n <= 4 (thorough) on small and on large distinct abscissae, with values taken from a
// fixed random polynomial of degree < n: solvable patterns must return that polynomial, the others
// must be refused (decided by the model).
func c20BirkhoffExhaustive[S algebra.PrimeFieldElement[S]](c *Ctx, f algebra.PrimeField[S], stream uint64) {
	r := NewRng(c.Seed, 2100+stream)
	p := hexNat(fieldOrder(f))
	ring, _ := polynomials.NewPolynomialRing(f)
	maxN := 3
	if c.Thorough() {
		maxN = 4
	}
	for n := 1; n <= maxN; n++ {
		for variant := 0; variant < 2; variant++ {
			if variant == 1 && !c.Thorough() && n == 3 {
				continue
			}
			xs := make([]S, n)
			for i := range xs {
				if variant == 0 {
					xs[i] = f.FromUint64(uint64(i + 1))
				} else {
					xs[i] = scalarFromBig(f, r.BigBelow(fieldOrder(f)))
				}
			}
			cs := make([]S, n)
			for i := range cs {
				cs[i] = smallOrRandom(r, f, 30)
			}
			fpoly, _ := ring.New(cs...)
			total := 1
			for range n {
				total *= n
			}
			for code := 0; code < total; code++ {
				js := make([]uint64, n)
				k := code
				for i := range js {
					js[i] = uint64(k % n)
					k /= n
				}
				ys := make([]S, n)
				for i := range ys {
					ys[i] = c20IterDeriv(fpoly, js[i]).Eval(xs[i])
				}
				var bc []S
				res := safely(func() string {
					pl, err := birkhoff.Interpolate(xs, js, ys)
					if err != nil {
						return c20ErrClass(err)
					}
					bc = pl.Coefficients()
					return scalarsHex(bc)
				})
				c.Count("birkhoff.exhaustive." + map[bool]string{true: "ok", false: "err"}[bc != nil])
				c.Emit(fmt.Sprintf("birkhoffInterp %s %s %s %s", p, scalarsHex(xs), decList(js), scalarsHex(ys)), res)
				if bc != nil && !c20SameCoeffs(bc, c20Pad(f, cs, n)) {
					c.Violation(fmt.Sprintf("birkhoff.Interpolate(derivatives of f) != f: p=%s xs=%s js=%s f=%s got %s", p, scalarsHex(xs), decList(js), scalarsHex(cs), res))
				}
			}
		}
	}
}
