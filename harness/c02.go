package main

import (
	"fmt"
	"math/big"
	"slices"
	"sort"
	"strconv"
	"strings"

	"github.com/bronlabs/bron-crypto/pkg/base/algebra"
	"github.com/bronlabs/bron-crypto/pkg/base/datastructures/bitset"
	"github.com/bronlabs/bron-crypto/pkg/mpc/sharing"
	"github.com/bronlabs/bron-crypto/pkg/mpc/sharing/accessstructures"
	"github.com/bronlabs/bron-crypto/pkg/mpc/sharing/accessstructures/hierarchical"
	"github.com/bronlabs/bron-crypto/pkg/mpc/sharing/accessstructures/threshold"
	"github.com/bronlabs/bron-crypto/pkg/mpc/sharing/accessstructures/unanimity"
	"github.com/bronlabs/bron-crypto/pkg/mpc/sharing/scheme/additive"
	"github.com/bronlabs/bron-crypto/pkg/mpc/sharing/scheme/isn"
	"github.com/bronlabs/bron-crypto/pkg/mpc/sharing/scheme/kw"
	"github.com/bronlabs/bron-crypto/pkg/mpc/sharing/scheme/kw/msp"
	"github.com/bronlabs/bron-crypto/pkg/mpc/sharing/scheme/shamir"
	"github.com/bronlabs/bron-crypto/pkg/mpc/sharing/scheme/tassa"
)

func init() { register("C02", runC02) }

func runC02(c *Ctx) {
	c02Refusals(c, fK256)
	c02BigIDs(c, fK256)
	// structured layouts: hierarchical level layouts (interleaved, reversed, sparse, boundary, large
	// ids, field-size bound), gate-tree shapes (nested thresholds, repeated leaves), CNF antichains
	c02HierLayouts(c, fK256, 1)
	c02TreeShapes(c, fK256, 1)
	if c.Thorough() {
		c02HierLayouts(c, fEd25519, 2)
		c02TreeShapes(c, fBLS, 2)
		c02Antichains(c, fK256, 300, 1)
		c02Antichains(c, fPallas, 100, 2)
		c02Exhaustive(c, fK256, 5, 11)
		c02Exhaustive(c, fBLS, 4, 12)
		c02Exhaustive(c, fEd25519, 3, 13)
		c02Random(c, fK256, 400, 1)
		c02Random(c, fEd25519, 250, 2)
		c02Random(c, fBLS, 250, 3)
		c02Random(c, fP256, 150, 4)
		c02Random(c, fPallas, 150, 5)
	} else {
		c02Antichains(c, fK256, 25, 1)
		c02Exhaustive(c, fK256, 3, 11)
		c02Random(c, fK256, 40, 1)
		c02Random(c, fEd25519, 25, 2)
		c02Random(c, fBLS, 25, 3)
	}
}

// ---------------------------------------------------------------- MSP view

type mspView[S algebra.PrimeFieldElement[S]] struct {
	rows, cols int
	flat       []S
	holders    []uint64
}

func viewMSP[S algebra.PrimeFieldElement[S]](m *msp.MSP[S]) mspView[S] {
	rows, cols := m.Matrix().Dimensions()
	v := mspView[S]{rows: rows, cols: cols}
	for i := range rows {
		for j := range cols {
			e, err := m.Matrix().Get(i, j)
			if err != nil {
				panic(err)
			}
			v.flat = append(v.flat, e)
		}
		id, ok := m.RowsToHolders().Get(i)
		if !ok {
			panic("row without holder")
		}
		v.holders = append(v.holders, uint64(id))
	}
	return v
}

func (v mspView[S]) str(sep string) string {
	return strings.Join([]string{strconv.Itoa(v.rows), strconv.Itoa(v.cols), scalarsHex(v.flat), idsHex(v.holders)}, sep)
}

func colStr[S algebra.PrimeFieldElement[S]](df *kw.DealerFunc[S]) string {
	rc := df.RandomColumn()
	n, _ := rc.Dimensions()
	out := make([]S, n)
	for i := range n {
		out[i], _ = rc.Get(i, 0)
	}
	return scalarsHex(out)
}

func kwSharesStr[S algebra.PrimeFieldElement[S]](sh map[uint64]*kw.Share[S]) string {
	ids := make([]uint64, 0, len(sh))
	for id := range sh {
		ids = append(ids, id)
	}
	slices.Sort(ids)
	parts := make([]string, len(ids))
	for i, id := range ids {
		parts[i] = strconv.FormatUint(id, 16) + "=" + scalarsHex(sh[id].Value())
	}
	if len(parts) == 0 {
		return "-"
	}
	return strings.Join(parts, ";")
}

func idValStr[S algebra.PrimeFieldElement[S]](m map[uint64]S) string {
	ids := make([]uint64, 0, len(m))
	for id := range m {
		ids = append(ids, id)
	}
	slices.Sort(ids)
	parts := make([]string, len(ids))
	for i, id := range ids {
		parts[i] = strconv.FormatUint(id, 16) + "=" + scalarHex(m[id])
	}
	if len(parts) == 0 {
		return "-"
	}
	return strings.Join(parts, ";")
}

func kwDeal[S algebra.PrimeFieldElement[S]](sch *kw.Scheme[S], secret S, r *Rng) (map[uint64]*kw.Share[S], *kw.DealerFunc[S], error) {
	out, df, err := sch.DealAndRevealDealerFunc(kw.NewSecret(secret), r)
	if err != nil {
		return nil, nil, err
	}
	m := map[uint64]*kw.Share[S]{}
	for id, sh := range out.Shares().Iter() {
		m[uint64(id)] = sh
	}
	return m, df, nil
}

func secretsFor[S algebra.PrimeFieldElement[S]](r *Rng, f algebra.PrimeField[S], which int) S {
	switch which % 4 {
	case 0:
		return f.Zero()
	case 1:
		return f.One()
	case 2:
		return f.One().Neg()
	}
	return scalarFromBig(f, r.BigBelow(fieldOrder(f)))
}

func pickMasks(r *Rng, n int, all bool, k int) []int {
	total := 1 << n
	if all || total-1 <= k {
		out := make([]int, 0, total-1)
		for m := 1; m < total; m++ {
			out = append(out, m)
		}
		return out
	}
	seen := map[int]bool{total - 1: true}
	out := []int{total - 1}
	for len(out) < k {
		m := 1 + r.IntN(total-1)
		if !seen[m] {
			seen[m] = true
			out = append(out, m)
		}
	}
	slices.Sort(out)
	return out
}

// ---------------------------------------------------------------- one policy, all KW/MSP clauses

// c02One emits every line for one policy. `full` = every subset for the per-subset ops.
func c02One[S algebra.PrimeFieldElement[S]](c *Ctx, r *Rng, f algebra.PrimeField[S], p *c02Policy, full bool, secretIdx int) {
	ps := hexNat(fieldOrder(f))
	tok := p.token()
	var ac accessstructures.Monotone
	res := safely(func() string {
		var err error
		ac, err = p.build()
		return c02errClass(err)
	})
	c.Emit("new "+tok, res)
	if res != "ok" {
		c.Count("policy.refused." + p.kind)
		return
	}
	c.Count("policy." + p.kind)
	U := sortedHolders(ac)
	n := len(U)
	if n > 7 {
		c.Note("universe too large for subset enumeration: " + tok)
		return
	}
	// (a) IsQualified on every subset
	qual := make([]bool, 1<<n)
	res = safely(func() string {
		for m := range qual {
			qual[m] = ac.IsQualified(toIDs(subsetOf(U, m))...)
		}
		return idsHex(U) + "/" + c02bitsStr(qual)
	})
	c.Emit("qual "+tok, res)
	nq := 0
	for _, b := range qual {
		if b {
			nq++
		}
	}
	if nq == 0 || nq == len(qual) {
		c.Count("policy.degenerate")
	}

	// (b) induced MSP
	var sch *kw.Scheme[S]
	res = safely(func() string {
		var err error
		sch, err = kw.NewScheme(f, ac)
		if err != nil {
			return c02errClass(err)
		}
		return "ok:" + viewMSP(sch.MSP()).str("/")
	})
	c.Emit(fmt.Sprintf("msp %s %s", ps, tok), res)
	if !strings.HasPrefix(res, "ok:") {
		c.Count("msp.refused." + p.kind)
		return
	}
	M := sch.MSP()
	mv := viewMSP(M).str(" ")
	// shareholders of the policy that own no MSP row (they get no share and no set containing them is accepted)
	// (only the holders the recorded finding is about — those in every maximal unqualified set of a CNF
	// policy, computed from the policy description — are tagged; any other missing row is untagged)
	rowless := map[uint64]bool{}
	known := c02KnownRowless(p)
	for _, id := range U {
		if !M.Shareholders().Contains(sharing.ID(id)) && known[id] {
			rowless[id] = true
		}
	}
	tagFor := func(S_ []uint64) string {
		for _, id := range S_ {
			if rowless[id] {
				return "[holder-without-rows] "
			}
		}
		return ""
	}
	if len(rowless) > 0 {
		c.Count("policy.holder-without-rows")
	}
	acc := make([]bool, 1<<n)
	res = safely(func() string {
		for m := range acc {
			acc[m] = M.Accepts(toIDs(subsetOf(U, m))...)
			if acc[m] != sch.CanReconstruct(toIDs(subsetOf(U, m))...) {
				c.Violation(fmt.Sprintf("CanReconstruct != Accepts policy=%s mask=%d", tok, m))
			}
		}
		return c02bitsStr(acc)
	})
	c.Emit(fmt.Sprintf("accepts %s %s %s", ps, tok, mv), res)
	for m := range acc {
		if acc[m] != qual[m] {
			c.Violation(fmt.Sprintf("%sAccepts != IsQualified policy=%s field=%s subset=%s accepts=%v qualified=%v", tagFor(subsetOf(U, m)), tok, ps, idsHex(subsetOf(U, m)), acc[m], qual[m]))
		}
	}

	// (c) reconstruction vector / coefficients
	for _, m := range pickMasks(r, n, full, 6) {
		S_ := subsetOf(U, m)
		res = safely(func() string {
			rv, err := M.ReconstructionVector(toIDs(S_)...)
			if err != nil {
				return "none"
			}
			k, _ := rv.Dimensions()
			vec := make([]S, k)
			for i := range k {
				vec[i], _ = rv.Get(i, 0)
			}
			parts := make([]string, len(S_))
			for i, id := range S_ {
				co, err := M.ReconstructionCoefficients(sharing.ID(id), toIDs(S_)...)
				if err != nil {
					return "coeff-" + c02errClass(err)
				}
				parts[i] = strconv.FormatUint(id, 16) + "=" + scalarsHex(co)
			}
			return "ok:" + scalarsHex(vec) + "/" + strings.Join(parts, ";")
		})
		if res == "none" {
			c.Count("recvec.none")
		} else {
			c.Count("recvec.ok")
		}
		c.Emit(fmt.Sprintf("recvec %s %s %s", ps, mv, idsHex(S_)), res)
	}

	// (d) deal with revealed random column; reconstruct from every subset
	secret := secretsFor(r, f, secretIdx)
	var shares map[uint64]*kw.Share[S]
	var col string
	res = safely(func() string {
		var err error
		var df *kw.DealerFunc[S]
		shares, df, err = kwDeal(sch, secret, r)
		if err != nil {
			return c02errClass(err)
		}
		col = colStr(df)
		if !df.Secret().Value().Equal(secret) {
			c.Violation("DealerFunc.Secret != dealt secret policy=" + tok)
		}
		return "ok:" + col + "/" + kwSharesStr(shares)
	})
	c.Emit(fmt.Sprintf("deal %s %s %s", ps, mv, scalarHex(secret)), res)
	if !strings.HasPrefix(res, "ok:") {
		c.Count("deal.refused")
		return
	}
	c.Count("deal.ok")
	res = safely(func() string {
		out := make([]string, 1<<n)
		for m := range out {
			var sel []*kw.Share[S]
			missing := false
			for _, id := range subsetOf(U, m) {
				if shares[id] == nil {
					missing = true
					continue
				}
				sel = append(sel, shares[id])
			}
			var s *kw.Secret[S]
			err := error(sharing.ErrMembership)
			if !missing {
				s, err = sch.Reconstruct(sel...)
			}
			if err != nil {
				out[m] = "x"
				if qual[m] {
					c.Violation(fmt.Sprintf("%sKW Reconstruct failed for qualified set policy=%s subset=%s", tagFor(subsetOf(U, m)), tok, idsHex(subsetOf(U, m))))
				}
				continue
			}
			out[m] = scalarHex(s.Value())
			if !s.Value().Equal(secret) {
				c.Violation(fmt.Sprintf("KW Reconstruct != secret policy=%s field=%s subset=%s qualified=%v", tok, ps, idsHex(subsetOf(U, m)), qual[m]))
			}
		}
		return strings.Join(out, ",")
	})
	c.Emit(fmt.Sprintf("recon %s %s %s %s", ps, tok, mv, col), res)

	// (e) conversion to additive shares over quorums
	for _, m := range pickMasks(r, n, full, 5) {
		Q := subsetOf(U, m)
		if len(Q) < 2 {
			continue
		}
		res = safely(func() string {
			quorum, err := unanimity.NewUnanimityAccessStructure(c02idSet(Q))
			if err != nil {
				return "quorum-" + c02errClass(err)
			}
			vals := map[uint64]S{}
			sum := f.Zero()
			for _, id := range Q {
				if shares[id] == nil {
					return "noshare"
				}
				a, err := sch.ConvertShareToAdditive(shares[id], quorum)
				if err != nil {
					return c02errClass(err)
				}
				vals[id] = a.Value()
				sum = sum.Add(a.Value())
			}
			if !sum.Equal(secret) {
				c.Violation(fmt.Sprintf("KW additive shares do not sum to the secret policy=%s field=%s quorum=%s", tok, ps, idsHex(Q)))
			}
			return "ok:" + idValStr(vals)
		})
		if strings.HasPrefix(res, "ok:") {
			c.Count("toadd.ok")
		} else {
			c.Count("toadd.refused")
		}
		c.Emit(fmt.Sprintf("toadd %s %s %s %s %s", ps, tok, mv, col, idsHex(Q)), res)
	}

	// (f) linearity
	{
		secretB := secretsFor(r, f, 3)
		k := smallOrRandom(r, f, 30)
		masks := pickMasks(r, n, false, 3)
		res = safely(func() string {
			sharesB, dfB, err := kwDeal(sch, secretB, r)
			if err != nil {
				return c02errClass(err)
			}
			add := map[uint64]*kw.Share[S]{}
			mul := map[uint64]*kw.Share[S]{}
			for id := range shares {
				add[id] = shares[id].Add(sharesB[id])
				mul[id] = shares[id].ScalarMul(k)
			}
			var recs []string
			for _, m := range masks {
				var sa, sm []*kw.Share[S]
				missing := false
				for _, id := range subsetOf(U, m) {
					if add[id] == nil {
						missing = true
						continue
					}
					sa = append(sa, add[id])
					sm = append(sm, mul[id])
				}
				ra, rm := "x", "x"
				if !missing {
					if s, err := sch.Reconstruct(sa...); err == nil {
						ra = scalarHex(s.Value())
					}
					if s, err := sch.Reconstruct(sm...); err == nil {
						rm = scalarHex(s.Value())
					}
				}
				recs = append(recs, fmt.Sprintf("%s:%s:%s", idsHex(subsetOf(U, m)), ra, rm))
			}
			return "ok:" + colStr(dfB) + "/" + kwSharesStr(add) + "/" + kwSharesStr(mul) + "/" + strings.Join(recs, ";")
		})
		c.Count("lin")
		c.Emit(fmt.Sprintf("lin %s %s %s %s %s", ps, tok, mv, col, scalarHex(k)), res)
	}

	// non-member IDs: model-vs-code only
	{
		ext := slices.Clone(subsetOf(U, 1+r.IntN(1<<n-1)))
		extra := U[len(U)-1] + 1 + uint64(r.IntN(3))
		if extra == 0 {
			extra = 7
		}
		if !slices.Contains(U, extra) {
			ext = append(ext, extra)
			if r.IntN(2) == 0 {
				ext = append(ext, ext[0]) // duplicate
			}
			res = safely(func() string { return strconv.FormatBool(ac.IsQualified(toIDs(ext)...)) })
			c.Emit(fmt.Sprintf("qualx %s %s", tok, idsHex(ext)), res)
			res = safely(func() string { return strconv.FormatBool(M.Accepts(toIDs(ext)...)) })
			c.Emit(fmt.Sprintf("acceptsx %s %s %s", ps, mv, idsHex(ext)), res)
			c.Count("nonmember")
		}
	}
}

// ---------------------------------------------------------------- scheme round trips (g)

func perMask[S algebra.PrimeFieldElement[S]](n int, rec func(m int) (S, error)) string {
	out := make([]string, 1<<n)
	for m := range out {
		s, err := rec(m)
		if err != nil {
			out[m] = "x"
		} else {
			out[m] = scalarHex(s)
		}
	}
	return strings.Join(out, ",")
}

func polyStr[S algebra.PrimeFieldElement[S]](coeffs []S, want int) string {
	// the library trims leading zero coefficients; pad so the model sees `want` coefficients
	out := slices.Clone(coeffs)
	for len(out) < want {
		var z S
		if len(coeffs) > 0 {
			z = coeffs[0].Sub(coeffs[0])
		}
		out = append(out, z)
	}
	return scalarsHex(out)
}

func c02Shamir[S algebra.PrimeFieldElement[S]](c *Ctx, r *Rng, f algebra.PrimeField[S], p *c02Policy, secretIdx int) {
	ps := hexNat(fieldOrder(f))
	acAny, err := p.build()
	if err != nil {
		return
	}
	ac := acAny.(*threshold.Threshold)
	U := sortedHolders(ac)
	n := len(U)
	secret := secretsFor(r, f, secretIdx)
	var shares map[uint64]*shamir.Share[S]
	var coeffs string
	res := safely(func() string {
		sch, err := shamir.NewScheme(f, ac)
		if err != nil {
			return c02errClass(err)
		}
		out, poly, err := sch.DealAndRevealDealerFunc(shamir.NewSecret(secret), r)
		if err != nil {
			return c02errClass(err)
		}
		coeffs = polyStr(poly.Coefficients(), p.t)
		shares = map[uint64]*shamir.Share[S]{}
		vals := map[uint64]S{}
		for id, sh := range out.Shares().Iter() {
			shares[uint64(id)] = sh
			vals[uint64(id)] = sh.Value()
		}
		rec := perMask(n, func(m int) (S, error) {
			var sel []*shamir.Share[S]
			for _, id := range subsetOf(U, m) {
				sel = append(sel, shares[id])
			}
			s, err := sch.Reconstruct(sel...)
			if err != nil {
				var z S
				return z, err
			}
			if !s.Value().Equal(secret) {
				c.Violation(fmt.Sprintf("Shamir Reconstruct != secret policy=%s field=%s subset=%s", p.token(), ps, idsHex(subsetOf(U, m))))
			}
			return s.Value(), nil
		})
		return "ok:" + coeffs + "/" + idValStr(vals) + "/" + rec
	})
	c.Count("shamir")
	c.Emit(fmt.Sprintf("shamir %s %s %s", ps, p.token(), scalarHex(secret)), res)
	if !strings.HasPrefix(res, "ok:") {
		return
	}
	for _, m := range pickMasks(r, n, false, 3) {
		Q := subsetOf(U, m)
		if len(Q) < 2 {
			continue
		}
		res = safely(func() string {
			quorum, err := unanimity.NewUnanimityAccessStructure(c02idSet(Q))
			if err != nil {
				return "quorum-" + c02errClass(err)
			}
			vals := map[uint64]S{}
			for _, id := range Q {
				a, err := shares[id].ToAdditive(quorum)
				if err != nil {
					return c02errClass(err)
				}
				vals[id] = a.Value()
			}
			return "ok:" + idValStr(vals)
		})
		c.Emit(fmt.Sprintf("shamiradd %s %s %s %s", ps, p.token(), coeffs, idsHex(Q)), res)
	}
}

func c02Additive[S algebra.PrimeFieldElement[S]](c *Ctx, r *Rng, f algebra.PrimeField[S], p *c02Policy, secretIdx int) {
	ps := hexNat(fieldOrder(f))
	acAny, err := p.build()
	if err != nil {
		return
	}
	ac := acAny.(*unanimity.Unanimity)
	U := sortedHolders(ac)
	n := len(U)
	secret := secretsFor(r, f, secretIdx)
	res := safely(func() string {
		sch, err := additive.NewScheme(f, ac)
		if err != nil {
			return c02errClass(err)
		}
		sec, err := additive.NewSecret(secret)
		if err != nil {
			return c02errClass(err)
		}
		out, err := sch.Deal(sec, r)
		if err != nil {
			return c02errClass(err)
		}
		shares := map[uint64]*additive.Share[S]{}
		vals := map[uint64]S{}
		for id, sh := range out.Shares().Iter() {
			shares[uint64(id)] = sh
			vals[uint64(id)] = sh.Value()
		}
		rec := perMask(n, func(m int) (S, error) {
			var sel []*additive.Share[S]
			for _, id := range subsetOf(U, m) {
				sel = append(sel, shares[id])
			}
			if len(sel) == 0 {
				var z S
				return z, sharing.ErrValue
			}
			s, err := sch.Reconstruct(sel...)
			if err != nil {
				var z S
				return z, err
			}
			return s.Value(), nil
		})
		return "ok:" + idValStr(vals) + "/" + rec
	})
	c.Count("additive")
	c.Emit(fmt.Sprintf("additive %s %s %s", ps, p.token(), scalarHex(secret)), res)
}

func musKey(b bitset.ImmutableBitSet[sharing.ID]) string {
	return strconv.FormatUint(uint64(b), 16)
}

func c02ISN[S algebra.PrimeFieldElement[S]](c *Ctx, r *Rng, f algebra.PrimeField[S], p *c02Policy, secretIdx int) {
	ps := hexNat(fieldOrder(f))
	ac, err := p.build()
	if err != nil {
		return
	}
	U := sortedHolders(ac)
	n := len(U)
	if U[len(U)-1] > 64 {
		return // the >64 case is the separate `isnbig` op
	}
	secret := secretsFor(r, f, secretIdx)
	var pieces string
	var shares map[uint64]*isn.Share[S]
	res := safely(func() string {
		sch, err := isn.NewFiniteScheme(f, ac)
		if err != nil {
			return c02errClass(err)
		}
		out, df, err := sch.DealAndRevealDealerFunc(isn.NewSecret(secret), r)
		if err != nil {
			return c02errClass(err)
		}
		keys := make([]uint64, 0, len(df))
		for k := range df {
			keys = append(keys, uint64(k))
		}
		slices.Sort(keys)
		pp := make([]string, len(keys))
		for i, k := range keys {
			pp[i] = strconv.FormatUint(k, 16) + "=" + scalarHex(df[bitset.ImmutableBitSet[sharing.ID](k)])
		}
		pieces = strings.Join(pp, ";")
		shares = map[uint64]*isn.Share[S]{}
		var sp []string
		for _, id := range U {
			sh, ok := out.Shares().Get(sharing.ID(id))
			if !ok {
				return "missing-share"
			}
			shares[id] = sh
			var ks []uint64
			for k := range sh.Value().Iter() {
				ks = append(ks, uint64(k))
			}
			slices.Sort(ks)
			es := make([]string, len(ks))
			for i, k := range ks {
				v, _ := sh.Value().Get(bitset.ImmutableBitSet[sharing.ID](k))
				es[i] = strconv.FormatUint(k, 16) + ":" + scalarHex(v)
			}
			sp = append(sp, strconv.FormatUint(id, 16)+"="+joinComma(es))
		}
		rec := perMask(n, func(m int) (S, error) {
			var sel []*isn.Share[S]
			for _, id := range subsetOf(U, m) {
				sel = append(sel, shares[id])
			}
			s, err := sch.Reconstruct(sel...)
			if err != nil {
				var z S
				return z, err
			}
			if !s.Value().Equal(secret) {
				c.Violation(fmt.Sprintf("ISN Reconstruct != secret policy=%s field=%s subset=%s", p.token(), ps, idsHex(subsetOf(U, m))))
			}
			return s.Value(), nil
		})
		return "ok:" + pieces + "/" + strings.Join(sp, ";") + "/" + rec
	})
	c.Count("isn")
	c.Emit(fmt.Sprintf("isn %s %s %s", ps, p.token(), scalarHex(secret)), res)
	if !strings.HasPrefix(res, "ok:") {
		return
	}
	for _, m := range pickMasks(r, n, false, 3) {
		Q := subsetOf(U, m)
		if len(Q) < 2 {
			continue
		}
		res = safely(func() string {
			quorum, err := unanimity.NewUnanimityAccessStructure(c02idSet(Q))
			if err != nil {
				return "quorum-" + c02errClass(err)
			}
			vals := map[uint64]S{}
			for _, id := range Q {
				a, err := shares[id].ToAdditive(quorum)
				if err != nil {
					return c02errClass(err)
				}
				vals[id] = a.Value()
			}
			return "ok:" + idValStr(vals)
		})
		c.Emit(fmt.Sprintf("isnadd %s %s %s %s", ps, p.token(), pieces, idsHex(Q)), res)
	}
}

func c02Tassa[S algebra.PrimeFieldElement[S]](c *Ctx, r *Rng, f algebra.PrimeField[S], p *c02Policy, secretIdx int) {
	ps := hexNat(fieldOrder(f))
	acAny, err := p.build()
	if err != nil {
		return
	}
	ac := acAny.(*hierarchical.HierarchicalConjunctiveThreshold)
	U := sortedHolders(ac)
	n := len(U)
	secret := secretsFor(r, f, secretIdx)
	top := p.levels[len(p.levels)-1].t
	var coeffs string
	var sch *tassa.Scheme[S]
	var shares map[uint64]*tassa.Share[S]
	res := safely(func() string {
		var err error
		sch, err = tassa.NewScheme(ac, f)
		if err != nil {
			return c02errClass(err)
		}
		out, poly, err := sch.DealAndRevealDealerFunc(tassa.NewSecret(secret), r)
		if err != nil {
			return "deal-" + c02errClass(err)
		}
		coeffs = polyStr(poly.Coefficients(), top)
		shares = map[uint64]*tassa.Share[S]{}
		vals := map[uint64]S{}
		for id, sh := range out.Shares().Iter() {
			shares[uint64(id)] = sh
			vals[uint64(id)] = sh.Value()
		}
		rec := perMask(n, func(m int) (S, error) {
			var sel []*tassa.Share[S]
			for _, id := range subsetOf(U, m) {
				sel = append(sel, shares[id])
			}
			s, err := sch.Reconstruct(sel...)
			if err != nil {
				var z S
				return z, err
			}
			if !s.Value().Equal(secret) {
				c.Violation(fmt.Sprintf("Tassa Reconstruct != secret policy=%s field=%s subset=%s", p.token(), ps, idsHex(subsetOf(U, m))))
			}
			return s.Value(), nil
		})
		return "ok:" + coeffs + "/" + idValStr(vals) + "/" + rec
	})
	c.Count("tassa")
	c.Emit(fmt.Sprintf("tassa %s %s %s", ps, p.token(), scalarHex(secret)), res)
	if !strings.HasPrefix(res, "ok:") {
		return
	}
	for _, m := range pickMasks(r, n, false, 3) {
		Q := subsetOf(U, m)
		if len(Q) < 2 {
			continue
		}
		res = safely(func() string {
			quorum, err := unanimity.NewUnanimityAccessStructure(c02idSet(Q))
			if err != nil {
				return "quorum-" + c02errClass(err)
			}
			vals := map[uint64]S{}
			for _, id := range Q {
				if shares[id] == nil {
					return "noshare"
				}
				a, err := sch.ConvertShareToAdditive(shares[id], quorum)
				if err != nil {
					return c02errClass(err)
				}
				vals[id] = a.Value()
			}
			return "ok:" + idValStr(vals)
		})
		c.Emit(fmt.Sprintf("tassaadd %s %s %s %s", ps, p.token(), coeffs, idsHex(Q)), res)
	}
}

// ---------------------------------------------------------------- streams

func c02Family[S algebra.PrimeFieldElement[S]](c *Ctx, r *Rng, f algebra.PrimeField[S], p *c02Policy, full bool, idx int) {
	c02One(c, r, f, p, full, idx)
	c02Oracle(c, r, f, p, idx+3)
	switch p.kind {
	case "th":
		c02Shamir(c, r, f, p, idx+1)
		c02ISN(c, r, f, p, idx+2)
	case "un":
		c02Additive(c, r, f, p, idx+1)
	case "cnf":
		c02ISN(c, r, f, p, idx+1)
	case "hi":
		c02Tassa(c, r, f, p, idx+1)
		if r.IntN(3) == 0 {
			c02ISN(c, r, f, p, idx+2)
		}
	case "bx":
		if r.IntN(3) == 0 {
			c02ISN(c, r, f, p, idx+2)
		}
	}
}

func c02Random[S algebra.PrimeFieldElement[S]](c *Ctx, f algebra.PrimeField[S], count int, stream uint64) {
	r := NewRng(c.Seed, 200+stream)
	for it := 0; it < count; it++ {
		n := 2 + r.IntN(4)
		if r.IntN(6) == 0 {
			n = 6
		}
		style := r.IntN(3)
		full := n <= 4 || c.Thorough()
		// threshold / unanimity / trees accept any non-zero uint64 id
		c02Family(c, r, f, genThreshold(r, idLayout(r, n, style, 64)), full, it)
		if it%3 == 0 {
			c02Family(c, r, f, &c02Policy{kind: "un", ids: idLayout(r, n, style, 64)}, full, it)
		}
		// CNF: identifiers of any size (cnf.InducedMSP no longer needs a 64-bit mask, /repo 31f4236)
		c02Family(c, r, f, genCNF(r, idLayout(r, min(n, 5), style, 64)), full, it+1)
		// hierarchical: large ids make Tassa's field-size condition fail → refusal, mirrored
		hb := []int{6, 6, 16, 30, 40}[r.IntN(5)]
		c02Family(c, r, f, genHier(r, idLayout(r, n, style, hb)), full, it+2)
		c02Family(c, r, f, genBoolexpr(r, idLayout(r, min(n, 5), style, 64)), full, it+3)
		// any assignment of small identifiers to levels (interleaved / reversed layouts included)
		c02Family(c, r, f, c02genHierAny(r), full, it+1)
		if it%2 == 0 {
			c02Family(c, r, f, c02genAntichain(r, idLayout(r, 4+r.IntN(2), style, 64)), false, it+2)
		}
	}
}

// c02Exhaustive: every (t,n) threshold, every unanimity, every antichain CNF, every consecutive
// level layout with every admissible threshold vector over ids 1..n, n ≤ maxN.
func c02Exhaustive[S algebra.PrimeFieldElement[S]](c *Ctx, f algebra.PrimeField[S], maxN int, stream uint64) {
	r := NewRng(c.Seed, 300+stream)
	idx := 0
	for n := 2; n <= maxN+1; n++ {
		ids := idLayout(r, n, 0, 6)
		for t := 2; t <= n; t++ {
			c02Family(c, r, f, &c02Policy{kind: "th", t: t, ids: ids}, true, idx)
			idx++
		}
		c02Family(c, r, f, &c02Policy{kind: "un", ids: ids}, true, idx)
		idx++
	}
	for n := 2; n <= maxN; n++ {
		ids := idLayout(r, n, 0, 6)
		// antichains of non-empty subsets whose union is the whole universe
		total := 1 << n
		var rec func(start int, chosen []int)
		rec = func(start int, chosen []int) {
			if len(chosen) > 0 {
				union := 0
				for _, m := range chosen {
					union |= m
				}
				if union == total-1 {
					sets := make([][]uint64, len(chosen))
					for i, m := range chosen {
						sets[i] = subsetOf(ids, m)
					}
					c02Family(c, r, f, &c02Policy{kind: "cnf", sets: sets}, n <= 4, idx)
					idx++
				}
			}
			for m := start; m < total; m++ {
				ok := true
				for _, o := range chosen {
					if o&m == o || o&m == m {
						ok = false
						break
					}
				}
				if ok {
					rec(m+1, append(slices.Clone(chosen), m))
				}
			}
		}
		rec(1, nil)
		// hierarchical: compositions of n into level sizes, all increasing admissible thresholds
		var comp func(rem int, sizes []int)
		comp = func(rem int, sizes []int) {
			if rem == 0 {
				var th func(i, prev, cum int, ts []int)
				th = func(i, prev, cum int, ts []int) {
					if i == len(sizes) {
						var levels []c02Level
						off := 0
						for j, s := range sizes {
							levels = append(levels, c02Level{t: ts[j], ids: ids[off : off+s]})
							off += s
						}
						c02Family(c, r, f, &c02Policy{kind: "hi", levels: levels}, n <= 4, idx)
						idx++
						return
					}
					cum += sizes[i]
					for t := prev + 1; t <= cum; t++ {
						th(i+1, t, cum, append(slices.Clone(ts), t))
					}
				}
				th(0, 0, 0, nil)
				return
			}
			for s := 1; s <= rem; s++ {
				comp(rem-s, append(slices.Clone(sizes), s))
			}
		}
		comp(n, nil)
	}
}

// ---------------------------------------------------------------- refusals (h)

func c02Refusals[S algebra.PrimeFieldElement[S]](c *Ctx, f algebra.PrimeField[S]) {
	r := NewRng(c.Seed, 250)
	leaf := func(id uint64) *c02Node { return &c02Node{leaf: true, id: id} }
	gate := func(t int, ch ...*c02Node) *c02Node { return &c02Node{t: t, children: ch} }
	bad := []*c02Policy{
		{kind: "th", t: 1, ids: []uint64{1, 2, 3}},
		{kind: "th", t: 0, ids: []uint64{1, 2, 3}},
		{kind: "th", t: 4, ids: []uint64{1, 2, 3}},
		{kind: "th", t: 2, ids: []uint64{0, 1, 2}},
		{kind: "th", t: 2, ids: []uint64{5}},
		{kind: "th", t: 2, ids: nil},
		{kind: "un", ids: []uint64{3}},
		{kind: "un", ids: nil},
		{kind: "un", ids: []uint64{0, 1}},
		{kind: "un", ids: []uint64{0}},
		{kind: "cnf", sets: nil},
		{kind: "cnf", sets: [][]uint64{{}}},
		{kind: "cnf", sets: [][]uint64{{1, 2}, {}}},
		{kind: "cnf", sets: [][]uint64{{0, 1}, {2}}},
		{kind: "cnf", sets: [][]uint64{{1}}},
		{kind: "cnf", sets: [][]uint64{{1}, {1}}},
		{kind: "hi", levels: nil},
		{kind: "hi", levels: []c02Level{{0, []uint64{1, 2}}}},
		{kind: "hi", levels: []c02Level{{2, []uint64{1, 2}}, {2, []uint64{3, 4}}}},
		{kind: "hi", levels: []c02Level{{2, []uint64{1, 2}}, {1, []uint64{3, 4}}}},
		{kind: "hi", levels: []c02Level{{1, []uint64{1, 2}}, {3, []uint64{2, 3}}}},
		{kind: "hi", levels: []c02Level{{3, []uint64{1, 2}}}},
		{kind: "hi", levels: []c02Level{{1, []uint64{0, 2}}}},
		{kind: "hi", levels: []c02Level{{1, []uint64{1}}, {5, []uint64{2, 3, 4}}}},
		{kind: "bx", root: leaf(0)},
		{kind: "bx", root: gate(0, leaf(1), leaf(2))},
		{kind: "bx", root: gate(3, leaf(1), leaf(2))},
		{kind: "bx", root: gate(1)},
		{kind: "bx", root: gate(2, leaf(1), leaf(1), leaf(2))},
		{kind: "bx", root: gate(2, leaf(1), gate(1, leaf(0), leaf(2)))},
		{kind: "bx", root: gate(2, leaf(1), gate(-1, leaf(3), leaf(2)))},
	}
	for _, p := range bad {
		c02One(c, r, f, p, true, 3)
	}
	// accepted by the constructor, refused later (one-column programmes, Tassa/level-order conditions)
	late := []*c02Policy{
		{kind: "cnf", sets: [][]uint64{{1, 2}}},                                                       // union = the set itself: empty clause
		{kind: "cnf", sets: [][]uint64{{1}, {2}}},                                                     // 2-of-2
		{kind: "hi", levels: []c02Level{{1, []uint64{1, 2, 3}}}},                                      // every single party qualified
		{kind: "hi", levels: []c02Level{{2, []uint64{3, 4}}, {3, []uint64{1, 2}}}},                    // ids decrease across levels
		{kind: "hi", levels: []c02Level{{2, []uint64{1, 5}}, {3, []uint64{4, 6}}}},                    // overlap in order
		{kind: "hi", levels: []c02Level{{2, []uint64{1, 2}}, {6, []uint64{1 << 40, 1<<40 + 1, 1<<40 + 2, 1<<40 + 3}}}}, // field too small
		{kind: "hi", levels: []c02Level{{1, []uint64{1, 1, 2}}, {2, []uint64{3}}}},                    // duplicate inside a level
		{kind: "bx", root: gate(1, leaf(1), leaf(2), leaf(3))},                                        // OR: one column
		{kind: "bx", root: leaf(5)},                                                                   // bare leaf
		{kind: "bx", root: gate(1, gate(1, leaf(1)), gate(1, leaf(1)))},                               // same id via two gates
		{kind: "bx", root: gate(1, leaf(7))},
	}
	for _, p := range late {
		c02One(c, r, f, p, true, 3)
		if p.kind == "hi" {
			c02Tassa(c, r, f, p, 3)
		}
		if p.kind == "cnf" {
			c02ISN(c, r, f, p, 3)
		}
	}
	// >20 threshold: "too big threshold"
	{
		var ids []uint64
		for i := 1; i <= 22; i++ {
			ids = append(ids, uint64(i))
		}
		p := &c02Policy{kind: "hi", levels: []c02Level{{21, ids}}}
		ps := hexNat(fieldOrder(f))
		res := safely(func() string {
			ac, err := p.build()
			if err != nil {
				return "new-" + c02errClass(err)
			}
			_, err = kw.NewScheme(f, ac)
			if err != nil {
				return c02errClass(err)
			}
			return "ok"
		})
		c.Emit(fmt.Sprintf("mspref %s %s", ps, p.token()), res)
	}
}

// ---------------------------------------------------------------- IDs > 64 (DESIGN §9(c)) — separate ops

func c02BigIDs[S algebra.PrimeFieldElement[S]](c *Ctx, f algebra.PrimeField[S]) {
	ps := hexNat(fieldOrder(f))
	leaf := func(id uint64) *c02Node { return &c02Node{leaf: true, id: id} }
	cases := []*c02Policy{
		{kind: "cnf", sets: [][]uint64{{100, 200}, {200, 300}}},
		{kind: "cnf", sets: [][]uint64{{1, 65}, {2, 65}}},
		{kind: "cnf", sets: [][]uint64{{1, 64}, {2, 64}}}, // control: 64 is still fine
	}
	for _, p := range cases {
		res := safely(func() string {
			ac, err := p.build()
			if err != nil {
				return "new-" + c02errClass(err)
			}
			sch, err := kw.NewScheme(f, ac)
			if err != nil {
				return c02errClass(err)
			}
			return "ok:" + viewMSP(sch.MSP()).str("/")
		})
		c.Count("bigid.msp")
		c.Emit(fmt.Sprintf("mspbig %s %s", ps, p.token()), res)
	}
	// every clause and the property oracle on CNF policies with identifiers above 64 (both tiers)
	{
		r := NewRng(c.Seed, 261)
		top := ^uint64(0)
		more := []*c02Policy{
			{kind: "cnf", sets: [][]uint64{{100, 200}, {300, 400}}},
			{kind: "cnf", sets: [][]uint64{{65, 66}, {66, 67}, {65, 67}}},
			{kind: "cnf", sets: [][]uint64{{1, 2, 1000}, {2, 3, 1000}, {1, 3}, {3, 1 << 40}}},
			{kind: "cnf", sets: [][]uint64{{top, 1}, {top - 1, 2}, {1 << 63, 3}}},
			{kind: "cnf", sets: [][]uint64{{64, 65}, {63, 66}, {1, 64, 66}}},
			{kind: "cnf", sets: [][]uint64{{1 << 32, 5}, {1<<32 + 1, 5}, {7, 1 << 33}}},
		}
		for i, p := range append(slices.Clone(cases), more...) {
			c.Count("bigid.cnf")
			c02Family(c, r, f, p, true, i)
		}
		for i := range 6 {
			n := 3 + r.IntN(3)
			c.Count("bigid.cnf")
			c02Family(c, r, f, c02genAntichain(r, idLayout(r, n, 2, []int{7, 8, 40, 64}[r.IntN(4)])), n <= 4, i)
		}
	}
	isnCases := append(slices.Clone(cases),
		&c02Policy{kind: "th", t: 2, ids: []uint64{100, 200, 300}},
		&c02Policy{kind: "hi", levels: []c02Level{{1, []uint64{1}}, {2, []uint64{70, 80}}}},
		&c02Policy{kind: "bx", root: &c02Node{t: 2, children: []*c02Node{leaf(1), leaf(2), leaf(99)}}},
	)
	for _, p := range isnCases {
		res := safely(func() string {
			ac, err := p.build()
			if err != nil {
				return "new-" + c02errClass(err)
			}
			sch, err := isn.NewFiniteScheme(f, ac)
			if err != nil {
				return c02errClass(err)
			}
			_, err = sch.Deal(isn.NewSecret(f.One()), NewRng(c.Seed, 260))
			if err != nil {
				return "deal-" + c02errClass(err)
			}
			return "ok"
		})
		c.Count("bigid.isn")
		c.Emit(fmt.Sprintf("isnbig %s %s", ps, p.token()), res)
	}
}

var _ = sort.Ints
var _ = big.NewInt
