package main

import (
	"fmt"
	"math/big"

	"github.com/bronlabs/bron-crypto/pkg/base/algebra"
	"github.com/bronlabs/bron-crypto/pkg/base/curves"
	"github.com/bronlabs/bron-crypto/pkg/commitments/pedersencom"
	"github.com/bronlabs/bron-crypto/pkg/transcripts"
	"github.com/bronlabs/bron-crypto/pkg/transcripts/hagrid"
)

func c18Pedersen(c *Ctx) {
	if c.Thorough() {
		c18PedCurve(c, "k256", cK256, 24, 4, 1)
		c18PedCurve(c, "ed25519", cEd25519, 10, 4, 2)
		c18PedCurve(c, "bls12381g1", cBLSG1, 6, 4, 3)
		return
	}
	c18PedCurve(c, "k256", cK256, 2, 3, 1)
	c18PedCurve(c, "ed25519", cEd25519, 1, 2, 2)
	c18PedCurve(c, "bls12381g1", cBLSG1, 1, 2, 3)
}

// boundary-heavy scalars: 0, 1, 2, q-1, q-2, (q-1)/2, powers of two, else uniform
func c18Scalar[S algebra.PrimeFieldElement[S]](r *Rng, f algebra.PrimeField[S], pBoundary int) S {
	q := fieldOrder(f)
	if r.IntN(100) < pBoundary {
		switch r.IntN(8) {
		case 0:
			return f.Zero()
		case 1:
			return f.One()
		case 2:
			return scalarFromBig(f, new(big.Int).Sub(q, big.NewInt(1)))
		case 3:
			return scalarFromBig(f, new(big.Int).Sub(q, big.NewInt(2)))
		case 4:
			return scalarFromBig(f, new(big.Int).Rsh(q, 1))
		case 5:
			return scalarFromBig(f, new(big.Int).Lsh(big.NewInt(1), uint(r.IntN(q.BitLen()-1))))
		case 6:
			return f.FromUint64(2)
		default:
			return scalarFromBig(f, big.NewInt(int64(r.IntN(1000))))
		}
	}
	return scalarFromBig(f, r.BigBelow(q))
}

func scalarBig[S algebra.PrimeFieldElement[S]](s S) *big.Int { return new(big.Int).SetBytes(s.BytesBE()) }

// every single-bit change of a scalar that is again a canonical scalar, and ±1, negation, zero
func c18ScalarMuts[S algebra.PrimeFieldElement[S]](f algebra.PrimeField[S], x S) []S {
	q := fieldOrder(f)
	v := scalarBig(x)
	var out []S
	for _, y := range c18BitFlips(v, q.BitLen(), func(y *big.Int) bool { return y.Sign() >= 0 && y.Cmp(q) < 0 }) {
		out = append(out, scalarFromBig(f, y))
	}
	for _, y := range []S{x.Neg(), f.Zero(), x.Add(f.One()), x.Sub(f.One()), x.Add(x)} {
		if !y.Equal(x) {
			out = append(out, y)
		}
	}
	return out
}

func c18PedDom[P curves.Point[P, F, S], F algebra.FiniteFieldElement[F], S algebra.PrimeFieldElement[S]](
	name string, curve curves.Curve[P, F, S], g, h P, ops *c18Ops,
) *c18Dom {
	sf := curve.ScalarField()
	strS := func(x any) string { return scalarHex(x.(S)) }
	return &c18Dom{
		sch: "ped", par: name, key: pointStr(g) + "," + pointStr(h), ops: ops,
		strM: func(x any) string { return scalarHex(x.(*pedersencom.Message[S]).Value()) },
		strW: func(x any) string { return scalarHex(x.(*pedersencom.Witness[S]).Value()) },
		strC: func(x any) string { return pointStr(x.(*pedersencom.Commitment[P, S]).Value()) },
		strS: strS,
		genM: func(r *Rng) any { m, _ := pedersencom.NewMessage(c18Scalar(r, sf, 40)); return m },
		genW: func(r *Rng) any { w, _ := pedersencom.NewWitness(c18Scalar(r, sf, 15)); return w },
		genS: func(r *Rng) any { return c18Scalar(r, sf, 40) },
		mutM: func(r *Rng, x any, all bool) []any {
			var out []any
			for _, y := range c18ScalarMuts(sf, x.(*pedersencom.Message[S]).Value()) {
				m, _ := pedersencom.NewMessage(y)
				out = append(out, m)
			}
			return c18Sample(r, out, all, 24)
		},
		mutW: func(r *Rng, x any, all bool) []any {
			var out []any
			for _, y := range c18ScalarMuts(sf, x.(*pedersencom.Witness[S]).Value()) {
				w, _ := pedersencom.NewWitness(y)
				out = append(out, w)
			}
			return c18Sample(r, out, all, 24)
		},
		mutC: func(r *Rng, x any) []any {
			v := x.(*pedersencom.Commitment[P, S]).Value()
			rnd := g.ScalarOp(c18Scalar(r, sf, 0))
			var out []any
			for _, y := range []P{v.Op(g), v.Op(g.OpInv()), v.OpInv(), v.Op(v), curve.OpIdentity(), v.Op(h), rnd} {
				cm, _ := pedersencom.NewCommitment[P, S](y)
				out = append(out, cm)
			}
			return out
		},
		emitMut: 0,
	}
}

func c18PedCurve[P curves.Point[P, F, S], F algebra.FiniteFieldElement[F], S algebra.PrimeFieldElement[S]](
	c *Ctx, name string, curve curves.Curve[P, F, S], cases, maxKeys int, stream uint64,
) {
	r := NewRng(c.Seed, 1800+stream)
	sf := curve.ScalarField()
	G := curve.Generator()
	isZero := func(x any) bool {
		switch v := x.(type) {
		case *pedersencom.Message[S]:
			return v.Value().IsZero()
		case *pedersencom.Witness[S]:
			return v.Value().IsZero()
		}
		return false
	}

	// --- key validation: NewCommitmentKeyUnchecked
	for _, gh := range [][2]P{
		{G, G.ScalarOp(sf.FromUint64(2))}, {G, G}, {G, curve.OpIdentity()}, {curve.OpIdentity(), G},
		{G.ScalarOp(c18Scalar(r, sf, 0)), G.ScalarOp(c18Scalar(r, sf, 0))}, {G, G.OpInv()},
	} {
		res := safely(func() string {
			if _, err := pedersencom.NewCommitmentKeyUnchecked(gh[0], gh[1]); err != nil {
				return "reject"
			}
			return "ok"
		})
		c.Emit(fmt.Sprintf("pedkey %s %s %s", name, pointStr(gh[0]), pointStr(gh[1])), res)
	}

	// --- keys: trapdoor (h = lambda g), sampled, extracted from a transcript
	type keyed struct {
		dom   *c18Dom
		alts  []*c18Dom // single-component changes of the key
		clean []func(t c18Triple) bool
	}
	mkAlts := func(g, h P) ([]*c18Dom, []func(t c18Triple) bool) {
		var alts []*c18Dom
		var clean []func(t c18Triple) bool
		add := func(g2, h2 P, cl func(t c18Triple) bool) {
			k2, err := pedersencom.NewCommitmentKeyUnchecked(g2, h2)
			if err != nil {
				return
			}
			alts = append(alts, c18PedDom(name, curve, g2, h2, c18Adapt(k2)))
			clean = append(clean, cl)
		}
		wNZ := func(t c18Triple) bool { return !isZero(t.w) }
		mNZ := func(t c18Triple) bool { return !isZero(t.m) }
		add(g, h.Op(g), wNZ)
		add(g, h.Op(h), wNZ)
		add(g, h.OpInv(), wNZ)
		add(g.Op(g), h, mNZ)
		add(g.OpInv(), h, mNZ)
		add(h, g, func(t c18Triple) bool {
			return !t.m.(*pedersencom.Message[S]).Value().Equal(t.w.(*pedersencom.Witness[S]).Value())
		})
		return alts, clean
	}
	var keys []keyed

	// trapdoor keys
	for i := 0; i < 2; i++ {
		lam := c18Scalar(r, sf, 50*i)
		base := G
		if i == 1 {
			base = G.ScalarOp(c18Scalar(r, sf, 0))
		}
		var tk *pedersencom.TrapdoorKey[P, S]
		res := safely(func() string {
			var err error
			tk, err = pedersencom.NewTrapdoorKey(base, lam)
			if err != nil {
				return "err"
			}
			return pointStr(tk.H())
		})
		if res == "err" {
			// lambda in {0,1} is refused by design
			if !lam.IsZero() && !lam.IsOne() {
				c.Violation(fmt.Sprintf("NewTrapdoorKey refused lambda=%s on %s", scalarHex(lam), name))
			}
			continue
		}
		tkey := pointStr(base) + "," + scalarHex(lam)
		c.Emit(fmt.Sprintf("tkey ped %s %s", name, tkey), res)
		pub := tk.Export()
		if !pub.G().Equal(base) || !pub.H().Equal(tk.H()) {
			c.Violation("TrapdoorKey.Export changed the generators on " + name)
		}
		pubDom := c18PedDom(name, curve, pub.G(), pub.H(), c18Adapt(pub))
		tdDom := c18PedDom(name, curve, pub.G(), pub.H(), c18Adapt(tk))
		alts, clean := mkAlts(pub.G(), pub.H())
		keys = append(keys, keyed{pubDom, alts, clean})

		// trapdoor commit = public commit; equivocation opens under the exported key
		lite := maxKeys <= 2
		nTd := 3 + cases/2
		if lite {
			nTd = 2
		}
		for j := 0; j < nTd; j++ {
			m := pubDom.genM(r).(*pedersencom.Message[S])
			w := pubDom.genW(r).(*pedersencom.Witness[S])
			var cm *pedersencom.Commitment[P, S]
			res := safely(func() string {
				var err error
				cm, err = tk.CommitWithWitness(m, w)
				return c18Res(err, func() string { return pointStr(cm.Value()) })
			})
			c.Emit(fmt.Sprintf("tcommit ped %s %s %s %s", name, tkey, pubDom.strM(m), pubDom.strW(w)), res)
			if cm == nil {
				c.Violation("trapdoor CommitWithWitness failed on " + name)
				continue
			}
			pubDom.openLine(c, c18Triple{cm, m, w}, "trapdoor-commit", true, true)
			tdDom.openLine(c, c18Triple{cm, m, w}, "trapdoor-commit", false, true)
			m2 := pubDom.genM(r).(*pedersencom.Message[S])
			if j == 0 {
				m2 = m // equivocating to the same message returns an opening of it
			}
			var w2 *pedersencom.Witness[S]
			res = safely(func() string {
				var err error
				w2, err = tk.Equivocate(m, w, m2, r)
				return c18Res(err, func() string { return pubDom.strW(w2) })
			})
			c.Emit(fmt.Sprintf("equiv ped %s %s %s %s %s", name, tkey, pubDom.strM(m), pubDom.strW(w), pubDom.strM(m2)), res)
			c.Count("ped.equivocate")
			if w2 != nil {
				// the designed exception: the same commitment opens to the other message under the public key
				pubDom.openLine(c, c18Triple{cm, m2, w2}, "equivocated", true, true)
				// but to nothing else: changing the equivocated opening is rejected again
				if !m2.Equal(m) {
					pubDom.mustReject(c, c18Triple{cm, m2, w}, "witness", true)
					pubDom.mustReject(c, c18Triple{cm, m, w2}, "witness", true)
				}
			}
		}
		// every single-bit change, predicted from the scalars (the discrete logarithm is known)
		for j := 0; j < 1+cases/2; j++ {
			c18PedScalarBinding(c, r, name, curve, tk, tkey, c18Scalar(r, sf, 30*j), c18Scalar(r, sf, 10*j))
		}
		// homomorphic operations through the trapdoor key agree with the public ones
		var pool []c18Triple
		for j := 0; j < 2; j++ {
			if t, ok := tdDom.commitOpen(c, tdDom.genM(r), tdDom.genW(r)); ok {
				pool = append(pool, t)
			}
		}
		if len(pool) > 0 {
			tdDom.homSequence(c, r, pool, 3)
		}
	}

	// sampled key (h random)
	if k, err := pedersencom.SampleCommitmentKey(curve, r); err != nil {
		c.Violation("SampleCommitmentKey failed on " + name)
	} else {
		c.Emit(fmt.Sprintf("xkey ped %s %s", name, pointStr(k.G())+","+pointStr(k.H())), "ok")
		alts, clean := mkAlts(k.G(), k.H())
		keys = append(keys, keyed{c18PedDom(name, curve, k.G(), k.H(), c18Adapt(k)), alts, clean})
	}

	// keys extracted from transcripts: equal transcripts => equal keys, different => different
	type trDesc struct {
		id    string // canonical description: equal ids <=> equal transcripts and labels
		build func() transcripts.Transcript
		label string
	}
	mk := func(nm string, msgs ...string) func() transcripts.Transcript {
		return func() transcripts.Transcript {
			t := hagrid.NewTranscript(nm)
			for _, m := range msgs {
				t.AppendBytes("msg", []byte(m))
			}
			return t
		}
	}
	seedTag := fmt.Sprintf("seed-%d-%d", c.Seed, r.IntN(1<<30))
	descs := []trDesc{
		{"A", mk("c18", "alpha", seedTag), "pedersen-h"},
		{"A", mk("c18", "alpha", seedTag), "pedersen-h"},
		{"B", mk("c18", "alpha", seedTag), "pedersen-h2"},
		{"C", mk("c18x", "alpha", seedTag), "pedersen-h"},
		{"D", mk("c18", "alphb", seedTag), "pedersen-h"},
		{"E", mk("c18", "alpha"+seedTag), "pedersen-h"},
		{"F", mk("c18", "alpha", seedTag, ""), "pedersen-h"},
		{"G", mk("c18", seedTag, "alpha"), "pedersen-h"},
		{"H", func() transcripts.Transcript {
			t := mk("c18", "alpha", seedTag)()
			_, _ = t.ExtractBytes("earlier", 16)
			return t
		}, "pedersen-h"},
		{"A", func() transcripts.Transcript { return mk("c18", "alpha", seedTag)().Clone() }, "pedersen-h"},
		{"I", func() transcripts.Transcript {
			t := hagrid.NewTranscript("c18")
			t.AppendBytes("msg", []byte("alpha"), []byte(seedTag))
			return t
		}, "pedersen-h"},
	}
	var xk []*pedersencom.CommitmentKey[P, S]
	seen := map[string]bool{}
	for _, d := range descs {
		k, err := pedersencom.ExtractCommitmentKey(d.build(), d.label, G)
		if err != nil {
			c.Violation("ExtractCommitmentKey failed on " + name + " transcript " + d.id)
			xk = append(xk, nil)
			continue
		}
		xk = append(xk, k)
		if !seen[d.id] {
			c.Emit(fmt.Sprintf("xkey ped %s %s", name, pointStr(k.G())+","+pointStr(k.H())), "ok")
		}
		seen[d.id] = true
	}
	for i := range descs {
		for j := i + 1; j < len(descs); j++ {
			if xk[i] == nil || xk[j] == nil {
				continue
			}
			same := xk[i].Equal(xk[j]) && xk[i].H().Equal(xk[j].H())
			c.Count(fmt.Sprintf("ped.xkey.same=%v", descs[i].id == descs[j].id))
			if same != (descs[i].id == descs[j].id) {
				c.Violation(fmt.Sprintf("ExtractCommitmentKey on %s: transcripts %s/%s (#%d,#%d) give equal keys: %v", name, descs[i].id, descs[j].id, i, j, same))
			}
		}
	}
	if xk[0] != nil {
		alts, clean := mkAlts(xk[0].G(), xk[0].H())
		keys = append(keys, keyed{c18PedDom(name, curve, xk[0].G(), xk[0].H(), c18Adapt(xk[0])), alts, clean})
	}
	// empty label / nil transcript are refused
	if _, err := pedersencom.ExtractCommitmentKey[P, S](descs[0].build(), "", G); err == nil {
		c.Violation("ExtractCommitmentKey accepted an empty label on " + name)
	}

	// --- commit / open / binding / key changes / homomorphisms
	if len(keys) > maxKeys {
		// keep the first trapdoor key and the transcript-derived one
		keys = []keyed{keys[0], keys[len(keys)-1]}
	}
	for ki, k := range keys {
		d := k.dom
		var pool []c18Triple
		for it := 0; it < cases; it++ {
			m, w := d.genM(r), d.genW(r)
			if it == 0 {
				// commitments.Commit: fresh witness
				cm, w2, err := d.ops.commitFresh(m, r)
				if err != nil {
					c.Violation("commitments.Commit failed on " + name)
					continue
				}
				w = w2
				d.openLine(c, c18Triple{cm, m, w}, "fresh", true, true)
			}
			t, ok := d.commitOpen(c, m, w)
			if !ok {
				continue
			}
			if isZero(m) || isZero(w) {
				c.Count("ped.case.zero-component")
			} else {
				c.Count("ped.case.generic")
			}
			pool = append(pool, t)
			d.bindingCase(c, r, t, c.Thorough() || it == 0)
			if it < 1 || c.Thorough() {
				skip := -1
				if !c.Thorough() {
					skip = r.IntN(2) // quick: every other changed key
				}
				for ai, alt := range k.alts {
					if skip >= 0 && ai%2 != skip {
						continue
					}
					d.keyCase(c, alt, t, k.clean[ai](t))
				}
				// the other keys of this curve
				for kj, k2 := range keys {
					if kj != ki && it == 0 {
						d.keyCase(c, k2.dom, t, !isZero(t.w))
					}
				}
			}
		}
		if len(pool) > 0 {
			steps := 8
			if c.Thorough() {
				steps = 60
			} else if maxKeys <= 2 {
				steps = 5
			}
			d.homSequence(c, r, pool, steps)
		}
	}
}

// c18PedScalarBinding: for a key with known lambda every Open is decided by the scalars alone:
// Open(commit(m0,w0) + dc*G, m, w) accepts iff m + lambda*w = m0 + lambda*w0 + dc. All single-bit
// changes of message and witness, and the single-component changes of the commitment.
func c18PedScalarBinding[P curves.Point[P, F, S], F algebra.FiniteFieldElement[F], S algebra.PrimeFieldElement[S]](
	c *Ctx, r *Rng, name string, curve curves.Curve[P, F, S], tk *pedersencom.TrapdoorKey[P, S], tkey string, m0, w0 S,
) {
	sf := curve.ScalarField()
	pub := tk.Export()
	msg, _ := pedersencom.NewMessage(m0)
	wit, _ := pedersencom.NewWitness(w0)
	cm, err := pub.CommitWithWitness(msg, wit)
	if err != nil {
		c.Violation("CommitWithWitness failed on " + name)
		return
	}
	c.Emit(fmt.Sprintf("commit ped %s %s %s %s", name, pointStr(pub.G())+","+pointStr(pub.H()), scalarHex(m0), scalarHex(w0)), pointStr(cm.Value()))
	try := func(dc, m, w S, what string, mustReject bool) {
		cv := cm.Value()
		if !dc.IsZero() {
			cv = cv.Op(pub.G().ScalarOp(dc))
		}
		c2, _ := pedersencom.NewCommitment[P, S](cv)
		m2, _ := pedersencom.NewMessage(m)
		w2, _ := pedersencom.NewWitness(w)
		res := safely(func() string { return c18Acc(pub.Open(c2, m2, w2)) })
		c.Emit(fmt.Sprintf("opens ped %s %s %s %s %s %s %s", name, tkey, scalarHex(m0), scalarHex(w0), scalarHex(dc), scalarHex(m), scalarHex(w)), res)
		c.Count("ped.opens." + what + "." + res)
		if mustReject && res != "reject" {
			c.Violation(fmt.Sprintf("pedersen %s: opening with changed %s not rejected (%s): key=%s m0=%s w0=%s dc=%s m=%s w=%s", name, what, res, tkey, scalarHex(m0), scalarHex(w0), scalarHex(dc), scalarHex(m), scalarHex(w)))
		}
	}
	zero := sf.Zero()
	try(zero, m0, w0, "honest", false)
	for _, m := range c18ScalarMuts(sf, m0) {
		try(zero, m, w0, "message", true)
	}
	for _, w := range c18ScalarMuts(sf, w0) {
		try(zero, m0, w, "witness", true)
	}
	e := m0.Add(tk.Lambda().Mul(w0)) // the commitment is e*G
	for _, dc := range []S{sf.One(), sf.One().Neg(), e.Neg().Sub(e), e, e.Neg(), tk.Lambda(), c18Scalar(r, sf, 0)} {
		try(dc, m0, w0, "commitment", !dc.IsZero())
	}
	// two components changed so that they cancel: this is the equivocation relation and must accept
	d := c18Scalar(r, sf, 0)
	try(zero, m0.Add(tk.Lambda().Mul(d)), w0.Sub(d), "cancelling", false)
	try(d, m0.Add(d), w0, "cancelling", false)
}
