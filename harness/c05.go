package main

import (
	"fmt"
	"slices"
	"sort"
	"strings"

	"github.com/bronlabs/bron-crypto/pkg/base/algebra"
	"github.com/bronlabs/bron-crypto/pkg/base/curves"
	ds "github.com/bronlabs/bron-crypto/pkg/base/datastructures"
	"github.com/bronlabs/bron-crypto/pkg/base/datastructures/hashset"
	"github.com/bronlabs/bron-crypto/pkg/base/mat"
	"github.com/bronlabs/bron-crypto/pkg/mpc/sharing"
	"github.com/bronlabs/bron-crypto/pkg/mpc/sharing/accessstructures"
	"github.com/bronlabs/bron-crypto/pkg/mpc/sharing/accessstructures/boolexpr"
	"github.com/bronlabs/bron-crypto/pkg/mpc/sharing/accessstructures/cnf"
	"github.com/bronlabs/bron-crypto/pkg/mpc/sharing/accessstructures/hierarchical"
	"github.com/bronlabs/bron-crypto/pkg/mpc/sharing/accessstructures/threshold"
	"github.com/bronlabs/bron-crypto/pkg/mpc/sharing/accessstructures/unanimity"
	"github.com/bronlabs/bron-crypto/pkg/mpc/sharing/scheme/kw"
	"github.com/bronlabs/bron-crypto/pkg/mpc/sharing/scheme/kw/msp"
)

// C05 — share verification accepts exactly the dealer's shares (Feldman and Pedersen VSS).
//
// Every line is self-contained: it carries the MSP matrix and the row -> holder labels as
// reported by the library, the verification vector as points and the share as scalars; the Lean
// driver recomputes M_i * V in model curve arithmetic and compares with share * G, so the
// accept/reject verdict is predicted exactly.

func init() { register("C05", runC05) }

func runC05(c *Ctx) {
	c05Group(c, "k256", cK256, fK256, 1)
	c05Group(c, "ed25519", cEd25519, fEd25519, 2)
	c05Group(c, "bls12381g1", cBLSG1, fBLS, 3)
	if c.Thorough() {
		c05Group(c, "p256", cP256, fP256, 4)
		c05Group(c, "pallas", cPallas, fPallas, 5)
		c05Group(c, "bls12381g2", cBLSG2, fBLS, 6)
	}
}

// c05AS is an access structure together with a qualified and an unqualified holder set.
type c05AS struct {
	family string
	ac     accessstructures.Monotone
}

// c05PickIDs draws n distinct non-zero holder IDs; mostly small, sometimes larger.
func c05PickIDs(r *Rng, n int, big bool) []sharing.ID {
	seen := map[sharing.ID]bool{}
	out := make([]sharing.ID, 0, n)
	for len(out) < n {
		var id sharing.ID
		if big && r.IntN(4) == 0 {
			id = sharing.ID(1 + r.IntN(60000))
		} else {
			id = sharing.ID(1 + r.IntN(12))
		}
		if !seen[id] {
			seen[id] = true
			out = append(out, id)
		}
	}
	return out
}

// c05Structures builds one access structure of every family with freshly drawn holder IDs.
func c05Structures(c *Ctx, r *Rng) []c05AS {
	var out []c05AS
	big := c.Thorough()
	add := func(family string, ac accessstructures.Monotone, err error) {
		if err != nil {
			c.Note(fmt.Sprintf("structure %s not built: %v", family, errClass(err)))
			c.Count("structure.rejected." + family)
			return
		}
		out = append(out, c05AS{family, ac})
	}
	{ // threshold t-of-n
		n := 3 + r.IntN(3)
		t := 2 + r.IntN(n-1)
		ids := c05PickIDs(r, n, big)
		ac, err := threshold.NewThresholdAccessStructure(uint(t), hashset.NewComparable(ids...).Freeze())
		add("threshold", ac, err)
	}
	{ // unanimity
		n := 2 + r.IntN(3)
		ids := c05PickIDs(r, n, big)
		ac, err := unanimity.NewUnanimityAccessStructure(hashset.NewComparable(ids...).Freeze())
		add("unanimity", ac, err)
	}
	{ // CNF: random maximal unqualified sets over 4-5 holders; a holder outside k sets owns k rows
		n := 4 + r.IntN(2)
		// small IDs only: cnf.InducedMSP panics for IDs > 64 (bitset), which is C02's finding
		ids := c05PickIDs(r, n, false)
		nsets := 3 + r.IntN(3)
		us := make([][]sharing.ID, 0, nsets)
		for len(us) < nsets {
			var u []sharing.ID
			for _, id := range ids {
				if r.IntN(2) == 0 {
					u = append(u, id)
				}
			}
			if len(u) == 0 || len(u) == n {
				continue
			}
			us = append(us, u)
		}
		ac, err := newCNF(us)
		add("cnf", ac, err)
	}
	{ // hierarchical conjunctive threshold, 2 or 3 levels
		ids := c05PickIDs(r, 5+r.IntN(2), big)
		slices.Sort(ids) // the induced MSP requires ascending IDs across levels
		var ac accessstructures.Monotone
		var err error
		if r.IntN(2) == 0 {
			ac, err = hierarchical.NewHierarchicalConjunctiveThresholdAccessStructure(
				hierarchical.WithLevel(1, ids[0], ids[1]),
				hierarchical.WithLevel(3, ids[2:]...),
			)
		} else {
			ac, err = hierarchical.NewHierarchicalConjunctiveThresholdAccessStructure(
				hierarchical.WithLevel(1, ids[0], ids[1]),
				hierarchical.WithLevel(2, ids[2], ids[3]),
				hierarchical.WithLevel(4, ids[4:]...),
			)
		}
		add("hierarchical", ac, err)
	}
	{ // boolean expression / threshold-gate tree; a holder may occur in several leaves
		ids := c05PickIDs(r, 5, big)
		var root *boolexpr.Node
		switch r.IntN(3) {
		case 0:
			root = boolexpr.Threshold(2,
				boolexpr.And(boolexpr.ID(ids[0]), boolexpr.ID(ids[1])),
				boolexpr.Or(boolexpr.ID(ids[2]), boolexpr.ID(ids[3])),
				boolexpr.ID(ids[4]))
		case 1:
			root = boolexpr.Or(
				boolexpr.And(boolexpr.ID(ids[0]), boolexpr.ID(ids[1]), boolexpr.ID(ids[2])),
				boolexpr.Threshold(2, boolexpr.ID(ids[0]), boolexpr.ID(ids[3]), boolexpr.ID(ids[4])))
		default:
			root = boolexpr.And(
				boolexpr.Threshold(2, boolexpr.ID(ids[0]), boolexpr.ID(ids[1]), boolexpr.ID(ids[2])),
				boolexpr.Or(boolexpr.ID(ids[3]), boolexpr.ID(ids[4]), boolexpr.ID(ids[0])))
		}
		ac, err := boolexpr.NewThresholdGateAccessStructure(root)
		add("boolexpr", ac, err)
	}
	return out
}

func newCNF(us [][]sharing.ID) (accessstructures.Monotone, error) {
	sets := make([]ds.Set[sharing.ID], len(us))
	for i, u := range us {
		sets[i] = hashset.NewComparable(u...).Freeze()
	}
	return cnf.NewCNFAccessStructure(sets...)
}

// errClass maps a library error to a stable token (never the message text).
func errClass(err error) string {
	if err == nil {
		return "ok"
	}
	return "reject"
}

// c05Msp is the MSP as reported by the library, rendered for the line protocol.
type c05Msp[S algebra.PrimeFieldElement[S]] struct {
	m      *msp.MSP[S]
	rows   int
	cols   int
	data   [][]S
	labels []sharing.ID // row -> holder
	ids    []sharing.ID // sorted holders
}

func c05ReadMSP[S algebra.PrimeFieldElement[S]](m *msp.MSP[S]) *c05Msp[S] {
	rows, cols := m.Matrix().Dimensions()
	out := &c05Msp[S]{m: m, rows: rows, cols: cols}
	for i := range rows {
		row := make([]S, cols)
		for j := range cols {
			row[j], _ = m.Matrix().Get(i, j)
		}
		out.data = append(out.data, row)
		id, _ := m.RowsToHolders().Get(i)
		out.labels = append(out.labels, id)
	}
	out.ids = m.Shareholders().List()
	slices.Sort(out.ids)
	return out
}

func c05idsStr(ids []sharing.ID) string {
	out := make([]string, len(ids))
	for i, id := range ids {
		out[i] = fmt.Sprintf("%d", id)
	}
	return joinComma(out)
}

// ctx renders "<cols> <M row-major> <labels>" (rows = number of labels).
func (m *c05Msp[S]) ctx() string {
	return fmt.Sprintf("%d %s %s", m.cols, matHex(m.data), c05idsStr(m.labels))
}

func (m *c05Msp[S]) rowsOf(id sharing.ID) []int {
	var out []int
	for i, l := range m.labels {
		if l == id {
			out = append(out, i)
		}
	}
	return out
}

// column reads a column vector matrix into a slice.
func c05Column[S algebra.PrimeFieldElement[S]](col *mat.Matrix[S]) []S {
	rows, _ := col.Dimensions()
	out := make([]S, rows)
	for i := range rows {
		out[i], _ = col.Get(i, 0)
	}
	return out
}

func c05Points[P algebra.PrimeGroupElement[P, S], S algebra.PrimeFieldElement[S]](v *mat.ModuleValuedMatrix[P, S]) []P {
	rows, _ := v.Dimensions()
	out := make([]P, rows)
	for i := range rows {
		out[i], _ = v.Get(i, 0)
	}
	return out
}

// c05SharesStr renders shares as "id:v,v;id:v" in ascending id order.
func c05SharesStr[S algebra.PrimeFieldElement[S]](shares map[sharing.ID]*kw.Share[S]) string {
	ids := make([]sharing.ID, 0, len(shares))
	for id := range shares {
		ids = append(ids, id)
	}
	slices.Sort(ids)
	parts := make([]string, len(ids))
	for i, id := range ids {
		parts[i] = fmt.Sprintf("%d:%s", id, scalarsHex(shares[id].Value()))
	}
	return strings.Join(parts, ";")
}

// smallScalar draws a scalar in [-15, 15] (as a residue) — cheap for the model's double-and-add.
func smallScalar[S algebra.PrimeFieldElement[S]](r *Rng, f algebra.PrimeField[S]) S {
	v := f.FromUint64(uint64(r.IntN(1 << 12)))
	if r.IntN(3) == 0 {
		return v.Neg()
	}
	return v
}

// qualified/unqualified sets of holders found by enumeration of all subsets (at most 2^7).
func c05Subsets(ids []sharing.ID) [][]sharing.ID {
	var out [][]sharing.ID
	for mask := 1; mask < 1<<len(ids); mask++ {
		var s []sharing.ID
		for i, id := range ids {
			if mask>>i&1 == 1 {
				s = append(s, id)
			}
		}
		out = append(out, s)
	}
	sort.SliceStable(out, func(i, j int) bool { return len(out[i]) < len(out[j]) })
	return out
}

func c05Group[P curves.Point[P, F, S], F algebra.FiniteFieldElement[F], S algebra.PrimeFieldElement[S]](
	c *Ctx, name string, group curves.Curve[P, F, S], field algebra.PrimeField[S], stream uint64,
) {
	r := NewRng(c.Seed, 500+stream)
	rounds := 1
	if c.Thorough() {
		rounds = 3
	}
	for round := range rounds {
		structures := c05Structures(c, r)
		// the expensive full-size dealings rotate over the families in the quick tier
		fullAt := int(uint64(c.Seed)+stream+uint64(round)) % len(structures)
		for k, as := range structures {
			full := c.Thorough() || k == fullAt || k == (fullAt+2)%len(structures)
			c.Count("structure." + as.family)
			c05Feldman(c, r, name, group, field, as, full)
			c05Pedersen(c, r, name, group, field, as, full)
		}
	}
}
