// c07.go — stream of property C07 "protocol secrets come from, and depend on, each party's own
// randomness".
//
// For every protocol configuration the protocol is run with per-party deterministic streams
//
//     A   base streams                              (reference)
//     A'  the same streams again                    (determinism: everything random comes from them)
//     B_c base streams except party c's             (one run per party position c)
//
// and every message that passes the router (CBOR bytes as produced by the sender, keyed by
// round/from/to) and every joint output is compared.  Lines (model: lean/BronVerif/Model/Joint.lean):
//
//   C07 det   <proto> <cfg> ids=<ids>             => status=<cls> diff=<slots|-> joint=<names|->
//   C07 reads <proto> <cfg> ids=<ids>             => <id>=<bits>,…      one bit per executed step
//                                                    of that party (constructor first): 1 = drew bytes
//   C07 pair  <proto> <cfg> ids=<ids> changed=<c> => status=<cls> msgs=<r/from/to=c|s,…> joint=<name=c|s,…>
//   C07 seq   <proto> <cfg> ids=<ids> k=<n>       => first=<distinct|repeat> joint=<distinct|repeat>
//                                                    n consecutive sessions on the same key material,
//                                                    every party continuing its stream
//
//   C07 draws <proto> <cfg> ids=<ids> d=<D> run=<A|Bc> => <id>=<step>/<step>/…,…
//                                                    per party and executed step (constructor first) the
//                                                    multiset of Read-call sizes "32x3+48x2" ("0": none);
//                                                    D = columns of the MSP of the (next) access structure
//   C07 percpt <proto> <cfg> ids=<ids> run=<A|Bc>  => groups=<g> leaves=<k> repeats=<r<round>.<from>:<pattern>,…|->
//                                                    per-recipient material: long leaves (byte strings of
//                                                    ≥ 16 bytes) of the unicasts one sender produces in one
//                                                    round; a value that occurs for two recipients (or twice
//                                                    in one message: prefix dup:) is listed
//   C07 leaf  <proto> <cfg> ids=<ids> changed=<c>  => leaves=<k> same=<r<round>.<b|u>:<path>,…|->
//                                                    long leaves of the changed party's own messages whose
//                                                    value is identical in run A and run B_c (array indices
//                                                    kept; at most 256 listed, then more:<n>)
//
// Every party's stream is wrapped in a recording reader (c07obs.go): the reads are attributed to the
// executed step through the protocol layer's per-step byte counts.  Executions of a case run
// concurrently under a weighted semaphore; lines are emitted in a fixed order.
//
// Go-side oracle (!VIOLATION): a first message / nonce commitment that repeats anywhere in the
// campaign between runs in which the sender's stream differs; a run that is not ok.
//
// `to` is 0 for broadcasts.  crypto/rand.Prime is non-deterministic even with a deterministic reader:
// Lindell17 key material (Paillier) is dealt ONCE per configuration and reused by all runs, so no
// compared value derives from freshly generated primes.

package main

import (
	"crypto/sha256"
	"fmt"
	"io"
	"sort"
	"strings"
	"sync"

	"github.com/bronlabs/bron-crypto/pkg/base/algebra"
	"github.com/bronlabs/bron-crypto/pkg/base/curves"
	"github.com/bronlabs/bron-crypto/pkg/mpc"
	"github.com/bronlabs/bron-crypto/pkg/mpc/sharing/accessstructures"
	"github.com/bronlabs/bron-crypto/pkg/mpc/sharing/vss/feldman"
	"github.com/bronlabs/bron-crypto/pkg/mpc/zero/przs"
	"github.com/bronlabs/bron-crypto/pkg/proofs/sigma/compiler/fischlin"
	"github.com/bronlabs/bron-crypto/pkg/signatures/bls"
	"github.com/bronlabs/bron-crypto/pkg/signatures/ecdsa"
	"github.com/bronlabs/bron-crypto/pkg/signatures/schnorrlike/bip340"
	vanilla "github.com/bronlabs/bron-crypto/pkg/signatures/schnorrlike/schnorr"
)

func init() { register("C07", runC07) }

// c07Run is what one protocol execution exposes to the comparison.
type c07Run struct {
	status string            // "ok" or the first non-ok summary
	slots  []string          // "r/from/to" in log order
	msgs   map[string][]byte // slot -> CBOR
	jnames []string          // joint output names in a fixed order
	joint  map[string]string
	reads  map[ID]string // bits per executed step
	bytes  int64         // total bytes drawn (statistics)
	draws  c07Draws      // per party and step: sizes of the Read calls (recording readers only)
	drawsE string        // non-empty: the recorder and the step accounting disagree
}

func c07FromNet(n *Net) *c07Run {
	r := &c07Run{status: "ok", msgs: map[string][]byte{}, joint: map[string]string{}, reads: map[ID]string{}}
	if !n.OK() {
		r.status = strings.ReplaceAll(n.StatusStr(), " ", "_")
	}
	seen := map[string]int{}
	for _, m := range n.Log {
		k := fmt.Sprintf("%d/%d/%d", m.Round, m.From, m.To)
		if c := seen[k]; c > 0 {
			k = fmt.Sprintf("%s#%d", k, c)
		}
		seen[fmt.Sprintf("%d/%d/%d", m.Round, m.From, m.To)]++
		r.slots = append(r.slots, k)
		r.msgs[k] = m.Orig
	}
	for _, rd := range n.Reads {
		for _, id := range sortedKeys(rd) {
			if rd[id] > 0 {
				r.reads[id] += "1"
			} else {
				r.reads[id] += "0"
			}
			r.bytes += rd[id]
		}
	}
	r.draws, r.drawsE = c07DrawsOf(n)
	return r
}

func (r *c07Run) setJoint(name, val string) {
	if _, ok := r.joint[name]; !ok {
		r.jnames = append(r.jnames, name)
	}
	r.joint[name] = val
}

type byteser interface{ Bytes() []byte }

func c07Hex(b byteser) string { return hexBytes(b.Bytes()) }

func c07ShareStr[S algebra.PrimeFieldElement[S]](xs []S) string {
	out := make([]string, len(xs))
	for i, x := range xs {
		out[i] = hexBytes(x.Bytes())
	}
	return strings.Join(out, "|")
}

// c07Proto is one protocol configuration.
type c07Proto struct {
	name, cfg string
	ids       []ID // parties that own a stream, sorted
	cols      int  // columns D of the MSP of the access structure that is dealt under (0: none)
	weight    int  // tokens of c07Sem one execution takes (0 = 1)
	run       func(rngs map[ID]io.Reader) *c07Run
	// seq, when set, runs k consecutive sessions with the SAME reader objects and returns per session
	// (first messages per party, joint nonce value)
	seq func(rngs map[ID]io.Reader, k int) (firsts []map[ID][]byte, joints []string, status string)
}

// campaign-wide registry of first messages: value hash -> identity of the sender's stream
type c07Registry struct {
	mu   sync.Mutex
	seen map[[32]byte]string
}

// note returns the previous owner when the same bytes were produced under a different stream.
func (g *c07Registry) note(b []byte, owner string) (string, bool) {
	h := sha256.Sum256(b)
	g.mu.Lock()
	defer g.mu.Unlock()
	if prev, ok := g.seen[h]; ok {
		if prev != owner {
			return prev, true
		}
		return "", false
	}
	g.seen[h] = owner
	return "", false
}

// firstSlots: for every party its first message slot(s) in the log (all slots of its first sending round).
func (r *c07Run) firstSlots() map[ID][]string {
	first := map[ID]int{}
	out := map[ID][]string{}
	for _, s := range r.slots {
		var rd int
		var from, to uint64
		fmt.Sscanf(s, "%d/%d/%d", &rd, &from, &to)
		id := ID(from)
		if f, ok := first[id]; !ok || rd == f {
			first[id] = rd
			out[id] = append(out[id], s)
		}
	}
	return out
}

func c07Streams(seed int64, base uint64, ids []ID, changed ID, alt uint64) (map[ID]io.Reader, map[ID]string) {
	rngs := map[ID]io.Reader{}
	owner := map[ID]string{}
	for i, id := range sortedIDs(ids) {
		st := base + uint64(i)
		if id == changed {
			st = alt + uint64(i)
		}
		rngs[id] = &c07Rec{r: NewRng(seed, st)}
		owner[id] = fmt.Sprintf("%d/%d", seed, st)
	}
	return rngs, owner
}

// c07Sem bounds the protocol executions in flight (all cases share it): every execution takes
// `weight` of the c07SemCap tokens (the base-OT variant of DKLs23 is two orders of magnitude slower
// than everything else and must not run twelve-fold in parallel: the protocol layer's watchdog would
// report `hang`).  An execution that still ends in `hang` is repeated once with all tokens held.
const c07SemCap = 12

var (
	c07Sem   = make(chan struct{}, c07SemCap)
	c07AcqMu sync.Mutex
)

func c07Acquire(w int) {
	if w < 1 {
		w = 1
	}
	if w > c07SemCap {
		w = c07SemCap
	}
	c07AcqMu.Lock() // one acquirer at a time: partial acquisitions cannot deadlock
	for range w {
		c07Sem <- struct{}{}
	}
	c07AcqMu.Unlock()
}

func c07Release(w int) {
	if w < 1 {
		w = 1
	}
	if w > c07SemCap {
		w = c07SemCap
	}
	for range w {
		<-c07Sem
	}
}

// c07Case runs A, A', B_c for every c (concurrently; emission order is fixed) and the sequence, and
// emits the lines.
func c07Case(o *jobOut, reg *c07Registry, seed int64, base uint64, p c07Proto, seqK int) {
	c07CaseMode(o, reg, seed, base, p, seqK, false)
}

// seqOnly: only the sequence of sessions is executed (slow protocols whose paired runs are covered
// by another configuration).
func c07CaseMode(o *jobOut, reg *c07Registry, seed int64, base uint64, p c07Proto, seqK int, seqOnly bool) {
	prop := "C07"
	head := fmt.Sprintf("%s %s ids=%s", p.name, p.cfg, idsStr(p.ids))
	const none = ID(1<<63 - 1)
	type outcome struct {
		r     *c07Run
		owner map[ID]string
	}
	once := func(changed ID, alt uint64, weight int) outcome {
		c07Acquire(weight)
		defer c07Release(weight)
		rngs, owner := c07Streams(seed, base, p.ids, changed, alt)
		var r *c07Run
		msg := safely(func() string { r = p.run(rngs); return "" })
		if r == nil {
			r = &c07Run{status: "harness:" + msg, msgs: map[string][]byte{}, joint: map[string]string{}, reads: map[ID]string{}}
		}
		return outcome{r, owner}
	}
	runWith := func(changed ID, alt uint64) outcome {
		out := once(changed, alt, p.weight)
		if strings.Contains(out.r.status, "hang") {
			o.Count("reruns-after-watchdog")
			out = once(changed, alt, c07SemCap)
		}
		return out
	}
	register := func(r *c07Run, owner map[ID]string, tag string) {
		for _, id := range sortedKeys(r.firstSlots()) {
			slots := r.firstSlots()[id]
			own, ok := owner[id]
			if !ok {
				continue
			}
			if r.reads[id] == "" || !strings.Contains(r.reads[id], "1") {
				continue // a party that draws nothing has deterministic messages (e.g. Boldyreva)
			}
			for _, s := range slots {
				// the slot is part of the identity: unicasts of one round to different recipients may legitimately coincide
				if prev, rep := reg.note(append([]byte(p.name+"|"+p.cfg+"|"+s+"|"), r.msgs[s]...), own); rep {
					o.Violation(prop, fmt.Sprintf("first-message-repeat %s slot=%s run=%s stream=%s earlier-stream=%s", head, s, tag, own, prev))
				}
			}
		}
	}
	// all executions of the case at once
	outs := make([]outcome, 2+len(p.ids))
	if seqOnly {
		outs = nil
	}
	var seqFirsts []map[ID][]byte
	var seqJoints []string
	seqStatus := "ok"
	var seqOwner map[ID]string
	var wg sync.WaitGroup
	for i := range outs {
		wg.Add(1)
		go func() {
			defer wg.Done()
			if i < 2 {
				outs[i] = runWith(none, 0)
			} else {
				outs[i] = runWith(p.ids[i-2], base+1000+uint64(i-2)*50)
			}
		}()
	}
	doSeq := p.seq != nil && seqK > 1
	if doSeq {
		wg.Add(1)
		go func() {
			defer wg.Done()
			for _, w := range []int{p.weight, c07SemCap} {
				c07Acquire(w)
				rngs, owner := c07Streams(seed, base, p.ids, none, 0)
				seqOwner = owner
				msg := safely(func() string { seqFirsts, seqJoints, seqStatus = p.seq(rngs, seqK); return "" })
				c07Release(w)
				if msg != "" {
					seqStatus = "harness:" + msg
				}
				if !strings.Contains(seqStatus, "hang") {
					break
				}
			}
		}()
	}
	wg.Wait()
	emitSeq := func() {
		if !doSeq {
			return
		}
		firsts, joints, status, owner := seqFirsts, seqJoints, seqStatus, seqOwner
		o.Count("runs")
		fr, jr := "distinct", "distinct"
		seenF := map[string]bool{}
		for k, fm := range firsts {
			for _, id := range sortedKeys(fm) {
				b := fm[id]
				key := fmt.Sprintf("%d|%x", id, b)
				if seenF[key] {
					fr = "repeat"
				}
				seenF[key] = true
				if k > 0 || seqOnly { // session 0 equals run A (same streams from the start)
					if prev, rep := reg.note(append([]byte(p.name+"|"+p.cfg+"|first|"), b...), fmt.Sprintf("%s+%d", owner[id], k)); rep {
						o.Violation(prop, fmt.Sprintf("first-message-repeat %s session=%d party=%d earlier-stream=%s", head, k, id, prev))
					}
				}
			}
		}
		seenJ := map[string]bool{}
		for _, j := range joints {
			if seenJ[j] {
				jr = "repeat"
			}
			seenJ[j] = true
		}
		if status != "ok" {
			o.Violation(prop, fmt.Sprintf("run-not-ok %s run=seq status=%s", head, status))
		}
		o.Emit(prop, fmt.Sprintf("seq %s k=%d", head, len(firsts)), fmt.Sprintf("first=%s joint=%s", fr, jr))
	}
	if seqOnly {
		o.Count("proto." + p.name)
		emitSeq()
		return
	}
	a, ownerA := outs[0].r, outs[0].owner
	o.Count("runs")
	o.Count("proto." + p.name)
	if a.status != "ok" {
		o.Violation(prop, fmt.Sprintf("run-not-ok %s run=A status=%s", head, a.status))
		return
	}
	register(a, ownerA, "A")
	a2 := outs[1].r
	o.Count("runs")
	// det
	var dm, dj []string
	for _, s := range a.slots {
		if string(a.msgs[s]) != string(a2.msgs[s]) {
			dm = append(dm, s)
		}
	}
	if len(a.slots) != len(a2.slots) {
		dm = append(dm, "slot-count")
	}
	for _, n := range a.jnames {
		if a.joint[n] != a2.joint[n] {
			dj = append(dj, n)
		}
	}
	o.Emit(prop, "det "+head, fmt.Sprintf("status=%s diff=%s joint=%s", a2.status, joinComma(dm), joinComma(dj)))
	// reads
	var rs []string
	for _, id := range p.ids {
		rs = append(rs, fmt.Sprintf("%d=%s", id, a.reads[id]))
	}
	o.Emit(prop, "reads "+head, joinComma(rs))
	if a.bytes >= 1024 {
		o.Count("kib-drawn-run-A." + p.name)
	}
	// draws / per-recipient material of one run
	perRun := func(r *c07Run, tag string) {
		if len(p.ids) > 0 {
			if r.drawsE != "" {
				o.Violation(prop, fmt.Sprintf("harness-recorder %s run=%s %s", head, tag, r.drawsE))
			} else {
				var ds []string
				for _, id := range p.ids {
					var steps []string
					for _, st := range r.draws[id] {
						steps = append(steps, c07StepStr(st))
						c07AddStat("draw-calls", len(st))
					}
					ds = append(ds, fmt.Sprintf("%d=%s", id, strings.Join(steps, "/")))
				}
				o.Emit(prop, fmt.Sprintf("draws %s d=%d run=%s", head, p.cols, tag), joinComma(ds))
			}
		}
		groups, leaves, reps := r.perRecipient()
		if groups > 0 {
			c07AddStat("per-recipient-leaves", leaves)
			o.Emit(prop, fmt.Sprintf("percpt %s run=%s", head, tag), fmt.Sprintf("groups=%d leaves=%d repeats=%s", groups, leaves, joinComma(reps)))
		}
	}
	perRun(a, "A")
	// pairs
	for ci, c := range p.ids {
		b, ownerB := outs[2+ci].r, outs[2+ci].owner
		o.Count("runs")
		o.Count("pairs")
		register(b, ownerB, fmt.Sprintf("B%d", c))
		var ms, js []string
		for _, s := range a.slots {
			bb, ok := b.msgs[s]
			flag := "s"
			if !ok {
				flag = "x"
			} else if string(bb) != string(a.msgs[s]) {
				flag = "c"
			}
			ms = append(ms, s+"="+flag)
		}
		for _, s := range b.slots {
			if _, ok := a.msgs[s]; !ok {
				ms = append(ms, s+"=n")
			}
		}
		for _, n := range a.jnames {
			flag := "s"
			if b.joint[n] != a.joint[n] {
				flag = "c"
			}
			js = append(js, n+"="+flag)
		}
		o.Emit(prop, fmt.Sprintf("pair %s changed=%d", head, c), fmt.Sprintf("status=%s msgs=%s joint=%s", b.status, joinComma(ms), joinComma(js)))
		if b.status == "ok" {
			perRun(b, fmt.Sprintf("B%d", c))
			k, same := c07SameLeaves(a, b, c)
			c07AddStat("own-leaves-compared", k)
			o.Emit(prop, fmt.Sprintf("leaf %s changed=%d", head, c), fmt.Sprintf("leaves=%d same=%s", k, joinComma(same)))
		}
	}
	// sequence of sessions on the same key material
	emitSeq()
}

// ---------------------------------------------------------------------------------------------
// protocol configurations

func c07Session(seed int64, ids []ID) c07Proto {
	ids = sortedIDs(ids)
	return c07Proto{name: "session", cfg: "-", ids: ids, run: func(rngs map[ID]io.Reader) *c07Run {
		n, ctxs := runSession(ids, rngs, nil)
		r := c07FromNet(n)
		if ctxs == nil {
			return r
		}
		sid := ctxs[ids[0]].SessionID()
		r.setJoint("sid", hexBytes(sid[:]))
		for _, i := range ids {
			seeds := ctxs[i].Seeds()
			for _, j := range ids {
				if i < j {
					buf := make([]byte, 32)
					_, _ = io.ReadFull(seeds[j], buf)
					r.setJoint(fmt.Sprintf("seed.%d.%d", i, j), hexBytes(buf))
				}
			}
		}
		for _, i := range ids {
			z, err := przs.SampleZeroShare(ctxs[i], cK256.ScalarField())
			if err != nil {
				r.status = "przs:" + classify(err)
				continue
			}
			r.setJoint(fmt.Sprintf("zero.%d", i), c07Hex(z.Value()))
		}
		return r
	}}
}

func c07DKGJoint[G algebra.PrimeGroupElement[G, S], S algebra.PrimeFieldElement[S]](r *c07Run, ids []ID, shards map[ID]*mpc.BaseShard[G, S]) {
	if len(shards) == 0 {
		return
	}
	for _, id := range ids {
		if sh := shards[id]; sh != nil {
			r.setJoint("pk", c07Hex(sh.PublicKeyValue()))
			break
		}
	}
	for _, id := range ids {
		if sh := shards[id]; sh != nil {
			r.setJoint(fmt.Sprintf("share.%d", id), c07ShareStr(shardView(sh).Share))
		}
	}
}

// c07Cols: the number of columns D of the MSP the library induces for the access structure.
func c07Cols[G algebra.PrimeGroupElement[G, S], S algebra.PrimeFieldElement[S]](group algebra.PrimeGroup[G, S], ac accessstructures.Monotone) int {
	sch, err := feldman.NewScheme(group, ac)
	if err != nil {
		panic(fmt.Sprintf("c07Cols: %v", err))
	}
	return int(sch.MSP().D())
}

func c07Dealer[G algebra.PrimeGroupElement[G, S], S algebra.PrimeFieldElement[S]](gname string, group algebra.PrimeGroup[G, S], spec string) c07Proto {
	ac := mustAccess(spec)
	return c07Proto{name: "dealer", cfg: gname + ";" + spec, ids: []ID{0}, cols: c07Cols(group, ac), run: func(rngs map[ID]io.Reader) *c07Run {
		d := runTrustedDealer(group, ac, rngs[0])
		r := c07FromNet(d.Net)
		c07DKGJoint(r, accessIDs(ac), d.Shards)
		return r
	}}
}

func c07Gennaro[G algebra.PrimeGroupElement[G, S], S algebra.PrimeFieldElement[S]](seed int64, gname string, group algebra.PrimeGroup[G, S], spec string) c07Proto {
	ac := mustAccess(spec)
	ids := accessIDs(ac)
	return c07Proto{name: "gennaro", cfg: gname + ";" + spec, ids: ids, cols: c07Cols(group, ac), run: func(rngs map[ID]io.Reader) *c07Run {
		d := runGennaro(group, ac, dealerContexts(ids, NewRng(seed, 8)), rngs, nil, defaultCompiler)
		r := c07FromNet(d.Net)
		c07DKGJoint(r, ids, d.Shards)
		return r
	}}
}

func c07Canetti[G algebra.PrimeGroupElement[G, S], S algebra.PrimeFieldElement[S]](seed int64, gname string, group algebra.PrimeGroup[G, S], spec string) c07Proto {
	ac := mustAccess(spec)
	ids := accessIDs(ac)
	return c07Proto{name: "canetti", cfg: gname + ";" + spec, ids: ids, cols: c07Cols(group, ac), run: func(rngs map[ID]io.Reader) *c07Run {
		d := runCanetti(group, ac, dealerContexts(ids, NewRng(seed, 8)), rngs, nil)
		r := c07FromNet(d.Net)
		c07DKGJoint(r, ids, d.Shards)
		return r
	}}
}

func c07HJKY[G algebra.PrimeGroupElement[G, S], S algebra.PrimeFieldElement[S]](seed int64, gname string, group algebra.PrimeGroup[G, S], spec string) c07Proto {
	ac := mustAccess(spec)
	ids := accessIDs(ac)
	return c07Proto{name: "hjky", cfg: gname + ";" + spec, ids: ids, cols: c07Cols(group, ac), run: func(rngs map[ID]io.Reader) *c07Run {
		h := runHJKY(group, ac, dealerContexts(ids, NewRng(seed, 8)), rngs, nil)
		r := c07FromNet(h.Net)
		for _, id := range ids {
			if sh := h.Shares[id]; sh != nil {
				r.setJoint(fmt.Sprintf("zshare.%d", id), c07ShareStr(sh.Value()))
			}
		}
		if vv := h.VV[ids[0]]; len(vv) > 1 {
			parts := make([]string, len(vv))
			for i, v := range vv {
				parts[i] = c07Hex(v)
			}
			r.setJoint("zvv", strings.Join(parts, "|"))
		}
		return r
	}}
}

// c07Redistribute: prev structure prevSpec (key dealt once by the trusted dealer), next structure nextSpec.
func c07Redistribute[G algebra.PrimeGroupElement[G, S], S algebra.PrimeFieldElement[S]](seed int64, gname string, group algebra.PrimeGroup[G, S], prevSpec, nextSpec string) c07Proto {
	prevAC, nextAC := mustAccess(prevSpec), mustAccess(nextSpec)
	prev := accessIDs(prevAC)
	d := runTrustedDealer(group, prevAC, NewRng(seed, 7))
	all := sortedIDs(idSet(append(append([]ID{}, prev...), accessIDs(nextAC)...)...).List())
	return c07Proto{name: "redistribute", cfg: gname + ";" + prevSpec + ";" + nextSpec, ids: all, cols: c07Cols(group, nextAC), run: func(rngs map[ID]io.Reader) *c07Run {
		res := runRedistribute(prev, d.Shards, nextAC, dealerContexts(all, NewRng(seed, 8)), rngs, nil)
		r := c07FromNet(res.Net)
		c07DKGJoint(r, accessIDs(nextAC), res.Shards)
		return r
	}}
}

func c07Lindell22Vanilla[P curves.Point[P, F, S], F algebra.FiniteFieldElement[F], S algebra.PrimeFieldElement[S]](seed int64, gname string, group curves.Curve[P, F, S], spec string, q []ID) c07Proto {
	ac := mustAccess(spec)
	d := runTrustedDealer(group, ac, NewRng(seed, 7))
	q = sortedIDs(q)
	msg := []byte("c07 message")
	mk := func(rng io.Reader) (*vanilla.Scheme[P, S], error) {
		return vanilla.NewScheme(group, sha256.New, false, false, nil, rng)
	}
	one := func(rngs map[ID]io.Reader, ctxStream uint64) (*c07Run, map[ID][]byte) {
		res := runLindell22(mk, d.Shards, q, dealerContexts(q, NewRng(seed, ctxStream)), msg, rngs, NewRng(seed, 10), nil, defaultCompiler)
		r := c07FromNet(res.Net)
		for _, id := range q {
			if pt, ok := res.NoncePoints[id]; ok {
				r.setJoint(fmt.Sprintf("R.%d", id), c07Hex(pt))
			}
		}
		if res.Sig != nil {
			r.setJoint("R", c07Hex(res.Sig.R))
			r.setJoint("s", c07Hex(res.Sig.S))
			if !res.VerifyOK {
				r.status = "signature-does-not-verify"
			}
		} else if r.status == "ok" {
			r.status = "agg:" + res.AggStatus
		}
		firsts := map[ID][]byte{}
		for id, ss := range r.firstSlots() {
			for _, s := range ss {
				firsts[id] = append(firsts[id], r.msgs[s]...)
			}
		}
		return r, firsts
	}
	return c07Proto{name: "lindell22-vanilla", cfg: gname + ";" + spec, ids: q,
		run: func(rngs map[ID]io.Reader) *c07Run { r, _ := one(rngs, 9); return r },
		seq: func(rngs map[ID]io.Reader, k int) ([]map[ID][]byte, []string, string) {
			var fs []map[ID][]byte
			var js []string
			for i := range k {
				r, f := one(rngs, 9) // same session context material every time: only the streams advance
				if r.status != "ok" {
					return fs, js, fmt.Sprintf("session%d:%s", i, r.status)
				}
				fs = append(fs, f)
				js = append(js, r.joint["R"])
			}
			return fs, js, "ok"
		}}
}

func c07Lindell22BIP340(seed int64, spec string, q []ID) c07Proto {
	ac := mustAccess(spec)
	d := runTrustedDealer(cK256, ac, NewRng(seed, 7))
	q = sortedIDs(q)
	msg := []byte("c07 message")
	mk := func(rng io.Reader) (*bip340.Scheme, error) { return bip340.NewScheme(rng) }
	return c07Proto{name: "lindell22-bip340", cfg: "k256;" + spec, ids: q, run: func(rngs map[ID]io.Reader) *c07Run {
		res := runLindell22(mk, d.Shards, q, dealerContexts(q, NewRng(seed, 9)), msg, rngs, NewRng(seed, 10), nil, defaultCompiler)
		r := c07FromNet(res.Net)
		for _, id := range q {
			if pt, ok := res.NoncePoints[id]; ok {
				r.setJoint(fmt.Sprintf("R.%d", id), c07Hex(pt))
			}
		}
		if res.Sig != nil {
			r.setJoint("R", c07Hex(res.Sig.R))
			r.setJoint("s", c07Hex(res.Sig.S))
			if !res.VerifyOK {
				r.status = "signature-does-not-verify"
			}
		} else if r.status == "ok" {
			r.status = "agg:" + res.AggStatus
		}
		return r
	}}
}

func c07DKLs23(seed int64, variant, spec string, q []ID) c07Proto {
	ac := mustAccess(spec)
	d := runTrustedDealer(cK256, ac, NewRng(seed, 7))
	q = sortedIDs(q)
	msg := []byte("c07 message")
	suite, _ := ecdsa.NewSuite(cK256, sha256.New)
	one := func(rngs map[ID]io.Reader) (*c07Run, map[ID][]byte) {
		res := runDKLs23(variant, suite, d.Shards, q, dealerContexts(q, NewRng(seed, 9)), msg, rngs, nil)
		r := c07FromNet(res.Net)
		for _, id := range q {
			if pt, ok := res.NoncePoints[id]; ok {
				r.setJoint(fmt.Sprintf("R.%d", id), c07Hex(pt))
			}
		}
		if res.Sig != nil {
			r.setJoint("r", c07Hex(res.Sig.R()))
			r.setJoint("s", c07Hex(res.Sig.S()))
		} else if r.status == "ok" {
			r.status = "agg:" + res.AggStatus
		}
		firsts := map[ID][]byte{}
		for id, ss := range r.firstSlots() {
			for _, s := range ss {
				firsts[id] = append(firsts[id], r.msgs[s]...)
			}
		}
		return r, firsts
	}
	weight := 1
	if variant == "bbot" {
		weight = 2 * (len(q) - 1) // 2 parties: 2, 3 parties: 4
	}
	return c07Proto{name: "dkls23-" + variant, cfg: "k256;" + spec, ids: q, weight: weight,
		run: func(rngs map[ID]io.Reader) *c07Run { r, _ := one(rngs); return r },
		seq: func(rngs map[ID]io.Reader, k int) ([]map[ID][]byte, []string, string) {
			var fs []map[ID][]byte
			var js []string
			for i := range k {
				r, f := one(rngs)
				if r.status != "ok" {
					return fs, js, fmt.Sprintf("session%d:%s", i, r.status)
				}
				fs = append(fs, f)
				js = append(js, r.joint["r"])
			}
			return fs, js, "ok"
		}}
}

// c07Boldyreva: BLS threshold signing draws no randomness at all; the parties get no stream, so the
// only comparison is A against A' (everything must be identical) — `ids` is empty.
func c07Boldyreva(seed int64, spec string, q []ID) c07Proto {
	ac := mustAccess(spec)
	d := runTrustedDealer(cBLSG1, ac, NewRng(seed, 7))
	q = sortedIDs(q)
	return c07Proto{name: "boldyreva-short", cfg: "bls12381g1;" + spec + ";q=" + strings.ReplaceAll(idsStr(q), ",", "+"), ids: nil, run: func(map[ID]io.Reader) *c07Run {
		res := runBoldyrevaShort(d.Shards, q, dealerContexts(q, NewRng(seed, 9)), []byte("c07 message"), bls.Basic, nil)
		r := c07FromNet(res.Net)
		if res.Sig != nil {
			r.setJoint("sig", c07Hex(res.Sig.Value()))
		} else if r.status == "ok" {
			r.status = "agg:" + res.AggStatus
		}
		return r
	}}
}

// c07Lindell17: thorough tier only (three 3072-bit Paillier keys are dealt once: tens of seconds).
func c07Lindell17(o *jobOut, seed int64, primary, secondary ID) (c07Proto, bool) {
	spec := "th:2:1,2,3"
	shards, cls := runLindell17Deal(cK256, mustAccess(spec), 3072, NewRng(seed, 7))
	if cls != "ok" {
		o.Violation("C07", "lindell17-deal "+cls)
		return c07Proto{}, false
	}
	suite, _ := ecdsa.NewSuite(cK256, sha256.New)
	q := sortedIDs([]ID{primary, secondary})
	return c07Proto{name: "lindell17", cfg: fmt.Sprintf("k256;%s;primary=%d", spec, primary), ids: q, run: func(rngs map[ID]io.Reader) *c07Run {
		res := runLindell17Sign(suite, shards, primary, secondary, dealerContexts(q, NewRng(seed, 9)), []byte("c07 message"), rngs, nil, fischlin.Name)
		r := c07FromNet(res.Net)
		if res.Sig != nil {
			r.setJoint("r", c07Hex(res.Sig.R()))
			r.setJoint("s", c07Hex(res.Sig.S()))
		}
		return r
	}}, true
}

// ---------------------------------------------------------------------------------------------

func c07RunJobs(c *Ctx, par int, jobs []func(*jobOut)) {
	outs := make([]*jobOut, len(jobs))
	var wg sync.WaitGroup
	sem := make(chan struct{}, par)
	for i, job := range jobs {
		wg.Add(1)
		sem <- struct{}{}
		go func() {
			defer wg.Done()
			defer func() { <-sem }()
			o := &jobOut{}
			func() {
				defer func() {
					if e := recover(); e != nil {
						o.Violation(c.Prop, fmt.Sprintf("harness-panic job=%d %v", i, strings.ReplaceAll(fmt.Sprint(e), " ", "_")))
					}
				}()
				job(o)
			}()
			outs[i] = o
		}()
	}
	wg.Wait()
	for _, o := range outs {
		o.flush(c)
	}
}

func runC07(c *Ctx) {
	reg := &c07Registry{seen: map[[32]byte]string{}}
	seed := c.Seed
	g := NewRng(seed, 0xC07)
	// party identifiers: k distinct non-zero IDs, not always 1,2,3
	pick := func(k int) []ID {
		m := map[ID]bool{}
		for len(m) < k {
			m[ID(1+g.IntN(12))] = true
		}
		var out []ID
		for id := range m {
			out = append(out, id)
		}
		sort.Slice(out, func(i, j int) bool { return out[i] < out[j] })
		return out
	}
	th := func(t int, ids []ID) string { return fmt.Sprintf("th:%d:%s", t, idsStr(ids)) }
	var jobs []func(*jobOut)
	add := func(base uint64, seqK int, mk func() c07Proto) {
		jobs = append(jobs, func(o *jobOut) { c07Case(o, reg, seed, base, mk(), seqK) })
	}
	addSeqOnly := func(base uint64, seqK int, mk func() c07Proto) {
		jobs = append(jobs, func(o *jobOut) { c07CaseMode(o, reg, seed, base, mk(), seqK, true) })
	}
	rounds := 1
	if c.Thorough() {
		rounds = 4
	}
	for it := range rounds {
		b := uint64(10000 * (it + 1))
		ids := pick(3)
		ids4 := pick(4)
		q := []ID{ids[0], ids[2]}
		if it%2 == 1 {
			q = []ID{ids[1], ids[2]}
		}
		all3 := ids
		seqK := 3
		// the slow ones first (the run semaphore is shared)
		add(b+900, 0, func() c07Proto { return c07DKLs23(seed, "bbot", th(2, ids), all3) })
		if c.Thorough() {
			add(b+950, seqK, func() c07Proto { return c07DKLs23(seed, "bbot", th(2, ids), q) })
		} else {
			addSeqOnly(b+950, seqK, func() c07Proto { return c07DKLs23(seed, "bbot", th(2, ids), q) })
		}
		add(b+1100, seqK, func() c07Proto { return c07DKLs23(seed, "softspoken", th(2, ids), all3) })
		add(b+1150, seqK, func() c07Proto { return c07DKLs23(seed, "softspoken", th(2, ids), q) })
		// session setup with 2, 3, 4 and 5 parties
		for k := 2; k <= 5; k++ {
			sids := pick(k)
			add(b+100+uint64(k), 0, func() c07Proto { return c07Session(seed, sids) })
		}
		add(b+200, 0, func() c07Proto { return c07Dealer("k256", cK256, th(2, ids)) })
		add(b+300, 0, func() c07Proto { return c07Gennaro(seed, "k256", cK256, th(2, ids)) })
		add(b+350, 0, func() c07Proto { return c07Gennaro(seed, "k256", cK256, th(3, ids4)) })
		add(b+400, 0, func() c07Proto { return c07Canetti(seed, "k256", cK256, th(2, ids)) })
		add(b+450, 0, func() c07Proto { return c07Canetti(seed, "k256", cK256, th(3, ids4)) })
		add(b+500, 0, func() c07Proto { return c07HJKY(seed, "k256", cK256, th(2, ids)) })
		add(b+550, 0, func() c07Proto { return c07HJKY(seed, "k256", cK256, th(3, ids4)) })
		add(b+600, 0, func() c07Proto { return c07Redistribute(seed, "k256", cK256, th(2, ids), th(2, ids)) })
		// redistribution to a different holder set with a newcomer and a higher threshold
		nw := ID(40 + it)
		next := []ID{ids[1], ids[2], nw, nw + 7}
		add(b+650, 0, func() c07Proto { return c07Redistribute(seed, "k256", cK256, th(2, ids), th(3, next)) })
		add(b+700, seqK, func() c07Proto { return c07Lindell22Vanilla(seed, "k256", cK256, th(2, ids), all3) })
		add(b+750, seqK, func() c07Proto { return c07Lindell22Vanilla(seed, "k256", cK256, th(2, ids), q) })
		add(b+800, 0, func() c07Proto { return c07Lindell22BIP340(seed, th(2, ids), all3) })
		add(b+1200, 0, func() c07Proto { return c07Boldyreva(seed, th(2, ids), q) })
		if c.Thorough() {
			add(b+1300, 0, func() c07Proto { return c07Dealer("p256", cP256, th(3, ids)) })
			add(b+1400, 0, func() c07Proto { return c07Gennaro(seed, "p256", cP256, th(3, ids)) })
			add(b+1500, 0, func() c07Proto { return c07Canetti(seed, "ed25519", cEd25519, th(2, ids)) })
			add(b+1600, 0, func() c07Proto { return c07HJKY(seed, "p256", cP256, th(3, ids)) })
			add(b+1700, seqK, func() c07Proto { return c07Lindell22Vanilla(seed, "p256", cP256, th(2, ids), all3) })
			add(b+1750, 0, func() c07Proto { return c07Lindell22BIP340(seed, th(2, ids), q) })
			// non-threshold structures (several MSP rows per holder, D ≠ t)
			sp := []string{"un:" + idsStr(ids), "cnf:1,2|3,4|1,3", "hier:1:1,2|3:3,4,5", "bool:and(1,or(2,3),th2(4,5,6))"}[it%4]
			add(b+1800, 0, func() c07Proto { return c07Dealer("k256", cK256, sp) })
			add(b+1810, 0, func() c07Proto { return c07Gennaro(seed, "k256", cK256, sp) })
			add(b+1820, 0, func() c07Proto { return c07Canetti(seed, "k256", cK256, sp) })
			add(b+1830, 0, func() c07Proto { return c07HJKY(seed, "k256", cK256, sp) })
			add(b+1840, 0, func() c07Proto { return c07Redistribute(seed, "k256", cK256, sp, sp) })
		}
	}
	if c.Thorough() {
		for _, primary := range []ID{1, 3} {
			secondary := ID(4) - primary
			jobs = append(jobs, func(o *jobOut) {
				p, ok := c07Lindell17(o, seed, primary, secondary)
				if ok {
					c07Case(o, reg, seed, 90000+uint64(primary)*100, p, 0)
				}
			})
		}
	}
	c07RunJobs(c, len(jobs), jobs)
	for _, k := range sortedStrings(c07Stats) {
		c.Stats[k] += c07Stats[k]
	}
}

func sortedStrings(m map[string]int) []string {
	out := make([]string, 0, len(m))
	for k := range m {
		out = append(out, k)
	}
	sort.Strings(out)
	return out
}
