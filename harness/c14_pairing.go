package main

import (
	"fmt"
	"math/big"

	"github.com/bronlabs/bron-crypto/pkg/base/curves/pairable/bls12381"
)

func gtPow(x *bls12381.GtElement, k *big.Int) *bls12381.GtElement {
	acc := bls12381.NewGt().One()
	for i := k.BitLen() - 1; i >= 0; i-- {
		acc = acc.Square()
		if k.Bit(i) == 1 {
			acc = acc.Mul(x)
		}
	}
	return acc
}

// c14Pairing checks the BLS12-381 pairing only through algebraic relations between
// implementation outputs (bilinearity, non-degeneracy, order); the Miller loop and final
// exponentiation are NOT modelled in Lean.
func c14Pairing(c *Ctx, q int) {
	r := NewRng(c.Seed, 1450)
	n := fieldOrder(fBLS)
	g1, g2 := cBLSG1.Generator(), cBLSG2.Generator()
	pair := func(p *bls12381.PointG1, q2 *bls12381.PointG2) *bls12381.GtElement {
		e, err := p.Pair(q2)
		if err != nil {
			c.Violation("pairing of non-identity subgroup points failed")
			return bls12381.NewGt().One()
		}
		return e
	}
	safe := func(desc string, fn func()) {
		res := safely(func() string { fn(); return "ok" })
		if res != "ok" {
			c.Violation("pairing " + desc + " " + res)
		}
	}
	safe("base", func() {
		e := pair(g1, g2)
		if e.IsOne() {
			c.Violation("pairing degenerate: e(G1,G2) = 1")
		}
		if !gtPow(e, n).IsOne() {
			c.Violation("pairing e(G1,G2)^r != 1")
		}
		c.Count("pairing.nondegenerate")
		// identity operands are rejected by the API rather than mapped to 1
		if _, err := cBLSG1.OpIdentity().Pair(g2); err == nil {
			c.Note("pairing with identity accepted")
		}
	})
	for i := 0; i < 4*q; i++ {
		a, b := c14Scalar(r, n), c14Scalar(r, n)
		if a.Sign() == 0 {
			a = big.NewInt(1)
		}
		if b.Sign() == 0 {
			b = big.NewInt(1)
		}
		safe(fmt.Sprintf("bilinear a=%s b=%s", hexNat(a), hexNat(b)), func() {
			sa, sb := scalarFromBig(fBLS, a), scalarFromBig(fBLS, b)
			aP, bQ := g1.ScalarMul(sa), g2.ScalarMul(sb)
			base := pair(g1, g2)
			lhs := pair(aP, bQ)
			ab := new(big.Int).Mul(a, b)
			ab.Mod(ab, n)
			if !lhs.Equal(gtPow(base, ab)) {
				c.Violation(fmt.Sprintf("pairing not bilinear: e(aP,bQ) != e(P,Q)^(ab) a=%s b=%s", hexNat(a), hexNat(b)))
			}
			if !pair(aP, g2).Equal(pair(g1, g2.ScalarMul(sa))) {
				c.Violation(fmt.Sprintf("pairing e(aP,Q) != e(P,aQ) a=%s", hexNat(a)))
			}
			// additivity in the first argument
			if !pair(aP.Add(g1.ScalarMul(sb)), g2).Equal(pair(aP, g2).Mul(pair(g1.ScalarMul(sb), g2))) {
				// (a+b) may be 0 mod r only with negligible probability; identity is rejected by Pair
				c.Violation(fmt.Sprintf("pairing not additive in G1 a=%s b=%s", hexNat(a), hexNat(b)))
			}
			if lhs.IsOne() {
				c.Violation(fmt.Sprintf("pairing degenerate on non-identity points a=%s b=%s", hexNat(a), hexNat(b)))
			}
			// multi-pairing = product of pairings
			mp, err := cBLSG1.MultiPair([]*bls12381.PointG1{aP, g1}, []*bls12381.PointG2{g2, bQ})
			if err != nil || !mp.Equal(pair(aP, g2).Mul(pair(g1, bQ))) {
				c.Violation(fmt.Sprintf("multi-pairing != product a=%s b=%s", hexNat(a), hexNat(b)))
			}
			c.Count("pairing.bilinear-checks")
		})
	}
}
