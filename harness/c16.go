package main

import (
	"errors"
	"fmt"
	"io"
	"math/big"
	"strings"
	"sync"

	"github.com/bronlabs/bron-crypto/pkg/base/nt/num"
	"github.com/bronlabs/bron-crypto/pkg/base/nt/znstar"
	"github.com/bronlabs/bron-crypto/pkg/encryption"
	"github.com/bronlabs/bron-crypto/pkg/encryption/paillier"
)

func init() { register("C16", runC16) }

// lockedReader makes the deterministic Rng usable by the library's concurrent prime samplers.
// (Prime generation is not reproducible anyway: all key material is written into the lines.)
type lockedReader struct {
	mu sync.Mutex
	r  io.Reader
}

func (l *lockedReader) Read(p []byte) (int, error) {
	l.mu.Lock()
	defer l.mu.Unlock()
	return l.r.Read(p)
}

// c16Err maps a library error to a stable class name.
func c16Err(err error) string {
	switch {
	case err == nil:
		return "ok"
	case errors.Is(err, encryption.ErrOutOfRange):
		return "err:range"
	case errors.Is(err, encryption.ErrSubGroupMembership):
		return "err:membership"
	case errors.Is(err, encryption.ErrIsNil):
		return "err:nil"
	case errors.Is(err, encryption.ErrFailed):
		return "err:failed"
	case errors.Is(err, znstar.ErrValue):
		return "err:value"
	case errors.Is(err, znstar.ErrFailed):
		return "err:zfailed"
	case errors.Is(err, znstar.ErrIsNil):
		return "err:nil"
	default:
		return "err:other"
	}
}

func hexInt(v *big.Int) string {
	if v.Sign() < 0 {
		return "-" + new(big.Int).Neg(v).Text(16)
	}
	return v.Text(16)
}

func hexList(vs ...*big.Int) string {
	out := make([]string, len(vs))
	for i, v := range vs {
		out[i] = hexNat(v)
	}
	return joinComma(out)
}

// c16Key bundles one Paillier key: the secret key (CRT-accelerated path) and a public key that
// was rebuilt from N alone (public path).
type c16Key struct {
	flavour string
	bits    uint
	p, q    *big.Int
	N, NN   *big.Int
	nPlus   *num.NatPlus
	sk      *paillier.SecretKey
	pk      *paillier.PublicKey
	ctx     *Ctx // set by runC16: every operation then goes through the input-immutability oracle
}

func c16NatPlus(v *big.Int) *num.NatPlus {
	out, err := num.NPlus().FromBig(v)
	if err != nil {
		panic(fmt.Sprintf("NatPlus(%s): %v", v.Text(16), err))
	}
	return out
}

func c16Nat(v *big.Int) *num.Nat {
	out, err := num.N().FromBig(v)
	if err != nil {
		panic(fmt.Sprintf("Nat: %v", err))
	}
	return out
}

func c16Int(v *big.Int) *num.Int {
	out, err := num.Z().FromBig(v)
	if err != nil {
		panic(fmt.Sprintf("Int: %v", err))
	}
	return out
}

// c16PublicFromN builds the public key from the modulus alone (no factorisation anywhere).
func c16PublicFromN(n *big.Int, legacy bool) (*paillier.PublicKey, error) {
	nn := new(big.Int).Mul(n, n)
	g, err := znstar.NewPaillierGroupOfUnknownOrder(c16NatPlus(nn), c16NatPlus(n))
	if err != nil {
		return nil, err
	}
	if legacy {
		return paillier.NewLegacyPublicKey(g)
	}
	return paillier.NewPublicKey(g)
}

func c16WrapKey(flavour string, bits uint, sk *paillier.SecretKey, legacy bool) (*c16Key, error) {
	ar := sk.Group().Arithmetic()
	p := ar.P.Factor.Nat().Big()
	q := ar.Q.Factor.Nat().Big()
	n := sk.Group().N().Big()
	pk, err := c16PublicFromN(n, legacy)
	if err != nil {
		return nil, err
	}
	return &c16Key{flavour: flavour, bits: bits, p: p, q: q, N: n, NN: new(big.Int).Mul(n, n), nPlus: c16NatPlus(n), sk: sk, pk: pk}, nil
}

type c16KeySpec struct {
	flavour string
	bits    uint
	legacy  bool
}

func c16GenKey(s c16KeySpec, prng io.Reader) (*c16Key, error) {
	if s.legacy {
		var g *znstar.PaillierGroupKnownOrder
		var err error
		switch s.flavour {
		case "general":
			g, err = znstar.SamplePaillierGroup(s.bits, prng)
		case "blum":
			g, err = znstar.SamplePaillierBlumGroup(s.bits, prng)
		default:
			g, err = znstar.SampleSafePaillierGroup(s.bits, prng)
		}
		if err != nil {
			return nil, err
		}
		sk, err := paillier.NewLegacySecretKey(g)
		if err != nil {
			return nil, err
		}
		return c16WrapKey(s.flavour, s.bits, sk, true)
	}
	var sk *paillier.SecretKey
	var err error
	switch s.flavour {
	case "general":
		sk, err = paillier.SampleSecretKey(s.bits, prng)
	case "blum":
		sk, err = paillier.SampleBlumSecretKey(s.bits, prng)
	default:
		sk, err = paillier.SampleSafeSecretKey(s.bits, prng)
	}
	if err != nil {
		return nil, err
	}
	return c16WrapKey(s.flavour, s.bits, sk, false)
}

// c16Triple is a tracked encryption: plaintext, nonce, ciphertext (library objects + values).
type c16Triple struct {
	pt *paillier.Plaintext
	nc *paillier.Nonce
	ct *paillier.Ciphertext
}

func ptBig(p *paillier.Plaintext) *big.Int   { return p.Value().Big() }
func ncBig(n *paillier.Nonce) *big.Int       { return n.Value().Value().Big() }
func ctBig(c *paillier.Ciphertext) *big.Int  { return c.Value().Value().Big() }
func (t *c16Triple) String() string          { return hexNat(ptBig(t.pt)) + " " + hexNat(ncBig(t.nc)) + " " + hexNat(ctBig(t.ct)) }
func (k *c16Key) ptOf(v *big.Int) *paillier.Plaintext {
	p, err := paillier.NewPlaintextFromNat(c16Nat(v), k.nPlus)
	if err != nil {
		panic(fmt.Sprintf("plaintext: %v", err))
	}
	return p
}
func (k *c16Key) nonceOf(v *big.Int) *paillier.Nonce {
	n, err := paillier.NewNonce(k.pk.Group(), c16NatPlus(v))
	if err != nil {
		panic(fmt.Sprintf("nonce: %v", err))
	}
	return n
}

func (k *c16Key) randUnit(r *Rng) *big.Int {
	for {
		v := r.BigBelow(k.N)
		if v.Sign() > 0 && new(big.Int).GCD(nil, nil, v, k.N).Cmp(big.NewInt(1)) == 0 {
			return v
		}
	}
}

func (k *c16Key) randUnitNN(r *Rng) *big.Int {
	for {
		v := r.BigBelow(k.NN)
		if v.Sign() > 0 && new(big.Int).GCD(nil, nil, v, k.N).Cmp(big.NewInt(1)) == 0 {
			return v
		}
	}
}

// paillierOps is the part of the API shared by PublicKey and SecretKey.
type paillierOps interface {
	EncryptWithNonce(*paillier.Plaintext, *paillier.Nonce) (*paillier.Ciphertext, error)
	Representative(*paillier.Plaintext) (*paillier.Ciphertext, error)
	IdentityNoise(*paillier.Nonce) (*paillier.Ciphertext, error)
	CiphertextOp(*paillier.Ciphertext, *paillier.Ciphertext, ...*paillier.Ciphertext) (*paillier.Ciphertext, error)
	CiphertextOpInv(*paillier.Ciphertext) (*paillier.Ciphertext, error)
	CiphertextScalarOp(*paillier.Ciphertext, *num.Int) (*paillier.Ciphertext, error)
	ReRandomise(*paillier.Ciphertext, *paillier.Nonce) (*paillier.Ciphertext, error)
	Shift(*paillier.Ciphertext, *paillier.Plaintext) (*paillier.Ciphertext, error)
	NonceOp(*paillier.Nonce, *paillier.Nonce, ...*paillier.Nonce) (*paillier.Nonce, error)
	NonceOpInv(*paillier.Nonce) (*paillier.Nonce, error)
	NonceScalarOp(*paillier.Nonce, *num.Int) (*paillier.Nonce, error)
	PlaintextOp(*paillier.Plaintext, *paillier.Plaintext, ...*paillier.Plaintext) (*paillier.Plaintext, error)
	PlaintextOpInv(*paillier.Plaintext) (*paillier.Plaintext, error)
	PlaintextScalarOp(*paillier.Plaintext, *num.Int) (*paillier.Plaintext, error)
}

func (k *c16Key) ops(path string) paillierOps {
	var inner paillierOps = k.pk
	if path == "sk" {
		inner = k.sk
	}
	if k.ctx == nil {
		return inner
	}
	return &c16Immut{c: k.ctx, path: path, inner: inner}
}

func runC16(c *Ctx) {
	r := NewRng(c.Seed, 1600)
	prng := &lockedReader{r: NewRng(c.Seed, 1601)}

	specs := []c16KeySpec{
		{"general", 3072, false}, {"blum", 3072, false}, {"safe", 3072, false},
		{"general", 2048, true},
	}
	if c.Thorough() {
		specs = append(specs,
			c16KeySpec{"blum", 2048, true}, c16KeySpec{"safe", 2048, true},
			c16KeySpec{"general", 3072, false}, c16KeySpec{"blum", 3072, false}, c16KeySpec{"safe", 3072, false},
			c16KeySpec{"general", 4096, false}, c16KeySpec{"blum", 4096, false}, c16KeySpec{"safe", 3584, false},
			c16KeySpec{"general", 3074, false},
		)
	}
	keys := make([]*c16Key, len(specs))
	errsK := make([]error, len(specs))
	var wg sync.WaitGroup
	for i, s := range specs {
		wg.Add(1)
		go func() {
			defer wg.Done()
			defer func() {
				if e := recover(); e != nil {
					errsK[i] = fmt.Errorf("panic: %v", e)
				}
			}()
			keys[i], errsK[i] = c16GenKey(s, prng)
		}()
	}
	wg.Wait()
	var good []*c16Key
	for i, s := range specs {
		if errsK[i] != nil {
			c.Violation(fmt.Sprintf("key generation failed flavour=%s bits=%d legacy=%v: %s", s.flavour, s.bits, s.legacy, strings.ReplaceAll(errsK[i].Error(), "\n", " ")))
			continue
		}
		k := keys[i]
		c.Emit(fmt.Sprintf("key %s %d %s %s", k.flavour, k.bits, hexNat(k.p), hexNat(k.q)), "ok:"+hexNat(k.N))
		c.Count("key." + k.flavour)
		good = append(good, k)
	}
	c16KeyValidation(c, r, good)
	// the same modulus with the factors in the other order (p < q and p > q both occur)
	if len(good) > 0 {
		src := good[len(good)-1]
		if len(good) >= 4 {
			src = good[3] // the 2048-bit legacy key: cheapest
		}
		if sw, err := c16SwappedKey(src); err != nil {
			c.Violation(fmt.Sprintf("rebuilding a key with swapped factors failed p=%s q=%s: %s", hexNat(src.q), hexNat(src.p), c16Err(err)))
		} else {
			c.Emit(fmt.Sprintf("key %s %d %s %s", sw.flavour, sw.bits, hexNat(sw.p), hexNat(sw.q)), "ok:"+hexNat(sw.N))
			c.Count("key.swapped")
			good = append(good, sw)
		}
	}
	for _, k := range good {
		k.ctx = c
		if k.p.Cmp(k.q) < 0 {
			c.Count("key.p<q")
		} else {
			c.Count("key.p>q")
		}
	}
	for i, k := range good {
		kr := NewRng(c.Seed, 1610+uint64(i))
		c16Constructors(c, kr, k)
		c16Encrypt(c, kr, k, prng)
		c16SymEnc(c, kr, k)
		c16SkOps(c, kr, k)
		c16Chains(c, kr, k)
		c16Aggregation(c, kr, k)
		c16DecBad(c, kr, k)
		if len(good) > 1 {
			c16Foreign(c, kr, k, good[(i+1)%len(good)])
		}
	}
	c16ElGamal(c)
}

// ---------------------------------------------------------------- key validation

func c16NewKey(floor int, p, q *big.Int) string {
	return safely(func() string {
		g, err := znstar.NewPaillierGroup(c16NatPlus(p), c16NatPlus(q))
		if err != nil {
			return c16Err(err)
		}
		var sk *paillier.SecretKey
		if floor == 2048 {
			sk, err = paillier.NewLegacySecretKey(g)
		} else {
			sk, err = paillier.NewSecretKey(g)
		}
		if err != nil {
			return c16Err(err)
		}
		return "ok:" + hexNat(sk.Group().N().Big())
	})
}

func c16KeyValidation(c *Ctx, r *Rng, keys []*c16Key) {
	emit := func(floor int, p, q *big.Int) {
		res := c16NewKey(floor, p, q)
		c.Emit(fmt.Sprintf("newkey %d %s %s", floor, hexNat(p), hexNat(q)), res)
		c.Count("newkey." + strings.SplitN(res, ":", 2)[0] + "." + fmt.Sprint(floor))
	}
	two := big.NewInt(2)
	for i, k := range keys {
		floor := 3072
		if k.bits < 3072 {
			floor = 2048
		}
		emit(floor, k.p, k.q)                                // well-formed
		emit(floor, k.q, k.p)                                // swapped
		emit(floor, k.p, k.p)                                // equal factors
		emit(floor, k.p, new(big.Int).Add(k.q, two))         // q+2: almost surely composite
		emit(floor, new(big.Int).Mul(k.p, big.NewInt(3)), k.q) // composite and longer
		emit(floor, k.p, new(big.Int).Rsh(k.q, 1))           // shorter factor
		emit(3072, k.p, k.q)                                 // floor of fresh keys
		emit(2048, k.p, k.q)                                 // legacy floor
		o := keys[(i+1)%len(keys)]
		emit(floor, k.p, o.q) // factors of different keys (valid iff equal lengths)
		// public key floor, from N alone
		for _, fl := range []int{2048, 3072} {
			res := safely(func() string {
				_, err := c16PublicFromN(k.N, fl == 2048)
				return c16Err(err)
			})
			c.Emit(fmt.Sprintf("newpk %d %s", fl, hexNat(k.N)), res)
		}
	}
	// below every floor: 1024-bit primes from a 2046-bit sample, and a 2040-bit modulus
	for _, bits := range []uint{2040, 1024} {
		res := safely(func() string {
			g, err := znstar.SamplePaillierGroup(bits, &lockedReader{r: r})
			if err != nil {
				return "gen-" + c16Err(err)
			}
			ar := g.Arithmetic()
			p, q := ar.P.Factor.Nat().Big(), ar.Q.Factor.Nat().Big()
			emit(2048, p, q)
			emit(3072, p, q)
			n := new(big.Int).Mul(p, q)
			for _, fl := range []int{2048, 3072} {
				res := safely(func() string {
					_, err := c16PublicFromN(n, fl == 2048)
					return c16Err(err)
				})
				c.Emit(fmt.Sprintf("newpk %d %s", fl, hexNat(n)), res)
			}
			return "ok"
		})
		if res != "ok" {
			c.Violation(fmt.Sprintf("SamplePaillierGroup(%d) failed: %s", bits, res))
		}
	}
}

// ---------------------------------------------------------------- constructors and ranges

func c16Constructors(c *Ctx, r *Rng, k *c16Key) {
	one := big.NewInt(1)
	N := k.N
	nHex := hexNat(N)
	half := new(big.Int).Rsh(N, 1) // (N-1)/2 for odd N
	add := func(a *big.Int, d int64) *big.Int { return new(big.Int).Add(a, big.NewInt(d)) }
	neg := func(a *big.Int) *big.Int { return new(big.Int).Neg(a) }

	// plaintext range
	pts := []*big.Int{big.NewInt(0), one, add(N, -1), N, add(N, 1), half, add(half, 1), new(big.Int).Lsh(N, 1), r.BigBelow(N), new(big.Int).Add(N, r.BigBelow(N))}
	for _, v := range pts {
		res := safely(func() string {
			p, err := paillier.NewPlaintextFromNat(c16Nat(v), k.nPlus)
			if err != nil {
				return c16Err(err)
			}
			return "ok:" + hexNat(ptBig(p))
		})
		c.Emit(fmt.Sprintf("newpt %s %s", nHex, hexNat(v)), res)
		c.Count("newpt." + strings.SplitN(res, ":", 2)[0])
	}
	// nonce group membership
	ncs := []*big.Int{one, add(N, -1), k.p, k.q, N, add(N, 1), new(big.Int).Mul(k.p, big.NewInt(2)), new(big.Int).Add(N, k.q), r.BigBelow(N), new(big.Int).Add(N, k.randUnit(r)), new(big.Int).Mul(k.q, r.BigBelow(k.p))}
	for _, v := range ncs {
		if v.Sign() == 0 {
			continue
		}
		for _, path := range []string{"pk", "sk"} {
			res := safely(func() string {
				var n *paillier.Nonce
				var err error
				if path == "sk" {
					n, err = paillier.NewNonce(k.sk.Group(), c16NatPlus(v))
				} else {
					n, err = paillier.NewNonce(k.pk.Group(), c16NatPlus(v))
				}
				if err != nil {
					return c16Err(err)
				}
				return "ok:" + hexNat(ncBig(n))
			})
			c.Emit(fmt.Sprintf("newnonce %s %s", nHex, hexNat(v)), res)
			c.Count("newnonce." + strings.SplitN(res, ":", 2)[0])
		}
	}
	// ciphertext group membership
	cts := []*big.Int{one, add(k.NN, -1), N, k.p, k.q, new(big.Int).Mul(N, k.p), add(N, 1), add(k.NN, 1), new(big.Int).Add(k.NN, k.p), r.BigBelow(k.NN), new(big.Int).Mul(k.p, r.BigBelow(N))}
	for _, v := range cts {
		if v.Sign() == 0 {
			continue
		}
		res := safely(func() string {
			ct, err := paillier.NewCiphertext(k.pk.Group(), c16NatPlus(v))
			if err != nil {
				return c16Err(err)
			}
			return "ok:" + hexNat(ctBig(ct))
		})
		c.Emit(fmt.Sprintf("newct %s %s", nHex, hexNat(v)), res)
		c.Count("newct." + strings.SplitN(res, ":", 2)[0])
	}
	// symmetric range: both ends, one beyond, random
	syms := []*big.Int{big.NewInt(0), one, big.NewInt(-1), half, neg(half), add(half, 1), neg(add(half, 1)), add(half, -1), neg(add(half, -1)), N, neg(N),
		new(big.Int).Sub(r.BigBelow(N), half), new(big.Int).Sub(r.BigBelow(N), half), new(big.Int).Sub(r.BigBelow(new(big.Int).Lsh(N, 1)), N)}
	for _, x := range syms {
		res := safely(func() string {
			p, err := paillier.NewPlaintextSymmetric(c16Int(x), k.nPlus)
			if err != nil {
				return c16Err(err)
			}
			// round trip through Normalise
			back := p.Normalise().Big()
			if back.Cmp(x) != 0 {
				c.Violation(fmt.Sprintf("Normalise(NewPlaintextSymmetric(x)) != x N=%s x=%s got=%s", nHex, hexInt(x), hexInt(back)))
			}
			return "ok:" + hexNat(ptBig(p))
		})
		c.Emit(fmt.Sprintf("sym %s %s", nHex, hexInt(x)), res)
		c.Count("sym." + strings.SplitN(res, ":", 2)[0])
	}
	norms := []*big.Int{big.NewInt(0), one, add(N, -1), half, add(half, 1), add(half, -1), r.BigBelow(N), r.BigBelow(N)}
	for _, m := range norms {
		res := safely(func() string {
			p := k.ptOf(m)
			x := p.Normalise()
			// and back
			p2, err := paillier.NewPlaintextSymmetric(x, k.nPlus)
			if err != nil {
				c.Violation(fmt.Sprintf("NewPlaintextSymmetric(Normalise(m)) rejected N=%s m=%s: %s", nHex, hexNat(m), c16Err(err)))
			} else if !p2.Equal(p) {
				c.Violation(fmt.Sprintf("NewPlaintextSymmetric(Normalise(m)) != m N=%s m=%s", nHex, hexNat(m)))
			}
			return "ok:" + hexInt(x.Big())
		})
		c.Emit(fmt.Sprintf("norm %s %s", nHex, hexNat(m)), res)
		c.Count("norm")
	}
}

// ---------------------------------------------------------------- encryption / decryption

func (k *c16Key) emitDecOpen(c *Ctx, ct *paillier.Ciphertext, wantM, wantR *big.Int) {
	cv := ctBig(ct)
	lhs := fmt.Sprintf("%s %s %s %s", hexNat(k.p), hexNat(k.q), hexNat(ct.Value().N().Big()), hexNat(cv))
	if k.ctx != nil {
		g := newGuard(k.ctx, "paillier.sk.Decrypt+Open")
		g.val("ciphertext", func() string { return snapCt(ct) })
		defer g.done()
	}
	res := safely(func() string {
		m, err := k.sk.Decrypt(ct)
		if err != nil {
			return c16Err(err)
		}
		if wantM != nil && ptBig(m).Cmp(wantM) != 0 {
			c.Violation(fmt.Sprintf("Decrypt returned a different plaintext p=%s q=%s c=%s want=%s got=%s", hexNat(k.p), hexNat(k.q), hexNat(cv), hexNat(wantM), hexNat(ptBig(m))))
		}
		return "ok:" + hexNat(ptBig(m))
	})
	c.Emit("dec "+lhs, res)
	c.Count("dec")
	res = safely(func() string {
		m, n, err := k.sk.Open(ct)
		if err != nil {
			return c16Err(err)
		}
		if wantM != nil && (ptBig(m).Cmp(wantM) != 0 || (wantR != nil && ncBig(n).Cmp(wantR) != 0)) {
			c.Violation(fmt.Sprintf("Open returned a different opening p=%s q=%s c=%s want=%s got=%s", hexNat(k.p), hexNat(k.q), hexNat(cv), hexList(wantM, wantR), hexList(ptBig(m), ncBig(n))))
		}
		// independent oracle: re-encryption under the public path
		back, err := k.ops("pk").EncryptWithNonce(m, n)
		if err != nil || !back.Equal(ct) {
			c.Violation(fmt.Sprintf("Open: re-encryption differs p=%s q=%s c=%s opened=%s", hexNat(k.p), hexNat(k.q), hexNat(cv), hexList(ptBig(m), ncBig(n))))
		}
		return "ok:" + hexList(ptBig(m), ncBig(n))
	})
	c.Emit("open "+lhs, res)
	c.Count("open")
}

func c16Encrypt(c *Ctx, r *Rng, k *c16Key, prng io.Reader) {
	one := big.NewInt(1)
	N := k.N
	nHex := hexNat(N)
	half := new(big.Int).Rsh(N, 1)
	nm1 := new(big.Int).Sub(N, one)
	pts := []*big.Int{big.NewInt(0), one, nm1, half, new(big.Int).Add(half, one), r.BigBelow(N)}
	ncs := []*big.Int{one, nm1, k.randUnit(r)}
	extra := 2
	if c.Thorough() {
		extra = 10
	}
	type pair struct{ m, r *big.Int }
	var cases []pair
	for _, m := range pts {
		for _, n := range ncs {
			cases = append(cases, pair{m, n})
		}
	}
	for i := 0; i < extra; i++ {
		cases = append(cases, pair{r.BigBelow(N), k.randUnit(r)})
	}
	// small plaintexts / small nonces (short operands through the CRT path)
	cases = append(cases, pair{big.NewInt(int64(2 + r.IntN(1000))), big.NewInt(2)}, pair{r.BigBelow(N), big.NewInt(int64(3 + 2*r.IntN(1000)))})
	for i, cs := range cases {
		var cts [2]*big.Int
		var last *paillier.Ciphertext
		for j, path := range []string{"pk", "sk"} {
			res := safely(func() string {
				ct, err := k.ops(path).EncryptWithNonce(k.ptOf(cs.m), k.nonceOf(cs.r))
				if err != nil {
					return c16Err(err)
				}
				cts[j] = ctBig(ct)
				last = ct
				return "ok:" + hexNat(cts[j])
			})
			c.Emit(fmt.Sprintf("enc %s %s %s %s", path, nHex, hexNat(cs.m), hexNat(cs.r)), res)
			c.Count("enc." + path)
		}
		if cts[0] == nil || cts[1] == nil || cts[0].Cmp(cts[1]) != 0 {
			c.Violation(fmt.Sprintf("secret-key and public-key encryption differ N=%s m=%s r=%s", nHex, hexNat(cs.m), hexNat(cs.r)))
		}
		if last != nil && (i%3 == 0 || c.Thorough()) {
			k.emitDecOpen(c, last, cs.m, cs.r)
		}
	}
	// Representative / IdentityNoise separately
	for _, m := range []*big.Int{big.NewInt(0), one, nm1, r.BigBelow(N)} {
		for _, path := range []string{"pk", "sk"} {
			res := safely(func() string {
				ct, err := k.ops(path).Representative(k.ptOf(m))
				if err != nil {
					return c16Err(err)
				}
				return "ok:" + hexNat(ctBig(ct))
			})
			c.Emit(fmt.Sprintf("rep %s %s %s", path, nHex, hexNat(m)), res)
		}
	}
	for _, n := range []*big.Int{one, nm1, k.randUnit(r)} {
		for _, path := range []string{"pk", "sk"} {
			res := safely(func() string {
				ct, err := k.ops(path).IdentityNoise(k.nonceOf(n))
				if err != nil {
					return c16Err(err)
				}
				return "ok:" + hexNat(ctBig(ct))
			})
			c.Emit(fmt.Sprintf("noise %s %s %s", path, nHex, hexNat(n)), res)
		}
	}
	// encryption.Encrypt with a sampled nonce (both key kinds); the nonce goes into the line
	for _, path := range []string{"pk", "sk"} {
		m := r.BigBelow(N)
		var usedR *big.Int
		var ctOut *paillier.Ciphertext
		res := safely(func() string {
			var ct *paillier.Ciphertext
			var n *paillier.Nonce
			var err error
			if path == "sk" {
				ct, n, err = encryption.Encrypt(k.ptOf(m), k.sk, prng)
			} else {
				ct, n, err = encryption.Encrypt(k.ptOf(m), k.pk, prng)
			}
			if err != nil {
				return c16Err(err)
			}
			usedR = ncBig(n)
			ctOut = ct
			return "ok:" + hexNat(ctBig(ct))
		})
		if usedR == nil {
			c.Violation(fmt.Sprintf("encryption.Encrypt failed path=%s N=%s: %s", path, nHex, res))
			continue
		}
		c.Emit(fmt.Sprintf("enc %s %s %s %s", path, nHex, hexNat(m), hexNat(usedR)), res)
		c.Count("enc.sampled")
		k.emitDecOpen(c, ctOut, m, usedR)
	}
	// out-of-range plaintexts and non-unit nonces at the encryption entry point
	bad := []pair{{N, one}, {new(big.Int).Add(N, one), one}, {one, k.p}, {one, k.q}, {one, N}, {nm1, new(big.Int).Add(N, big.NewInt(2))}}
	for _, cs := range bad {
		for _, path := range []string{"pk", "sk"} {
			res := safely(func() string {
				pt, err := paillier.NewPlaintextFromNat(c16Nat(cs.m), k.nPlus)
				if err != nil {
					return c16Err(err)
				}
				nc, err := paillier.NewNonce(k.pk.Group(), c16NatPlus(cs.r))
				if err != nil {
					return c16Err(err)
				}
				ct, err := k.ops(path).EncryptWithNonce(pt, nc)
				if err != nil {
					return c16Err(err)
				}
				return "ok:" + hexNat(ctBig(ct))
			})
			c.Emit(fmt.Sprintf("enc %s %s %s %s", path, nHex, hexNat(cs.m), hexNat(cs.r)), res)
			c.Count("enc.invalid")
		}
	}
	// arbitrary units of Z*_{N^2} (not produced by Encrypt) decrypt and open as well
	nArb := 2
	if c.Thorough() {
		nArb = 8
	}
	for i := 0; i < nArb; i++ {
		v := k.randUnitNN(r)
		if i == 0 {
			v = new(big.Int).Sub(k.NN, one)
		}
		ct, err := paillier.NewCiphertext(k.pk.Group(), c16NatPlus(v))
		if err != nil {
			c.Violation(fmt.Sprintf("NewCiphertext rejected a unit N=%s v=%s", nHex, hexNat(v)))
			continue
		}
		k.emitDecOpen(c, ct, nil, nil)
	}
}

// ---------------------------------------------------------------- homomorphic chains

func (k *c16Key) randScalar(r *Rng) *big.Int {
	var s *big.Int
	switch r.IntN(9) {
	case 0:
		s = big.NewInt(0)
	case 1:
		s = big.NewInt(1)
	case 2:
		s = big.NewInt(-1)
	case 3:
		s = big.NewInt(int64(r.IntN(1<<20)) - 1<<19)
	case 4:
		s = new(big.Int).Add(k.N, r.BigBelow(k.N)) // > N
	case 5:
		s = new(big.Int).Neg(new(big.Int).Add(k.N, r.BigBelow(k.N))) // < -N
	case 6:
		s = new(big.Int).Add(k.NN, r.BigBelow(k.NN)) // > N^2 (beyond the group order)
	case 7:
		s = new(big.Int).Set(k.N)
	default:
		s = new(big.Int).Sub(r.BigBelow(k.N), new(big.Int).Rsh(k.N, 1))
	}
	return s
}

func (k *c16Key) freshTriple(path string, r *Rng) *c16Triple {
	var m *big.Int
	switch r.IntN(6) {
	case 0:
		m = big.NewInt(0)
	case 1:
		m = new(big.Int).Sub(k.N, big.NewInt(1))
	case 2:
		m = new(big.Int).Rsh(k.N, 1)
	default:
		m = r.BigBelow(k.N)
	}
	pt, nc := k.ptOf(m), k.nonceOf(k.randUnit(r))
	ct, err := k.ops(path).EncryptWithNonce(pt, nc)
	if err != nil {
		panic(fmt.Sprintf("EncryptWithNonce: %v", err))
	}
	return &c16Triple{pt, nc, ct}
}

// c16Step applies one homomorphic operation to t through the given key path and returns the
// line's operand text and the resulting triple (all three components computed by the library).
func (k *c16Key) c16Step(c *Ctx, r *Rng, path string, t *c16Triple) (kind, operands string, out *c16Triple, err error) {
	o := k.ops(path)
	switch r.IntN(6) {
	case 0, 1: // CiphertextOp with 1..3 further ciphertexts
		n := 1 + r.IntN(3)
		// the operands live in arrays with 0..2 further LIVE elements behind the window that is
		// passed as the variadic argument (sub-slice xs[1:n] with n < len <= cap)
		total := n + r.IntN(3)
		others := make([]*c16Triple, total)
		ms, rs, cs := make([]string, n), make([]string, n), make([]string, n)
		pts, ncs, cts := make([]*paillier.Plaintext, total, total+1), make([]*paillier.Nonce, total, total+1), make([]*paillier.Ciphertext, total, total+1)
		for i := range others {
			otherPath := []string{"pk", "sk"}[r.IntN(2)]
			others[i] = k.freshTriple(otherPath, r)
			if i == 0 && r.IntN(8) == 0 {
				others[i] = t // squaring
			}
			pts[i], ncs[i], cts[i] = others[i].pt, others[i].nc, others[i].ct
			if i < n {
				ms[i], rs[i], cs[i] = hexNat(ptBig(pts[i])), hexNat(ncBig(ncs[i])), hexNat(ctBig(cts[i]))
			}
		}
		if total > n {
			c.Count("hom.op.subslice")
		}
		kind = "op"
		operands = joinComma(ms) + " " + joinComma(rs) + " " + joinComma(cs)
		out = &c16Triple{}
		if out.ct, err = o.CiphertextOp(t.ct, cts[0], cts[1:n]...); err != nil {
			return
		}
		if out.pt, err = o.PlaintextOp(t.pt, pts[0], pts[1:n]...); err != nil {
			return
		}
		out.nc, err = o.NonceOp(t.nc, ncs[0], ncs[1:n]...)
		for i := range others {
			if cts[i] != others[i].ct || pts[i] != others[i].pt || ncs[i] != others[i].nc {
				c.Violation(fmt.Sprintf("input-mutated operand array slot %d replaced by a homomorphic product path=%s", i, path))
			}
		}
	case 2:
		kind = "inv"
		out = &c16Triple{}
		if out.ct, err = o.CiphertextOpInv(t.ct); err != nil {
			return
		}
		if out.pt, err = o.PlaintextOpInv(t.pt); err != nil {
			return
		}
		out.nc, err = o.NonceOpInv(t.nc)
	case 3:
		s := k.randScalar(r)
		kind = "scal"
		operands = hexInt(s)
		k.countScalar(c, s)
		si := c16Int(s)
		out = &c16Triple{}
		if out.ct, err = o.CiphertextScalarOp(t.ct, si); err != nil {
			return
		}
		if out.pt, err = o.PlaintextScalarOp(t.pt, si); err != nil {
			return
		}
		out.nc, err = o.NonceScalarOp(t.nc, si)
	case 4:
		d := r.BigBelow(k.N)
		if r.IntN(4) == 0 {
			d = new(big.Int).Sub(k.N, ptBig(t.pt)) // shift to zero
			d.Mod(d, k.N)
		}
		kind = "shift"
		operands = hexNat(d)
		dp := k.ptOf(d)
		out = &c16Triple{nc: t.nc}
		if out.ct, err = o.Shift(t.ct, dp); err != nil {
			return
		}
		out.pt, err = o.PlaintextOp(t.pt, dp)
	default:
		s := k.randUnit(r)
		kind = "rerand"
		operands = hexNat(s)
		sn := k.nonceOf(s)
		out = &c16Triple{pt: t.pt}
		if out.ct, err = o.ReRandomise(t.ct, sn); err != nil {
			return
		}
		out.nc, err = o.NonceOp(t.nc, sn)
	}
	return
}

func (k *c16Key) countScalar(c *Ctx, s *big.Int) {
	abs := new(big.Int).Abs(s)
	switch {
	case s.Sign() < 0:
		c.Count("scalar.negative")
	case s.Sign() == 0:
		c.Count("scalar.zero")
	case s.Cmp(k.N) < 0:
		c.Count("scalar.small")
	}
	switch {
	case abs.BitLen() > k.NN.BitLen():
		c.Count("scalar.longer-than-NN")
	case abs.Cmp(k.NN) >= 0:
		c.Count("scalar.geNN")
	case abs.Cmp(k.N) >= 0:
		c.Count("scalar.geN")
	}
}

// c16ScalarSweep forces every scalar class through both key paths (the random chains only sample them).
func c16ScalarSweep(c *Ctx, r *Rng, k *c16Key) {
	nHex := hexNat(k.N)
	big1 := big.NewInt(1)
	scalars := []*big.Int{
		big.NewInt(0), big1, big.NewInt(-1),
		new(big.Int).Neg(new(big.Int).Add(k.N, r.BigBelow(k.N))),
		new(big.Int).Add(k.N, r.BigBelow(k.N)),
		new(big.Int).Add(k.NN, r.BigBelow(k.NN)),
	}
	scalars = append(scalars, k.c16LongScalars(r)...)
	for _, path := range []string{"pk", "sk"} {
		o := k.ops(path)
		for _, s := range scalars {
			k.countScalar(c, s)
			t := k.freshTriple(path, r)
			si := c16Int(s)
			var out c16Triple
			res := safely(func() string {
				var err error
				if out.ct, err = o.CiphertextScalarOp(t.ct, si); err != nil {
					return c16Err(err)
				}
				if out.pt, err = o.PlaintextScalarOp(t.pt, si); err != nil {
					return c16Err(err)
				}
				if out.nc, err = o.NonceScalarOp(t.nc, si); err != nil {
					return c16Err(err)
				}
				return "ok:" + hexList(ctBig(out.ct), ptBig(out.pt), ncBig(out.nc))
			})
			c.Emit(fmt.Sprintf("hom %s %s scal %s %s", path, nHex, t.String(), hexInt(s)), res)
			c.Count("hom.scal.sweep." + path)
			if strings.HasPrefix(res, "ok:") && s.Sign() < 0 {
				k.emitDecOpen(c, out.ct, ptBig(out.pt), ncBig(out.nc))
			}
		}
	}
}

func c16Chains(c *Ctx, r *Rng, k *c16Key) {
	chains, steps := 3, 6
	if c.Thorough() {
		chains, steps = 12, 10
	}
	c16ScalarSweep(c, r, k)
	nHex := hexNat(k.N)
	for ch := 0; ch < chains; ch++ {
		path := []string{"pk", "sk"}[ch%2]
		t := k.freshTriple(path, r)
		for st := 0; st < steps; st++ {
			if st > 0 && (r.IntN(2) == 0 || st == steps/2) {
				// mixed paths inside one chain: the tracked (m, r, c) moves between the
				// public-key and the secret-key (CRT) implementation of the operations
				if path == "pk" {
					path = "sk"
				} else {
					path = "pk"
				}
				c.Count("chain.path-switch")
			}
			var kind, operands string
			var out *c16Triple
			before := t.String()
			res := safely(func() string {
				var err error
				kind, operands, out, err = k.c16Step(c, r, path, t)
				if err != nil {
					return c16Err(err)
				}
				return "ok:" + hexList(ctBig(out.ct), ptBig(out.pt), ncBig(out.nc))
			})
			lhs := fmt.Sprintf("hom %s %s %s %s", path, nHex, kind, before)
			if operands != "" {
				lhs += " " + operands
			}
			c.Emit(lhs, res)
			c.Count("hom." + kind + "." + path)
			if !strings.HasPrefix(res, "ok:") || out == nil {
				c.Violation(fmt.Sprintf("homomorphic operation failed on valid inputs: %s => %s", lhs, res))
				break
			}
			t = out
			if st == steps-1 {
				c.Count(fmt.Sprintf("chain.len%d", steps))
			}
			// the tracked plaintext/nonce must be what the secret key recovers from the ciphertext
			if st == steps-1 || r.IntN(2) == 0 || c.Thorough() {
				k.emitDecOpen(c, t.ct, ptBig(t.pt), ncBig(t.nc))
			}
		}
	}
}

// ---------------------------------------------------------------- foreign-group inputs

func c16Foreign(c *Ctx, r *Rng, k, other *c16Key) {
	if other.N.Cmp(k.N) == 0 {
		return
	}
	t := other.freshTriple("pk", r)
	// a ciphertext of another key's group is outside this key's Z*_{N^2}
	k.emitDecOpen(c, t.ct, nil, nil)
	c.Count("dec.foreign")
}
