// c04_tree.go — C04: leaves of an encoded round message and the mutation operators of the tamper matrix.
//
// A message is the CBOR encoding of the library's round-message struct (serde.MarshalCBOR). Its tree
// is parsed with the tiny CBOR reader of c12_mut.go (same package). A *site* is a node of the tree:
//   leaf sites   byte strings, text strings, integers, simple values        path a.b[2].c
//   array sites  every array node (operators on its length)                 path a.b[]
//   map sites    every map node (operator: delete one field)                path a.b{}
//   the message  path "msg" (drop / replay / parallel-session replay)
// Path syntax: text map keys joined by '.', array positions `[i]`, CBOR tags are transparent, integer
// map keys `#k`. The Lean check graph matches paths with every `[i]` normalised to `[*]`.
//
// Operators (the <op> token of a line):
//   flip0 flipm flipl   flip one bit of the first / a middle / the last content byte (ints: xor 1, 2^k)
//   zero                all content bytes zero (ints: 0)
//   cut                 drop the last content byte            ext1   append a zero byte
//   par                 the same site of the same message in a parallel session (other seeds)
//   replay              the same site of the corresponding message of ANOTHER sender
//   swapr               the same site of the same sender's message to another recipient (unicasts)
//   swapf               exchange with the next sibling site of the same CBOR shape in the same container
//   trunc / dup         arrays: remove the last element / repeat the last element
//   delkey              maps: remove the last field
//   reenc               re-encode the head of the site with a longer-than-needed argument (same value)
//   drop                the message is not delivered
//   pshift pscale vswap vcopy / ushift uscale uswap     relational: two sites together (c04_rel.go)
// Long arrays (more than c04MaxKids elements) are sampled at positions 0, 1 and last.

package main

import (
	"bytes"
	"fmt"
	"sort"
	"strconv"
	"strings"

	"github.com/bronlabs/bron-crypto/pkg/base/serde"
)

const c04MaxKids = 4

type c04Site struct {
	path string
	node *c12Node
	// parent container and position (for swapf): parent.kids[pos]
	parent *c12Node
	pos    int
}

func c04KeyStr(k *c12Node) string {
	switch k.major {
	case 3:
		return string(k.data)
	case 0:
		return "#" + strconv.FormatUint(k.arg, 10)
	case 1:
		return "#-" + strconv.FormatUint(k.arg+1, 10)
	case 2:
		return "#x" + fmt.Sprintf("%x", k.data)
	}
	return "#?"
}

// c04Sites lists the sites of a tree in document order.
func c04Sites(root *c12Node) []c04Site {
	var out []c04Site
	var walk func(n *c12Node, path string, parent *c12Node, pos int)
	walk = func(n *c12Node, path string, parent *c12Node, pos int) {
		switch n.major {
		case 6:
			walk(n.kids[0], path, parent, pos)
		case 4:
			out = append(out, c04Site{path + "[]", n, parent, pos})
			idx := make([]int, 0, len(n.kids))
			if len(n.kids) > c04MaxKids {
				idx = append(idx, 0, 1, len(n.kids)-1)
			} else {
				for i := range n.kids {
					idx = append(idx, i)
				}
			}
			for _, i := range idx {
				walk(n.kids[i], fmt.Sprintf("%s[%d]", path, i), n, i)
			}
		case 5:
			out = append(out, c04Site{path + "{}", n, parent, pos})
			for i := 0; i+1 < len(n.kids); i += 2 {
				p := c04KeyStr(n.kids[i])
				if path != "" {
					p = path + "." + p
				}
				walk(n.kids[i+1], p, n, i+1)
			}
		default:
			if path == "" {
				path = "val"
			}
			out = append(out, c04Site{path, n, parent, pos})
		}
	}
	walk(root, "", nil, 0)
	return out
}

func c04FindSite(root *c12Node, path string) (c04Site, bool) {
	for _, s := range c04Sites(root) {
		if s.path == path {
			return s, true
		}
	}
	return c04Site{}, false
}

// c04NormPath replaces every array position by `*`.
func c04NormPath(p string) string {
	var b strings.Builder
	for i := 0; i < len(p); i++ {
		if p[i] == '[' {
			j := strings.IndexByte(p[i:], ']')
			if j > 1 {
				b.WriteString("[*]")
				i += j
				continue
			}
		}
		b.WriteByte(p[i])
	}
	return b.String()
}

// c04StratPath is the path as a sampling stratum: position 0 and the later positions of every array
// are different strata (`[0]` / `[+]`) — a check that covers only the first component of a vector
// must meet a tampering of a later one.
func c04StratPath(p string) string {
	var b strings.Builder
	for i := 0; i < len(p); i++ {
		if p[i] == '[' {
			j := strings.IndexByte(p[i:], ']')
			if j > 1 {
				if p[i+1:i+j] == "0" {
					b.WriteString("[0]")
				} else {
					b.WriteString("[+]")
				}
				i += j
				continue
			}
		}
		b.WriteByte(p[i])
	}
	return b.String()
}

func c04IsLeaf(n *c12Node) bool { return n.major != 4 && n.major != 5 && n.major != 6 }

// c04OpsFor lists the operators applicable to a site (before looking at donors).
func c04OpsFor(s c04Site, unicast bool) []string {
	n := s.node
	switch {
	case n.major == 4:
		ops := []string{"reenc", "replay", "par"}
		if len(n.kids) > 0 {
			ops = append(ops, "trunc", "dup")
		}
		return ops
	case n.major == 5:
		if len(n.kids) >= 2 {
			return []string{"delkey"}
		}
		return nil
	case n.major == 2 || n.major == 3:
		ops := []string{"par", "replay", "swapf", "reenc", "ext1"}
		if len(n.data) > 0 {
			ops = append(ops, "flip0", "flipm", "flipl", "zero", "cut")
		}
		if unicast {
			ops = append(ops, "swapr")
		}
		return ops
	case n.major == 0 || n.major == 1:
		ops := []string{"flip0", "flipl", "zero", "par", "replay", "reenc"}
		if unicast {
			ops = append(ops, "swapr")
		}
		return ops
	default:
		return []string{"zero"}
	}
}

// c04Donors are the trees the cross-message operators take their values from (nil when absent).
type c04Donors struct {
	par, replay, swapr *c12Node
}

// c04Apply returns the mutated encoding of the message, or ok=false when the operator does not
// apply (no donor, no sibling, or the result equals the original bytes).
func c04Apply(orig []byte, path, op string, d c04Donors) (out []byte, ok bool) {
	root, rest, pok := c12Parse(orig)
	if !pok || len(rest) != 0 {
		return nil, false
	}
	if path == "msg" {
		var donor *c12Node
		switch op {
		case "par":
			donor = d.par
		case "replay":
			donor = d.replay
		case "swapr":
			donor = d.swapr
		}
		if donor == nil {
			return nil, false
		}
		out = donor.enc()
		return out, !bytes.Equal(out, orig)
	}
	s, found := c04FindSite(root, path)
	if !found {
		return nil, false
	}
	n := s.node
	fromDonor := func(t *c12Node) bool {
		if t == nil {
			return false
		}
		ds, ok := c04FindSite(t, path)
		if !ok || ds.node.major != n.major {
			return false
		}
		*n = *ds.node.clone()
		return true
	}
	switch op {
	case "par":
		ok = fromDonor(d.par)
	case "replay":
		ok = fromDonor(d.replay)
	case "swapr":
		ok = fromDonor(d.swapr)
	case "reenc":
		n.longHead = true
		ok = true
	case "trunc":
		if n.major == 4 && len(n.kids) > 0 {
			n.kids = n.kids[:len(n.kids)-1]
			ok = true
		}
	case "dup":
		if n.major == 4 && len(n.kids) > 0 {
			n.kids = append(n.kids, n.kids[len(n.kids)-1].clone())
			ok = true
		}
	case "delkey":
		if n.major == 5 && len(n.kids) >= 2 {
			n.kids = n.kids[:len(n.kids)-2]
			ok = true
		}
	case "swapf":
		if s.parent == nil {
			return nil, false
		}
		step := 1
		if s.parent.major == 5 {
			step = 2
		}
		for j := s.pos + step; j < len(s.parent.kids); j += step {
			o := s.parent.kids[j]
			for o.major == 6 && n.major != 6 {
				o = o.kids[0]
			}
			if o.major == n.major && len(o.data) == len(n.data) && c04IsLeaf(o) {
				tmp := *n
				*n = *o
				*o = tmp
				ok = true
				break
			}
		}
	case "flip0", "flipm", "flipl", "zero", "cut", "ext1":
		switch n.major {
		case 2, 3:
			l := len(n.data)
			switch op {
			case "ext1":
				n.data = append(n.data, 0)
				ok = true
			case "cut":
				if l > 0 {
					n.data = n.data[:l-1]
					ok = true
				}
			case "zero":
				if l > 0 {
					n.data = make([]byte, l)
					ok = true
				}
			case "flip0":
				if l > 0 {
					n.data[0] ^= 0x01
					ok = true
				}
			case "flipm":
				if l > 0 {
					n.data[l/2] ^= 0x10
					ok = true
				}
			case "flipl":
				if l > 0 {
					n.data[l-1] ^= 0x01
					ok = true
				}
			}
		case 0, 1:
			switch op {
			case "flip0":
				n.arg ^= 1
				ok = true
			case "flipl":
				n.arg ^= 1 << 4
				ok = true
			case "zero":
				n.arg = 0
				ok = true
			}
		default:
			if op == "zero" {
				n.major, n.arg, n.ai = 0, 0, 0
				ok = true
			}
		}
	}
	if !ok {
		return nil, false
	}
	out = root.enc()
	return out, !bytes.Equal(out, orig)
}

// c04Canon is the canonical re-encoding of a CBOR item through the library's own decoder/encoder
// (generic data model; registered tagged types decode to their Go types and re-encode themselves).
func c04Canon(b []byte) (out []byte, ok bool) {
	defer func() {
		if e := recover(); e != nil {
			out, ok = nil, false
		}
	}()
	v, err := serde.UnmarshalCBOR[any](b)
	if err != nil {
		return nil, false
	}
	out, err = serde.MarshalCBOR[any](v)
	if err != nil {
		return nil, false
	}
	return out, true
}

// c04Changed reports whether the mutated encoding denotes another value than the original: "0" only
// when both canonicalise and the canonical forms agree.
func c04Changed(orig, mut []byte) string {
	if bytes.Equal(orig, mut) {
		return "0"
	}
	co, ok1 := c04Canon(orig)
	cm, ok2 := c04Canon(mut)
	if ok1 && ok2 && bytes.Equal(co, cm) {
		return "0"
	}
	return "1"
}

// c04PathStats counts the distinct normalised paths of a message (generator statistics).
func c04PathList(root *c12Node) []string {
	seen := map[string]bool{}
	for _, s := range c04Sites(root) {
		seen[c04NormPath(s.path)] = true
	}
	out := make([]string, 0, len(seen))
	for k := range seen {
		out = append(out, k)
	}
	sort.Strings(out)
	return out
}
