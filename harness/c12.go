package main

import (
	"bufio"
	"bytes"
	"encoding/hex"
	"fmt"
	"os"
	"reflect"
	"strconv"
	"strings"
	"sync"
	"time"

	"github.com/bronlabs/bron-crypto/pkg/base/serde"
)

func init() { register("C12", runC12) }

// c12Case describes one serialisable type: a value source, its equality and its validity predicate
// (getters + re-construction through the validating constructor; nil error = valid).
type c12Case[T any] struct {
	name  string
	gen   func(r *Rng) (T, error)
	equal func(a, b T) bool
	valid func(v T) error
	// heavy types get fewer values/mutants
	weight int
	// recogniser of the algebraic leaves (scalars / points) inside this type's encodings, for the
	// structure-preserving value edits; nil: only integer and big-number leaves are edited
	fam *c12LeafFamily
	// value generation is too slow for the quick tier (e.g. 3072-bit Paillier key generation)
	thoroughOnly bool
}

type c12Runner func(c *Ctx, r *Rng, scale int)

var c12Types []struct {
	name string
	run  c12Runner
}

func c12Register[T any](tc c12Case[T]) {
	c12Types = append(c12Types, struct {
		name string
		run  c12Runner
	}{tc.name, func(c *Ctx, r *Rng, scale int) { c12RunCase(c, r, tc, scale) }})
}

func c12IsNil(v any) bool {
	if v == nil {
		return true
	}
	if n, ok := v.(interface{ c12Nil() bool }); ok {
		return n.c12Nil()
	}
	rv := reflect.ValueOf(v)
	switch rv.Kind() {
	case reflect.Pointer, reflect.Map, reflect.Slice, reflect.Interface:
		return rv.IsNil()
	default:
		return false
	}
}

func c12Err(e any) string {
	s := fmt.Sprint(e)
	if i := strings.IndexByte(s, '\n'); i >= 0 {
		s = s[:i]
	}
	if len(s) > 160 {
		s = s[:160]
	}
	return strings.ReplaceAll(s, " ", "_")
}

// c12Decode runs the typed decoder on data; returns the canonical result string and the value.
func c12Decode[T any](data []byte) (res string, val T, ok bool) {
	res = safely(func() string {
		v, err := serde.UnmarshalCBOR[T](data)
		if err != nil {
			return "reject"
		}
		val, ok = v, true
		return "accept"
	})
	return res, val, ok
}

func c12Marshal[T any](v T) (out []byte, res string) {
	res = safely(func() string {
		b, err := serde.MarshalCBOR(v)
		if err != nil {
			return "err:" + c12Err(err)
		}
		out = b
		return "ok"
	})
	return out, res
}

func c12RunCase[T any](c *Ctx, r *Rng, tc c12Case[T], scale int) {
	if tc.thoroughOnly && scale == 1 {
		c.Count("skipped-in-quick." + tc.name)
		return
	}
	nVals, nMut := 3*scale, 70*scale
	if tc.weight > 1 {
		nVals = max(2, nVals/tc.weight)
		nMut = max(20, nMut/tc.weight)
		if scale > 1 {
			// thorough: the heavy types (shards: 3-30 kB per encoding) get half the values
			nVals = max(2, nVals/2)
		}
	}
	kinds := append(append([]string{}, c12ByteKinds...), c12TreeKinds...)
	for vi := 0; vi < nVals; vi++ {
		var v T
		gres := safely(func() string {
			x, err := tc.gen(r)
			if err != nil {
				return "err:" + c12Err(err)
			}
			v = x
			return "ok"
		})
		if gres != "ok" {
			// the generator could not build a value: a broken check, not a pass
			c.Emit(fmt.Sprintf("gen-failed %s %s", tc.name, gres), "-")
			return
		}
		c.Count("values." + tc.name)
		b1, res := c12Marshal(v)
		if res != "ok" {
			c.Violation(fmt.Sprintf("%s: marshal of a constructed value failed: %s", tc.name, res))
			continue
		}
		b2, _ := c12Marshal(v)
		if !bytes.Equal(b1, b2) {
			c.Violation(fmt.Sprintf("%s: marshal is not deterministic: %s vs %s", tc.name, hexBytes(b1), hexBytes(b2)))
		}
		dres, v2, ok := c12Decode[T](b1)
		if !ok {
			c.Violation(fmt.Sprintf("%s: unmarshal(marshal v) failed (%s) bytes=%s", tc.name, dres, hexBytes(b1)))
			continue
		}
		eq := safely(func() string {
			if tc.equal(v, v2) {
				return "eq"
			}
			return "ne"
		})
		if eq != "eq" {
			c.Violation(fmt.Sprintf("%s: unmarshal(marshal v) != v (%s) bytes=%s", tc.name, eq, hexBytes(b1)))
		}
		if verr := c12Valid(tc, v2); verr != "" {
			c.Violation(fmt.Sprintf("%s: decoded honest value fails its validity predicate: %s bytes=%s", tc.name, verr, hexBytes(b1)))
		}
		b3, res3 := c12Marshal(v2)
		if res3 != "ok" {
			c.Violation(fmt.Sprintf("%s: re-marshal failed: %s", tc.name, res3))
			continue
		}
		// the encoding must be a function of the value: decode/encode again a few times (catches
		// encodings that depend on map iteration order)
		for k := 0; k < 5 && bytes.Equal(b3, b1); k++ {
			if _, vk, okk := c12Decode[T](b1); okk {
				if bk, rk := c12Marshal(vk); rk == "ok" {
					b3 = bk
				}
			}
		}
		if !bytes.Equal(b3, b1) {
			c.Violation(fmt.Sprintf("%s: encoding is not deterministic: marshal(unmarshal(b)) != b for b=%s got %s", tc.name, hexBytes(b1), hexBytes(b3)))
		}
		c.Emit(fmt.Sprintf("canon %s %s", tc.name, hexBytes(b1)), hexBytes(b3))

		// exhaustive: every map entry (DTO field, at every level) set to null / removed; and the
		// type's own UnmarshalCBOR called directly on null-like inputs
		for _, m := range c12FieldMutants(b1) {
			c12Mutant1(c, tc, v, m)
		}
		if vi == 0 {
			c12Direct(c, tc)
		}
		// structure-preserving value edits: every scalar / point / integer leaf, one at a time
		perLeaf, sample := 2, 6
		if tc.weight > 2 {
			perLeaf, sample = 2, 3
		}
		if scale > 1 {
			perLeaf, sample = 0, 24
			if tc.weight > 1 {
				perLeaf, sample = 3, 10
			}
		}
		for _, m := range c12ValueEdits(r, b1, tc.fam, perLeaf, sample) {
			c12Mutant1(c, tc, v, m)
		}
		for mi := 0; mi < nMut; mi++ {
			kind := kinds[r.IntN(len(kinds))]
			m := c12Mutate(r, b1, kind)
			if m == nil {
				c.Count("mut.inapplicable")
				continue
			}
			c12Mutant1(c, tc, v, m)
		}
	}
}

func c12Valid[T any](tc c12Case[T], v T) string {
	return safely(func() string {
		if err := tc.valid(v); err != nil {
			return "invalid:" + c12Err(err)
		}
		return ""
	})
}

func c12Mutant1[T any](c *Ctx, tc c12Case[T], orig T, m *c12Mutant) {
	lhs := fmt.Sprintf("mut %s %s %s", tc.name, m.kind, hexBytes(m.bytes))
	res, v, ok := c12Decode[T](m.bytes)
	c.Count("mut." + m.kind + "." + strings.SplitN(res, ":", 2)[0])
	if strings.HasPrefix(res, "panic") {
		label := m.kind
		if m.label != "" {
			label = m.label
		}
		c.Violation(fmt.Sprintf("%s: decoder panicked on %s mutant %s: %s", tc.name, label, hexBytes(m.bytes), res))
		c.Emit(lhs, "reject")
		return
	}
	if !ok {
		c.Emit(lhs, "reject")
		return
	}
	if m.mustReject {
		c.Violation(fmt.Sprintf("%s: malformed container (%s) accepted: %s", tc.name, m.kind, hexBytes(m.bytes)))
	}
	if c12IsNil(any(v)) {
		// CBOR null/undefined decodes to a nil pointer without the type's decoder being involved
		c.Count("accepted.nil")
		c.Emit(lhs, "accept:f6")
		return
	}
	c.Count("accepted." + tc.name)
	if verr := c12Valid(tc, v); verr != "" {
		c.Violation(fmt.Sprintf("%s: decoder accepted an object its constructor refuses (%s): kind=%s bytes=%s", tc.name, verr, m.kind, hexBytes(m.bytes)))
	}
	if m.preserving {
		eq := safely(func() string {
			if tc.equal(orig, v) {
				return "eq"
			}
			return "ne"
		})
		if eq != "eq" {
			c.Violation(fmt.Sprintf("%s: another encoding of the same data item decoded to a different value (%s, %s): %s", tc.name, m.kind, eq, hexBytes(m.bytes)))
		}
	}
	b, mres := c12Marshal(v)
	if mres != "ok" {
		c.Violation(fmt.Sprintf("%s: accepted object cannot be marshalled (%s): kind=%s bytes=%s", tc.name, mres, m.kind, hexBytes(m.bytes)))
		c.Emit(lhs, "reject")
		return
	}
	c.Emit(lhs, "accept:"+hex.EncodeToString(b))
}

// c12Direct calls the decoder method itself (a public API) on null-like inputs.
func c12Direct[T any](c *Ctx, tc c12Case[T]) {
	var zero T
	rt := reflect.TypeOf(zero)
	if rt == nil || rt.Kind() != reflect.Pointer {
		return
	}
	for _, in := range [][]byte{{0xf6}, {0xf7}, {0xa0}, {0x80}, {0x40}, {0x00}} {
		u, ok := reflect.New(rt.Elem()).Interface().(interface{ UnmarshalCBOR([]byte) error })
		if !ok {
			return
		}
		res := safely(func() string {
			if err := u.UnmarshalCBOR(in); err != nil {
				return "reject"
			}
			return "accept"
		})
		c.Count("direct." + strings.SplitN(res, ":", 2)[0])
		if strings.HasPrefix(res, "panic") {
			c.Violation(fmt.Sprintf("%s: UnmarshalCBOR(%s) panicked: %s", tc.name, hexBytes(in), res))
			res = "reject"
		}
		if res == "accept" {
			var v T = any(u).(T)
			if verr := c12Valid(tc, v); verr != "" {
				c.Violation(fmt.Sprintf("%s: UnmarshalCBOR(%s) accepted an object its constructor refuses (%s)", tc.name, hexBytes(in), verr))
			}
			res = "accept:" + hex.EncodeToString(in)
			// the re-encoding check of `mut` lines does not apply to a direct call; emit as generic
			c.Emit("any "+hexBytes(in), "accept")
			continue
		}
		c.Emit(fmt.Sprintf("mut %s direct %s", tc.name, hexBytes(in)), res)
	}
}

// runC12: the generic part, then every registered type.  The types are independent (own Rng, own
// value sources), so they run on a small worker pool; their lines are written in registration
// order, so the stream is a function of the seed alone.
func runC12(c *Ctx) {
	scale := 1
	if c.Thorough() {
		scale = 12
	}
	c12Generic(c, scale)
	workers := 6
	if w, err := strconv.Atoi(os.Getenv("VERIF_WORKERS")); err == nil && w > 0 {
		workers = w
	}
	type result struct {
		buf   bytes.Buffer
		stats map[string]int
		dur   time.Duration
	}
	results := make([]*result, len(c12Types))
	sem := make(chan struct{}, workers)
	var wg sync.WaitGroup
	for i := range c12Types {
		results[i] = &result{stats: map[string]int{}}
		wg.Add(1)
		go func(i int) {
			defer wg.Done()
			sem <- struct{}{}
			defer func() { <-sem }()
			w := bufio.NewWriterSize(&results[i].buf, 1<<16)
			sub := &Ctx{Prop: c.Prop, Tier: c.Tier, Seed: c.Seed, Out: w, Stats: results[i].stats}
			t0 := time.Now()
			c12Types[i].run(sub, NewRng(c.Seed, 12000+uint64(i)), scale)
			_ = w.Flush()
			results[i].dur = time.Since(t0)
		}(i)
	}
	wg.Wait()
	for i, rs := range results {
		_, _ = c.Out.Write(rs.buf.Bytes())
		for k, v := range rs.stats {
			c.Stats[k] += v
		}
		if rs.dur > 5*time.Second {
			fmt.Fprintf(os.Stderr, "c12: %s took %v\n", c12Types[i].name, rs.dur)
		}
	}
}
