// c06_sign.go — C06: signing with post-epoch (or mixed-epoch) shards; validity is judged under the
// ORIGINAL public key of the history.

package main

import (
	nativeEcdsa "crypto/ecdsa"
	"crypto/sha256"
	"fmt"
	"io"

	"github.com/bronlabs/bron-crypto/pkg/base/algebra"
	"github.com/bronlabs/bron-crypto/pkg/base/curves"
	"github.com/bronlabs/bron-crypto/pkg/base/curves/pairable/bls12381"
	"github.com/bronlabs/bron-crypto/pkg/hashing"
	"github.com/bronlabs/bron-crypto/pkg/mpc"
	"github.com/bronlabs/bron-crypto/pkg/signatures/bls"
	"github.com/bronlabs/bron-crypto/pkg/signatures/ecdsa"
	vanilla "github.com/bronlabs/bron-crypto/pkg/signatures/schnorrlike/schnorr"
)

func c06Msg(seed int64, sub uint64) []byte {
	return c01Message(NewRng(seed, sub+9))
}

// c06ECDSA: DKLs23 (softspoken) with the given shards.
func c06ECDSA[P curves.Point[P, B, S], B algebra.PrimeFieldElement[B], S algebra.PrimeFieldElement[S]](h *c06Hist[P, B, S], curve ecdsa.Curve[P, B, S], sub uint64, shards map[ID]*mpc.BaseShard[P, S], q []ID, mixed bool) (string, bool, string) {
	const proto = "dkls23-softspoken"
	suite, err := ecdsa.NewSuite(curve, sha256.New)
	if err != nil {
		return proto, false, "suite-" + classify(err)
	}
	msg := c06Msg(h.seed, sub)
	ctxs := dealerContexts(q, NewRng(h.seed, sub+1))
	res := runDKLs23("softspoken", suite, shards, q, ctxs, msg, partyRngs(h.seed, sub+2, q), nil)
	if !res.Net.OK() || res.Sig == nil {
		return proto, false, fmt.Sprintf("status=%s agg=%s", res.Net.StatusStr(), res.AggStatus)
	}
	pk, err := ecdsa.NewPublicKey(h.pk0)
	if err != nil {
		return proto, false, "pk0-" + classify(err)
	}
	if vr := safely(func() string {
		vf, err := ecdsa.NewVerifier(suite)
		if err != nil {
			return "verifier-" + classify(err)
		}
		if err := vf.Verify(res.Sig, pk, msg); err != nil {
			return "library-verifier-rejects-under-original-pk"
		}
		return "ok"
	}); vr != "ok" {
		return proto, false, vr
	}
	digest, err := hashing.Hash(suite.HashFunc(), msg)
	if err != nil {
		return proto, false, "hash"
	}
	if vr := safely(func() string {
		npk, err := pk.ToElliptic()
		if err != nil {
			return "skip"
		}
		nr, ns := res.Sig.ToElliptic()
		if !nativeEcdsa.Verify(npk, digest, nr, ns) {
			return "crypto/ecdsa-rejects-under-original-pk"
		}
		return "ok"
	}); vr != "ok" && vr != "skip" {
		return proto, false, vr
	}
	if !mixed {
		m, err := ecdsa.DigestToScalar(suite.ScalarField(), digest)
		if err != nil {
			return proto, false, "digest-to-scalar"
		}
		h.o.Emit(c06Prop, fmt.Sprintf("sign-ecdsa %s %s %s %s %s %s", proto, h.g.name, pointStr(h.pk0), scalarHex(m), scalarHex(res.Sig.R()), scalarHex(res.Sig.S())), "ok")
	}
	return proto, true, ""
}

// c06Schnorr: Lindell22 with the vanilla Schnorr flavour.
func c06Schnorr[P curves.Point[P, F, S], F algebra.FiniteFieldElement[F], S algebra.PrimeFieldElement[S]](h *c06Hist[P, F, S], sub uint64, shards map[ID]*mpc.BaseShard[P, S], q []ID, mixed bool) (string, bool, string) {
	const proto = "lindell22-vanilla"
	msg := c06Msg(h.seed, sub)
	ctxs := dealerContexts(q, NewRng(h.seed, sub+1))
	mk := func(rng io.Reader) (*vanilla.Scheme[P, S], error) {
		return vanilla.NewScheme(h.g.group, sha256.New, false, false, nil, rng)
	}
	res := runLindell22(mk, shards, q, ctxs, msg, partyRngs(h.seed, sub+2, q), NewRng(h.seed, sub+3), nil, defaultCompiler)
	if !res.Net.OK() || res.Sig == nil {
		return proto, false, fmt.Sprintf("status=%s agg=%s", res.Net.StatusStr(), res.AggStatus)
	}
	// the scheme's own verifier, explicitly under the ORIGINAL public key
	if vr := safely(func() string {
		scheme, err := mk(NewRng(h.seed, sub+4))
		if err != nil {
			return "scheme-" + classify(err)
		}
		vf, err := scheme.Verifier()
		if err != nil {
			return "verifier-" + classify(err)
		}
		pk, err := vanilla.NewPublicKey(h.pk0)
		if err != nil {
			return "pk0-" + classify(err)
		}
		if err := vf.Verify(res.Sig, pk, msg); err != nil {
			return "library-verifier-rejects-under-original-pk"
		}
		return "ok"
	}); vr != "ok" {
		return proto, false, vr
	}
	if !mixed {
		h.o.Emit(c06Prop, fmt.Sprintf("sign-schnorr vanilla %s %s %s %s %s", h.g.name, pointStr(h.pk0), scalarHex(res.Sig.E), pointStr(res.Sig.R), scalarHex(res.Sig.S)), "ok")
	}
	return proto, true, ""
}

func c06SignK256(h *c06Hist[*k256Point, *k256Base, *k256Scalar], sub uint64, shards map[ID]*mpc.BaseShard[*k256Point, *k256Scalar], q []ID, mixed bool) (string, bool, string) {
	if len(q) <= 3 && h.r.IntN(2) == 0 {
		return c06ECDSA(h, cK256, sub, shards, q, mixed)
	}
	return c06Schnorr(h, sub, shards, q, mixed)
}

func c06SignEd25519(h *c06Hist[*edPoint, *edBase, *edScalar], sub uint64, shards map[ID]*mpc.BaseShard[*edPoint, *edScalar], q []ID, mixed bool) (string, bool, string) {
	return c06Schnorr(h, sub, shards, q, mixed)
}

// c06SignBLS: Boldyreva threshold BLS with short keys (pk ∈ G1).
func c06SignBLS(h *c06Hist[g1, g1f, bsc], sub uint64, shards map[ID]*mpc.BaseShard[g1, bsc], q []ID, mixed bool) (string, bool, string) {
	const proto = "boldyreva-short"
	msg := c06Msg(h.seed, sub)
	ctxs := dealerContexts(q, NewRng(h.seed, sub+1))
	res := runBoldyrevaShort(shards, q, ctxs, msg, bls.Basic, nil)
	if !res.Net.OK() || res.Sig == nil {
		return proto, false, fmt.Sprintf("status=%s agg=%s", res.Net.StatusStr(), res.AggStatus)
	}
	vr := safely(func() string {
		scheme, err := bls.NewShortKeyScheme(&bls12381.FamilyTrait{}, bls.Basic)
		if err != nil {
			return "scheme-" + classify(err)
		}
		vf, err := scheme.Verifier()
		if err != nil {
			return "verifier-" + classify(err)
		}
		pk, err := bls.NewPublicKey[g1, g1f, g2, g2f, gt, bsc](h.pk0)
		if err != nil {
			return "pk0-" + classify(err)
		}
		if err := vf.Verify(res.Sig, pk, msg); err != nil {
			return "library-verifier-rejects-under-original-pk"
		}
		return "ok"
	})
	if vr != "ok" {
		return proto, false, vr
	}
	return proto, true, ""
}
