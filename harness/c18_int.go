package main

import (
	"fmt"
	"math/big"

	"github.com/bronlabs/bron-crypto/pkg/base/nt/num"
	"github.com/bronlabs/bron-crypto/pkg/base/nt/znstar"
	"github.com/bronlabs/bron-crypto/pkg/commitments/intcom"
	"github.com/bronlabs/bron-crypto/pkg/transcripts"
	"github.com/bronlabs/bron-crypto/pkg/transcripts/hagrid"
)

// safe primes generated once (crypto/rand.Prime + ProbablyPrime(30)); the model needs no primality
const (
	c18Safe512a  = "da1dcf9809a99a85970ef8aa2d3d9a04a2fe0e3eebe29597b681e3c33e93db1c0ac44cdd13f803d35592fcfb041ac36ad3dab79b209f1bf75a63ca9866bd0563"
	c18Safe512b  = "eb0df64c885da9e4a0fe5acf4e4a04ab7d34787203ef5e86c33afd137bdb627bf3697b256c032a18df18dad8b3ab1f0023299dcd0763cbdaea5f2df0340dbd73"
	c18Safe1024a = "e2d3fb43b5a1ce17633ae5b7031e33ec8d91687ea36308882d5b23498d39cb37415bb8e94ffedefe1565770dcab115c16e07a7095c329263d380cf0c9666bee56fb66cafeb0543345da32c93fe3e0cbae313c02fb2139de6356014670af5d6703cd26bcdb2b2978ac86c29fd470491e4ca5c562727316d54fbbc51e803e32f13"
	c18Safe1024b = "d24e4a5babf82d9a1e4ad8c9de65496e3e14aabbdea13187c7de410bcfcb7231edadbfe91d86445a8207bf8f19456aed0e56816ff933f49500712cb30c33c3e5004a094f0fe37df631fb653bf2441a279a77cf09ffe10c15268b1642bb593332a099870ead7223b60b6e53a5cc2eb3ca334c13d944d50b577b46f93c53c5c897"
)

func c18Hex(s string) *big.Int { v, _ := new(big.Int).SetString(s, 16); return v }

// deterministic prime search from the stream's generator (math/big's ProbablyPrime is deterministic)
func c18Prime(r *Rng, bits int, safe bool) *big.Int {
	one := big.NewInt(1)
	for {
		q := r.BigBelow(new(big.Int).Lsh(one, uint(bits-1)))
		q.SetBit(q, bits-2, 1)
		q.SetBit(q, 0, 1)
		if !safe {
			q.SetBit(q, bits-1, 1)
			if q.ProbablyPrime(20) {
				return q
			}
			continue
		}
		if !q.ProbablyPrime(0) {
			continue
		}
		p := new(big.Int).Lsh(q, 1)
		p.Add(p, one)
		if p.ProbablyPrime(20) && q.ProbablyPrime(20) {
			return p
		}
	}
}

func c18NatPlus(v *big.Int) *num.NatPlus { x, err := num.NPlus().FromBig(v); must(err); return x }
func c18Z(v *big.Int) *num.Int          { x, err := num.Z().FromBig(v); must(err); return x }

func must(err error) {
	if err != nil {
		panic(err)
	}
}

func c18Int(c *Ctx) {
	r := NewRng(c.Seed, 1820)
	type pq struct{ p, q *big.Int }
	var groups []pq
	groups = append(groups, pq{c18Prime(r, 160, true), c18Prime(r, 160, true)})
	groups = append(groups, pq{c18Hex(c18Safe512a), c18Hex(c18Safe512b)})
	if c.Thorough() {
		groups = append(groups, pq{c18Hex(c18Safe1024a), c18Hex(c18Safe1024b)})
		groups = append(groups, pq{c18Prime(r, 128, true), c18Prime(r, 128, true)})
	}
	for gi, g := range groups {
		if g.p.Cmp(g.q) == 0 {
			continue
		}
		cases := 3
		if c.Thorough() {
			cases = 12
		}
		if gi > 0 && !c.Thorough() {
			cases = 2
		}
		res := safely(func() string { c18IntGroup(c, r, g.p, g.q, cases); return "ok" })
		if res != "ok" {
			c.Violation("intcom stream panicked: " + res)
		}
	}
}

func c18IntDom(N *big.Int, k *intcom.CommitmentKey, ops *c18Ops) *c18Dom {
	bound := new(big.Int).Lsh(N, 80)
	signed := func(r *Rng, v *big.Int) *big.Int {
		if r.IntN(2) == 0 {
			return new(big.Int).Neg(v)
		}
		return v
	}
	genInt := func(r *Rng, pBoundary int) *big.Int {
		if r.IntN(100) < pBoundary {
			switch r.IntN(8) {
			case 0:
				return big.NewInt(0)
			case 1:
				return signed(r, big.NewInt(1))
			case 2:
				return signed(r, new(big.Int).Lsh(big.NewInt(1), uint(r.IntN(N.BitLen()+90))))
			case 3:
				return signed(r, new(big.Int).Sub(N, big.NewInt(1)))
			case 4:
				return signed(r, new(big.Int).Set(N))
			case 5:
				return new(big.Int).Neg(bound) // lower end of the witness range
			case 6:
				return new(big.Int).Sub(bound, big.NewInt(1)) // upper end
			default:
				return signed(r, r.BigBelow(new(big.Int).Lsh(big.NewInt(1), uint(2*N.BitLen()+100))))
			}
		}
		return signed(r, r.BigBelow(bound))
	}
	muts := func(r *Rng, v *big.Int, all bool) []*big.Int {
		out := c18BitFlips(v, v.BitLen()+2, func(*big.Int) bool { return true })
		if v.Sign() != 0 {
			out = append(out, new(big.Int).Neg(v), big.NewInt(0))
		}
		return c18Sample(r, out, all, 24)
	}
	return &c18Dom{
		sch: "int", par: "-",
		key: bigHex(N) + "," + bigHex(k.S().Value().Big()) + "," + bigHex(k.T().Value().Big()),
		ops: ops,
		strM: func(x any) string { return bigHex(x.(*intcom.Message).Value().Big()) },
		strW: func(x any) string { return bigHex(x.(*intcom.Witness).Value().Big()) },
		strC: func(x any) string { return bigHex(x.(*intcom.Commitment).Value().Value().Big()) },
		strS: func(x any) string { return bigHex(x.(*num.Int).Big()) },
		genM: func(r *Rng) any { m, _ := intcom.NewMessage(c18Z(genInt(r, 50))); return m },
		genW: func(r *Rng) any {
			if r.IntN(3) == 0 {
				w, _ := intcom.NewWitness(c18Z(genInt(r, 60)))
				return w
			}
			w, err := k.SampleWitness(r)
			must(err)
			return w
		},
		genS: func(r *Rng) any {
			switch r.IntN(4) {
			case 0:
				return c18Z(big.NewInt(int64(r.IntN(11) - 5)))
			case 1:
				return c18Z(signed(r, new(big.Int).Lsh(big.NewInt(1), uint(r.IntN(70)))))
			default:
				return c18Z(signed(r, r.BigBelow(new(big.Int).Lsh(big.NewInt(1), 128))))
			}
		},
		mutM: func(r *Rng, x any, all bool) []any {
			var out []any
			for _, y := range muts(r, x.(*intcom.Message).Value().Big(), all) {
				m, _ := intcom.NewMessage(c18Z(y))
				out = append(out, m)
			}
			return out
		},
		mutW: func(r *Rng, x any, all bool) []any {
			var out []any
			for _, y := range muts(r, x.(*intcom.Witness).Value().Big(), all) {
				w, _ := intcom.NewWitness(c18Z(y))
				out = append(out, w)
			}
			return out
		},
		mutC: func(r *Rng, x any) []any {
			v := x.(*intcom.Commitment).Value()
			var out []any
			for _, y := range []*znstar.RSAGroupElementUnknownOrder{
				v.Mul(k.S()), v.Mul(k.T()), v.Inv(), v.Mul(v), k.Group().One(), k.T().ExpI(c18Z(r.BigBelow(N))),
			} {
				cm, _ := intcom.NewCommitment(y)
				out = append(out, cm)
			}
			return out
		},
		emitMut: 2,
	}
}

func c18IntGroup(c *Ctx, r *Rng, p, q *big.Int, cases int) {
	N := new(big.Int).Mul(p, q)
	ord := new(big.Int).Mul(new(big.Int).Rsh(p, 1), new(big.Int).Rsh(q, 1))
	group, err := znstar.NewRSAGroup(c18NatPlus(p), c18NatPlus(q))
	if err != nil {
		c.Violation("znstar.NewRSAGroup refused safe primes")
		return
	}
	zOrd, err := num.NewZMod(c18NatPlus(ord))
	must(err)

	mkTrapdoor := func(t *znstar.RSAGroupElementKnownOrder, lam *big.Int) (*intcom.TrapdoorKey, string) {
		l, err := zOrd.FromBig(lam)
		must(err)
		tk, err := intcom.NewTrapdoorKey(t, l)
		if err != nil {
			return nil, ""
		}
		return tk, bigHex(N) + "," + bigHex(t.Value().Big()) + "," + bigHex(lam) + "," + bigHex(ord)
	}
	unitLam := func() *big.Int {
		for {
			l := r.BigBelow(ord)
			if l.Cmp(big.NewInt(1)) > 0 && new(big.Int).GCD(nil, nil, l, ord).Cmp(big.NewInt(1)) == 0 {
				return l
			}
		}
	}
	t, err := group.RandomQuadraticResidue(r)
	must(err)
	for new(big.Int).GCD(nil, nil, new(big.Int).Sub(t.Value().Big(), big.NewInt(1)), N).Cmp(big.NewInt(1)) != 0 {
		t, err = group.RandomQuadraticResidue(r)
		must(err)
	}
	lam := unitLam()
	tk, tkey := mkTrapdoor(t, lam)
	if tk == nil {
		c.Violation("intcom.NewTrapdoorKey refused a generator of QR(N) and a unit lambda")
		return
	}
	c.Emit("tkey int - "+tkey, bigHex(tk.S().Value().Big()))
	pub := tk.Export()
	if !pub.S().Equal(tk.S()) || !pub.T().Equal(tk.T()) {
		c.Violation("intcom TrapdoorKey.Export changed the generators")
	}
	pubDom := c18IntDom(N, pub, c18Adapt(pub))
	tdDom := c18IntDom(N, pub, c18Adapt(tk))

	// changed keys (through the trapdoor constructor): s changed (lambda+k), t changed (t^2, lambda/2)
	var alts []*c18Dom
	for k := int64(1); k < 4; k++ {
		l2 := new(big.Int).Add(lam, big.NewInt(k))
		l2.Mod(l2, ord)
		if new(big.Int).GCD(nil, nil, l2, ord).Cmp(big.NewInt(1)) != 0 || l2.Cmp(big.NewInt(1)) <= 0 {
			continue
		}
		if tk2, _ := mkTrapdoor(t, l2); tk2 != nil {
			k2 := tk2.Export()
			alts = append(alts, c18IntDom(N, k2, c18Adapt(k2)))
			break
		}
	}
	half := new(big.Int).ModInverse(big.NewInt(2), ord)
	l3 := new(big.Int).Mul(lam, half)
	l3.Mod(l3, ord)
	if l3.Cmp(big.NewInt(1)) > 0 {
		if tk3, _ := mkTrapdoor(t.Mul(t), l3); tk3 != nil {
			k3 := tk3.Export()
			if !k3.S().Equal(pub.S()) {
				c.Violation("intcom: (t^2)^(lambda/2) differs from t^lambda")
			}
			alts = append(alts, c18IntDom(N, k3, c18Adapt(k3)))
		}
	}

	// keys extracted from transcripts
	seedTag := fmt.Sprintf("seed-%d-%d", c.Seed, r.IntN(1<<30))
	mk := func(nm string, msgs ...string) transcripts.Transcript {
		tr := hagrid.NewTranscript(nm)
		for _, m := range msgs {
			tr.AppendBytes("msg", []byte(m))
		}
		return tr
	}
	type trDesc struct {
		id    string
		t     transcripts.Transcript
		label string
	}
	descs := []trDesc{
		{"A", mk("c18", "alpha", seedTag), "ring-pedersen"},
		{"A", mk("c18", "alpha", seedTag), "ring-pedersen"},
		{"B", mk("c18", "alpha", seedTag), "ring-pedersem"},
		{"C", mk("c18", "alphb", seedTag), "ring-pedersen"},
		{"D", mk("c18", "alpha"+seedTag), "ring-pedersen"},
		{"A", mk("c18", "alpha", seedTag).Clone(), "ring-pedersen"},
	}
	var xk []*intcom.CommitmentKey
	for i, d := range descs {
		var k *intcom.CommitmentKey
		var err error
		if i%2 == 0 {
			k, err = intcom.ExtractCommitmentKey(d.t, d.label, group.ForgetOrder())
		} else {
			k, err = intcom.ExtractCommitmentKey(d.t, d.label, group)
		}
		if err != nil {
			c.Violation("intcom.ExtractCommitmentKey failed for transcript " + d.id)
			xk = append(xk, nil)
			continue
		}
		xk = append(xk, k)
		c.Emit("xkey int - "+bigHex(N)+","+bigHex(k.S().Value().Big())+","+bigHex(k.T().Value().Big()), "ok")
	}
	for i := range descs {
		for j := i + 1; j < len(descs); j++ {
			if xk[i] == nil || xk[j] == nil {
				continue
			}
			same := xk[i].Equal(xk[j])
			c.Count(fmt.Sprintf("int.xkey.same=%v", descs[i].id == descs[j].id))
			if same != (descs[i].id == descs[j].id) {
				c.Violation(fmt.Sprintf("intcom.ExtractCommitmentKey: transcripts %s/%s (#%d,#%d) give equal keys: %v", descs[i].id, descs[j].id, i, j, same))
			}
		}
	}
	doms := []*c18Dom{pubDom}
	if xk[0] != nil {
		doms = append(doms, c18IntDom(N, xk[0], c18Adapt(xk[0])))
		alts = append(alts, doms[1])
	}

	// trapdoor commit = public commit, equivocation, order shift
	for j := 0; j < 2+cases; j++ {
		m := pubDom.genM(r).(*intcom.Message)
		w := pubDom.genW(r).(*intcom.Witness)
		var cm *intcom.Commitment
		res := safely(func() string {
			var err error
			cm, err = tk.CommitWithWitness(m, w)
			return c18Res(err, func() string { return pubDom.strC(cm) })
		})
		c.Emit(fmt.Sprintf("tcommit int - %s %s %s", tkey, pubDom.strM(m), pubDom.strW(w)), res)
		if cm == nil {
			c.Violation("intcom trapdoor CommitWithWitness failed")
			continue
		}
		pubDom.openLine(c, c18Triple{cm, m, w}, "trapdoor-commit", true, true)
		tdDom.openLine(c, c18Triple{cm, m, w}, "trapdoor-commit", false, true)
		m2 := pubDom.genM(r).(*intcom.Message)
		if j == 0 {
			m2 = m
		}
		var w2 *intcom.Witness
		res = safely(func() string {
			var err error
			w2, err = tk.Equivocate(m, w, m2, r)
			return c18Res(err, func() string { return pubDom.strW(w2) })
		})
		c.Emit(fmt.Sprintf("equiv int - %s %s %s %s", tkey, pubDom.strM(m), pubDom.strW(w), pubDom.strM(m2)), res)
		c.Count("int.equivocate")
		if w2 != nil {
			pubDom.openLine(c, c18Triple{cm, m2, w2}, "equivocated", true, true)
			if !m2.Equal(m) && m2.Value().Big().BitLen() < ord.BitLen()-1 && m.Value().Big().BitLen() < ord.BitLen()-1 {
				pubDom.mustReject(c, c18Triple{cm, m2, w}, "witness", true)
				pubDom.mustReject(c, c18Triple{cm, m, w2}, "witness", true)
			}
		}
		// the holder of the group order can also shift message or witness by the order: the model
		// (exact recomputation) says that these open, as they do
		mo, _ := intcom.NewMessage(c18Z(new(big.Int).Add(m.Value().Big(), ord)))
		pubDom.openLine(c, c18Triple{cm, mo, w}, "order-shift", true, true)
		wo, _ := intcom.NewWitness(c18Z(new(big.Int).Sub(w.Value().Big(), ord)))
		pubDom.openLine(c, c18Triple{cm, m, wo}, "order-shift", true, true)
	}

	for di, d := range doms {
		var pool []c18Triple
		for it := 0; it < cases; it++ {
			m, w := d.genM(r), d.genW(r)
			if it == 0 {
				cm, w2, err := d.ops.commitFresh(m, r)
				if err != nil {
					c.Violation("commitments.Commit failed for intcom")
					continue
				}
				w = w2
				d.openLine(c, c18Triple{cm, m, w}, "fresh", true, true)
			}
			t, ok := d.commitOpen(c, m, w)
			if !ok {
				continue
			}
			pool = append(pool, t)
			d.bindingCase(c, r, t, (c.Thorough() || N.BitLen() < 400) && it == 0)
			if di == 0 && (it < 2 || c.Thorough()) {
				for _, alt := range alts {
					d.keyCase(c, alt, t, false)
				}
			}
		}
		if len(pool) > 0 {
			steps := 8
			if c.Thorough() {
				steps = 40
			}
			d.homSequence(c, r, pool, steps)
			if di == 0 {
				tdDom.homSequence(c, r, pool, steps/2)
			}
		}
	}
}
