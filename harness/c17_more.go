package main

// C17, second part: the exported arithmetic / conversion methods that the first five files did not reach
// (found by listing the exported API with go/ast and joining it with the function coverage of the stream):
// num.NatPlus arithmetic, the algebra aliases (Op, OtherOp, OpInv, Scalar*), every From* constructor of
// N / NPlus / Z / Q / ZMod, the remaining Uint methods, crt serial/parallel/multi decomposition,
// modular Lift / OddPrimeSquare / FermatQuotient / MultiplicativeOrder, the znstar group constructors,
// samplers and Paillier groups, cardinal leftovers, nt.Random and a few numct setters.

import (
	"fmt"
	"io"
	"math/big"
	"os"
	"strconv"

	"github.com/bronlabs/bron-crypto/pkg/base/ct"
	"github.com/bronlabs/bron-crypto/pkg/base/nt"
	"github.com/bronlabs/bron-crypto/pkg/base/nt/cardinal"
	"github.com/bronlabs/bron-crypto/pkg/base/nt/crt"
	"github.com/bronlabs/bron-crypto/pkg/base/nt/modular"
	"github.com/bronlabs/bron-crypto/pkg/base/nt/num"
	"github.com/bronlabs/bron-crypto/pkg/base/nt/numct"
	"github.com/bronlabs/bron-crypto/pkg/base/nt/znstar"
	"github.com/cronokirby/saferith"
)

func hx(v *big.Int) string { return v.Text(16) }

func optBig[T bigger](v T, err error) string { return valOrErr(v, err) }

func optRat(r *num.Rat, err error) string {
	if err != nil {
		return "none"
	}
	return "ok:" + ratS(r)
}

// alias reports (as an implementation-side violation) that two methods documented as aliases disagree.
func (g *g17) alias(what string, a, b string) {
	g.c.Count("alias.checked")
	if a != b {
		g.c.Violation(fmt.Sprintf("alias-mismatch %s %s != %s", what, a, b))
	}
}

func posNat(g *g17, bits int) *big.Int {
	v := g.natN(bits)
	if v.Sign() == 0 {
		v = bi(1)
	}
	return v
}

func c17More(g *g17, count int) {
	for it := 0; it < count; it++ {
		switch g.r.IntN(12) {
		case 0, 1:
			c17NatPlus(g)
		case 2:
			c17NMore(g)
		case 3:
			c17ZMore(g)
		case 4:
			c17QMore(g)
		case 5, 6:
			c17ZnMore(g)
		case 7:
			c17CrtMore(g)
		case 8:
			c17ArithMore(g)
		case 9:
			c17GroupMore(g, false)
		case 10:
			c17GroupMore(g, true)
		default:
			c17MiscMore(g)
		}
	}
	c17Samplers(g)
	c17Pending(g)
	c17Leftovers(&g17{g.c, NewRng(g.c.Seed, 1712)}, count/25)
}

// c17Pending: lines that reproduce defects found while extending the stream and reported to the coordinator,
// but not yet registered in known_findings.json (which a worker must not edit). They are emitted only with
// VERIF_C17_PENDING=1 so that the check stays silent on the unchanged tree until the entries exist; the
// handlers (keys q-opidentity, zn-top-modulus-one, and zn-isbottom through the Zn.order lines) are in place.
func c17Pending(g *g17) {
	if os.Getenv("VERIF_C17_PENDING") == "" {
		return
	}
	g.emit("Q.opidentity", func() string { // the identity of Rat.Op (= Add) must be zero
		id := num.Q().OpIdentity()
		return ratS(id) + "," + bb(id.IsOpIdentity())
	})
	g.emit("Zn.top1", func() string { // the greatest element of Z/1Z is 0
		zn, err := num.NewZMod(mustNP(bi(1)))
		if err != nil {
			return "err"
		}
		return hx(zn.Top().Big())
	})
	for _, mv := range [][2]int64{{7, 0}, {7, 1}, {7, 6}, {2, 1}, {8, 4}} {
		c17ZnOrder(g, bi(mv[0]), bi(mv[1]))
	}
}

func c17ZnOrder(g *g17, m, av *big.Int) {
	g.emit(fmt.Sprintf("Zn.order %s %s", hx(m), hx(av)), func() string {
		zn, _ := num.NewZMod(mustNP(m))
		x, _ := zn.FromBig(av)
		return bb(x.IsBottom()) + bb(zn.Bottom().IsBottom()) + bb(x.IsTop()) + bb(zn.Top().IsTop()) + bb(x.IsNegative())
	})
}

// ---------------------------------------------------------------------------------- num.NatPlus

func c17NatPlus(g *g17) {
	a, b := posNat(g, g.bits()), posNat(g, g.bits())
	if a.BitLen()+b.BitLen() > 4200 {
		b = posNat(g, 64)
	}
	switch g.r.IntN(6) {
	case 0:
		b = new(big.Int).Set(a)
	case 1: // exact multiple
		a = new(big.Int).Mul(b, posNat(g, 70))
	case 2:
		a = bi(1)
	}
	sh := []int{0, 1, 7, 63, 64, 65, g.r.IntN(200), a.BitLen() - 1, a.BitLen(), a.BitLen() + 1}[g.r.IntN(10)]
	if sh < 0 {
		sh = 0
	}
	g.emit(fmt.Sprintf("NP.arith %s %s %d", hx(a), hx(b), sh), func() string {
		x, y := mustNP(a), mustNP(b)
		g.alias("NP.Op", hx(x.Op(y).Big()), hx(x.Add(y).Big()))
		g.alias("NP.OtherOp", hx(x.OtherOp(y).Big()), hx(x.Mul(y).Big()))
		g.alias("NP.Abs", hx(x.Abs().Big()), hx(a))
		g.alias("NP.Lift", hx(x.Lift().Big()), hx(a))
		g.alias("NP.Nat", hx(x.Nat().Big()), hx(a))
		g.alias("NP.Clone", hx(x.Clone().Big()), hx(a))
		g.alias("NP.BytesBE", hexBytes(x.BytesBE()), hexBytes(x.Bytes()))
		g.alias("NP.TryOpInv", optBig(x.TryOpInv()), optBig(x.TryInv()))
		g.alias("NP.IsBottom", bb(x.IsBottom()), bb(x.IsOne()))
		g.alias("NP.IsOpIdentity", bb(x.IsOpIdentity()), bb(x.IsOne()))
		g.alias("NP.Value", hx(x.Value().Big()), hx(a))
		g.alias("NP.Cardinal", hx(x.Cardinal().Big()), hx(a))
		tryRsh := optBig(x.TryRsh(uint(sh)))
		rsh := safely(func() string { return "ok:" + hx(x.Rsh(uint(sh)).Big()) })
		if (tryRsh == "none") != (len(rsh) >= 6 && rsh[:6] == "panic:") || (tryRsh != "none" && tryRsh != rsh) {
			g.c.Violation(fmt.Sprintf("NP.Rsh disagrees with TryRsh %s %d: %s vs %s", hx(a), sh, rsh, tryRsh))
		}
		return joinComma([]string{hx(x.Add(y).Big()), hx(x.Mul(y).Big()), hx(x.Double().Big()), hx(x.Square().Big()), hx(x.Increment().Big()),
			optBig(x.Decrement()), optBig(x.TrySub(y)), optBig(x.TryDiv(y)), optBig(x.TryInv()), hx(x.Lsh(uint(sh)).Big()), tryRsh,
			strconv.Itoa(int(x.Compare(y))) + bb(x.IsLessThanOrEqual(y)) + bb(x.Equal(y)) + bb(x.IsOne()) + bb(x.IsOdd()) + bb(x.IsEven()) + bb(x.IsUnit(y)),
			strconv.Itoa(int(x.Bit(uint(sh)))), strconv.Itoa(int(x.Byte(uint(sh / 8)))), strconv.Itoa(x.TrueLen()), strconv.Itoa(x.AnnouncedLen()),
			strconv.FormatUint(x.Uint64(), 16), hexBytes(x.Bytes()), hx(x.Mod(y).Big())})
	})
}

// ---------------------------------------------------------------------------------- num.N extras

func ratOf(g *g17) (*big.Int, *big.Int) {
	n, d := g.intN(1+g.r.IntN(120)), posNat(g, 1+g.r.IntN(60))
	switch g.r.IntN(3) {
	case 0: // integral, not in lowest terms
		n = new(big.Int).Mul(d, g.intN(80))
	case 1:
		f := bi(int64(1 + g.r.IntN(30)))
		n, d = new(big.Int).Mul(n, f), new(big.Int).Mul(d, f)
	}
	return n, d
}

func mkRat(n, d *big.Int) *num.Rat {
	r, err := num.Q().New(mustZ(n), mustNP(d))
	if err != nil {
		panic("Q.New")
	}
	return r
}

func c17NMore(g *g17) {
	a, b := g.natN(g.bits()), g.natN(g.bits())
	if a.BitLen()+b.BitLen() > 4200 {
		b = g.natN(64)
	}
	if a.BitLen() > 1300 && g.r.IntN(2) == 0 {
		a = g.natN(200)
	}
	c := g.intN(1 + g.r.IntN(200))
	rn, rd := ratOf(g)
	lo, hi := g.natN(150), g.natN(150)
	if lo.Cmp(hi) > 0 {
		lo, hi = hi, lo
	}
	if g.r.IntN(5) == 0 {
		hi = new(big.Int).Set(lo)
	}
	g.emit(fmt.Sprintf("N.more %s %s %s %s|%s %s %s", hx(a), hx(b), hx(c), hx(rn), hx(rd), hx(lo), hx(hi)), func() string {
		x, y := mustN(a), mustN(b)
		g.alias("N.Op", hx(x.Op(y).Big()), hx(x.Add(y).Big()))
		g.alias("N.OtherOp", hx(x.OtherOp(y).Big()), hx(x.Mul(y).Big()))
		g.alias("N.ScalarOp", hx(x.ScalarOp(y).Big()), hx(x.ScalarMul(y).Big()))
		g.alias("N.TryOpInv", optBig(x.TryOpInv()), optBig(x.TryNeg()))
		g.alias("N.IsOpIdentity", bb(x.IsOpIdentity()), bb(x.IsZero()))
		g.alias("N.BytesBE", hexBytes(x.BytesBE()), hexBytes(x.Bytes()))
		g.alias("N.Clone", hx(x.Clone().Big()), hx(a))
		g.alias("N.EuclideanValuation", hx(x.EuclideanValuation().Big()), hx(a))
		g.alias("N.Bottom", hx(num.N().Bottom().Big()), "0")
		g.alias("N.OpIdentity", hx(num.N().OpIdentity().Big()), "0")
		fromNP := "none"
		if a.Sign() > 0 {
			fromNP = optBig(num.N().FromNatPlus(mustNP(a)))
		}
		rnd := "err"
		if v, err := num.N().Random(mustN(lo), mustN(hi), g.r); err == nil {
			rnd = hx(v.Big())
		}
		return joinComma([]string{hx(x.ScalarMul(y).Big()), optBig(x.TryInv()), optBig(x.TryNeg()), bb(x.IsBottom()) + bb(x.IsTorsionFree()),
			bb(a.BitLen() <= 1300 && x.IsProbablyPrime()), strconv.FormatUint(x.Uint64(), 16), hx(x.Cardinal().Big()), strconv.Itoa(x.AnnouncedLen()),
			hx(num.N().FromUint64(a.Uint64()).Big()), fromNP, optBig(num.N().FromInt(mustZ(c))), optBig(num.N().FromRat(mkRat(rn, rd))),
			optBig(num.N().FromBytesBE(a.Bytes())), optBig(num.N().FromCardinal(cardinal.NewFromBig(a))), optBig(num.N().FromNatCT(numct.NewNatFromBig(a, a.BitLen()+g.r.IntN(9)))),
			optBig(num.N().FromUnsignedNumeric(mustN(a))), rnd})
	})
}

// ---------------------------------------------------------------------------------- num.Z extras

func c17ZMore(g *g17) {
	a, b := g.intN(g.bits()), g.intN(g.bits())
	if a.BitLen()+b.BitLen() > 4200 {
		b = g.intN(64)
	}
	m := g.modulus()
	rn, rd := ratOf(g)
	i64 := int64(g.r.Uint64())
	switch g.r.IntN(5) {
	case 0:
		i64 = -1 << 63
	case 1:
		i64 = int64(g.r.IntN(5)) - 2
	}
	lo, hi := g.intN(150), g.intN(150)
	if lo.Cmp(hi) > 0 {
		lo, hi = hi, lo
	}
	g.emit(fmt.Sprintf("Z.more %s %s %s %s|%s %s %s %s", hx(a), hx(b), hx(m), hx(rn), hx(rd), hx(bi(i64)), hx(lo), hx(hi)), func() string {
		x, y, mm := mustZ(a), mustZ(b), mustNP(m)
		g.alias("Z.Op", hx(x.Op(y).Big()), hx(x.Add(y).Big()))
		g.alias("Z.OtherOp", hx(x.OtherOp(y).Big()), hx(x.Mul(y).Big()))
		g.alias("Z.ScalarOp", hx(x.ScalarOp(y).Big()), hx(x.Mul(y).Big()))
		g.alias("Z.ScalarMul", hx(x.ScalarMul(y).Big()), hx(x.Mul(y).Big()))
		g.alias("Z.OpInv", hx(x.OpInv().Big()), hx(x.Neg().Big()))
		g.alias("Z.TryOpInv", optBig(x.TryOpInv()), "ok:"+hx(x.Neg().Big()))
		g.alias("Z.TryNeg", optBig(x.TryNeg()), "ok:"+hx(x.Neg().Big()))
		g.alias("Z.TrySub", optBig(x.TrySub(y)), "ok:"+hx(x.Sub(y).Big()))
		g.alias("Z.Lift", hx(x.Lift().Big()), hx(a))
		g.alias("Z.Rat", ratS(x.Rat()), hx(a)+"|1")
		g.alias("Z.IsOpIdentity", bb(x.IsOpIdentity()), bb(x.IsZero()))
		g.alias("Z.Cardinal", hx(x.Cardinal().Big()), hx(new(big.Int).Abs(a)))
		g.alias("Z.EuclideanValuation", hx(x.EuclideanValuation().Big()), hx(new(big.Int).Abs(a)))
		abs := new(big.Int).Abs(a)
		u := x.Mod(mm)
		fromNP := "none"
		if abs.Sign() > 0 {
			fromNP = optBig(num.Z().FromNatPlus(mustNP(abs)))
		}
		rnd := "err"
		if v, err := num.Z().Random(mustZ(lo), mustZ(hi), g.r); err == nil {
			rnd = hx(v.Big())
		}
		return joinComma([]string{hx(x.Neg().Big()), hx(x.Sub(y).Big()), bb(x.IsOdd()) + bb(x.IsTorsionFree()), bb(abs.BitLen() <= 1300 && x.IsProbablyPrime()), strconv.Itoa(x.TrueLen()), strconv.Itoa(x.AnnouncedLen()),
			hx(num.Z().FromInt64(i64).Big()), hx(num.Z().FromUint64(uint64(i64)).Big()), optBig(num.Z().FromNat(mustN(abs))), fromNP, optBig(num.Z().FromRat(mkRat(rn, rd))),
			optBig(num.Z().FromCardinal(cardinal.NewFromBig(abs))), optBig(num.Z().FromIntCT(numct.NewIntFromBig(a, a.BitLen()+g.r.IntN(9)))), optBig(num.Z().FromSignedNumeric(x)),
			optBig(num.Z().FromUnsignedNumeric(mustN(abs))), optBig(num.Z().FromUintSymmetric(u)), optBig(num.Z().FromUint(u)), rnd})
	})
}

// ---------------------------------------------------------------------------------- num.Q extras

func c17QMore(g *g17) {
	an, ad := ratOf(g)
	bn, bd := ratOf(g)
	if g.r.IntN(6) == 0 {
		bn = bi(0)
	}
	c := g.intN(1 + g.r.IntN(150))
	i64 := int64(g.r.Uint64())
	if g.r.IntN(3) == 0 {
		i64 = int64(g.r.IntN(5)) - 2
	}
	m := posNat(g, 90)
	g.emit(fmt.Sprintf("Q.more %s|%s %s|%s %s %s %s", hx(an), hx(ad), hx(bn), hx(bd), hx(c), hx(bi(i64)), hx(m)), func() string {
		x, y := mkRat(an, ad), mkRat(bn, bd)
		g.alias("Q.Op", ratS(x.Op(y)), ratS(x.Add(y)))
		g.alias("Q.OtherOp", ratS(x.OtherOp(y)), ratS(x.Mul(y)))
		g.alias("Q.OpInv", ratS(x.OpInv()), ratS(x.Neg()))
		g.alias("Q.TryOpInv", optRat(x.TryOpInv()), "ok:"+ratS(x.Neg()))
		g.alias("Q.TryNeg", optRat(x.TryNeg()), "ok:"+ratS(x.Neg()))
		g.alias("Q.TrySub", optRat(x.TrySub(y)), "ok:"+ratS(x.Sub(y)))
		g.alias("Q.Clone", ratS(x.Clone()), ratS(x))
		g.alias("Q.IsOpIdentity", bb(x.IsOpIdentity()), bb(x.IsZero()))
		g.alias("Q.One", ratS(num.Q().One()), "1|1")
		g.alias("Q.Zero", ratS(num.Q().Zero()), "0|1")
		ed := "none"
		if q, r, err := x.EuclideanDiv(y); err == nil {
			ed = "ok:" + ratS(q) + ":" + ratS(r)
		}
		cz := mustZ(c)
		cabs := new(big.Int).Abs(c)
		fromNP := "none"
		if cabs.Sign() > 0 {
			fromNP = optRat(num.Q().FromNatPlus(mustNP(cabs)))
		}
		zn, _ := num.NewZMod(mustNP(m))
		u, _ := zn.FromBig(c)
		back, err := num.Q().FromBytes(x.Bytes())
		if err != nil || ratS(back) != ratS(x) {
			g.c.Violation("Q.FromBytes(Bytes) != q " + ratS(x))
		}
		lo, hi := x, y
		if !lo.IsLessThanOrEqual(hi) {
			lo, hi = hi, lo
		}
		rnd, rndI := "err", "err"
		if v, err := num.Q().Random(lo, hi, g.r); err == nil {
			rnd = ratS(v)
		}
		if v, err := num.Q().RandomInt(lo, hi, g.r); err == nil {
			rndI = hx(v.Big())
		}
		return joinComma([]string{ratS(x.Double()), ratS(x.Square()), ratS(x.Sub(y)), ed, bb(new(big.Int).Quo(an, ad).BitLen() <= 1300 && x.IsProbablyPrime()),
			optRat(num.Q().FromInt(cz)), ratS(num.Q().FromInt64(i64)), ratS(num.Q().FromUint64(uint64(i64))), optRat(num.Q().FromNat(mustN(cabs))), fromNP,
			optRat(num.Q().FromUint(u)), optRat(num.Q().FromBig(c)), optRat(num.Q().FromBigRat(new(big.Rat).SetFrac(an, ad))),
			ratS(lo) + ";" + ratS(hi) + ";" + rnd + ";" + rndI})
	})
}

// ---------------------------------------------------------------------------------- num.ZMod / Uint extras

func c17ZnMore(g *g17) {
	m := g.modulus()
	if m.Cmp(bOne) == 0 && g.r.IntN(3) != 0 {
		m = g.prime()
	}
	av, bv := g.residue(m), g.residue(m)
	e := g.intN(1 + g.r.IntN(120))
	if new(big.Int).GCD(nil, nil, new(big.Int).Mod(av, m), m).Cmp(bOne) != 0 {
		e.Abs(e)
	}
	if m.BitLen() > 1100 {
		e = bi(int64(g.r.IntN(1000)))
	}
	bits := g.r.IntN(e.BitLen() + 3)
	k := g.natN(1 + g.r.IntN(130))
	bit := g.r.IntN(m.BitLen() + 3)
	ch := g.r.IntN(2)
	i64 := int64(g.r.Uint64())
	if g.r.IntN(3) == 0 {
		i64 = int64(g.r.IntN(7)) - 3
	}
	rn, rd := ratOf(g)
	g.emit(fmt.Sprintf("Zn.more %s %s %s %s %d %s %d %d %s %s|%s", hx(m), hx(av), hx(bv), hx(e), bits, hx(k), bit, ch, hx(bi(i64)), hx(rn), hx(rd)), func() string {
		mp := mustNP(m)
		zn, err := num.NewZMod(mp)
		if err != nil {
			return "err"
		}
		x, err1 := zn.FromBig(av)
		y, err2 := zn.FromBig(bv)
		if err1 != nil || err2 != nil {
			return "err-frombig"
		}
		ar, br := new(big.Int).Mod(av, m), new(big.Int).Mod(bv, m)
		g.alias("Zn.Op", hx(x.Op(y).Big()), hx(x.Add(y).Big()))
		g.alias("Zn.OtherOp", hx(x.OtherOp(y).Big()), hx(x.Mul(y).Big()))
		g.alias("Zn.OpInv", hx(x.OpInv().Big()), hx(x.Neg().Big()))
		g.alias("Zn.TryOpInv", optBig(x.TryOpInv()), "ok:"+hx(x.Neg().Big()))
		g.alias("Zn.TryNeg", optBig(x.TryNeg()), "ok:"+hx(x.Neg().Big()))
		g.alias("Zn.TrySub", optBig(x.TrySub(y)), "ok:"+hx(x.Sub(y).Big()))
		g.alias("Zn.ScalarOp", hx(x.ScalarOp(mustN(k)).Big()), hx(x.Exp(mustN(k)).Big()))
		g.alias("Zn.ScalarExp", hx(x.ScalarExp(mustN(k)).Big()), hx(x.Exp(mustN(k)).Big()))
		g.alias("Zn.Abs", hx(x.Abs().Big()), hx(ar))
		g.alias("Zn.Nat", hx(x.Nat().Big()), hx(ar))
		g.alias("Zn.Clone", hx(x.Clone().Big()), hx(ar))
		g.alias("Zn.Cardinal", hx(x.Cardinal().Big()), hx(ar))
		g.alias("Zn.BytesBE", hexBytes(x.BytesBE()), hexBytes(x.Bytes()))
		g.alias("Zn.IsOpIdentity", bb(x.IsOpIdentity()), bb(x.IsZero()))
		g.alias("Zn.Modulus", hx(x.Modulus().Big())+hx(x.ModulusCT().Big())+hx(zn.ModulusCT().Big())+hx(x.Group().Modulus().Big()), hx(m)+hx(m)+hx(m)+hx(m))
		g.alias("Zn.PartialCompare", strconv.Itoa(int(x.PartialCompare(y))), strconv.Itoa(int(x.Compare(y))))
		g.alias("Zn.Bottom/Zero/OpIdentity", hx(zn.Bottom().Big())+hx(zn.Zero().Big())+hx(zn.OpIdentity().Big()), "000")
		g.alias("Zn.Order/Characteristic", hx(zn.Order().Big())+hx(zn.Characteristic().Big()), hx(m)+hx(m))
		g.alias("Zn.Contains/EqualModulus", bb(zn.Contains(x))+bb(x.EqualModulus(y)), "11")
		// a different modulus is incomparable / unequal
		if other, err := num.NewZMod(mustNP(new(big.Int).Add(m, bOne))); err == nil {
			o := other.Zero()
			g.alias("Zn.other-modulus", strconv.Itoa(int(x.PartialCompare(o)))+bb(x.EqualModulus(o))+bb(x.Equal(o))+bb(zn.Contains(o)), "-2000")
		}
		// Select / CondAssign
		sel := zn.Zero()
		sel.Select(ct.Choice(ch), x, y)
		ca := x.Clone()
		ca.CondAssign(ct.Choice(ch), y)
		g.alias("Zn.CondAssign", hx(ca.Big()), hx(sel.Big()))
		// hash to Z/m: deterministic and in range (the digest itself is outside the model)
		h1, e1 := zn.Hash(av.Bytes())
		h2, e2 := zn.Hash(av.Bytes())
		if e1 != nil || e2 != nil || h1.Big().Cmp(h2.Big()) != 0 || h1.Big().Cmp(m) >= 0 {
			g.c.Violation("Zn.Hash not deterministic or out of range " + hx(m))
		}
		ed := "none"
		if q, r, err := x.EuclideanDiv(y); err == nil {
			ed = "ok:" + hx(q.Big()) + ":" + hx(r.Big())
		}
		rnd := "err"
		if v, err := zn.Random(g.r); err == nil {
			rnd = hx(v.Big())
		}
		fromNP := "none"
		if av.Sign() > 0 {
			fromNP = optBig(zn.FromNatPlus(mustNP(av)))
		}
		c2, errc := num.NewZModFromCardinal(cardinal.NewFromBig(m))
		c3, errm := num.NewZModFromModulus(mustModulus(m))
		if errc != nil || errm != nil || c2.Modulus().Big().Cmp(m) != 0 || c3.Modulus().Big().Cmp(m) != 0 {
			g.c.Violation("NewZModFromCardinal/NewZModFromModulus modulus " + hx(m))
		}
		one, top := "na", "na" // modulus 1: see c17Pending
		if m.Cmp(bOne) > 0 {
			one, top = hx(zn.One().Big()), hx(zn.Top().Big())
		}
		avb := append([]byte{0}, av.Bytes()...)
		return joinComma([]string{strconv.Itoa(int(x.Bit(uint(bit)))), hexBytes(x.Bytes()), strconv.Itoa(int(x.Compare(y))), bb(x.Coprime(y)), ed,
			hx(x.ExpIBounded(mustZ(e), uint(bits)).Big()), bb(x.IsTop()) + bb(x.IsEven()) + bb(x.IsOdd()) + bb(x.IsPositive()),
			bb(ar.BitLen() <= 1300 && x.IsProbablyPrime()), hx(x.ScalarMul(mustN(k)).Big()), hx(sel.Big()), strconv.Itoa(x.TrueLen()),
			optBig(zn.FromBytes(avb)), optBig(zn.FromBytesBE(avb)), optBig(zn.FromBytesBEReduce(avb)), optBig(zn.FromCardinal(cardinal.NewFromBig(av))),
			optBig(zn.FromInt64(i64)), hx(zn.FromUint64(uint64(i64)).Big()), optBig(zn.FromNat(mustN(av))), optBig(zn.FromNatCTReduced(numct.NewNatFromBig(av, av.BitLen()))), fromNP,
			optBig(zn.FromRat(mkRat(rn, rd))), bb(zn.IsInRange(mustN(av))), top, one, rnd,
			optBig(num.NewUintGivenModulus(numct.NewNatFromBig(av, av.BitLen()), mustModulus(m))), bb(zn.IsDomain()), strconv.Itoa(zn.ElementSize()) + ":" + strconv.Itoa(zn.WideElementSize()),
			hx(br)})
	})
	// the order-theoretic predicates of Uint (IsBottom/IsTop) have their own lines: see c17Pending
}

// ---------------------------------------------------------------------------------- crt extras

func natsHex(xs []*numct.Nat) string {
	out := make([]string, len(xs))
	for i, x := range xs {
		out[i] = hx(x.Big())
	}
	return joinComma(out)
}

func c17CrtMore(g *g17) {
	pb := 8 + g.r.IntN(100)
	p, q, r3 := g.oddPrimeBits(pb), g.oddPrimeBits(max(3, pb-g.r.IntN(6))), g.oddPrimeBits(7+g.r.IntN(40))
	for p.Cmp(q) == 0 {
		q = g.oddPrimeBits(pb)
	}
	if r3.Cmp(p) == 0 || r3.Cmp(q) == 0 {
		return
	}
	n3 := new(big.Int).Mul(new(big.Int).Mul(p, q), r3)
	x := g.residue(n3)
	if x.Sign() == 0 {
		x = bi(1)
	}
	pn, qn, rn := numct.NewNatFromBig(p, p.BitLen()), numct.NewNatFromBig(q, q.BitLen()), numct.NewNatFromBig(r3, r3.BitLen())
	g.emit(fmt.Sprintf("crt.more %s %s %s %s", hx(p), hx(q), hx(r3), hx(x)), func() string {
		ext, ok := crt.PrecomputePairExtended(pn, qn)
		if ok != ct.True {
			return "none-extended"
		}
		ext2, ok := crt.NewParamsExtended(mustModulus(p), mustModulus(q))
		if ok != ct.True {
			return "none-newextended"
		}
		xm := mustModulus(x)
		sp, sq := ext.DecomposeSerial(xm)
		pp, pq := ext.DecomposeParallel(xm)
		dp, dq := ext2.Decompose(xm)
		g.alias("crt.DecomposeParallel", hx(pp.Big())+","+hx(pq.Big()), hx(sp.Big())+","+hx(sq.Big()))
		g.alias("crt.NewParamsExtended.Decompose", hx(dp.Big())+","+hx(dq.Big()), hx(sp.Big())+","+hx(sq.Big()))
		rec := ext.Recombine(sp, sq)
		rec2 := ext2.Recombine(sp, sq)
		g.alias("crt.NewParamsExtended.Recombine", hx(rec2.Big()), hx(rec.Big()))
		multi, ok := crt.PrecomputeMulti(pn, qn, rn)
		if ok != ct.True {
			return "none-multi"
		}
		multi2, ok := crt.NewParamsMulti(mustModulus(p), mustModulus(q), mustModulus(r3))
		if ok != ct.True {
			return "none-newmulti"
		}
		ds, dpar, dd := multi.DecomposeSerial(xm), multi.DecomposeParallel(xm), multi2.Decompose(xm)
		g.alias("crt.multi.DecomposeParallel", natsHex(dpar), natsHex(ds))
		g.alias("crt.NewParamsMulti.Decompose", natsHex(dd), natsHex(ds))
		rs, ok1 := multi.RecombineSerial(ds...)
		rp, ok2 := multi.RecombineParallel(ds...)
		rr, ok3 := multi2.Recombine(ds...)
		if ok1 != ct.True || ok2 != ct.True || ok3 != ct.True {
			return "none-recombine"
		}
		g.alias("crt.multi.RecombineParallel", hx(rp.Big()), hx(rs.Big()))
		g.alias("crt.NewParamsMulti.Recombine", hx(rr.Big()), hx(rs.Big()))
		return joinComma([]string{hx(ext.Modulus().Big()), hx(sp.Big()), hx(sq.Big()), hx(rec.Big()), natsHex(ds), hx(rs.Big())})
	})
}

// ---------------------------------------------------------------------------------- modular extras

func cardS(c cardinal.Cardinal) string {
	switch {
	case c.IsUnknown():
		return "unk"
	case !c.IsFinite():
		return "inf"
	}
	return hx(c.Big())
}

func c17ArithMore(g *g17) {
	pb := 8 + g.r.IntN(90)
	p, q := g.oddPrimeBits(pb), g.oddPrimeBits(max(3, pb-g.r.IntN(4)))
	for p.Cmp(q) == 0 {
		q = g.oddPrimeBits(pb)
	}
	n := new(big.Int).Mul(p, q)
	nn := new(big.Int).Mul(n, n)
	x := g.residue(nn)
	switch g.r.IntN(8) {
	case 0:
		x = new(big.Int).Mul(p, g.r.BigBelow(q))
	case 1:
		x = new(big.Int).Mul(q, bi(int64(1+g.r.IntN(50))))
	}
	xc := cnat{x, g.capGE(x)}
	pn, qn := numct.NewNatFromBig(p, p.BitLen()), numct.NewNatFromBig(q, q.BitLen())
	g.emit(fmt.Sprintf("ar.more %s %s %s", hx(p), hx(q), xc), func() string {
		opf, ok := modular.NewOddPrimeFactors(pn, qn)
		if ok != ct.True {
			return "none-opf"
		}
		lifted, ok := opf.Lift()
		if ok != ct.True {
			return "none-lift"
		}
		simple, ok := modular.NewSimple(mustModulus(n))
		if ok != ct.True {
			return "none-simple"
		}
		sl, ok := simple.Lift()
		if ok != ct.True {
			return "none-simplelift"
		}
		sq, ok := modular.NewOddPrimeSquare(pn)
		if ok != ct.True {
			return "none-square"
		}
		var toN, lp, lq, sm numct.Nat
		lifted.ExpToN(&toN, xc.nat())
		lifted.FermatQuotient(&lp, &lq, xc.nat())
		sl.ModMul(&sm, xc.nat(), xc.nat())
		return joinComma([]string{hx(lifted.Modulus().Big()), hx(sl.Modulus().Big()), hx(sq.Modulus().Big()), cardS(sq.MultiplicativeOrder()), cardS(opf.MultiplicativeOrder()),
			cardS(lifted.MultiplicativeOrder()), cardS(simple.MultiplicativeOrder()), hx(toN.Big()), hx(lp.Big()), hx(lq.Big()), hx(sm.Big())})
	})
	// a composite "prime" must be refused by every constructor that promises primes
	if g.r.IntN(4) == 0 {
		c := new(big.Int).Mul(g.oddPrimeBits(5+g.r.IntN(20)), g.oddPrimeBits(5+g.r.IntN(20)))
		cn := numct.NewNatFromBig(c, c.BitLen())
		g.emit(fmt.Sprintf("ar.refuse %s %s", hx(c), hx(q)), func() string {
			_, ok1 := modular.NewOddPrimeFactors(cn, qn)
			_, ok2 := modular.NewOddPrimeSquareFactors(cn, qn)
			_, ok3 := modular.NewOddPrimeSquare(cn)
			_, ok4 := modular.NewOddPrimeSquare(numct.NewNat(2))
			_, ok5 := modular.NewOddPrimeFactors(qn, qn)
			return b01(ok1) + b01(ok2) + b01(ok3) + b01(ok4) + b01(ok5)
		})
	}
}

// ---------------------------------------------------------------------------------- znstar extras

type unitLike[W any] interface {
	Mul(W) W
	Inv() W
	Div(W) W
	Square() W
	Exp(*num.Nat) W
	ExpI(*num.Int) W
	Op(W) W
	OpInv() W
	ScalarExp(*num.Int) W
	ScalarOp(*num.Int) W
	ExpBounded(*num.Nat, uint) W
	ExpIBounded(*num.Int, uint) W
	TryDiv(W) (W, error)
	TryInv() (W, error)
	TryOpInv() (W, error)
	IsOne() bool
	IsOpIdentity() bool
	Bytes() []byte
	Cardinal() cardinal.Cardinal
	Equal(W) bool
	Value() *num.Uint
	Jacobi() (int, error)
	IsTorsionFree() bool
	IsUnknownOrder() bool
}

type groupLike[W any] interface {
	FromNat(*num.Nat) (W, error)
	FromNatCT(*numct.Nat) (W, error)
	FromNatPlus(*num.NatPlus) (W, error)
	FromUint(*num.Uint) (W, error)
	FromUint64(uint64) (W, error)
	FromBytes([]byte) (W, error)
	FromCardinal(cardinal.Cardinal) (W, error)
	One() W
	OpIdentity() W
	Random(io.Reader) (W, error)
	RandomQuadraticResidue(io.Reader) (W, error)
	RandomWithJacobi(int, io.Reader) (W, error)
	Order() cardinal.Cardinal
	Contains(W) bool
	Modulus() *num.NatPlus
	IsUnknownOrder() bool
	AmbientGroup() *num.ZMod
}

func uv[W unitLike[W]](u W) string { return hx(u.Value().Big()) }

func optUnit[W unitLike[W]](u W, err error) string {
	if err != nil {
		return "none"
	}
	return "ok:" + uv(u)
}

// unitFields: the constructors and the group law of one unit group on operands a, b (any naturals), exponent e.
func unitFields[W unitLike[W]](g *g17, grp groupLike[W], what string, a, b, e *big.Int, bits int, u64 uint64) string {
	mod := grp.Modulus().Big()
	x, err1 := grp.FromNatCT(mustN(a).Value())
	y, err2 := grp.FromNatCT(mustN(b).Value())
	ctor := []string{optUnit(grp.FromNat(mustN(a))), optUnit(grp.FromUint64(u64))}
	if a.Sign() > 0 {
		ctor = append(ctor, optUnit(grp.FromNatPlus(mustNP(a))))
	} else {
		ctor = append(ctor, "na")
	}
	ar := new(big.Int).Mod(a, mod)
	if zu, err := grp.AmbientGroup().FromBig(a); err == nil {
		ctor = append(ctor, optUnit(grp.FromUint(zu)))
	} else {
		ctor = append(ctor, "err")
	}
	// FromBytes / FromCardinal want a reduced value
	ctor = append(ctor, optUnit(grp.FromBytes(append([]byte{0}, ar.Bytes()...))), optUnit(grp.FromCardinal(cardinal.NewFromBig(ar))), optUnit(grp.FromBytes(new(big.Int).Add(ar, mod).Bytes())))
	head := joinComma(ctor) + "," + uv(grp.One()) + "," + cardS(grp.Order()) + "," + bb(grp.IsUnknownOrder())
	if err1 != nil || err2 != nil {
		return head + ",notunit:" + bb(err1 != nil) + bb(err2 != nil)
	}
	g.alias(what+".Op", uv(x.Op(y)), uv(x.Mul(y)))
	g.alias(what+".OpInv", uv(x.OpInv()), uv(x.Inv()))
	g.alias(what+".TryInv", optUnit(x.TryInv()), "ok:"+uv(x.Inv()))
	g.alias(what+".TryOpInv", optUnit(x.TryOpInv()), "ok:"+uv(x.Inv()))
	g.alias(what+".TryDiv", optUnit(x.TryDiv(y)), "ok:"+uv(x.Div(y)))
	g.alias(what+".ScalarExp", uv(x.ScalarExp(mustZ(e))), uv(x.ExpI(mustZ(e))))
	g.alias(what+".ScalarOp", uv(x.ScalarOp(mustZ(e))), uv(x.ExpI(mustZ(e))))
	g.alias(what+".IsOpIdentity", bb(x.IsOpIdentity()), bb(x.IsOne()))
	g.alias(what+".OpIdentity", uv(grp.OpIdentity()), uv(grp.One()))
	g.alias(what+".Cardinal", hx(x.Cardinal().Big()), uv(x))
	g.alias(what+".Contains", bb(grp.Contains(x))+bb(x.IsUnknownOrder() == grp.IsUnknownOrder()), "11")
	eAbs := new(big.Int).Abs(e)
	j, _ := x.Jacobi()
	return head + "," + joinComma([]string{uv(x), uv(x.Mul(y)), uv(x.Inv()), uv(x.Div(y)), uv(x.Square()), uv(x.Exp(mustN(eAbs))), uv(x.ExpI(mustZ(e))),
		uv(x.ExpBounded(mustN(eAbs), uint(bits))), uv(x.ExpIBounded(mustZ(e), uint(bits))), bb(x.IsOne()) + bb(x.Equal(y)) + bb(x.IsTorsionFree()), hexBytes(x.Bytes()), strconv.Itoa(j)})
}

// randFields: samplers; the sampled values are in the line, the model checks the promised property.
func randFields[W unitLike[W]](g *g17, grp groupLike[W]) string {
	out := make([]string, 0, 4)
	add := func(u W, err error) {
		if err != nil {
			out = append(out, "err")
			return
		}
		out = append(out, uv(u))
	}
	add(grp.Random(g.r))
	add(grp.RandomQuadraticResidue(g.r))
	add(grp.RandomWithJacobi(1, g.r))
	add(grp.RandomWithJacobi(-1, g.r))
	_, err := grp.RandomWithJacobi(0, g.r)
	return joinComma(out) + "," + bb(err != nil)
}

func c17GroupMore(g *g17, paillier bool) {
	pb := 8 + g.r.IntN(56)
	p, q := g.oddPrimeBits(pb), g.oddPrimeBits(pb)
	if p.Cmp(q) == 0 {
		return
	}
	n := new(big.Int).Mul(p, q)
	mod := n
	if paillier {
		mod = new(big.Int).Mul(n, n)
	}
	a, b := g.residue(mod), g.residue(mod)
	e := g.intN(1 + g.r.IntN(100))
	bits := g.r.IntN(e.BitLen() + 3)
	u64 := g.r.Uint64()
	if g.r.IntN(2) == 0 {
		u64 = uint64(g.r.IntN(40))
	}
	known := g.r.IntN(2) == 0
	kind := "rsa"
	if paillier {
		kind = "pail"
	}
	args := fmt.Sprintf("%s %s %s %s %s %s %d %s", bb(known), hx(p), hx(q), hx(a), hx(b), hx(e), bits, strconv.FormatUint(u64, 16))
	if !paillier {
		kg, err := znstar.NewRSAGroup(mustNP(p), mustNP(q))
		if err != nil {
			g.c.Violation("NewRSAGroup rejected primes " + hx(p) + " " + hx(q))
			return
		}
		ug := kg.ForgetOrder()
		ug2, err := znstar.NewRSAGroupOfUnknownOrder(mustNP(n))
		if err != nil || !ug.Equal(ug2) || kg.Equal(kg) != true {
			g.c.Violation("RSAGroup.ForgetOrder != NewRSAGroupOfUnknownOrder " + hx(n))
		}
		if known {
			g.emit("zn.more "+kind+" "+args, func() string { return unitFields(g, kg, "rsa", a, b, e, bits, u64) })
			g.emit("zn.rand "+kind+" "+bb(known)+" "+hx(p)+" "+hx(q), func() string { return randFields(g, kg) })
		} else {
			g.emit("zn.more "+kind+" "+args, func() string { return unitFields(g, ug, "rsa", a, b, e, bits, u64) })
			g.emit("zn.rand "+kind+" "+bb(known)+" "+hx(p)+" "+hx(q), func() string { return randFields(g, ug) })
		}
		// LearnOrder / ForgetOrder keep the value
		if x, err := ug.FromNatCT(mustN(a).Value()); err == nil {
			kx, err := x.LearnOrder(kg)
			if err != nil || kx.Value().Big().Cmp(x.Value().Big()) != 0 || kx.ForgetOrder().Value().Big().Cmp(x.Value().Big()) != 0 || !kx.Clone().Equal(kx) || !kx.Group().Equal(kg) {
				g.c.Violation("RSA LearnOrder/ForgetOrder changed the value " + hx(a))
			}
		}
		return
	}
	kg, err := znstar.NewPaillierGroup(mustNP(p), mustNP(q))
	if err != nil {
		g.c.Violation("NewPaillierGroup rejected primes " + hx(p) + " " + hx(q))
		return
	}
	ug := kg.ForgetOrder()
	ug2, err := znstar.NewPaillierGroupOfUnknownOrder(mustNP(mod), mustNP(n))
	if err != nil || !ug.Equal(ug2) || kg.N().Big().Cmp(n) != 0 {
		g.c.Violation("PaillierGroup.ForgetOrder != NewPaillierGroupOfUnknownOrder " + hx(n))
	}
	if _, err := znstar.NewPaillierGroupOfUnknownOrder(mustNP(new(big.Int).Add(mod, bOne)), mustNP(n)); err == nil {
		g.c.Violation("NewPaillierGroupOfUnknownOrder accepted n2 != n^2 " + hx(n))
	}
	if known {
		g.emit("zn.more "+kind+" "+args, func() string { return unitFields(g, kg, "pail", a, b, e, bits, u64) })
	} else {
		g.emit("zn.more "+kind+" "+args, func() string { return unitFields(g, ug, "pail", a, b, e, bits, u64) })
	}
	// Paillier-specific maps
	pt := g.residue(n)
	ru := g.residue(n)
	g.emit(fmt.Sprintf("zn.pail %s %s %s %s %s %s", bb(known), hx(p), hx(q), hx(a), hx(pt), hx(ru)), func() string {
		znN, _ := num.NewZMod(mustNP(n))
		ptU, _ := znN.FromBig(pt)
		rsaU, _ := znstar.NewRSAGroupOfUnknownOrder(mustNP(n))
		emb := "notunit"
		nth := "notunit"
		var rep string
		if known {
			rep = optUnit(kg.Representative(ptU))
			if x, err := kg.FromNatCT(mustN(a).Value()); err == nil {
				nth = optUnit(kg.NthResidue(x))
				fx := x.ForgetOrder()
				lx, err := fx.LearnOrder(kg)
				if err != nil || lx.Value().Big().Cmp(x.Value().Big()) != 0 || !x.Clone().Equal(x) || x.N().Big().Cmp(n) != 0 || !x.Group().Equal(kg) {
					g.c.Violation("Paillier LearnOrder/ForgetOrder changed the value " + hx(a))
				}
			}
			if u, err := rsaU.FromNatCT(mustN(ru).Value()); err == nil {
				emb = optUnit(kg.EmbedRSA(u))
			}
		} else {
			rep = optUnit(ug.Representative(ptU))
			if x, err := ug.FromNatCT(mustN(a).Value()); err == nil {
				nth = optUnit(ug.NthResidue(x))
			}
			if u, err := rsaU.FromNatCT(mustN(ru).Value()); err == nil {
				emb = optUnit(ug.EmbedRSA(u))
			}
		}
		return rep + "," + nth + "," + emb
	})
}

// c17Samplers: generated groups have prime factors of the requested form and the announced modulus.
func c17Samplers(g *g17) {
	reps := 2
	if g.c.Thorough() {
		reps = 12
	}
	factors := func(a *modular.OddPrimeFactors) string {
		return hx(a.Params.PNat.Big()) + "," + hx(a.Params.QNat.Big())
	}
	factors2 := func(a *modular.OddPrimeSquareFactors) string {
		return hx(a.CrtModN.Params.PNat.Big()) + "," + hx(a.CrtModN.Params.QNat.Big())
	}
	for rep := 0; rep < reps; rep++ {
		for _, bits := range []uint{32, 64, 128} {
			g.emit(fmt.Sprintf("zn.sample rsa plain %d", bits), func() string {
				grp, err := znstar.SampleRSAGroup(bits, g.r)
				if err != nil {
					return "err"
				}
				return factors(grp.Arithmetic()) + "," + hx(grp.Modulus().Big())
			})
			g.emit(fmt.Sprintf("zn.sample rsa blum %d", bits), func() string {
				grp, err := znstar.SampleBlumRSAGroup(bits, g.r)
				if err != nil {
					return "err"
				}
				return factors(grp.Arithmetic()) + "," + hx(grp.Modulus().Big())
			})
			g.emit(fmt.Sprintf("zn.sample pail plain %d", bits), func() string {
				grp, err := znstar.SamplePaillierGroup(bits, g.r)
				if err != nil {
					return "err"
				}
				return factors2(grp.Arithmetic()) + "," + hx(grp.Modulus().Big())
			})
			g.emit(fmt.Sprintf("zn.sample pail blum %d", bits), func() string {
				grp, err := znstar.SamplePaillierBlumGroup(bits, g.r)
				if err != nil {
					return "err"
				}
				return factors2(grp.Arithmetic()) + "," + hx(grp.Modulus().Big())
			})
		}
		g.emit("zn.sample rsa safe 64", func() string {
			grp, err := znstar.SampleSafeRSAGroup(64, g.r)
			if err != nil {
				return "err"
			}
			return factors(grp.Arithmetic()) + "," + hx(grp.Modulus().Big())
		})
		g.emit("zn.sample pail safe 64", func() string {
			grp, err := znstar.SampleSafePaillierGroup(64, g.r)
			if err != nil {
				return "err"
			}
			return factors2(grp.Arithmetic()) + "," + hx(grp.Modulus().Big())
		})
	}
}

// ---------------------------------------------------------------------------------- numct / cardinal / nt leftovers

func c17MiscMore(g *g17) {
	switch g.r.IntN(4) {
	case 0: // numct setters and the saferith casts
		x := g.cint()
		g.emit(fmt.Sprintf("ct.set %s", x), func() string {
			a, n := x.int(), numct.NewNatFromBig(new(big.Int).Abs(x.v), x.c)
			a1, a0 := a.Clone(), a.Clone()
			a1.SetOne()
			a0.SetZero()
			n1, n0 := n.Clone(), n.Clone()
			n1.SetOne()
			n0.SetZero()
			si := numct.NewIntFromSaferith((*saferith.Int)(a))
			sn := numct.NewNatFromSaferith((*saferith.Nat)(n))
			if si.Equal(a) != ct.True || sn.Equal(n) != ct.True {
				g.c.Violation("NewIntFromSaferith/NewNatFromSaferith changed the value " + x.String())
			}
			return hx(a1.Big()) + "," + hx(a0.Big()) + "," + hx(n1.Big()) + "," + hx(n0.Big()) + "," + intS(numct.IntOne()) + "," + intS(numct.IntZero())
		})
	case 1: // Modulus.Random / Nat.SetRandomRangeH: uniform sampling below a bound (the value is in the line)
		m := g.modulus()
		g.emit(fmt.Sprintf("ct.random %s", hx(m)), func() string {
			mod := mustModulus(m)
			v, err := mod.Random(g.r)
			if err != nil {
				return "err"
			}
			var h numct.Nat
			if err := h.SetRandomRangeH(mod.Nat(), g.r); err != nil {
				return hx(v.Big()) + ",err"
			}
			return hx(v.Big()) + "," + hx(h.Big())
		})
	case 2: // cardinal leftovers
		v := g.natN(1 + g.r.IntN(200))
		u := g.r.Uint64()
		if g.r.IntN(3) == 0 {
			u = uint64(g.r.IntN(3))
		}
		g.emit(fmt.Sprintf("card.more %s %s", hx(v), strconv.FormatUint(u, 16)), func() string {
			c := cardinal.NewFromBig(v)
			k := c.(cardinal.Known)
			cu := cardinal.New(u)
			g.alias("card.Clone", cardS(k.Clone()), cardS(c))
			g.alias("card.NewFromNumeric", cardS(cardinal.NewFromNumeric(mustN(v))), cardS(c))
			g.alias("card.Zero", cardS(cardinal.Zero())+bb(cardinal.Zero().IsZero()), "01")
			return hexBytes(k.BytesBE()) + "," + strconv.FormatUint(k.Uint64(), 16) + "," + bb(k.IsProbablyPrime()) + "," + cardS(cu) + "," + strconv.Itoa(cu.BitLen()) + "," + bb(cu.IsZero())
		})
	default: // nt.Random: exactly the requested bit length
		bits := uint([]int{1, 2, 3, 8, 63, 64, 65, 1 + g.r.IntN(300)}[g.r.IntN(8)])
		g.emit(fmt.Sprintf("nt.random %d", bits), func() string {
			a, err1 := nt.Random(num.N(), bits, g.r)
			b, err2 := nt.Random(num.NPlus(), bits, g.r)
			_, err3 := nt.Random(num.N(), 0, g.r)
			if err1 != nil || err2 != nil {
				return "err"
			}
			return hx(a.Big()) + "," + hx(b.Big()) + "," + bb(err3 != nil)
		})
	}
}

// c17Leftovers: the last constructors/constants the coverage join still listed (NPlus.FromRat/FromUint64/
// FromUnsignedNumeric/Random/Bottom, structure constants, Euclidean valuations). Own RNG stream, appended
// after everything else so that the earlier lines do not change.
func c17Leftovers(g *g17, count int) {
	for it := 0; it < count; it++ {
		a := g.natN(1 + g.r.IntN(200))
		rn, rd := ratOf(g)
		u := g.r.Uint64()
		if g.r.IntN(3) == 0 {
			u = uint64(g.r.IntN(3))
		}
		lo, hi := posNat(g, 150), posNat(g, 150)
		if lo.Cmp(hi) > 0 {
			lo, hi = hi, lo
		}
		if g.r.IntN(5) == 0 {
			hi = new(big.Int).Set(lo)
		}
		m := g.prime()
		if g.r.IntN(3) == 0 {
			m = g.modulus()
		}
		g.emit(fmt.Sprintf("NP.ctor %s %s|%s %s %s %s %s", hx(a), hx(rn), hx(rd), strconv.FormatUint(u, 16), hx(lo), hx(hi), hx(m)), func() string {
			g.alias("NP.Bottom/OpIdentity/One", hx(num.NPlus().Bottom().Big())+hx(num.NPlus().OpIdentity().Big())+hx(num.NPlus().One().Big()), "111")
			g.alias("Z.OpIdentity/Zero/One", hx(num.Z().OpIdentity().Big())+hx(num.Z().Zero().Big())+hx(num.Z().One().Big()), "001")
			g.alias("structure.Contains", bb(num.N().Contains(mustN(a)))+bb(num.Z().Contains(mustZ(a)))+bb(num.Q().Contains(mkRat(rn, rd)))+bb(num.NPlus().Contains(mustNP(lo))), "1111")
			g.alias("structure.Order", cardS(num.N().Order())+cardS(num.Z().Order())+cardS(num.Q().Order())+cardS(num.NPlus().Order()), "infinfinfinf")
			rnd := "err"
			if v, err := num.NPlus().Random(mustNP(lo), mustNP(hi), g.r); err == nil {
				rnd = hx(v.Big())
			}
			zn, _ := num.NewZMod(mustNP(m))
			x, _ := zn.FromBig(a)
			return joinComma([]string{optBig(num.NPlus().FromRat(mkRat(rn, rd))), optBig(num.NPlus().FromUint64(u)), optBig(num.NPlus().FromUnsignedNumeric(mustN(a))),
				cardS(mkRat(rn, rd).EuclideanValuation()), strconv.Itoa(x.AnnouncedLen()), rnd})
		})
	}
}
