package main

// C08: non-interactive proofs verify only for the right statement, prover and session.
//
// c08.go        generic engine: one sigma protocol (any X/W/A/S/Z) through the sigma level, the
//               simulator, the extractor, the three non-interactive compilers, the interactive ZK
//               compiler, context variations and proof-byte mutations.
// c08_adv.go    adversarial provers: component-count attacks, witness-free forgeries (simulator,
//               grinding), statement substitution, cross-protocol replay — for every compiler.
// c08_curve.go  the protocol instances over elliptic-curve groups and their line encodings.
// c08_int.go    integer-group instances (Paillier n-th root …).

import (
	"bytes"
	"crypto/sha3"
	"encoding/binary"
	"encoding/hex"
	"fmt"
	"math/big"
	"os"
	"time"

	"github.com/bronlabs/bron-crypto/pkg/base/datastructures/hashset"
	"github.com/bronlabs/bron-crypto/pkg/base/serde"
	"github.com/bronlabs/bron-crypto/pkg/base/utils/mathutils"
	"github.com/bronlabs/bron-crypto/pkg/hashing"
	"github.com/bronlabs/bron-crypto/pkg/mpc/session"
	"github.com/bronlabs/bron-crypto/pkg/mpc/sharing"
	"github.com/bronlabs/bron-crypto/pkg/proofs/sigma"
	"github.com/bronlabs/bron-crypto/pkg/proofs/sigma/compiler"
	"github.com/bronlabs/bron-crypto/pkg/proofs/sigma/compiler/fiatshamir"
	"github.com/bronlabs/bron-crypto/pkg/proofs/sigma/compiler/fischlin"
	"github.com/bronlabs/bron-crypto/pkg/proofs/sigma/compiler/randfischlin"
	"github.com/bronlabs/bron-crypto/pkg/proofs/sigma/compiler/zk"
)

func init() { register("C08", runC08) }

func runC08(c *Ctx) {
	c08Curve(c, "k256", cK256, 1)
	c08Curve(c, "ed25519", cEd25519, 2)
	c08Curve(c, "bls12381g1", cBLSG1, 3)
	c08Int(c)
}

// ---------------------------------------------------------------------------------- contexts

// ctxSpec describes a session context as the callers of the compilers build it: a session (common
// seed => session id + initial transcript), then the prover-identity label appended to the cloned
// context, optionally further transcript operations.
type ctxSpec struct {
	seed     []byte
	proverID uint64
	extra    bool // one more AppendBytes
	domsep   bool // one more AppendDomainSeparator
}

func (s ctxSpec) build() *session.Context {
	quorum := hashset.NewComparable[sharing.ID](1, 2).Freeze()
	pair := make([]byte, 64)
	copy(pair, s.seed)
	ctx, err := session.NewContext(2, quorum, s.seed, map[sharing.ID][]byte{1: pair})
	if err != nil {
		panic(fmt.Sprintf("c08 NewContext: %v", err))
	}
	ctx = ctx.Clone()
	ctx.Transcript().AppendBytes("C08_PROVER_ID-", binary.LittleEndian.AppendUint64(nil, s.proverID))
	if s.extra {
		ctx.Transcript().AppendBytes("C08_EXTRA-", []byte{0})
	}
	if s.domsep {
		ctx.Transcript().AppendDomainSeparator("C08")
	}
	return ctx
}

type ctxVariant struct {
	name string
	mod  func(ctxSpec) ctxSpec
}

func ctxVariants(r *Rng) []ctxVariant {
	other := make([]byte, 64)
	_, _ = r.Read(other)
	return []ctxVariant{
		{"sid", func(s ctxSpec) ctxSpec { s.seed = other; return s }},
		{"append", func(s ctxSpec) ctxSpec { s.extra = true; return s }},
		{"proverid", func(s ctxSpec) ctxSpec { s.proverID++; return s }},
		{"domsep", func(s ctxSpec) ctxSpec { s.domsep = true; return s }},
	}
}

// renamed is the same sigma protocol under another name.
type renamed[X sigma.Statement, W sigma.Witness, A sigma.Statement, S sigma.State, Z sigma.Response] struct {
	sigma.Protocol[X, W, A, S, Z]
	name sigma.Name
}

func (r renamed[X, W, A, S, Z]) Name() sigma.Name { return r.name }

// ---------------------------------------------------------------------------------- case

type sigCase[X sigma.Statement, W sigma.Witness, A sigma.Statement, S sigma.State, Z sigma.Response] struct {
	tag   string // statistics key, e.g. "schnorr.k256"
	proto sigma.Protocol[X, W, A, S, Z]
	x     X
	w     W
	x2    X // another valid statement (≠ x) with witness w2
	w2    W
	// line renders the model line for op ∈ {verify, fs, zk, sim}; "" = no model line for this op.
	// extra: fs → context challenge (hex); zk → "0"/"1".
	line func(op string, x X, a A, e []byte, z Z, extra string) string
	// fischlinLine renders the model line for a (rand)Fischlin proof; nil = none.
	fischlinLine func(rho int, x X, as []A, es [][]byte, zs []Z, ts []bool) string
	// extract runs the library extractor, returns the rendered witness and whether it validates.
	extract func(x X, a A, es []sigma.ChallengeBytes, zs []Z) (wStr string, valid bool, err error)
	// extractLine renders the model line for the extractor.
	extractLine func(x X, a A, e1 []byte, z1 Z, e2 []byte, z2 Z) string
	heavy       bool // fewer mutations (expensive verification)
	// fischlinQuick: run the two Fischlin compilers also in the quick tier (their provers search
	// ~2^b responses per repetition, which is slow when a response costs a group operation)
	fischlinQuick bool
	// sigmaOnly: in the quick tier only the sigma level (transcripts, simulator) is run
	sigmaOnly bool
	// ---- adversarial-prover family (c08_adv.go)
	// advFull: simulator calls and responses are cheap (a few scalar multiplications): the whole
	// adversarial Fischlin family also runs in the quick tier
	advFull bool
	// xVariants: statements that differ from x in exactly one component / in the order of components
	xVariants func(x X) []namedX[X]
	// resized: the same protocol (same name, same Go types) configured for another number of
	// components, with a valid statement/witness pair of that size
	resized []resized[X, W, A, S, Z]
	// foreign: verifiers of other protocols whose proof encoding has the same shape
	foreign []foreignVerifier
}

func eHex(e []byte) string { return hexNat(new(big.Int).SetBytes(e)) }

func res(err error) string {
	if err == nil {
		return "accept"
	}
	return "reject"
}

func (c *Ctx) emitIf(lhs, rhs string) {
	if lhs != "" {
		c.Emit(lhs, rhs)
	}
}

func randBytes(r *Rng, n int) []byte {
	b := make([]byte, n)
	_, _ = r.Read(b)
	return b
}

// runSigma drives one case through everything.
func runSigma[X sigma.Statement, W sigma.Witness, A sigma.Statement, S sigma.State, Z sigma.Response](c *Ctx, r *Rng, cs *sigCase[X, W, A, S, Z]) {
	defer func() {
		if e := recover(); e != nil {
			c.Violation(fmt.Sprintf("%s panic: %v", cs.tag, e))
		}
	}()
	if err := cs.proto.ValidateStatement(cs.x, cs.w); err != nil {
		c.Violation(fmt.Sprintf("%s ValidateStatement rejects a valid pair", cs.tag))
		return
	}
	t0 := time.Now()
	sigmaLevel(c, r, cs)
	if cs.sigmaOnly && !c.Thorough() {
		return
	}
	t1 := time.Now()
	fsLevel(c, r, cs)
	t2 := time.Now()
	if c.Thorough() || cs.fischlinQuick {
		fischlinLevel(c, r, cs, false)
	}
	t3 := time.Now()
	if c.Thorough() || cs.fischlinQuick {
		fischlinLevel(c, r, cs, true)
	}
	t4 := time.Now()
	zkLevel(c, r, cs)
	t5 := time.Now()
	advLevel(c, r, cs)
	if os.Getenv("C08_TIMING") != "" {
		fmt.Fprintf(os.Stderr, "%s sigma=%v fs=%v fischlin=%v randfischlin=%v zk=%v adv=%v\n", cs.tag, t1.Sub(t0), t2.Sub(t1), t3.Sub(t2), t4.Sub(t3), t5.Sub(t4), time.Since(t5))
	}
}

// ---------------------------------------------------------------------------------- sigma level

func sigmaLevel[X sigma.Statement, W sigma.Witness, A sigma.Statement, S sigma.State, Z sigma.Response](c *Ctx, r *Rng, cs *sigCase[X, W, A, S, Z]) {
	p := cs.proto
	n := p.GetChallengeBytesLength()
	a, st, err := p.ComputeProverCommitment(cs.x, cs.w)
	if err != nil {
		c.Violation(fmt.Sprintf("%s commitment failed: %v", cs.tag, err))
		return
	}
	e1 := randBytes(r, n)
	z1, err := p.ComputeProverResponse(cs.x, cs.w, a, st, e1)
	if err != nil {
		c.Violation(fmt.Sprintf("%s response failed", cs.tag))
		return
	}
	// completeness
	v := p.Verify(cs.x, a, e1, z1)
	if v != nil {
		c.Violation(fmt.Sprintf("%s honest transcript rejected e=%s", cs.tag, eHex(e1)))
	}
	c.Count(cs.tag + ".sigma.honest")
	c.emitIf(cs.line("verify", cs.x, a, e1, z1, ""), res(v))
	// another challenge for the same commitment
	e2 := randBytes(r, n)
	switch r.IntN(4) {
	case 0: // neighbouring challenges
		e2 = append([]byte{}, e1...)
		e2[n-1] ^= 1
	case 1:
		e2 = make([]byte, n)
	}
	z2, err := p.ComputeProverResponse(cs.x, cs.w, a, st, e2)
	if err != nil {
		c.Violation(fmt.Sprintf("%s response failed", cs.tag))
		return
	}
	v2 := p.Verify(cs.x, a, e2, z2)
	if v2 != nil {
		c.Violation(fmt.Sprintf("%s honest transcript rejected e=%s", cs.tag, eHex(e2)))
	}
	c.emitIf(cs.line("verify", cs.x, a, e2, z2, ""), res(v2))
	// crossed / wrong pieces: response for the other challenge, other statement, foreign commitment
	if !bytes.Equal(e1, e2) {
		vx := p.Verify(cs.x, a, e1, z2)
		if vx == nil {
			c.Violation(fmt.Sprintf("%s response for another challenge accepted", cs.tag))
		}
		c.emitIf(cs.line("verify", cs.x, a, e1, z2, ""), res(vx))
	}
	vs := p.Verify(cs.x2, a, e1, z1)
	if vs == nil {
		c.Violation(fmt.Sprintf("%s transcript accepted for another statement", cs.tag))
	}
	c.emitIf(cs.line("verify", cs.x2, a, e1, z1, ""), res(vs))
	if aO, _, err := p.ComputeProverCommitment(cs.x, cs.w); err == nil {
		vo := p.Verify(cs.x, aO, e1, z1)
		if vo == nil {
			c.Violation(fmt.Sprintf("%s transcript accepted with a foreign commitment", cs.tag))
		}
		c.emitIf(cs.line("verify", cs.x, aO, e1, z1, ""), res(vo))
	}
	c.Count(cs.tag + ".sigma.negative")

	// simulator
	for k := 0; k < 2; k++ {
		es := randBytes(r, n)
		x := cs.x
		if k == 1 {
			x = cs.x2
		}
		aS, zS, err := p.RunSimulator(x, es)
		if err != nil {
			c.Violation(fmt.Sprintf("%s simulator failed", cs.tag))
			continue
		}
		vS := p.Verify(x, aS, es, zS)
		if vS != nil {
			c.Violation(fmt.Sprintf("%s simulated transcript rejected e=%s", cs.tag, eHex(es)))
		}
		c.Count(cs.tag + ".sim")
		c.emitIf(cs.line("sim", x, aS, es, zS, ""), res(vS))
	}

	// extractor
	if cs.extract != nil {
		wStr, valid, err := cs.extract(cs.x, a, []sigma.ChallengeBytes{e1, e2}, []Z{z1, z2})
		out := "err"
		if err == nil {
			out = "ok:" + wStr
			if !valid {
				c.Violation(fmt.Sprintf("%s extracted witness does not validate e1=%s e2=%s", cs.tag, eHex(e1), eHex(e2)))
			}
		} else if !bytes.Equal(e1, e2) {
			c.Violation(fmt.Sprintf("%s extractor failed on two accepting transcripts e1=%s e2=%s", cs.tag, eHex(e1), eHex(e2)))
		}
		c.Count(cs.tag + ".extract")
		c.Emit(cs.extractLine(cs.x, a, e1, z1, e2, z2), out)
		// same challenge twice: nothing to extract
		_, _, errSame := cs.extract(cs.x, a, []sigma.ChallengeBytes{e1, e1}, []Z{z1, z1})
		outSame := "err"
		if errSame == nil {
			outSame = "ok:?"
		}
		fmt.Fprintf(c.Out, "#TRIVIAL\n")
		c.Emit(cs.extractLine(cs.x, a, e1, z1, e1, z1), outSame)
	}
}

// ---------------------------------------------------------------------------------- mutations

// mutants returns the mutated copies of proof to try: single-bit flips (all in thorough, a
// stratified sample otherwise) and structural changes (truncate, extend, duplicate a byte).
func mutants(c *Ctx, r *Rng, proof []byte, heavy bool) [][]byte {
	var out [][]byte
	nbits := len(proof) * 8
	flip := func(bit int) {
		m := append([]byte{}, proof...)
		m[bit/8] ^= 1 << (bit % 8)
		out = append(out, m)
	}
	budget := 48
	if heavy {
		budget = 16
	}
	if c.Thorough() {
		budget = nbits
		if heavy {
			budget = 400
		}
	}
	if budget >= nbits {
		for b := 0; b < nbits; b++ {
			flip(b)
		}
	} else {
		// stratified: one random bit in each of `budget` equal strata
		for k := 0; k < budget; k++ {
			lo := k * nbits / budget
			hi := (k + 1) * nbits / budget
			if hi <= lo {
				hi = lo + 1
			}
			flip(lo + r.IntN(hi-lo))
		}
	}
	out = append(out, append([]byte{}, proof[:len(proof)-1]...))
	out = append(out, append(append([]byte{}, proof...), 0))
	out = append(out, append(append([]byte{}, proof...), proof...))
	if len(proof) > 2 {
		k := 1 + r.IntN(len(proof)-1)
		m := append([]byte{}, proof[:k]...)
		m = append(m, proof[k-1])
		m = append(m, proof[k:]...)
		out = append(out, m)
	}
	return out
}

func lp(parts ...[]byte) []byte {
	var out []byte
	for _, p := range parts {
		out = binary.BigEndian.AppendUint64(out, uint64(len(p)))
		out = append(out, p...)
	}
	return out
}

// ---------------------------------------------------------------------------------- Fiat–Shamir

const (
	fsTranscriptLabel = "BRON_CRYPTO_NIZKP_FIATSHAMIR-"
	fsStatementLabel  = "BRON_CRYPTO_CGGMP21_ZKMODULE_ZK_STATEMENT-"
	fsCommitmentLabel = "BRON_CRYPTO_CGGMP21_ZKMODULE_ZK_COMMITMENT-"
	fsChallengeLabel  = "BRON_CRYPTO_CGGMP21_ZKMODULE_ZK_CHALLENGE-"
)

// fsChallenge derives, independently of the compiler code, the challenge the property demands for
// (context, protocol name, statement, commitment): through the real transcript.
func fsChallenge(ctx *session.Context, name sigma.Name, xBytes, aBytes []byte, n int) []byte {
	sid := ctx.SessionID()
	t := ctx.Transcript()
	t.AppendDomainSeparator(hex.EncodeToString(sid[:]) + "-" + fsTranscriptLabel + "-" + string(name))
	t.AppendBytes(fsStatementLabel, xBytes)
	t.AppendBytes(fsCommitmentLabel, aBytes)
	e, err := t.ExtractBytes(fsChallengeLabel, uint(n))
	if err != nil {
		panic(err)
	}
	return e
}

type fsDecoded[A sigma.Statement, Z sigma.Response] struct {
	a   A
	e   []byte
	z   Z
	key []byte
}

func fsDecode[A sigma.Statement, Z sigma.Response](proof []byte) (d *fsDecoded[A, Z]) {
	defer func() {
		if e := recover(); e != nil {
			d = nil
		}
	}()
	p, err := serde.UnmarshalCBOR[*fiatshamir.Proof[A, Z]](proof)
	if err != nil || p == nil {
		return nil
	}
	return &fsDecoded[A, Z]{a: p.Commitment(), e: p.Challenge(), z: p.Response(),
		key: lp(p.Commitment().Bytes(), p.Challenge(), p.Response().Bytes())}
}

func fsLevel[X sigma.Statement, W sigma.Witness, A sigma.Statement, S sigma.State, Z sigma.Response](c *Ctx, r *Rng, cs *sigCase[X, W, A, S, Z]) {
	tag := cs.tag + ".fs"
	ni, err := compiler.Compile(fiatshamir.Name, cs.proto, r)
	if err != nil {
		c.Violation(fmt.Sprintf("%s compile failed: %v", tag, err))
		return
	}
	spec := ctxSpec{seed: randBytes(r, 64), proverID: 1}
	prover, err := ni.NewProver(spec.build())
	if err != nil {
		c.Violation(tag + " NewProver failed")
		return
	}
	proof, err := prover.Prove(cs.x, cs.w)
	if err != nil {
		c.Violation(fmt.Sprintf("%s Prove failed: %v", tag, err))
		return
	}
	n := cs.proto.GetChallengeBytesLength()
	orig := fsDecode[A, Z](proof)
	if orig == nil {
		c.Violation(tag + " honest proof does not decode")
		return
	}
	// verify the bytes `pf` for statement x with protocol `proto` in the context `sp`; emit the model line
	check := func(kind string, sp ctxSpec, proto sigma.Protocol[X, W, A, S, Z], x X, pf []byte, wantAccept bool, emit bool) string {
		nip, err := compiler.Compile(fiatshamir.Name, proto, r)
		if err != nil {
			c.Violation(tag + " compile failed")
			return "reject"
		}
		ver, err := nip.NewVerifier(sp.build())
		if err != nil {
			c.Violation(tag + " NewVerifier failed")
			return "reject"
		}
		out := safely(func() string { return res(ver.Verify(x, pf)) })
		if wantAccept && out != "accept" {
			c.Violation(fmt.Sprintf("%s honest proof rejected (%s) proof=%s", tag, out, hexBytes(pf)))
		}
		if !wantAccept && out != "reject" {
			c.Violation(fmt.Sprintf("%s proof accepted under different %s: %s proof=%s", tag, kind, out, hexBytes(pf)))
		}
		if emit {
			if d := fsDecode[A, Z](pf); d != nil {
				eCtx := fsChallenge(sp.build(), proto.Name(), x.Bytes(), d.a.Bytes(), n)
				c.emitIf(cs.line("fs", x, d.a, d.e, d.z, hexBytes(eCtx)), out)
			}
		}
		return out
	}
	check("-", spec, cs.proto, cs.x, proof, true, true)
	c.Count(tag + ".honest")
	for _, v := range ctxVariants(r) {
		check(v.name, v.mod(spec), cs.proto, cs.x, proof, false, true)
		c.Count(tag + ".ctx." + v.name)
	}
	check("protocol-name", spec, renamed[X, W, A, S, Z]{cs.proto, cs.proto.Name() + "'"}, cs.x, proof, false, true)
	check("statement", spec, cs.proto, cs.x2, proof, false, true)
	c.Count(tag + ".ctx.name+statement")
	// replay on the same (advanced) verifier context
	{
		ctx := spec.build()
		v1, _ := ni.NewVerifier(ctx)
		if err := v1.Verify(cs.x, proof); err != nil {
			c.Violation(tag + " honest proof rejected")
		}
		v2, _ := ni.NewVerifier(ctx)
		if err := v2.Verify(cs.x, proof); err == nil {
			c.Violation(fmt.Sprintf("%s proof accepted again on the advanced transcript proof=%s", tag, hexBytes(proof)))
		}
		c.Count(tag + ".ctx.replay")
	}
	// byte mutations
	for _, m := range mutants(c, r, proof, cs.heavy) {
		ver, _ := ni.NewVerifier(spec.build())
		out := safely(func() string { return res(ver.Verify(cs.x, m)) })
		d := fsDecode[A, Z](m)
		switch {
		case d == nil:
			c.Count(tag + ".mut.undecodable")
			if out == "accept" {
				c.Violation(fmt.Sprintf("%s undecodable mutant accepted proof=%s", tag, hexBytes(m)))
			}
		case bytes.Equal(d.key, orig.key):
			c.Count(tag + ".mut.same-value")
			if out != "accept" {
				c.Violation(fmt.Sprintf("%s re-encoding of the same values rejected (%s) proof=%s", tag, out, hexBytes(m)))
			}
		default:
			c.Count(tag + ".mut.different-value")
			if out == "accept" {
				c.Violation(fmt.Sprintf("%s mutant with a different decoded value accepted proof=%s", tag, hexBytes(m)))
			}
			// the model evaluates a sample of these (each costs two scalar multiplications there)
			pct := 15
			if c.Thorough() {
				pct = 30
			}
			if r.IntN(100) < pct {
				eCtx := fsChallenge(spec.build(), cs.proto.Name(), cs.x.Bytes(), d.a.Bytes(), n)
				c.emitIf(cs.line("fs", cs.x, d.a, d.e, d.z, hexBytes(eCtx)), out)
			}
		}
	}
}

// ---------------------------------------------------------------------------------- Fischlin

type fischlinParams struct{ rho, b, t int }

// fischlinParamsOf recomputes (ρ, b, t) of fischlin.NewCompiler from the published formulae.
func fischlinParamsOf(name sigma.Name, specialSoundness uint) fischlinParams {
	rho := 16
	if name == "PAILLIER_NTH_ROOTS" || name == "ZKPOK_PAILLIER_NTH_ROOTS" {
		rho = 32
	}
	b := (128+rho-1)/rho + mathutils.CeilLog2(int(specialSoundness)-1)
	t := b + 5
	if rho > 64 {
		t = b + 6
	}
	return fischlinParams{rho, b, t}
}

type flDecoded[A sigma.Statement, Z sigma.Response] struct {
	a   []A
	e   [][]byte
	z   []Z
	key []byte
}

func flDecode[A sigma.Statement, Z sigma.Response](proof []byte, randomised bool) (d *flDecoded[A, Z]) {
	defer func() {
		if e := recover(); e != nil {
			d = nil
		}
	}()
	d = &flDecoded[A, Z]{}
	if randomised {
		p, err := serde.UnmarshalCBOR[*randfischlin.Proof[A, Z]](proof)
		if err != nil || p == nil {
			return nil
		}
		d.a, d.e, d.z = p.A, p.E, p.Z
	} else {
		p, err := serde.UnmarshalCBOR[*fischlin.Proof[A, Z]](proof)
		if err != nil || p == nil {
			return nil
		}
		d.a, d.e, d.z = p.A, p.E, p.Z
	}
	if len(d.a) != len(d.e) || len(d.a) != len(d.z) {
		return nil
	}
	for i := range d.a {
		d.key = append(d.key, lp(d.a[i].Bytes(), d.e[i], d.z[i].Bytes())...)
	}
	return d
}

func sha3Concat(parts ...[]byte) []byte {
	h := sha3.New256()
	for _, p := range parts {
		_, _ = h.Write(p)
	}
	return h.Sum(nil)
}

// fischlinTargets recomputes independently, through the real transcript and SHA3, which
// repetitions meet the hash target in the given context.
func fischlinTargets[A sigma.Statement, Z sigma.Response](ctx *session.Context, name sigma.Name, fp fischlinParams, xBytes []byte, d *flDecoded[A, Z]) []bool {
	sid := ctx.SessionID()
	t := ctx.Transcript()
	t.AppendDomainSeparator("BRON_CRYPTO_NIZK_FISCHLIN-" + "-" + string(name) + "-" + hex.EncodeToString(sid[:]))
	t.AppendBytes("rhoLabel-", binary.LittleEndian.AppendUint64(nil, uint64(fp.rho)))
	t.AppendBytes("statementLabel-", xBytes)
	key, err := t.ExtractBytes("commonHLabel-", 32)
	if err != nil {
		panic(err)
	}
	var aCat []byte
	for _, a := range d.a {
		aCat = append(aCat, a.Bytes()...)
	}
	commonH := sha3Concat(key, xBytes, aCat, sid[:])
	out := make([]bool, len(d.a))
	for i := range d.a {
		idx := binary.LittleEndian.AppendUint64(make([]byte, 8), uint64(i))
		h := sha3Concat(commonH, idx, d.e[i], d.z[i].Bytes())
		// the first b bits (little-endian within the last partial byte) must vanish
		ok := len(d.e[i]) == (fp.t+7)/8
		for bit := 0; bit < fp.b; bit++ {
			if h[bit/8]&(1<<(bit%8)) != 0 {
				ok = false
			}
		}
		out[i] = ok
	}
	return out
}

func randFischlinTargets[A sigma.Statement, Z sigma.Response](ctx *session.Context, name sigma.Name, xBytes []byte, d *flDecoded[A, Z]) []bool {
	sid := ctx.SessionID()
	t := ctx.Transcript()
	const label = "BRON_CRYPTO_NIZK_RANDOMISED_FISCHLIN-"
	t.AppendDomainSeparator(label + "-" + string(name) + "-" + hex.EncodeToString(sid[:]))
	t.AppendDomainSeparator(label + "-" + hex.EncodeToString(sid[:]))
	crs, err := t.ExtractBytes("crsLabel-", 32)
	if err != nil {
		panic(err)
	}
	var aCat []byte
	for _, a := range d.a {
		aCat = append(aCat, a.Bytes()...)
	}
	out := make([]bool, len(d.a))
	for i := range d.a {
		h, err := hashing.HashIndexLengthPrefixed(sha3.New256, crs, aCat, binary.LittleEndian.AppendUint64(nil, uint64(i)), d.e[i], d.z[i].Bytes())
		out[i] = err == nil && h[0] == 0
	}
	return out
}

func fischlinLevel[X sigma.Statement, W sigma.Witness, A sigma.Statement, S sigma.State, Z sigma.Response](c *Ctx, r *Rng, cs *sigCase[X, W, A, S, Z], randomised bool) {
	tag := cs.tag + ".fischlin"
	cname := fischlin.Name
	if randomised {
		tag = cs.tag + ".randfischlin"
		cname = randfischlin.Name
	}
	ni, err := compiler.Compile(cname, cs.proto, r)
	if err != nil {
		c.Violation(fmt.Sprintf("%s compile failed: %v", tag, err))
		return
	}
	fp := fischlinParamsOf(cs.proto.Name(), cs.proto.SpecialSoundness())
	if randomised {
		fp = fischlinParams{rho: 16}
	}
	spec := ctxSpec{seed: randBytes(r, 64), proverID: 1}
	prover, err := ni.NewProver(spec.build())
	if err != nil {
		c.Violation(tag + " NewProver failed")
		return
	}
	proof, err := prover.Prove(cs.x, cs.w)
	if err != nil {
		c.Violation(fmt.Sprintf("%s Prove failed: %v", tag, err))
		return
	}
	orig := flDecode[A, Z](proof, randomised)
	if orig == nil {
		c.Violation(tag + " honest proof does not decode")
		return
	}
	targets := func(sp ctxSpec, name sigma.Name, x X, d *flDecoded[A, Z]) []bool {
		if randomised {
			return randFischlinTargets(sp.build(), name, x.Bytes(), d)
		}
		return fischlinTargets(sp.build(), name, fp, x.Bytes(), d)
	}
	check := func(kind string, sp ctxSpec, proto sigma.Protocol[X, W, A, S, Z], x X, pf []byte, wantAccept bool, emit bool) {
		nip, err := compiler.Compile(cname, proto, r)
		if err != nil {
			c.Violation(tag + " compile failed")
			return
		}
		ver, err := nip.NewVerifier(sp.build())
		if err != nil {
			c.Violation(tag + " NewVerifier failed")
			return
		}
		out := safely(func() string { return res(ver.Verify(x, pf)) })
		if wantAccept && out != "accept" {
			c.Violation(fmt.Sprintf("%s honest proof rejected (%s) proof=%s", tag, out, hexBytes(pf)))
		}
		if !wantAccept && out != "reject" {
			c.Violation(fmt.Sprintf("%s proof accepted under different %s: %s proof=%s", tag, kind, out, hexBytes(pf)))
		}
		if emit && cs.fischlinLine != nil {
			if d := flDecode[A, Z](pf, randomised); d != nil {
				c.Emit(cs.fischlinLine(fp.rho, x, d.a, d.e, d.z, targets(sp, proto.Name(), x, d)), out)
			}
		}
	}
	check("-", spec, cs.proto, cs.x, proof, true, true)
	c.Count(tag + ".honest")
	for i, v := range ctxVariants(r) {
		check(v.name, v.mod(spec), cs.proto, cs.x, proof, false, i == int(c.Seed)%4 || c.Thorough())
		c.Count(tag + ".ctx." + v.name)
	}
	check("protocol-name", spec, renamed[X, W, A, S, Z]{cs.proto, cs.proto.Name() + "'"}, cs.x, proof, false, c.Thorough())
	check("statement", spec, cs.proto, cs.x2, proof, false, true)
	c.Count(tag + ".ctx.name+statement")
	{
		ctx := spec.build()
		v1, _ := ni.NewVerifier(ctx)
		if err := v1.Verify(cs.x, proof); err != nil {
			c.Violation(tag + " honest proof rejected")
		}
		v2, _ := ni.NewVerifier(ctx)
		if err := v2.Verify(cs.x, proof); err == nil {
			c.Violation(fmt.Sprintf("%s proof accepted again on the advanced transcript proof=%s", tag, hexBytes(proof)))
		}
		c.Count(tag + ".ctx.replay")
	}
	emitted := 0
	maxEmit := 3
	if c.Thorough() {
		maxEmit = 24
	}
	for _, m := range mutants(c, r, proof, true) {
		ver, _ := ni.NewVerifier(spec.build())
		out := safely(func() string { return res(ver.Verify(cs.x, m)) })
		d := flDecode[A, Z](m, randomised)
		switch {
		case d == nil:
			c.Count(tag + ".mut.undecodable")
			if out == "accept" {
				c.Violation(fmt.Sprintf("%s undecodable mutant accepted proof=%s", tag, hexBytes(m)))
			}
		case bytes.Equal(d.key, orig.key):
			c.Count(tag + ".mut.same-value")
			if out != "accept" {
				c.Violation(fmt.Sprintf("%s re-encoding of the same values rejected (%s) proof=%s", tag, out, hexBytes(m)))
			}
		default:
			c.Count(tag + ".mut.different-value")
			if out == "accept" {
				c.Violation(fmt.Sprintf("%s mutant with a different decoded value accepted proof=%s", tag, hexBytes(m)))
			}
			if cs.fischlinLine != nil && emitted < maxEmit {
				emitted++
				c.Emit(cs.fischlinLine(fp.rho, cs.x, d.a, d.e, d.z, targets(spec, cs.proto.Name(), cs.x, d)), out)
			}
		}
	}
}

// ---------------------------------------------------------------------------------- ZK compiler

func zkLevel[X sigma.Statement, W sigma.Witness, A sigma.Statement, S sigma.State, Z sigma.Response](c *Ctx, r *Rng, cs *sigCase[X, W, A, S, Z]) {
	tag := cs.tag + ".zk"
	spec := ctxSpec{seed: randBytes(r, 64), proverID: 1}
	// run executes the five rounds with the prover in pSpec/pProto/px and the verifier in vSpec/vProto/vx
	run := func(kind string, pSpec, vSpec ctxSpec, pProto, vProto sigma.Protocol[X, W, A, S, Z], px, vx X, wantAccept bool) {
		out := safely(func() string {
			prover, err := zk.NewProver(pSpec.build(), pProto, px, cs.w)
			if err != nil {
				return "err:newprover"
			}
			verifier, err := zk.NewVerifier(vSpec.build(), vProto, vx, r)
			if err != nil {
				return "err:newverifier"
			}
			cc, err := verifier.Round1()
			if err != nil {
				return "err:round1"
			}
			a, err := prover.Round2(cc)
			if err != nil {
				return "err:round2"
			}
			e, wit, err := verifier.Round3(a)
			if err != nil {
				return "err:round3"
			}
			z, err := prover.Round4(e, wit)
			if err != nil {
				// the prover refuses to answer: the opening of the challenge commitment failed
				c.Count(tag + ".prover-refused")
				return "reject"
			}
			v := verifier.Verify(z)
			c.emitIf(cs.line("zk", vx, a, e, z, "1"), res(v))
			return res(v)
		})
		if wantAccept && out != "accept" {
			c.Violation(fmt.Sprintf("%s honest run rejected (%s)", tag, out))
		}
		if !wantAccept && out != "reject" {
			c.Violation(fmt.Sprintf("%s run accepted under different %s: %s", tag, kind, out))
		}
	}
	run("-", spec, spec, cs.proto, cs.proto, cs.x, cs.x, true)
	c.Count(tag + ".honest")
	for _, v := range ctxVariants(r) {
		run(v.name, spec, v.mod(spec), cs.proto, cs.proto, cs.x, cs.x, false)
		c.Count(tag + ".ctx." + v.name)
	}
	run("protocol-name", spec, spec, cs.proto, renamed[X, W, A, S, Z]{cs.proto, cs.proto.Name() + "'"}, cs.x, cs.x, false)
	run("statement", spec, spec, cs.proto, cs.proto, cs.x, cs.x2, false)
	c.Count(tag + ".ctx.name+statement")
}
