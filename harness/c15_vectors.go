package main

func c15Vectors(c *Ctx) {}
