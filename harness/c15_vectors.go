package main

// C15 — published vectors: BIP-340 (bips/bip-0340/test-vectors.csv as carried by the repository's tests)
// and the BLS JSON vectors under pkg/signatures/bls/vectors, also run through the Lean verifier.

import (
	"bytes"
	"encoding/hex"
	"encoding/json"
	"fmt"
	"os"
	"path/filepath"
	"sort"
	"strings"

	"github.com/bronlabs/bron-crypto/pkg/base/curves/pairable"
	"github.com/bronlabs/bron-crypto/pkg/base/curves/pairable/bls12381"
	"github.com/bronlabs/bron-crypto/pkg/signatures/bls"
	"github.com/bronlabs/bron-crypto/pkg/signatures/schnorrlike/bip340"
)

type c15Bip340Vec struct {
	sk, pk, aux, msg, sig string
	valid                 bool
}

var c15Bip340Vectors = []c15Bip340Vec{
	{"0000000000000000000000000000000000000000000000000000000000000003", "f9308a019258c31049344f85f89d5229b531c845836f99b08601f113bce036f9", "0000000000000000000000000000000000000000000000000000000000000000", "0000000000000000000000000000000000000000000000000000000000000000", "e907831f80848d1069a5371b402410364bdf1c5f8307b0084c55f1ce2dca821525f66a4a85ea8b71e482a74f382d2ce5ebeee8fdb2172f477df4900d310536c0", true},
	{"b7e151628aed2a6abf7158809cf4f3c762e7160f38b4da56a784d9045190cfef", "dff1d77f2a671c5f36183726db2341be58feae1da2deced843240f7b502ba659", "0000000000000000000000000000000000000000000000000000000000000001", "243f6a8885a308d313198a2e03707344a4093822299f31d0082efa98ec4e6c89", "6896bd60eeae296db48a229ff71dfe071bde413e6d43f917dc8dcf8c78de33418906d11ac976abccb20b091292bff4ea897efcb639ea871cfa95f6de339e4b0a", true},
	{"c90fdaa22168c234c4c6628b80dc1cd129024e088a67cc74020bbea63b14e5c9", "dd308afec5777e13121fa72b9cc1b7cc0139715309b086c960e18fd969774eb8", "c87aa53824b4d7ae2eb035a2b5bbbccc080e76cdc6d1692c4b0b62d798e6d906", "7e2d58d8b3bcdf1abadec7829054f90dda9805aab56c77333024b9d0a508b75c", "5831aaeed7b44bb74e5eab94ba9d4294c49bcf2a60728d8b4c200f50dd313c1bab745879a5ad954a72c45a91c3a51d3c7adea98d82f8481e0e1e03674a6f3fb7", true},
	{"0b432b2677937381aef05bb02a66ecd012773062cf3fa2549e44f58ed2401710", "25d1dff95105f5253c4022f628a996ad3a0d95fbf21d468a1b33f8c160d8f517", "ffffffffffffffffffffffffffffffffffffffffffffffffffffffffffffffff", "ffffffffffffffffffffffffffffffffffffffffffffffffffffffffffffffff", "7eb0509757e246f19449885651611cb965ecc1a187dd51b64fda1edc9637d5ec97582b9cb13db3933705b32ba982af5af25fd78881ebb32771fc5922efc66ea3", true},
	{"", "d69c3509bb99e412e68b0fe8544e72837dfa30746d8be2aa65975f29d22dc7b9", "", "4df3c3f68fcc83b27e9d42c90431a72499f17875c81a599b566c9889b9696703", "00000000000000000000003b78ce563f89a0ed9414f5aa28ad0d96d6795f9c6376afb1548af603b3eb45c9f8207dee1060cb71c04e80f593060b07d28308d7f4", true},
	{"", "eefdea4cdb677750a420fee807eacf21eb9898ae79b9768766e4faa04a2d4a34", "", "243f6a8885a308d313198a2e03707344a4093822299f31d0082efa98ec4e6c89", "6cff5c3ba86c69ea4b7376f31a9bcb4f74c1976089b2d9963da2e5543e17776969e89b4c5564d00349106b8497785dd7d1d713a8ae82b32fa79d5f7fc407d39b", false},
	{"", "dff1d77f2a671c5f36183726db2341be58feae1da2deced843240f7b502ba659", "", "243f6a8885a308d313198a2e03707344a4093822299f31d0082efa98ec4e6c89", "fff97bd5755eeea420453a14355235d382f6472f8568a18b2f057a14602975563cc27944640ac607cd107ae10923d9ef7a73c643e166be5ebeafa34b1ac553e2", false},
	{"", "dff1d77f2a671c5f36183726db2341be58feae1da2deced843240f7b502ba659", "", "243f6a8885a308d313198a2e03707344a4093822299f31d0082efa98ec4e6c89", "1fa62e331edbc21c394792d2ab1100a7b432b013df3f6ff4f99fcb33e0e1515f28890b3edb6e7189b630448b515ce4f8622a954cfe545735aaea5134fccdb2bd", false},
	{"", "dff1d77f2a671c5f36183726db2341be58feae1da2deced843240f7b502ba659", "", "243f6a8885a308d313198a2e03707344a4093822299f31d0082efa98ec4e6c89", "6cff5c3ba86c69ea4b7376f31a9bcb4f74c1976089b2d9963da2e5543e177769961764b3aa9b2ffcb6ef947b6887a226e8d7c93e00c5ed0c1834ff0d0c2e6da6", false},
	{"", "dff1d77f2a671c5f36183726db2341be58feae1da2deced843240f7b502ba659", "", "243f6a8885a308d313198a2e03707344a4093822299f31d0082efa98ec4e6c89", "0000000000000000000000000000000000000000000000000000000000000000123dda8328af9c23a94c1feecfd123ba4fb73476f0d594dcb65c6425bd186051", false},
	{"", "dff1d77f2a671c5f36183726db2341be58feae1da2deced843240f7b502ba659", "", "243f6a8885a308d313198a2e03707344a4093822299f31d0082efa98ec4e6c89", "00000000000000000000000000000000000000000000000000000000000000017615fbaf5ae28864013c099742deadb4dba87f11ac6754f93780d5a1837cf197", false},
	{"", "dff1d77f2a671c5f36183726db2341be58feae1da2deced843240f7b502ba659", "", "243f6a8885a308d313198a2e03707344a4093822299f31d0082efa98ec4e6c89", "4a298dacae57395a15d0795ddbfd1dcb564da82b0f269bc70a74f8220429ba1d69e89b4c5564d00349106b8497785dd7d1d713a8ae82b32fa79d5f7fc407d39b", false},
	{"", "dff1d77f2a671c5f36183726db2341be58feae1da2deced843240f7b502ba659", "", "243f6a8885a308d313198a2e03707344a4093822299f31d0082efa98ec4e6c89", "fffffffffffffffffffffffffffffffffffffffffffffffffffffffefffffc2f69e89b4c5564d00349106b8497785dd7d1d713a8ae82b32fa79d5f7fc407d39b", false},
	{"", "dff1d77f2a671c5f36183726db2341be58feae1da2deced843240f7b502ba659", "", "243f6a8885a308d313198a2e03707344a4093822299f31d0082efa98ec4e6c89", "6cff5c3ba86c69ea4b7376f31a9bcb4f74c1976089b2d9963da2e5543e177769fffffffffffffffffffffffffffffffebaaedce6af48a03bbfd25e8cd0364141", false},
	{"", "fffffffffffffffffffffffffffffffffffffffffffffffffffffffefffffc30", "", "243f6a8885a308d313198a2e03707344a4093822299f31d0082efa98ec4e6c89", "6cff5c3ba86c69ea4b7376f31a9bcb4f74c1976089b2d9963da2e5543e17776969e89b4c5564d00349106b8497785dd7d1d713a8ae82b32fa79d5f7fc407d39b", false},
	{"0340034003400340034003400340034003400340034003400340034003400340", "778caa53b4393ac467774d09497a87224bf9fab6f6e68b23086497324d6fd117", "0000000000000000000000000000000000000000000000000000000000000000", "", "71535db165ecd9fbbc046e5ffaea61186bb6ad436732fccc25291a55895464cf6069ce26bf03466228f19a3a62db8a649f2d560fac652827d1af0574e427ab63", true},
	{"0340034003400340034003400340034003400340034003400340034003400340", "778caa53b4393ac467774d09497a87224bf9fab6f6e68b23086497324d6fd117", "0000000000000000000000000000000000000000000000000000000000000000", "11", "08a20a0afef64124649232e0693c583ab1b9934ae63b4c3511f3ae1134c6a303ea3173bfea6683bd101fa5aa5dbc1996fe7cacfc5a577d33ec14564cec2bacbf", true},
	{"0340034003400340034003400340034003400340034003400340034003400340", "778caa53b4393ac467774d09497a87224bf9fab6f6e68b23086497324d6fd117", "0000000000000000000000000000000000000000000000000000000000000000", "0102030405060708090a0b0c0d0e0f1011", "5130f39a4059b43bc7cac09a19ece52b5d8699d1a71e3c52da9afdb6b50ac370c4a482b77bf960f8681540e25b6771ece1e5a37fd80e5a51897c5566a97ea5a5", true},
	{"0340034003400340034003400340034003400340034003400340034003400340", "778caa53b4393ac467774d09497a87224bf9fab6f6e68b23086497324d6fd117", "0000000000000000000000000000000000000000000000000000000000000000", "99999999999999999999999999999999999999999999999999999999999999999999999999999999999999999999999999999999999999999999999999999999999999999999999999999999999999999999999999999999999999999999999999999999", "403b12b0d8555a344175ea7ec746566303321e5dbfa8be6f091635163eca79a8585ed3e3170807e7c03b720fc54c7b23897fcba0e9d0b4a06894cfd249f22367", true},
}

func c15Vectors(c *Ctx) {
	c15Bip340Vecs(c)
	c15BlsVecs(c)
}

func c15Bip340Vecs(c *Ctx) {
	for i, v := range c15Bip340Vectors {
		msg, _ := hex.DecodeString(v.msg)
		sigB, _ := hex.DecodeString(v.sig)
		pkB, _ := hex.DecodeString(v.pk)
		tag := fmt.Sprintf("vec%d", i)
		// signing vectors are known-answer tests
		if v.sk != "" {
			skB, _ := hex.DecodeString(v.sk)
			auxB, _ := hex.DecodeString(v.aux)
			var aux [32]byte
			copy(aux[:], auxB)
			skv, err := fK256.FromBytes(skB)
			if err != nil {
				c.Violation(fmt.Sprintf("bip340 %s: cannot decode secret key", tag))
				continue
			}
			sk, err := bip340.NewPrivateKey(skv)
			if err != nil {
				c.Violation(fmt.Sprintf("bip340 %s: NewPrivateKey: %v", tag, err))
				continue
			}
			res := safely(func() string {
				signer, err := bip340.NewSchemeWithAux(aux).Signer(sk)
				if err != nil {
					return "err:signer"
				}
				sg, err := signer.Sign(msg)
				if err != nil {
					return "err:sign"
				}
				b, err := bip340.SerializeSignature(sg)
				if err != nil {
					return "err:ser"
				}
				if !bytes.Equal(b, sigB) {
					c.Violation(fmt.Sprintf("bip340 %s: signature differs from the published vector: %x", tag, b))
				}
				c.Emit(fmt.Sprintf("bip340.sign %s %s %s", scalarHex(skv), c15Bip340Challenge(sg.R, sk.PublicKey().Value(), msg), hexBytes(msg)), pointStr(sg.R)+","+scalarHex(sg.S))
				return "ok"
			})
			if res != "ok" {
				c.Violation(fmt.Sprintf("bip340 %s: signing failed: %s", tag, res))
			}
		}
		// verification vectors: decoding failures are rejections at the encoding layer (no model line)
		out := "reject"
		pk, errP := bip340.NewPublicKeyFromBytes(pkB)
		sg, errS := bip340.NewSignatureFromBytes(sigB)
		if errP == nil && errS == nil {
			vf, _ := bip340.NewSchemeWithAux([32]byte{}).Verifier()
			out = safely(func() string { return c15Verdict(vf.Verify(sg, pk, msg)) })
			c.Emit(fmt.Sprintf("bip340.verify %s %s %s %s %s %s", pointStr(pk.Value()), pointStr(sg.R), scalarHex(sg.S), c15Bip340Challenge(sg.R, pk.Value(), msg), hexBytes(msg), tag), out)
		} else {
			c.Count("bip340.vector.undecodable")
		}
		c.Count("bip340.vector." + out)
		if (out == "accept") != v.valid {
			c.Violation(fmt.Sprintf("bip340 %s: published result valid=%v, library says %s", tag, v.valid, out))
		}
	}
}

func c15Unhex(s string) []byte {
	b, err := hex.DecodeString(strings.TrimPrefix(s, "0x"))
	if err != nil {
		return nil
	}
	return b
}

// BLS vectors (Ethereum consensus-spec tests: minimal-pubkey-size, POP ciphersuite DST).
func c15BlsVecs(c *Ctx) {
	repo := os.Getenv("VERIF_REPO")
	if repo == "" {
		repo = "/repo"
	}
	dir := filepath.Join(repo, "pkg", "signatures", "bls", "vectors")
	family := pairable.NewBLS12381()
	g1, g2 := family.SourceSubGroup(), family.TwistedSubGroup()
	dst, _ := bls.BLS12381CipherSuite().GetDst(bls.POP, bls.ShortKey)
	scheme, err := bls.NewShortKeyScheme(family, bls.Basic)
	if err != nil {
		c.Violation(fmt.Sprintf("bls vectors: scheme: %v", err))
		return
	}
	list := func(sub string) []string {
		fs, _ := filepath.Glob(filepath.Join(dir, sub, "*.json"))
		sort.Strings(fs)
		return fs
	}
	// sign: known answers, and σ = sk•H(m) on the model
	for _, f := range list("sign") {
		var v struct {
			Input struct {
				PrivKey string `json:"privkey"`
				Message string `json:"message"`
			} `json:"input"`
			Output *string `json:"output"`
		}
		data, err := os.ReadFile(f)
		if err != nil || json.Unmarshal(data, &v) != nil {
			c.Violation("bls vectors: unreadable " + filepath.Base(f))
			continue
		}
		name := strings.TrimSuffix(filepath.Base(f), ".json")
		msg := c15Unhex(v.Input.Message)
		sk, err := bls.NewPrivateKeyFromBytes(g1, c15Unhex(v.Input.PrivKey))
		if err != nil {
			c.Count("bls.vector.sign.badkey")
			if v.Output != nil {
				c.Violation(fmt.Sprintf("bls vector %s: key rejected but a signature is published", name))
			}
			continue
		}
		signer, _ := scheme.Signer(sk, bls.SignWithCustomDST[*bls12381.PointG1](dst))
		sg, err := signer.Sign(msg)
		if err != nil || v.Output == nil {
			if (err == nil) != (v.Output != nil) {
				c.Violation(fmt.Sprintf("bls vector %s: sign error=%v, published output present=%v", name, err, v.Output != nil))
			}
			continue
		}
		if !bytes.Equal(sg.Bytes(), c15Unhex(*v.Output)) {
			c.Violation(fmt.Sprintf("bls vector %s: signature differs from the published vector", name))
		}
		vf, _ := scheme.Verifier(bls.VerifyWithCustomDST[*bls12381.PointG1](dst))
		out := safely(func() string { return c15Verdict(vf.Verify(sg, sk.PublicKey(), msg)) })
		hm, _ := g2.HashWithDst(dst, msg)
		c.Emit(fmt.Sprintf("bls.verify bls12381g1 bls12381g2 %s %s %s %s vec-%s", scalarHex(sk.Value()), pointStr(sk.PublicKey().Value()), pointStr(hm), pointStr(sg.Value()), name), out)
		c.Count("bls.vector.sign." + out)
		if !c.Thorough() {
			break // one model line in the quick tier; the known-answer comparison above runs for all
		}
	}
	// verify / aggregate_verify: published verdicts (no secret keys in the vectors: Go-side oracle only)
	for _, f := range list("verify") {
		var v struct {
			Input struct {
				PubKey    string `json:"pubkey"`
				Message   string `json:"message"`
				Signature string `json:"signature"`
			} `json:"input"`
			Output bool `json:"output"`
		}
		data, err := os.ReadFile(f)
		if err != nil || json.Unmarshal(data, &v) != nil {
			c.Violation("bls vectors: unreadable " + filepath.Base(f))
			continue
		}
		out := safely(func() string {
			pk, err := bls.NewPublicKeyFromBytes(g1, c15Unhex(v.Input.PubKey))
			if err != nil {
				return "reject"
			}
			sg, err := bls.NewSignatureFromBytes(g2, c15Unhex(v.Input.Signature), nil)
			if err != nil {
				return "reject"
			}
			vf, _ := scheme.Verifier(bls.VerifyWithCustomDST[*bls12381.PointG1](dst))
			return c15Verdict(vf.Verify(sg, pk, c15Unhex(v.Input.Message)))
		})
		c.Count("bls.vector.verify." + out)
		if (out == "accept") != v.Output {
			c.Violation(fmt.Sprintf("bls vector %s: published %v, library says %s", filepath.Base(f), v.Output, out))
		}
	}
	for _, f := range list("aggregate_verify") {
		var v struct {
			Input struct {
				PubKeys   []string `json:"pubkeys"`
				Messages  []string `json:"messages"`
				Signature string   `json:"signature"`
			} `json:"input"`
			Output bool `json:"output"`
		}
		data, err := os.ReadFile(f)
		if err != nil || json.Unmarshal(data, &v) != nil {
			c.Violation("bls vectors: unreadable " + filepath.Base(f))
			continue
		}
		out := safely(func() string {
			var pks []*bls.PublicKey[*bls12381.PointG1, *bls12381.BaseFieldElementG1, *bls12381.PointG2, *bls12381.BaseFieldElementG2, *bls12381.GtElement, *bls12381.Scalar]
			var ms [][]byte
			for i, p := range v.Input.PubKeys {
				pk, err := bls.NewPublicKeyFromBytes(g1, c15Unhex(p))
				if err != nil {
					return "reject"
				}
				pks = append(pks, pk)
				ms = append(ms, c15Unhex(v.Input.Messages[i]))
			}
			sg, err := bls.NewSignatureFromBytes(g2, c15Unhex(v.Input.Signature), nil)
			if err != nil {
				return "reject"
			}
			if len(pks) == 0 {
				return "reject"
			}
			vf, _ := scheme.Verifier(bls.VerifyWithCustomDST[*bls12381.PointG1](dst))
			return c15Verdict(vf.AggregateVerify(sg, pks, ms))
		})
		c.Count("bls.vector.aggverify." + out)
		if (out == "accept") != v.Output {
			c.Violation(fmt.Sprintf("bls vector %s: published %v, library says %s", filepath.Base(f), v.Output, out))
		}
	}
}
