// c04_coh.go — C04: COHERENT deviations.
//
// The tamperings of c04_tree.go / c04_rel.go edit one or two leaves of an encoded message: every such
// edit breaks SOME relation between the deviator's messages, and one of several overlapping checks
// catches it. A deviating party can also run the honest code on a modified private input, or deal an
// honest-looking sharing of another value, or change what it claims about the past TOGETHER WITH
// everything derived from it: then all its messages are mutually consistent and only the check that
// ties them to the other parties' view (or to the public key) can notice. The family:
//
//   input0 / input   INPUT SUBSTITUTION: the deviator's shard is replaced, before the protocol starts,
//                    by shard + D where D is a Feldman dealing (under the shard's own MSP) of 0 resp.
//                    of δ ≠ 0: share + D_i, verification vector + V_D — a shard the library itself
//                    accepts (`mpc.NewBaseShard`), for the same resp. another public key. The party
//                    then runs the HONEST code. (redistribute, lindell22, dkls23, boldyreva)
//   nonzero          DEALING SUBSTITUTION in the HJKY zero sharing (stand-alone, inside redistribute and
//                    inside lindell22): round-1 vector += V_D, every round-1 share += D_i for a dealing
//                    D of δ ≠ 0 under the zero-sharing structure — a consistent sharing of δ, not of 0.
//   redeal           DEALING SUBSTITUTION in redistribute round 2: contribution vector += V_D, every
//                    outgoing sub-share += D_i for a dealing D of δ under the NEXT structure — the
//                    deviator re-shares (its additive share + δ).
//   claim            CLAIM SUBSTITUTION in redistribute round 2: the broadcast previous verification
//                    vector += V_E for a dealing E of δ under the PREVIOUS structure (claimed old public
//                    key pk + δ·G).
//   redeal+claim     both, with the same δ: the claimed old public key equals the aggregated new one.
//
// Implemented with the library's own types (a stateful Hook replaces the typed messages of the
// deviator; the altered shard is built with the library's constructors), for every deviator position
// (lowest / middle / highest ID among the dealers) and — redistribute — every kind of victim (previous
// holder, newcomer with / without a trusted anchor).
//
// Lines
//   C04 coherent <proto> <cfg> <kind> <deviator> <lo|mid|hi> <changed> <ids> => <id=class;…>|agg=<class>|out=<…>
//        changed  1 some message of the deviator differs from the honest run's (same seeds) / 0 none does
// Oracles (Go side, and again in Drive/C04.lean): every output an honest party / the aggregator RELEASES
// is valid for the ORIGINAL public key (signature verifies under it; shard consistent and pk unchanged);
// blamed IDs ⊆ {deviator}; no panic / hang; the deviation is rejected by at least one honest party or
// the aggregator (changed = 1; with changed = 0 nothing deviated and the outputs must simply be valid).

package main

import (
	"fmt"
	"io"
	"math/big"
	"strings"

	"github.com/bronlabs/bron-crypto/pkg/base/algebra"
	"github.com/bronlabs/bron-crypto/pkg/base/curves/pairable/bls12381"
	"github.com/bronlabs/bron-crypto/pkg/mpc"
	"github.com/bronlabs/bron-crypto/pkg/mpc/redistribute"
	"github.com/bronlabs/bron-crypto/pkg/mpc/session"
	"github.com/bronlabs/bron-crypto/pkg/mpc/sharing/accessstructures"
	"github.com/bronlabs/bron-crypto/pkg/mpc/sharing/scheme/kw"
	"github.com/bronlabs/bron-crypto/pkg/mpc/sharing/vss/feldman"
	"github.com/bronlabs/bron-crypto/pkg/mpc/signatures/bls/boldyreva02"
	blskeygen "github.com/bronlabs/bron-crypto/pkg/mpc/signatures/bls/boldyreva02/keygen"
	blssigning "github.com/bronlabs/bron-crypto/pkg/mpc/signatures/bls/boldyreva02/signing"
	l22signing "github.com/bronlabs/bron-crypto/pkg/mpc/signatures/schnorr/lindell22/signing"
	"github.com/bronlabs/bron-crypto/pkg/mpc/zero/hjky"
	"github.com/bronlabs/bron-crypto/pkg/signatures/bls"
)

// c04Coh is one coherent deviation of one party.
type c04Coh struct {
	kind string
	dev  ID
}

func (c *c04Coh) is(kinds ...string) bool {
	if c == nil {
		return false
	}
	for _, k := range kinds {
		if c.kind == k {
			return true
		}
	}
	return false
}

// c04Delta: the non-zero δ of a deviation (deterministic in seed, base).
func c04Delta[S algebra.PrimeFieldElement[S]](f algebra.PrimeField[S], seed int64, base uint64) S {
	r := NewRng(seed, base+951)
	k := r.BigBelow(new(big.Int).Lsh(big.NewInt(1), 200))
	return scalarFromBig(f, k.Add(k, big.NewInt(3)))
}

// c04DealOf deals `secret` under ac with the library's Feldman scheme.
func c04DealOf[G algebra.PrimeGroupElement[G, S], S algebra.PrimeFieldElement[S]](group algebra.PrimeGroup[G, S], ac accessstructures.Monotone, secret S, rng io.Reader) *feldman.DealerOutput[G, S] {
	sch, err := feldman.NewScheme(group, ac)
	if err != nil {
		panic(fmt.Sprintf("c04 coherent: feldman.NewScheme: %v", err))
	}
	out, err := sch.Deal(kw.NewSecret(secret), rng)
	if err != nil {
		panic(fmt.Sprintf("c04 coherent: Deal: %v", err))
	}
	return out
}

// c04ShiftShard: shard + D for a dealing D of `secret` under the shard's own access structure `ac`.
func c04ShiftShard[G algebra.PrimeGroupElement[G, S], S algebra.PrimeFieldElement[S]](group algebra.PrimeGroup[G, S], ac accessstructures.Monotone, sh *mpc.BaseShard[G, S], secret S, rng io.Reader) *mpc.BaseShard[G, S] {
	d := c04DealOf(group, ac, secret, rng)
	ds, ok := d.Shares().Get(sh.Share().ID())
	if !ok {
		panic("c04 coherent: the dealing has no share for the deviator")
	}
	vv, err := sh.VerificationVector().Op(d.VerificationMaterial())
	if err != nil {
		panic(fmt.Sprintf("c04 coherent: vv.Op: %v", err))
	}
	out, err := mpc.NewBaseShard(sh.Share().Add(ds), vv, sh.MSP())
	if err != nil {
		panic(fmt.Sprintf("c04 coherent: NewBaseShard of the shifted shard: %v", err))
	}
	return out
}

// c04SubstInput returns the shard map the parties are constructed with: the deviator's entry shifted for
// the input kinds, everything else (and every other kind) unchanged.
func c04SubstInput[G algebra.PrimeGroupElement[G, S], S algebra.PrimeFieldElement[S]](group algebra.PrimeGroup[G, S], f algebra.PrimeField[S], ac accessstructures.Monotone, shards map[ID]*mpc.BaseShard[G, S], coh *c04Coh, seed int64, base uint64) map[ID]*mpc.BaseShard[G, S] {
	if !coh.is("input0", "input") || shards[coh.dev] == nil {
		return shards
	}
	secret := f.Zero()
	if coh.kind == "input" {
		secret = c04Delta(f, seed, base)
	}
	out := map[ID]*mpc.BaseShard[G, S]{}
	for id, sh := range shards {
		out[id] = sh
	}
	out[coh.dev] = c04ShiftShard(group, ac, shards[coh.dev], secret, NewRng(seed, base+952))
	return out
}

// c04NonzeroHook: the deviator's HJKY round-1 messages (stand-alone, nested in redistribute / lindell22)
// become a consistent sharing of δ under zeroAC.
func c04NonzeroHook(coh *c04Coh, zeroAC accessstructures.Monotone, seed int64, base uint64) Hook {
	type (
		kp = *k256Point
		ks = *k256Scalar
	)
	d := c04DealOf(cK256, zeroAC, c04Delta(fK256, seed, base), NewRng(seed, base+953))
	bcast := func(m *hjky.Round1Broadcast[kp, ks]) *hjky.Round1Broadcast[kp, ks] {
		vv, err := m.VerificationVector.Op(d.VerificationMaterial())
		if err != nil {
			panic(fmt.Sprintf("c04 coherent: zero vv.Op: %v", err))
		}
		return &hjky.Round1Broadcast[kp, ks]{VerificationVector: vv}
	}
	ucast := func(m *hjky.Round1P2P[kp, ks], to ID) *hjky.Round1P2P[kp, ks] {
		ds, ok := d.Shares().Get(to)
		if !ok {
			panic("c04 coherent: zero dealing has no share for the recipient")
		}
		return &hjky.Round1P2P[kp, ks]{ZeroShare: m.ZeroShare.Add(ds)}
	}
	return HookFunc(func(_ string, round int, from, to ID, _ bool, msg any) (any, bool) {
		if from != coh.dev || round != 1 {
			return msg, false
		}
		switch m := msg.(type) {
		case *hjky.Round1Broadcast[kp, ks]:
			return bcast(m), false
		case *hjky.Round1P2P[kp, ks]:
			return ucast(m, to), false
		case *redistribute.Round1Broadcast[kp, ks]:
			if m.ZeroR1 == nil {
				return msg, false
			}
			return &redistribute.Round1Broadcast[kp, ks]{ZeroR1: bcast(m.ZeroR1)}, false
		case *redistribute.Round1P2P[kp, ks]:
			return &redistribute.Round1P2P[kp, ks]{ZeroR1: ucast(m.ZeroR1, to)}, false
		case *l22signing.Round1Broadcast[kp, ks, []byte]:
			return &l22signing.Round1Broadcast[kp, ks, []byte]{BigRCommitment: m.BigRCommitment, ZeroR1: bcast(m.ZeroR1)}, false
		case *l22signing.Round1P2P[kp, ks, []byte]:
			return &l22signing.Round1P2P[kp, ks, []byte]{ZeroR1: ucast(m.ZeroR1, to)}, false
		}
		return msg, false
	})
}

// c04RedistributeHook: redeal / claim / redeal+claim in round 2 of the deviator.
func c04RedistributeHook(coh *c04Coh, prevAC, nextAC accessstructures.Monotone, seed int64, base uint64) Hook {
	type (
		kp = *k256Point
		ks = *k256Scalar
	)
	delta := c04Delta(fK256, seed, base)
	next := c04DealOf(cK256, nextAC, delta, NewRng(seed, base+954))
	prev := c04DealOf(cK256, prevAC, delta, NewRng(seed, base+955))
	redeal := coh.is("redeal", "redeal+claim")
	claim := coh.is("claim", "redeal+claim")
	return HookFunc(func(_ string, round int, from, to ID, _ bool, msg any) (any, bool) {
		if from != coh.dev || round != 2 {
			return msg, false
		}
		switch m := msg.(type) {
		case *redistribute.Round2Broadcast[kp, ks]:
			if m.PrevVerificationVector == nil || m.NextVerificationVectorContribution == nil {
				return msg, false
			}
			out := &redistribute.Round2Broadcast[kp, ks]{PrevMSP: m.PrevMSP, PrevVerificationVector: m.PrevVerificationVector,
				ZeroVerificationVector: m.ZeroVerificationVector, NextVerificationVectorContribution: m.NextVerificationVectorContribution}
			var err error
			if redeal {
				if out.NextVerificationVectorContribution, err = m.NextVerificationVectorContribution.Op(next.VerificationMaterial()); err != nil {
					panic(fmt.Sprintf("c04 coherent: next vv.Op: %v", err))
				}
			}
			if claim {
				if out.PrevVerificationVector, err = m.PrevVerificationVector.Op(prev.VerificationMaterial()); err != nil {
					panic(fmt.Sprintf("c04 coherent: prev vv.Op: %v", err))
				}
			}
			return out, false
		case *redistribute.Round2P2P[kp, ks]:
			if !redeal {
				return msg, false
			}
			ds, ok := next.Shares().Get(to)
			if !ok {
				panic("c04 coherent: next dealing has no share for the recipient")
			}
			return &redistribute.Round2P2P[kp, ks]{NextShareContribution: m.NextShareContribution.Add(ds)}, false
		}
		return msg, false
	})
}

// c04Pos: position of dev among the (sorted) dealers.
func c04Pos(dealers []ID, dev ID) string {
	s := sortedIDs(dealers)
	switch {
	case len(s) > 0 && dev == s[0]:
		return "lo"
	case len(s) > 0 && dev == s[len(s)-1]:
		return "hi"
	}
	return "mid"
}

// c04RunCoherent executes one coherent deviation and emits its line (+ Go-side oracles).
func c04RunCoherent(o *jobOut, seed int64, idx int, p *c04Prepared, coh c04Coh) {
	scn, ids := p.scn, p.ids
	base := uint64(4000 + 1000*idx)
	res := scn.runCoh(seed, base, &coh)
	out := res.out(coh.dev)
	rhs := c04StatusOf(res) + out
	// changed: does ANY message the deviator sent differ from the message it sends in the honest run
	// (same seeds)? A substituted input the protocol does not use (a share that enters a non-minimal
	// quorum with coefficient 0) changes nothing: 0.
	changed := "0"
	for _, rec := range res.net.Log {
		if rec.From != coh.dev {
			continue
		}
		j, ok := c04FindRec(p.log, rec.Round, rec.From, rec.To, rec.Broadcast)
		if !ok || string(p.log[j].Orig) != string(rec.Sent) {
			changed = "1"
			break
		}
	}
	o.Emit(c04Prop, fmt.Sprintf("coherent %s %s %s %d %s %s %s", scn.proto, scn.cfg, coh.kind, coh.dev, c04Pos(scn.cohDevsAll, coh.dev), changed, idsStr(ids)), rhs)
	o.Count("coherent-changed." + changed)
	o.Count("coherent." + scn.proto)
	o.Count("coherent-kind." + coh.kind)
	tag := fmt.Sprintf("site=%s/coherent/%s cfg=%s deviator=%d seed=%d", scn.proto, coh.kind, scn.cfg, coh.dev, seed)
	rejected := res.agg != "-" && res.agg != "ok" && res.agg != "none"
	check := func(who, cls string) {
		switch {
		case cls == "panic":
			o.Violation(c04Prop, "panic who="+who+" "+tag)
		case cls == "hang":
			o.Violation(c04Prop, "hang who="+who+" "+tag)
		}
		for _, b := range c04Blamed(cls) {
			if b != coh.dev {
				o.Violation(c04Prop, fmt.Sprintf("blamed-honest who=%s blamed=%d class=%s %s", who, b, cls, tag))
			}
		}
	}
	for _, id := range ids {
		cls := res.net.Status[id]
		if id == coh.dev {
			if cls != "ok" && cls != "" && out == "none" {
				rejected = true // the deviator stopped before anybody accepted anything
			}
			continue
		}
		check(fmt.Sprintf("%d", id), cls)
		if cls != "ok" && cls != "" {
			rejected = true
		}
	}
	if res.agg != "-" {
		check("agg", strings.TrimPrefix(res.agg, "alt-"))
	}
	if strings.HasPrefix(out, "invalid") {
		o.Violation(c04Prop, "bad-output-released "+out+" "+tag)
	}
	if rejected {
		o.Count("coherent-outcome.rejected")
	} else {
		o.Count("coherent-outcome.accepted")
	}
}

// ---------------------------------------------------------------------------------------------
// Boldyreva with the aggregator's public material taken from the ORIGINAL (dealer's) shard of the
// lowest-ID cosigner: the copy of runBoldyrevaShort (proto_sign.go) whose aggregator is not built from
// a shard the deviator supplied.

func c04RunBoldyreva(orig, used map[ID]*mpc.BaseShard[g1, bsc], quorum []ID, ctxs map[ID]*session.Context, msg []byte, alg bls.RogueKeyPreventionAlgorithm, hook Hook) *BLSResult[g1, g1f, g2, g2f] {
	type PS = *boldyreva02.PartialSignature[g2, g2f, g1, g1f, gt, bsc]
	type C = *blssigning.Cosigner[g1, g1f, g2, g2f, gt, bsc]
	fam := &bls12381.FamilyTrait{}
	ids := sortedIDs(quorum)
	rngs := map[ID]io.Reader{}
	for _, id := range ids {
		rngs[id] = zeroReader{}
	}
	n := newNet("boldyreva-short", ids, rngs, hook)
	res := &BLSResult[g1, g1f, g2, g2f]{Net: n}
	n.watchdog(func() {
		cs, ok := construct(n, ids, func(id ID) (C, error) {
			sh, err := blskeygen.NewShortKeyShard[g1, g1f, g2, g2f, gt, bsc](used[id])
			if err != nil {
				return nil, err
			}
			return blssigning.NewShortKeyCosigner(ctxs[id], fam, sh, alg)
		})
		if !ok {
			return
		}
		res.PK = orig[ids[0]].PublicKeyValue()
		out, ok := stepAll(n, 1, cs, func(_ ID, c C) (PS, error) { return c.ProducePartialSignature(msg) })
		if !ok {
			return
		}
		res.Partials = out
		in := blsRoute[PS](n, out)
		cls := "ok"
		func() {
			defer func() {
				if e := recover(); e != nil {
					cls = "panic"
				}
			}()
			honest, err := blskeygen.NewShortKeyShard[g1, g1f, g2, g2f, gt, bsc](orig[ids[0]])
			if err != nil {
				cls = classify(err)
				return
			}
			agg, err := blssigning.NewShortKeyAggregator(fam, honest.PublicKeyMaterial(), alg)
			if err != nil {
				cls = classify(err)
				return
			}
			sig, err := agg.Aggregate(in, msg)
			if err != nil {
				cls = classify(err)
				return
			}
			res.Sig = sig
		}()
		res.AggStatus = cls
	})
	return res
}
