package main

import (
	"bytes"
	"math"
	"math/bits"
	"sort"

	"github.com/bronlabs/bron-crypto/pkg/base/algebra"
	"github.com/bronlabs/bron-crypto/pkg/base/serde"
)

// Structure-preserving *value edits*: every scalar / point / unsigned-integer / big-number leaf of a
// valid encoding is replaced — one leaf at a time — by another VALID value of the same kind, the
// result is re-encoded canonically (map entries re-sorted when a key changed) and handed to the typed
// decoder.  The container is well-formed by construction, so whatever the decoder accepts must be
// judged by the type's validity predicate (Go side: c12Case.valid; Lean side: Model/Wire.lean).

// c12LeafFamily recognises the algebraic leaves of one curve family inside an encoding and proposes
// replacement encodings (produced by the library's own encoder, hence valid elements).
type c12LeafFamily struct {
	name string
	// alts returns (kind, alternatives) for the encoded item, or ("", nil) if the item is not a
	// scalar / point of this family.
	alts func(r *Rng, item []byte) (string, [][]byte)
}

func c12NewFamily[E algebra.PrimeGroupElement[E, S], S algebra.PrimeFieldElement[S]](name string, g algebra.PrimeGroup[E, S], f algebra.PrimeField[S]) *c12LeafFamily {
	enc := func(v any) []byte {
		b, res := c12Marshal(v)
		if res != "ok" {
			return nil
		}
		return b
	}
	return &c12LeafFamily{name: name, alts: func(r *Rng, item []byte) (kind string, out [][]byte) {
		_ = safely(func() string {
			if s, err := serde.UnmarshalCBOR[S](item); err == nil && !c12IsNil(any(s)) {
				kind = "scalar"
				rnd, _ := f.Random(r)
				for _, t := range []S{s.Add(f.One()), s.Sub(f.One()), f.Zero(), f.One(), s.Neg(), s.Add(s), rnd} {
					out = append(out, enc(t))
				}
				return ""
			}
			if p, err := serde.UnmarshalCBOR[E](item); err == nil && !c12IsNil(any(p)) {
				kind = "point"
				k, _ := f.Random(r)
				for _, t := range []E{p.Op(g.Generator()), p.Op(g.Generator().OpInv()), g.OpIdentity(), g.Generator(), p.OpInv(), p.Op(p), g.Generator().ScalarOp(k)} {
					out = append(out, enc(t))
				}
			}
			return ""
		})
		// distinct, different from the original
		seen := map[string]bool{string(item): true}
		keep := out[:0]
		for _, o := range out {
			if o == nil || seen[string(o)] {
				continue
			}
			seen[string(o)] = true
			keep = append(keep, o)
		}
		return kind, keep
	}}
}

type c12Leaf struct {
	path []int    // child indices from the root
	kind string   // scalar | point | uint | nat
	alts [][]byte // encoded replacement items (the first ones are the minimal changes)
	must int      // the first `must` alternatives are always tried (never sampled away)
}

// c12WrapSolutions returns values x with x*y ≡ l (mod 2^64), x ≠ 0: candidates for an integer whose
// product with a sibling integer is compared with a length (matrix dimensions, counts × sizes) and
// could wrap around a machine word. Values that fit a positive int64 come first.
func c12WrapSolutions(y, l uint64) []uint64 {
	if y == 0 {
		return nil
	}
	s := uint(bits.TrailingZeros64(y))
	if s > 0 && l&((uint64(1)<<s)-1) != 0 {
		return nil
	}
	o := y >> s
	inv := o // Newton iteration for the inverse of an odd number modulo 2^64
	for i := 0; i < 6; i++ {
		inv *= 2 - o*inv
	}
	base := (l >> s) * inv
	var out []uint64
	if s == 0 {
		if base != 0 {
			out = append(out, base)
		}
		return out
	}
	mod := uint64(1) << (64 - s)
	base &= mod - 1
	for j := uint64(0); j < 4 && j < (uint64(1)<<s); j++ {
		if v := base + j*mod; v != 0 {
			out = append(out, v)
		}
	}
	sort.Slice(out, func(i, j int) bool { return (out[i] <= math.MaxInt64) && !(out[j] <= math.MaxInt64) })
	return out
}

// c12Lens is set by c12ValueEdits for the encoding being edited: the lengths of its arrays and byte strings.
var c12Lens []uint64

// c12CollectLeaves walks the tree. Arrays with many leaf children (matrix data) are sampled.
func c12CollectLeaves(r *Rng, n *c12Node, fam *c12LeafFamily, path []int, sample int, uints []uint64, out *[]c12Leaf) {
	here := append([]int{}, path...)
	switch n.major {
	case 0:
		alts := [][]byte{c12Uint(n.arg + 1).enc()}
		if n.arg > 0 {
			alts = append(alts, c12Uint(n.arg-1).enc(), c12Uint(0).enc())
		}
		for _, u := range uints {
			if u != n.arg && u != n.arg+1 && u+1 != n.arg && u != 0 {
				alts = append(alts, c12Uint(u).enc())
			}
		}
		// word-size boundaries and products that wrap around 2^64 onto a length occurring in the encoding
		var must [][]byte
		seenW := map[uint64]bool{n.arg: true}
		addW := func(v uint64) {
			if !seenW[v] && len(must) < 6 {
				seenW[v] = true
				must = append(must, c12Uint(v).enc())
			}
		}
		for _, l := range c12Lens {
			for _, u := range append(append([]uint64{}, uints...), n.arg) {
				if u == n.arg {
					continue
				}
				for _, v := range c12WrapSolutions(u, l) {
					if v > 1<<20 { // only the wrapping ones: small solutions are ordinary value edits
						addW(v)
					}
				}
			}
		}
		addW(math.MaxInt64)
		addW(1 << 32)
		alts = append(alts, c12Uint(1<<16).enc(), c12Uint(1<<63).enc())
		alts = append(append([][]byte{alts[0]}, must...), alts[1:]...)
		*out = append(*out, c12Leaf{path: here, kind: "uint", alts: alts, must: 1 + len(must)})
	case 2:
		// a big-endian natural number (moduli, numct.Nat): shorter / longer / neighbouring values
		var alts [][]byte
		mk := func(d []byte) { alts = append(alts, (&c12Node{major: 2, data: d}).enc()) }
		if len(n.data) > 0 {
			d := append([]byte{}, n.data...)
			if d[0]&0x80 != 0 {
				d[0] &^= 0x80 // one bit shorter
			} else {
				d[0] = 0
			}
			mk(d)
			mk(append([]byte{}, n.data[1:]...)) // one byte shorter
			d2 := append([]byte{}, n.data...)
			d2[len(d2)-1] ^= 2
			mk(d2)
			d3 := append([]byte{}, n.data...)
			d3[len(d3)-1] ^= 1
			mk(d3)
			mk(append([]byte{1}, n.data...))
		}
		mk([]byte{1})
		*out = append(*out, c12Leaf{path: here, kind: "nat", alts: alts})
	case 5:
		if fam != nil {
			if kind, alts := fam.alts(r, n.enc()); kind != "" {
				*out = append(*out, c12Leaf{path: here, kind: kind, alts: alts})
				return
			}
		}
		for i, k := range n.kids {
			c12CollectLeaves(r, k, fam, append(here, i), sample, uints, out)
		}
	case 4:
		idx := make([]int, len(n.kids))
		for i := range idx {
			idx[i] = i
		}
		if sample > 0 && len(idx) > sample {
			// always the first and the last element, the rest at random
			pick := map[int]bool{0: true, len(idx) - 1: true}
			for len(pick) < sample {
				pick[r.IntN(len(idx))] = true
			}
			idx = idx[:0]
			for i := range pick {
				idx = append(idx, i)
			}
			sort.Ints(idx)
		}
		for _, i := range idx {
			c12CollectLeaves(r, n.kids[i], fam, append(here, i), sample, uints, out)
		}
	case 6:
		c12CollectLeaves(r, n.kids[0], fam, append(here, 0), sample, uints, out)
	}
}

func c12NodeAt(root *c12Node, path []int) (parent, n *c12Node) {
	n = root
	for _, i := range path {
		parent, n = n, n.kids[i]
	}
	return parent, n
}

// c12SortMap re-establishes the core-deterministic key order; false if two keys coincide.
func c12SortMap(n *c12Node) bool {
	type kv struct {
		k    []byte
		a, b *c12Node
	}
	ps := make([]kv, 0, len(n.kids)/2)
	for i := 0; i+1 < len(n.kids); i += 2 {
		ps = append(ps, kv{n.kids[i].enc(), n.kids[i], n.kids[i+1]})
	}
	sort.SliceStable(ps, func(i, j int) bool { return bytes.Compare(ps[i].k, ps[j].k) < 0 })
	for i := 1; i < len(ps); i++ {
		if bytes.Equal(ps[i].k, ps[i-1].k) {
			return false
		}
	}
	for i, p := range ps {
		n.kids[2*i], n.kids[2*i+1] = p.a, p.b
	}
	return true
}

// c12ValueEdits enumerates the value-edit mutants of the valid encoding b.
// perLeaf alternatives per leaf (0 = all), sample = leaf children taken from long arrays (0 = all).
func c12ValueEdits(r *Rng, b []byte, fam *c12LeafFamily, perLeaf, sample int) []*c12Mutant {
	root, rest, ok := c12Parse(b)
	if !ok || len(rest) != 0 {
		return nil
	}
	// the distinct small unsigned integers of the encoding (other ids / thresholds / indices)
	var all []*c12Node
	root.all(&all)
	seenU := map[uint64]bool{}
	var uints []uint64
	for _, n := range all {
		if n.major == 0 && !seenU[n.arg] && len(uints) < 4 {
			seenU[n.arg] = true
			uints = append(uints, n.arg)
		}
	}
	c12Lens = c12Lens[:0]
	seenL := map[uint64]bool{}
	for _, n := range all {
		if (n.major == 4 || n.major == 2) && len(c12Lens) < 6 {
			l := uint64(len(n.kids))
			if n.major == 2 {
				l = uint64(len(n.data))
			}
			if l > 0 && !seenL[l] {
				seenL[l] = true
				c12Lens = append(c12Lens, l)
			}
		}
	}
	var leaves []c12Leaf
	c12CollectLeaves(r, root, fam, nil, sample, uints, &leaves)
	var out []*c12Mutant
	for _, lf := range leaves {
		alts := lf.alts
		if perLeaf > 0 && len(alts) > perLeaf && lf.kind != "nat" { // big numbers: every alternative
			// the minimal change first, the others at random
			sel := [][]byte{alts[0]}
			if lf.must > 1 && lf.must <= len(alts) {
				sel = append([][]byte{}, alts[:lf.must]...)
			}
			for len(sel) < perLeaf+lf.must-1 && len(sel) < len(alts) {
				sel = append(sel, alts[1+r.IntN(len(alts)-1)])
			}
			alts = sel
		}
		done := map[string]bool{}
		for _, a := range alts {
			if done[string(a)] {
				continue
			}
			done[string(a)] = true
			repl, rr, ok := c12Parse(a)
			if !ok || len(rr) != 0 {
				continue
			}
			cp := root.clone()
			parent, n := c12NodeAt(cp, lf.path)
			*n = *repl
			if parent != nil && parent.major == 5 && !c12SortMap(parent) {
				continue // the edit made two keys equal: a container-level defect, not a value edit
			}
			mb := cp.enc()
			if bytes.Equal(mb, b) {
				continue
			}
			out = append(out, &c12Mutant{kind: "valedit-" + lf.kind, bytes: mb})
		}
	}
	return out
}
