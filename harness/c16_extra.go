package main

import (
	"bytes"
	"fmt"
	"math/big"
	"strings"

	"github.com/bronlabs/bron-crypto/pkg/base/nt/znstar"
	"github.com/bronlabs/bron-crypto/pkg/encryption/paillier"
)

// c16SwappedKey rebuilds the same modulus with the factors in the other order (q, p): the CRT
// constants (q^-1 mod p, residue order, which residue can exceed the other modulus) all change
// sides, so that both p < q and p > q are exercised on every run.
func c16SwappedKey(k *c16Key) (*c16Key, error) {
	g, err := znstar.NewPaillierGroup(c16NatPlus(k.q), c16NatPlus(k.p))
	if err != nil {
		return nil, err
	}
	var sk *paillier.SecretKey
	legacy := k.bits < 3072
	if legacy {
		sk, err = paillier.NewLegacySecretKey(g)
	} else {
		sk, err = paillier.NewSecretKey(g)
	}
	if err != nil {
		return nil, err
	}
	return c16WrapKey(k.flavour, k.bits, sk, legacy)
}

// c16LongScalars are the scalar classes beyond the group order: exactly N, N^2, -N^2, the group
// order N*phi(N) (c^k = 1), one more than it, and scalars LONGER than N^2 (more bits than the
// modulus: 2^|N^2|+3, its negation, N^3+N+7, 2^(|N^2|+64)+random).
func (k *c16Key) c16LongScalars(r *Rng) []*big.Int {
	one := big.NewInt(1)
	phi := new(big.Int).Mul(new(big.Int).Sub(k.p, one), new(big.Int).Sub(k.q, one))
	ord := new(big.Int).Mul(k.N, phi)
	bl := uint(k.NN.BitLen())
	pow := new(big.Int).Lsh(one, bl)
	n3 := new(big.Int).Mul(k.NN, k.N)
	return []*big.Int{
		new(big.Int).Set(k.N),
		new(big.Int).Set(k.NN),
		new(big.Int).Neg(k.NN),
		ord,
		new(big.Int).Add(ord, one),
		new(big.Int).Add(pow, big.NewInt(3)),
		new(big.Int).Neg(new(big.Int).Add(pow, big.NewInt(3))),
		new(big.Int).Add(n3, new(big.Int).Add(k.N, big.NewInt(7))),
		new(big.Int).Add(new(big.Int).Lsh(one, bl+64), r.BigBelow(k.NN)),
	}
}

// c16SkOps emits, for one input tuple, the result of every secret-key-accelerated operation; the
// driver evaluates the model's CRT mirrors (encSk, noiseSk, ctScalarSk, invModSk, rerandSk,
// nonceScalarSk, nonceMulSk) AND the textbook formulas and compares all three.
func c16SkOps(c *Ctx, r *Rng, k *c16Key) {
	n := 2
	if c.Thorough() {
		n = 6
	}
	one := big.NewInt(1)
	nm1 := new(big.Int).Sub(k.N, one)
	for i := 0; i < n; i++ {
		m, rr, s := r.BigBelow(k.N), k.randUnit(r), k.randUnit(r)
		sc := k.randScalar(r)
		switch i {
		case 0:
			m, rr, s = nm1, nm1, big.NewInt(2)
			sc = new(big.Int).Neg(new(big.Int).Add(k.NN, r.BigBelow(k.NN)))
		case 1:
			sc = new(big.Int).Add(new(big.Int).Lsh(one, uint(k.NN.BitLen())+1), r.BigBelow(k.N))
		}
		res := safely(func() string {
			pt, nc, sn, si := k.ptOf(m), k.nonceOf(rr), k.nonceOf(s), c16Int(sc)
			sk := k.ops("sk")
			ct, err := sk.EncryptWithNonce(pt, nc)
			if err != nil {
				return c16Err(err)
			}
			noise, err := sk.IdentityNoise(nc)
			if err != nil {
				return c16Err(err)
			}
			scal, err := sk.CiphertextScalarOp(ct, si)
			if err != nil {
				return c16Err(err)
			}
			inv, err := sk.CiphertextOpInv(ct)
			if err != nil {
				return c16Err(err)
			}
			rer, err := sk.ReRandomise(ct, sn)
			if err != nil {
				return c16Err(err)
			}
			nsc, err := sk.NonceScalarOp(nc, si)
			if err != nil {
				return c16Err(err)
			}
			nop, err := sk.NonceOp(nc, sn)
			if err != nil {
				return c16Err(err)
			}
			return "ok:" + hexList(ctBig(ct), ctBig(noise), ctBig(scal), ctBig(inv), ctBig(rer), ncBig(nsc), ncBig(nop))
		})
		c.Emit(fmt.Sprintf("skops %s %s %s %s %s %s", hexNat(k.p), hexNat(k.q), hexNat(m), hexNat(rr), hexNat(s), hexInt(sc)), res)
		c.Count("skops")
	}
}

// c16SymEnc: signed plaintexts at both ends of the symmetric range go through
// NewPlaintextSymmetric -> Encrypt (both paths) -> Decrypt -> Normalise and must come back.
func c16SymEnc(c *Ctx, r *Rng, k *c16Key) {
	half := new(big.Int).Rsh(k.N, 1)
	xs := []*big.Int{new(big.Int).Neg(half), half, big.NewInt(-1), big.NewInt(0), new(big.Int).Sub(r.BigBelow(k.N), half)}
	nHex := hexNat(k.N)
	for i, x := range xs {
		path := []string{"pk", "sk"}[i%2]
		rr := k.randUnit(r)
		res := safely(func() string {
			pt, err := paillier.NewPlaintextSymmetric(c16Int(x), k.nPlus)
			if err != nil {
				return c16Err(err)
			}
			ct, err := k.ops(path).EncryptWithNonce(pt, k.nonceOf(rr))
			if err != nil {
				return c16Err(err)
			}
			m, err := k.sk.Decrypt(ct)
			if err != nil {
				return c16Err(err)
			}
			back := m.Normalise().Big()
			if back.Cmp(x) != 0 {
				c.Violation(fmt.Sprintf("Normalise(Decrypt(Encrypt(symmetric x))) != x N=%s x=%s got=%s", nHex, hexInt(x), hexInt(back)))
			}
			return "ok:" + hexNat(ctBig(ct)) + "," + hexInt(back)
		})
		c.Emit(fmt.Sprintf("symenc %s %s %s %s", path, nHex, hexInt(x), hexNat(rr)), res)
		c.Count("symenc")
	}
}

// c16DecBad tries every public route to a Ciphertext object for a value outside Z*_{N^2} (a
// multiple of p or q, N, 0) and, if a route yields one, feeds it to Decrypt and Open. A control
// value that IS a unit goes through the same routes (they must all work there).
func c16DecBad(c *Ctx, r *Rng, k *c16Key) {
	one := big.NewInt(1)
	vals := []*big.Int{
		k.randUnitNN(r), // control
		new(big.Int).Set(k.p), new(big.Int).Set(k.q), new(big.Int).Set(k.N),
		new(big.Int).Mul(k.p, r.BigBelow(new(big.Int).Mul(k.N, k.q))),
		new(big.Int).Mul(k.q, k.randUnit(r)),
		new(big.Int).Mul(k.N, new(big.Int).Add(r.BigBelow(new(big.Int).Sub(k.N, one)), one)),
		new(big.Int).Sub(k.NN, k.p),
		big.NewInt(0),
	}
	type route struct {
		name string
		mk   func(v *big.Int) (*paillier.Ciphertext, error)
	}
	routes := []route{
		{"ctor-pk", func(v *big.Int) (*paillier.Ciphertext, error) {
			if v.Sign() == 0 {
				return nil, znstar.ErrValue
			}
			return paillier.NewCiphertext(k.pk.Group(), c16NatPlus(v))
		}},
		{"ctor-sk", func(v *big.Int) (*paillier.Ciphertext, error) {
			if v.Sign() == 0 {
				return nil, znstar.ErrValue
			}
			return paillier.NewCiphertext(k.sk.Group(), c16NatPlus(v))
		}},
		{"elem-nat", func(v *big.Int) (*paillier.Ciphertext, error) {
			e, err := k.pk.Group().FromNat(c16Nat(v))
			if err != nil {
				return nil, err
			}
			return paillier.NewCiphertextFromGroupElement(e)
		}},
		{"elem-bytes", func(v *big.Int) (*paillier.Ciphertext, error) {
			e, err := k.pk.Group().FromBytes(v.Bytes())
			if err != nil {
				return nil, err
			}
			return paillier.NewCiphertextFromGroupElement(e)
		}},
		{"elem-sk", func(v *big.Int) (*paillier.Ciphertext, error) {
			e, err := k.sk.Group().FromNat(c16Nat(v))
			if err != nil {
				return nil, err
			}
			return paillier.NewCiphertextFromGroupElement(e)
		}},
		{"cbor", func(v *big.Int) (*paillier.Ciphertext, error) {
			// serialise a valid neighbour of the same byte length and patch its value bytes
			base := new(big.Int).Set(v)
			for i := 0; i < 64; i++ {
				if base.Sign() > 0 && base.Cmp(k.NN) < 0 && new(big.Int).GCD(nil, nil, base, k.N).Cmp(one) == 0 && len(base.Bytes()) == len(v.Bytes()) {
					break
				}
				base = new(big.Int).Add(base, one)
			}
			if len(base.Bytes()) != len(v.Bytes()) || len(v.Bytes()) < 16 || new(big.Int).GCD(nil, nil, base, k.N).Cmp(one) != 0 {
				return nil, errC16NA
			}
			good, err := paillier.NewCiphertext(k.pk.Group(), c16NatPlus(base))
			if err != nil {
				return nil, errC16NA
			}
			blob, err := good.MarshalCBOR()
			if err != nil || bytes.Count(blob, base.Bytes()) != 1 {
				return nil, errC16NA
			}
			blob = bytes.Replace(blob, base.Bytes(), v.Bytes(), 1)
			var out paillier.Ciphertext
			if err := out.UnmarshalCBOR(blob); err != nil {
				return nil, err
			}
			return &out, nil
		}},
	}
	for _, v := range vals {
		parts := make([]string, 0, len(routes))
		for _, rt := range routes {
			res := safely(func() string {
				ct, err := rt.mk(v)
				if err == errC16NA {
					return "na"
				}
				if err != nil || ct == nil {
					return "reject"
				}
				m, err := k.sk.Decrypt(ct)
				if err != nil {
					return "reject"
				}
				m2, _, err := k.sk.Open(ct)
				if err != nil {
					return "open-reject"
				}
				if !m.Equal(m2) {
					return "open-differs"
				}
				return "ok:" + hexNat(ptBig(m))
			})
			parts = append(parts, rt.name+"="+res)
			c.Count("decbad." + rt.name + "." + strings.SplitN(res, ":", 2)[0])
		}
		c.Emit(fmt.Sprintf("decbad %s %s %s", hexNat(k.p), hexNat(k.q), hexNat(v)), strings.Join(parts, ","))
	}
}

var errC16NA = fmt.Errorf("route not applicable")
