// c01.go — C01: threshold signing by a qualified quorum yields a publicly valid signature.
//
// Lines (rhs `ok`; the Lean driver decides each relation in model curve arithmetic):
//   C01 ecdsa <proto> <curve> <pk> <msg> <digest> <m> <r> <s> <nonces> <pkshares> => ok
//        m = digest as scalar (library DigestToScalar; an explicit argument until the hash models land);
//        driver: ECDSA equation x((m/s)•G + (r/s)•pk) = r; r = x(Σ Rᵢ) mod n; Σ pkshareᵢ = pk.
//   C01 schnorr <variant> <curve> <pk> <msg> <e> <R> <s> <nonces> => ok
//        driver: vanilla: s•G = R + e•pk and R = Σ Rᵢ; bip340: s•G = R + e•P′ with P′ the even-y
//        lift of pk, R has even y and R = ±Σ Rᵢ.
//   C01 addconv <curve> <rows> <cols> <labels> <M> <V> <pk> <quorum> => ok
//        driver: model solveLeft coefficients c for the quorum's rows: Σ c_k • (M_k·V) = pk.
// Go-side oracles (!VIOLATION): honest run not ok; aggregators disagree; the library's single-party
// verifier or crypto/ecdsa rejects.

package main

import (
	"crypto/sha256"
	"crypto/sha512"
	nativeEcdsa "crypto/ecdsa"
	"encoding/hex"
	"fmt"
	"hash"
	"io"
	"strings"

	"github.com/bronlabs/bron-crypto/pkg/base/algebra"
	"github.com/bronlabs/bron-crypto/pkg/base/curves"
	"github.com/bronlabs/bron-crypto/pkg/hashing"
	"github.com/bronlabs/bron-crypto/pkg/mpc"
	"github.com/bronlabs/bron-crypto/pkg/mpc/session"
	"github.com/bronlabs/bron-crypto/pkg/mpc/sharing/accessstructures"
	"github.com/bronlabs/bron-crypto/pkg/signatures/bls"
	"github.com/bronlabs/bron-crypto/pkg/signatures/ecdsa"
	"github.com/bronlabs/bron-crypto/pkg/signatures/schnorrlike/bip340"
	vanilla "github.com/bronlabs/bron-crypto/pkg/signatures/schnorrlike/schnorr"
)

func init() { register("C01", runC01) }

const c01Prop = "C01"

// c01Key is a generated key: base shards of every holder.
type c01Key[P curves.Point[P, F, S], F algebra.FiniteFieldElement[F], S algebra.PrimeFieldElement[S]] struct {
	ac     accessstructures.Monotone
	spec   string
	keygen string
	shards map[ID]*mpc.BaseShard[P, S]
}

// c01Keygen produces base shards with the requested key generation; "" result means refused/failed
// (already reported).
func c01Keygen[P curves.Point[P, F, S], F algebra.FiniteFieldElement[F], S algebra.PrimeFieldElement[S]](o *jobOut, seed int64, stream uint64, g c03Group[P, F, S], keygen, spec string) *c01Key[P, F, S] {
	ac, err := parseAccess(spec)
	if err != nil {
		o.Note("rejected spec " + spec)
		o.Count("spec-rejected")
		return nil
	}
	ids := accessIDs(ac)
	var res *DKGResult[P, S]
	switch keygen {
	case "dealer":
		res = runTrustedDealer(g.group, ac, NewRng(seed, stream*64+1))
	case "gennaro":
		res = runGennaro(g.group, ac, dealerContexts(ids, NewRng(seed, stream*64+2)), partyRngs(seed, stream*64+8, ids), nil, defaultCompiler)
	case "canetti":
		res = runCanetti(g.group, ac, dealerContexts(ids, NewRng(seed, stream*64+2)), partyRngs(seed, stream*64+8, ids), nil)
	default:
		panic("c01Keygen: " + keygen)
	}
	if !res.Net.OK() || res.Shards == nil {
		if res.Net.Refused() {
			o.Note("keygen refused " + spec + " " + res.Net.StatusStr())
			o.Count("keygen-refused")
			return nil
		}
		if cnfHasLargeID(spec) && strings.Contains(res.Net.StatusStr(), "panic") {
			o.Violation(c01Prop, fmt.Sprintf("cnf-id-above-64-panic keygen=%s curve=%s spec=%s seed=%d/%d", keygen, g.name, spec, seed, stream))
			return nil
		}
		if cnfPowerlessHolder(spec) {
			o.Violation(c01Prop, fmt.Sprintf("cnf-powerless-holder keygen-failed keygen=%s curve=%s spec=%s seed=%d/%d status=%s", keygen, g.name, spec, seed, stream, res.Net.StatusStr()))
			return nil
		}
		o.Violation(c01Prop, fmt.Sprintf("keygen-failed keygen=%s curve=%s spec=%s seed=%d/%d status=%s", keygen, g.name, spec, seed, stream, res.Net.StatusStr()))
		return nil
	}
	for _, id := range ids {
		if res.Shards[id] == nil {
			key := "missing-shard"
			if cnfPowerlessHolder(spec) {
				key = "cnf-powerless-holder missing-shard"
			}
			o.Violation(c01Prop, fmt.Sprintf("%s party=%d keygen=%s curve=%s spec=%s seed=%d/%d", key, id, keygen, g.name, spec, seed, stream))
			return nil
		}
	}
	return &c01Key[P, F, S]{ac, spec, keygen, res.Shards}
}

// c01Quorum picks a qualified quorum: minimal (mode 0), the full holder set (1) or a random
// non-minimal qualified set (2).
func c01Quorum(r *Rng, ac accessstructures.Monotone, mode int) []ID {
	mins := minimalQualifiedSets(ac)
	if len(mins) == 0 {
		return nil
	}
	base := mins[r.IntN(len(mins))]
	switch mode {
	case 0:
		return base
	case 1:
		return accessIDs(ac)
	default:
		q := append([]ID{}, base...)
		for _, id := range accessIDs(ac) {
			in := false
			for _, b := range q {
				in = in || b == id
			}
			if !in && r.IntN(2) == 0 {
				q = append(q, id)
			}
		}
		return sortedIDs(q)
	}
}

func c01Contexts(o *jobOut, seed int64, stream uint64, q []ID, real bool) map[ID]*session.Context {
	if real {
		n, ctxs := runSession(q, partyRngs(seed, stream*64+20, q), nil)
		if !n.OK() {
			o.Violation(c01Prop, "session-failed "+n.StatusStr())
			return nil
		}
		return ctxs
	}
	return dealerContexts(q, NewRng(seed, stream*64+3))
}

func c01Message(r *Rng) []byte {
	n := []int{1, 5, 32, 33, 64, 200}[r.IntN(6)]
	b := make([]byte, n)
	_, _ = r.Read(b)
	return b
}

func c01AddConv[P curves.Point[P, F, S], F algebra.FiniteFieldElement[F], S algebra.PrimeFieldElement[S]](o *jobOut, g c03Group[P, F, S], key *c01Key[P, F, S], q []ID) {
	v := shardView(key.shards[q[0]])
	cols := 0
	if len(v.Rows) > 0 {
		cols = len(v.Rows[0])
	}
	if len(v.Labels) > len(accessIDs(key.ac)) {
		o.Count("msp.non-ideal")
	}
	o.Emit(c01Prop, fmt.Sprintf("addconv %s %d %d %s %s %s %s %s", g.name, len(v.Rows), cols, idsStr(v.Labels), matHex(v.Rows), pointsStr(v.V), pointStr(v.PK), idsStr(q)), "ok")
}

func pointMapStr[P curves.Point[P, F, S], F algebra.FiniteFieldElement[F], S algebra.PrimeFieldElement[S]](m map[ID]P) string {
	var ps []P
	for _, id := range sortedKeys(m) {
		ps = append(ps, m[id])
	}
	return pointsStr(ps)
}

type c01Params struct {
	keygen, spec string
	qmode        int
	runner       bool
	realSession  bool
}

// c01ECDSA: DKLs23 over a curve with a prime base field.
func c01ECDSA[P curves.Point[P, B, S], B algebra.PrimeFieldElement[B], S algebra.PrimeFieldElement[S]](o *jobOut, seed int64, stream uint64, g c03Group[P, B, S], curve ecdsa.Curve[P, B, S], variant string, hname string, p c01Params) {
	tag := fmt.Sprintf("proto=dkls23-%s runner=%v curve=%s hash=%s keygen=%s spec=%s seed=%d/%d", variant, p.runner, g.name, hname, p.keygen, p.spec, seed, stream)
	key := c01Keygen(o, seed, stream, g, p.keygen, p.spec)
	if key == nil {
		return
	}
	r := NewRng(seed, stream*64+4)
	q := c01Quorum(r, key.ac, p.qmode)
	if len(q) < 2 {
		o.Note("quorum of one holder: skipped " + tag)
		o.Count("skipped.single-holder-quorum")
		return
	}
	hf := map[string]func() hash.Hash{"sha256": sha256.New, "sha512": sha512.New}[hname]
	suite, err := ecdsa.NewSuite(curve, hf)
	if err != nil {
		o.Violation(c01Prop, "suite "+classify(err)+" "+tag)
		return
	}
	ctxs := c01Contexts(o, seed, stream, q, p.realSession)
	if ctxs == nil {
		return
	}
	msg := c01Message(r)
	rngs := partyRngs(seed, stream*64+30, q)
	var res *ECDSAResult[P, B, S]
	if p.runner {
		res = runDKLs23Runner(variant, suite, key.shards, q, ctxs, msg, rngs)
	} else {
		res = runDKLs23(variant, suite, key.shards, q, ctxs, msg, rngs, nil)
	}
	tag += " quorum=" + idsStr(q)
	if !res.Net.OK() || res.Sig == nil {
		o.Violation(c01Prop, fmt.Sprintf("honest-signing-failed %s status=%s agg=%s %s", tag, res.Net.StatusStr(), res.AggStatus, res.Net.statusSummary()))
		return
	}
	o.Count("sign.dkls23-" + variant)
	o.Count("keygen." + p.keygen)
	o.Count("family." + strings.SplitN(p.spec, ":", 2)[0])
	o.Count(fmt.Sprintf("quorum.%d", len(q)))
	if res.SigAlt == nil || !res.Sig.Equal(res.SigAlt) {
		o.Violation(c01Prop, "aggregators-disagree "+tag)
	}
	pk, _ := ecdsa.NewPublicKey(res.PK)
	if vr := safely(func() string {
		vf, err := ecdsa.NewVerifier(suite)
		if err != nil {
			return "verifier-" + classify(err)
		}
		if err := vf.Verify(res.Sig, pk, msg); err != nil {
			return "library-verifier-rejects"
		}
		return "ok"
	}); vr != "ok" {
		o.Violation(c01Prop, vr+" "+tag)
	}
	digest, err := hashing.Hash(suite.HashFunc(), msg)
	if err != nil {
		o.Violation(c01Prop, "hash "+tag)
		return
	}
	if vr := safely(func() string {
		npk, err := pk.ToElliptic()
		if err != nil {
			return "skip"
		}
		nr, ns := res.Sig.ToElliptic()
		if !nativeEcdsa.Verify(npk, digest, nr, ns) {
			return "crypto/ecdsa-rejects"
		}
		return "ok"
	}); vr != "ok" && vr != "skip" {
		o.Violation(c01Prop, vr+" "+tag)
	}
	m, err := ecdsa.DigestToScalar(suite.ScalarField(), digest)
	if err != nil {
		o.Violation(c01Prop, "digest-to-scalar "+tag)
		return
	}
	o.Emit(c01Prop, fmt.Sprintf("ecdsa dkls23-%s %s %s %s %s %s %s %s %s %s", variant, g.name, pointStr(res.PK), hexBytes(msg), hex.EncodeToString(digest),
		scalarHex(m), scalarHex(res.Sig.R()), scalarHex(res.Sig.S()), pointMapStr(res.NoncePoints), pointMapStr(res.PkShares)), "ok")
	c01AddConv(o, g, key, q)
}

// c01Schnorr: Lindell22 with the vanilla or the BIP-340 flavour.
func c01SchnorrVanilla[P curves.Point[P, F, S], F algebra.FiniteFieldElement[F], S algebra.PrimeFieldElement[S]](o *jobOut, seed int64, stream uint64, g c03Group[P, F, S], p c01Params) {
	tag := fmt.Sprintf("proto=lindell22-vanilla runner=%v curve=%s keygen=%s spec=%s seed=%d/%d", p.runner, g.name, p.keygen, p.spec, seed, stream)
	key := c01Keygen(o, seed, stream, g, p.keygen, p.spec)
	if key == nil {
		return
	}
	r := NewRng(seed, stream*64+4)
	q := c01Quorum(r, key.ac, p.qmode)
	if len(q) < 2 {
		o.Count("skipped.single-holder-quorum")
		return
	}
	ctxs := c01Contexts(o, seed, stream, q, p.realSession)
	if ctxs == nil {
		return
	}
	msg := c01Message(r)
	rngs := partyRngs(seed, stream*64+30, q)
	mk := func(rng io.Reader) (*vanilla.Scheme[P, S], error) {
		return vanilla.NewScheme(g.group, sha256.New, false, false, nil, rng)
	}
	var res *SchnorrResult[P, S]
	if p.runner {
		res = runLindell22Runner(mk, key.shards, q, ctxs, msg, rngs, NewRng(seed, stream*64+5), defaultCompiler)
	} else {
		res = runLindell22(mk, key.shards, q, ctxs, msg, rngs, NewRng(seed, stream*64+5), nil, defaultCompiler)
	}
	c01SchnorrReport(o, g, key, q, "vanilla", tag, msg, res)
}

func c01SchnorrReport[P curves.Point[P, F, S], F algebra.FiniteFieldElement[F], S algebra.PrimeFieldElement[S]](o *jobOut, g c03Group[P, F, S], key *c01Key[P, F, S], q []ID, variant, tag string, msg []byte, res *SchnorrResult[P, S]) {
	tag += " quorum=" + idsStr(q)
	if !res.Net.OK() || res.Sig == nil {
		o.Violation(c01Prop, fmt.Sprintf("honest-signing-failed %s status=%s agg=%s %s", tag, res.Net.StatusStr(), res.AggStatus, res.Net.statusSummary()))
		return
	}
	o.Count("sign.lindell22-" + variant)
	o.Count("keygen." + key.keygen)
	o.Count("family." + strings.SplitN(key.spec, ":", 2)[0])
	o.Count(fmt.Sprintf("quorum.%d", len(q)))
	if res.SigAlt == nil || !res.Sig.Equal(res.SigAlt) {
		o.Violation(c01Prop, "aggregators-disagree "+tag)
	}
	if !res.VerifyOK {
		o.Violation(c01Prop, "library-verifier-rejects "+tag)
	}
	nonces := "-"
	if len(res.NoncePoints) > 0 {
		nonces = pointMapStr(res.NoncePoints)
	}
	o.Emit(c01Prop, fmt.Sprintf("schnorr %s %s %s %s %s %s %s %s", variant, g.name, pointStr(res.PK), hexBytes(msg), scalarHex(res.Sig.E), pointStr(res.Sig.R), scalarHex(res.Sig.S), nonces), "ok")
	c01AddConv(o, g, key, q)
}

func c01SchnorrBIP340(o *jobOut, seed int64, stream uint64, p c01Params) {
	g := c03Group[*k256Point, *k256Base, *k256Scalar]{"k256", cK256}
	tag := fmt.Sprintf("proto=lindell22-bip340 runner=%v curve=k256 keygen=%s spec=%s seed=%d/%d", p.runner, p.keygen, p.spec, seed, stream)
	key := c01Keygen(o, seed, stream, g, p.keygen, p.spec)
	if key == nil {
		return
	}
	r := NewRng(seed, stream*64+4)
	q := c01Quorum(r, key.ac, p.qmode)
	if len(q) < 2 {
		o.Count("skipped.single-holder-quorum")
		return
	}
	ctxs := c01Contexts(o, seed, stream, q, p.realSession)
	if ctxs == nil {
		return
	}
	msg := c01Message(r)
	rngs := partyRngs(seed, stream*64+30, q)
	mk := func(rng io.Reader) (*bip340.Scheme, error) { return bip340.NewScheme(rng) }
	var res *SchnorrResult[*k256Point, *k256Scalar]
	if p.runner {
		res = runLindell22Runner(mk, key.shards, q, ctxs, msg, rngs, NewRng(seed, stream*64+5), defaultCompiler)
	} else {
		res = runLindell22(mk, key.shards, q, ctxs, msg, rngs, NewRng(seed, stream*64+5), nil, defaultCompiler)
	}
	c01SchnorrReport(o, g, key, q, "bip340", tag, msg, res)
}

func c01BLS(o *jobOut, seed int64, stream uint64, long bool, alg bls.RogueKeyPreventionAlgorithm, p c01Params) {
	tag := fmt.Sprintf("proto=boldyreva long=%v alg=%v keygen=%s spec=%s seed=%d/%d", long, alg, p.keygen, p.spec, seed, stream)
	r := NewRng(seed, stream*64+4)
	msg := c01Message(r)
	report := func(ok bool, status, agg string, same bool, q []ID) bool {
		if !ok {
			o.Violation(c01Prop, fmt.Sprintf("honest-signing-failed %s quorum=%s status=%s agg=%s", tag, idsStr(q), status, agg))
			return false
		}
		if !same {
			o.Violation(c01Prop, "aggregators-disagree "+tag)
		}
		o.Count("sign.boldyreva")
		o.Count("keygen." + p.keygen)
		o.Count("family." + strings.SplitN(p.spec, ":", 2)[0])
		return true
	}
	if long {
		g := c03Group[g2, g2f, bsc]{"bls12381g2", cBLSG2}
		key := c01Keygen(o, seed, stream, g, p.keygen, p.spec)
		if key == nil {
			return
		}
		q := c01Quorum(r, key.ac, p.qmode)
		ctxs := dealerContexts(append([]ID{}, q...), NewRng(seed, stream*64+3))
		if len(q) < 2 {
			o.Count("skipped.single-holder-quorum")
			return
		}
		res := runBoldyrevaLong(key.shards, q, ctxs, msg, alg, nil)
		if report(res.Net.OK() && res.Sig != nil, res.Net.StatusStr(), res.AggStatus, res.Sig != nil && res.SigAlt != nil && res.Sig.Equal(res.SigAlt), q) {
			c01AddConv(o, g, key, q)
		}
		return
	}
	g := c03Group[g1, g1f, bsc]{"bls12381g1", cBLSG1}
	key := c01Keygen(o, seed, stream, g, p.keygen, p.spec)
	if key == nil {
		return
	}
	q := c01Quorum(r, key.ac, p.qmode)
	if len(q) < 2 {
		o.Count("skipped.single-holder-quorum")
		return
	}
	ctxs := dealerContexts(q, NewRng(seed, stream*64+3))
	res := runBoldyrevaShort(key.shards, q, ctxs, msg, alg, nil)
	if report(res.Net.OK() && res.Sig != nil, res.Net.StatusStr(), res.AggStatus, res.Sig != nil && res.SigAlt != nil && res.Sig.Equal(res.SigAlt), q) {
		c01AddConv(o, g, key, q)
	}
}

func runC01(c *Ctx) {
	type job = func(*jobOut)
	var jobs []job
	r := NewRng(c.Seed, 1000)
	stream := uint64(1)
	keygens := []string{"dealer", "gennaro", "canetti"}
	mkParams := func(fam string, nMin, nMax int) c01Params {
		n := nMin + r.IntN(nMax-nMin+1)
		if (fam == "bool" || fam == "hier") && n < 3 {
			n = 3
		}
		return c01Params{keygen: keygens[r.IntN(3)], spec: genSpec(r, fam, n, !c.Thorough()), qmode: r.IntN(3), runner: r.IntN(3) == 0, realSession: r.IntN(3) == 0}
	}
	k := c03Group[*k256Point, *k256Base, *k256Scalar]{"k256", cK256}
	p2 := c03Group[*p256Point, *p256Base, *p256Scalar]{"p256", cP256}
	ed := c03Group[*edPoint, *edBase, *edScalar]{"ed25519", cEd25519}
	reps := 1
	if c.Thorough() {
		reps = 4
	}
	for range reps {
		// DKLs23 softspoken: every family, k256 (+ p256)
		for _, fam := range accessFamilies {
			p, s := mkParams(fam, 2, 4), stream
			jobs = append(jobs, func(o *jobOut) { c01ECDSA(o, c.Seed, s, k, cK256, "softspoken", "sha256", p) })
			stream++
		}
		{
			p, s := mkParams("th", 2, 3), stream
			jobs = append(jobs, func(o *jobOut) { c01ECDSA(o, c.Seed, s, p2, cP256, "softspoken", "sha512", p) })
			stream++
		}
		// DKLs23 bbot (slow): two-party quorums
		for _, fam := range []string{"th", "cnf"} {
			p, s := mkParams(fam, 2, 3), stream
			p.qmode = 0
			jobs = append(jobs, func(o *jobOut) { c01ECDSA(o, c.Seed, s, k, cK256, "bbot", "sha256", p) })
			stream++
		}
		// Lindell22 vanilla (k256, ed25519) and BIP-340: every family
		for _, fam := range accessFamilies {
			p, s := mkParams(fam, 2, 5), stream
			jobs = append(jobs, func(o *jobOut) { c01SchnorrVanilla(o, c.Seed, s, k, p) })
			stream++
			p, s = mkParams(fam, 2, 5), stream
			jobs = append(jobs, func(o *jobOut) { c01SchnorrBIP340(o, c.Seed, s, p) })
			stream++
		}
		for _, fam := range []string{"th", "bool", "cnf"} {
			p, s := mkParams(fam, 2, 4), stream
			jobs = append(jobs, func(o *jobOut) { c01SchnorrVanilla(o, c.Seed, s, ed, p) })
			stream++
		}
		// Boldyreva: short and long keys, the rogue-key modes
		for i, fam := range []string{"th", "cnf", "hier", "bool"} {
			p, s := mkParams(fam, 2, 4), stream
			alg := []bls.RogueKeyPreventionAlgorithm{bls.Basic, bls.MessageAugmentation, bls.POP}[i%3]
			long := i%2 == 1
			jobs = append(jobs, func(o *jobOut) { c01BLS(o, c.Seed, s, long, alg, p) })
			stream++
		}
	}
	runJobs(c, 12, jobs)
}
