// c01.go — C01: threshold signing by a qualified quorum yields a publicly valid signature; every party
// or aggregator that obtains an output obtains the same signature.
//
// Generation (see c01_cover.go): per protocol a pairwise covering array over every constructor option /
// variant / API the library offers, crossed with the access-structure family, the quorum kind, the key
// generation and the session setup:
//   lindell22   variant {bip340, mina, vanilla × response sign × challenge byte order} × API {rounds,
//               runner} × NIZK compiler {FiatShamir, Fischlin, RandomisedFischlin} × keygen × quorum ×
//               session × family;  every run is aggregated by EVERY aggregation path: for each quorum
//               member the plain Aggregator built from that member's public material and (round-by-round
//               API, where the cosigner exists) that member's CosigningAggregator (identifiable abort);
//   vanilla     the remaining schnorr.NewScheme arguments: curve {k256, p256, ed25519, pallas} × hash
//               {sha256, sha512, sha3-256, blake2b-256} × shouldNegateNonce {nil, parity} × sign × order;
//   dkls23      multiplier {bbot, softspoken} × API × curve {k256, p256} × hash × keygen × quorum ×
//               session × family; aggregated in ID order, reverse order and two random orders;
//   boldyreva   key size {short, long} × rogue-key mode {basic, message-augmentation, POP} × keygen ×
//               quorum × family; aggregated with every quorum member's public material;
//   lindell17   one run (3072-bit Paillier keys are the library's minimum: tens of seconds).
// Access structures: threshold, unanimity, CNF (non-ideal), hierarchical, boolean expressions (incl.
// repeated holders ⇒ several MSP rows per holder); IDs consecutive / sparse / > 2^32 / near 2^64 /
// unsorted; quorums minimal, all holders, random non-minimal.
//
// Lines (rhs `ok`; the Lean driver decides each relation in model curve arithmetic and recomputes the
// message digest / Fiat–Shamir challenge from the message with its own hash models):
//   C01 ecdsa <proto> <curve> <hash> <pk> <msg> <digest> <m> <r> <s> <nonces> <pkshares> => ok
//        driver: m' = bits2int(H(msg)) mod n with the model hash; ECDSA equation
//        x((m'/s)•G + (r/s)•pk) = r; r = x(Σ Rᵢ) mod n; Σ pkshareᵢ = pk.
//   C01 schnorr <variant> <curve> <pk> <msg> <e> <R> <s> <nonces> <partialRs> <partialSs> => ok
//        variant = bip340 | mina-<net> | vanilla:<hash>:<neg>:<le>;  driver: e' recomputed from
//        (R, pk, msg) (BIP-340 tagged hash; H(R‖P‖m), byte-reversed when le; Mina/Poseidon: e taken
//        from the line); vanilla: s•G = R ± e'•pk, R = Σ Rᵢ; bip340/mina: s•G = R + e'•P′, R even,
//        R = ±Σ Rᵢ; Σ partial sᵢ = s and Σ partial Rᵢ = R.
//   C01 bls <keycurve> <sigcurve> <alg> <sk> <pk> <H(m)> <sig> <H(pk)|-> <pop|-> => ok
//        sk = the secret reconstructed from all shards; driver: sk•G = pk, sig = sk•H(m)
//        (equivalent to the pairing equation), pop = sk•H_pop(pk).
//   C01 addconv <curve> <rows> <cols> <labels> <M> <V> <pk> <quorum> => ok
//        driver: model solveLeft coefficients c for the quorum's rows: Σ c_k • (M_k·V) = pk.
// Go-side oracles (!VIOLATION): honest run not ok; ANY aggregator path rejecting the honest partial
// signatures or producing a different signature; the library's single-party verifier or crypto/ecdsa
// rejects.

package main

import (
	nativeEcdsa "crypto/ecdsa"
	"crypto/sha256"
	"crypto/sha3"
	"crypto/sha512"
	"encoding/hex"
	"fmt"
	"hash"
	"io"
	"math/big"
	"os"
	"slices"
	"strconv"
	"strings"
	"time"

	"golang.org/x/crypto/blake2b"

	"github.com/bronlabs/bron-crypto/pkg/base/algebra"
	"github.com/bronlabs/bron-crypto/pkg/base/curves"
	"github.com/bronlabs/bron-crypto/pkg/base/curves/pairable/bls12381"
	"github.com/bronlabs/bron-crypto/pkg/base/curves/pasta"
	ds "github.com/bronlabs/bron-crypto/pkg/base/datastructures"
	"github.com/bronlabs/bron-crypto/pkg/base/datastructures/hashmap"
	"github.com/bronlabs/bron-crypto/pkg/hashing"
	"github.com/bronlabs/bron-crypto/pkg/mpc"
	"github.com/bronlabs/bron-crypto/pkg/mpc/session"
	"github.com/bronlabs/bron-crypto/pkg/mpc/sharing/accessstructures"
	"github.com/bronlabs/bron-crypto/pkg/mpc/sharing/scheme/kw"
	"github.com/bronlabs/bron-crypto/pkg/mpc/sharing/vss/feldman"
	"github.com/bronlabs/bron-crypto/pkg/mpc/signatures/bls/boldyreva02"
	blskeygen "github.com/bronlabs/bron-crypto/pkg/mpc/signatures/bls/boldyreva02/keygen"
	blssigning "github.com/bronlabs/bron-crypto/pkg/mpc/signatures/bls/boldyreva02/signing"
	"github.com/bronlabs/bron-crypto/pkg/mpc/signatures/ecdsa/dkls23"
	mpcschnorr "github.com/bronlabs/bron-crypto/pkg/mpc/signatures/schnorr"
	"github.com/bronlabs/bron-crypto/pkg/proofs/sigma/compiler"
	"github.com/bronlabs/bron-crypto/pkg/proofs/sigma/compiler/fiatshamir"
	"github.com/bronlabs/bron-crypto/pkg/proofs/sigma/compiler/fischlin"
	"github.com/bronlabs/bron-crypto/pkg/proofs/sigma/compiler/randfischlin"
	"github.com/bronlabs/bron-crypto/pkg/signatures/bls"
	"github.com/bronlabs/bron-crypto/pkg/signatures/ecdsa"
	"github.com/bronlabs/bron-crypto/pkg/signatures/schnorrlike"
	"github.com/bronlabs/bron-crypto/pkg/signatures/schnorrlike/bip340"
	"github.com/bronlabs/bron-crypto/pkg/signatures/schnorrlike/mina"
	vanilla "github.com/bronlabs/bron-crypto/pkg/signatures/schnorrlike/schnorr"
)

func init() { register("C01", runC01) }

const c01Prop = "C01"

var c01Hashes = map[string]func() hash.Hash{
	"sha256":      sha256.New,
	"sha512":      sha512.New,
	"sha3-256":    func() hash.Hash { return sha3.New256() },
	"blake2b-256": func() hash.Hash { h, _ := blake2b.New256(nil); return h },
}

var c01Compilers = map[string]compiler.Name{
	"fiatshamir":   fiatshamir.Name,
	"fischlin":     fischlin.Name,
	"randfischlin": randfischlin.Name,
}

// c01Key is a generated key: base shards of every holder.
type c01Key[P curves.Point[P, F, S], F algebra.FiniteFieldElement[F], S algebra.PrimeFieldElement[S]] struct {
	ac     accessstructures.Monotone
	spec   string
	keygen string
	shards map[ID]*mpc.BaseShard[P, S]
}

// c01Keygen produces base shards with the requested key generation; nil result means refused/failed
// (already reported).
func c01Keygen[P curves.Point[P, F, S], F algebra.FiniteFieldElement[F], S algebra.PrimeFieldElement[S]](o *jobOut, seed int64, stream uint64, g c03Group[P, F, S], keygen, spec string) *c01Key[P, F, S] {
	ac, err := parseAccess(spec)
	if err != nil {
		o.Note("rejected spec " + spec)
		o.Count("spec-rejected")
		return nil
	}
	ids := accessIDs(ac)
	var res *DKGResult[P, S]
	switch keygen {
	case "dealer":
		res = runTrustedDealer(g.group, ac, NewRng(seed, stream*64+1))
	case "gennaro":
		res = runGennaro(g.group, ac, dealerContexts(ids, NewRng(seed, stream*64+2)), partyRngs(seed, stream*64+8, ids), nil, defaultCompiler)
	case "canetti":
		res = runCanetti(g.group, ac, dealerContexts(ids, NewRng(seed, stream*64+2)), partyRngs(seed, stream*64+8, ids), nil)
	default:
		panic("c01Keygen: " + keygen)
	}
	if !res.Net.OK() || res.Shards == nil {
		if res.Net.Refused() {
			o.Note("keygen refused " + spec + " " + res.Net.StatusStr())
			o.Count("keygen-refused")
			return nil
		}
		if cnfHasLargeID(spec) && strings.Contains(res.Net.StatusStr(), "panic") {
			o.Violation(c01Prop, fmt.Sprintf("cnf-id-above-64-panic keygen=%s curve=%s spec=%s seed=%d/%d", keygen, g.name, spec, seed, stream))
			return nil
		}
		if cnfPowerlessHolder(spec) {
			o.Violation(c01Prop, fmt.Sprintf("cnf-powerless-holder keygen-failed keygen=%s curve=%s spec=%s seed=%d/%d status=%s", keygen, g.name, spec, seed, stream, res.Net.StatusStr()))
			return nil
		}
		o.Violation(c01Prop, fmt.Sprintf("keygen-failed keygen=%s curve=%s spec=%s seed=%d/%d status=%s", keygen, g.name, spec, seed, stream, res.Net.StatusStr()))
		return nil
	}
	for _, id := range ids {
		if res.Shards[id] == nil {
			key := "missing-shard"
			if cnfPowerlessHolder(spec) {
				key = "cnf-powerless-holder missing-shard"
			}
			o.Violation(c01Prop, fmt.Sprintf("%s party=%d keygen=%s curve=%s spec=%s seed=%d/%d", key, id, keygen, g.name, spec, seed, stream))
			return nil
		}
	}
	return &c01Key[P, F, S]{ac, spec, keygen, res.Shards}
}

// c01Quorum picks a qualified quorum: minimal (mode 0), the full holder set (1) or a random
// non-minimal qualified set (2). (Also used by the C06 stream: keep signature and Rng consumption.)
func c01Quorum(r *Rng, ac accessstructures.Monotone, mode int) []ID {
	mins := minimalQualifiedSets(ac)
	if len(mins) == 0 {
		return nil
	}
	base := mins[r.IntN(len(mins))]
	switch mode {
	case 0:
		return base
	case 1:
		return accessIDs(ac)
	default:
		q := append([]ID{}, base...)
		for _, id := range accessIDs(ac) {
			in := false
			for _, b := range q {
				in = in || b == id
			}
			if !in && r.IntN(2) == 0 {
				q = append(q, id)
			}
		}
		return sortedIDs(q)
	}
}

// c01QuorumKind picks a qualified quorum: a minimal one ("min"), the full holder set ("all") or a random
// non-minimal qualified set ("rand": a minimal set plus at least one further holder when there is one).
func c01QuorumKind(r *Rng, ac accessstructures.Monotone, mode string) []ID {
	mins := minimalQualifiedSets(ac)
	if len(mins) == 0 {
		return nil
	}
	base := mins[r.IntN(len(mins))]
	switch mode {
	case "min":
		return base
	case "all":
		return accessIDs(ac)
	default:
		q := append([]ID{}, base...)
		var rest []ID
		for _, id := range accessIDs(ac) {
			if !slices.Contains(base, id) {
				rest = append(rest, id)
			}
		}
		if len(rest) > 0 {
			forced := r.IntN(len(rest))
			for k, id := range rest {
				if k == forced || r.IntN(2) == 0 {
					q = append(q, id)
				}
			}
		}
		return sortedIDs(q)
	}
}

func c01Contexts(o *jobOut, seed int64, stream uint64, q []ID, real bool) map[ID]*session.Context {
	if real {
		n, ctxs := runSession(q, partyRngs(seed, stream*64+20, q), nil)
		if !n.OK() {
			o.Violation(c01Prop, "session-failed "+n.StatusStr())
			return nil
		}
		return ctxs
	}
	return dealerContexts(q, NewRng(seed, stream*64+3))
}

func c01Message(r *Rng) []byte {
	n := []int{1, 5, 32, 33, 64, 200}[r.IntN(6)]
	b := make([]byte, n)
	_, _ = r.Read(b)
	return b
}

func c01AddConv[P curves.Point[P, F, S], F algebra.FiniteFieldElement[F], S algebra.PrimeFieldElement[S]](o *jobOut, curve string, ac accessstructures.Monotone, shard *mpc.BaseShard[P, S], q []ID) {
	v := shardView(shard)
	cols := 0
	if len(v.Rows) > 0 {
		cols = len(v.Rows[0])
	}
	if len(v.Labels) > len(accessIDs(ac)) {
		o.Count("msp.non-ideal")
		for _, id := range q {
			rows := 0
			for _, l := range v.Labels {
				if l == id {
					rows++
				}
			}
			if rows > 1 {
				o.Count("msp.multi-row-holder-in-quorum")
				break
			}
		}
	}
	// measured: does the library's reconstruction vector for this quorum use several rows of one holder?
	_ = safely(func() string {
		for _, id := range q {
			cs, err := shard.MSP().ReconstructionCoefficients(id, q...)
			if err != nil {
				return "err"
			}
			nz := 0
			for _, c := range cs {
				if !c.IsZero() {
					nz++
				}
			}
			if nz > 1 {
				o.Count("msp.quorum-member-uses-several-rows")
				return "ok"
			}
		}
		return "ok"
	})
	o.Emit(c01Prop, fmt.Sprintf("addconv %s %d %d %s %s %s %s %s", curve, len(v.Rows), cols, idsStr(v.Labels), matHex(v.Rows), pointsStr(v.V), pointStr(v.PK), idsStr(q)), "ok")
}

func pointMapStr[P curves.Point[P, F, S], F algebra.FiniteFieldElement[F], S algebra.PrimeFieldElement[S]](m map[ID]P) string {
	var ps []P
	for _, id := range sortedKeys(m) {
		ps = append(ps, m[id])
	}
	return pointsStr(ps)
}

// c01Params: the options shared by all protocols.
type c01Params struct {
	row         c01Row
	family      string
	keygen      string
	qmode       string
	runner      bool
	realSession bool
	nMin, nMax  int
	quick       bool
	spec        string // fixed spec ("" = generate from the family)
	fixedQuorum []ID   // with a fixed spec: the signing quorum (nil = by qmode)
}

func c01CommonParams(row c01Row, nMin, nMax int, quick bool) c01Params {
	p := c01Params{row: row, family: row.get("family"), keygen: row.get("keygen"), qmode: row.get("quorum"), nMin: nMin, nMax: nMax, quick: quick}
	for _, d := range row.dims {
		switch d.name {
		case "api":
			p.runner = row.get("api") == "runner"
		case "session":
			p.realSession = row.get("session") == "real"
		}
	}
	return p
}

// c01IDClass classifies an ID assignment for the statistics.
func c01IDClass(ids []ID) string {
	s := sortedIDs(ids)
	switch {
	case uint64(s[len(s)-1]) >= 1<<63:
		return "near-2^64"
	case uint64(s[len(s)-1]) > 1<<32:
		return "above-2^32"
	case uint64(s[len(s)-1]) == uint64(len(s)):
		return "consecutive"
	case uint64(s[len(s)-1]) <= 64:
		return "sparse-below-65"
	default:
		return "sparse"
	}
}

// c01Setup: access structure (generated from the family unless fixed), key generation, quorum. A
// structure that the library refuses or whose only quorums have a single member is regenerated (up to
// four attempts) so that the planned option combination is still exercised.
func c01Setup[P curves.Point[P, F, S], F algebra.FiniteFieldElement[F], S algebra.PrimeFieldElement[S]](o *jobOut, seed int64, stream uint64, g c03Group[P, F, S], p c01Params) (*c01Key[P, F, S], []ID, *Rng) {
	r := NewRng(seed, stream*64+4)
	for attempt := range 4 {
		spec := p.spec
		if spec == "" {
			n := p.nMin + r.IntN(p.nMax-p.nMin+1)
			if p.qmode == "rand" {
				n = p.nMax // room for a quorum strictly between a minimal one and all holders
			}
			if (p.family == "bool" || p.family == "hier") && n < 3 {
				n = 3
			}
			// CNF holder IDs are not capped (cnf.InducedMSP handles IDs > 64 since /repo 31f4236; a panic
			// there is still reported as cnf-id-above-64-panic); the quick tier only avoids structures with
			// a powerless holder (open finding, reported by the thorough tier under cnf-powerless-holder)
			spec = genSpec(r, p.family, n, false)
			for p.quick && cnfPowerlessHolder(spec) {
				spec = genSpec(r, p.family, n, false)
			}
		}
		key := c01Keygen(o, seed, stream+uint64(attempt)*1_000_003, g, p.keygen, spec)
		if key == nil {
			if p.spec != "" {
				return nil, nil, r
			}
			continue
		}
		q := c01QuorumKind(r, key.ac, p.qmode)
		if p.fixedQuorum != nil {
			q = sortedIDs(p.fixedQuorum)
		}
		if len(q) < 2 {
			o.Note("quorum of one holder: regenerated " + spec)
			o.Count("regenerated.single-holder-quorum")
			if p.spec != "" {
				return nil, nil, r
			}
			continue
		}
		return key, q, r
	}
	o.Count("skipped.no-usable-structure")
	return nil, nil, r
}

func (p c01Params) countRun(o *jobOut, proto string, ac accessstructures.Monotone, spec, keygen string, q []ID) {
	fam := strings.SplitN(spec, ":", 2)[0]
	ids := specIDs(spec)
	o.Count("sign." + proto)
	o.Count("keygen." + keygen)
	o.Count("family." + fam)
	o.Count("family-x-proto." + fam + "." + proto)
	o.Count(fmt.Sprintf("quorum.size=%d", len(q)))
	minimal := false
	for _, m := range minimalQualifiedSets(ac) {
		minimal = minimal || slices.Equal(sortedIDs(m), sortedIDs(q))
	}
	switch {
	case minimal && len(q) == len(accessIDs(ac)):
		o.Count("quorum.kind=minimal-and-all-holders")
	case minimal:
		o.Count("quorum.kind=minimal")
	case len(q) == len(accessIDs(ac)):
		o.Count("quorum.kind=non-minimal-all-holders")
	default:
		o.Count("quorum.kind=non-minimal-proper-subset")
	}
	o.Count("ids." + c01IDClass(ids))
	if !slices.IsSorted(ids) {
		o.Count("ids.unsorted-in-spec")
	}
	if p.runner {
		o.Count("api.runner")
	} else {
		o.Count("api.rounds")
	}
	if p.row.array != "" {
		p.row.countCovered(o)
	}
}

// specIDs lists the IDs of a spec in the order in which they are written.
func specIDs(spec string) []ID {
	var out []ID
	cur := uint64(0)
	in := false
	body := spec
	if i := strings.Index(spec, ":"); i >= 0 {
		body = spec[i+1:]
	}
	seen := map[ID]bool{}
	flush := func() {
		if in && !seen[ID(cur)] {
			seen[ID(cur)] = true
			out = append(out, ID(cur))
		}
		in, cur = false, 0
	}
	for i := 0; i < len(body); i++ {
		ch := body[i]
		switch {
		case ch >= '0' && ch <= '9':
			// "th2(" / "th:2:" carry thresholds, not IDs: skip digits that directly follow "th" or precede ':'
			if !in && i >= 2 && body[i-2:i] == "th" {
				for i < len(body) && body[i] >= '0' && body[i] <= '9' {
					i++
				}
				i--
				continue
			}
			in = true
			cur = cur*10 + uint64(ch-'0')
		case ch == ':':
			in, cur = false, 0 // a threshold
		default:
			flush()
		}
	}
	flush()
	return out
}

// ---------------------------------------------------------------------------------------------
// DKLs23

func c01ECDSA[P curves.Point[P, B, S], B algebra.PrimeFieldElement[B], S algebra.PrimeFieldElement[S]](o *jobOut, seed int64, stream uint64, g c03Group[P, B, S], curve ecdsa.Curve[P, B, S], variant string, hname string, p c01Params) {
	tag := fmt.Sprintf("proto=dkls23-%s runner=%v curve=%s hash=%s keygen=%s seed=%d/%d", variant, p.runner, g.name, hname, p.keygen, seed, stream)
	key, q, r := c01Setup(o, seed, stream, g, p)
	if key == nil {
		return
	}
	tag += " spec=" + key.spec
	suite, err := ecdsa.NewSuite(curve, c01Hashes[hname])
	if err != nil {
		o.Violation(c01Prop, "suite "+classify(err)+" "+tag)
		return
	}
	ctxs := c01Contexts(o, seed, stream, q, p.realSession)
	if ctxs == nil {
		return
	}
	msg := c01Message(r)
	rngs := partyRngs(seed, stream*64+30, q)
	var res *ECDSAResult[P, B, S]
	if p.runner {
		res = runDKLs23Runner(variant, suite, key.shards, q, ctxs, msg, rngs)
	} else {
		res = runDKLs23(variant, suite, key.shards, q, ctxs, msg, rngs, nil)
	}
	tag += " quorum=" + idsStr(q)
	if !res.Net.OK() || res.Sig == nil {
		o.Violation(c01Prop, fmt.Sprintf("honest-signing-failed %s status=%s agg=%s %s", tag, res.Net.StatusStr(), res.AggStatus, res.Net.statusSummary()))
		return
	}
	p.countRun(o, "dkls23-"+variant, key.ac, key.spec, key.keygen, q)
	if res.SigAlt == nil || !res.Sig.Equal(res.SigAlt) {
		o.Violation(c01Prop, "aggregators-disagree order=reverse "+tag)
	}
	pk, _ := ecdsa.NewPublicKey(res.PK)
	// further aggregators: the same partial signatures in random orders
	for k := range 2 {
		ids := sortedKeys(res.Partials)
		r.Shuffle(len(ids), func(i, j int) { ids[i], ids[j] = ids[j], ids[i] })
		vr := safely(func() string {
			ps := make([]*dkls23.PartialSignature[P, B, S], 0, len(ids))
			for _, id := range ids {
				ps = append(ps, res.Partials[id])
			}
			sig, err := dkls23.Aggregate(suite, pk, msg, ps...)
			if err != nil {
				return "aggregator-rejected-honest-partials class=" + classify(err)
			}
			if !sig.Equal(res.Sig) {
				return "aggregators-disagree"
			}
			return "ok"
		})
		o.Count("agg.dkls23.order-shuffled")
		if vr != "ok" {
			o.Violation(c01Prop, fmt.Sprintf("%s order=shuffle%d:%s %s", vr, k, idsStr(ids), tag))
		}
	}
	c01ECDSAReport(o, g, suite, hname, "dkls23-"+variant, tag, res.PK, msg, res.Sig, pointMapStr(res.NoncePoints), pointMapStr(res.PkShares))
	c01AddConv(o, g.name, key.ac, key.shards[q[0]], q)
}

// c01ECDSAReport: library verifier, crypto/ecdsa, and the driver line.
func c01ECDSAReport[P curves.Point[P, B, S], B algebra.PrimeFieldElement[B], S algebra.PrimeFieldElement[S]](o *jobOut, g c03Group[P, B, S], suite *ecdsa.Suite[P, B, S], hname, proto, tag string, pkv P, msg []byte, sig *ecdsa.Signature[S], nonces, pkShares string) {
	pk, _ := ecdsa.NewPublicKey(pkv)
	if vr := safely(func() string {
		vf, err := ecdsa.NewVerifier(suite)
		if err != nil {
			return "verifier-" + classify(err)
		}
		if err := vf.Verify(sig, pk, msg); err != nil {
			return "library-verifier-rejects"
		}
		return "ok"
	}); vr != "ok" {
		o.Violation(c01Prop, vr+" "+tag)
	}
	digest, err := hashing.Hash(suite.HashFunc(), msg)
	if err != nil {
		o.Violation(c01Prop, "hash "+tag)
		return
	}
	if vr := safely(func() string {
		npk, err := pk.ToElliptic()
		if err != nil {
			return "skip"
		}
		nr, ns := sig.ToElliptic()
		if !nativeEcdsa.Verify(npk, digest, nr, ns) {
			return "crypto/ecdsa-rejects"
		}
		o.Count("oracle.crypto/ecdsa")
		return "ok"
	}); vr != "ok" && vr != "skip" {
		o.Violation(c01Prop, vr+" "+tag)
	}
	m, err := ecdsa.DigestToScalar(suite.ScalarField(), digest)
	if err != nil {
		o.Violation(c01Prop, "digest-to-scalar "+tag)
		return
	}
	o.Emit(c01Prop, fmt.Sprintf("ecdsa %s %s %s %s %s %s %s %s %s %s %s", proto, g.name, hname, pointStr(pkv), hexBytes(msg), hex.EncodeToString(digest),
		scalarHex(m), scalarHex(sig.R()), scalarHex(sig.S()), nonces, pkShares), "ok")
}

// ---------------------------------------------------------------------------------------------
// Lindell17 (two-party ECDSA with Paillier): one run; the key material is not reproducible from the
// seed (crypto/rand.Prime), the line carries everything the driver needs.

func c01Lindell17(o *jobOut, seed int64, stream uint64) {
	r := NewRng(seed, stream*64+4)
	ids := genIDs(r, 3, 0)
	spec := fmt.Sprintf("th:2:%s", idsStr(ids))
	tag := fmt.Sprintf("proto=lindell17 curve=k256 hash=sha256 spec=%s seed=%d/%d", spec, seed, stream)
	ac := mustAccess(spec)
	shards, cls := runLindell17Deal(cK256, ac, 3072, NewRng(seed, stream*64+1))
	if cls != "ok" {
		o.Violation(c01Prop, "lindell17-deal "+cls+" "+tag)
		return
	}
	suite, _ := ecdsa.NewSuite(cK256, sha256.New)
	r.Shuffle(len(ids), func(i, j int) { ids[i], ids[j] = ids[j], ids[i] })
	primary, secondary := ids[0], ids[1]
	q := sortedIDs([]ID{primary, secondary})
	msg := c01Message(r)
	nic := []compiler.Name{fiatshamir.Name, fischlin.Name, randfischlin.Name}[r.IntN(3)]
	res := runLindell17Sign(suite, shards, primary, secondary, dealerContexts(q, NewRng(seed, stream*64+3)), msg, partyRngs(seed, stream*64+30, q), nil, nic)
	tag += fmt.Sprintf(" primary=%d secondary=%d nic=%s", primary, secondary, nic)
	if !res.Net.OK() || res.Sig == nil {
		o.Violation(c01Prop, fmt.Sprintf("honest-signing-failed %s status=%s %s", tag, res.Net.StatusStr(), res.Net.statusSummary()))
		return
	}
	o.Count("sign.lindell17")
	o.Count("family.th")
	o.Count("family-x-proto.th.lindell17")
	g := c03Group[*k256Point, *k256Base, *k256Scalar]{"k256", cK256}
	c01ECDSAReport(o, g, suite, "sha256", "lindell17", tag, shards[primary].PublicKeyValue(), msg, res.Sig, "-", "-")
	c01AddConv(o, "k256", ac, &shards[primary].BaseShard, q)
}

// ---------------------------------------------------------------------------------------------
// Lindell22

// c01Lindell22 runs one Lindell22 signing with the scheme built by mk and reports it.
func c01Lindell22[
	SCH mpcschnorr.MPCFriendlyScheme[VR, P, S, M, KG, SG, VF],
	VR mpcschnorr.MPCFriendlyVariant[P, S, M],
	P curves.Point[P, F, S], F algebra.FiniteFieldElement[F], S algebra.PrimeFieldElement[S], M schnorrlike.Message,
	KG schnorrlike.KeyGenerator[P, S], SG schnorrlike.Signer[VR, P, S, M], VF schnorrlike.Verifier[VR, P, S, M],
](o *jobOut, seed int64, stream uint64, g c03Group[P, F, S], variant string, mk func(io.Reader) (SCH, error), mkMsg func(*Rng) (M, []byte), nicName string, p c01Params) {
	tag := fmt.Sprintf("proto=lindell22 variant=%s runner=%v nic=%s curve=%s keygen=%s seed=%d/%d", variant, p.runner, nicName, g.name, p.keygen, seed, stream)
	key, q, r := c01Setup(o, seed, stream, g, p)
	if key == nil {
		return
	}
	tag += " spec=" + key.spec
	ctxs := c01Contexts(o, seed, stream, q, p.realSession)
	if ctxs == nil {
		return
	}
	msg, msgBytes := mkMsg(r)
	rngs := partyRngs(seed, stream*64+30, q)
	nic := c01Compilers[nicName]
	var res *SchnorrResult[P, S]
	if p.runner {
		res = runLindell22Runner[SCH, VR, P, S, M, KG, SG, VF](mk, key.shards, q, ctxs, msg, rngs, NewRng(seed, stream*64+5), nic)
	} else {
		res = runLindell22[SCH, VR, P, S, M, KG, SG, VF](mk, key.shards, q, ctxs, msg, rngs, NewRng(seed, stream*64+5), nil, nic)
	}
	tag += " quorum=" + idsStr(q)
	if !res.Net.OK() || res.Sig == nil {
		o.Violation(c01Prop, fmt.Sprintf("honest-signing-failed %s status=%s agg=%s %s", tag, res.Net.StatusStr(), res.AggStatus, res.Net.statusSummary()))
		return
	}
	proto := "lindell22-" + strings.SplitN(variant, ":", 2)[0]
	p.countRun(o, proto, key.ac, key.spec, key.keygen, q)
	o.Count("lindell22.nic=" + nicName)
	if res.SigAlt == nil || !res.Sig.Equal(res.SigAlt) {
		o.Violation(c01Prop, "aggregators-disagree second-plain-aggregator "+tag)
	}
	// every aggregation path over the same honest partial signatures: each must output a signature, and
	// all outputs must be the same signature (canonical serialisation and in-memory value)
	if len(res.Aggs) == 0 {
		o.Violation(c01Prop, "no-aggregator-ran "+tag)
	}
	var ref *SchnorrAgg[P, S]
	for i := range res.Aggs {
		a := &res.Aggs[i]
		o.Count("agg.lindell22." + a.Kind)
		o.Count(fmt.Sprintf("agg.%s.%s", proto, a.Kind))
		switch {
		case a.Status != "ok" || a.Sig == nil:
			o.Violation(c01Prop, fmt.Sprintf("aggregator-rejected-honest-partials proto=%s aggregator=%s class=%s party=%d %s", proto, a.Kind, a.Status, a.ID, tag))
		case a.Bytes == nil:
			o.Violation(c01Prop, fmt.Sprintf("signature-not-serialisable proto=%s aggregator=%s party=%d %s", proto, a.Kind, a.ID, tag))
		case ref == nil:
			ref = a
			if !a.Sig.Equal(res.Sig) {
				o.Violation(c01Prop, fmt.Sprintf("aggregators-disagree proto=%s aggregator=%s party=%d %s", proto, a.Kind, a.ID, tag))
			}
		case !slices.Equal(a.Bytes, ref.Bytes):
			o.Violation(c01Prop, fmt.Sprintf("aggregators-disagree proto=%s aggregator=%s party=%d %s", proto, a.Kind, a.ID, tag))
		case !a.Sig.Equal(ref.Sig):
			// same serialisation, different in-memory value (e.g. the y parity of an x-only nonce point)
			o.Violation(c01Prop, fmt.Sprintf("aggregators-disagree in-memory-only proto=%s aggregator=%s party=%d %s", proto, a.Kind, a.ID, tag))
		}
	}
	if !res.VerifyOK {
		o.Violation(c01Prop, "library-verifier-rejects "+tag)
	}
	nonces := "-"
	if len(res.NoncePoints) > 0 {
		nonces = pointMapStr(res.NoncePoints)
	}
	var pRs []P
	var pSs []S
	for _, id := range sortedKeys(res.Partials) {
		pRs = append(pRs, res.Partials[id].Sig.R)
		pSs = append(pSs, res.Partials[id].Sig.S)
	}
	o.Emit(c01Prop, fmt.Sprintf("schnorr %s %s %s %s %s %s %s %s %s %s", variant, g.name, pointStr(res.PK), hexBytes(msgBytes), scalarHex(res.Sig.E), pointStr(res.Sig.R), scalarHex(res.Sig.S), nonces, pointsStr(pRs), scalarsHex(pSs)), "ok")
	c01AddConv(o, g.name, key.ac, key.shards[q[0]], q)
}

func c01BytesMsg(r *Rng) ([]byte, []byte) { m := c01Message(r); return m, m }

// c01Vanilla: the configurable Schnorr scheme over group g.
func c01Vanilla[P curves.Point[P, F, S], F algebra.FiniteFieldElement[F], S algebra.PrimeFieldElement[S]](o *jobOut, seed int64, stream uint64, g c03Group[P, F, S], hname string, neg, le, parity bool, nicName string, p c01Params) {
	var negNonce func(P) bool
	if parity {
		negNonce = func(R P) bool {
			// the coordinate whose sign negation flips: y on Weierstrass curves, x on Edwards curves
			var v F
			var err error
			if g.name == "ed25519" {
				v, err = R.AffineX()
			} else {
				v, err = R.AffineY()
			}
			if err != nil {
				return false
			}
			b, ok := new(big.Int).SetString(feHex(v), 16)
			return ok && b.Bit(0) == 1
		}
	}
	b := func(x bool) int {
		if x {
			return 1
		}
		return 0
	}
	variant := fmt.Sprintf("vanilla:%s:%d:%d", hname, b(neg), b(le))
	mk := func(rng io.Reader) (*vanilla.Scheme[P, S], error) {
		return vanilla.NewScheme(g.group, c01Hashes[hname], neg, le, negNonce, rng)
	}
	o.Count(fmt.Sprintf("vanilla.neg=%v.le=%v", neg, le))
	c01Lindell22(o, seed, stream, g, variant, mk, c01BytesMsg, nicName, p)
}

func c01VanillaOn(o *jobOut, seed int64, stream uint64, curve, hname string, neg, le, parity bool, nicName string, p c01Params) {
	switch curve {
	case "k256":
		c01Vanilla(o, seed, stream, c03Group[*k256Point, *k256Base, *k256Scalar]{"k256", cK256}, hname, neg, le, parity, nicName, p)
	case "p256":
		c01Vanilla(o, seed, stream, c03Group[*p256Point, *p256Base, *p256Scalar]{"p256", cP256}, hname, neg, le, parity, nicName, p)
	case "ed25519":
		c01Vanilla(o, seed, stream, c03Group[*edPoint, *edBase, *edScalar]{"ed25519", cEd25519}, hname, neg, le, parity, nicName, p)
	case "pallas":
		c01Vanilla(o, seed, stream, c03Group[*pallasPoint, *pallasBase, *pallasScalar]{"pallas", cPallas}, hname, neg, le, parity, nicName, p)
	default:
		panic("c01VanillaOn: " + curve)
	}
}

func c01BIP340(o *jobOut, seed int64, stream uint64, nicName string, p c01Params) {
	g := c03Group[*k256Point, *k256Base, *k256Scalar]{"k256", cK256}
	mk := func(rng io.Reader) (*bip340.Scheme, error) { return bip340.NewScheme(rng) }
	c01Lindell22(o, seed, stream, g, "bip340", mk, c01BytesMsg, nicName, p)
}

func c01Mina(o *jobOut, seed int64, stream uint64, nicName string, p c01Params) {
	g := c03Group[*pallasPoint, *pallasBase, *pallasScalar]{"pallas", cPallas}
	nid := []mina.NetworkID{mina.MainNet, mina.TestNet}[NewRng(seed, stream*64+7).IntN(2)]
	mk := func(rng io.Reader) (*mina.Scheme, error) { return mina.NewRandomisedScheme(nid, rng) }
	mkMsg := func(r *Rng) (*mina.Message, []byte) {
		raw := c01Message(r)
		m := new(mina.ROInput).Init()
		m.AddString(hex.EncodeToString(raw))
		if r.IntN(2) == 0 {
			var fb [24]byte
			_, _ = r.Read(fb[:])
			if fe, err := pasta.NewPallasBaseField().FromBytesBEReduce(fb[:]); err == nil {
				m.AddFields(fe)
			}
		}
		return m, raw
	}
	c01Lindell22(o, seed, stream, g, "mina-"+string(nid), mk, mkMsg, nicName, p)
}

// ---------------------------------------------------------------------------------------------
// Boldyreva

type c01BLSKit[PK curves.PairingFriendlyPoint[PK, PKF, SG, SGF, gt, bsc], PKF algebra.FiniteFieldElement[PKF], SG curves.PairingFriendlyPoint[SG, SGF, PK, PKF, gt, bsc], SGF algebra.FiniteFieldElement[SGF]] struct {
	keyCurve, sigCurve string
	variant            bls.Variant
	group              c03Group[PK, PKF, bsc]
	sigStr             func(SG) string
	run                func(base map[ID]*mpc.BaseShard[PK, bsc], quorum []ID, ctxs map[ID]*session.Context, msg []byte, alg bls.RogueKeyPreventionAlgorithm, hook Hook) *BLSResult[PK, PKF, SG, SGF]
	newShard           func(*mpc.BaseShard[PK, bsc]) (*boldyreva02.Shard[PK, PKF, SG, SGF, gt, bsc], error)
	newAgg             func(*boldyreva02.PublicMaterial[PK, PKF, SG, SGF, gt, bsc], bls.RogueKeyPreventionAlgorithm) (*blssigning.Aggregator[PK, PKF, SG, SGF, gt, bsc], error)
	newScheme          func(bls.RogueKeyPreventionAlgorithm) (*bls.Scheme[PK, PKF, SG, SGF, gt, bsc], error)
}

var c01BLSFamily = &bls12381.FamilyTrait{}

func c01BLSShortKit() c01BLSKit[g1, g1f, g2, g2f] {
	return c01BLSKit[g1, g1f, g2, g2f]{
		keyCurve: "bls12381g1", sigCurve: "bls12381g2", variant: bls.ShortKey,
		group:  c03Group[g1, g1f, bsc]{"bls12381g1", cBLSG1},
		sigStr: func(p g2) string { return pointStr(p) },
		run:    runBoldyrevaShort,
		newShard: func(b *mpc.BaseShard[g1, bsc]) (*boldyreva02.Shard[g1, g1f, g2, g2f, gt, bsc], error) {
			return blskeygen.NewShortKeyShard[g1, g1f, g2, g2f, gt, bsc](b)
		},
		newAgg: func(pm *boldyreva02.PublicMaterial[g1, g1f, g2, g2f, gt, bsc], alg bls.RogueKeyPreventionAlgorithm) (*blssigning.Aggregator[g1, g1f, g2, g2f, gt, bsc], error) {
			return blssigning.NewShortKeyAggregator(c01BLSFamily, pm, alg)
		},
		newScheme: func(alg bls.RogueKeyPreventionAlgorithm) (*bls.Scheme[g1, g1f, g2, g2f, gt, bsc], error) {
			return bls.NewShortKeyScheme(c01BLSFamily, alg)
		},
	}
}

func c01BLSLongKit() c01BLSKit[g2, g2f, g1, g1f] {
	return c01BLSKit[g2, g2f, g1, g1f]{
		keyCurve: "bls12381g2", sigCurve: "bls12381g1", variant: bls.LongKey,
		group:  c03Group[g2, g2f, bsc]{"bls12381g2", cBLSG2},
		sigStr: func(p g1) string { return pointStr(p) },
		run:    runBoldyrevaLong,
		newShard: func(b *mpc.BaseShard[g2, bsc]) (*boldyreva02.Shard[g2, g2f, g1, g1f, gt, bsc], error) {
			return blskeygen.NewLongKeyShard[g2, g2f, g1, g1f, gt, bsc](b)
		},
		newAgg: func(pm *boldyreva02.PublicMaterial[g2, g2f, g1, g1f, gt, bsc], alg bls.RogueKeyPreventionAlgorithm) (*blssigning.Aggregator[g2, g2f, g1, g1f, gt, bsc], error) {
			return blssigning.NewLongKeyAggregator(c01BLSFamily, pm, alg)
		},
		newScheme: func(alg bls.RogueKeyPreventionAlgorithm) (*bls.Scheme[g2, g2f, g1, g1f, gt, bsc], error) {
			return bls.NewLongKeyScheme(c01BLSFamily, alg)
		},
	}
}

var c01BLSAlgs = map[string]bls.RogueKeyPreventionAlgorithm{"basic": bls.Basic, "aug": bls.MessageAugmentation, "pop": bls.POP}

func c01BLS[PK curves.PairingFriendlyPoint[PK, PKF, SG, SGF, gt, bsc], PKF algebra.FiniteFieldElement[PKF], SG curves.PairingFriendlyPoint[SG, SGF, PK, PKF, gt, bsc], SGF algebra.FiniteFieldElement[SGF]](o *jobOut, seed int64, stream uint64, kit c01BLSKit[PK, PKF, SG, SGF], algName string, p c01Params) {
	alg := c01BLSAlgs[algName]
	g := kit.group
	tag := fmt.Sprintf("proto=boldyreva key=%s alg=%s keygen=%s seed=%d/%d", kit.keyCurve, algName, p.keygen, seed, stream)
	key, q, r := c01Setup(o, seed, stream, g, p)
	if key == nil {
		return
	}
	tag += " spec=" + key.spec + " quorum=" + idsStr(q)
	msg := c01Message(r)
	ctxs := dealerContexts(slices.Clone(q), NewRng(seed, stream*64+3))
	res := kit.run(key.shards, q, ctxs, msg, alg, nil)
	if !res.Net.OK() || res.Sig == nil {
		o.Violation(c01Prop, fmt.Sprintf("honest-signing-failed %s status=%s agg=%s", tag, res.Net.StatusStr(), res.AggStatus))
		return
	}
	proto := "boldyreva-" + map[bls.Variant]string{bls.ShortKey: "short", bls.LongKey: "long"}[kit.variant] + "-" + algName
	p.countRun(o, proto, key.ac, key.spec, key.keygen, q)
	if res.SigAlt == nil || !res.Sig.Equal(res.SigAlt) {
		o.Violation(c01Prop, "aggregators-disagree second-aggregator "+tag)
	}
	// an aggregator per quorum member, built from that member's own public material
	var in ds.Map[ID, *boldyreva02.PartialSignature[SG, SGF, PK, PKF, gt, bsc]] = hashmap.NewComparableFromNativeLike(res.Partials).Freeze()
	aggIDs := q
	if p.quick && len(q) > 2 { // quick tier: the first and the last quorum member
		aggIDs = []ID{q[0], q[len(q)-1]}
	}
	for _, id := range aggIDs {
		vr := safely(func() string {
			sh, err := kit.newShard(key.shards[id])
			if err != nil {
				return "shard-" + classify(err)
			}
			agg, err := kit.newAgg(sh.PublicKeyMaterial(), alg)
			if err != nil {
				return "new-" + classify(err)
			}
			sig, err := agg.Aggregate(in, msg)
			if err != nil {
				return "aggregator-rejected-honest-partials class=" + classify(err)
			}
			if !sig.Equal(res.Sig) {
				return "aggregators-disagree"
			}
			return "ok"
		})
		o.Count("agg.boldyreva.per-party")
		if vr != "ok" {
			o.Violation(c01Prop, fmt.Sprintf("%s aggregator=party-%d %s", vr, id, tag))
		}
	}
	// the library's single-party verifier under the group public key
	scheme, err := kit.newScheme(alg)
	if err != nil {
		o.Violation(c01Prop, "bls-scheme "+classify(err)+" "+tag)
		return
	}
	pk, err := bls.NewPublicKey(res.PK)
	if err != nil {
		o.Violation(c01Prop, "bls-public-key "+classify(err)+" "+tag)
		return
	}
	if vr := safely(func() string {
		vf, err := scheme.Verifier()
		if err != nil {
			return "verifier-" + classify(err)
		}
		if err := vf.Verify(res.Sig, pk, msg); err != nil {
			return "library-verifier-rejects"
		}
		return "ok"
	}); vr != "ok" {
		o.Violation(c01Prop, vr+" "+tag)
	}
	// independent line: the secret reconstructed from all shards, the hashed message, the signature
	fs, err := feldman.NewScheme(g.group, key.ac)
	if err != nil {
		o.Violation(c01Prop, "feldman.NewScheme "+classify(err)+" "+tag)
		return
	}
	var shs []*kw.Share[bsc]
	for _, id := range accessIDs(key.ac) {
		shs = append(shs, key.shards[id].Share())
	}
	sec, err := fs.Reconstruct(shs...)
	if err != nil {
		o.Violation(c01Prop, "reconstruct-from-all-shards "+classify(err)+" "+tag)
		return
	}
	sigGroup := scheme.SignatureSubGroup()
	dst, err := scheme.CipherSuite().GetDst(alg, kit.variant)
	if err != nil {
		o.Violation(c01Prop, "bls-dst "+classify(err)+" "+tag)
		return
	}
	internal := msg
	if alg == bls.MessageAugmentation {
		internal = slices.Concat(res.PK.Bytes(), msg)
	}
	hm, err := sigGroup.HashWithDst(dst, internal)
	if err != nil {
		o.Violation(c01Prop, "bls-hash-to-curve "+classify(err)+" "+tag)
		return
	}
	hpS, popS := "-", "-"
	if alg == bls.POP {
		if res.Sig.Pop() == nil {
			o.Violation(c01Prop, "pop-missing "+tag)
			return
		}
		hp, err := sigGroup.HashWithDst(scheme.CipherSuite().GetPopDst(kit.variant), res.PK.Bytes())
		if err != nil {
			o.Violation(c01Prop, "bls-hash-to-curve-pop "+classify(err)+" "+tag)
			return
		}
		hpS, popS = kit.sigStr(hp), kit.sigStr(res.Sig.Pop().Value())
	}
	o.Emit(c01Prop, fmt.Sprintf("bls %s %s %s %s %s %s %s %s %s", kit.keyCurve, kit.sigCurve, algName, scalarHex(sec.Value()), pointStr(res.PK), kit.sigStr(hm), kit.sigStr(res.Sig.Value()), hpS, popS), "ok")
	c01AddConv(o, g.name, key.ac, key.shards[q[0]], q)
}

// ---------------------------------------------------------------------------------------------
// the plan

var (
	c01DimFamily  = c01Dim{"family", accessFamilies}
	c01DimKeygen  = c01Dim{"keygen", []string{"dealer", "gennaro", "canetti"}}
	c01DimQuorum  = c01Dim{"quorum", []string{"min", "all", "rand"}}
	c01DimAPI     = c01Dim{"api", []string{"rounds", "runner"}}
	c01DimSession = c01Dim{"session", []string{"trusted", "real"}}
	c01DimNIC     = c01Dim{"nic", []string{"fiatshamir", "fischlin", "randfischlin"}}
	c01DimHash    = c01Dim{"hash", []string{"sha256", "sha512", "sha3-256", "blake2b-256"}}

	c01DimsLindell22 = []c01Dim{c01DimFamily,
		{"variant", []string{"bip340", "mina", "vanilla+be", "vanilla+le", "vanilla-be", "vanilla-le"}},
		c01DimAPI, c01DimNIC, c01DimKeygen, c01DimQuorum, c01DimSession}
	c01DimsVanilla = []c01Dim{c01DimFamily,
		{"response", []string{"+be", "+le", "-be", "-le"}},
		{"curve", []string{"k256", "p256", "ed25519", "pallas"}},
		c01DimHash,
		{"negate-nonce", []string{"nil", "parity"}},
		c01DimAPI, c01DimKeygen, c01DimQuorum}
	c01DimsDKLs23 = []c01Dim{c01DimFamily,
		{"multiplier", []string{"softspoken", "bbot"}},
		c01DimAPI,
		{"curve", []string{"k256", "p256"}},
		c01DimHash, c01DimKeygen, c01DimQuorum, c01DimSession}
	c01DimsBoldyreva = []c01Dim{c01DimFamily,
		{"keysize", []string{"short", "long"}},
		{"rogue-key", []string{"basic", "aug", "pop"}},
		c01DimKeygen, c01DimQuorum}
)

func runC01(c *Ctx) {
	type job = func(*jobOut)
	var jobs []job
	stream := uint64(1)
	seed := c.Seed
	quick := !c.Thorough()
	timing := os.Getenv("VERIF_C01_TIMING") != ""
	only := os.Getenv("VERIF_C01_ONLY") // diagnostics: run one group of jobs (stream numbers are unchanged)
	group := ""
	add := func(f func(o *jobOut, s uint64)) {
		s := stream
		stream++
		if only != "" && only != group {
			return
		}
		jobs = append(jobs, func(o *jobOut) {
			t0 := time.Now()
			f(o, s)
			if timing { // diagnostics on stderr only: never part of the stream
				first := ""
				if len(o.lines) > 0 {
					first = o.lines[0]
					if len(first) > 60 {
						first = first[:60]
					}
				}
				fmt.Fprintf(os.Stderr, "c01 job %d: %.1fs %s\n", s, time.Since(t0).Seconds(), first)
			}
		})
	}
	netTimeout = 5 * time.Minute // many concurrent runs on a shared machine: a slow run is not a hang
	totals := map[string]int{}
	rows := func(array string, dims []c01Dim, rngStream uint64, reps int) []c01Row {
		var out []c01Row
		for rep := range reps {
			for _, idx := range c01Cover(NewRng(seed, rngStream+uint64(rep)*977), dims) {
				out = append(out, c01Row{array, dims, idx})
			}
		}
		totals[array] = c01PairsTotal(dims)
		return out
	}
	reps := 1
	if c.Thorough() {
		reps = 3
	}
	pick := NewRng(seed, 1001)
	k256g := c03Group[*k256Point, *k256Base, *k256Scalar]{"k256", cK256}
	p256g := c03Group[*p256Point, *p256Base, *p256Scalar]{"p256", cP256}
	dkls := func(row c01Row, mult string, nMax int) {
		p := c01CommonParams(row, 2, nMax, quick)
		curve, hname := row.get("curve"), row.get("hash")
		add(func(o *jobOut, s uint64) {
			if curve == "k256" {
				c01ECDSA(o, seed, s, k256g, cK256, mult, hname, p)
			} else {
				c01ECDSA(o, seed, s, p256g, cP256, mult, hname, p)
			}
		})
	}

	// Lindell17 first: its Paillier key generation overlaps with everything else
	group = "lindell17"
	add(func(o *jobOut, s uint64) { c01Lindell17(o, seed, s) })

	// DKLs23 (the expensive runs next, so that the cheap ones fill the tail).
	// thorough: one pairwise array over everything including the multiplier.
	// quick: the bbot multiplier costs ≈ 10 CPU-seconds per pair of parties, so the pairwise array is
	// built for softspoken only and bbot gets two runs per seed on two-party quorums whose families
	// rotate with the seed (seeds 1..3 meet all five families), the other options drawn at random.
	group = "dkls23"
	if c.Thorough() {
		for _, row := range rows("dkls23", c01DimsDKLs23, 1100, 1) {
			mult := row.get("multiplier")
			nMax := 5
			if mult == "bbot" { // ≈ 10 CPU-seconds per pair of parties
				nMax = 3
			}
			dkls(row, mult, nMax)
		}
		sdims := append([]c01Dim{c01DimFamily}, c01DimsDKLs23[2:]...) // two further arrays for softspoken
		for _, row := range rows("dkls23-softspoken", sdims, 1150, 2) {
			dkls(row, "softspoken", 5)
		}
	} else {
		// (softspoken quick array: holders ≤ 3, so "rand" quorums coincide with "all": two quorum kinds)
		// hash and key generation do not interact with the multiplication protocol: drawn at random here
		// (the digest path is covered per hash by the Lindell22 arrays and by C15, key generation by C03)
		dims := []c01Dim{c01DimFamily, c01DimAPI, {"curve", []string{"k256", "p256"}}, {"quorum", []string{"min", "all"}}, c01DimSession}
		for _, row := range rows("dkls23-softspoken", dims, 1100, 1) {
			full := c01Row{row.array, append(slices.Clone(dims), c01DimHash, c01DimKeygen), append(slices.Clone(row.idx), pick.IntN(4), pick.IntN(3))}
			totals[row.array] = c01PairsTotal(full.dims)
			dkls(full, "softspoken", 3)
		}
		bdims := append([]c01Dim{c01DimFamily}, c01DimsDKLs23[2:]...) // everything but the multiplier
		for i := range 2 {
			idx := make([]int, len(bdims))
			for d := range bdims {
				idx[d] = pick.IntN(len(bdims[d].vals))
			}
			idx[0] = (2*int(seed%5+5) + i) % 5
			row := c01Row{"", bdims, idx}
			p := c01CommonParams(row, 2, 3, quick)
			p.qmode = "min"
			if p.family == "th" || p.family == "un" || p.family == "cnf" {
				p.nMax = 2
			}
			curve, hname := row.get("curve"), row.get("hash")
			o2 := fmt.Sprintf("opt.dkls23-bbot.family=%s", p.family)
			add(func(o *jobOut, s uint64) {
				before := len(o.stats)
				if curve == "k256" {
					c01ECDSA(o, seed, s, k256g, cK256, "bbot", hname, p)
				} else {
					c01ECDSA(o, seed, s, p256g, cP256, "bbot", hname, p)
				}
				if len(o.stats) > before {
					o.Count(o2)
				}
			})
		}
	}

	// Boldyreva
	group = "boldyreva"
	nMaxB := 3
	if c.Thorough() {
		nMaxB = 5
	}
	for _, row := range rows("boldyreva", c01DimsBoldyreva, 1200, reps) {
		p := c01CommonParams(row, 2, nMaxB, quick)
		long, alg := row.get("keysize") == "long", row.get("rogue-key")
		add(func(o *jobOut, s uint64) {
			if long {
				c01BLS(o, seed, s, c01BLSLongKit(), alg, p)
			} else {
				c01BLS(o, seed, s, c01BLSShortKit(), alg, p)
			}
		})
	}

	// Lindell22: all flavours
	group = "lindell22"
	nMaxL := 4
	if c.Thorough() {
		nMaxL = 6
	}
	for _, row := range rows("lindell22", c01DimsLindell22, 1300, reps) {
		p := c01CommonParams(row, 2, nMaxL, quick)
		variant, nic := row.get("variant"), row.get("nic")
		curve := []string{"k256", "p256", "ed25519", "pallas"}[pick.IntN(4)]
		hname := c01DimHash.vals[pick.IntN(4)]
		parity := pick.IntN(2) == 0
		add(func(o *jobOut, s uint64) {
			switch variant {
			case "bip340":
				c01BIP340(o, seed, s, nic, p)
			case "mina":
				c01Mina(o, seed, s, nic, p)
			default:
				c01VanillaOn(o, seed, s, curve, hname, variant[7] == '-', variant[8:] == "le", parity, nic, p)
			}
		})
	}
	// Lindell22: the remaining arguments of the configurable Schnorr constructor
	group = "vanilla"
	for _, row := range rows("vanilla", c01DimsVanilla, 1400, reps) {
		p := c01CommonParams(row, 2, nMaxL, quick)
		p.realSession = pick.IntN(3) == 0
		resp, curve, hname, parity := row.get("response"), row.get("curve"), row.get("hash"), row.get("negate-nonce") == "parity"
		nic := c01DimNIC.vals[pick.IntN(3)]
		add(func(o *jobOut, s uint64) {
			c01VanillaOn(o, seed, s, curve, hname, resp[0] == '-', resp[1:] == "le", parity, nic, p)
		})
	}

	// explicitly non-ideal MSPs, with quorums in which one holder MUST contribute several of its rows:
	//   cnf:a|b|c (2-of-3 in CNF form: three pieces, any two holders) with a two-party quorum;
	//   and(or(a,b),or(a,c),d) with the quorum {a,d}: a answers both OR gates;
	//   or(and(a,b),and(a,c)) with all holders (a owns two rows, either may be used).
	group = "non-ideal"
	nNonIdeal := 6
	if c.Thorough() {
		nNonIdeal = 18
	}
	for i := range nNonIdeal {
		p := c01Params{family: "bool", keygen: c01DimKeygen.vals[pick.IntN(3)], nMin: 3, nMax: 3, quick: quick,
			qmode: "all", runner: i%4 == 3, realSession: i%2 == 1}
		switch i % 3 {
		case 0:
			ids := genIDs(pick, 3, 0)
			p.family, p.spec, p.qmode = "cnf", fmt.Sprintf("cnf:%d|%d|%d", ids[0], ids[1], ids[2]), "min"
		case 1:
			ids := genIDs(pick, 4, 0)
			p.spec = fmt.Sprintf("bool:and(or(%d,%d),or(%d,%d),%d)", ids[0], ids[1], ids[0], ids[2], ids[3])
			p.fixedQuorum, p.qmode = []ID{ids[0], ids[3]}, "min"
		default:
			ids := genIDs(pick, 3, 0)
			p.spec = fmt.Sprintf("bool:or(and(%d,%d),and(%d,%d))", ids[0], ids[1], ids[0], ids[2])
		}
		neg := pick.IntN(2) == 0
		switch i % 4 {
		case 0:
			add(func(o *jobOut, s uint64) {
				c01VanillaOn(o, seed, s, "k256", "sha256", neg, false, false, "fiatshamir", p)
			})
		case 1:
			add(func(o *jobOut, s uint64) { c01ECDSA(o, seed, s, k256g, cK256, "softspoken", "sha256", p) })
		case 2:
			add(func(o *jobOut, s uint64) { c01BIP340(o, seed, s, "fiatshamir", p) })
		default:
			add(func(o *jobOut, s uint64) { c01BLS(o, seed, s, c01BLSShortKit(), "pop", p) })
		}
	}
	// thorough: every qualified quorum (≥ 2 members) of one 4-holder structure per family
	if c.Thorough() {
		group = "all-quorums"
		for _, fam := range accessFamilies {
			spec := genSpec(pick, fam, 4, false)
			for cnfPowerlessHolder(spec) {
				spec = genSpec(pick, fam, 4, false)
			}
			ac, err := parseAccess(spec)
			if err != nil {
				continue
			}
			qs, _ := qualifiedSets(ac)
			for k, q := range qs {
				if len(q) < 2 {
					continue
				}
				p := c01Params{family: fam, keygen: c01DimKeygen.vals[k%3], nMin: 4, nMax: 4, spec: spec, fixedQuorum: q, qmode: "rand", runner: k%2 == 1}
				neg := k%2 == 0
				switch k % 3 {
				case 0:
					add(func(o *jobOut, s uint64) { c01BIP340(o, seed, s, "fiatshamir", p) })
				case 1:
					add(func(o *jobOut, s uint64) {
						c01VanillaOn(o, seed, s, "ed25519", "sha512", neg, false, false, "fiatshamir", p)
					})
				default:
					add(func(o *jobOut, s uint64) { c01BLS(o, seed, s, c01BLSShortKit(), "basic", p) })
				}
				if len(q) <= 3 && k%4 == 0 {
					add(func(o *jobOut, s uint64) { c01ECDSA(o, seed, s, k256g, cK256, "softspoken", "sha256", p) })
				}
			}
		}
	}
	par := 12
	if v, err := strconv.Atoi(os.Getenv("VERIF_C01_PAR")); err == nil && v > 0 { // diagnostics
		par = v
	}
	runJobs(c, par, jobs)
	c01CollapsePairs(c, totals)
}
