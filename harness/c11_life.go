package main

// Long-lived-router histories ("life" lines) and the common trace driver.
//
// A life line is a *program*: explicit event tokens (as in "tr" lines) mixed with macro tokens
//
//	M:<count>:<start>:<tag>:<exp>:<tpl>,<tpl>,…
//
// that expand (identically here and in Drive/C11.lean) to <count> exchange rounds i = start … on
// the correlation ID <tag><i> (the part of <tag> before the last '/' are namespaces of the view
// used for the receives).  Round i uses template tpls[i mod len]; its letters are
//
//	2 3 4 9   delivery from that sender, payload P(i, s) = [s, i, i>>8]   (9 is not a member)
//	a b c     CONFLICTING delivery from sender 2 / 3 / 4 (payload [0xee, s, i])
//	r p g     ReceiveFrom(<exp>) on the round's ID (p: with an already cancelled context; g: held
//	          between its first scan and its select, see c11HoldCtx)
//	k u       cancel / release the round's latest receive
//	o         delivery from 2 under "zz/"+ID (another namespace; stays undelivered)
//	w         delivery from 3 under ID+"/" (separator misplaced; stays undelivered)
//
// Tens of thousands of such cheap operations run on ONE router while the number of undelivered
// messages stays far below the documented bound, so that any slow leak of the buffer budget (or of
// mailbox objects) over the lifetime of a router becomes a failed receive.

import (
	"context"
	"fmt"
	"sort"
	"strconv"
	"strings"
	"testing"
	"testing/synctest"

	"github.com/bronlabs/bron-crypto/pkg/mpc/sharing"
	"github.com/bronlabs/bron-crypto/pkg/network"
)

// ---------------------------------------------------------------------------------- driver

type c11Outcome struct {
	results  map[int]string // rid -> "rid@k=res"  ("rid@-=blocked" if it never returned)
	res      map[int]string // rid -> res
	retAt    map[int]int    // rid -> index of the event after which it returned
	buf, box []int          // routerCore.buffered / len(routerCore.boxes) after every event
	observed bool
	accViol  string // first violation of buffered = Σ len(box.payloads) seen on the real state
	leaked   []int  // receives that survive cancel + Close
	panicked string
}

// c11Drive drives the real Router through the events, one at a time, waiting for quiescence
// (synctest.Wait: every goroutine of the bubble durably blocked) after every hand-over, so that
// the execution is one deterministic linearisation.
func c11Drive(t *testing.T, members []uint64, evs []c11Event) (o c11Outcome) {
	o.results, o.res, o.retAt = map[int]string{}, map[int]string{}, map[int]int{}
	defer func() {
		if e := recover(); e != nil {
			o.panicked = strings.ReplaceAll(fmt.Sprint(e), " ", "_")
		}
	}()
	synctest.Test(t, func(t *testing.T) {
		d := newC11Delivery(1, members, 0)
		root := network.NewRouter(d)
		peek := newC11Peek(root)
		o.observed = peek.ok
		var queue []c11In
		var all, pending []*c11Rec
		settle := func(k int) {
			synctest.Wait()
			for {
				keep := pending[:0]
				for _, r := range pending {
					select {
					case res := <-r.done:
						r.ret = true
						o.results[r.rid] = fmt.Sprintf("%d@%d=%s", r.rid, k, res)
						o.res[r.rid] = res
						o.retAt[r.rid] = k
					default:
						keep = append(keep, r)
					}
				}
				pending = keep
				if len(queue) > 0 && d.waiting.Load() {
					m := queue[0]
					queue = queue[1:]
					d.hand <- m
					synctest.Wait()
					continue
				}
				return
			}
		}
		for k, e := range evs {
			switch e.kind {
			case 'd', 'g', 'e', 'f':
				queue = append(queue, c11Items(e)...)
			case 'r':
				ctx, cancel := context.WithCancel(context.Background())
				if e.pre {
					cancel()
				}
				r := &c11Rec{rid: e.rid, done: make(chan string, 1), cancel: cancel}
				if e.gate {
					r.hold = &c11HoldCtx{Context: ctx, gate: make(chan struct{})}
					r.hold.held.Store(true)
					ctx = r.hold
				}
				all = append(all, r)
				pending = append(pending, r)
				view := c11View(root, e.path)
				ids := make([]sharing.ID, len(e.exp))
				for i, id := range e.exp {
					ids[i] = sharing.ID(id)
				}
				local := e.local
				go func() {
					r.done <- safely(func() string { return c11Res(view.ReceiveFrom(ctx, local, ids...)) })
				}()
			case 'c':
				for _, r := range pending {
					if r.rid == e.rid {
						r.cancel()
					}
				}
			case 'u':
				for _, r := range pending {
					if r.rid == e.rid && r.hold != nil {
						r.hold.release()
					}
				}
			case 'x':
				root.Close()
			}
			settle(k)
			if peek.ok {
				nb := 0
				if len(o.box) > 0 {
					nb = o.box[len(o.box)-1]
				}
				b, x, held := peek.read(nb <= 256 || k%97 == 0 || k == len(evs)-1)
				o.buf = append(o.buf, b)
				o.box = append(o.box, x)
				if held >= 0 && held != b && o.accViol == "" {
					o.accViol = fmt.Sprintf("after event %d (%s) the counter says buffered=%d but the mailboxes hold %d undelivered messages", k, e.token(), b, held)
				}
			}
		}
		for _, r := range pending {
			o.results[r.rid] = fmt.Sprintf("%d@-=blocked", r.rid)
			o.res[r.rid] = "blocked"
		}
		// release everything so that the bubble can end
		for _, r := range all {
			if r.hold != nil {
				r.hold.release()
			}
			r.cancel()
		}
		root.Close()
		synctest.Wait()
		for _, r := range pending {
			select {
			case <-r.done:
			default:
				o.leaked = append(o.leaked, r.rid)
			}
		}
	})
	return o
}

// ---------------------------------------------------------------------------------- macros

const c11MacroRidBase = 100000

type c11Macro struct {
	count, start int
	tag          string
	exp          []uint64
	tpls         []string
}

func (m c11Macro) token() string {
	return fmt.Sprintf("M:%d:%d:%s:%s:%s", m.count, m.start, m.tag, c11IDs(m.exp), strings.Join(m.tpls, ","))
}

func c11LifePayload(i int, s uint64) []byte { return []byte{byte(s), byte(i), byte(i >> 8)} }

func c11LifeConflict(i int, s uint64) []byte { return []byte{0xee, byte(s), byte(i)} }

// expand appends the events of the macro; rids are c11MacroRidBase + *next.  info records, for
// every receive issued, the round and the position among the receives of its template.
type c11LifeRecv struct {
	macro, round, pos int
}

func (m c11Macro) expand(mi int, next *int, info map[int]c11LifeRecv) []c11Event {
	var evs []c11Event
	parts := strings.Split(m.tag, "/")
	path, localTag := parts[:len(parts)-1], parts[len(parts)-1]
	for i := m.start; i < m.start+m.count; i++ {
		tpl := m.tpls[i%len(m.tpls)]
		local := localTag + strconv.Itoa(i)
		cid := m.tag + strconv.Itoa(i)
		last, pos := -1, 0
		for _, ch := range tpl {
			switch ch {
			case '2', '3', '4', '9':
				s := uint64(ch - '0')
				evs = append(evs, c11Event{kind: 'd', from: s, cid: cid, payload: c11LifePayload(i, s)})
			case 'a', 'b', 'c':
				s := uint64(ch-'a') + 2
				evs = append(evs, c11Event{kind: 'd', from: s, cid: cid, payload: c11LifeConflict(i, s)})
			case 'r', 'p', 'g':
				rid := c11MacroRidBase + *next
				*next++
				evs = append(evs, c11Event{kind: 'r', rid: rid, path: path, local: local, cid: cid, exp: m.exp, pre: ch == 'p', gate: ch == 'g'})
				info[rid] = c11LifeRecv{macro: mi, round: i, pos: pos}
				last = rid
				pos++
			case 'k':
				if last >= 0 {
					evs = append(evs, c11Event{kind: 'c', rid: last})
				}
			case 'u':
				if last >= 0 {
					evs = append(evs, c11Event{kind: 'u', rid: last})
				}
			case 'o':
				evs = append(evs, c11Event{kind: 'd', from: 2, cid: "zz/" + cid, payload: c11LifePayload(i, 2)})
			case 'w':
				evs = append(evs, c11Event{kind: 'd', from: 3, cid: cid + "/", payload: c11LifePayload(i, 3)})
			}
		}
	}
	return evs
}

// ---------------------------------------------------------------------------------- templates

// what the property demands of the receives of a template (one letter per r/p, in order), decided
// by construction of the template, not by a model:
//
//	o  every requested sender's message was deposited under exactly this ID, nothing conflicting:
//	   the receive completes with exactly the payloads P(i, s)
//	P  sender 2 sent two different payloads under this ID before the set was complete: poison:2
//	Q  the same for sender 3
//	c x  cancelled / concurrent (compared with the model only)
//
// left = messages of the round that legitimately stay undelivered for ever.
type c11Tpl struct {
	tpl, want string
	left      int
}

var c11Tpl2 = []c11Tpl{ // exp = {2}
	{"2r", "o", 0}, {"r2", "o", 0}, {"22r", "o", 0}, {"222r", "o", 0}, {"92r", "o", 0}, {"r92", "o", 0},
	{"rk2r", "co", 0}, {"p2r", "co", 0}, {"2p", "o", 0}, {"rkr2", "co", 0}, {"rr2", "ox", 0},
	{"2ar", "P", 1}, {"o2r", "o", 1}, {"2wr", "o", 1}, {"3r2", "o", 1},
	{"g2u", "o", 0}, {"g22u", "o", 0}, {"gu2", "o", 0}, {"gk2u", "o", 0}, {"gku2r", "co", 0},
}

var c11Tpl23 = []c11Tpl{ // exp = {2,3}
	{"23r", "o", 0}, {"r23", "o", 0}, {"2r3", "o", 0}, {"32r", "o", 0}, {"r32", "o", 0},
	{"2233r", "o", 0}, {"r223", "o", 0}, {"2r23", "o", 0}, {"2323r", "o", 0}, {"22233r", "o", 0},
	{"923r", "o", 0}, {"r293", "o", 0},
	{"r2k3r", "co", 0}, {"rk23r", "co", 0}, {"p23r", "co", 0}, {"23p", "o", 0}, {"2rk3r", "co", 0},
	{"rr23", "ox", 0}, {"2rr3", "ox", 0},
	{"2a3r", "P", 2}, {"r2a", "P", 1}, {"3b2r", "Q", 2}, {"r3b", "Q", 1}, {"r2ak", "P", 1}, {"2a3br", "?", 2},
	{"o23r", "o", 1}, {"w23r", "o", 1}, {"r2w3", "o", 1}, {"423r", "o", 1},
	{"g23u", "o", 0}, {"g2u3", "o", 0}, {"2g3u", "o", 0}, {"g2233u", "o", 0}, {"g23ku", "o", 0}, {"gku23r", "co", 0},
	{"g2au", "P", 1},
	{"r2233", "o", 1}, // the second copy of 3 arrives after the collection: a new undelivered message
}

var c11Tpl234 = []c11Tpl{ // exp = {2,3,4}
	{"234r", "o", 0}, {"r432", "o", 0}, {"223344r", "o", 0}, {"2r3r4", "ox", 0}, {"24r243", "o", 0},
	{"r23k4r", "co", 0}, {"4r23", "o", 0}, {"2c34r", "?", 3},
}

func c11TplTable(exp []uint64) []c11Tpl {
	switch len(exp) {
	case 1:
		return c11Tpl2
	case 2:
		return c11Tpl23
	default:
		return c11Tpl234
	}
}

func c11FindTpl(exp []uint64, tpl string) c11Tpl {
	for _, t := range c11TplTable(exp) {
		if t.tpl == tpl {
			return t
		}
	}
	panic("c11: unknown template " + tpl)
}

// ---------------------------------------------------------------------------------- life lines

type c11LifeItem struct {
	macro *c11Macro
	ev    *c11Event
	want  string // explicit receive: the exact result the property demands ("" = compared with the model only)
	left  int    // explicit delivery that stays undelivered
}

func c11M(count, start int, tag string, exp []uint64, tpls ...string) c11LifeItem {
	return c11LifeItem{macro: &c11Macro{count: count, start: start, tag: tag, exp: exp, tpls: tpls}}
}

func c11E(e c11Event) c11LifeItem { return c11LifeItem{ev: &e} }

func c11EW(e c11Event, want string) c11LifeItem { return c11LifeItem{ev: &e, want: want} }

// ordinary exchanges after a long history: they must complete with exactly what was sent
func c11LifeTail(ridBase int, tag string) []c11LifeItem {
	a := []string{"a"}
	return []c11LifeItem{
		c11E(c11Deliver(2, tag, "aa")), c11E(c11Deliver(3, tag, "bb")),
		c11EW(c11Recv(ridBase, nil, tag, 2, 3), "ok:2=6161,3=6262"),
		c11E(c11Recv(ridBase+1, a, tag, 3, 4)),
		c11E(c11Deliver(4, "a/"+tag, "cc")), c11E(c11Deliver(4, "a/"+tag, "cc")), c11E(c11Deliver(3, "a/"+tag, "dd")),
		c11EW(c11Recv(ridBase+2, nil, tag+"'", 2), ""), // parked; returns with the later one
		c11E(c11Deliver(2, tag+"'", "-")),
	}
}

func c11Fnv(h uint64, s string) uint64 {
	for i := 0; i < len(s); i++ {
		h ^= uint64(s[i])
		h *= 1099511628211
	}
	return h
}

func c11Stat(xs []int) string {
	if len(xs) == 0 {
		return "na"
	}
	mx, sum := 0, 0
	for _, x := range xs {
		if x > mx {
			mx = x
		}
		sum += x
	}
	return fmt.Sprintf("%d/%d/%d", xs[len(xs)-1], mx, sum)
}

const c11LifeBadShown = 24

// c11Life runs one life line.  name is only used for statistics.
func c11Life(c *Ctx, t *testing.T, name string, items []c11LifeItem) {
	var toks []string
	var evs []c11Event
	next := 0
	info := map[int]c11LifeRecv{}
	var macros []*c11Macro
	wantExplicit := map[int]string{}
	left, healthy := 0, true
	healthyUntil := -1 // index of the first event that legitimately fails the router
	for _, it := range items {
		if it.macro != nil {
			toks = append(toks, it.macro.token())
			macros = append(macros, it.macro)
			evs = append(evs, it.macro.expand(len(macros)-1, &next, info)...)
			for i := it.macro.start; i < it.macro.start+it.macro.count; i++ {
				left += c11FindTpl(it.macro.exp, it.macro.tpls[i%len(it.macro.tpls)]).left
			}
			continue
		}
		e := *it.ev
		toks = append(toks, e.token())
		if healthy && (e.kind == 'x' || e.kind == 'e' || e.kind == 'g' || e.kind == 'f') {
			healthy = false
			healthyUntil = len(evs)
		}
		if e.kind == 'r' && it.want != "" {
			wantExplicit[e.rid] = it.want
		}
		left += it.left
		evs = append(evs, e)
	}
	// by construction fewer than `outstanding` messages are ever undelivered at the same time:
	// the ones that stay for ever, plus those of the round in flight, plus the explicit tail
	outstanding := left + 16
	if outstanding >= c11Bound {
		panic("c11: life history is not below the bound by construction")
	}
	lhs := fmt.Sprintf("life %s %d %s", c11IDs(c11Members), c11Bound, strings.Join(toks, " "))
	c11Tick(lhs)
	o := c11Drive(t, c11Members, evs)
	if o.panicked != "" {
		c.Violation("router life history " + lhs + " => panic:" + o.panicked)
		c.Emit(lhs, "panic:"+o.panicked)
		return
	}
	if len(o.leaked) > 0 {
		c.Violation(fmt.Sprintf("router life history %s: receive %d survives cancel+Close", lhs, o.leaked[0]))
	}
	if o.accViol != "" {
		c.Violation("router accounting: " + o.accViol + " in life history " + lhs)
	}
	// property oracle, by construction of the templates (no model): below the bound a receive whose
	// messages were all deposited completes with exactly those payloads; a conflicting
	// retransmission fails the receive and blames the sender
	issuedAt := map[int]int{}
	for k, e := range evs {
		if e.kind == 'r' {
			issuedAt[e.rid] = k
		}
	}
	rids := make([]int, 0, len(o.results))
	for rid := range o.results {
		rids = append(rids, rid)
	}
	sort.Ints(rids)
	reported := 0
	for _, rid := range rids {
		if healthyUntil >= 0 && issuedAt[rid] >= healthyUntil {
			continue
		}
		got := o.res[rid]
		want, what := "", ""
		if li, ok := info[rid]; ok {
			m := macros[li.macro]
			tp := c11FindTpl(m.exp, m.tpls[li.round%len(m.tpls)])
			if li.pos >= len(tp.want) {
				continue
			}
			switch tp.want[li.pos] {
			case 'o':
				parts := make([]string, len(m.exp))
				for j, s := range m.exp {
					parts[j] = fmt.Sprintf("%d=%s", s, hexBytes(c11LifePayload(li.round, s)))
				}
				want = "ok:" + joinComma(parts)
			case 'P':
				want = "poison:2"
			case 'Q':
				want = "poison:3"
			}
			what = fmt.Sprintf("round %d (template %s) of %s", li.round, tp.tpl, m.token())
		} else if w, ok := wantExplicit[rid]; ok {
			want, what = w, "explicit receive"
		}
		if want == "" || got == want {
			continue
		}
		// a receive that is parked when the router legitimately fails later is not judged here
		if healthyUntil >= 0 && (got == "blocked" || o.retAt[rid] >= healthyUntil) {
			continue
		}
		if reported < 3 {
			c.Violation(fmt.Sprintf("receive %d, %s, returned %s instead of %s although all of its messages were deposited and fewer than %d undelivered messages are outstanding (bound %d): life history %s",
				rid, what, got, want, outstanding, c11Bound, lhs))
		}
		reported++
	}
	// the line
	h := uint64(14695981039346656037)
	nbad := 0
	var bad []string
	for _, rid := range rids {
		h = c11Fnv(h, o.results[rid]+";")
		if !strings.HasPrefix(o.res[rid], "ok:") {
			nbad++
			if len(bad) < c11LifeBadShown {
				bad = append(bad, o.results[rid])
			}
		}
	}
	badStr := "-"
	if len(bad) > 0 {
		badStr = strings.Join(bad, ";")
	}
	bs, xs := "na", "na"
	if o.observed {
		bs, xs = c11Stat(o.buf), c11Stat(o.box)
	}
	c.Emit(lhs, fmt.Sprintf("n=%d|h=%x|nbad=%d|bad=%s|b=%s|x=%s", len(rids), h, nbad, badStr, bs, xs))
	c.Count("life")
	c.Count("life." + name)
	c.Stats["life.events"] += len(evs)
	c.Stats["life.receives"] += len(rids)
	c.Stats["life.receives-ok"] += len(rids) - nbad
}

func c11Lifetimes(c *Ctx, t *testing.T) {
	r := NewRng(c.Seed, 1105)
	scale := 1
	if c.Thorough() {
		scale = 3
	}
	e2, e23, e234 := []uint64{2}, []uint64{2, 3}, []uint64{2, 3, 4}
	cat := func(xs ...[]c11LifeItem) []c11LifeItem {
		var out []c11LifeItem
		for _, x := range xs {
			out = append(out, x...)
		}
		return out
	}
	one := func(x c11LifeItem) []c11LifeItem { return []c11LifeItem{x} }

	// identical retransmissions that arrive while the first copy is still in the mailbox:
	// > bound of them in total over the life of one router, namespaces sharing the counter
	c11Life(c, t, "retransmissions", cat(
		one(c11M(1500*scale, 0, "q", e234, "223344r", "24r243")),
		one(c11M(2000*scale, 0, "a/q", e23, "2233r", "r223", "2r23", "2323r", "22233r")),
		one(c11M(2600*scale, 0, "a/b/q", e2, "22r", "222r")),
		c11LifeTail(0, "z"),
		one(c11M(40, 0, "t", e23, "23r", "r23", "2r3", "2233r"))))

	// > bound completed exchanges, every ID used once
	c11Life(c, t, "exchanges", cat(
		one(c11M(5300*scale, 0, "e", e2, "2r", "r2")),
		one(c11M(5300*scale, 0, "n/e", e2, "r2", "2r", "92r")),
		c11LifeTail(0, "z")))

	// cancellations, pre-cancelled and concurrent receives: nothing is lost, no mailbox stays behind
	c11Life(c, t, "cancellations", cat(
		one(c11M(1500*scale, 0, "k", e23, "r2k3r", "rk23r", "p23r", "2rk3r", "23p", "rr23", "2rr3")),
		one(c11M(1500*scale, 0, "a/k", e2, "rk2r", "p2r", "rkr2", "2p", "rr2")),
		one(c11M(500*scale, 0, "a/k3-", e234, "r23k4r", "2r3r4")),
		c11LifeTail(0, "z")))

	// receives held in the window between the unlocked scan and select while their messages, a
	// conflict or a cancellation arrive: only the buffered notify token can wake them
	c11Life(c, t, "wakeups", cat(
		one(c11M(1200*scale, 0, "h", e23, "g23u", "g2u3", "2g3u", "g2233u", "g23ku", "gku23r", "r23")),
		one(c11M(800*scale, 0, "a/h", e2, "g2u", "g22u", "gu2", "gk2u", "gku2r")),
		one(c11M(100, 0, "p/h", e23, "g2au", "g23u")),
		c11LifeTail(0, "z")))

	// conflicting retransmissions: every poisoned mailbox legitimately keeps its message; > bound/2
	// of them, still below the bound, then ordinary exchanges
	c11Life(c, t, "conflicts", cat(
		one(c11M(5200, 0, "x", e23, "r2a")),
		one(c11M(400, 0, "y", e23, "2a3r", "3b2r", "r3b", "r2ak", "2a3br", "23r")),
		c11LifeTail(0, "z"),
		one(c11M(40, 0, "t", e23, "23r", "r23", "2r3", "2233r"))))

	// random mixtures of all templates over several namespaces
	nmix := 2
	if c.Thorough() {
		nmix = 8
	}
	for it := 0; it < nmix; it++ {
		var items []c11LifeItem
		tags := []string{"m", "a/m", "a/b/m", "ab/m", "m/m", "z9/m"}
		r.Shuffle(len(tags), func(i, j int) { tags[i], tags[j] = tags[j], tags[i] })
		budget := 2500
		for mi := 0; mi < 3+r.IntN(3); mi++ {
			exp := [][]uint64{e2, e23, e23, e234}[r.IntN(4)]
			table := c11TplTable(exp)
			k := 3 + r.IntN(6)
			tpls := make([]string, k)
			worst := 0
			for j := range tpls {
				tp := table[r.IntN(len(table))]
				tpls[j] = tp.tpl
				if tp.left > worst {
					worst = tp.left
				}
			}
			count := 600 + r.IntN(900)
			if worst > 0 && count*worst > budget {
				count = budget / worst
			}
			budget -= count * worst
			if count == 0 {
				continue
			}
			items = append(items, c11M(count, r.IntN(3), tags[mi], exp, tpls...))
		}
		items = append(items, c11LifeTail(0, "z")...)
		c11Life(c, t, "mixed", items)
	}

	// Close at the end of a long life: the parked receive and every later one fail with
	// ErrRouterClosed; nothing hangs
	c11Life(c, t, "close", cat(
		one(c11M(400, 0, "c", e23, "23r", "r2k3r", "2233r", "r2a", "rr23")),
		[]c11LifeItem{
			c11E(c11Recv(0, nil, "z", 2, 3)), c11E(c11Deliver(2, "z", "aa")),
			c11E(c11Recv(1, []string{"a"}, "z", 2)),
			c11E(c11Event{kind: 'x'}),
			c11E(c11Deliver(3, "z", "bb")),
			c11E(c11Recv(2, nil, "z", 2, 3)), c11E(c11Recv(3, nil, "c0", 2)),
			c11E(c11Event{kind: 'c', rid: 2}),
		}))
	// a transport failure in mid-life: complete sets are still delivered, everything else fails
	c11Life(c, t, "transport", cat(
		one(c11M(300, 0, "c", e23, "23r", "r223")),
		[]c11LifeItem{
			c11E(c11Deliver(2, "z", "aa")), c11E(c11Deliver(3, "z", "bb")), c11E(c11Recv(0, nil, "y", 2)),
			c11E(c11Event{kind: 'e'}),
			c11E(c11Recv(1, nil, "z", 2, 3)), c11E(c11Recv(2, nil, "z", 2, 3)),
		}))
}
