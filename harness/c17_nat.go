package main

import (
	"fmt"
	"math/big"
	"strconv"

	"github.com/bronlabs/bron-crypto/pkg/base/ct"
	"github.com/bronlabs/bron-crypto/pkg/base/nt/numct"
)

// c17Nat: every arithmetic method of numct.Nat.
func c17Nat(g *g17, count int) {
	for it := 0; it < count; it++ {
		switch op := g.r.IntN(36); op {
		case 0, 1, 2, 3, 4, 5: // add / sub / mul with capacity, output aliasing an input
			x, y := g.cnat(), g.cnat()
			if op >= 4 && x.v.BitLen()+y.v.BitLen() > 4200 {
				y = g.cnatSmall()
			}
			name := []string{"add", "sub", "mul"}[op/2]
			need := map[string]int{"add": max(x.c, y.c) + 1, "sub": max(x.c, y.c), "mul": x.c + y.c}[name]
			cp, cs := g.capArg(need)
			al := g.r.IntN(4)
			ro := g.reuseIf(al == 3)
			al %= 3
			g.emit(fmt.Sprintf("%s a%d %s %s %s", ro.op("n."+name), al, x, y, cs), func() string {
				a, b := x.nat(), y.nat()
				out := ro.nat(x.c + y.c)
				if al == 1 {
					out = a
				} else if al == 2 {
					out = b
				}
				switch name {
				case "add":
					if cs == "_" && it%2 == 0 {
						out.Add(a, b)
					} else {
						out.AddCap(a, b, cp)
					}
				case "sub":
					out.SubCap(a, b, cp)
				default:
					if cs == "_" && it%2 == 0 {
						out.Mul(a, b)
					} else {
						out.MulCap(a, b, cp)
					}
				}
				if al == 0 && (cs == "_" || cp >= need) { // no truncation: plain integer arithmetic
					want := new(big.Int)
					switch name {
					case "add":
						want.Add(x.val(), y.val())
					case "sub":
						want.Sub(x.val(), y.val())
						if want.Sign() < 0 {
							want.Add(want, new(big.Int).Lsh(bOne, uint(out.AnnouncedLen())))
						}
					default:
						want.Mul(x.val(), y.val())
					}
					g.xc("n."+name, out.Big(), want)
				}
				return natS(out)
			})
		case 6, 7: // shifts
			x := g.cnat()
			sh := []int{0, 1, 7, 63, 64, 65, g.r.IntN(200), g.r.IntN(x.c + 2)}[g.r.IntN(8)]
			name := []string{"lsh", "rsh"}[op-6]
			need := x.c + sh
			if name == "rsh" {
				need = max(x.c-sh, 0)
			}
			cp, cs := g.capArg(need)
			al := g.r.IntN(3)
			ro := g.reuseIf(al == 2)
			al %= 2
			g.emit(fmt.Sprintf("%s a%d %s %d %s", ro.op("n."+name), al, x, sh, cs), func() string {
				a := x.nat()
				out := ro.nat(x.c + sh)
				if al == 1 {
					out = a
				}
				if name == "lsh" {
					if cs == "_" {
						out.Lsh(a, uint(sh))
					} else {
						out.LshCap(a, uint(sh), cp)
					}
					if cs == "_" || cp >= need {
						g.xc("n.lsh", out.Big(), new(big.Int).Lsh(x.val(), uint(sh)))
					}
				} else {
					if cs == "_" {
						out.Rsh(a, uint(sh))
					} else {
						out.RshCap(a, uint(sh), cp)
					}
					if cs == "_" || cp >= need {
						g.xc("n.rsh", out.Big(), new(big.Int).Rsh(x.val(), uint(sh)))
					}
				}
				return natS(out)
			})
		case 8, 9, 10: // division with remainder (constant-time and variable-time variants)
			x, y := g.cnatSmall(), g.cnatSmall()
			if g.r.IntN(4) == 0 && y.val().Sign() != 0 { // exact multiples
				k := g.smallNat()
				x = g.cnatOf(new(big.Int).Mul(y.val(), k))
			}
			vt := op == 10
			name := "n.div"
			if vt {
				name = "n.divvt"
			}
			which := g.r.IntN(2) // Div vs EuclideanDiv are the same function for Nat
			al := g.r.IntN(4)
			ro := g.reuseIf(al == 3)
			al %= 3
			g.emit(fmt.Sprintf("%s a%d %s %s", ro.op(name), al, x, y), func() string {
				a, b := x.nat(), y.nat()
				q, r := ro.nat(x.c), ro.nat(y.c)
				if al == 1 {
					q = a
				} else if al == 2 && !vt {
					r = a
				}
				var ok ct.Bool
				switch {
				case vt && which == 0:
					ok = q.DivVarTime(r, a, b)
				case vt:
					ok = q.EuclideanDivVarTime(r, a, b)
				case which == 0:
					ok = q.Div(r, a, b)
				default:
					ok = q.EuclideanDiv(r, a, b)
				}
				if ok == ct.False {
					return "none"
				}
				if y.val().Sign() != 0 && al == 0 {
					wq, wr := new(big.Int).QuoRem(x.val(), y.val(), new(big.Int))
					g.xc(name+".q", q.Big(), wq)
					g.xc(name+".r", r.Big(), wr)
				}
				return "ok:" + natS(q) + "," + natS(r)
			})
		case 11, 12: // gcd, lcm, coprime
			x, y := g.cnatSmall(), g.cnatSmall()
			if g.r.IntN(3) == 0 { // common factor
				f := g.natN(64)
				x = g.cnatOf(new(big.Int).Mul(x.val(), f))
				y = g.cnatOf(new(big.Int).Mul(y.val(), f))
			}
			al := g.r.IntN(4)
			ro := g.reuseIf(al == 3)
			al %= 3
			g.emit(fmt.Sprintf("%s a%d %s %s", ro.op("n.gcd"), al, x, y), func() string {
				a, b := x.nat(), y.nat()
				out := ro.nat(max(x.c, y.c))
				if al == 1 {
					out = a
				} else if al == 2 {
					out = b
				}
				out.GCD(a, b)
				g.xc("n.gcd", out.Big(), new(big.Int).GCD(nil, nil, x.val(), y.val()))
				return natS(out)
			})
			g.emit(fmt.Sprintf("n.coprime %s %s", x, y), func() string { return b01(x.nat().Coprime(y.nat())) })
			if op == 12 {
				rl := g.reuse()
				g.emit(fmt.Sprintf("%s %s %s", rl.op("n.lcm"), x, y), func() string {
					out := rl.nat(x.c + y.c)
					numct.LCM(out, x.nat(), y.nat())
					return out.Big().Text(16)
				})
			}
		case 13: // integer square root of perfect squares / non-squares
			x := g.cnat()
			if g.r.IntN(2) == 0 {
				h := g.natN(1 + g.r.IntN(600))
				x = g.cnatOf(h.Mul(h, h))
				if g.r.IntN(3) == 0 {
					x = g.cnatOf(new(big.Int).Add(x.v, bi(int64(g.r.IntN(3))-1)))
					if x.v.Sign() < 0 {
						x.v = bi(0)
					}
				}
			}
			ro := g.reuse()
			g.emit(fmt.Sprintf("%s %s", ro.op("n.sqrt"), x), func() string {
				a := x.nat()
				out := numct.NewNat(7)
				if ro.on {
					out = ro.nat(x.c)
				}
				before := out.Big()
				ok := out.Sqrt(a)
				if ok == ct.False {
					if out.Big().Cmp(before) != 0 {
						g.c.Violation("n.sqrt changed its output on failure " + x.String())
					}
					return "none"
				}
				return "ok:" + natS(out)
			})
		case 14: // comparisons
			x, y := g.cnat(), g.cnat()
			if g.r.IntN(3) == 0 {
				y = cnat{x.val(), g.capGE(x.val())}
			} else if g.r.IntN(3) == 0 {
				y = g.cnatOf(new(big.Int).Add(x.val(), bOne))
			}
			g.emit(fmt.Sprintf("n.cmp %s %s", x, y), func() string {
				a, b := x.nat(), y.nat()
				res := cmp3(a.Compare(b))
				if (a.Equal(b) == ct.True) != (res == "eq") {
					g.c.Violation(fmt.Sprintf("n.Equal disagrees with Compare %s %s", x, y))
				}
				g.xcs("n.cmp", res, cmpBig(x.val(), y.val()))
				return res
			})
		case 15: // predicates and lengths
			x := g.cnat()
			g.emit(fmt.Sprintf("n.preds %s", x), func() string {
				a := x.nat()
				return b01(a.IsZero()) + b01(a.IsNonZero()) + b01(a.IsOne()) + b01(a.IsOdd()) + b01(a.IsEven()) +
					"," + strconv.Itoa(a.TrueLen()) + "," + strconv.Itoa(a.AnnouncedLen())
			})
		case 16: // bit / byte access
			x := g.cnat()
			i := g.r.IntN(x.c + 10)
			g.emit(fmt.Sprintf("n.bit %s %d", x, i), func() string {
				a := x.nat()
				g.xcs("n.bit", strconv.Itoa(int(a.Bit(uint(i)))), strconv.Itoa(int(x.val().Bit(i))))
				return strconv.Itoa(int(a.Bit(uint(i)))) + "," + strconv.Itoa(int(a.Byte(uint(i/8))))
			})
		case 17: // byte conversions
			x := g.cnat()
			ln := []int{0, 1, (x.c + 7) / 8, (x.c+7)/8 + 1 + g.r.IntN(9), max(0, (x.c+7)/8-1-g.r.IntN(3))}[g.r.IntN(5)]
			g.emit(fmt.Sprintf("n.bytes %s %d", x, ln), func() string {
				a := x.nat()
				by := a.Bytes()
				if hexBytes(by) != hexBytes(a.BytesBE()) {
					g.c.Violation("n.Bytes != n.BytesBE " + x.String())
				}
				back := numct.NewNatFromBytes(by)
				if back.Equal(a) != ct.True {
					g.c.Violation("n.SetBytes(Bytes) != n " + x.String())
				}
				fill := a.FillBytes(make([]byte, ln))
				return hexBytes(by) + "," + hexBytes(fill)
			})
			bs := make([]byte, g.r.IntN(40))
			_, _ = g.r.Read(bs)
			if len(bs) > 0 && g.r.IntN(3) == 0 {
				bs[0] = 0
			}
			rb := g.reuse()
			g.emit(fmt.Sprintf("%s %s", rb.op("n.frombytes"), hexBytes(bs)), func() string {
				a := rb.nat(8 * len(bs))
				if a.SetBytes(bs) != ct.True {
					return "reject"
				}
				g.xc("n.frombytes", a.Big(), new(big.Int).SetBytes(bs))
				return natS(a)
			})
		case 18, 19: // bitwise
			x, y := g.cnat(), g.cnat()
			name := []string{"and", "or", "xor", "not"}[g.r.IntN(4)]
			need := max(x.c, y.c)
			if name == "not" {
				need = x.c
			}
			cp, cs := g.capArg(need)
			al := g.r.IntN(4)
			ro := g.reuseIf(al == 3)
			al %= 3
			g.emit(fmt.Sprintf("%s a%d %s %s %s", ro.op("n."+name), al, x, y, cs), func() string {
				a, b := x.nat(), y.nat()
				out := ro.nat(x.c + y.c)
				if al == 1 {
					out = a
				} else if al == 2 {
					out = b
				}
				switch name {
				case "and":
					if cs == "_" {
						out.And(a, b)
					} else {
						out.AndCap(a, b, cp)
					}
				case "or":
					if cs == "_" {
						out.Or(a, b)
					} else {
						out.OrCap(a, b, cp)
					}
				case "xor":
					if cs == "_" {
						out.Xor(a, b)
					} else {
						out.XorCap(a, b, cp)
					}
				default:
					if cs == "_" {
						out.Not(a)
					} else {
						out.NotCap(a, cp)
					}
				}
				return natS(out)
			})
		case 20: // SetBit
			x := g.cnat()
			i := g.r.IntN(x.c + 70)
			b := g.r.IntN(2)
			g.emit(fmt.Sprintf("n.setbit %s %d %d", x, i, b), func() string {
				a := x.nat()
				a.SetBit(i, uint(b))
				g.xc("n.setbit", a.Big(), new(big.Int).SetBit(x.val(), i, uint(b)))
				return natS(a)
			})
		case 21: // Resize
			x := g.cnat()
			cp, cs := g.capArg(x.c)
			g.emit(fmt.Sprintf("n.resize %s %s", x, cs), func() string {
				a := x.nat()
				a.Resize(cp)
				return natS(a)
			})
		case 22: // Select / CondAssign
			x, y := g.cnat(), g.cnat()
			ch := g.r.IntN(2)
			ro := g.reuse()
			g.emit(fmt.Sprintf("%s %d %s %s", ro.op("n.select"), ch, x, y), func() string {
				a, b := x.nat(), y.nat()
				out := *ro.nat(max(x.c, y.c))
				out.Select(ct.Choice(ch), a, b)
				a.CondAssign(ct.Choice(ch), b)
				if a.Big().Cmp(out.Big()) != 0 {
					g.c.Violation(fmt.Sprintf("n.CondAssign != n.Select %d %s %s", ch, x, y))
				}
				return natS(&out)
			})
		case 23: // Increment / Decrement / Double
			x := g.cnat()
			name := []string{"incr", "decr", "double"}[g.r.IntN(3)]
			g.emit(fmt.Sprintf("n.%s %s", name, x), func() string {
				a := x.nat()
				switch name {
				case "incr":
					a.Increment()
					g.xc("n.incr", a.Big(), new(big.Int).Add(x.val(), bOne))
				case "decr":
					a.Decrement()
					if x.val().Sign() > 0 {
						g.xc("n.decr", a.Big(), new(big.Int).Sub(x.val(), bOne))
					}
				default:
					a.Double(a)
					g.xc("n.double", a.Big(), new(big.Int).Lsh(x.val(), 1))
				}
				return natS(a)
			})
		case 24: // Uint64 round trip (defined for announced length <= 64)
			v := g.natN(64)
			x := cnat{v, []int{v.BitLen(), 64, 1 + g.r.IntN(64)}[g.r.IntN(3)]}
			g.emit(fmt.Sprintf("n.u64 %s", x), func() string {
				a := x.nat()
				b := numct.NewNat(a.Uint64())
				return strconv.FormatUint(a.Uint64(), 16) + "," + natS(b)
			})
		case 25: // constants and Set/Clone/Lift/Abs
			x := g.cint()
			ro := g.reuse()
			g.emit(fmt.Sprintf("%s %s", ro.op("n.abs"), x), func() string {
				a := *ro.nat(x.c)
				a.Abs(x.int())
				cl := a.Clone()
				var st numct.Nat
				st.Set(cl)
				if st.Equal(&a) != ct.True || st.AnnouncedLen() != a.AnnouncedLen() {
					g.c.Violation("n.Set/Clone changed the value " + x.String())
				}
				return natS(&a) + "," + intS(a.Lift())
			})
			if it%97 == 0 {
				g.c.Note("TRIVIAL")
				g.c.Emit("n.consts", natS(numct.NatZero())+","+natS(numct.NatOne())+","+natS(numct.NatTwo())+","+natS(numct.NatThree()))
			}
		case 26, 27: // primality (BPSW in Go, Miller–Rabin in the model: partial)
			var v *big.Int
			switch g.r.IntN(6) {
			case 0:
				v = g.prime()
			case 1: // Carmichael numbers and strong pseudoprimes to small bases
				v = bi([]int64{561, 1105, 1729, 2047, 2465, 2821, 6601, 8911, 3215031751, 1373653, 25326001, 3825123056546413051, 341, 9, 15, 1, 0, 2, 4}[g.r.IntN(19)])
			case 2:
				p, q := g.prime(), g.prime()
				v = p.Mul(p, q)
			default:
				v = g.natN(1 + g.r.IntN(96))
			}
			if v.BitLen() > 1300 {
				v = g.natN(64)
			}
			x := cnat{v, g.capGE(v)}
			g.emit(fmt.Sprintf("n.prime %s", x), func() string {
				res := b01(x.nat().IsProbablyPrime())
				g.xcs("n.prime", res, bb(x.val().ProbablyPrime(20)))
				return res
			})
		case 28, 29: // random sampling in a range (value is in the line; the model checks the range)
			lo, hi := g.natN(200), g.natN(200)
			if lo.Cmp(hi) > 0 {
				lo, hi = hi, lo
			}
			if g.r.IntN(4) == 0 {
				hi = new(big.Int).Add(lo, bi(int64(g.r.IntN(3))))
			}
			l, h := cnat{lo, g.capGE(lo)}, cnat{hi, g.capGE(hi)}
			g.emit(fmt.Sprintf("n.randlh %s %s", l, h), func() string {
				var out numct.Nat
				if err := out.SetRandomRangeLH(l.nat(), h.nat(), g.r); err != nil {
					return "err"
				}
				return out.Big().Text(16)
			})
		default: // operand preservation: a method must not change its (non-aliased) inputs
			x, y := g.cnat(), g.cnat()
			need := max(x.c, y.c) + 1
			cp, cs := g.capArg(need)
			if cp >= 0 && cp < need { // truncating capacities are examined by c17Exhaustive (dedicated key)
				cp, cs = -1, "_"
			}
			name := []string{"add", "sub", "mul", "gcd", "and"}[g.r.IntN(5)]
			g.emit(fmt.Sprintf("n.keeps %s %s %s %s", name, x, y, cs), func() string {
				a, b := x.nat(), y.nat()
				var out numct.Nat
				switch name {
				case "add":
					out.AddCap(a, b, cp)
				case "sub":
					out.SubCap(a, b, cp)
				case "mul":
					out.MulCap(a, b, cp)
				case "gcd":
					out.GCD(a, b)
				default:
					out.AndCap(a, b, cp)
				}
				return natS(a) + "," + natS(b)
			})
		}
	}
}
