package main

import (
	"fmt"

	"github.com/bronlabs/bron-crypto/pkg/base/serde"
)

// Generic part of the C12 stream: the library's decoding/encoding modes (serde.UnmarshalCBOR[any],
// serde.MarshalCBOR) against the Lean CBOR model on arbitrary data items and arbitrary bytes.

func c12GenKey(r *Rng, wide bool) *c12Node {
	switch r.IntN(6) {
	case 0, 1:
		return c12Uint([]uint64{0, 1, 23, 24, 255, 256, 1000, 65535, 65536, 1 << 32, uint64(r.IntN(40))}[r.IntN(11)])
	case 2:
		return &c12Node{major: 1, arg: []uint64{0, 1, 23, 24, 255, 256, 100000, uint64(r.IntN(40))}[r.IntN(8)]}
	case 3, 4:
		return c12Text([]string{"", "a", "b", "aa", "ab", "z", "threshold", "shareholders", "é", "a\x00"}[r.IntN(10)])
	default:
		if wide {
			switch r.IntN(6) {
			case 0:
				return &c12Node{major: 2, data: []byte{1}}
			case 1:
				return &c12Node{major: 4}
			case 2:
				return &c12Node{major: 5}
			case 3:
				return &c12Node{major: 7, ai: byte(20 + r.IntN(2))}
			}
		}
		return c12Uint(uint64(r.IntN(1000)))
	}
}

// c12GenItem builds a random data item; `wide` also uses constructs the re-encoding comparison
// cannot follow (tags, floats, simple values, undefined, huge negative integers).
func c12GenItem(r *Rng, depth int, wide bool) *c12Node {
	k := r.IntN(12)
	if depth <= 0 && (k == 5 || k == 6 || k == 7) {
		k = 0
	}
	switch k {
	case 0, 1:
		return c12Uint([]uint64{0, 1, 23, 24, 255, 256, 65535, 65536, 1<<32 - 1, 1 << 32, 1<<64 - 1, uint64(r.Uint32())}[r.IntN(12)])
	case 2:
		n := &c12Node{major: 1, arg: []uint64{0, 23, 24, 255, 256, 1 << 40, 1<<63 - 1, uint64(r.Uint32())}[r.IntN(8)]}
		if wide && r.IntN(8) == 0 {
			n.arg = 1<<64 - 1 - uint64(r.IntN(3))
		}
		return n
	case 3:
		d := make([]byte, []int{0, 1, 23, 24, 32, 33, 255, 256, 300}[r.IntN(9)])
		_, _ = r.Read(d)
		return &c12Node{major: 2, data: d}
	case 4:
		s := []string{"", "a", "fieldBytes", "compressedBytes", "héllo wörld", "日本語", string(make([]byte, 24))}[r.IntN(7)]
		n := c12Text(s)
		if wide && r.IntN(10) == 0 {
			n.data = [][]byte{{0xff}, {0xc0, 0x80}, {0xed, 0xa0, 0x80}, {0xf4, 0x90, 0x80, 0x80}, {0xe2, 0x82}, {0xc3, 0xa9}}[r.IntN(6)]
		}
		return n
	case 5:
		n := &c12Node{major: 4}
		for i, cnt := 0, r.IntN(5); i < cnt; i++ {
			n.kids = append(n.kids, c12GenItem(r, depth-1, wide))
		}
		return n
	case 6, 7:
		n := &c12Node{major: 5}
		seen := map[string]bool{}
		for i, cnt := 0, r.IntN(6); i < cnt; i++ {
			key := c12GenKey(r, wide)
			ks := string(key.enc())
			if seen[ks] && !(wide && r.IntN(6) == 0) {
				continue
			}
			seen[ks] = true
			n.kids = append(n.kids, key, c12GenItem(r, depth-1, wide))
		}
		return n
	case 8:
		return &c12Node{major: 7, ai: byte(20 + r.IntN(3))} // false true null
	default:
		if !wide {
			return c12Uint(uint64(r.IntN(30)))
		}
		switch r.IntN(8) {
		case 0:
			return &c12Node{major: 7, ai: 23}
		case 1:
			return &c12Node{major: 7, ai: byte(r.IntN(20))}
		case 2:
			return &c12Node{major: 7, ai: 24, arg: uint64(r.IntN(256))}
		case 3:
			return &c12Node{major: 7, ai: 25, arg: []uint64{0x3c00, 0x7c00, 0x7e00, 0xfc00, 0x0001, uint64(r.IntN(65536))}[r.IntN(6)]}
		case 4:
			return &c12Node{major: 7, ai: 26, arg: []uint64{0x3f800000, 0x7f800000, 0x7fc00000, uint64(r.Uint32())}[r.IntN(4)]}
		case 5:
			return &c12Node{major: 7, ai: 27, arg: []uint64{0x3ff0000000000000, 0x7ff0000000000000, 0x7ff8000000000001, r.Uint64()}[r.IntN(4)]}
		default:
			t := []uint64{2, 3, 4, 5, 6, 21, 22, 23, 24, 32, 100, 1000, 4999, 6000, 55799, 1 << 32, uint64(r.IntN(5000))}[r.IntN(17)]
			return &c12Node{major: 6, arg: t, kids: []*c12Node{c12GenItem(r, depth-1, wide)}}
		}
	}
}

// c12Sloppy randomly switches some heads to non-shortest form and shuffles map entries.
func c12Sloppy(r *Rng, n *c12Node) {
	if n.major <= 6 && r.IntN(4) == 0 {
		n.longHead = true
	}
	if n.major == 5 && len(n.kids) >= 4 && r.IntN(2) == 0 {
		cnt := len(n.kids) / 2
		for i := cnt - 1; i > 0; i-- {
			j := r.IntN(i + 1)
			n.kids[2*i], n.kids[2*j] = n.kids[2*j], n.kids[2*i]
			n.kids[2*i+1], n.kids[2*j+1] = n.kids[2*j+1], n.kids[2*i+1]
		}
	}
	for _, k := range n.kids {
		c12Sloppy(r, k)
	}
}

func c12Any(c *Ctx, b []byte) {
	res := safely(func() string {
		_, err := serde.UnmarshalCBOR[any](b)
		if err != nil {
			return "reject"
		}
		return "accept"
	})
	if len(res) > 5 && res[:5] == "panic" {
		c.Violation(fmt.Sprintf("generic decoder panicked on %s: %s", hexBytes(b), res))
		res = "reject"
	}
	c.Count("any." + res)
	c.Emit("any "+hexBytes(b), res)
}

func c12Generic(c *Ctx, scale int) {
	r := NewRng(c.Seed, 12999)
	// (a) deterministic encoder: sloppy encoding --Go decode--> any --Go encode--> canonical bytes
	for i := 0; i < 250*scale; i++ {
		n := c12GenItem(r, 3, false)
		c12Sloppy(r, n)
		b := n.enc()
		res := safely(func() string {
			v, err := serde.UnmarshalCBOR[any](b)
			if err != nil {
				return "reject"
			}
			out, err := serde.MarshalCBOR(v)
			if err != nil {
				return "err:marshal"
			}
			return hexBytes(out)
		})
		c.Count("enc.cases")
		c.Emit("enc "+hexBytes(b), res)
	}
	// (b) decoder strictness on arbitrary items and their byte/tree mutants
	kinds := append(append([]string{}, c12ByteKinds...), c12TreeKinds...)
	for i := 0; i < 250*scale; i++ {
		n := c12GenItem(r, 3, true)
		c12Sloppy(r, n)
		b := n.enc()
		c12Any(c, b)
		for j := 0; j < 4; j++ {
			if m := c12Mutate(r, b, kinds[r.IntN(len(kinds))]); m != nil && len(m.bytes) > 0 {
				c12Any(c, m.bytes)
			}
		}
	}
	// (c) fixed probes: nesting limits, element limits, empty input, random bytes
	c.Note("TRIVIAL")
	c12Any(c, nil)
	for _, d := range []int{1, 16, 31, 32, 33, 34, 40} {
		for _, open := range [][]byte{{0x81}, {0xa1, 0x01}, {0xd8, 0x64}, {0x81, 0xd8, 0x64}} {
			var b []byte
			for k := 0; k < d; k++ {
				b = append(b, open...)
			}
			c12Any(c, append(b, 0x01))
		}
	}
	for _, cnt := range []int{131071, 131072, 131073} {
		b := c12Head(4, uint64(cnt), false)
		for k := 0; k < cnt; k++ {
			b = append(b, 0x00)
		}
		c12Any(c, b)
		b = c12Head(5, uint64(cnt), false)
		for k := 0; k < cnt; k++ {
			b = append(b, c12Head(0, uint64(k), false)...)
			b = append(b, 0x00)
		}
		if c.Thorough() {
			c12Any(c, b)
		}
	}
	for i := 0; i < 150*scale; i++ {
		b := make([]byte, 1+r.IntN(12))
		_, _ = r.Read(b)
		if r.IntN(2) == 0 {
			b[0] = []byte{0x80, 0xa0, 0x40, 0x60, 0xc0, 0xe0, 0x00, 0x20}[r.IntN(8)] | byte(r.IntN(32))
		}
		c12Any(c, b)
	}
}
