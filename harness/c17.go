package main

// C17 — big-number and modular arithmetic return the mathematically correct value.
//
// One line per library call: "C17 <op> <args…> => <result>".
//   * numct operands carry their announced capacity: "<hex>/<cap>" (value first truncated to cap bits by
//     NewNatFromBig/NewIntFromBig — the capacity convention, mirrored by the model);
//   * numct results are "<hex>/<announcedLen>"; num/modular/crt/znstar results are plain values;
//   * a leading "a<k>" argument records which input the output aliased (ignored by the model);
//   * "_" is the default capacity (-1).
// The harness additionally cross-checks the core arithmetic against math/big (Ctx.Violation on mismatch).

import (
	"fmt"
	"math/big"
	"strconv"
	"strings"

	"github.com/bronlabs/bron-crypto/pkg/base/ct"
	"github.com/bronlabs/bron-crypto/pkg/base/nt/numct"
)

func init() { register("C17", runC17) }

type g17 struct {
	c *Ctx
	r *Rng
}

func runC17(c *Ctx) {
	scale := 1
	if c.Thorough() {
		scale = 12
	}
	c17Nat(&g17{c, NewRng(c.Seed, 1701)}, 5200*scale)
	c17Int(&g17{c, NewRng(c.Seed, 1702)}, 4200*scale)
	c17Modulus(&g17{c, NewRng(c.Seed, 1703)}, 3600*scale)
	c17Num(&g17{c, NewRng(c.Seed, 1704)}, 3600*scale)
	c17Modular(&g17{c, NewRng(c.Seed, 1705)}, 700*scale)
	c17Znstar(&g17{c, NewRng(c.Seed, 1706)}, 500*scale)
	c17Jacobi(&g17{c, NewRng(c.Seed, 1707)}, 1500*scale)
	c17Cardinal(&g17{c, NewRng(c.Seed, 1708)}, 300*scale)
	c17Primes(&g17{c, NewRng(c.Seed, 1709)}, scale)
	c17Exhaustive(&g17{c, NewRng(c.Seed, 1710)})
	c17More(&g17{c, NewRng(c.Seed, 1711)}, 1500*scale)
}

// ---------------------------------------------------------------------------------- generators

var (
	bOne  = big.NewInt(1)
	bTwo  = big.NewInt(2)
	bZero = big.NewInt(0)
)

func bi(v int64) *big.Int { return big.NewInt(v) }

// bits draws a size class: mostly up to a few limbs, sometimes up to 4096 bits.
func (g *g17) bits() int {
	k := g.r.IntN(100)
	switch {
	case k < 45:
		return 1 + g.r.IntN(64)
	case k < 70:
		return 65 + g.r.IntN(192)
	case k < 88:
		return 257 + g.r.IntN(768)
	case k < 97:
		return 1025 + g.r.IntN(1024)
	default:
		return 2049 + g.r.IntN(2048)
	}
}

// smallBits is used where the cost is quadratic or worse in the model (constant-time division, gcd).
func (g *g17) smallBits() int {
	k := g.r.IntN(100)
	switch {
	case k < 60:
		return 1 + g.r.IntN(64)
	case k < 90:
		return 65 + g.r.IntN(192)
	default:
		return 257 + g.r.IntN(768)
	}
}

func (g *g17) randBits(n int) *big.Int {
	if n <= 0 {
		return bi(0)
	}
	b := make([]byte, (n+7)/8)
	_, _ = g.r.Read(b)
	v := new(big.Int).SetBytes(b)
	v.Rsh(v, uint(len(b)*8-n))
	v.SetBit(v, n-1, 1)
	return v
}

// nat draws a natural number of at most n bits from classes 0,1,2, 2^k-1, 2^k, 2^k+1, random.
func (g *g17) natN(n int) *big.Int {
	switch g.r.IntN(16) {
	case 0:
		g.c.Count("gen.zero")
		return bi(0)
	case 1:
		return bi(1)
	case 2:
		return bi(int64(2 + g.r.IntN(6)))
	case 3:
		k := 1 + g.r.IntN(n)
		v := new(big.Int).Lsh(bOne, uint(k))
		return v.Sub(v, bOne)
	case 4:
		k := g.r.IntN(n)
		return new(big.Int).Lsh(bOne, uint(k))
	case 5:
		if n < 2 {
			return bi(1)
		}
		k := 1 + g.r.IntN(n-1)
		v := new(big.Int).Lsh(bOne, uint(k))
		return v.Add(v, bOne)
	case 6: // perfect square
		h := g.randBits(1 + g.r.IntN((n+1)/2))
		return h.Mul(h, h)
	default:
		return g.randBits(1 + g.r.IntN(n))
	}
}

func (g *g17) nat() *big.Int      { return g.natN(g.bits()) }
func (g *g17) smallNat() *big.Int { return g.natN(g.smallBits()) }

func (g *g17) intN(n int) *big.Int {
	v := g.natN(n)
	if g.r.IntN(5) < 2 {
		g.c.Count("gen.negative")
		v.Neg(v)
	}
	return v
}
func (g *g17) int() *big.Int      { return g.intN(g.bits()) }
func (g *g17) smallInt() *big.Int { return g.intN(g.smallBits()) }

// capFor draws an announced capacity: equal to / larger than / smaller than the true length.
func (g *g17) capFor(v *big.Int) int {
	l := v.BitLen()
	switch k := g.r.IntN(20); {
	case k < 8:
		g.c.Count("cap.equal")
		return l
	case k < 12:
		g.c.Count("cap.larger")
		return l + 1 + g.r.IntN(8)
	case k < 15:
		g.c.Count("cap.larger")
		return ((l + 63) / 64) * 64
	case k < 17:
		g.c.Count("cap.larger")
		return l + 1 + g.r.IntN(200)
	case k < 19:
		g.c.Count("cap.larger")
		return max(l, 1)
	default:
		if l == 0 {
			return 0
		}
		g.c.Count("cap.smaller")
		return l - 1 - g.r.IntN(min(l, 9))
	}
}

// capNoTrunc: capacity >= true length (used where truncating an operand would only obscure the case)
func (g *g17) capGE(v *big.Int) int {
	c := g.capFor(v)
	if c < v.BitLen() {
		return v.BitLen()
	}
	return c
}

// truncated value of v under announced capacity c (sign kept; -0 normalised to 0 by the caller's choice of sign)
func truncBig(v *big.Int, c int) *big.Int {
	m := new(big.Int).Lsh(bOne, uint(max(c, 0)))
	a := new(big.Int).Abs(v)
	a.Mod(a, m)
	if v.Sign() < 0 {
		a.Neg(a)
	}
	return a
}

type cnat struct {
	v *big.Int // value as passed (before truncation)
	c int
}

func (x cnat) String() string { return x.v.Text(16) + "/" + strconv.Itoa(x.c) }
func (x cnat) nat() *numct.Nat { return numct.NewNatFromBig(x.v, x.c) }
func (x cnat) int() *numct.Int { return numct.NewIntFromBig(x.v, x.c) }
func (x cnat) val() *big.Int   { return truncBig(x.v, x.c) }

func (g *g17) cnatOf(v *big.Int) cnat { return cnat{v, g.capFor(v)} }
func (g *g17) cnat() cnat             { return g.cnatOf(g.nat()) }
func (g *g17) cnatSmall() cnat        { return g.cnatOf(g.smallNat()) }

// cint: a signed operand; never a "negative zero" (a negative value whose truncated magnitude is 0)
func (g *g17) cintOf(v *big.Int) cnat {
	x := cnat{v, g.capFor(v)}
	if x.val().Sign() == 0 && v.Sign() < 0 {
		x.v = new(big.Int).Abs(v)
	}
	return x
}
func (g *g17) cint() cnat      { return g.cintOf(g.int()) }
func (g *g17) cintSmall() cnat { return g.cintOf(g.smallInt()) }

// explicit capacity argument: default, generous, exact or truncating
func (g *g17) capArg(need int) (int, string) {
	switch g.r.IntN(6) {
	case 0, 1, 2:
		return -1, "_"
	case 3:
		c := need + g.r.IntN(70)
		return c, strconv.Itoa(c)
	case 4:
		return need, strconv.Itoa(need)
	default:
		c := max(0, need-1-g.r.IntN(12))
		g.c.Count("caparg.truncating")
		return c, strconv.Itoa(c)
	}
}

// ---------------------------------------------------------------------------------- moduli

var c17KnownPrimes = func() []*big.Int {
	hexes := []string{
		"fffffffffffffffffffffffffffffffffffffffffffffffffffffffefffffc2f",                                                 // secp256k1 p (3 mod 4)
		"fffffffffffffffffffffffffffffffebaaedce6af48a03bbfd25e8cd0364141",                                                 // secp256k1 n (1 mod 4)
		"7fffffffffffffffffffffffffffffffffffffffffffffffffffffffffffffed",                                                 // 2^255-19 (5 mod 8)
		"73eda753299d7d483339d80809a1d80553bda402fffe5bfeffffffff00000001",                                                 // BLS12-381 r (2-adicity 32)
		"40000000000000000000000000000000224698fc094cf91b992d30ed00000001",                                                 // pallas p (2-adicity 32)
		"1a0111ea397fe69a4b1ba7b6434bacd764774b84f38512bf6730d2a0f6b0f6241eabfffeb153ffffb9feffffffffaaab",                 // BLS12-381 p
		"ffffffff00000001000000000000000000000000ffffffffffffffffffffffff",                                                 // P-256 p
		"fffffffffffffffffffffffffffffffffffffffffffffffffffffffffffffffffffffffffffffffeffffffff0000000000000000ffffffff", // P-384 p
	}
	var out []*big.Int
	for _, h := range hexes {
		v, _ := new(big.Int).SetString(h, 16)
		out = append(out, v)
	}
	for _, e := range []uint{13, 17, 19, 31, 61, 89, 107, 127, 521, 607, 1279, 2203, 2281, 3217} { // Mersenne primes
		v := new(big.Int).Lsh(bOne, e)
		out = append(out, v.Sub(v, bOne))
	}
	for _, s := range []int64{3, 5, 7, 11, 13, 17, 97, 257, 65537, 4294967291, 2147483647, 1000000007, 998244353} {
		out = append(out, bi(s))
	}
	return out
}()

// prime draws a prime: known ones (incl. high 2-adicity and Mersenne up to 3217 bits) or a fresh random one (≤ 384 bits).
func (g *g17) prime() *big.Int {
	if g.r.IntN(3) == 0 {
		n := 2 + g.r.IntN(383)
		for {
			v := g.randBits(n)
			v.SetBit(v, 0, 1)
			if v.ProbablyPrime(24) {
				g.c.Count("mod.prime.random")
				return v
			}
		}
	}
	g.c.Count("mod.prime.known")
	return new(big.Int).Set(c17KnownPrimes[g.r.IntN(len(c17KnownPrimes))])
}

// oddPrimeMax draws an odd prime with at most n bits (n >= 2)
func (g *g17) oddPrimeBits(n int) *big.Int {
	for {
		v := g.randBits(n)
		v.SetBit(v, 0, 1)
		if v.ProbablyPrime(24) && v.Cmp(bTwo) > 0 {
			return v
		}
	}
}

// modulus draws m >= 1: 1, 2, small/large primes, odd and even composites, prime powers, RSA-like products.
func (g *g17) modulus() *big.Int {
	switch k := g.r.IntN(20); {
	case k == 0:
		g.c.Count("mod.one")
		return bi(1)
	case k == 1:
		g.c.Count("mod.two")
		return bi(2)
	case k < 9:
		return g.prime()
	case k < 12: // odd composite
		g.c.Count("mod.oddcomposite")
		v := g.natN(g.bits())
		v.SetBit(v, 0, 1)
		v.Mul(v, bi(int64(3+2*g.r.IntN(20))))
		return v
	case k < 15: // even
		g.c.Count("mod.even")
		v := g.natN(g.bits())
		v.Add(v, bOne)
		return v.Lsh(v, uint(1+g.r.IntN(5)))
	case k < 17: // prime power / product of two primes
		g.c.Count("mod.rsa-like")
		p, q := g.prime(), g.prime()
		if g.r.IntN(2) == 0 {
			q = p
		}
		return new(big.Int).Mul(p, q)
	default:
		g.c.Count("mod.random")
		v := g.nat()
		if v.Sign() == 0 {
			v = bi(1)
		}
		return v
	}
}

// residue draws an operand relative to m: 0, 1, m-1, m, m+1, > m, random below m, small.
func (g *g17) residue(m *big.Int) *big.Int {
	switch g.r.IntN(12) {
	case 0:
		return bi(0)
	case 1:
		return bi(1)
	case 2:
		return new(big.Int).Sub(m, bOne)
	case 3:
		g.c.Count("opnd.eq-m")
		return new(big.Int).Set(m)
	case 4:
		g.c.Count("opnd.gt-m")
		return new(big.Int).Add(m, bOne)
	case 5:
		g.c.Count("opnd.gt-m")
		v := new(big.Int).Mul(m, bi(int64(2+g.r.IntN(1000))))
		return v.Add(v, g.r.BigBelow(m))
	case 6:
		g.c.Count("opnd.gt-m")
		return g.randBits(m.BitLen() + 1 + g.r.IntN(130))
	case 7:
		return bi(int64(2 + g.r.IntN(30)))
	case 8: // a square
		v := g.r.BigBelow(m)
		v.Mul(v, v)
		return v.Mod(v, m)
	case 9: // shares a factor with m when m is composite
		v := new(big.Int).GCD(nil, nil, new(big.Int).Add(g.r.BigBelow(m), bOne), m)
		return v.Mul(v, bi(int64(1+g.r.IntN(5))))
	default:
		return g.r.BigBelow(m)
	}
}

// ---------------------------------------------------------------------------------- rendering

func natS(n *numct.Nat) string { return n.Big().Text(16) + "/" + strconv.Itoa(n.AnnouncedLen()) }
func intS(i *numct.Int) string { return i.Big().Text(16) + "/" + strconv.Itoa(i.AnnouncedLen()) }
func b01(b ct.Bool) string {
	if b == ct.True {
		return "1"
	}
	if b == ct.False {
		return "0"
	}
	return "invalid-bool"
}
func bb(b bool) string {
	if b {
		return "1"
	}
	return "0"
}
func cmp3(lt, eq, gt ct.Bool) string {
	switch {
	case lt == ct.True && eq == ct.False && gt == ct.False:
		return "lt"
	case lt == ct.False && eq == ct.True && gt == ct.False:
		return "eq"
	case lt == ct.False && eq == ct.False && gt == ct.True:
		return "gt"
	}
	return fmt.Sprintf("invalid-cmp:%d%d%d", lt, eq, gt)
}
func cmpBig(a, b *big.Int) string { return []string{"lt", "eq", "gt"}[a.Cmp(b)+1] }

func c17hexList(xs []*big.Int) string {
	out := make([]string, len(xs))
	for i, x := range xs {
		out[i] = x.Text(16)
	}
	return joinComma(out)
}

// xc cross-checks a library value against math/big inside the harness (no model needed).
func (g *g17) xc(what string, got, want *big.Int) {
	g.c.Count("xcheck.mathbig")
	if got.Cmp(want) != 0 {
		g.c.Violation(fmt.Sprintf("mathbig-mismatch %s got=%s want=%s", strings.ReplaceAll(what, " ", "_"), got.Text(16), want.Text(16)))
	}
}
func (g *g17) xcs(what, got, want string) {
	g.c.Count("xcheck.mathbig")
	if got != want {
		g.c.Violation(fmt.Sprintf("mathbig-mismatch %s got=%s want=%s", strings.ReplaceAll(what, " ", "_"), got, want))
	}
}

func (g *g17) emit(lhs string, f func() string) {
	op := lhs
	if i := strings.IndexByte(lhs, ' '); i >= 0 {
		op = lhs[:i]
	}
	g.c.Count("op." + op)
	g.c.Emit(lhs, safely(f))
}

// outs: the "reused output" dimension. A quarter of the calls hand the method output receivers that already
// hold a longer random value (saferith's Int.Add / SetBig work on the receiver's limbs without clearing
// them, so a reused — not only an aliased — output was a source of wrong results). Such lines carry the op
// prefix "r!"; the driver compares them by value and reports a difference under the key reused-output.
type outs struct {
	g  *g17
	on bool
}

func (g *g17) reuseIf(on bool) outs {
	if on {
		g.c.Count("out.reused")
	}
	return outs{g, on}
}
func (g *g17) reuse() outs { return g.reuseIf(g.r.IntN(4) == 0) }
func (o outs) op(name string) string {
	if o.on {
		return "r!" + name
	}
	return name
}

// nat / int: a fresh receiver, or one pre-loaded with a random value longer than `hint` bits
func (o outs) nat(hint int) *numct.Nat {
	if !o.on {
		return new(numct.Nat)
	}
	n := max(hint, 0) + 1 + o.g.r.IntN(200)
	return numct.NewNatFromBig(o.g.randBits(n), n+o.g.r.IntN(3)*32)
}
func (o outs) int(hint int) *numct.Int {
	if !o.on {
		return new(numct.Int)
	}
	n := max(hint, 0) + 1 + o.g.r.IntN(200)
	v := o.g.randBits(n)
	if o.g.r.IntN(2) == 0 {
		v.Neg(v)
	}
	return numct.NewIntFromBig(v, n+o.g.r.IntN(3)*32)
}

func mask(c int) *big.Int {
	m := new(big.Int).Lsh(bOne, uint(max(c, 0)))
	return m.Sub(m, bOne)
}
