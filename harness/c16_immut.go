package main

import (
	"fmt"
	"math/big"
	"strings"

	"github.com/bronlabs/bron-crypto/pkg/base/nt/num"
	"github.com/bronlabs/bron-crypto/pkg/encryption/paillier"
)

// ---------------------------------------------------------------------------------------------
// Input-immutability oracle.
//
// Every operation of the Paillier / ElGamal API that the stream calls goes through a wrapper that
// snapshots every argument before the call (deep value: residue, modulus, serialised bytes) and,
// for variadic / slice arguments, every slot of the caller's BACKING ARRAY up to its capacity
// (pointer identity and value of the object it pointed to), and compares after the call. Any
// change is a violation of "homomorphic operations return fresh instances and never mutate their
// inputs" and is reported as `input-mutated`. No operation is special-cased.
// ---------------------------------------------------------------------------------------------

func c16Short(s string) string {
	if len(s) > 40 {
		return s[:20] + ".." + s[len(s)-16:]
	}
	return s
}

func snapCt(c *paillier.Ciphertext) string {
	if c == nil {
		return "nil"
	}
	return hexNat(ctBig(c)) + "/" + hexNat(c.Value().N().Big()) + "/" + hexBytes(c.Bytes())
}

func snapNc(n *paillier.Nonce) string {
	if n == nil {
		return "nil"
	}
	return hexNat(ncBig(n)) + "/" + hexNat(n.Value().Modulus().Big()) + "/" + hexBytes(n.Bytes())
}

func snapPt(p *paillier.Plaintext) string {
	if p == nil {
		return "nil"
	}
	return hexNat(ptBig(p)) + "/" + hexNat(p.Modulus().Big()) + "/" + hexBytes(p.Bytes())
}

func snapInt(s *num.Int) string {
	if s == nil {
		return "nil"
	}
	return hexInt(s.Big())
}

// immGuard collects readers of everything that must not change across one call.
type immGuard struct {
	c      *Ctx
	op     string
	names  []string
	before []string
	reads  []func() string
}

func newGuard(c *Ctx, op string) *immGuard { return &immGuard{c: c, op: op} }

func (g *immGuard) val(name string, read func() string) {
	g.names = append(g.names, name)
	g.before = append(g.before, read())
	g.reads = append(g.reads, read)
}

// guardSlice watches the whole backing array of xs (all cap(xs) slots): which object every slot
// points to, and the value of each of those objects.
func guardSlice[T any](g *immGuard, name string, xs []*T, f func(*T) string) {
	full := xs[:cap(xs)]
	ptrs := make([]*T, len(full))
	copy(ptrs, full)
	for i := range ptrs {
		g.val(fmt.Sprintf("%s[%d](len=%d,cap=%d).value", name, i, len(xs), cap(xs)), func() string { return f(ptrs[i]) })
	}
	g.val(fmt.Sprintf("%s(len=%d,cap=%d).slots", name, len(xs), cap(xs)), func() string {
		cur := xs[:cap(xs)]
		var bad []string
		for i := range cur {
			if cur[i] != ptrs[i] {
				bad = append(bad, fmt.Sprint(i))
			}
		}
		if len(bad) == 0 {
			return "same"
		}
		return "slots-replaced:" + strings.Join(bad, "+")
	})
	if cap(xs) > len(xs) {
		g.c.Count("immut.slice.spare-capacity")
	}
}

func (g *immGuard) done() {
	g.c.Count("immut.calls")
	for i, rd := range g.reads {
		g.c.Count("immut.values-compared")
		if now := rd(); now != g.before[i] {
			g.c.Violation(fmt.Sprintf("input-mutated op=%s arg=%s before=%s after=%s", g.op, g.names[i], c16Short(g.before[i]), c16Short(now)))
		}
	}
}

// c16Immut wraps one key path (PublicKey or SecretKey) with the oracle.
type c16Immut struct {
	c     *Ctx
	path  string
	inner paillierOps
}

func (w *c16Immut) g(op string) *immGuard { return newGuard(w.c, "paillier."+w.path+"."+op) }

func (w *c16Immut) EncryptWithNonce(p *paillier.Plaintext, n *paillier.Nonce) (*paillier.Ciphertext, error) {
	g := w.g("EncryptWithNonce")
	g.val("plaintext", func() string { return snapPt(p) })
	g.val("nonce", func() string { return snapNc(n) })
	defer g.done()
	return w.inner.EncryptWithNonce(p, n)
}

func (w *c16Immut) Representative(p *paillier.Plaintext) (*paillier.Ciphertext, error) {
	g := w.g("Representative")
	g.val("plaintext", func() string { return snapPt(p) })
	defer g.done()
	return w.inner.Representative(p)
}

func (w *c16Immut) IdentityNoise(n *paillier.Nonce) (*paillier.Ciphertext, error) {
	g := w.g("IdentityNoise")
	g.val("nonce", func() string { return snapNc(n) })
	defer g.done()
	return w.inner.IdentityNoise(n)
}

func (w *c16Immut) CiphertextOp(a, b *paillier.Ciphertext, rest ...*paillier.Ciphertext) (*paillier.Ciphertext, error) {
	g := w.g("CiphertextOp")
	g.val("first", func() string { return snapCt(a) })
	g.val("second", func() string { return snapCt(b) })
	guardSlice(g, "rest", rest, snapCt)
	defer g.done()
	return w.inner.CiphertextOp(a, b, rest...)
}

func (w *c16Immut) CiphertextOpInv(a *paillier.Ciphertext) (*paillier.Ciphertext, error) {
	g := w.g("CiphertextOpInv")
	g.val("ciphertext", func() string { return snapCt(a) })
	defer g.done()
	return w.inner.CiphertextOpInv(a)
}

func (w *c16Immut) CiphertextScalarOp(a *paillier.Ciphertext, s *num.Int) (*paillier.Ciphertext, error) {
	g := w.g("CiphertextScalarOp")
	g.val("ciphertext", func() string { return snapCt(a) })
	g.val("scalar", func() string { return snapInt(s) })
	defer g.done()
	return w.inner.CiphertextScalarOp(a, s)
}

func (w *c16Immut) ReRandomise(a *paillier.Ciphertext, n *paillier.Nonce) (*paillier.Ciphertext, error) {
	g := w.g("ReRandomise")
	g.val("ciphertext", func() string { return snapCt(a) })
	g.val("nonce", func() string { return snapNc(n) })
	defer g.done()
	return w.inner.ReRandomise(a, n)
}

func (w *c16Immut) Shift(a *paillier.Ciphertext, p *paillier.Plaintext) (*paillier.Ciphertext, error) {
	g := w.g("Shift")
	g.val("ciphertext", func() string { return snapCt(a) })
	g.val("plaintext", func() string { return snapPt(p) })
	defer g.done()
	return w.inner.Shift(a, p)
}

func (w *c16Immut) NonceOp(a, b *paillier.Nonce, rest ...*paillier.Nonce) (*paillier.Nonce, error) {
	g := w.g("NonceOp")
	g.val("first", func() string { return snapNc(a) })
	g.val("second", func() string { return snapNc(b) })
	guardSlice(g, "rest", rest, snapNc)
	defer g.done()
	return w.inner.NonceOp(a, b, rest...)
}

func (w *c16Immut) NonceOpInv(a *paillier.Nonce) (*paillier.Nonce, error) {
	g := w.g("NonceOpInv")
	g.val("nonce", func() string { return snapNc(a) })
	defer g.done()
	return w.inner.NonceOpInv(a)
}

func (w *c16Immut) NonceScalarOp(a *paillier.Nonce, s *num.Int) (*paillier.Nonce, error) {
	g := w.g("NonceScalarOp")
	g.val("nonce", func() string { return snapNc(a) })
	g.val("scalar", func() string { return snapInt(s) })
	defer g.done()
	return w.inner.NonceScalarOp(a, s)
}

func (w *c16Immut) PlaintextOp(a, b *paillier.Plaintext, rest ...*paillier.Plaintext) (*paillier.Plaintext, error) {
	g := w.g("PlaintextOp")
	g.val("first", func() string { return snapPt(a) })
	g.val("second", func() string { return snapPt(b) })
	guardSlice(g, "rest", rest, snapPt)
	defer g.done()
	return w.inner.PlaintextOp(a, b, rest...)
}

func (w *c16Immut) PlaintextOpInv(a *paillier.Plaintext) (*paillier.Plaintext, error) {
	g := w.g("PlaintextOpInv")
	g.val("plaintext", func() string { return snapPt(a) })
	defer g.done()
	return w.inner.PlaintextOpInv(a)
}

func (w *c16Immut) PlaintextScalarOp(a *paillier.Plaintext, s *num.Int) (*paillier.Plaintext, error) {
	g := w.g("PlaintextScalarOp")
	g.val("plaintext", func() string { return snapPt(a) })
	g.val("scalar", func() string { return snapInt(s) })
	defer g.done()
	return w.inner.PlaintextScalarOp(a, s)
}

// ---------------------------------------------------------------------------------------------
// Aggregation sequences: one batch of tracked encryptions lives in three parallel arrays (with
// spare capacity behind them); prefix / suffix / sliding-window products are taken with the
// variadic operations on SUB-SLICES xs[a:b] (b < len, b < cap) and on whole slices, results of
// earlier calls are multiplied with original operands again later, on both key paths. The line
// carries the values RECORDED AT CREATION (not re-read from the arrays), so an operation that
// disturbed the caller's arrays makes a later product differ from the model.
// ---------------------------------------------------------------------------------------------

type c16Rec struct{ m, r, c string } // hex recorded when the triple was created

func c16Aggregation(c *Ctx, r *Rng, k *c16Key) {
	batch := 6
	rounds := 1
	if c.Thorough() {
		batch, rounds = 8, 3
	}
	nHex := hexNat(k.N)
	for round := 0; round < rounds; round++ {
		for _, path := range []string{"sk", "pk"} {
			o := k.ops(path)
			// arrays with two spare slots of capacity behind the live elements
			pts := make([]*paillier.Plaintext, batch, batch+2)
			ncs := make([]*paillier.Nonce, batch, batch+2)
			cts := make([]*paillier.Ciphertext, batch, batch+2)
			rec := make([]c16Rec, batch)
			for i := 0; i < batch; i++ {
				t := k.freshTriple([]string{"pk", "sk"}[i%2], r)
				pts[i], ncs[i], cts[i] = t.pt, t.nc, t.ct
				rec[i] = c16Rec{hexNat(ptBig(t.pt)), hexNat(ncBig(t.nc)), hexNat(ctBig(t.ct))}
			}
			// emit one product: first operand index a, second b, rest = window [lo, hi) of the arrays
			emit := func(kind string, a, b, lo, hi int) *c16Triple {
				var out c16Triple
				res := safely(func() string {
					var err error
					if out.ct, err = o.CiphertextOp(cts[a], cts[b], cts[lo:hi]...); err != nil {
						return c16Err(err)
					}
					if out.pt, err = o.PlaintextOp(pts[a], pts[b], pts[lo:hi]...); err != nil {
						return c16Err(err)
					}
					if out.nc, err = o.NonceOp(ncs[a], ncs[b], ncs[lo:hi]...); err != nil {
						return c16Err(err)
					}
					return "ok:" + hexList(ctBig(out.ct), ptBig(out.pt), ncBig(out.nc))
				})
				idx := []int{b}
				for i := lo; i < hi; i++ {
					idx = append(idx, i)
				}
				ms, rs, cs := make([]string, len(idx)), make([]string, len(idx)), make([]string, len(idx))
				for j, i := range idx {
					ms[j], rs[j], cs[j] = rec[i].m, rec[i].r, rec[i].c
				}
				lhs := fmt.Sprintf("hom %s %s op %s %s %s %s %s %s", path, nHex, rec[a].m, rec[a].r, rec[a].c, joinComma(ms), joinComma(rs), joinComma(cs))
				c.Emit(lhs, res)
				c.Count("agg." + kind + "." + path)
				if !strings.HasPrefix(res, "ok:") {
					c.Violation(fmt.Sprintf("aggregation %s failed on valid inputs path=%s N=%s: %s", kind, path, c16Short(nHex), res))
					return nil
				}
				return &out
			}
			// prefix aggregation with a growing window of the SAME arrays (incl. the empty window [2,2))
			var last *c16Triple
			for i := 2; i <= batch; i++ {
				last = emit("prefix", 0, 1, 2, i)
			}
			// suffix aggregation, windows ending before len
			for i := batch - 2; i >= 1; i-- {
				emit("suffix", batch-1, batch-2, i, batch-2)
			}
			// sliding windows of width 3 and 4
			for _, wdt := range []int{3, 4} {
				for j := 0; j+wdt <= batch; j++ {
					emit("window", j, j+1, j+2, j+wdt)
				}
			}
			// the full batch once more after all the sub-slice calls: must still be the same product
			total := emit("total", 0, 1, 2, batch)
			if last != nil && total != nil && !last.ct.Equal(total.ct) {
				c.Violation(fmt.Sprintf("product of the same batch changed between two calls path=%s N=%s", path, c16Short(nHex)))
			}
			// results of earlier calls re-used as operands next to the original operands
			if total != nil {
				res := safely(func() string {
					var out c16Triple
					var err error
					if out.ct, err = o.CiphertextOp(total.ct, cts[0], cts[1:3]...); err != nil {
						return c16Err(err)
					}
					if out.pt, err = o.PlaintextOp(total.pt, pts[0], pts[1:3]...); err != nil {
						return c16Err(err)
					}
					if out.nc, err = o.NonceOp(total.nc, ncs[0], ncs[1:3]...); err != nil {
						return c16Err(err)
					}
					k.emitDecOpen(c, out.ct, ptBig(out.pt), ncBig(out.nc))
					return "ok:" + hexList(ctBig(out.ct), ptBig(out.pt), ncBig(out.nc))
				})
				ms := []string{rec[0].m, rec[1].m, rec[2].m}
				rs := []string{rec[0].r, rec[1].r, rec[2].r}
				cs := []string{rec[0].c, rec[1].c, rec[2].c}
				c.Emit(fmt.Sprintf("hom %s %s op %s %s %s %s", path, nHex, total.String(), joinComma(ms), joinComma(rs), joinComma(cs)), res)
				c.Count("agg.reuse." + path)
			}
			// and the batch itself is what it was: every element still decrypts / opens to its record
			for i := 0; i < batch; i++ {
				if hexNat(ctBig(cts[i])) != rec[i].c || hexNat(ptBig(pts[i])) != rec[i].m || hexNat(ncBig(ncs[i])) != rec[i].r {
					c.Violation(fmt.Sprintf("input-mutated batch element %d differs from its record after the aggregation sequence path=%s N=%s", i, path, c16Short(nHex)))
				}
			}
			m0, _ := new(big.Int).SetString(rec[batch-1].m, 16)
			r0, _ := new(big.Int).SetString(rec[batch-1].r, 16)
			k.emitDecOpen(c, cts[batch-1], m0, r0)
		}
	}
}
