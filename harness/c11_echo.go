package main

import (
	"context"
	"crypto/sha3"
	"fmt"
	"sort"
	"strconv"
	"strings"
	"sync"
	"testing"
	"testing/synctest"

	"github.com/bronlabs/bron-crypto/pkg/base/datastructures/hashmap"
	"github.com/bronlabs/bron-crypto/pkg/base/datastructures/hashset"
	"github.com/bronlabs/bron-crypto/pkg/base/serde"
	"github.com/bronlabs/bron-crypto/pkg/mpc/aor"
	"github.com/bronlabs/bron-crypto/pkg/mpc/sharing"
	"github.com/bronlabs/bron-crypto/pkg/network"
	"github.com/bronlabs/bron-crypto/pkg/network/echo"
	"github.com/bronlabs/bron-crypto/pkg/transcripts/hagrid"
)

// c11Msg is the broadcast message type of the echo cases.
type c11Msg uint64
type c11Party struct{}

func (m c11Msg) Validate(*c11Party, sharing.ID) error { return nil }

func c11MsgBytes(v uint64) []byte {
	b, err := serde.MarshalCBOR(c11Msg(v))
	if err != nil {
		panic(err)
	}
	return b
}

// c11Net is an in-memory network whose delivery order and duplication the checker chooses.
type c11Net struct {
	mu   sync.Mutex
	pool []c11Packet
}

func (n *c11Net) add(p c11Packet) {
	n.mu.Lock()
	n.pool = append(n.pool, p)
	n.mu.Unlock()
}

// pump delivers the pooled packets in an order chosen by r, re-delivering some of them
// (identical retransmissions), until the pool is empty and every goroutine is blocked.
func (n *c11Net) pump(r *Rng, deliveries map[sharing.ID]*c11Delivery, dupBudget int) {
	for {
		synctest.Wait()
		n.mu.Lock()
		if len(n.pool) == 0 {
			n.mu.Unlock()
			return
		}
		i := r.IntN(len(n.pool))
		pk := n.pool[i]
		if dupBudget > 0 && r.IntN(4) == 0 {
			dupBudget--
		} else {
			n.pool = append(n.pool[:i], n.pool[i+1:]...)
		}
		n.mu.Unlock()
		d := deliveries[pk.to]
		if d == nil || !d.waiting.Load() {
			continue // Byzantine recipient, or the party has finished and closed its router
		}
		d.hand <- c11In{from: pk.from, msg: pk.msg}
	}
}

// c11RoundTrip serialises and deserialises a message, as the network does (the participants
// alias their state in the messages they return).
func c11RoundTrip[T any](m T) T {
	b, err := serde.MarshalCBOR(m)
	if err != nil {
		panic(err)
	}
	out, err := serde.UnmarshalCBOR[T](b)
	if err != nil {
		panic(err)
	}
	return out
}

func c11Quorum(ids []uint64) network.Quorum {
	s := hashset.NewComparable[sharing.ID]()
	for _, id := range ids {
		s.Add(sharing.ID(id))
	}
	return s.Freeze()
}

// c11Echo: echo.ExchangeEchoBroadcast for 3..5 parties with 1..2 Byzantine parties that
// equivocate in round 1 and send arbitrary (honest-looking, tailored, missing) echoes in round 2,
// over routers with shuffled and duplicated delivery.
func c11Echo(c *Ctx, t *testing.T) {
	r := NewRng(c.Seed, 1105)
	count := 250
	if c.Thorough() {
		count = 6000
	}
	type r1T = echo.Round1P2P[c11Msg, *c11Party]
	type r2T = echo.Round2P2P[c11Msg, *c11Party]
	for it := 0; it < count; it++ {
		n := 3 + r.IntN(3)
		nb := 1
		if n >= 4 && r.IntN(2) == 0 {
			nb = 2
		}
		if r.IntN(12) == 0 {
			nb = 0
		}
		all := make([]uint64, n)
		for i := range all {
			all[i] = uint64(i + 1)
		}
		r.Shuffle(n, func(i, j int) { all[i], all[j] = all[j], all[i] })
		byz := append([]uint64{}, all[:nb]...)
		honest := append([]uint64{}, all[nb:]...)
		sort.Slice(all, func(i, j int) bool { return all[i] < all[j] })
		sort.Slice(byz, func(i, j int) bool { return byz[i] < byz[j] })
		sort.Slice(honest, func(i, j int) bool { return honest[i] < honest[j] })
		isByz := map[uint64]bool{}
		for _, b := range byz {
			isByz[b] = true
		}
		msgs := map[uint64]uint64{}
		var msgToks []string
		for _, p := range honest {
			msgs[p] = 16 + p
			msgToks = append(msgToks, fmt.Sprintf("%d=%x", p, msgs[p]))
		}
		// round 1 of the Byzantine parties: what b sends to honest p
		byz1 := map[[2]uint64]uint64{}
		var b1Toks []string
		equivocates := false
		for _, b := range byz {
			mode := r.IntN(3) // 0 consistent, 1 two values, 2 all different
			for k, p := range honest {
				v := uint64(1)
				switch mode {
				case 1:
					v = uint64(1 + r.IntN(2))
				case 2:
					v = uint64(1 + k)
				}
				byz1[[2]uint64{b, p}] = v
				b1Toks = append(b1Toks, fmt.Sprintf("%d>%d=%x", b, p, v))
			}
			for _, p := range honest {
				if byz1[[2]uint64{b, p}] != byz1[[2]uint64{b, honest[0]}] {
					equivocates = true
				}
			}
		}
		held := func(p, s uint64) uint64 { // payload value party p holds for sender s after round 1
			if isByz[s] {
				return byz1[[2]uint64{s, p}]
			}
			return msgs[s]
		}
		// round 2 of the Byzantine parties: the digest b reports to honest p for sender s
		type echoKey struct{ b, p, s uint64 }
		byz2 := map[echoKey]string{}
		var b2Toks []string
		for _, b := range byz {
			mode := r.IntN(4) // 0 tailored to the recipient, 1 first honest party's view, 2 random, 3 mixed with missing entries
			for _, p := range honest {
				for _, s := range all {
					if s == b {
						continue
					}
					var tok string
					switch {
					case mode == 0:
						tok = fmt.Sprintf("h%x", held(p, s))
					case mode == 1:
						tok = fmt.Sprintf("h%x", held(honest[0], s))
					case mode == 2:
						tok = fmt.Sprintf("h%x", 1+r.IntN(3))
					default:
						switch r.IntN(3) {
						case 0:
							tok = "z"
						case 1:
							tok = fmt.Sprintf("h%x", held(p, s))
						default:
							tok = fmt.Sprintf("h%x", held(honest[len(honest)-1], s))
						}
					}
					byz2[echoKey{b, p, s}] = tok
					if tok != "z" {
						b2Toks = append(b2Toks, fmt.Sprintf("%d>%d:%d=%s", b, p, s, tok))
					}
				}
			}
		}
		lhs := fmt.Sprintf("echo %s %s %s %s %s", c11IDs(all), c11IDs(honest), joinComma(msgToks), joinComma(b1Toks), joinComma(b2Toks))
		c11Tick(lhs)
		results := map[uint64]string{}
		accepted := map[uint64]map[uint64]uint64{}
		const cid = "bc"
		res := safely(func() string {
			synctest.Test(t, func(t *testing.T) {
				net := &c11Net{}
				deliveries := map[sharing.ID]*c11Delivery{}
				quorum := c11Quorum(all)
				type outT struct {
					id  uint64
					res string
					acc map[uint64]uint64
				}
				outs := make(chan outT, n)
				ctx, cancel := context.WithCancel(context.Background())
				defer cancel()
				for _, p := range honest {
					d := newC11Delivery(p, all, 0)
					d.onSend = net.add
					deliveries[sharing.ID(p)] = d
					go func() {
						rt := network.NewRouter(d)
						defer rt.Close()
						acc := map[uint64]uint64{}
						res := safely(func() string {
							m, err := echo.ExchangeEchoBroadcast[c11Msg, *c11Party](ctx, rt, cid, quorum, c11Msg(msgs[p]))
							if err != nil {
								if c11ChainHas(err, "mismatched echo") {
									return "fail"
								}
								if ctx.Err() != nil {
									return "hang"
								}
								return "err:other"
							}
							var parts []string
							ids := m.Keys()
							sort.Slice(ids, func(i, j int) bool { return ids[i] < ids[j] })
							for _, s := range ids {
								v, _ := m.Get(s)
								acc[uint64(s)] = uint64(v)
								parts = append(parts, fmt.Sprintf("%d=%x", s, uint64(v)))
							}
							return "ok:" + joinComma(parts)
						})
						outs <- outT{p, res, acc}
					}()
				}
				for _, b := range byz {
					for _, p := range honest {
						m1, err := serde.MarshalCBOR(&r1T{Payload: c11MsgBytes(byz1[[2]uint64{b, p}])})
						if err != nil {
							panic(err)
						}
						net.add(c11Packet{from: sharing.ID(b), to: sharing.ID(p), msg: c11Encode(cid+":EchoRound1P2P", m1)})
						hashes := map[sharing.ID][32]byte{}
						for _, s := range all {
							if tok, ok := byz2[echoKey{b, p, s}]; ok && tok != "z" {
								v, _ := strconv.ParseUint(tok[1:], 16, 64)
								hashes[sharing.ID(s)] = sha3.Sum256(c11MsgBytes(v))
							}
						}
						m2, err := serde.MarshalCBOR(&r2T{EchoHashes: hashes})
						if err != nil {
							panic(err)
						}
						net.add(c11Packet{from: sharing.ID(b), to: sharing.ID(p), msg: c11Encode(cid+":EchoRound2P2P", m2)})
					}
				}
				net.pump(r, deliveries, 6)
				// quiescent and nothing left to deliver: every honest party must have finished
				pending := len(honest)
				for pending > 0 {
					select {
					case o := <-outs:
						results[o.id] = o.res
						accepted[o.id] = o.acc
						pending--
					default:
						cancel() // hang: release the parties, they report "hang"
						synctest.Wait()
						for pending > 0 {
							o := <-outs
							results[o.id] = o.res
							accepted[o.id] = o.acc
							pending--
						}
					}
				}
			})
			parts := make([]string, len(honest))
			for i, p := range honest {
				parts[i] = fmt.Sprintf("%d=%s", p, results[p])
			}
			return strings.Join(parts, ";")
		})
		if strings.Contains(res, "hang") || strings.HasPrefix(res, "panic") {
			c.Violation("echo broadcast did not terminate although every message was delivered: " + lhs + " => " + res)
		}
		// agreement, decided without the model
		for _, p := range honest {
			for _, q := range honest {
				for s, v := range accepted[p] {
					if w, ok := accepted[q][s]; ok && w != v {
						c.Violation(fmt.Sprintf("echo agreement: parties %d and %d accepted %x and %x from %d: %s => %s", p, q, v, w, s, lhs, res))
					}
				}
			}
		}
		switch {
		case nb == 0:
			c.Count("echo.all-honest")
		case equivocates:
			c.Count("echo.equivocation")
		default:
			c.Count("echo.byzantine-echo-only")
		}
		if strings.Contains(res, "ok:") {
			c.Count("echo.some-accept")
		}
		c.Emit(lhs, res)
	}
}

// c11Runner: the Agree-on-Random runner (two echo broadcasts, or direct exchanges for two
// parties) over routers with shuffled and duplicated delivery; all outputs must equal the output
// of the same participants (same tapes and randomness) driven round by round.
func c11Runner(c *Ctx, t *testing.T) {
	r := NewRng(c.Seed, 1106)
	count := 12
	if c.Thorough() {
		count = 300
	}
	for it := 0; it < count; it++ {
		n := 2 + r.IntN(3)
		ids := make([]uint64, n)
		for i := range ids {
			ids[i] = uint64(1 + i + r.IntN(2)*10)
		}
		quorum := c11Quorum(ids)
		label := fmt.Sprintf("c11-%d-%d", c.Seed, it)
		seed := int64(r.Uint32())
		variant := fmt.Sprintf("s%x-ids%s", seed, strings.ReplaceAll(c11IDs(ids), ",", "."))
		lhs := fmt.Sprintf("run aor %d %s", n, variant)
		c11Tick(lhs)
		// reference: round by round
		ref := safely(func() string {
			parts := map[uint64]*aor.Participant{}
			for _, id := range ids {
				p, err := aor.NewParticipant(sharing.ID(id), quorum, 32, hagrid.NewTranscript(label), NewRng(seed, 7000+id))
				if err != nil {
					return "err:new"
				}
				parts[id] = p
			}
			r1 := map[uint64]*aor.Round1Broadcast{}
			for _, id := range ids {
				m, err := parts[id].Round1()
				if err != nil {
					return "err:r1"
				}
				r1[id] = c11RoundTrip(m)
			}
			r2 := map[uint64]*aor.Round2Broadcast{}
			for _, id := range ids {
				in := hashmap.NewComparable[sharing.ID, *aor.Round1Broadcast]()
				for _, o := range ids {
					if o != id {
						in.Put(sharing.ID(o), r1[o])
					}
				}
				m, err := parts[id].Round2(in.Freeze())
				if err != nil {
					return "err:r2"
				}
				r2[id] = c11RoundTrip(m)
			}
			var sample string
			for _, id := range ids {
				in := hashmap.NewComparable[sharing.ID, *aor.Round2Broadcast]()
				for _, o := range ids {
					if o != id {
						in.Put(sharing.ID(o), r2[o])
					}
				}
				s, err := parts[id].Round3(in.Freeze())
				if err != nil {
					return "err:r3"
				}
				if sample != "" && sample != hexBytes(s) {
					return "err:round-by-round-inconsistent"
				}
				sample = hexBytes(s)
			}
			return sample
		})
		outs := map[uint64]string{}
		res := safely(func() string {
			synctest.Test(t, func(t *testing.T) {
				net := &c11Net{}
				deliveries := map[sharing.ID]*c11Delivery{}
				type outT struct {
					id  uint64
					res string
				}
				ch := make(chan outT, n)
				ctx, cancel := context.WithCancel(context.Background())
				defer cancel()
				for _, id := range ids {
					d := newC11Delivery(id, ids, 0)
					d.onSend = net.add
					deliveries[sharing.ID(id)] = d
					go func() {
						rt := network.NewRouter(d)
						defer rt.Close()
						ch <- outT{id, safely(func() string {
							runner, err := aor.NewAgreeOnRandomRunner(sharing.ID(id), quorum, 32, hagrid.NewTranscript(label), NewRng(seed, 7000+id))
							if err != nil {
								return "err:new"
							}
							s, err := runner.Run(ctx, rt, nil)
							if err != nil {
								if ctx.Err() != nil {
									return "hang"
								}
								return "err:run"
							}
							return hexBytes(s)
						})}
					}()
				}
				net.pump(r, deliveries, 8)
				pending := n
				for pending > 0 {
					select {
					case o := <-ch:
						outs[o.id] = o.res
						pending--
					default:
						cancel()
						synctest.Wait()
						for pending > 0 {
							o := <-ch
							outs[o.id] = o.res
							pending--
						}
					}
				}
			})
			parts := make([]string, len(ids))
			for i, id := range ids {
				parts[i] = fmt.Sprintf("%d=%s", id, outs[id])
			}
			return ref + "|" + joinComma(parts)
		})
		if strings.Contains(res, "hang") || strings.HasPrefix(res, "panic") {
			c.Violation("runner did not terminate although every message was delivered: " + lhs + " => " + res)
		}
		c.Count("runner.aor")
		c.Emit(lhs, res)
	}
}
