package main

// C19, part 2: operation histories on the real hagrid transcript.
//
// A script is a list of commands on numbered handles (handle 0 is created by the first `n`, every
// `c`lone creates the next handle):
//
//	n:<name>                      hagrid.NewTranscript(name)
//	d:<i>:<tag>                   AppendDomainSeparator
//	a:<i>:<label>:<m1>/<m2>/…     AppendBytes ("." = no message, "-" = one empty message)
//	x:<i>:<label>:<n>             ExtractBytes (event: output hex or "err")
//	c:<i>                         Clone
//
// Each script is emitted as one line  `C19 tr <script> => <events>`; the driver recomputes every
// event with the Lean transcript model on top of its cSHAKE256 model (verdict spec).  In addition the
// Go side checks, without any model, determinism and the "differs" relations between a history and
// a variant of it (label / boundary / order / count / length / domain separator / earlier extraction /
// prefix / name / clone independence).

import (
	"bytes"
	"encoding/binary"
	"fmt"
	"strings"

	"github.com/bronlabs/bron-crypto/pkg/base"
	"github.com/bronlabs/bron-crypto/pkg/base/curves/k256"
	"github.com/bronlabs/bron-crypto/pkg/transcripts"
	"github.com/bronlabs/bron-crypto/pkg/transcripts/hagrid"
)

// the (unexported) hagrid append tag: iota+0xa0 at index 2 of its const block
const c19AppendTag = 0xa2

type c19Cmd struct {
	kind  byte // n d a x c
	h     int
	label []byte
	msgs  [][]byte
	n     int
}

func (k c19Cmd) String() string {
	switch k.kind {
	case 'n':
		return "n:" + hexBytes(k.label)
	case 'd':
		return fmt.Sprintf("d:%d:%s", k.h, hexBytes(k.label))
	case 'a':
		ms := "."
		if len(k.msgs) > 0 {
			parts := make([]string, len(k.msgs))
			for i, m := range k.msgs {
				parts[i] = hexBytes(m)
			}
			ms = strings.Join(parts, "/")
		}
		return fmt.Sprintf("a:%d:%s:%s", k.h, hexBytes(k.label), ms)
	case 'x':
		return fmt.Sprintf("x:%d:%s:%d", k.h, hexBytes(k.label), k.n)
	default:
		return fmt.Sprintf("c:%d", k.h)
	}
}

func c19Script(cmds []c19Cmd) string {
	parts := make([]string, len(cmds))
	for i, k := range cmds {
		parts[i] = k.String()
	}
	return strings.Join(parts, ";")
}

// c19Exec runs the script on real transcripts; events[i] belongs to the i-th `x` command.
func c19Exec(cmds []c19Cmd) (events []string, evCmd []int) {
	var ts []transcripts.Transcript
	for idx, k := range cmds {
		switch k.kind {
		case 'n':
			ts = append(ts, hagrid.NewTranscript(string(k.label)))
		case 'd':
			ts[k.h].AppendDomainSeparator(string(k.label))
		case 'a':
			ts[k.h].AppendBytes(string(k.label), k.msgs...)
		case 'x':
			out, err := ts[k.h].ExtractBytes(string(k.label), uint(k.n))
			switch {
			case err != nil:
				events = append(events, "err")
			case len(out) != k.n:
				events = append(events, fmt.Sprintf("badlen:%d", len(out)))
			default:
				events = append(events, hexBytes(out))
			}
			evCmd = append(evCmd, idx)
		case 'c':
			ts = append(ts, ts[k.h].Clone())
		}
	}
	return events, evCmd
}

func c19Emit(c *Ctx, cmds []c19Cmd) []string {
	var events []string
	res := safely(func() string {
		events, _ = c19Exec(cmds)
		return joinComma(events)
	})
	c.Emit("tr "+c19Script(cmds), res)
	if strings.HasPrefix(res, "panic:") {
		c.Violation("transcript panicked on " + c19Script(cmds))
		return nil
	}
	return events
}

var c19Labels = []string{"", "a", "b", "ab", "label", "challenge", "x", "sid", "\xa1", "\xa2\x00", "\xa4", "\xa5", "\x00", "\x00\x00\x00\x00\x00\x00\x00\x01"}

func c19Label(r *Rng) []byte {
	if r.IntN(4) == 0 {
		return c19RandBytes(r, r.IntN(20))
	}
	return []byte(c19Labels[r.IntN(len(c19Labels))])
}

func c19Msg(r *Rng) []byte {
	switch r.IntN(10) {
	case 0:
		return []byte{}
	case 1:
		return c19RandBytes(r, 100+r.IntN(300)) // crosses the 136-byte rate
	case 2: // looks like framing
		b := []byte{c19AppendTag}
		b = binary.BigEndian.AppendUint64(b, uint64(r.IntN(3)))
		return b
	case 3:
		return []byte(c19Labels[r.IntN(len(c19Labels))])
	default:
		return c19RandBytes(r, 1+r.IntN(40))
	}
}

func c19ExtractLen(r *Rng) int {
	switch r.IntN(8) {
	case 0:
		return 0 // error path
	case 1:
		return 1 + r.IntN(15)
	case 2:
		return []int{135, 136, 137, 272, 273}[r.IntN(5)]
	case 3:
		return 100 + r.IntN(400)
	default:
		return []int{16, 32, 32, 48, 64}[r.IntN(5)]
	}
}

// c19RandOp draws a non-structural operation (d/a/x) on handle h.
func c19RandOp(r *Rng, h int) c19Cmd {
	switch r.IntN(7) {
	case 0:
		return c19Cmd{kind: 'd', h: h, label: c19Label(r)}
	case 1, 2:
		return c19Cmd{kind: 'x', h: h, label: c19Label(r), n: c19ExtractLen(r)}
	default:
		k := []int{0, 1, 1, 1, 2, 2, 3, 5}[r.IntN(8)]
		ms := make([][]byte, k)
		for i := range ms {
			ms[i] = c19Msg(r)
		}
		return c19Cmd{kind: 'a', h: h, label: c19Label(r), msgs: ms}
	}
}

func c19Name(r *Rng) []byte {
	return []byte([]string{"test", "", "BRON", "dkls23", "a", "ab", "proto-\x00"}[r.IntN(7)])
}

// c19Random: unconstrained random histories over several handles.
func c19Random(c *Ctx, r *Rng, count int) {
	for it := 0; it < count; it++ {
		cmds := []c19Cmd{{kind: 'n', label: c19Name(r)}}
		handles := 1
		n := 1 + r.IntN(14)
		for i := 0; i < n; i++ {
			switch r.IntN(8) {
			case 0:
				cmds = append(cmds, c19Cmd{kind: 'c', h: r.IntN(handles)})
				handles++
				c.Count("tr.clone")
			case 1:
				if r.IntN(3) == 0 {
					cmds = append(cmds, c19Cmd{kind: 'n', label: c19Name(r)})
					handles++
				}
			default:
				cmds = append(cmds, c19RandOp(r, r.IntN(handles)))
			}
		}
		cmds = append(cmds, c19Cmd{kind: 'x', h: r.IntN(handles), label: []byte("final"), n: 32})
		c.Count("tr.random")
		ev := c19Emit(c, cmds)
		// determinism: the same operations on fresh transcripts give the same bytes
		ev2, _ := c19Exec(cmds)
		if ev != nil && joinComma(ev) != joinComma(ev2) {
			c.Violation("non-deterministic transcript outputs for " + c19Script(cmds))
		}
	}
}

type c19Variant struct {
	kind       string
	segA, segB []c19Cmd
}

func c19Flip(b []byte, r *Rng) []byte {
	out := bytes.Clone(b)
	if len(out) == 0 {
		return []byte{byte(1 + r.IntN(255))}
	}
	switch r.IntN(3) {
	case 0:
		out[r.IntN(len(out))] ^= byte(1 << r.IntN(8))
	case 1:
		out = append(out, byte(r.IntN(256)))
	default:
		out = out[:len(out)-1]
	}
	return out
}

func c19NonEmpty(r *Rng) []byte {
	return c19RandBytes2(r, 2+r.IntN(30))
}

// c19RandBytes2: random bytes without the all-equal special cases (so that splits/swaps really differ)
func c19RandBytes2(r *Rng, n int) []byte {
	b := make([]byte, n)
	_, _ = r.Read(b)
	for i := range b {
		b[i] = b[i]&0x7f | byte(i&1)<<7 // adjacent bytes differ
	}
	return b
}

func cat(bs ...[]byte) []byte { return bytes.Join(bs, nil) }

// c19MakeVariant: two operation segments on handle 0 that differ in exactly one aspect.
func c19MakeVariant(r *Rng) c19Variant {
	l := c19Label(r)
	m1, m2 := c19NonEmpty(r), c19NonEmpty(r)
	if bytes.Equal(m1, m2) {
		m2 = append(m2, 1)
	}
	a := func(label []byte, ms ...[]byte) c19Cmd { return c19Cmd{kind: 'a', label: label, msgs: ms} }
	d := func(tag []byte) c19Cmd { return c19Cmd{kind: 'd', label: tag} }
	x := func(label []byte, n int) c19Cmd { return c19Cmd{kind: 'x', label: label, n: n} }
	switch r.IntN(24) {
	case 0:
		return c19Variant{"label", []c19Cmd{a(l, m1)}, []c19Cmd{a(c19Flip(l, r), m1)}}
	case 1:
		return c19Variant{"message", []c19Cmd{a(l, m1)}, []c19Cmd{a(l, c19Flip(m1, r))}}
	case 2: // boundary between two messages moves by one byte
		return c19Variant{"boundary.msg-msg", []c19Cmd{a(l, m1, m2)}, []c19Cmd{a(l, cat(m1, m2[:1]), m2[1:])}}
	case 3: // one message vs the same bytes split in two
		return c19Variant{"boundary.split", []c19Cmd{a(l, cat(m1, m2))}, []c19Cmd{a(l, m1, m2)}}
	case 4: // boundary between label and first message
		return c19Variant{"boundary.label-msg", []c19Cmd{a(cat(l, m1[:1]), m1[1:])}, []c19Cmd{a(l, m1)}}
	case 5: // one call with two messages vs two calls
		return c19Variant{"boundary.calls", []c19Cmd{a(l, m1, m2)}, []c19Cmd{a(l, m1), a(l, m2)}}
	case 6: // the framing of the second message passed as data of the first
		fake := cat(m1, binary.BigEndian.AppendUint64(nil, uint64(len(m2))), m2)
		return c19Variant{"boundary.embedded-length", []c19Cmd{a(l, m1, m2)}, []c19Cmd{a(l, fake)}}
	case 7:
		return c19Variant{"order.messages", []c19Cmd{a(l, m1, m2)}, []c19Cmd{a(l, m2, m1)}}
	case 8:
		return c19Variant{"order.ops", []c19Cmd{a(l, m1), d(m2)}, []c19Cmd{d(m2), a(l, m1)}}
	case 9:
		return c19Variant{"order.labels", []c19Cmd{a(l, m1), a(cat(l, []byte("'")), m2)}, []c19Cmd{a(cat(l, []byte("'")), m2), a(l, m1)}}
	case 10:
		return c19Variant{"count.empty-message", []c19Cmd{a(l, m1)}, []c19Cmd{a(l, m1, []byte{})}}
	case 11:
		return c19Variant{"count.none-vs-empty", []c19Cmd{a(l)}, []c19Cmd{a(l, []byte{})}}
	case 12:
		return c19Variant{"count.repeat", []c19Cmd{a(l, m1)}, []c19Cmd{a(l, m1), a(l, m1)}}
	case 13:
		n := 16 + r.IntN(100)
		return c19Variant{"length", []c19Cmd{x(l, n)}, []c19Cmd{x(l, n+1+r.IntN(40))}}
	case 14:
		return c19Variant{"domsep.change", []c19Cmd{d(m1)}, []c19Cmd{d(c19Flip(m1, r))}}
	case 15:
		return c19Variant{"domsep.missing", []c19Cmd{d(m1), a(l, m2)}, []c19Cmd{a(l, m2)}}
	case 16:
		return c19Variant{"domsep.split", []c19Cmd{d(cat(m1, m2))}, []c19Cmd{d(m1), d(m2)}}
	case 17: // a domain separator vs an append whose label is the tag
		return c19Variant{"domsep.vs-append", []c19Cmd{d(m1)}, []c19Cmd{a(m1)}}
	case 18:
		return c19Variant{"extraction.earlier", []c19Cmd{x(l, 32), a(l, m1)}, []c19Cmd{a(l, m1)}}
	case 19:
		return c19Variant{"extraction.label", []c19Cmd{x(l, 32)}, []c19Cmd{x(c19Flip(l, r), 32)}}
	case 20: // an extraction vs an append carrying the same label and the length as data
		return c19Variant{"extraction.vs-append", []c19Cmd{x(l, 32)}, []c19Cmd{a(l, binary.BigEndian.AppendUint64(nil, 32))}}
	case 21:
		return c19Variant{"prefix", nil, []c19Cmd{c19RandOp(r, 0)}}
	case 22: // failed extraction (n = 0) must leave no trace: handled by the caller as an "equal" pair
		return c19Variant{"equal.failed-extract", []c19Cmd{x(l, 0)}, nil}
	default: // data that mimics a whole framed append
		fake := []byte{c19AppendTag}
		fake = binary.BigEndian.AppendUint64(fake, uint64(len(l)))
		fake = append(fake, l...)
		fake = binary.BigEndian.AppendUint64(fake, 1)
		fake = binary.BigEndian.AppendUint64(fake, uint64(len(m2)))
		fake = append(fake, m2...)
		return c19Variant{"boundary.embedded-op", []c19Cmd{a(l, m1), a(l, m2)}, []c19Cmd{a(l, cat(m1, fake))}}
	}
}

// c19Pairs: history A = prefix ‖ segA ‖ suffix, B = prefix ‖ segB ‖ suffix; the suffix works on handle 0
// and on clones of it taken inside the suffix (all "affected": every output must differ between A and B)
// and on a clone taken in the prefix (handle 1, "unaffected": outputs must be equal in A and B).
func c19Pairs(c *Ctx, r *Rng, count int) {
	for it := 0; it < count; it++ {
		name := c19Name(r)
		prefix := []c19Cmd{{kind: 'n', label: name}}
		for i, n := 0, r.IntN(5); i < n; i++ {
			prefix = append(prefix, c19RandOp(r, 0))
		}
		prefix = append(prefix, c19Cmd{kind: 'c', h: 0}) // handle 1: independent of what follows on handle 0
		v := c19MakeVariant(r)
		if v.kind == "prefix" && v.segB[0].kind == 'x' && v.segB[0].n == 0 {
			v.kind = "equal.failed-extract"
			v.segA, v.segB = v.segB, nil
		}
		var suffix []c19Cmd
		affected := map[int]bool{0: true}
		handles := 2
		for i, n := 0, r.IntN(5); i < n; i++ {
			switch r.IntN(6) {
			case 0:
				suffix = append(suffix, c19Cmd{kind: 'c', h: 0})
				affected[handles] = true
				handles++
			case 1:
				suffix = append(suffix, c19RandOp(r, 1))
			default:
				h := r.IntN(handles)
				suffix = append(suffix, c19RandOp(r, h))
			}
		}
		suffix = append(suffix, c19Cmd{kind: 'x', h: 0, label: []byte("probe"), n: 32})
		suffix = append(suffix, c19Cmd{kind: 'x', h: 1, label: []byte("probe"), n: 32})
		if handles > 2 {
			suffix = append(suffix, c19Cmd{kind: 'x', h: handles - 1, label: []byte("probe"), n: 16 + r.IntN(40)})
		}
		A := cat3(prefix, v.segA, suffix)
		B := cat3(prefix, v.segB, suffix)
		c.Count("tr.pair." + v.kind)
		evA := c19Emit(c, A)
		evB := c19Emit(c, B)
		if evA == nil || evB == nil {
			continue
		}
		// align the suffix events from the end
		nsuf := 0
		for _, k := range suffix {
			if k.kind == 'x' {
				nsuf++
			}
		}
		equalKind := strings.HasPrefix(v.kind, "equal.")
		si := 0
		for _, k := range suffix {
			if k.kind != 'x' {
				continue
			}
			ea := evA[len(evA)-nsuf+si]
			eb := evB[len(evB)-nsuf+si]
			si++
			if k.n == 0 {
				if ea != "err" || eb != "err" {
					c.Violation(fmt.Sprintf("ExtractBytes(_,0) did not fail: %s", c19Script(A)))
				}
				continue
			}
			if ea == "err" || eb == "err" {
				c.Violation(fmt.Sprintf("ExtractBytes failed for n=%d: %s", k.n, c19Script(A)))
				continue
			}
			switch {
			case !affected[k.h] || equalKind:
				if ea != eb {
					c.Violation(fmt.Sprintf("outputs differ although the histories of handle %d are equal (%s): A=%s B=%s", k.h, v.kind, c19Script(A), c19Script(B)))
				}
			case k.n >= 16:
				if ea == eb {
					c.Violation(fmt.Sprintf("different histories (%s) give equal output %s: A=%s B=%s", v.kind, ea, c19Script(A), c19Script(B)))
				}
				c.Count("tr.differs-checked")
			}
		}
		// the extractions inside the differing segments ("length", "extraction.label"): neither output may be a
		// prefix of the other
		if len(v.segA) == 1 && len(v.segB) == 1 && v.segA[0].kind == 'x' && v.segB[0].kind == 'x' {
			npre := 0
			for _, k := range prefix {
				if k.kind == 'x' {
					npre++
				}
			}
			ea, eb := evA[npre], evB[npre]
			m := min(len(ea), len(eb))
			if ea != "err" && eb != "err" && m >= 32 && ea[:m] == eb[:m] {
				c.Violation(fmt.Sprintf("extractions with different label/length share a prefix (%s): A=%s B=%s", v.kind, c19Script(A), c19Script(B)))
			}
		}
	}
}

func cat3(a, b, c []c19Cmd) []c19Cmd {
	out := make([]c19Cmd, 0, len(a)+len(b)+len(c))
	out = append(out, a...)
	out = append(out, b...)
	return append(out, c...)
}

// c19Names: the protocol name separates transcripts.
func c19Names(c *Ctx, r *Rng, count int) {
	for it := 0; it < count; it++ {
		n1 := c19Name(r)
		n2 := c19Flip(n1, r)
		var body []c19Cmd
		for i, n := 0, r.IntN(4); i < n; i++ {
			body = append(body, c19RandOp(r, 0))
		}
		body = append(body, c19Cmd{kind: 'x', h: 0, label: []byte("probe"), n: 32})
		A := append([]c19Cmd{{kind: 'n', label: n1}}, body...)
		B := append([]c19Cmd{{kind: 'n', label: n2}}, body...)
		c.Count("tr.pair.name")
		evA, evB := c19Emit(c, A), c19Emit(c, B)
		if evA == nil || evB == nil {
			continue
		}
		if evA[len(evA)-1] == evB[len(evB)-1] {
			c.Violation(fmt.Sprintf("transcripts with different names give equal output: A=%s B=%s", c19Script(A), c19Script(B)))
		}
	}
}

// c19Clones: a clone reproduces the origin when it performs the same operations, diverges when it performs
// different ones, and never influences the origin.
func c19Clones(c *Ctx, r *Rng, count int) {
	for it := 0; it < count; it++ {
		cmds := []c19Cmd{{kind: 'n', label: c19Name(r)}}
		for i, n := 0, r.IntN(6); i < n; i++ {
			cmds = append(cmds, c19RandOp(r, 0))
		}
		base := append([]c19Cmd{}, cmds...) // the same history without any clone
		cmds = append(cmds, c19Cmd{kind: 'c', h: 0})
		// same ops on both
		var same []c19Cmd
		for i, n := 0, r.IntN(3); i < n; i++ {
			same = append(same, c19RandOp(r, 0))
		}
		for _, k := range same {
			cmds = append(cmds, k)
			base = append(base, k)
			k1 := k
			k1.h = 1
			cmds = append(cmds, k1)
		}
		cmds = append(cmds, c19Cmd{kind: 'x', h: 0, label: []byte("q"), n: 32})
		base = append(base, c19Cmd{kind: 'x', h: 0, label: []byte("q"), n: 32})
		cmds = append(cmds, c19Cmd{kind: 'x', h: 1, label: []byte("q"), n: 32})
		// the clone alone continues
		extra := c19RandOp(r, 1)
		for extra.kind == 'x' && extra.n == 0 {
			extra = c19RandOp(r, 1)
		}
		cmds = append(cmds, extra)
		cmds = append(cmds, c19Cmd{kind: 'x', h: 0, label: []byte("r"), n: 32})
		base = append(base, c19Cmd{kind: 'x', h: 0, label: []byte("r"), n: 32})
		cmds = append(cmds, c19Cmd{kind: 'x', h: 1, label: []byte("r"), n: 32})
		c.Count("tr.clone-scenario")
		ev := c19Emit(c, cmds)
		evBase := c19Emit(c, base)
		if ev == nil || evBase == nil {
			continue
		}
		n := len(ev)
		q0, q1, r0, r1 := ev[n-4], ev[n-3], ev[n-2], ev[n-1]
		if extra.kind == 'x' {
			q0, q1, r0, r1 = ev[n-5], ev[n-4], ev[n-2], ev[n-1]
		}
		if q0 != q1 {
			c.Violation("clone performing the same operations extracts different bytes: " + c19Script(cmds))
		}
		if r0 == r1 {
			c.Violation("clone that diverged extracts the same bytes as its origin: " + c19Script(cmds))
		}
		nb := len(evBase)
		if evBase[nb-2] != q0 || evBase[nb-1] != r0 {
			c.Violation("operations on a clone changed the origin's outputs: " + c19Script(cmds))
		}
	}
}

// c19Helpers: transcripts.Append / transcripts.Extract are thin wrappers: Append(label, xs…) is one
// AppendBytes(label, x.Bytes()) per element; Extract(label, f) is f.Hash(ExtractBytes(label, |f| + 10)).
func c19Helpers(c *Ctx, r *Rng, count int) {
	f := k256.NewScalarField()
	for it := 0; it < count; it++ {
		name := c19Name(r)
		tape := hagrid.NewTranscript(string(name))
		cmds := []c19Cmd{{kind: 'n', label: name}}
		k := r.IntN(4)
		label := c19Label(r)
		xs := make([]*k256.Scalar, k)
		for i := range xs {
			xs[i] = smallOrRandom(r, f, 30)
			cmds = append(cmds, c19Cmd{kind: 'a', label: label, msgs: [][]byte{xs[i].Bytes()}})
		}
		transcripts.Append(tape, string(label), xs...)
		n := f.ElementSize() + base.StatisticalSecurityBytesCeil
		elabel := c19Label(r)
		cmds = append(cmds, c19Cmd{kind: 'x', label: elabel, n: n})
		shadow := tape.Clone()
		raw, err := shadow.ExtractBytes(string(elabel), uint(n))
		if err != nil {
			c.Violation("ExtractBytes failed in helper scenario")
			continue
		}
		want, err1 := f.Hash(raw)
		got, err2 := transcripts.Extract(tape, string(elabel), f)
		if err1 != nil || err2 != nil || !want.Equal(got) {
			c.Violation("transcripts.Extract != f.Hash(ExtractBytes(label, ElementSize+StatisticalSecurityBytesCeil)): " + c19Script(cmds))
		}
		// the real tape continued: one more extraction shows that Append/Extract framed exactly like the script
		cmds = append(cmds, c19Cmd{kind: 'x', label: []byte("after"), n: 32})
		after, err := tape.ExtractBytes("after", 32)
		if err != nil {
			c.Violation("ExtractBytes failed in helper scenario")
			continue
		}
		c.Count("tr.helpers")
		c.Emit("tr "+c19Script(cmds), joinComma([]string{hexBytes(raw), hexBytes(after)}))
	}
}

func c19Transcripts(c *Ctx) {
	r := NewRng(c.Seed, 1901)
	scale := 1
	if c.Thorough() {
		scale = 12
	}
	// degenerate: a fresh transcript, extraction only
	c19Trivial(c)
	c19Emit(c, []c19Cmd{{kind: 'n', label: []byte("test")}, {kind: 'x', label: []byte("l"), n: 32}})
	c19Random(c, r, 400*scale)
	c19Pairs(c, r, 900*scale)
	c19Names(c, r, 60*scale)
	c19Clones(c, r, 150*scale)
	c19Helpers(c, r, 60*scale)
}
