package main

// C15 — BLS signatures: both key-size variants (keys in G1 / G2), every rogue-key prevention mode.
// The pairing is not modelled: the Lean side checks the group-level relations (pk = sk•g,
// σ = sk•H(m), aggregate σ = Σ skᵢ•H(mᵢ), pop = sk•H_pop(pk), identity/subgroup admissibility) from the
// secret keys that the harness puts into the line; by Props.C15.bls_verify_iff / bls_aggregate_iff /
// bls_pop those relations are equivalent to the pairing equations for a non-degenerate bilinear map,
// so "library accepts" is compared with "relations hold".  H(m) (hash-to-curve) is taken from the library.

import (
	"fmt"
	"math/big"
	"slices"
	"strings"

	"github.com/bronlabs/bron-crypto/pkg/base/algebra"
	"github.com/bronlabs/bron-crypto/pkg/base/curves"
	"github.com/bronlabs/bron-crypto/pkg/base/curves/pairable"
	"github.com/bronlabs/bron-crypto/pkg/base/curves/pairable/bls12381"
	"github.com/bronlabs/bron-crypto/pkg/signatures"
	"github.com/bronlabs/bron-crypto/pkg/signatures/bls"
)

func c15BlsAll(c *Ctx) {
	r := NewRng(c.Seed, 1502)
	family := pairable.NewBLS12381()
	// points outside the prime-order subgroup (on the curve): the cofactors are huge, so a point with a
	// random x is outside with overwhelming probability; the Lean side re-checks non-membership.
	var badG1 []*bls12381.PointG1
	for len(badG1) < 2 {
		// built on the implementation layer: G1.FromAffineX itself refuses points outside the subgroup
		x := bls12381.NewG1BaseField().FromUint64(uint64(1 + r.IntN(1<<30)))
		var p bls12381.PointG1
		if ok := p.V.SetFromAffineX(&x.V); ok != 1 {
			continue
		}
		q := &p
		if r.IntN(2) == 0 {
			q = p.Neg()
		}
		if !q.IsTorsionFree() {
			badG1 = append(badG1, q)
		}
	}
	var badG2 []*bls12381.PointG2
	for len(badG2) < 2 {
		seed := make([]byte, 16)
		_, _ = r.Read(seed)
		x, err := bls12381.NewG2BaseField().Hash(seed)
		if err != nil {
			panic(err)
		}
		var p bls12381.PointG2
		if ok := p.V.SetFromAffineX(&x.V); ok == 1 && !p.IsTorsionFree() {
			badG2 = append(badG2, &p)
		}
	}
	g1Str := func(p *bls12381.PointG1) string { return pointStr(p) }
	g2Str := func(p *bls12381.PointG2) string { return pointStr(p) }
	for mi, mode := range []bls.RogueKeyPreventionAlgorithm{bls.Basic, bls.MessageAugmentation, bls.POP} {
		short, err := bls.NewShortKeyScheme(family, mode)
		if err != nil {
			c.Violation(fmt.Sprintf("bls NewShortKeyScheme: %v", err))
			continue
		}
		c15Bls(c, r, "bls12381g1", "bls12381g2", short, mode, bls.ShortKey, g1Str, g2Str, badG1, badG2, mi)
		long, err := bls.NewLongKeyScheme(family, mode)
		if err != nil {
			c.Violation(fmt.Sprintf("bls NewLongKeyScheme: %v", err))
			continue
		}
		c15Bls(c, r, "bls12381g2", "bls12381g1", long, mode, bls.LongKey, g2Str, g1Str, badG2, badG1, mi+1)
	}
}

func c15Bls[
	PK curves.PairingFriendlyPoint[PK, PKFE, SG, SGFE, E, S], PKFE algebra.FieldElement[PKFE],
	SG curves.PairingFriendlyPoint[SG, SGFE, PK, PKFE, E, S], SGFE algebra.FieldElement[SGFE],
	E algebra.MultiplicativeGroupElement[E], S algebra.PrimeFieldElement[S],
](c *Ctx, r *Rng, kc, sc string, scheme *bls.Scheme[PK, PKFE, SG, SGFE, E, S], mode bls.RogueKeyPreventionAlgorithm, variant bls.Variant,
	pkStr func(PK) string, sgStr func(SG) string, badPK []PK, badSG []SG, rot int,
) {
	type pubKey = bls.PublicKey[PK, PKFE, SG, SGFE, E, S]
	type privKey = bls.PrivateKey[PK, PKFE, SG, SGFE, E, S]
	type sigT = bls.Signature[SG, SGFE, PK, PKFE, E, S]
	type popT = bls.ProofOfPossession[SG, SGFE, PK, PKFE, E, S]
	mtag := map[bls.RogueKeyPreventionAlgorithm]string{bls.Basic: "b", bls.MessageAugmentation: "a", bls.POP: "p"}[mode]
	cfg := fmt.Sprintf("%s.%s", kc, mtag)
	keyGroup, sigGroup := scheme.KeySubGroup(), scheme.SignatureSubGroup()
	sf := algebra.StructureMustBeAs[algebra.PrimeField[S]](keyGroup.ScalarStructure())
	n := fieldOrder(sf)
	// Domain separation tags: the published ciphersuite identifiers (draft-irtf-cfrg-bls-signature §4.2) are
	// written out here, independently of the library's table; H(m) and H_pop(pk) in every line are computed
	// with these.  The tags the library reports are compared with the Lean-side table (`bls.dst`).
	grp := map[string]string{"bls12381g1": "G1", "bls12381g2": "G2"}[sc]
	pubDst := func(kind string) string {
		return "BLS_" + map[string]string{"b": "SIG", "a": "SIG", "p": "SIG", "pop": "POP"}[kind] + "_BLS12381" + grp +
			"_XMD:SHA-256_SSWU_RO_" + map[string]string{"b": "NUL", "a": "AUG", "p": "POP", "pop": "POP"}[kind] + "_"
	}
	dst, popDst := pubDst(mtag), pubDst("pop")
	{
		libDst, err := scheme.CipherSuite().GetDst(mode, variant)
		if err != nil {
			c.Violation(fmt.Sprintf("bls GetDst: %v", err))
			return
		}
		c.Emit(fmt.Sprintf("bls.dst %s %s", sc, mtag), hexBytes([]byte(libDst)))
		c.Emit(fmt.Sprintf("bls.dst %s pop", sc), hexBytes([]byte(scheme.CipherSuite().GetPopDst(variant))))
	}
	hashTo := func(d string, m []byte) SG {
		h, err := sigGroup.HashWithDst(d, m)
		if err != nil {
			panic(err)
		}
		return h
	}
	// message as hashed by signer/verifier for key pk
	hm := func(pk PK, m []byte) SG {
		if mode == bls.MessageAugmentation {
			return hashTo(dst, slices.Concat(pk.Bytes(), m))
		}
		return hashTo(dst, m)
	}
	mkPk := func(v PK) *pubKey { return &pubKey{PublicKeyTrait: signatures.PublicKeyTrait[PK, S]{V: v}} }
	newKey := func(skv S) *privKey {
		sk, err := bls.NewPrivateKey(keyGroup, skv)
		if err != nil {
			panic(err)
		}
		return sk
	}
	sign := func(sk *privKey, m []byte) *sigT {
		signer, err := scheme.Signer(sk)
		if err != nil {
			panic(err)
		}
		sg, err := signer.Sign(m)
		if err != nil {
			return nil
		}
		return sg
	}
	randMsg := func() []byte {
		m := make([]byte, 1+r.IntN(48))
		_, _ = r.Read(m)
		return m
	}

	// constructors admit exactly the non-identity subgroup points (once per key-size variant)
	newSGs := badSG[:1]
	if mode != bls.Basic && !c.Thorough() {
		newSGs = nil
	}
	for _, p := range newSGs {
		out := safely(func() string {
			if _, err := bls.NewSignature[SG, SGFE, PK, PKFE, E, S](p, nil); err != nil {
				return "err"
			}
			return "ok"
		})
		c.Emit(fmt.Sprintf("bls.new %s %s", sc, sgStr(p)), out)
		out = safely(func() string {
			if _, err := bls.NewProofOfPossession[SG, SGFE, PK, PKFE, E, S](p); err != nil {
				return "err"
			}
			return "ok"
		})
		c.Emit(fmt.Sprintf("bls.new %s %s", sc, sgStr(p)), out)
	}
	newPks := []PK{badPK[0], keyGroup.OpIdentity(), keyGroup.Generator()}
	if mode != bls.Basic && !c.Thorough() {
		newPks = nil
	}
	for _, p := range newPks {
		out := safely(func() string {
			if _, err := bls.NewPublicKey[PK, PKFE, SG, SGFE, E, S](p); err != nil {
				return "err"
			}
			return "ok"
		})
		c.Emit(fmt.Sprintf("bls.new %s %s", kc, pkStr(p)), out)
	}
	out := safely(func() string {
		if _, err := bls.NewSignature[SG, SGFE, PK, PKFE, E, S](sigGroup.OpIdentity(), nil); err != nil {
			return "err"
		}
		return "ok"
	})
	c.Emit(fmt.Sprintf("bls.new %s %s", sc, sgStr(sigGroup.OpIdentity())), out)

	// ---- single signatures
	keys := []S{sf.One(), sf.One().Neg(), scalarFromBig(sf, r.BigBelow(n)), scalarFromBig(sf, r.BigBelow(n))}
	long := make([]byte, 300+r.IntN(100))
	_, _ = r.Read(long)
	msgs := [][]byte{{0x61}, randMsg(), long}
	type km struct{ k, m int }
	cases := []km{{rot % len(keys), rot % len(msgs)}}
	if c.Thorough() {
		cases = nil
		for k := range keys {
			for m := range msgs {
				cases = append(cases, km{k, m})
			}
		}
	}
	verifier, err := scheme.Verifier()
	if err != nil {
		c.Violation(fmt.Sprintf("bls Verifier: %v", err))
		return
	}
	// the empty message is refused by signer and verifier alike (no signature is produced)
	{
		sk := newKey(keys[2])
		if sg := sign(sk, []byte{}); sg != nil {
			c.Count("bls.empty-message.signed")
			if err := verifier.Verify(sg, sk.PublicKey(), []byte{}); err != nil {
				c.Violation("bls: signature on the empty message does not verify")
			}
		} else {
			c.Count("bls.empty-message.refused")
		}
	}
	for _, cs := range cases {
		skv, msg := keys[cs.k], msgs[cs.m]
		sk := newKey(skv)
		pkv := sk.PublicKey().Value()
		sg := sign(sk, msg)
		if sg == nil {
			c.Violation(fmt.Sprintf("bls Sign failed %s sk=%s", cfg, scalarHex(skv)))
			continue
		}
		c.Count("bls.single." + cfg)
		try := func(tag string, skS string, Pk PK, sigV SG, pop *popT, m []byte, expect string) {
			res := safely(func() string {
				s2, err := bls.NewSignature(sigV, pop)
				if err != nil {
					return "reject"
				}
				return c15Verdict(verifier.Verify(s2, mkPk(Pk), m))
			})
			var lhs string
			h := hm(Pk, m)
			if mode == bls.POP && skS == "-" {
				skS = "0"
			}
			if mode == bls.POP {
				popS, hp := "-", "-"
				if pop != nil {
					popS, hp = sgStr(pop.Value()), sgStr(hashTo(popDst, Pk.Bytes()))
				}
				lhs = fmt.Sprintf("bls.aggverify %s %s p %s %s %s %s %s %s single-%s", kc, sc, skS, pkStr(Pk), sgStr(h), sgStr(sigV), hp, popS, tag)
			} else {
				lhs = fmt.Sprintf("bls.verify %s %s %s %s %s %s %s-%s", kc, sc, skS, pkStr(Pk), sgStr(h), sgStr(sigV), mtag, tag)
			}
			c.Emit(lhs, res)
			c.Count("bls.verify." + tag + "." + res)
			if res != expect {
				c.Violation(fmt.Sprintf("bls %s %s: expected %s, library says %s: %s", cfg, tag, expect, res, lhs))
			}
		}
		skS := scalarHex(skv)
		pop := sg.Pop()
		try("honest", skS, pkv, sg.Value(), pop, msg, "accept")
		other := newKey(scalarFromBig(sf, r.BigBelow(n)))

		// ---- adversarially constructed signatures / proofs (no call to Signer.Sign): σ = x•H_tag(bytes)
		{
			mkPop := func(v SG) *popT {
				p, err := bls.NewProofOfPossession[SG, SGFE, PK, PKFE, E, S](v)
				if err != nil {
					return pop
				}
				return p
			}
			augOf := func(pk PK, m []byte) []byte {
				if mode == bls.MessageAugmentation {
					return slices.Concat(pk.Bytes(), m)
				}
				return m
			}
			msg2 := append(slices.Clone(msg), 0x5a)
			otherDst := pubDst(map[string]string{"b": "p", "a": "b", "p": "a"}[mtag])
			ownSig := hashTo(dst, augOf(pkv, msg)).ScalarMul(skv)
			ownPop := hashTo(popDst, pkv.Bytes()).ScalarMul(skv)
			type cse struct {
				tag    string
				sig    SG
				pop    *popT
				expect string
			}
			all := []cse{
				{"own-sign", ownSig, mkPop(ownPop), "accept"},                                                      // the harness signs itself
				{"own-other-msg", hashTo(dst, augOf(pkv, msg2)).ScalarMul(skv), pop, "reject"},                      // valid for another message
				{"own-wrong-dst", hashTo(otherDst, augOf(pkv, msg)).ScalarMul(skv), pop, "reject"},                  // another scheme's tag
				{"own-pop-dst", hashTo(popDst, augOf(pkv, msg)).ScalarMul(skv), pop, "reject"},                      // the proof-of-possession tag
				{"own-other-key", hashTo(dst, augOf(pkv, msg)).ScalarMul(other.Value()), pop, "reject"},             // signed with a foreign secret
				{"own-scaled", ownSig.Add(ownSig), pop, "reject"},                                                   // 2σ
			}
			if mode == bls.MessageAugmentation {
				all = append(all,
					cse{"own-no-aug", hashTo(dst, msg).ScalarMul(skv), pop, "reject"},                                      // pk prefix missing
					cse{"own-aug-other-pk", hashTo(dst, slices.Concat(other.PublicKey().Value().Bytes(), msg)).ScalarMul(skv), pop, "reject"})
			}
			if mode == bls.POP {
				all = append(all,
					cse{"own-pop-sigdst", ownSig, mkPop(hashTo(dst, pkv.Bytes()).ScalarMul(skv)), "reject"},                // proof made with the signature tag
					cse{"own-pop-is-sig", ownSig, mkPop(ownSig), "reject"},                                                 // the signature presented as proof
					cse{"own-pop-other-pk", ownSig, mkPop(hashTo(popDst, other.PublicKey().Value().Bytes()).ScalarMul(skv)), "reject"},
					cse{"own-pop-other-key", ownSig, mkPop(hashTo(popDst, pkv.Bytes()).ScalarMul(other.Value())), "reject"})
			}
			for i, cs := range all {
				// quick: the self-signed one and a rotating third of the rest; thorough: all
				if !c.Thorough() && i != 0 && (i+rot+int(c.Seed))%3 != 0 {
					continue
				}
				try(cs.tag, skS, pkv, cs.sig, cs.pop, msg, cs.expect)
			}
		}
		if !c.Thorough() {
			// quick: honest + three alterations rotating with the seed (the complete set is run in thorough)
			switch (rot + int(c.Seed)) % 3 {
			case 0:
				try("alt-m", skS, pkv, sg.Value(), pop, append(slices.Clone(msg), 0), "reject")
				try("alt-pk-oos", "-", badPK[0], sg.Value(), pop, msg, "reject")
				try("alt-sig-neg", skS, pkv, sg.Value().Neg(), pop, msg, "reject")
			case 1:
				try("alt-sig-add", skS, pkv, sg.Value().Add(sigGroup.Generator()), pop, msg, "reject")
				try("alt-pk-foreign", scalarHex(other.Value()), other.PublicKey().Value(), sg.Value(), pop, msg, "reject")
				try("alt-sig-oos", skS, pkv, badSG[0], pop, msg, "reject")
			default:
				try("alt-pk-identity", "-", keyGroup.OpIdentity(), sg.Value(), pop, msg, "reject")
				try("alt-sig-identity", skS, pkv, sigGroup.OpIdentity(), pop, msg, "reject")
				try("alt-pk-neg", scalarHex(skv.Neg()), pkv.Neg(), sg.Value(), pop, msg, "reject")
			}
			continue
		}
		try("alt-m", skS, pkv, sg.Value(), pop, append(slices.Clone(msg), 0), "reject")
		try("alt-sig-add", skS, pkv, sg.Value().Add(sigGroup.Generator()), pop, msg, "reject")
		try("alt-sig-neg", skS, pkv, sg.Value().Neg(), pop, msg, "reject")
		try("alt-sig-oos", skS, pkv, badSG[0], pop, msg, "reject")
		try("alt-sig-identity", skS, pkv, sigGroup.OpIdentity(), pop, msg, "reject")
		try("alt-pk-foreign", scalarHex(other.Value()), other.PublicKey().Value(), sg.Value(), pop, msg, "reject")
		try("alt-pk-neg", scalarHex(skv.Neg()), pkv.Neg(), sg.Value(), pop, msg, "reject")
		try("alt-pk-oos", "-", badPK[0], sg.Value(), pop, msg, "reject")
		try("alt-pk-identity", "-", keyGroup.OpIdentity(), sg.Value(), pop, msg, "reject")
		if mode == bls.POP {
			osg := sign(other, msg)
			try("alt-pop-foreign", skS, pkv, sg.Value(), osg.Pop(), msg, "reject")
			try("alt-pop-missing", skS, pkv, sg.Value(), nil, msg, "reject")
		}
	}

	// ---- aggregates of 1..8 signers
	sizes := []int{1 + (rot*3+int(c.Seed))%8}
	if c.Thorough() {
		sizes = []int{1, 2, 3, 4, 5, 6, 7, 8}
	}
	for _, k := range sizes {
		for _, same := range []bool{false, true} {
			if !c.Thorough() && same != ((rot+int(c.Seed))%2 == 0 && mode != bls.Basic) {
				continue // quick: one message pattern per configuration
			}
			var sks []*privKey
			var pks []*pubKey
			var ms [][]byte
			var sigs []*sigT
			var pops []*popT
			common := randMsg()
			for i := 0; i < k; i++ {
				sk := newKey(scalarFromBig(sf, r.BigBelow(n)))
				m := common
				if !same {
					m = randMsg()
				}
				sg := sign(sk, m)
				if sg == nil {
					c.Violation("bls Sign failed in aggregate")
					return
				}
				sks, pks, ms, sigs = append(sks, sk), append(pks, sk.PublicKey()), append(ms, m), append(sigs, sg)
				pops = append(pops, sg.Pop())
			}
			foreign := newKey(scalarFromBig(sf, r.BigBelow(n)))
			fsig := sign(foreign, ms[0])
			c.Count(fmt.Sprintf("bls.agg.%s.k%d.same%v", cfg, k, same))

			tcount := 0
			aggOf := func(ss []*sigT, emit bool) (*sigT, string) {
				var a *sigT
				res := safely(func() string {
					x, err := bls.AggregateAll[PK](ss)
					if err != nil {
						return "err"
					}
					a = x
					return sgStr(x.Value())
				})
				vals := make([]string, len(ss))
				for i, s := range ss {
					vals[i] = sgStr(s.Value())
				}
				if emit || c.Thorough() {
					c.Emit(fmt.Sprintf("bls.aggregate %s %s", sc, joinComma(vals)), res)
				}
				return a, res
			}
			tryAgg := func(tag string, agg SG, skL []string, pkL []PK, mL [][]byte, popL []*popT, expect string) {
				// quick: the honest aggregate and a rotating quarter of the tamperings (all of them in thorough)
				tcount++
				if !c.Thorough() && tag != "honest" && tag != "foreign-pop" && !strings.HasPrefix(tag, "adv-") && (tcount+rot+int(c.Seed))%4 != 0 {
					return
				}
				res := safely(func() string {
					var vf *bls.Verifier[PK, PKFE, SG, SGFE, E, S]
					var err error
					if mode == bls.POP {
						vf, err = scheme.Verifier(bls.VerifyWithProofsOfPossession[PK](popL...))
					} else {
						vf, err = scheme.Verifier()
					}
					if err != nil {
						return "reject"
					}
					keys := make([]*pubKey, len(pkL))
					for i, p := range pkL {
						keys[i] = mkPk(p)
					}
					// the aggregate value is wrapped without re-validation, as AggregateAll does
					s2, err := bls.NewSignature[SG, SGFE, PK, PKFE, E, S](agg, nil)
					if err != nil {
						return "reject"
					}
					return c15Verdict(vf.AggregateVerify(s2, keys, mL))
				})
				pkS, hS, hpS, popS := make([]string, len(pkL)), make([]string, len(pkL)), []string{}, []string{}
				for i, p := range pkL {
					pkS[i] = pkStr(p)
					hS[i] = sgStr(hm(p, mL[i]))
				}
				if mode == bls.POP {
					for i, p := range popL {
						popS = append(popS, sgStr(p.Value()))
						if i < len(pkL) {
							hpS = append(hpS, sgStr(hashTo(popDst, pkL[i].Bytes())))
						}
					}
				}
				lhs := fmt.Sprintf("bls.aggverify %s %s %s %s %s %s %s %s %s agg%d-%s", kc, sc, mtag, joinComma(skL), joinComma(pkS), joinComma(hS), sgStr(agg), joinComma(hpS), joinComma(popS), k, tag)
				c.Emit(lhs, res)
				c.Count("bls.aggverify." + tag + "." + res)
				if expect != "" && res != expect {
					c.Violation(fmt.Sprintf("bls %s %s: expected %s, library says %s: %s", cfg, tag, expect, res, lhs))
				}
			}
			skL := make([]string, k)
			pkL := make([]PK, k)
			for i := range sks {
				skL[i], pkL[i] = scalarHex(sks[i].Value()), pks[i].Value()
			}
			agg, _ := aggOf(sigs, true)
			if agg == nil {
				c.Violation("bls AggregateAll failed on honest signatures")
				continue
			}
			honestExpect := "accept"
			if same && mode == bls.Basic && k > 1 {
				honestExpect = "reject" // basic mode demands pairwise distinct messages
			}
			tryAgg("honest", agg.Value(), skL, pkL, ms, pops, honestExpect)
			if honestExpect == "reject" {
				continue
			}
			j := r.IntN(k)
			// missing contributor: σ lacks σ_j although pk_j is listed
			if k > 1 {
				rest := slices.Delete(slices.Clone(sigs), j, j+1)
				if a, _ := aggOf(rest, false); a != nil {
					tryAgg("missing", a.Value(), skL, pkL, ms, pops, "reject")
				}
			} else {
				tryAgg("missing", fsig.Value(), skL, pkL, ms, pops, "reject")
			}
			// foreign contributor: an unlisted signer's signature is added / replaces σ_j
			tryAgg("foreign-added", agg.Value().Add(fsig.Value()), skL, pkL, ms, pops, "reject")
			repl := slices.Clone(sigs)
			repl[j] = sign(foreign, ms[j])
			if a, _ := aggOf(repl, false); a != nil {
				tryAgg("foreign-replaced", a.Value(), skL, pkL, ms, pops, "reject")
			}
			// identity contributor (public key) and identity aggregate
			idPk := slices.Clone(pkL)
			idPk[j] = keyGroup.OpIdentity()
			idSk := slices.Clone(skL)
			idSk[j] = "0"
			tryAgg("identity-pk", agg.Value(), idSk, idPk, ms, pops, "reject")
			tryAgg("identity-sig", sigGroup.OpIdentity(), skL, pkL, ms, pops, "reject")
			// out-of-subgroup contributor
			oosPk := slices.Clone(pkL)
			oosPk[j] = badPK[1%len(badPK)]
			tryAgg("oos-pk", agg.Value(), idSk, oosPk, ms, pops, "reject")
			tryAgg("oos-sig", agg.Value().Add(badSG[1%len(badSG)]), skL, pkL, ms, pops, "reject")
			// altered message of one signer
			am := slices.Clone(ms)
			am[j] = append(slices.Clone(ms[j]), 1)
			tryAgg("alt-m", agg.Value(), skL, pkL, am, pops, "reject")
			if mode == bls.POP {
				fp := slices.Clone(pops)
				fp[j] = fsig.Pop()
				tryAgg("foreign-pop", agg.Value(), skL, pkL, ms, fp, "reject")
				if k > 1 {
					tryAgg("missing-pop", agg.Value(), skL, pkL, ms, pops[:k-1], "reject")
				}
			}
		}
	}
	// ---- adversarially constructed aggregates (harness-side signing σᵢ = skᵢ•H(mᵢ); k fixed to 2 signers)
	{
		k := 2
		_ = k
		advVerify := func(tag string, agg SG, skL []S, mL [][]byte, popL []*popT, expect string) {
			pkL := make([]PK, len(skL))
			skS := make([]string, len(skL))
			for i, x := range skL {
				pkL[i] = keyGroup.Generator().ScalarMul(x)
				skS[i] = scalarHex(x)
			}
			res := safely(func() string {
				var vf *bls.Verifier[PK, PKFE, SG, SGFE, E, S]
				var err error
				if mode == bls.POP {
					vf, err = scheme.Verifier(bls.VerifyWithProofsOfPossession[PK](popL...))
				} else {
					vf, err = scheme.Verifier()
				}
				if err != nil {
					return "reject"
				}
				keys := make([]*pubKey, len(pkL))
				for i, p := range pkL {
					keys[i] = mkPk(p)
				}
				s2, err := bls.NewSignature[SG, SGFE, PK, PKFE, E, S](agg, nil)
				if err != nil {
					return "reject"
				}
				return c15Verdict(vf.AggregateVerify(s2, keys, mL))
			})
			pkS, hS, hpS, popS := make([]string, len(pkL)), make([]string, len(pkL)), []string{}, []string{}
			for i, p := range pkL {
				pkS[i] = pkStr(p)
				hS[i] = sgStr(hm(p, mL[i]))
			}
			if mode == bls.POP {
				for i, p := range popL {
					popS = append(popS, sgStr(p.Value()))
					if i < len(pkL) {
						hpS = append(hpS, sgStr(hashTo(popDst, pkL[i].Bytes())))
					}
				}
			}
			lhs := fmt.Sprintf("bls.aggverify %s %s %s %s %s %s %s %s %s adv-%s", kc, sc, mtag, joinComma(skS), joinComma(pkS), joinComma(hS), sgStr(agg), joinComma(hpS), joinComma(popS), tag)
			c.Emit(lhs, res)
			c.Count("bls.aggverify.adv-" + tag + "." + res)
			if res != expect {
				c.Violation(fmt.Sprintf("bls %s adv-%s: expected %s, library says %s: %s", cfg, tag, expect, res, lhs))
			}
		}
		ownPop := func(x S) *popT {
			pk := keyGroup.Generator().ScalarMul(x)
			p, err := bls.NewProofOfPossession[SG, SGFE, PK, PKFE, E, S](hashTo(popDst, pk.Bytes()).ScalarMul(x))
			if err != nil {
				panic(err)
			}
			return p
		}
		ownSig := func(x S, m []byte) SG { return hm(keyGroup.Generator().ScalarMul(x), m).ScalarMul(x) }
		nz := func() S {
			return scalarFromBig(sf, new(big.Int).Add(r.BigBelow(new(big.Int).Sub(n, big.NewInt(1))), big.NewInt(1)))
		}
		a, x := nz(), nz()
		m1, m2 := randMsg(), randMsg()
		sel := (rot + int(c.Seed)) % 2
		// (a) the same signer listed twice: honest aggregate of two of its signatures
		if c.Thorough() || sel == 0 {
			// distinct messages: valid in every mode
			advVerify("dup-signer", ownSig(a, m1).Add(ownSig(a, m2)), []S{a, a}, [][]byte{m1, m2}, []*popT{ownPop(a), ownPop(a)}, "accept")
			// the same message twice: refused by the basic scheme (messages must be distinct), valid otherwise
			exp := "accept"
			if mode == bls.Basic {
				exp = "reject"
			}
			advVerify("dup-signer-msg", ownSig(a, m1).Add(ownSig(a, m1)), []S{a, a}, [][]byte{m1, m1}, []*popT{ownPop(a), ownPop(a)}, exp)
			// ... but a single contribution for the duplicated entry is a missing contributor
			advVerify("dup-signer-single", ownSig(a, m1), []S{a, a}, [][]byte{m1, m1}, []*popT{ownPop(a), ownPop(a)}, "reject")
		}
		// (b) rogue key: pk₂ = x•g − pk₁ (discrete log x − a, unknown to a real attacker) and σ = x•H(m), which
		// satisfies e(pk₁+pk₂, H(m)) = e(g, σ).  Every mode must refuse it: basic by message distinctness,
		// augmentation because H(pk₁‖m) ≠ H(pk₂‖m), proof of possession because no valid proof for pk₂
		// can be presented (the attacker offers x•H_pop(pk₂) and pk₁'s proof).
		if c.Thorough() || sel == 1 {
			b := x.Sub(a)
			if !b.IsZero() {
				pk2 := keyGroup.Generator().ScalarMul(b)
				rogue := hashTo(dst, m1).ScalarMul(x)
				fake, err := bls.NewProofOfPossession[SG, SGFE, PK, PKFE, E, S](hashTo(popDst, pk2.Bytes()).ScalarMul(x))
				if err == nil {
					advVerify("rogue-key", rogue, []S{a, b}, [][]byte{m1, m1}, []*popT{ownPop(a), fake}, "reject")
					if mode == bls.POP {
						advVerify("rogue-key-pop1", rogue, []S{a, b}, [][]byte{m1, m1}, []*popT{ownPop(a), ownPop(a)}, "reject")
					}
				}
			}
		}
	}
	// degenerate honest aggregate: keys sk and -sk on one message cancel to the identity (POP mode lets
	// signers share a message); the specification rejects the identity signature.
	if mode == bls.POP {
		skv := scalarFromBig(sf, r.BigBelow(n))
		a, b := newKey(skv), newKey(skv.Neg())
		m := randMsg()
		sa, sb := sign(a, m), sign(b, m)
		res := safely(func() string {
			agg, err := bls.AggregateAll[PK]([]*sigT{sa, sb})
			if err != nil {
				return "reject"
			}
			vf, err := scheme.Verifier(bls.VerifyWithProofsOfPossession[PK](sa.Pop(), sb.Pop()))
			if err != nil {
				return "reject"
			}
			return c15Verdict(vf.AggregateVerify(agg, []*pubKey{a.PublicKey(), b.PublicKey()}, [][]byte{m, m}))
		})
		h := sgStr(hashTo(dst, m))
		c.Emit(fmt.Sprintf("bls.aggverify %s %s p %s,%s %s,%s %s,%s inf %s,%s %s,%s cancel", kc, sc,
			scalarHex(skv), scalarHex(skv.Neg()), pkStr(a.PublicKey().Value()), pkStr(b.PublicKey().Value()), h, h,
			sgStr(hashTo(popDst, a.PublicKey().Value().Bytes())), sgStr(hashTo(popDst, b.PublicKey().Value().Bytes())),
			sgStr(sa.Pop().Value()), sgStr(sb.Pop().Value())), res)
	}
	// AggregateSign / BatchSign of one key over several messages
	{
		sk := newKey(scalarFromBig(sf, r.BigBelow(n)))
		signer, _ := scheme.Signer(sk)
		ms := [][]byte{randMsg(), randMsg(), randMsg()}
		batch, err := signer.BatchSign(ms...)
		if err != nil || len(batch) != len(ms) {
			c.Violation(fmt.Sprintf("bls BatchSign failed: %v", err))
		} else {
			for i, sg := range batch {
				res := safely(func() string { return c15Verdict(verifier.Verify(sg, sk.PublicKey(), ms[i])) })
				c.Count("bls.batch." + res)
				if res != "accept" {
					c.Violation(fmt.Sprintf("bls %s: BatchSign signature %d does not verify", cfg, i))
				}
				if mode != bls.POP {
					c.Emit(fmt.Sprintf("bls.verify %s %s %s %s %s %s %s-batch", kc, sc, scalarHex(sk.Value()), pkStr(sk.PublicKey().Value()), sgStr(hm(sk.PublicKey().Value(), ms[i])), sgStr(sg.Value()), mtag), res)
				}
			}
		}
	}
}
