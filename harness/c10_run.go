package main

// Round-by-round driver of session.Participant for C10 with a message-interception hook.
// All outgoing messages of the session-setup protocol are functions of the parties' PRNGs only
// (no message depends on a received one), so one honest run fixes every message of the session and a
// fault is completely described by (message kind, field, sender, recipient, new value).

import (
	"fmt"
	"io"
	"slices"
	"sort"
	"strings"

	"github.com/bronlabs/bron-crypto/pkg/base"
	"github.com/bronlabs/bron-crypto/pkg/base/datastructures/hashmap"
	"github.com/bronlabs/bron-crypto/pkg/base/datastructures/hashset"
	"github.com/bronlabs/bron-crypto/pkg/commitments/hashcom"
	"github.com/bronlabs/bron-crypto/pkg/mpc/session"
	"github.com/bronlabs/bron-crypto/pkg/mpc/sharing"
	"github.com/bronlabs/bron-crypto/pkg/network"
)

// message kinds
const (
	c10R1B = "r1b" // Round1Broadcast  {ck, com}
	c10R2B = "r2b" // Round2Broadcast  {msg, wit}
	c10R2U = "r2u" // Round2P2P        {com}
	c10R3U = "r3u" // Round3P2P        {msg, wit}
)

// c10Hook sees a private copy of every message on its way from `from` to `to` and returns what is
// delivered (nil: the message is dropped).
type c10Hook func(kind string, from, to sharing.ID, msg any) any

type c10Session struct {
	ids    []sharing.ID // as given (unsorted)
	sorted []sharing.ID
	r1b    map[sharing.ID]*session.Round1Broadcast
	r2b    map[sharing.ID]*session.Round2Broadcast
	r2u    map[sharing.ID]map[sharing.ID]*session.Round2P2P // from -> to
	r3u    map[sharing.ID]map[sharing.ID]*session.Round3P2P
	ctxs   map[sharing.ID]*session.Context
	// outcome of the last round a party executed: "ok", "abort-blame:<ids>", "err:unblamed", "panic:…"
	outcome   map[sharing.ID]string
	stopRound int // round in which the run ended (4 = everybody reached the end of Round4)
}

func c10Quorum(ids []sharing.ID) network.Quorum { return hashset.NewComparable(ids...).Freeze() }

func c10ErrClass(err error) string {
	if err == nil {
		return "ok"
	}
	blamed := base.GetMaliciousIdentities[sharing.ID](err)
	if len(blamed) == 0 {
		return "err:unblamed"
	}
	slices.Sort(blamed)
	blamed = slices.Compact(blamed)
	out := make([]string, len(blamed))
	for i, b := range blamed {
		out[i] = fmt.Sprintf("%x", uint64(b))
	}
	return "abort-blame:" + strings.Join(out, "+")
}

func c10Protect(fn func() error) (res string) {
	defer func() {
		if e := recover(); e != nil {
			res = strings.NewReplacer(" ", "_", "\n", "_").Replace(fmt.Sprintf("panic:%v", e))
		}
	}()
	return c10ErrClass(fn())
}

func c10CopyR1B(m *session.Round1Broadcast) *session.Round1Broadcast {
	ck := *m.Ck
	return &session.Round1Broadcast{CommonCommitment: m.CommonCommitment, Ck: &ck}
}

// c10Run executes the four rounds for all parties; party k (position in ids) draws from
// NewRng(seed, stream+k).  It stops after the first round in which some party did not succeed.
func c10Run(ids []sharing.ID, seed int64, stream uint64, hook c10Hook) (*c10Session, error) {
	s := &c10Session{
		ids:     slices.Clone(ids),
		sorted:  slices.Clone(ids),
		r1b:     map[sharing.ID]*session.Round1Broadcast{},
		r2b:     map[sharing.ID]*session.Round2Broadcast{},
		r2u:     map[sharing.ID]map[sharing.ID]*session.Round2P2P{},
		r3u:     map[sharing.ID]map[sharing.ID]*session.Round3P2P{},
		ctxs:    map[sharing.ID]*session.Context{},
		outcome: map[sharing.ID]string{},
	}
	slices.Sort(s.sorted)
	quorum := c10Quorum(ids)
	parties := map[sharing.ID]*session.Participant{}
	for k, id := range ids {
		p, err := session.NewParticipant(id, quorum, NewRng(seed, stream+uint64(k)))
		if err != nil {
			return nil, err
		}
		parties[id] = p
	}
	deliver := func(kind string, from, to sharing.ID, msg any) any {
		if hook == nil {
			return msg
		}
		return hook(kind, from, to, msg)
	}
	failed := func() bool {
		for _, id := range s.sorted {
			if s.outcome[id] != "ok" {
				return true
			}
		}
		return false
	}

	// round 1
	s.stopRound = 1
	for _, id := range s.sorted {
		s.outcome[id] = c10Protect(func() error {
			m, err := parties[id].Round1()
			s.r1b[id] = m
			return err
		})
	}
	if failed() {
		return s, nil
	}

	// round 2
	s.stopRound = 2
	for _, to := range s.sorted {
		in := hashmap.NewComparable[sharing.ID, *session.Round1Broadcast]()
		for _, from := range s.sorted {
			if from == to {
				continue
			}
			if m := deliver(c10R1B, from, to, c10CopyR1B(s.r1b[from])); m != nil {
				in.Put(from, m.(*session.Round1Broadcast))
			}
		}
		s.outcome[to] = c10Protect(func() error {
			b, u, err := parties[to].Round2(in.Freeze())
			if err != nil {
				return err
			}
			s.r2b[to] = b
			s.r2u[to] = map[sharing.ID]*session.Round2P2P{}
			for k, v := range u.Iter() {
				s.r2u[to][k] = v
			}
			return nil
		})
	}
	if failed() {
		return s, nil
	}

	// round 3
	s.stopRound = 3
	for _, to := range s.sorted {
		inB := hashmap.NewComparable[sharing.ID, *session.Round2Broadcast]()
		inU := hashmap.NewComparable[sharing.ID, *session.Round2P2P]()
		for _, from := range s.sorted {
			if from == to {
				continue
			}
			cb := *s.r2b[from]
			if m := deliver(c10R2B, from, to, &cb); m != nil {
				inB.Put(from, m.(*session.Round2Broadcast))
			}
			if orig, ok := s.r2u[from][to]; ok {
				cu := *orig
				if m := deliver(c10R2U, from, to, &cu); m != nil {
					inU.Put(from, m.(*session.Round2P2P))
				}
			}
		}
		s.outcome[to] = c10Protect(func() error {
			u, err := parties[to].Round3(inB.Freeze(), inU.Freeze())
			if err != nil {
				return err
			}
			s.r3u[to] = map[sharing.ID]*session.Round3P2P{}
			for k, v := range u.Iter() {
				s.r3u[to][k] = v
			}
			return nil
		})
	}
	if failed() {
		return s, nil
	}

	// round 4
	s.stopRound = 4
	for _, to := range s.sorted {
		inU := hashmap.NewComparable[sharing.ID, *session.Round3P2P]()
		for _, from := range s.sorted {
			if from == to {
				continue
			}
			if orig, ok := s.r3u[from][to]; ok {
				cu := *orig
				if m := deliver(c10R3U, from, to, &cu); m != nil {
					inU.Put(from, m.(*session.Round3P2P))
				}
			}
		}
		s.outcome[to] = c10Protect(func() error {
			ctx, err := parties[to].Round4(inU.Freeze())
			if err != nil {
				return err
			}
			s.ctxs[to] = ctx
			return nil
		})
	}
	return s, nil
}

// c10Tamper replaces one field of one message kind from From to To (To == 0: to every recipient).
// Field "drop" removes the message.
type c10Tamper struct {
	Kind, Field string
	From, To    sharing.ID
	Value       [32]byte
}

func (t c10Tamper) String() string {
	to := "*"
	if t.To != 0 {
		to = fmt.Sprintf("%x", uint64(t.To))
	}
	v := "-"
	if t.Field != "drop" {
		v = hexBytes(t.Value[:])
	}
	return fmt.Sprintf("%s;%s;%x;%s;%s", t.Kind, t.Field, uint64(t.From), to, v)
}

func c10TamperHook(ts []c10Tamper) c10Hook {
	return func(kind string, from, to sharing.ID, msg any) any {
		for _, t := range ts {
			if t.Kind != kind || t.From != from || (t.To != 0 && t.To != to) {
				continue
			}
			if t.Field == "drop" {
				return nil
			}
			switch m := msg.(type) {
			case *session.Round1Broadcast:
				switch t.Field {
				case "ck":
					ck := hashcom.CommitmentKey(t.Value)
					m.Ck = &ck
				case "com":
					m.CommonCommitment = hashcom.Commitment(t.Value)
				}
			case *session.Round2Broadcast:
				switch t.Field {
				case "msg":
					m.CommonContribution = t.Value
				case "wit":
					m.CommonContributionWitness = hashcom.Witness(t.Value)
				}
			case *session.Round2P2P:
				if t.Field == "com" {
					m.PairwiseContributionCommitment = hashcom.Commitment(t.Value)
				}
			case *session.Round3P2P:
				switch t.Field {
				case "msg":
					m.PairwiseContribution = t.Value
				case "wit":
					m.PairwiseContributionWitness = hashcom.Witness(t.Value)
				}
			}
		}
		return msg
	}
}

// c10Desc renders every message of the (honest) session:
// <ids> <r1b: id;ck;com,…> <r2b: id;msg;wit,…> <r2u: from;to;com,…> <r3u: from;to;msg;wit,…>
func (s *c10Session) c10Desc() string {
	idh := func(id sharing.ID) string { return fmt.Sprintf("%x", uint64(id)) }
	ids := make([]string, len(s.ids))
	for i, id := range s.ids {
		ids[i] = idh(id)
	}
	var r1, r2, u2, u3 []string
	for _, id := range s.sorted {
		if m := s.r1b[id]; m != nil {
			r1 = append(r1, idh(id)+";"+hexBytes(m.Ck[:])+";"+hexBytes(m.CommonCommitment[:]))
		}
		if m := s.r2b[id]; m != nil {
			r2 = append(r2, idh(id)+";"+hexBytes(m.CommonContribution[:])+";"+hexBytes(m.CommonContributionWitness[:]))
		}
	}
	for _, from := range s.sorted {
		for _, to := range s.sorted {
			if m, ok := s.r2u[from][to]; ok {
				u2 = append(u2, idh(from)+";"+idh(to)+";"+hexBytes(m.PairwiseContributionCommitment[:]))
			}
			if m, ok := s.r3u[from][to]; ok {
				u3 = append(u3, idh(from)+";"+idh(to)+";"+hexBytes(m.PairwiseContribution[:])+";"+hexBytes(m.PairwiseContributionWitness[:]))
			}
		}
	}
	return joinComma(ids) + " " + joinComma(r1) + " " + joinComma(r2) + " " + joinComma(u2) + " " + joinComma(u3)
}

// c10Outcomes renders "<stopRound>|id=outcome&id=outcome…" in sorted-ID order.
func (s *c10Session) c10Outcomes() string {
	parts := make([]string, len(s.sorted))
	for i, id := range s.sorted {
		parts[i] = fmt.Sprintf("%x=%s", uint64(id), s.outcome[id])
	}
	return fmt.Sprintf("%d|%s", s.stopRound, strings.Join(parts, "&"))
}

// c10CtxOut renders what one context exposes: "id;sid;extract;peer=seed&peer=seed"
// (extract: prm.extLen bytes under prm.extLabel from a clone of the transcript, after appending
// (prm.appLabel, prm.appMsg) to the clone if set; seed: the first prm.seedLen bytes read from each
// pairwise seed reader, in two Read calls).
func c10CtxOut(ctx *session.Context, prm c10Params) string {
	id := ctx.HolderID()
	sid := ctx.SessionID()
	tape := ctx.Transcript().Clone()
	if prm.appLabel != nil {
		tape.AppendBytes(string(prm.appLabel), prm.appMsg)
	}
	ext, err := tape.ExtractBytes(string(prm.extLabel), uint(prm.extLen))
	if err != nil {
		ext = nil
	}
	seeds := ctx.Seeds()
	peers := make([]sharing.ID, 0, len(seeds))
	for k := range seeds {
		peers = append(peers, k)
	}
	sort.Slice(peers, func(a, b int) bool { return peers[a] < peers[b] })
	ps := make([]string, len(peers))
	for i, k := range peers {
		buf := make([]byte, prm.seedLen)
		if _, err := io.ReadFull(seeds[k], buf[:prm.seedSplit]); err != nil {
			buf = nil
		} else if _, err := io.ReadFull(seeds[k], buf[prm.seedSplit:]); err != nil {
			buf = nil
		}
		ps[i] = fmt.Sprintf("%x=%s", uint64(k), hexBytes(buf))
	}
	m := "-"
	if len(ps) > 0 {
		m = strings.Join(ps, "&")
	}
	return fmt.Sprintf("%x;%s;%s;%s", uint64(id), hexBytes(sid[:]), hexBytes(ext), m)
}
