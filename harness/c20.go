package main

import (
	"fmt"

	"github.com/bronlabs/bron-crypto/pkg/base/algebra"
	"github.com/bronlabs/bron-crypto/pkg/base/mat"
)

func init() { register("C20", runC20) }

func runC20(c *Ctx) {
	n := 220
	if c.Thorough() {
		n = 4000
	}
	c20Field(c, fK256, n, 1)
	c20Field(c, fEd25519, n/2, 2)
	c20Field(c, fBLS, n/2, 3)
	if c.Thorough() {
		c20Field(c, fP256, n/2, 4)
		c20Field(c, fPallas, n/2, 5)
	}
	c20Poly(c)
}

func matHex[S algebra.PrimeFieldElement[S]](rows [][]S) string {
	var flat []S
	for _, r := range rows {
		flat = append(flat, r...)
	}
	return scalarsHex(flat)
}

func genRows[S algebra.PrimeFieldElement[S]](r *Rng, f algebra.PrimeField[S], m, n int) [][]S {
	pSmall := []int{95, 80, 50, 0}[r.IntN(4)]
	rows := make([][]S, m)
	for i := range rows {
		rows[i] = make([]S, n)
		for j := range rows[i] {
			rows[i][j] = smallOrRandom(r, f, pSmall)
		}
	}
	// permutation-structured matrices (a permuted diagonal plus sparse noise below the pivots):
	// elimination then needs several row swaps (zero pivots), so sign/parity handling of the
	// determinant and pivot bookkeeping of the solvers are exercised
	if r.IntN(4) == 0 {
		k := min(m, n)
		perm := r.Perm(k)
		for i := range rows {
			for j := range rows[i] {
				rows[i][j] = f.Zero()
			}
		}
		for i := 0; i < k; i++ {
			rows[i][perm[i]] = smallOrRandom(r, f, 30)
			if rows[i][perm[i]].IsZero() && r.IntN(4) != 0 {
				rows[i][perm[i]] = f.One()
			}
		}
		for e := r.IntN(3); e > 0; e-- {
			rows[r.IntN(m)][r.IntN(n)] = smallOrRandom(r, f, 50)
		}
		return rows
	}
	// frequently make a row a combination of others so that rank deficiency is common
	if m >= 2 && r.IntN(3) == 0 {
		i, k := r.IntN(m), r.IntN(m)
		if i != k {
			a := smallOrRandom(r, f, 60)
			for j := range n {
				rows[i][j] = rows[k][j].Mul(a)
			}
		}
	}
	return rows
}

func c20Field[S algebra.PrimeFieldElement[S]](c *Ctx, f algebra.PrimeField[S], count int, stream uint64) {
	r := NewRng(c.Seed, 2000+stream)
	p := hexNat(fieldOrder(f))
	for it := 0; it < count; it++ {
		m, n := 1+r.IntN(6), 1+r.IntN(6)
		if c.Thorough() && r.IntN(10) == 0 {
			m, n = 1+r.IntN(12), 1+r.IntN(12)
		}
		rows := genRows(r, f, m, n)
		mod, err := mat.NewMatrixModule(uint(m), uint(n), f)
		if err != nil {
			c.Violation(fmt.Sprintf("NewMatrixModule(%d,%d): %v", m, n, err))
			continue
		}
		M, err := mod.New(rows)
		if err != nil {
			c.Violation(fmt.Sprintf("MatrixModule.New: %v", err))
			continue
		}
		switch r.IntN(5) {
		case 0, 1: // SolveRight: b either in the column span (x chosen) or arbitrary
			b := make([]S, m)
			inSpan := r.IntN(2) == 0
			if inSpan {
				x := make([]S, n)
				for j := range x {
					x[j] = smallOrRandom(r, f, 50)
				}
				for i := range m {
					acc := f.Zero()
					for j := range n {
						acc = acc.Add(rows[i][j].Mul(x[j]))
					}
					b[i] = acc
				}
			} else {
				for i := range b {
					b[i] = smallOrRandom(r, f, 80)
				}
			}
			colMod, _ := mat.NewMatrixModule(uint(m), 1, f)
			B, err := colMod.NewRowMajor(b...)
			if err != nil {
				c.Violation(fmt.Sprintf("NewRowMajor: %v", err))
				continue
			}
			res := safely(func() string {
				x, err := mat.SolveRight(M, B)
				if err != nil {
					c.Count("solveRight.none")
					return "none"
				}
				c.Count("solveRight.ok")
				xs := make([]S, n)
				for j := range n {
					xs[j], _ = x.Get(j, 0)
				}
				return "ok:" + scalarsHex(xs)
			})
			if inSpan && res == "none" {
				c.Violation(fmt.Sprintf("SolveRight reported no solution for b=A*x p=%s %dx%d M=%s b=%s", p, m, n, matHex(rows), scalarsHex(b)))
			}
			c.Emit(fmt.Sprintf("solveRight %s %d %d %s %s", p, m, n, matHex(rows), scalarsHex(b)), res)
		case 2: // SolveLeft
			b := make([]S, n)
			inSpan := r.IntN(2) == 0
			if inSpan {
				x := make([]S, m)
				for i := range x {
					x[i] = smallOrRandom(r, f, 50)
				}
				for j := range n {
					acc := f.Zero()
					for i := range m {
						acc = acc.Add(x[i].Mul(rows[i][j]))
					}
					b[j] = acc
				}
			} else {
				for j := range b {
					b[j] = smallOrRandom(r, f, 80)
				}
			}
			rowMod, _ := mat.NewMatrixModule(1, uint(n), f)
			B, err := rowMod.NewRowMajor(b...)
			if err != nil {
				c.Violation(fmt.Sprintf("NewRowMajor: %v", err))
				continue
			}
			res := safely(func() string {
				x, err := mat.SolveLeft(M, B)
				if err != nil {
					c.Count("solveLeft.none")
					return "none"
				}
				c.Count("solveLeft.ok")
				xs := make([]S, m)
				for i := range m {
					xs[i], _ = x.Get(i, 0)
				}
				return "ok:" + scalarsHex(xs)
			})
			if inSpan && res == "none" {
				c.Violation(fmt.Sprintf("SolveLeft reported no solution for b=x*A p=%s %dx%d M=%s b=%s", p, m, n, matHex(rows), scalarsHex(b)))
			}
			c.Emit(fmt.Sprintf("solveLeft %s %d %d %s %s", p, m, n, matHex(rows), scalarsHex(b)), res)
		case 3: // Determinant and inverse of the square part
			k := min(m, n)
			sq := make([][]S, k)
			for i := range sq {
				sq[i] = rows[i][:k]
			}
			alg, err := mat.NewMatrixAlgebra(uint(k), f)
			if err != nil {
				c.Violation(fmt.Sprintf("NewMatrixAlgebra: %v", err))
				continue
			}
			A, err := alg.New(sq)
			if err != nil {
				c.Violation(fmt.Sprintf("MatrixAlgebra.New: %v", err))
				continue
			}
			det := safely(func() string { return scalarHex(A.Determinant()) })
			if det == "0" {
				c.Count("det.zero")
			} else {
				c.Count("det.nonzero")
			}
			c.Emit(fmt.Sprintf("det %s %d %s", p, k, matHex(sq)), det)
			inv := safely(func() string {
				ai, err := A.TryInv()
				if err != nil {
					return "none"
				}
				out := make([]S, 0, k*k)
				for i := range k {
					for j := range k {
						e, _ := ai.Get(i, j)
						out = append(out, e)
					}
				}
				if !A.Mul(ai).IsIdentity() {
					c.Violation(fmt.Sprintf("TryInv: A*inv(A) != I p=%s n=%d M=%s", p, k, matHex(sq)))
				}
				return "ok:" + scalarsHex(out)
			})
			c.Emit(fmt.Sprintf("inv %s %d %s", p, k, matHex(sq)), inv)
		case 4: // TryMul
			k := 1 + r.IntN(5)
			rows2 := genRows(r, f, n, k)
			mod2, _ := mat.NewMatrixModule(uint(n), uint(k), f)
			B, err := mod2.New(rows2)
			if err != nil {
				c.Violation(fmt.Sprintf("MatrixModule.New: %v", err))
				continue
			}
			res := safely(func() string {
				pr, err := M.TryMul(B)
				if err != nil {
					return "err"
				}
				out := make([]S, 0, m*k)
				for i := range m {
					for j := range k {
						e, _ := pr.Get(i, j)
						out = append(out, e)
					}
				}
				return scalarsHex(out)
			})
			c.Count("mul")
			c.Emit(fmt.Sprintf("mul %s %d %d %d %s %s", p, m, n, k, matHex(rows), matHex(rows2)), res)
		}
	}
}

