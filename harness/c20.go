package main

import (
	"fmt"

	"github.com/bronlabs/bron-crypto/pkg/base/algebra"
	"github.com/bronlabs/bron-crypto/pkg/base/mat"
)

func init() { register("C20", runC20) }

func runC20(c *Ctx) {
	n := 220
	if c.Thorough() {
		n = 4000
	}
	c20ShapeSweep(c, fK256, 6, 1)
	if c.Thorough() {
		c20ShapeSweep(c, fEd25519, 8, 2)
		c20ShapeSweep(c, fBLS, 6, 3)
	}
	c20Field(c, fK256, n, 1)
	c20Field(c, fEd25519, n/2, 2)
	c20Field(c, fBLS, n/2, 3)
	if c.Thorough() {
		c20Field(c, fP256, n/2, 4)
		c20Field(c, fPallas, n/2, 5)
	}
	c20Poly(c)
}

func matHex[S algebra.PrimeFieldElement[S]](rows [][]S) string {
	var flat []S
	for _, r := range rows {
		flat = append(flat, r...)
	}
	return scalarsHex(flat)
}

func genRows[S algebra.PrimeFieldElement[S]](r *Rng, f algebra.PrimeField[S], m, n int) [][]S {
	pSmall := []int{95, 80, 50, 0}[r.IntN(4)]
	rows := make([][]S, m)
	for i := range rows {
		rows[i] = make([]S, n)
		for j := range rows[i] {
			rows[i][j] = smallOrRandom(r, f, pSmall)
		}
	}
	// permutation-structured matrices (a permuted diagonal plus sparse noise below the pivots):
	// elimination then needs several row swaps (zero pivots), so sign/parity handling of the
	// determinant and pivot bookkeeping of the solvers are exercised
	if r.IntN(4) == 0 {
		k := min(m, n)
		perm := r.Perm(k)
		for i := range rows {
			for j := range rows[i] {
				rows[i][j] = f.Zero()
			}
		}
		for i := 0; i < k; i++ {
			rows[i][perm[i]] = smallOrRandom(r, f, 30)
			if rows[i][perm[i]].IsZero() && r.IntN(4) != 0 {
				rows[i][perm[i]] = f.One()
			}
		}
		for e := r.IntN(3); e > 0; e-- {
			rows[r.IntN(m)][r.IntN(n)] = smallOrRandom(r, f, 50)
		}
		return rows
	}
	// frequently make a row a combination of others so that rank deficiency is common
	if m >= 2 && r.IntN(3) == 0 {
		i, k := r.IntN(m), r.IntN(m)
		if i != k {
			a := smallOrRandom(r, f, 60)
			for j := range n {
				rows[i][j] = rows[k][j].Mul(a)
			}
		}
	}
	return rows
}

// c20Shape counts the shape class of a system (evidence: how often each class was exercised).
func c20Shape(c *Ctx, op string, m, n int, res string) {
	class := "square"
	if m > n {
		class = "overdetermined"
	} else if m < n {
		class = "underdetermined"
	}
	out := "ok"
	if res == "none" {
		out = "none"
	} else if len(res) < 3 || res[:3] != "ok:" {
		out = "other"
	}
	c.Count(op + "." + class + "." + out)
}

// c20EmitSolveRight: one SolveRight line (b in the column span iff inSpan, then "none" is a violation
// by the Go-side oracle alone).
func c20EmitSolveRight[S algebra.PrimeFieldElement[S]](c *Ctx, r *Rng, f algebra.PrimeField[S], p string, rows [][]S, inSpan bool) {
	m, n := len(rows), len(rows[0])
	mod, err := mat.NewMatrixModule(uint(m), uint(n), f)
	if err != nil {
		c.Violation(fmt.Sprintf("NewMatrixModule(%d,%d): %v", m, n, err))
		return
	}
	M, err := mod.New(rows)
	if err != nil {
		c.Violation(fmt.Sprintf("MatrixModule.New: %v", err))
		return
	}
	b := make([]S, m)
	if inSpan {
		x := make([]S, n)
		for j := range x {
			x[j] = smallOrRandom(r, f, 50)
		}
		for i := range m {
			acc := f.Zero()
			for j := range n {
				acc = acc.Add(rows[i][j].Mul(x[j]))
			}
			b[i] = acc
		}
	} else {
		for i := range b {
			b[i] = smallOrRandom(r, f, 80)
		}
	}
	colMod, _ := mat.NewMatrixModule(uint(m), 1, f)
	B, err := colMod.NewRowMajor(b...)
	if err != nil {
		c.Violation(fmt.Sprintf("NewRowMajor: %v", err))
		return
	}
	res := safely(func() string {
		x, err := mat.SolveRight(M, B)
		if err != nil {
			c.Count("solveRight.none")
			return "none"
		}
		c.Count("solveRight.ok")
		xs := make([]S, n)
		for j := range n {
			xs[j], _ = x.Get(j, 0)
		}
		return "ok:" + scalarsHex(xs)
	})
	c20Shape(c, "solveRight", m, n, res)
	if inSpan && res == "none" {
		c.Violation(fmt.Sprintf("SolveRight reported no solution for b=A*x p=%s %dx%d M=%s b=%s", p, m, n, matHex(rows), scalarsHex(b)))
	}
	c.Emit(fmt.Sprintf("solveRight %s %d %d %s %s", p, m, n, matHex(rows), scalarsHex(b)), res)
}

func c20EmitSolveLeft[S algebra.PrimeFieldElement[S]](c *Ctx, r *Rng, f algebra.PrimeField[S], p string, rows [][]S, inSpan bool) {
	m, n := len(rows), len(rows[0])
	mod, err := mat.NewMatrixModule(uint(m), uint(n), f)
	if err != nil {
		c.Violation(fmt.Sprintf("NewMatrixModule(%d,%d): %v", m, n, err))
		return
	}
	M, err := mod.New(rows)
	if err != nil {
		c.Violation(fmt.Sprintf("MatrixModule.New: %v", err))
		return
	}
	b := make([]S, n)
	if inSpan {
		x := make([]S, m)
		for i := range x {
			x[i] = smallOrRandom(r, f, 50)
		}
		for j := range n {
			acc := f.Zero()
			for i := range m {
				acc = acc.Add(x[i].Mul(rows[i][j]))
			}
			b[j] = acc
		}
	} else {
		for j := range b {
			b[j] = smallOrRandom(r, f, 80)
		}
	}
	rowMod, _ := mat.NewMatrixModule(1, uint(n), f)
	B, err := rowMod.NewRowMajor(b...)
	if err != nil {
		c.Violation(fmt.Sprintf("NewRowMajor: %v", err))
		return
	}
	res := safely(func() string {
		x, err := mat.SolveLeft(M, B)
		if err != nil {
			c.Count("solveLeft.none")
			return "none"
		}
		c.Count("solveLeft.ok")
		xs := make([]S, m)
		for i := range m {
			xs[i], _ = x.Get(i, 0)
		}
		return "ok:" + scalarsHex(xs)
	})
	// x·M = r is the n×m system Mᵀ xᵀ = rᵀ
	c20Shape(c, "solveLeft", n, m, res)
	if inSpan && res == "none" {
		c.Violation(fmt.Sprintf("SolveLeft reported no solution for b=x*A p=%s %dx%d M=%s b=%s", p, m, n, matHex(rows), scalarsHex(b)))
	}
	c.Emit(fmt.Sprintf("solveLeft %s %d %d %s %s", p, m, n, matHex(rows), scalarsHex(b)), res)
}

// c20EmitDetInv: Determinant and TryInv of the leading k×k part, k = min(m, n).
func c20EmitDetInv[S algebra.PrimeFieldElement[S]](c *Ctx, f algebra.PrimeField[S], p string, rows [][]S) {
	k := min(len(rows), len(rows[0]))
	sq := make([][]S, k)
	for i := range sq {
		sq[i] = rows[i][:k]
	}
	alg, err := mat.NewMatrixAlgebra(uint(k), f)
	if err != nil {
		c.Violation(fmt.Sprintf("NewMatrixAlgebra: %v", err))
		return
	}
	A, err := alg.New(sq)
	if err != nil {
		c.Violation(fmt.Sprintf("MatrixAlgebra.New: %v", err))
		return
	}
	det := safely(func() string { return scalarHex(A.Determinant()) })
	if det == "0" {
		c.Count("det.zero")
	} else {
		c.Count("det.nonzero")
	}
	c.Emit(fmt.Sprintf("det %s %d %s", p, k, matHex(sq)), det)
	inv := safely(func() string {
		ai, err := A.TryInv()
		if err != nil {
			return "none"
		}
		out := make([]S, 0, k*k)
		for i := range k {
			for j := range k {
				e, _ := ai.Get(i, j)
				out = append(out, e)
			}
		}
		if !A.Mul(ai).IsIdentity() || !ai.Mul(A).IsIdentity() {
			c.Violation(fmt.Sprintf("TryInv: A*inv(A) != I or inv(A)*A != I p=%s n=%d M=%s", p, k, matHex(sq)))
		}
		return "ok:" + scalarsHex(out)
	})
	// the two code paths must agree: Determinant = 0 iff TryInv refuses (no model needed)
	if (det == "0") != (inv == "none") {
		c.Violation(fmt.Sprintf("Determinant and TryInv disagree on singularity p=%s n=%d M=%s det=%s inv=%s", p, k, matHex(sq), det, inv))
	}
	c.Emit(fmt.Sprintf("inv %s %d %s", p, k, matHex(sq)), inv)
}

func c20EmitMul[S algebra.PrimeFieldElement[S]](c *Ctx, r *Rng, f algebra.PrimeField[S], p string, rows [][]S, k int) {
	m, n := len(rows), len(rows[0])
	mod, _ := mat.NewMatrixModule(uint(m), uint(n), f)
	M, err := mod.New(rows)
	if err != nil {
		c.Violation(fmt.Sprintf("MatrixModule.New: %v", err))
		return
	}
	rows2 := genRows(r, f, n, k)
	mod2, _ := mat.NewMatrixModule(uint(n), uint(k), f)
	B, err := mod2.New(rows2)
	if err != nil {
		c.Violation(fmt.Sprintf("MatrixModule.New: %v", err))
		return
	}
	res := safely(func() string {
		pr, err := M.TryMul(B)
		if err != nil {
			return "err"
		}
		out := make([]S, 0, m*k)
		for i := range m {
			for j := range k {
				e, _ := pr.Get(i, j)
				out = append(out, e)
			}
		}
		return scalarsHex(out)
	})
	c.Count("mul")
	c.Emit(fmt.Sprintf("mul %s %d %d %d %s %s", p, m, n, k, matHex(rows), matHex(rows2)), res)
}

// c20EmitMismatch: dimension mismatches are refused (result class only; outside the property's domain).
func c20EmitMismatch[S algebra.PrimeFieldElement[S]](c *Ctx, r *Rng, f algebra.PrimeField[S], p string, rows [][]S) {
	m, n := len(rows), len(rows[0])
	mod, _ := mat.NewMatrixModule(uint(m), uint(n), f)
	M, err := mod.New(rows)
	if err != nil {
		c.Violation(fmt.Sprintf("MatrixModule.New: %v", err))
		return
	}
	class := func(err error) string {
		if err == nil {
			return "ok"
		}
		return c20ErrClass(err)
	}
	// SolveRight with a column of the wrong length / a non-column; SolveLeft likewise
	lb := m + 1 + r.IntN(2)
	if r.IntN(2) == 0 && m > 1 {
		lb = m - 1
	}
	cm, _ := mat.NewMatrixModule(uint(lb), 1, f)
	B, _ := cm.NewRowMajor(c20Coeffs(r, f, lb)...)
	c.Count("mismatch")
	c.Emit(fmt.Sprintf("solveRightDim %s %d %d %d 1", p, m, n, lb), safely(func() string { _, err := mat.SolveRight(M, B); return class(err) }))
	rm, _ := mat.NewMatrixModule(1, uint(m+1), f)
	B2, _ := rm.NewRowMajor(c20Coeffs(r, f, m+1)...)
	c.Emit(fmt.Sprintf("solveRightDim %s %d %d 1 %d", p, m, n, m+1), safely(func() string { _, err := mat.SolveRight(M, B2); return class(err) }))
	lr := n + 1
	rm2, _ := mat.NewMatrixModule(1, uint(lr), f)
	R, _ := rm2.NewRowMajor(c20Coeffs(r, f, lr)...)
	c.Emit(fmt.Sprintf("solveLeftDim %s %d %d 1 %d", p, m, n, lr), safely(func() string { _, err := mat.SolveLeft(M, R); return class(err) }))
	cm2, _ := mat.NewMatrixModule(uint(n+1), 1, f)
	R2, _ := cm2.NewRowMajor(c20Coeffs(r, f, n+1)...)
	c.Emit(fmt.Sprintf("solveLeftDim %s %d %d %d 1", p, m, n, n+1), safely(func() string { _, err := mat.SolveLeft(M, R2); return class(err) }))
	// TryMul with inner dimensions that do not match
	k2 := n + 1
	mod2, _ := mat.NewMatrixModule(uint(k2), 2, f)
	B3, _ := mod2.NewRowMajor(c20Coeffs(r, f, k2*2)...)
	c.Emit(fmt.Sprintf("mulDim %s %d %d %d 2", p, m, n, k2), safely(func() string { _, err := M.TryMul(B3); return class(err) }))
}

// c20ShapeSweep: every shape m×n with 0 <= m, n <= maxDim exactly once per structure kind, so that no
// shape (0-dimensional, 1×1, single row/column, square, over-/under-determined) depends on the random
// draw: 0-dimensional modules/algebras must be refused by the constructors; for every other shape a
// generic matrix, a rank-deficient one (a row that is a multiple of another and/or a zero column) and a
// permutation-structured one go through SolveRight (consistent and arbitrary right-hand side),
// SolveLeft, Determinant/TryInv of the leading square part, TryMul and the dimension-mismatch refusals.
func c20ShapeSweep[S algebra.PrimeFieldElement[S]](c *Ctx, f algebra.PrimeField[S], maxDim int, stream uint64) {
	r := NewRng(c.Seed, 2300+stream)
	p := hexNat(fieldOrder(f))
	for m := 0; m <= maxDim; m++ {
		for n := 0; n <= maxDim; n++ {
			if m == 0 || n == 0 {
				c.Note("TRIVIAL")
				c.Count("shape.zero-dim")
				c.Emit(fmt.Sprintf("newModule %s %d %d", p, m, n), safely(func() string {
					_, err := mat.NewMatrixModule(uint(m), uint(n), f)
					if err != nil {
						return c20ErrClass(err)
					}
					return "ok"
				}))
				if m == n {
					c.Note("TRIVIAL")
					c.Emit(fmt.Sprintf("newAlgebra %s %d", p, m), safely(func() string {
						_, err := mat.NewMatrixAlgebra(uint(m), f)
						if err != nil {
							return c20ErrClass(err)
						}
						return "ok"
					}))
				}
				continue
			}
			for kind := 0; kind < 3; kind++ {
				rows := make([][]S, m)
				for i := range rows {
					rows[i] = make([]S, n)
					for j := range rows[i] {
						rows[i][j] = smallOrRandom(r, f, []int{60, 90, 100}[kind])
					}
				}
				switch kind {
				case 1: // rank-deficient: dependent row and/or zero column
					if m >= 2 {
						i := r.IntN(m)
						k := (i + 1 + r.IntN(m-1)) % m
						a := smallOrRandom(r, f, 60)
						for j := range n {
							rows[i][j] = rows[k][j].Mul(a)
						}
					}
					if n >= 2 && (m < 2 || r.IntN(2) == 0) {
						j := r.IntN(n)
						for i := range m {
							rows[i][j] = f.Zero()
						}
					}
				case 2: // permuted (partial) diagonal
					k := min(m, n)
					perm := r.Perm(k)
					for i := range rows {
						for j := range rows[i] {
							rows[i][j] = f.Zero()
						}
					}
					for i := 0; i < k; i++ {
						rows[i][perm[i]] = f.FromUint64(uint64(1 + r.IntN(3)))
					}
				}
				c.Count(fmt.Sprintf("shape.kind%d", kind))
				c20EmitSolveRight(c, r, f, p, rows, true)
				c20EmitSolveRight(c, r, f, p, rows, false)
				c20EmitSolveLeft(c, r, f, p, rows, r.IntN(2) == 0)
				c20EmitDetInv(c, f, p, rows)
				if kind == 0 {
					c20EmitMul(c, r, f, p, rows, 1+r.IntN(3))
					c20EmitMismatch(c, r, f, p, rows)
				}
			}
		}
	}
}

func c20Field[S algebra.PrimeFieldElement[S]](c *Ctx, f algebra.PrimeField[S], count int, stream uint64) {
	r := NewRng(c.Seed, 2000+stream)
	p := hexNat(fieldOrder(f))
	for it := 0; it < count; it++ {
		m, n := 1+r.IntN(6), 1+r.IntN(6)
		if c.Thorough() && r.IntN(10) == 0 {
			m, n = 1+r.IntN(12), 1+r.IntN(12)
		}
		rows := genRows(r, f, m, n)
		switch r.IntN(5) {
		case 0, 1: // SolveRight: b either in the column span (x chosen) or arbitrary
			c20EmitSolveRight(c, r, f, p, rows, r.IntN(2) == 0)
		case 2:
			c20EmitSolveLeft(c, r, f, p, rows, r.IntN(2) == 0)
		case 3: // Determinant and inverse of the square part
			c20EmitDetInv(c, f, p, rows)
		case 4: // TryMul
			c20EmitMul(c, r, f, p, rows, 1+r.IntN(5))
		}
	}
}
