package main

func init() { register("C19", runC19) }

func runC19(c *Ctx) {
	c19Hashes(c)
}
