package main

func init() { register("C19", runC19) }

func runC19(c *Ctx) {
	c19Hashes(c)
	c19Transcripts(c)
	c19H2C(c)
}
