// proto_types.go — short names for the concrete point / base-field / scalar types of each curve.

package main

import (
	"github.com/bronlabs/bron-crypto/pkg/base/curves/edwards25519"
	"github.com/bronlabs/bron-crypto/pkg/base/curves/k256"
	"github.com/bronlabs/bron-crypto/pkg/base/curves/p256"
	"github.com/bronlabs/bron-crypto/pkg/base/curves/pasta"
)

type (
	k256Point    = k256.Point
	k256Base     = k256.BaseFieldElement
	k256Scalar   = k256.Scalar
	p256Point    = p256.Point
	p256Base     = p256.BaseFieldElement
	p256Scalar   = p256.Scalar
	edPoint      = edwards25519.PrimeSubGroupPoint
	edBase       = edwards25519.BaseFieldElement
	edScalar     = edwards25519.Scalar
	pallasPoint  = pasta.PallasPoint
	pallasBase   = pasta.FpFieldElement
	pallasScalar = pasta.FqFieldElement
	vestaPoint   = pasta.VestaPoint
	vestaBase    = pasta.FqFieldElement
	vestaScalar  = pasta.FpFieldElement
)
