// c01_seq.go — C01: large committees and object reuse.
//
// Two further dimensions of the configuration space:
//   committee size   keys for 65–130 holders (more than 64 MSP rows: threshold, hierarchical, CNF with
//                    several rows per holder, boolean expression with many leaves) from the trusted
//                    dealer, signed by small quorums whose members own high MSP rows;
//   object reuse     after key generation the SAME shard / MSP objects serve several signing sessions in
//                    sequence: quorum A, a quorum B that differs from A only in a holder of high rows, A
//                    again, a non-minimal superset, a quorum of high-row holders only, a quorum that
//                    differs in a low-row holder; between the sessions Accepts / ReconstructionVector /
//                    ReconstructionCoefficients / ConvertShareToAdditive are called on the same MSP object
//                    for further subsets (qualified and unqualified). Every session must yield a valid
//                    signature with all aggregators agreeing, and every direct answer is emitted:
//   C01 mspseq <n> <rows> <cols> <labels> <M> <call;call;…> => ok
//        call = <ids>=<c,c,…> (ReconstructionVector, entries by ascending row) | <ids>=reject |
//               <ids>=accepts | <ids>=refuses (Accepts) ; driver: c·M_S = e₀ for every vector, `reject` /
//               `refuses` only for sets whose rows do not span e₀, `accepts` only for sets that do.
// The sequence pattern is also applied to small structures (object reuse alone).

package main

import (
	"fmt"
	"slices"
	"strings"

	"github.com/bronlabs/bron-crypto/pkg/base/algebra"
	"github.com/bronlabs/bron-crypto/pkg/base/curves"
	"github.com/bronlabs/bron-crypto/pkg/mpc/sharing/accessstructures"
	"github.com/bronlabs/bron-crypto/pkg/mpc/sharing/accessstructures/unanimity"
	"github.com/bronlabs/bron-crypto/pkg/mpc/sharing/scheme/kw"
)

func c01ShortSpec(spec string) string {
	if len(spec) <= 160 {
		return spec
	}
	return fmt.Sprintf("%s…(%d-chars,%d-holders)", spec[:120], len(spec), len(specIDs(spec)))
}

// c01BigSpec draws a structure with n holders (n > 64) of the given family whose MSP has more than 64
// rows and whose qualified sets include small ones (2–4 holders).
func c01BigSpec(r *Rng, family string, n int) string {
	switch family {
	case "th":
		return fmt.Sprintf("th:%d:%s", 2+r.IntN(2), idsStr(genIDs(r, n, 0)))
	case "un": // unanimity of a large committee is not a small-quorum structure: threshold instead
		return fmt.Sprintf("th:2:%s", idsStr(genIDs(r, n, 0)))
	case "hier":
		ids := sortedIDs(genIDs(r, n, 1<<20))
		cut := 2 + r.IntN(4)
		return fmt.Sprintf("hier:1:%s|%d:%s", idsStr(ids[:cut]), 2+r.IntN(2), idsStr(ids[cut:]))
	case "cnf":
		// three maximal unqualified sets that partition the holders: every holder misses two of them
		// (two MSP rows per holder); a set is qualified iff it meets two parts
		ids := genIDs(r, n, 0)
		a, b := n/3+r.IntN(3), 2*n/3+r.IntN(3)
		return fmt.Sprintf("cnf:%s|%s|%s", idsStr(ids[:a]), idsStr(ids[a:b]), idsStr(ids[b:]))
	case "bool":
		ids := genIDs(r, n, 0)
		leaves := make([]string, 0, n)
		for _, id := range ids[2:] {
			leaves = append(leaves, fmt.Sprint(uint64(id)))
		}
		return fmt.Sprintf("bool:th2(and(%d,%d),%s)", uint64(ids[0]), uint64(ids[1]), strings.Join(leaves, ","))
	}
	panic("c01BigSpec: " + family)
}

// c01SeqPlan builds the session quorums and the interleaved direct calls for one key.
type c01SeqStep struct {
	quorum []ID // signing session (nil: direct call only)
	direct []ID // subset for the direct MSP calls made before the session
}

// growQualified extends `start` with holders from `pool` (in order) until the set is qualified.
func growQualified(ac accessstructures.Monotone, start, pool []ID) []ID {
	s := slices.Clone(start)
	for _, id := range pool {
		if len(s) > 0 && ac.IsQualified(s...) {
			break
		}
		if !slices.Contains(s, id) {
			s = append(s, id)
		}
	}
	if !ac.IsQualified(s...) {
		return nil
	}
	// drop members that are not needed (keeps the first element)
	for i := len(s) - 1; i >= 1; i-- {
		t := slices.Delete(slices.Clone(s), i, i+1)
		if len(t) > 0 && ac.IsQualified(t...) {
			s = t
		}
	}
	return sortedIDs(s)
}

func c01SeqPlan(r *Rng, ac accessstructures.Monotone, labels []ID) []c01SeqStep {
	// "high" holders own only MSP rows with index ≥ 64, "low" holders own some row below 64: two quorums
	// that differ only in high holders select the same rows among rows 0..63. Small structures (or
	// structures where one of the two classes is empty) are split by position instead.
	minRow := map[ID]int{}
	for k := len(labels) - 1; k >= 0; k-- {
		minRow[labels[k]] = k
	}
	var low, high []ID
	for _, id := range accessIDs(ac) {
		if minRow[id] >= 64 {
			high = append(high, id)
		} else {
			low = append(low, id)
		}
	}
	if len(high) == 0 || len(low) == 0 {
		all := accessIDs(ac)
		cut := len(all) - (len(all)+2)/3
		low, high = slices.Clone(all[:cut]), slices.Clone(all[cut:])
	}
	r.Shuffle(len(low), func(i, j int) { low[i], low[j] = low[j], low[i] })
	r.Shuffle(len(high), func(i, j int) { high[i], high[j] = high[j], high[i] })
	if len(high) == 0 || len(low) == 0 {
		return nil
	}
	pool := append(slices.Clone(low), high...)
	A := growQualified(ac, []ID{high[0]}, pool)
	if A == nil {
		return nil
	}
	// B: A with its high member(s) replaced by other high holders, the low members kept
	var B []ID
	for _, hb := range high[1:] {
		cand := []ID{hb}
		for _, id := range A {
			if !slices.Contains(high, id) {
				cand = append(cand, id)
			}
		}
		if ac.IsQualified(cand...) && !slices.Equal(sortedIDs(cand), A) {
			B = sortedIDs(cand)
			break
		}
	}
	var steps []c01SeqStep
	add := func(q, d []ID) { steps = append(steps, c01SeqStep{q, d}) }
	lowPart := func(s []ID) []ID {
		var out []ID
		for _, id := range s {
			if !slices.Contains(high, id) {
				out = append(out, id)
			}
		}
		return out
	}
	add(A, A)
	if B != nil {
		add(B, lowPart(A)) // the low rows of A alone (usually unqualified), then B
		add(A, B)          // the same quorum a second time
		extra := high[len(high)-1]
		if !slices.Contains(B, extra) {
			add(sortedIDs(append(slices.Clone(B), extra)), A) // non-minimal superset of B
		}
	} else {
		add(A, lowPart(A))
	}
	if H := growQualified(ac, []ID{high[len(high)/2]}, append(slices.Clone(high), low...)); H != nil && len(H) <= 4 {
		add(H, H[1:]) // high-row holders first
	}
	if len(low) > len(lowPart(A)) { // a quorum that differs from A in a low-row holder
		var other []ID
		for _, id := range low {
			if !slices.Contains(A, id) {
				other = append(other, id)
			}
		}
		if C := growQualified(ac, []ID{high[0]}, append(other, low...)); C != nil && len(C) <= 4 {
			add(C, lowPart(B))
		}
	}
	// keep sessions small
	out := steps[:0]
	for _, st := range steps {
		if len(st.quorum) >= 2 && len(st.quorum) <= 5 {
			out = append(out, st)
		}
	}
	return out
}

// c01Sessions runs f once (ordinary case) or, with p.sequence, once per planned session on the same key
// objects, interleaved with direct calls on the MSP object of the first holder; emits the mspseq line.
func c01Sessions[P curves.Point[P, F, S], F algebra.FiniteFieldElement[F], S algebra.PrimeFieldElement[S]](o *jobOut, r *Rng, key *c01Key[P, F, S], q []ID, p c01Params, stream uint64, curve string, f func(q []ID, stream uint64, k int)) {
	if !p.sequence {
		f(q, stream, 0)
		return
	}
	v := shardView(key.shards[accessIDs(key.ac)[0]])
	plan := c01SeqPlan(r, key.ac, v.Labels)
	if len(plan) == 0 {
		o.Count("sequence.no-plan")
		o.Note("no session plan for " + c01ShortSpec(key.spec))
		f(q, stream, 0)
		return
	}
	if p.maxSessions > 0 && len(plan) > p.maxSessions {
		plan = plan[:p.maxSessions]
	}
	var calls []string
	direct := func(owner ID, set []ID) {
		if len(set) == 0 {
			return
		}
		m := key.shards[owner].MSP()
		calls = append(calls, idsStr(set)+"="+safely(func() string {
			if m.Accepts(set...) {
				return "accepts"
			}
			return "refuses"
		}))
		calls = append(calls, idsStr(set)+"="+safely(func() string {
			vec, err := m.ReconstructionVector(set...)
			if err != nil {
				return "reject"
			}
			rows, _ := vec.Dimensions()
			out := make([]S, rows)
			for i := range rows {
				out[i], _ = vec.Get(i, 0)
			}
			return scalarsHex(out)
		}))
		// share conversion of a member through the same object: must agree with the coefficients
		if slices.Contains(set, owner) && m.Accepts(set...) {
			res := safely(func() string {
				un, err := unanimity.NewUnanimityAccessStructure(idSet(set...))
				if err != nil {
					return "skip"
				}
				sch, err := kw.NewInducedScheme(m)
				if err != nil {
					return "scheme-" + classify(err)
				}
				add, err := sch.ConvertShareToAdditive(key.shards[owner].Share(), un)
				if err != nil {
					return "convert-" + classify(err)
				}
				cs, err := m.ReconstructionCoefficients(owner, set...)
				if err != nil {
					return "coefficients-" + classify(err)
				}
				sv := key.shards[owner].Share().Value()
				if len(cs) != len(sv) {
					return "coefficients-length"
				}
				acc := sv[0].Structure().(algebra.PrimeField[S]).Zero()
				for i := range cs {
					acc = acc.Add(cs[i].Mul(sv[i]))
				}
				if !acc.Equal(add.Value()) {
					return "additive-share-differs-from-coefficients"
				}
				return "ok"
			})
			o.Count("sequence.direct-convert")
			if res != "ok" && res != "skip" {
				o.Violation(c01Prop, fmt.Sprintf("msp-object-reuse %s owner=%d set=%s spec=%s", res, owner, idsStr(set), c01ShortSpec(key.spec)))
			}
		}
	}
	for k, st := range plan {
		owner := st.quorum[0]
		direct(owner, st.direct)
		f(st.quorum, stream+uint64(k+1)*1_000_033, k)
		direct(owner, st.quorum)
		o.Count("sequence.session")
	}
	o.Count("sequence.keys")
	if len(v.Labels) > 64 {
		o.Count("sequence.keys-with-more-than-64-rows")
	}
	cols := 0
	if len(v.Rows) > 0 {
		cols = len(v.Rows[0])
	}
	o.Emit(c01Prop, fmt.Sprintf("mspseq %s %d %d %s %s %s", hexNat(fieldOrder(v.Rows[0][0].Structure().(algebra.PrimeField[S]))), len(v.Rows), cols, idsStr(v.Labels), matHex(v.Rows), strings.Join(calls, ";")), "ok")
	_ = curve
}
