package main

// C15 — adversarially constructed inputs (no honest signer involved).
//
// ECDSA: freely chosen triples (r, s, v).  For every triple the key Q that RecoverPublicKey returns is
// computed and the triple is presented to the verifiers under Q (with v, with v omitted, strict and
// default) and under Q+G.  The truth is the verification equation in the Lean model curve arithmetic
// (`ecdsa.forge` handler / Sig.ecdsaForge), and on the Go side crypto/ecdsa and the textbook verifier.
// The r values cover the places where "recovered key = supplied key" and "the equation holds" part
// company: v ∈ {2,3} adds n to r *in the base field*, which is the x-coordinate r+n only while r+n < p.
//
// The Schnorr-family and BLS counterparts live next to the honest streams (c15_schnorr.go, c15_bls.go):
// they need the scheme/verifier/challenge closures set up there.

import (
	nativeEcdsa "crypto/ecdsa"
	"crypto/elliptic"
	"fmt"
	"math/big"

	"github.com/bronlabs/bron-crypto/pkg/base/algebra"
	"github.com/bronlabs/bron-crypto/pkg/base/curves"
	"github.com/bronlabs/bron-crypto/pkg/signatures/ecdsa"
)

func c15EcdsaForgeAll(c *Ctx) {
	r := NewRng(c.Seed, 1503)
	hs := c15Hashes()
	if c.Thorough() {
		for _, h := range hs {
			c15EcdsaForge(c, r, "k256", cK256, fK256, h, 24)
			c15EcdsaForge(c, r, "p256", cP256, fP256, h, 24)
		}
		return
	}
	s := int(c.Seed % 1000)
	if s < 0 {
		s = -s
	}
	c15EcdsaForge(c, r, "k256", cK256, fK256, hs[s%len(hs)], 4)
	c15EcdsaForge(c, r, "p256", cP256, fP256, hs[(s+4)%len(hs)], 4)
}

// c15ForgeRs: r candidates in [1, n): small values (r+n < p: the x-overflow bit is genuine), the wrap
// boundary p-n (largest r with r+n < p is p-n-1; r = p-n lifts to x = 0), the top of the range, and
// nRandom uniformly random values (for those r+n wraps around p).
func c15ForgeRs(r *Rng, p, n *big.Int, nRandom int) []*big.Int {
	var out []*big.Int
	small, edge := int64(3), int64(1)
	if nRandom > 8 {
		small, edge = 8, 3
	}
	for i := int64(1); i <= small; i++ {
		out = append(out, big.NewInt(i))
	}
	d := new(big.Int).Sub(p, n)
	for i := -edge - 1; i <= edge; i++ { // p-n-1 is the last r without wrap, p-n the first with
		out = append(out, new(big.Int).Add(d, big.NewInt(i)))
	}
	out = append(out, new(big.Int).Sub(n, big.NewInt(1)))
	for i := 0; i < nRandom; i++ {
		out = append(out, r.BigBelow(n))
	}
	// random r below p-n: overflow bit genuine, x = r+n
	for i := 0; i < nRandom/2; i++ {
		out = append(out, r.BigBelow(d))
	}
	var res []*big.Int
	for _, v := range out {
		if v.Sign() > 0 && v.Cmp(n) < 0 {
			res = append(res, v)
		}
	}
	return res
}

func c15EcdsaForge[P curves.Point[P, B, S], B algebra.PrimeFieldElement[B], S algebra.PrimeFieldElement[S]](
	c *Ctx, r *Rng, cname string, curve ecdsa.Curve[P, B, S], sf algebra.PrimeField[S], h c15Hash, nRandom int,
) {
	suite, err := ecdsa.NewSuite(curve, h.fn)
	if err != nil {
		c.Violation(fmt.Sprintf("ecdsa suite %s/%s: %v", cname, h.name, err))
		return
	}
	scheme, err := ecdsa.NewScheme(suite, r)
	if err != nil {
		c.Violation(fmt.Sprintf("ecdsa scheme %s/%s: %v", cname, h.name, err))
		return
	}
	vDefault, err1 := scheme.Verifier()
	vStrict, err2 := scheme.Verifier(ecdsa.VerifyNonMalleably[P, B, S])
	if err1 != nil || err2 != nil {
		c.Violation(fmt.Sprintf("ecdsa verifier %s/%s: %v %v", cname, h.name, err1, err2))
		return
	}
	bc := c15BigCurves[cname]
	n := fieldOrder(sf)
	G := curve.Generator()
	msgs := c15Messages(r, false)
	half := new(big.Int).Rsh(n, 1)
	sCands := []*big.Int{nil, big.NewInt(1), new(big.Int).Sub(n, big.NewInt(1)), nil, half, new(big.Int).Add(half, big.NewInt(1)), nil, big.NewInt(2)}

	for i, rb := range c15ForgeRs(r, bc.p, n, nRandom) {
		msg := msgs[(i+int(c.Seed&0xff))%len(msgs)]
		hh := h.fn()
		hh.Write(msg)
		digest := hh.Sum(nil)
		sb := sCands[(i+int(c.Seed&0xff))%len(sCands)]
		if sb == nil {
			sb = new(big.Int).Add(r.BigBelow(new(big.Int).Sub(n, big.NewInt(1))), big.NewInt(1))
		}
		rS, sS := scalarFromBig(sf, rb), scalarFromBig(sf, sb)
		wraps := new(big.Int).Add(rb, n).Cmp(bc.p) >= 0
		for v := 0; v < 4; v++ {
			lhs := fmt.Sprintf("ecdsa.forge %s %s %s %s %s %s %d", cname, h.name, hexBytes(msg), hexBytes(digest), scalarHex(rS), scalarHex(sS), v)
			vv := v
			var Q P
			have := false
			rec := safely(func() string {
				sg, err := ecdsa.NewSignature(rS, sS, &vv)
				if err != nil {
					return "none"
				}
				pk, err := ecdsa.RecoverPublicKey(suite, sg, msg)
				if err != nil {
					return "none"
				}
				Q, have = pk.Value(), true
				return pointStr(Q)
			})
			if !have {
				c.Emit(lhs, rec)
				c.Count("ecdsa.forge.unliftable")
				continue
			}
			verify := func(vf *ecdsa.Verifier[P, B, S], key P, v *int) string {
				return safely(func() string {
					sg, err := ecdsa.NewSignature(rS, sS, v)
					if err != nil {
						return "reject"
					}
					p, err := ecdsa.NewPublicKey(key)
					if err != nil {
						return "reject"
					}
					return c15Verdict(vf.Verify(sg, p, msg))
				})
			}
			dv, sv := verify(vDefault, Q, &vv), verify(vStrict, Q, &vv)
			dn, sn := verify(vDefault, Q, nil), verify(vStrict, Q, nil)
			dother := verify(vDefault, Q.Add(G), &vv)
			c.Emit(lhs, fmt.Sprintf("%s,%s,%s,%s,%s,%s", rec, dv, sv, dn, sn, dother))
			cls := "nowrap"
			if v >= 2 && wraps {
				cls = "wrap"
			}
			c.Count(fmt.Sprintf("ecdsa.forge.v%d.%s.%s", v, cls, dv))

			// independent implementations on the Go side: crypto/ecdsa (P-256) and the textbook verifier
			ax, _ := Q.AffineX()
			ay, _ := Q.AffineY()
			qx, qy := new(big.Int).SetBytes(ax.Bytes()), new(big.Int).SetBytes(ay.Bytes())
			ind := bc.ecdsaVerify(qx, qy, digest, rb, sb)
			if cname == "p256" {
				std := nativeEcdsa.Verify(&nativeEcdsa.PublicKey{Curve: elliptic.P256(), X: qx, Y: qy}, digest, rb, sb)
				if std != ind {
					c.Violation(fmt.Sprintf("crypto/ecdsa and the textbook verifier disagree (harness bug?): %s", lhs))
				}
			}
			if (dv == "accept") != ind {
				c.Violation(fmt.Sprintf("ecdsa: crafted (r,s,v) under its recovered key: library %s, independent verifier %v: %s", dv, ind, lhs))
			}
			if (dn == "accept") != ind {
				c.Violation(fmt.Sprintf("ecdsa: crafted (r,s), v omitted, under the key recovered with v: library %s, independent verifier %v: %s", dn, ind, lhs))
			}
			if sv == "accept" && dv != "accept" || sn == "accept" && dn != "accept" {
				c.Violation(fmt.Sprintf("ecdsa: strict verifier accepts what the default verifier rejects: %s", lhs))
			}
			if dother == "accept" {
				c.Violation(fmt.Sprintf("ecdsa: crafted (r,s,v) accepted under a key different from the recovered one: %s", lhs))
			}
		}
	}
}
