package main

// Observation of the router's accounting state (routerCore.buffered, routerCore.boxes and the
// per-mailbox payload maps) by reflection.  Nothing is ever written.  The documented meaning of
// `buffered` is "number of undelivered messages buffered across all correlation IDs", i.e.
// buffered = Σ_box len(box.payloads) whenever `mu` is free; that equation is checked on the real
// state (no model involved), and the two counters are also put on the line for the Lean side.
// If a field is renamed or retyped the probe reports "not observable" and these checks are skipped
// (the behavioural lifetime histories of c11_life.go do not depend on it).

import (
	"reflect"
	"sync"
	"unsafe"

	"github.com/bronlabs/bron-crypto/pkg/network"
)

type c11Peek struct {
	ok       bool
	mu       *sync.Mutex
	buffered *int
	boxes    reflect.Value // map[string]*mailbox
}

func c11Unseal(f reflect.Value) reflect.Value {
	return reflect.NewAt(f.Type(), unsafe.Pointer(f.UnsafeAddr())).Elem()
}

func newC11Peek(r *network.Router) (p *c11Peek) {
	p = &c11Peek{}
	defer func() {
		if recover() != nil {
			p.ok = false
		}
	}()
	rv := reflect.ValueOf(r).Elem()
	cf := rv.FieldByName("core")
	if !cf.IsValid() || cf.Kind() != reflect.Pointer || cf.IsNil() {
		return p
	}
	core := c11Unseal(cf).Elem()
	if core.Kind() != reflect.Struct {
		return p
	}
	mu := core.FieldByName("mu")
	bf := core.FieldByName("buffered")
	bx := core.FieldByName("boxes")
	if !mu.IsValid() || !bf.IsValid() || !bx.IsValid() {
		return p
	}
	if mu.Type() != reflect.TypeOf(sync.Mutex{}) || bf.Kind() != reflect.Int || bx.Kind() != reflect.Map {
		return p
	}
	et := bx.Type().Elem()
	if et.Kind() != reflect.Pointer || et.Elem().Kind() != reflect.Struct {
		return p
	}
	if pf, ok := et.Elem().FieldByName("payloads"); !ok || pf.Type.Kind() != reflect.Map {
		return p
	}
	p.mu = (*sync.Mutex)(unsafe.Pointer(mu.UnsafeAddr()))
	p.buffered = (*int)(unsafe.Pointer(bf.UnsafeAddr()))
	p.boxes = c11Unseal(bx)
	p.ok = true
	return p
}

// read returns the counter, the number of mailbox objects and (if sum) Σ len(payloads), under mu.
func (p *c11Peek) read(sum bool) (buffered, nboxes, held int) {
	p.mu.Lock()
	defer p.mu.Unlock()
	buffered = *p.buffered
	nboxes = p.boxes.Len()
	held = -1
	if sum {
		held = 0
		it := p.boxes.MapRange()
		for it.Next() {
			box := it.Value()
			if box.IsNil() {
				continue
			}
			held += box.Elem().FieldByName("payloads").Len()
		}
	}
	return buffered, nboxes, held
}
