package main

import (
	"fmt"
	"math/big"
	"strconv"

	"github.com/bronlabs/bron-crypto/pkg/base/ct"
	"github.com/bronlabs/bron-crypto/pkg/base/nt/numct"
)

// intSS renders a numct.Int result by value ("<hex>/<cap>", sign from Big()). The internal sign flag of a
// zero result is examined by the dedicated "i.zero-sign" lines only, so that one root cause has one key.
func intSS(i *numct.Int) string { return intS(i) }

// c17Int: every arithmetic method of numct.Int.
func c17Int(g *g17, count int) {
	for it := 0; it < count; it++ {
		switch op := g.r.IntN(30); op {
		case 0, 1, 2, 3, 4, 5: // add / sub / mul
			x, y := g.cint(), g.cint()
			if op >= 4 && x.v.BitLen()+y.v.BitLen() > 4200 {
				y = g.cintSmall()
			}
			if g.r.IntN(6) == 0 { // cancellation: x + (-x), x - x
				y = cnat{new(big.Int).Neg(x.val()), g.capGE(x.val())}
				if op/2 == 1 {
					y.v = new(big.Int).Set(x.val())
				}
			}
			name := []string{"add", "sub", "mul"}[op/2]
			need := map[string]int{"add": max(x.c, y.c) + 1, "sub": max(x.c, y.c) + 1, "mul": x.c + y.c}[name]
			cp, cs := g.capArg(need)
			al := g.r.IntN(4)
			ro := g.reuseIf(al == 3)
			al %= 3
			g.emit(fmt.Sprintf("%s a%d %s %s %s", ro.op("i."+name), al, x, y, cs), func() string {
				a, b := x.int(), y.int()
				out := ro.int(x.c + y.c)
				if al == 1 {
					out = a
				} else if al == 2 {
					out = b
				}
				want := new(big.Int)
				switch name {
				case "add":
					if cs == "_" {
						out.Add(a, b)
					} else {
						out.AddCap(a, b, cp)
					}
					want.Add(x.val(), y.val())
				case "sub":
					if cs == "_" {
						out.Sub(a, b)
					} else {
						out.SubCap(a, b, cp)
					}
					want.Sub(x.val(), y.val())
				default:
					if cs == "_" {
						out.Mul(a, b)
					} else {
						out.MulCap(a, b, cp)
					}
					want.Mul(x.val(), y.val())
				}
				if al == 0 && (cs == "_" || cp >= need) {
					g.xc("i."+name, out.Big(), want)
				}
				return intSS(out)
			})
		case 6, 7, 8, 9: // the four divisions: truncated (Div, DivVarTime) and Euclidean (EuclideanDiv, EuclideanDivVarTime)
			x, y := g.cintSmall(), g.cintSmall()
			if g.r.IntN(4) == 0 && y.val().Sign() != 0 {
				x = g.cintOf(new(big.Int).Mul(y.val(), g.smallInt()))
			}
			name := []string{"div", "divvt", "ediv", "edivvt"}[op-6]
			al := g.r.IntN(3)
			ro := g.reuseIf(al == 2)
			al %= 2
			g.emit(fmt.Sprintf("%s a%d %s %s", ro.op("i."+name), al, x, y), func() string {
				a, b := x.int(), y.int()
				q := ro.int(x.c)
				if al == 1 {
					q = a
				}
				var ok ct.Bool
				var rs string
				var rBig *big.Int
				switch name {
				case "div", "divvt":
					r := ro.int(y.c)
					if name == "div" {
						ok = q.Div(r, a, b)
					} else {
						ok = q.DivVarTime(r, a, b)
					}
					rs, rBig = intSS(r), r.Big()
				default:
					r := ro.nat(y.c)
					if name == "ediv" {
						ok = q.EuclideanDiv(r, a, b)
					} else {
						ok = q.EuclideanDivVarTime(r, a, b)
					}
					rs, rBig = natS(r), r.Big()
				}
				if ok == ct.False {
					return "none"
				}
				if y.val().Sign() != 0 && al == 0 && (name == "div" || name == "ediv") { // the var-time variants are decided by the driver (own keys)
					wq, wr := new(big.Int), new(big.Int)
					if name == "div" || name == "divvt" {
						wq.QuoRem(x.val(), y.val(), wr) // truncated
					} else {
						wq.DivMod(x.val(), y.val(), wr) // Euclidean
					}
					g.xc("i."+name+".q", q.Big(), wq)
					g.xc("i."+name+".r", rBig, wr)
				}
				return "ok:" + intSS(q) + "," + rs
			})
		case 10: // neg / abs / double / square / incr / decr
			x := g.cint()
			name := []string{"neg", "abs", "double", "square", "incr", "decr"}[g.r.IntN(6)]
			ro := g.reuse()
			g.emit(fmt.Sprintf("%s %s", ro.op("i."+name), x), func() string {
				a := x.int()
				out := ro.int(2 * x.c)
				switch name {
				case "neg":
					out.Neg(a)
				case "abs":
					out.Abs(a)
				case "double":
					out.Double(a)
				case "square":
					out.Square(a)
				case "incr":
					a.Increment()
					out = a
				default:
					a.Decrement()
					out = a
				}
				return intSS(out)
			})
		case 11: // gcd / coprime
			x, y := g.cintSmall(), g.cintSmall()
			if g.r.IntN(3) == 0 {
				f := g.natN(64)
				x, y = g.cintOf(new(big.Int).Mul(x.val(), f)), g.cintOf(new(big.Int).Mul(y.val(), f))
			}
			ro := g.reuse()
			g.emit(fmt.Sprintf("%s %s %s", ro.op("i.gcd"), x, y), func() string {
				out := *ro.int(max(x.c, y.c))
				out.GCD(x.int(), y.int())
				g.xc("i.gcd", out.Big(), new(big.Int).GCD(nil, nil, new(big.Int).Abs(x.val()), new(big.Int).Abs(y.val())))
				return intSS(&out) + "," + b01(x.int().Coprime(y.int()))
			})
		case 12: // sqrt
			x := g.cint()
			if g.r.IntN(2) == 0 {
				h := g.natN(1 + g.r.IntN(300))
				x = g.cintOf(h.Mul(h, h))
				if g.r.IntN(4) == 0 {
					x = g.cintOf(new(big.Int).Neg(x.v))
				}
			}
			ro := g.reuse()
			g.emit(fmt.Sprintf("%s %s", ro.op("i.sqrt"), x), func() string {
				out := *ro.int(x.c)
				if out.Sqrt(x.int()) == ct.False {
					return "none"
				}
				return "ok:" + intSS(&out)
			})
		case 13, 14: // comparisons
			x, y := g.cint(), g.cint()
			switch g.r.IntN(5) {
			case 0:
				y = cnat{x.val(), g.capGE(x.val())}
			case 1:
				y = cnat{new(big.Int).Neg(x.val()), g.capGE(x.val())}
			case 2:
				y = g.cintOf(new(big.Int).Add(x.val(), bOne))
			}
			g.emit(fmt.Sprintf("i.cmp %s %s", x, y), func() string {
				a, b := x.int(), y.int()
				res := cmp3(a.Compare(b))
				if (a.Equal(b) == ct.True) != (res == "eq") {
					g.c.Violation(fmt.Sprintf("i.Equal disagrees with Compare %s %s", x, y))
				}
				g.xcs("i.cmp", res, cmpBig(x.val(), y.val()))
				return res
			})
		case 15: // predicates
			x := g.cint()
			g.emit(fmt.Sprintf("i.preds %s", x), func() string {
				a := x.int()
				return b01(a.IsZero()) + b01(a.IsNonZero()) + b01(a.IsOne()) + b01(a.IsOdd()) + b01(a.IsEven()) + b01(a.IsNegative()) + b01(a.IsUnit()) +
					"," + strconv.Itoa(a.TrueLen()) + "," + strconv.Itoa(a.AnnouncedLen())
			})
		case 16: // shifts (sign preserved, magnitude shifted)
			x := g.cint()
			sh := []int{0, 1, 7, 63, 64, 65, g.r.IntN(200), g.r.IntN(x.c + 2)}[g.r.IntN(8)]
			name := []string{"lsh", "rsh"}[g.r.IntN(2)]
			ro := g.reuse()
			g.emit(fmt.Sprintf("%s %s %d", ro.op("i."+name), x, sh), func() string {
				out := *ro.int(x.c + sh)
				if name == "lsh" {
					out.Lsh(x.int(), uint(sh))
				} else {
					out.Rsh(x.int(), uint(sh))
				}
				return intSS(&out)
			})
		case 17, 18: // bitwise on two's complement
			x, y := g.cint(), g.cint()
			name := []string{"and", "or", "xor", "not"}[g.r.IntN(4)]
			need := max(x.c, y.c)
			if name == "not" {
				need = x.c
			}
			cp, cs := need, "_"
			if g.r.IntN(3) == 0 {
				cp = need + g.r.IntN(70)
				cs = strconv.Itoa(cp)
			}
			ro := g.reuse()
			g.emit(fmt.Sprintf("%s %s %s %s", ro.op("i."+name), x, y, cs), func() string {
				a, b := x.int(), y.int()
				out := *ro.int(cp)
				want := new(big.Int)
				switch name {
				case "and":
					if cs == "_" {
						out.And(a, b)
					} else {
						out.AndCap(a, b, cp)
					}
					want.And(x.val(), y.val())
				case "or":
					if cs == "_" {
						out.Or(a, b)
					} else {
						out.OrCap(a, b, cp)
					}
					want.Or(x.val(), y.val())
				case "xor":
					if cs == "_" {
						out.Xor(a, b)
					} else {
						out.XorCap(a, b, cp)
					}
					want.Xor(x.val(), y.val())
				default:
					if cs == "_" {
						out.Not(a)
					} else {
						out.NotCap(a, cp)
					}
					want.Not(x.val())
				}
				g.xc("i."+name, out.Big(), want)
				return intSS(&out)
			})
		case 19: // byte conversions: sign-magnitude and two's complement
			x := g.cint()
			g.emit(fmt.Sprintf("i.bytes %s", x), func() string {
				a := x.int()
				sm := a.Bytes()
				var back numct.Int
				if back.SetBytes(sm) != ct.True || back.Equal(a) != ct.True {
					g.c.Violation("i.SetBytes(Bytes) != i " + x.String())
				}
				tc := a.TwosComplementBytesBE()
				var back2 numct.Int
				if back2.SetTwosComplementBytesBE(tc) != ct.True || back2.Equal(a) != ct.True {
					g.c.Violation("i.SetTwosComplementBytesBE(TwosComplementBytesBE) != i " + x.String())
				}
				return hexBytes(sm) + "," + hexBytes(tc)
			})
		case 20: // decode arbitrary two's complement / sign-magnitude strings
			bs := make([]byte, g.r.IntN(24))
			_, _ = g.r.Read(bs)
			if len(bs) > 0 {
				switch g.r.IntN(5) {
				case 0:
					bs[0] = 0x80
					for i := 1; i < len(bs); i++ {
						bs[i] = 0
					}
				case 1:
					for i := range bs {
						bs[i] = 0xff
					}
				case 2:
					bs[0] &= 1
				}
			}
			ro := g.reuse()
			g.emit(fmt.Sprintf("%s %s", ro.op("i.fromtwos"), hexBytes(bs)), func() string {
				a := *ro.int(8 * len(bs))
				if a.SetTwosComplementBytesBE(bs) != ct.True {
					return "reject"
				}
				return intSS(&a)
			})
			g.emit(fmt.Sprintf("%s %s", ro.op("i.frombytes"), hexBytes(bs)), func() string {
				a := *ro.int(8 * len(bs))
				if a.SetBytes(bs) != ct.True {
					return "reject"
				}
				return intSS(&a)
			})
		case 21: // int64 / uint64
			v := int64(g.r.Uint64())
			switch g.r.IntN(6) {
			case 0:
				v = -1 << 63
			case 1:
				v = 1<<63 - 1
			case 2:
				v = int64(g.r.IntN(5)) - 2
			}
			g.emit(fmt.Sprintf("i.int64 %s", bi(v).Text(16)), func() string {
				a := numct.NewInt(v)
				if a.Int64() != v {
					g.c.Violation(fmt.Sprintf("i.Int64(SetInt64(%d)) = %d", v, a.Int64()))
				}
				u := numct.NewIntFromUint64(uint64(v))
				if u.Uint64() != uint64(v) {
					g.c.Violation(fmt.Sprintf("i.Uint64(SetUint64(%d)) = %d", uint64(v), u.Uint64()))
				}
				return intSS(a) + "," + intSS(u)
			})
		case 22: // Inv (units of Z), Select, CondAssign, CondNeg, SetNat, Resize
			x, y := g.cint(), g.cint()
			if g.r.IntN(3) == 0 {
				x = cnat{bi(int64(g.r.IntN(5)) - 2), 2 + g.r.IntN(70)}
			}
			ch := g.r.IntN(2)
			ro := g.reuse()
			g.emit(fmt.Sprintf("%s %d %s %s", ro.op("i.misc"), ch, x, y), func() string {
				a, b := x.int(), y.int()
				sel, inv := *ro.int(max(x.c, y.c)), *ro.int(x.c)
				sel.Select(ct.Choice(ch), a, b)
				ca := a.Clone()
				ca.CondAssign(ct.Choice(ch), b)
				if ca.Big().Cmp(sel.Big()) != 0 {
					g.c.Violation(fmt.Sprintf("i.CondAssign != i.Select %d %s %s", ch, x, y))
				}
				cn := a.Clone()
				cn.CondNeg(ct.Choice(ch))
				invS := "none"
				if inv.Inv(a) == ct.True {
					invS = "ok:" + intSS(&inv)
				}
				return intSS(&sel) + "," + intSS(cn) + "," + invS
			})
		case 23: // random range
			lo, hi := g.intN(200), g.intN(200)
			if lo.Cmp(hi) > 0 {
				lo, hi = hi, lo
			}
			l, h := cnat{lo, g.capGE(lo)}, cnat{hi, g.capGE(hi)}
			g.emit(fmt.Sprintf("i.randlh %s %s", l, h), func() string {
				var out numct.Int
				if err := out.SetRandomRangeLH(l.int(), h.int(), g.r); err != nil {
					return "err"
				}
				return out.Big().Text(16)
			})
		case 24: // primality
			v := g.intN(1 + g.r.IntN(96))
			if g.r.IntN(3) == 0 {
				v = g.prime()
				if v.BitLen() > 1300 {
					v = bi(97)
				}
				if g.r.IntN(3) == 0 {
					v.Neg(v)
				}
			}
			x := cnat{v, g.capGE(v)}
			g.emit(fmt.Sprintf("i.prime %s", x), func() string { return b01(x.int().IsProbablyPrime()) })
		default: // the sign of a zero result (dedicated lines: a correct integer zero is not negative)
			x, y := g.cint(), g.cint()
			name := []string{"mul0", "rsh-all", "div-small", "divvt-small", "lsh0"}[g.r.IntN(5)]
			if x.val().Sign() >= 0 {
				x = g.cintOf(new(big.Int).Neg(new(big.Int).Add(x.val(), bOne)))
			}
			if y.val().Sign() == 0 {
				y = cnat{bi(1), 1}
			}
			g.emit(fmt.Sprintf("i.zero-sign %s %s %s", name, x, y), func() string {
				a, b := x.int(), y.int()
				var out numct.Int
				switch name {
				case "mul0":
					out.Mul(a, numct.IntZero())
				case "rsh-all":
					out.Rsh(a, uint(x.c+1))
				case "div-small": // |x| < |y| * k  →  quotient of x / (y * 2^cap) is 0
					var r, d numct.Int
					d.Lsh(b, uint(x.c+1))
					out.Div(&r, a, &d)
				case "divvt-small":
					var r, d numct.Int
					d.Lsh(b, uint(x.c+1))
					out.DivVarTime(&r, a, &d)
				default:
					out.Sub(a, a)
				}
				lt, eq, gt := out.Compare(numct.IntZero())
				return b01(out.IsZero()) + b01(out.IsNegative()) + "," + cmp3(lt, eq, gt)
			})
		}
	}
}
