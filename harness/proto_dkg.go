// proto_dkg.go — key generation through the shared protocol layer (see proto.go).
//
//   runTrustedDealer(group, ac, rng)                          one dealer, no rounds
//   runGennaro(group, ac, ctxs, rngs, hook, compiler)         3 rounds (Pedersen, then Feldman)
//   runCanetti(group, ac, ctxs, rngs, hook)                   4 rounds (commit, open+share, prove, verify)
//   runGennaroRunner / runCanettiRunner                       the same through network.Runner
//
// Each returns *DKGResult: final shards per party, every dealer's broadcast Feldman verification
// vector (`DealerVV`, as each message left its sender, i.e. before any hook tampering: it is taken
// from the typed outputs) and, for Gennaro, the round-1 Pedersen vectors.
//
// Times (purego, this sandbox, 3 parties th:2): trusted dealer k256 ≈ 3 ms; Gennaro k256 ≈ 60 ms,
// bls12381g1 ≈ 200 ms, bls12381g2 ≈ 500 ms; Canetti similar (measured by `harness PROTO`).

package main

import (
	"io"

	"github.com/bronlabs/bron-crypto/pkg/base/algebra"
	"github.com/bronlabs/bron-crypto/pkg/mpc"
	"github.com/bronlabs/bron-crypto/pkg/mpc/dkg/canetti"
	"github.com/bronlabs/bron-crypto/pkg/mpc/dkg/gennaro"
	"github.com/bronlabs/bron-crypto/pkg/mpc/dkg/trusteddealer"
	"github.com/bronlabs/bron-crypto/pkg/mpc/session"
	"github.com/bronlabs/bron-crypto/pkg/mpc/sharing/accessstructures"
	"github.com/bronlabs/bron-crypto/pkg/network"
	"github.com/bronlabs/bron-crypto/pkg/proofs/sigma/compiler"
	"github.com/bronlabs/bron-crypto/pkg/proofs/sigma/compiler/fiatshamir"
)

// DKGResult is the outcome of a key generation.
type DKGResult[G algebra.PrimeGroupElement[G, S], S algebra.PrimeFieldElement[S]] struct {
	Net        *Net
	Shards     map[ID]*mpc.BaseShard[G, S]
	// Released: the shard of EVERY party that completed the last round, also when another party
	// failed in that round (Shards is set only when all parties completed). Round-by-round runs only.
	Released   map[ID]*mpc.BaseShard[G, S]
	DealerVV   map[ID][]G // dealer -> its broadcast Feldman verification vector
	PedersenVV map[ID][]G // Gennaro round 1
}

var defaultCompiler compiler.Name = fiatshamir.Name

// runTrustedDealer deals with the library's trusted dealer. The only "party" is the dealer (ID 0 in
// Net.Status).
func runTrustedDealer[G algebra.PrimeGroupElement[G, S], S algebra.PrimeFieldElement[S]](group algebra.PrimeGroup[G, S], ac accessstructures.Monotone, rng io.Reader) *DKGResult[G, S] {
	n := newNet("trusteddealer", []ID{0}, map[ID]io.Reader{0: rng}, nil)
	res := &DKGResult[G, S]{Net: n}
	n.watchdog(func() {
		out, ok := stepAll(n, 1, map[ID]struct{}{0: {}}, func(ID, struct{}) (map[ID]*mpc.BaseShard[G, S], error) {
			m, err := trusteddealer.Deal(group, ac, n.Rng(0))
			if err != nil {
				return nil, err
			}
			shards := map[ID]*mpc.BaseShard[G, S]{}
			for id, sh := range m.Iter() {
				shards[id] = sh
			}
			return shards, nil
		})
		if ok {
			res.Shards = out[0]
		}
	})
	return res
}

// runGennaro runs the Gennaro DKG round by round. ctxs must be contexts over exactly the
// shareholders of ac (from runSession or dealerContexts).
func runGennaro[G algebra.PrimeGroupElement[G, S], S algebra.PrimeFieldElement[S]](group algebra.PrimeGroup[G, S], ac accessstructures.Monotone, ctxs map[ID]*session.Context, rngs map[ID]io.Reader, hook Hook, nic compiler.Name) *DKGResult[G, S] {
	type P = *gennaro.Participant[G, S]
	type B1 = *gennaro.Round1Broadcast[G, S]
	type U1 = *gennaro.Round1Unicast[G, S]
	type B2 = *gennaro.Round2Broadcast[G, S]
	ids := accessIDs(ac)
	n := newNet("gennaro", ids, rngs, hook)
	res := &DKGResult[G, S]{Net: n, DealerVV: map[ID][]G{}, PedersenVV: map[ID][]G{}}
	n.watchdog(func() {
		ps, ok := construct(n, ids, func(id ID) (P, error) {
			return gennaro.NewParticipant(ctxs[id], group, ac, nic, n.Rng(id))
		})
		if !ok {
			return
		}
		r1, ok := stepAll(n, 1, ps, func(_ ID, p P) (pair[B1, network.OutgoingUnicasts[U1, P]], error) {
			b, u, err := p.Round1()
			return pair[B1, network.OutgoingUnicasts[U1, P]]{b, u}, err
		})
		if !ok {
			return
		}
		r1b, r1u := splitPairs(r1)
		for id, b := range r1b {
			if b != nil && b.PedersenVerificationVector != nil {
				res.PedersenVV[id] = vvPoints[G](b.PedersenVerificationVector.Value())
			}
		}
		r2bi := routeB[B1, P](n, 1, ids, r1b)
		r2ui := routeU[U1, P](n, 1, ids, r1u)
		r2, ok := stepAll(n, 2, ps, func(id ID, p P) (B2, error) { return p.Round2(r2bi[id], r2ui[id]) })
		if !ok {
			return
		}
		for id, b := range r2 {
			if b != nil && b.FeldmanVerificationVector != nil {
				res.DealerVV[id] = vvPoints[G](b.FeldmanVerificationVector.Value())
			}
		}
		r3bi := routeB[B2, P](n, 2, ids, r2)
		out, ok := stepAll(n, 3, ps, func(id ID, p P) (*mpc.BaseShard[G, S], error) { return p.Round3(r3bi[id]) })
		res.Released = out
		if ok {
			res.Shards = out
		}
	})
	return res
}

// runCanetti runs the Canetti DKG round by round.
func runCanetti[G algebra.PrimeGroupElement[G, S], S algebra.PrimeFieldElement[S]](group algebra.PrimeGroup[G, S], ac accessstructures.Monotone, ctxs map[ID]*session.Context, rngs map[ID]io.Reader, hook Hook) *DKGResult[G, S] {
	type P = *canetti.Participant[G, S]
	type B1 = *canetti.Round1Broadcast[G, S]
	type B2 = *canetti.Round2Broadcast[G, S]
	type U2 = *canetti.Round2P2P[G, S]
	type B3 = *canetti.Round3Broadcast[G, S]
	ids := accessIDs(ac)
	n := newNet("canetti", ids, rngs, hook)
	res := &DKGResult[G, S]{Net: n, DealerVV: map[ID][]G{}}
	n.watchdog(func() {
		ps, ok := construct(n, ids, func(id ID) (P, error) {
			return canetti.NewParticipant(ctxs[id], ac, group, n.Rng(id))
		})
		if !ok {
			return
		}
		r1, ok := stepAll(n, 1, ps, func(_ ID, p P) (B1, error) { return p.Round1() })
		if !ok {
			return
		}
		r2bi := routeB[B1, P](n, 1, ids, r1)
		r2, ok := stepAll(n, 2, ps, func(id ID, p P) (pair[B2, network.OutgoingUnicasts[U2, P]], error) {
			b, u, err := p.Round2(r2bi[id])
			return pair[B2, network.OutgoingUnicasts[U2, P]]{b, u}, err
		})
		if !ok {
			return
		}
		r2b, r2u := splitPairs(r2)
		for id, b := range r2b {
			if b != nil && b.Message != nil && b.Message.X != nil {
				res.DealerVV[id] = vvPoints[G](b.Message.X.Value())
			}
		}
		r3bi := routeB[B2, P](n, 2, ids, r2b)
		r3ui := routeU[U2, P](n, 2, ids, r2u)
		r3, ok := stepAll(n, 3, ps, func(id ID, p P) (B3, error) { return p.Round3(r3bi[id], r3ui[id]) })
		if !ok {
			return
		}
		r4bi := routeB[B3, P](n, 3, ids, r3)
		out, ok := stepAll(n, 4, ps, func(id ID, p P) (*mpc.BaseShard[G, S], error) { return p.Round4(r4bi[id]) })
		res.Released = out
		if ok {
			res.Shards = out
		}
	})
	return res
}

// runGennaroRunner runs the DKG through gennaro.NewRunner over routers.
func runGennaroRunner[G algebra.PrimeGroupElement[G, S], S algebra.PrimeFieldElement[S]](group algebra.PrimeGroup[G, S], ac accessstructures.Monotone, ctxs map[ID]*session.Context, rngs map[ID]io.Reader, nic compiler.Name) *DKGResult[G, S] {
	ids := accessIDs(ac)
	n := newNet("gennaro-runner", ids, rngs, nil)
	res := &DKGResult[G, S]{Net: n}
	runners, ok := construct(n, ids, func(id ID) (network.Runner[*mpc.BaseShard[G, S]], error) {
		return gennaro.NewRunner(ctxs[id], group, ac, nic, n.Rng(id))
	})
	if !ok {
		return res
	}
	out := runRunners(n, runners)
	if n.OK() {
		res.Shards = out
	}
	return res
}

// runCanettiRunner runs the DKG through canetti.NewRunner over routers.
func runCanettiRunner[G algebra.PrimeGroupElement[G, S], S algebra.PrimeFieldElement[S]](group algebra.PrimeGroup[G, S], ac accessstructures.Monotone, ctxs map[ID]*session.Context, rngs map[ID]io.Reader) *DKGResult[G, S] {
	ids := accessIDs(ac)
	n := newNet("canetti-runner", ids, rngs, nil)
	res := &DKGResult[G, S]{Net: n}
	runners, ok := construct(n, ids, func(id ID) (network.Runner[*mpc.BaseShard[G, S]], error) {
		return canetti.NewRunner(ctxs[id], ac, group, n.Rng(id))
	})
	if !ok {
		return res
	}
	out := runRunners(n, runners)
	if n.OK() {
		res.Shards = out
	}
	return res
}
